// Driver for C32: runs pkg/maintainer/spv getProofInfo (through the verif-tagged export
// VerifGetProofInfo) and whole proving rounds of spvMaintainer.proveTransactions (through
// VerifProveTransactions) against stub chains and prints the cases for the Coq model
// (Model/C32.v). All numbers are rendered as Z; big.Int difficulties are decimal strings in the
// replay input.
//
// The stub chains are long-lived and hand out the SAME big.Int objects (factor, difficulties)
// call after call; the driver overwrites them in place before every single call and checks after
// every call / round that they still hold the value they were handed out with ("kept"). Rounds
// (see round.go) run 2..6 transactions through ONE maintainer.
package main

import (
	"errors"
	"fmt"
	"math/big"
	"os"

	golog "github.com/ipfs/go-log/v2"
	"github.com/keep-network/keep-core/pkg/bitcoin"
	"github.com/keep-network/keep-core/pkg/maintainer/btcdiff"
	"github.com/keep-network/keep-core/pkg/maintainer/spv"

	"verifharness/lib"
)

type input struct {
	Latest uint64 `json:"latest,omitempty"`
	Conf   uint64 `json:"conf,omitempty"`
	Factor string `json:"factor,omitempty"`
	Epoch  uint64 `json:"epoch,omitempty"`
	DCur   string `json:"dcur,omitempty"`
	DPrev  string `json:"dprev,omitempty"`
	Fail   string `json:"fail,omitempty"` // "", latest, conf, factor, epoch, diff
	// set for a proving round (then the fields above are unused)
	Round *roundIn `json:"round,omitempty"`
}

var errInjected = errors.New("injected failure")

// ---- stub chains: only the methods getProofInfo calls are implemented; any other call hits
// the embedded nil interface and panics (which the driver reports as an unexpected panic).
// ONE set of stubs serves all single calls of a run: the big.Int objects they hand out are
// allocated once and overwritten in place (Set) before every call, the way a caller reuses a buffer.
type world struct {
	in                  input
	factor, dcur, dprev *big.Int // long-lived, handed out on every call
}

var single = &world{factor: new(big.Int), dcur: new(big.Int), dprev: new(big.Int)}

type btcStub struct {
	bitcoin.Chain
	w *world
}

func (b *btcStub) GetLatestBlockHeight() (uint, error) {
	if b.w.in.Fail == "latest" {
		return 0, errInjected
	}
	return uint(b.w.in.Latest), nil
}
func (b *btcStub) GetTransactionConfirmations(bitcoin.Hash) (uint, error) {
	if b.w.in.Fail == "conf" {
		return 0, errInjected
	}
	return uint(b.w.in.Conf), nil
}

type spvStub struct {
	spv.Chain
	w *world
}

func bigOf(s string) *big.Int {
	v, ok := new(big.Int).SetString(s, 10)
	if !ok {
		panic("bad big " + s)
	}
	return v
}

func (s *spvStub) TxProofDifficultyFactor() (*big.Int, error) {
	if s.w.in.Fail == "factor" {
		return nil, errInjected
	}
	return s.w.factor, nil
}

type diffStub struct {
	btcdiff.Chain
	w *world
}

func (d *diffStub) CurrentEpoch() (uint64, error) {
	if d.w.in.Fail == "epoch" {
		return 0, errInjected
	}
	return d.w.in.Epoch, nil
}
func (d *diffStub) GetCurrentAndPrevEpochDifficulty() (*big.Int, *big.Int, error) {
	if d.w.in.Fail == "diff" {
		return nil, nil, errInjected
	}
	return d.w.dcur, d.w.dprev, nil
}

var (
	singleBtc  = &btcStub{w: single}
	singleSpv  = &spvStub{w: single}
	singleDiff = &diffStub{w: single}
)

type obs struct {
	Kind   string `json:"kind"` // Info | Err | Panic
	Within bool   `json:"within"`
	Acc    uint64 `json:"acc"`
	Req    uint64 `json:"req"`
	// Kept: the factor and difficulty objects handed to the code still hold their values
	Kept   bool   `json:"kept"`
	Detail string `json:"detail,omitempty"`
}

func call(in input) (o obs) {
	f, dc, dp := bigOf(in.Factor), bigOf(in.DCur), bigOf(in.DPrev)
	single.in = in
	single.factor.Set(f) // overwrite the long-lived objects in place
	single.dcur.Set(dc)
	single.dprev.Set(dp)
	defer func() {
		if r := recover(); r != nil {
			o = obs{Kind: "Panic", Detail: fmt.Sprint(r)}
		}
		o.Kept = single.factor.Cmp(f) == 0 && single.dcur.Cmp(dc) == 0 && single.dprev.Cmp(dp) == 0
	}()
	w, acc, req, err := spv.VerifGetProofInfo(bitcoin.Hash{1}, singleBtc, singleSpv, singleDiff)
	if err != nil {
		return obs{Kind: "Err", Detail: err.Error()}
	}
	return obs{Kind: "Info", Within: w, Acc: uint64(acc), Req: uint64(req)}
}

const epochLen = 2016 // only used to steer generation and to label cases, never to judge

var failCtor = map[string]string{"": "NoFail", "latest": "FailLatest", "conf": "FailConf",
	"factor": "FailFactor", "epoch": "FailEpoch", "diff": "FailDiff"}

func run(in input, em *lib.Emitter, id string) {
	o := call(in)
	var out string
	switch o.Kind {
	case "Info":
		out = fmt.Sprintf("(Info %s %s %s)", lib.Bool(o.Within), lib.ZU(o.Acc), lib.ZU(o.Req))
	case "Err":
		out = "Err"
	default:
		out = "Panic"
	}
	coq := fmt.Sprintf("(Single {| i_latest := %s; i_conf := %s; i_factor := %s; i_epoch := %s; i_dcur := %s; i_dprev := %s; i_fail := %s |} %s %s)",
		lib.ZU(in.Latest), lib.ZU(in.Conf), lib.ZBig(bigOf(in.Factor)), lib.ZU(in.Epoch),
		lib.ZBig(bigOf(in.DCur)), lib.ZBig(bigOf(in.DPrev)), failCtor[in.Fail], out, lib.Bool(o.Kept))

	// labels (for the distribution, the non-triviality rule and known-findings matching)
	dc, dp, f := bigOf(in.DCur), bigOf(in.DPrev), bigOf(in.Factor)
	diff := "same"
	if dc.Cmp(dp) > 0 {
		diff = "up"
	} else if dc.Cmp(dp) < 0 {
		diff = "down"
	}
	class := "malformed"
	wellFormed := in.Fail == "" && in.Conf <= in.Latest+1 && in.Latest+1 != 0 && f.Sign() > 0 && f.IsUint64() &&
		dc.Sign() > 0 && dp.Sign() > 0
	if wellFormed {
		s := in.Latest - in.Conf + 1
		e := s + f.Uint64() - 1
		if e < s {
			class = "malformed"
		} else {
			se, ee := s/epochLen, e/epochLen
			switch {
			case se == in.Epoch && ee == in.Epoch:
				class = "current"
			case in.Epoch > 0 && se == in.Epoch-1 && ee == in.Epoch-1:
				class = "previous"
			case in.Epoch > 0 && se == in.Epoch-1 && ee == in.Epoch:
				class = "span"
			default:
				class = "outside"
			}
		}
	} else if in.Fail != "" {
		class = "fail-" + in.Fail
	}
	em.Tally("class-" + class)
	if class == "span" {
		em.Tally("span-diff-" + diff)
	}
	em.Tally("out-" + o.Kind)
	if !o.Kept {
		em.Tally("arguments-modified")
	}
	em.Case(lib.Case{
		ID:         id,
		Coq:        coq,
		Key:        fmt.Sprintf("%d|%d|%s|%d|%s|%s|%s", in.Latest, in.Conf, in.Factor, in.Epoch, in.DCur, in.DPrev, in.Fail),
		Nontrivial: class == "span" && diff != "same",
		Sig:        map[string]interface{}{"class": class, "diff": diff, "out": o.Kind},
		In:         in,
		Out:        o,
	})
}

func u(v uint64) string { return fmt.Sprintf("%d", v) }

// mk builds an input from the start block of the proof, the tip distance and the rest.
func mk(start, conf uint64, factor string, epoch uint64, dcur, dprev string) input {
	return input{Latest: start + conf - 1, Conf: conf, Factor: factor, Epoch: epoch, DCur: dcur, DPrev: dprev}
}

func bigRand(r *lib.Rng, bits int) *big.Int {
	b := r.Bytes((bits + 7) / 8)
	v := new(big.Int).SetBytes(b)
	v.Rsh(v, uint(len(b)*8-bits))
	if v.Sign() == 0 {
		v.SetInt64(1)
	}
	return v
}

// difficulty pair: equal / small change / up to x4 (Bitcoin's retarget limit) / arbitrary
func diffPair(r *lib.Rng) (string, string) {
	var dp *big.Int
	switch r.Intn(4) {
	case 0:
		dp = big.NewInt(int64(r.Range(1, 60)))
	case 1:
		dp = bigRand(r, r.Range(8, 64))
	case 2:
		dp = bigRand(r, r.Range(65, 256))
	default:
		dp = new(big.Int).SetUint64(80_000_000_000_000 + r.U64()%20_000_000_000_000) // mainnet-like
	}
	dc := new(big.Int).Set(dp)
	switch r.Intn(6) {
	case 0: // same
	case 1: // up a little
		dc.Add(dc, new(big.Int).Div(dp, big.NewInt(int64(r.Range(2, 40)))))
		dc.Add(dc, big.NewInt(int64(r.Intn(3))))
	case 2: // down a little
		dc.Sub(dc, new(big.Int).Div(dp, big.NewInt(int64(r.Range(2, 40)))))
	case 3: // up to x4
		dc.Mul(dc, big.NewInt(int64(r.Range(2, 4))))
	case 4: // down to /4
		dc.Div(dc, big.NewInt(int64(r.Range(2, 4))))
	default: // unrelated small
		dc = big.NewInt(int64(r.Range(1, 60)))
	}
	if dc.Sign() <= 0 {
		dc.SetInt64(1)
	}
	return dc.String(), dp.String()
}

func main() {
	o := lib.ParseOpts()
	em := lib.NewEmitter()
	golog.SetAllLoggers(golog.LevelFatal) // proveTransactions logs every step
	if o.Replay != "" {
		var in input
		if err := lib.LoadReplay(o.Replay, &in); err != nil {
			fmt.Fprintln(os.Stderr, err)
			os.Exit(2)
		}
		if in.Round != nil {
			runRound(*in.Round, em, "replay")
		} else {
			run(in, em, "replay")
		}
		em.Close("replay", nil)
		return
	}
	rng := lib.NewRng(o.Seed)

	// --- corpus (runs first): the example of the code comment, the unit-test shapes, edges
	{
		// previous difficulty 50, current 30, factor 6, two headers in the previous epoch => 9
		run(mk(300*epochLen-2, 12, "6", 300, "30", "50"), em, "corpus-comment-example")
		// difficulty goes up: fewer headers than the factor
		run(mk(300*epochLen-2, 12, "6", 300, "50", "30"), em, "corpus-span-up")
		run(mk(300*epochLen-2, 12, "6", 300, "50", "50"), em, "corpus-span-same")
		// exact division (no remainder) and remainder 1
		run(mk(300*epochLen-3, 12, "6", 300, "50", "100"), em, "corpus-span-exact")
		run(mk(300*epochLen-3, 12, "6", 300, "299", "100"), em, "corpus-span-rem")
		run(mk(300*epochLen-1, 3, "6", 300, "7", "1000000"), em, "corpus-span-big-drop")
		run(mk(300*epochLen, 12, "6", 300, "30", "50"), em, "corpus-current-first-block")
		run(mk(300*epochLen-6, 12, "6", 300, "30", "50"), em, "corpus-previous-last-blocks")
		run(mk(299*epochLen, 12, "6", 300, "30", "50"), em, "corpus-previous-first-block")
		run(mk(299*epochLen-1, 12, "6", 300, "30", "50"), em, "corpus-too-old")
		run(mk(301*epochLen-3, 12, "6", 300, "30", "50"), em, "corpus-too-new-span")
		run(mk(301*epochLen, 12, "6", 300, "30", "50"), em, "corpus-too-new")
		run(mk(0, 5, "6", 0, "30", "50"), em, "corpus-epoch-zero")
		run(mk(epochLen-2, 5, "6", 0, "30", "50"), em, "corpus-epoch-zero-span-out")
		run(mk(epochLen-2, 1, "6", 1, "30", "50"), em, "corpus-one-confirmation")
		run(mk(epochLen-2, 0, "6", 1, "30", "50"), em, "corpus-unconfirmed")
		run(mk(300*epochLen-1, 12, "1", 300, "30", "50"), em, "corpus-factor-one")
		run(mk(300*epochLen-2, 12, "6", 300, "0", "50"), em, "corpus-zero-current-difficulty")
		run(mk(300*epochLen-2, 12, "6", 300, "30", "0"), em, "corpus-zero-previous-difficulty")
		run(mk(300*epochLen-2, 12, "6", 300, "-30", "50"), em, "corpus-negative-current-difficulty")
		run(mk(300*epochLen-2, 12, "0", 300, "30", "50"), em, "corpus-factor-zero")
		run(input{Latest: 5, Conf: 9, Factor: "6", Epoch: 1, DCur: "30", DPrev: "50"}, em, "corpus-conf-above-height")
		in := mk(300*epochLen-2, 12, "6", 300, "30", "50")
		for _, f := range []string{"latest", "conf", "factor", "epoch", "diff"} {
			in.Fail = f
			run(in, em, "corpus-fail-"+f)
		}
	}

	// --- small-scope enumeration around one epoch boundary: every start offset within 9 blocks
	// of the boundary, factors 1..8, relay epoch from two behind to one ahead, difficulty pairs
	{
		diffs := [][2]string{{"1", "1"}, {"30", "50"}, {"50", "30"}, {"7", "7"}, {"3", "2"}, {"2", "3"},
			{"1", "9"}, {"9", "1"}, {"100", "25"}, {"25", "100"}}
		type pt struct {
			off, f, de, d int
		}
		var all []pt
		for off := -9; off <= 1; off++ {
			for f := 1; f <= 8; f++ {
				for de := -2; de <= 1; de++ {
					for d := range diffs {
						all = append(all, pt{off, f, de, d})
					}
				}
			}
		}
		n := o.Count(900, len(all))
		perm := rng.Fork("enum").Perm(len(all))
		for i := 0; i < n && i < len(all); i++ {
			p := all[perm[i]]
			base := uint64(40)
			start := uint64(int64(base*epochLen) + int64(p.off))
			epoch := uint64(int64(base) + int64(p.de) + 1) // de=-1: the boundary is prev|cur
			run(mk(start, uint64(1+i%13), u(uint64(p.f)), epoch, diffs[p.d][0], diffs[p.d][1]), em,
				fmt.Sprintf("enum-%d_%d_%d_%d", p.off, p.f, p.de, p.d))
		}
	}

	// --- structured random: mainnet-like heights, starts near boundaries, difficulty up/down
	nRand := o.Count(1500, 20000)
	r := rng.Fork("random")
	for i := 0; i < nRand; i++ {
		epoch := uint64(r.Range(1, 500))
		if r.Chance(1, 10) {
			epoch = r.U64() % (1 << 40)
		}
		factor := uint64(r.Range(1, 12))
		if r.Chance(1, 12) {
			factor = uint64(r.Range(13, 3000))
		}
		var start uint64
		switch r.Intn(5) {
		case 0, 1: // just before the boundary between previous and current
			start = epoch*epochLen - uint64(r.Range(1, int(factor)+2))
		case 2: // anywhere in previous or current
			start = (epoch-1)*epochLen + uint64(r.Intn(2*epochLen))
		case 3: // near the outer boundaries
			if r.Bool() {
				start = (epoch-1)*epochLen - uint64(r.Range(0, 3)) + uint64(r.Range(0, 3))
			} else {
				start = (epoch+1)*epochLen - uint64(r.Range(0, int(factor)+2))
			}
		default:
			start = uint64(r.Intn(int(epoch+3) * epochLen))
		}
		dc, dp := diffPair(r)
		conf := uint64(r.Range(0, 30))
		if r.Chance(1, 8) {
			conf = uint64(r.Range(0, 5000))
		}
		run(mk(start, conf, u(factor), epoch, dc, dp), em, fmt.Sprintf("rand-%05d", i))
	}

	// --- proving rounds on ONE maintainer (round.go): corpus, then generated
	roundCorpus(em)
	nRounds := o.Count(700, 8000)
	r = rng.Fork("rounds")
	for i := 0; i < nRounds; i++ {
		runRound(genRound(r), em, fmt.Sprintf("round-%05d", i))
	}

	// --- malformed / out-of-domain stream (the property is silent, the model must still agree)
	nBad := o.Count(300, 4000)
	r = rng.Fork("malformed")
	for i := 0; i < nBad; i++ {
		epoch := uint64(r.Range(0, 40))
		in := mk(epoch*epochLen-uint64(r.Range(0, 5)), uint64(r.Range(0, 9)), u(uint64(r.Range(0, 9))), epoch, "30", "50")
		switch r.Intn(9) {
		case 0:
			in.DCur = "0"
		case 1:
			in.DCur = fmt.Sprintf("-%d", r.Range(1, 90))
		case 2:
			in.DPrev = fmt.Sprintf("-%d", r.Range(0, 90))
		case 3:
			in.Factor = "0"
		case 4: // confirmations above the height: uint wrap-around
			in.Latest = uint64(r.Range(0, 10))
			in.Conf = in.Latest + 2 + uint64(r.Range(0, 4000))
			in.Epoch = [3]uint64{0, 1, 1<<64/epochLen - 1}[r.Intn(3)]
		case 5: // heights at the top of the uint64 range
			in.Latest = ^uint64(0) - uint64(r.Range(0, 3000))
			in.Conf = uint64(r.Range(0, 3000))
			in.Epoch = (in.Latest-in.Conf+1)/epochLen + uint64(r.Range(0, 1))
		case 6: // factor beyond uint64 / negative
			in.Factor = new(big.Int).Add(new(big.Int).Lsh(big.NewInt(1), 64), big.NewInt(int64(r.Range(0, 9)))).String()
			if r.Bool() {
				in.Factor = fmt.Sprintf("-%d", r.Range(1, 9))
			}
		case 7: // required count overflowing 64 bits
			in.DPrev = new(big.Int).Lsh(big.NewInt(int64(r.Range(1, 9))), uint(r.Range(62, 200))).String()
			in.DCur = u(uint64(r.Range(1, 3)))
		default:
			in.Fail = []string{"latest", "conf", "factor", "epoch", "diff"}[r.Intn(5)]
		}
		run(in, em, fmt.Sprintf("bad-%05d", i))
	}

	em.Close("non-trivial = single call: the proof range starts in the relay's previous epoch and ends in its current epoch, "+
		"all guards hold and the two difficulties differ (the adjusted confirmation count is exercised); "+
		"round: no injected failure, all guards hold and an epoch-spanning transaction is followed by at least one "+
		"later transaction whose proof range is in the relay's range", nil)
}
