// Proving rounds for C32: the real spvMaintainer.proveTransactions (through the verif-tagged
// export VerifProveTransactions) is run on ONE maintainer over 2..6 unproven transactions. The
// fake chains answer per transaction (latest height by call, confirmations by hash) and hand out
// the round's factor and difficulties — either the same big.Int objects on every call or a fresh
// copy per call (as the Ethereum binding does); every object handed out is checked afterwards.
// Observable per processed transaction: submitted with N required confirmations | skipped; plus
// how the round ended. The Coq model (Model/C32.v, prove_round) is the per-transaction function
// mapped over the round with the round's ORIGINAL factor.
package main

import (
	"fmt"
	"math/big"
	"strings"

	"github.com/keep-network/keep-core/pkg/bitcoin"
	"github.com/keep-network/keep-core/pkg/maintainer/btcdiff"
	"github.com/keep-network/keep-core/pkg/maintainer/spv"

	"verifharness/lib"
)

type rtx struct {
	Latest  uint64 `json:"latest"`
	Conf    uint64 `json:"conf"`
	Fail    string `json:"fail,omitempty"`    // "", latest, conf, factor, epoch, diff
	SubFail bool   `json:"subfail,omitempty"` // the submitter rejects this transaction's proof
}

type roundIn struct {
	Factor string `json:"factor"`
	Epoch  uint64 `json:"epoch"`
	DCur   string `json:"dcur"`
	DPrev  string `json:"dprev"`
	// Shared: the chains hand out the same big.Int objects on every call; otherwise a fresh
	// copy per call. The code under test must behave the same either way.
	Shared bool  `json:"shared"`
	Txs    []rtx `json:"txs"`
}

type roundWorld struct {
	in          roundIn
	cur         int // transaction being processed = index of the last GetLatestBlockHeight call
	latestCalls int
	byHash      map[bitcoin.Hash]int
	factor      *big.Int
	dcur, dprev *big.Int
	handed      []*big.Int // every object handed out ...
	handedVal   []*big.Int // ... and a private copy of the value it had
	submitted   map[int]uint64
}

func (w *roundWorld) hand(shared *big.Int) *big.Int {
	v := shared
	if !w.in.Shared {
		v = new(big.Int).Set(shared)
	}
	w.handed = append(w.handed, v)
	w.handedVal = append(w.handedVal, new(big.Int).Set(v))
	return v
}

func (w *roundWorld) failing(kind string) bool {
	return w.cur >= 0 && w.cur < len(w.in.Txs) && w.in.Txs[w.cur].Fail == kind
}

type rBtc struct {
	bitcoin.Chain
	w *roundWorld
}

// The chain tip may move between transactions: call k answers for transaction k.
func (b *rBtc) GetLatestBlockHeight() (uint, error) {
	w := b.w
	if len(w.in.Txs) == 0 {
		panic("driver: chain tip asked in a round without transactions")
	}
	idx := w.latestCalls
	if idx >= len(w.in.Txs) {
		idx = len(w.in.Txs) - 1
	}
	w.latestCalls++
	w.cur = idx
	if w.in.Txs[idx].Fail == "latest" {
		return 0, errInjected
	}
	return uint(w.in.Txs[idx].Latest), nil
}
func (b *rBtc) GetTransactionConfirmations(h bitcoin.Hash) (uint, error) {
	j, ok := b.w.byHash[h]
	if !ok {
		panic("driver: confirmations asked for an unknown transaction")
	}
	if b.w.in.Txs[j].Fail == "conf" {
		return 0, errInjected
	}
	return uint(b.w.in.Txs[j].Conf), nil
}

type rSpv struct {
	spv.Chain
	w *roundWorld
}

func (s *rSpv) TxProofDifficultyFactor() (*big.Int, error) {
	if s.w.failing("factor") {
		return nil, errInjected
	}
	return s.w.hand(s.w.factor), nil
}

type rDiff struct {
	btcdiff.Chain
	w *roundWorld
}

func (d *rDiff) CurrentEpoch() (uint64, error) {
	if d.w.failing("epoch") {
		return 0, errInjected
	}
	return d.w.in.Epoch, nil
}
func (d *rDiff) GetCurrentAndPrevEpochDifficulty() (*big.Int, *big.Int, error) {
	if d.w.failing("diff") {
		return nil, nil, errInjected
	}
	return d.w.hand(d.w.dcur), d.w.hand(d.w.dprev), nil
}

type txObs struct {
	Submitted bool   `json:"submitted"`
	Req       uint64 `json:"req,omitempty"`
}

type roundObs struct {
	End    string  `json:"end"` // Done | Failed | Panicked
	Outs   []txObs `json:"outs"`
	Kept   bool    `json:"kept"`
	Detail string  `json:"detail,omitempty"`
}

func callRound(in roundIn) (o roundObs) {
	w := &roundWorld{in: in, cur: -1, byHash: map[bitcoin.Hash]int{}, submitted: map[int]uint64{},
		factor: bigOf(in.Factor), dcur: bigOf(in.DCur), dprev: bigOf(in.DPrev)}
	txs := make([]*bitcoin.Transaction, len(in.Txs))
	for j := range in.Txs {
		txs[j] = &bitcoin.Transaction{Version: 1, Locktime: uint32(j + 1)}
		w.byHash[txs[j].Hash()] = j
	}
	end, detail := "Done", ""
	func() {
		defer func() {
			if r := recover(); r != nil {
				end, detail = "Panicked", fmt.Sprint(r)
			}
		}()
		err := spv.VerifProveTransactions(&rBtc{w: w}, &rSpv{w: w}, &rDiff{w: w}, txs,
			func(h bitcoin.Hash, required uint) error {
				j, ok := w.byHash[h]
				if !ok {
					panic("driver: proof submitted for an unknown transaction")
				}
				if _, dup := w.submitted[j]; dup {
					panic("driver: proof submitted twice for one transaction")
				}
				w.submitted[j] = uint64(required)
				if in.Txs[j].SubFail {
					return errInjected
				}
				return nil
			})
		if err != nil {
			end, detail = "Failed", err.Error()
		}
	}()
	// outcomes of the processed transactions, in round order: all of them when the round ended
	// normally; otherwise those before the one being processed when it ended, plus that one
	// when its proof had been handed to the submitter
	n := len(in.Txs)
	if end != "Done" {
		n = w.latestCalls - 1
		if n < 0 {
			n = 0
		}
		if n > len(in.Txs) {
			n = len(in.Txs)
		}
		if n < len(in.Txs) {
			if _, ok := w.submitted[n]; ok {
				n++
			}
		}
	}
	o = roundObs{End: end, Detail: detail, Outs: []txObs{}, Kept: true}
	for j := 0; j < n; j++ {
		req, ok := w.submitted[j]
		o.Outs = append(o.Outs, txObs{Submitted: ok, Req: req})
	}
	for k := range w.handed {
		if w.handed[k].Cmp(w.handedVal[k]) != 0 {
			o.Kept = false
		}
	}
	return o
}

// ---- classification on the driver's side: steers generation and labels cases, never judges

// txClass: class of a transaction's proof range, its start block and whether it is in the guards.
func txClass(in roundIn, t rtx) (class string, wellFormed bool) {
	f, dc, dp := bigOf(in.Factor), bigOf(in.DCur), bigOf(in.DPrev)
	wellFormed = t.Fail == "" && t.Conf <= t.Latest+1 && t.Latest+1 != 0 && f.Sign() > 0 && f.IsUint64() &&
		dc.Sign() > 0 && dp.Sign() > 0
	if !wellFormed {
		if t.Fail != "" {
			return "fail-" + t.Fail, false
		}
		return "malformed", false
	}
	s := t.Latest - t.Conf + 1
	e := s + f.Uint64() - 1
	if e < s {
		return "malformed", false
	}
	se, ee := s/epochLen, e/epochLen
	switch {
	case se == in.Epoch && ee == in.Epoch:
		return "current", true
	case in.Epoch > 0 && se == in.Epoch-1 && ee == in.Epoch-1:
		return "previous", true
	case in.Epoch > 0 && se == in.Epoch-1 && ee == in.Epoch:
		return "span", true
	}
	return "outside", true
}

// needed: the number of confirmations a proof starting at block s needs (generation only).
func needed(s uint64, f uint64, epoch uint64, dc, dp *big.Int) uint64 {
	b := epoch * epochLen
	if s < b && s+f-1 >= b && dc.Sign() > 0 {
		np := b - s
		rest := new(big.Int).Mul(dp, new(big.Int).SetUint64(f-np))
		q, m := new(big.Int).DivMod(rest, dc, new(big.Int))
		if m.Sign() > 0 {
			q.Add(q, big.NewInt(1))
		}
		if q.IsUint64() {
			return np + q.Uint64()
		}
	}
	return f
}

func runRound(in roundIn, em *lib.Emitter, id string) {
	o := callRound(in)
	txTerms := make([]string, len(in.Txs))
	keyParts := make([]string, len(in.Txs))
	for j, t := range in.Txs {
		txTerms[j] = fmt.Sprintf("{| t_latest := %s; t_conf := %s; t_fail := %s; t_subfail := %s |}",
			lib.ZU(t.Latest), lib.ZU(t.Conf), failCtor[t.Fail], lib.Bool(t.SubFail))
		keyParts[j] = fmt.Sprintf("%d,%d,%s,%v", t.Latest, t.Conf, t.Fail, t.SubFail)
	}
	outTerms := make([]string, len(o.Outs))
	for j, x := range o.Outs {
		if x.Submitted {
			outTerms[j] = fmt.Sprintf("Submitted %s", lib.ZU(x.Req))
		} else {
			outTerms[j] = "Skipped"
		}
	}
	coq := fmt.Sprintf("(Round {| r_factor := %s; r_epoch := %s; r_dcur := %s; r_dprev := %s; r_txs := %s |} %s %s %s)",
		lib.ZBig(bigOf(in.Factor)), lib.ZU(in.Epoch), lib.ZBig(bigOf(in.DCur)), lib.ZBig(bigOf(in.DPrev)),
		lib.List(txTerms), lib.List(outTerms), o.End, lib.Bool(o.Kept))

	// labels
	dc, dp := bigOf(in.DCur), bigOf(in.DPrev)
	diff := "same"
	if dc.Cmp(dp) > 0 {
		diff = "up"
	} else if dc.Cmp(dp) < 0 {
		diff = "down"
	}
	clean := true
	firstSpan, lastInRange := -1, -1
	for j, t := range in.Txs {
		class, wf := txClass(in, t)
		em.Tally("round-tx-" + class)
		if !wf || t.SubFail {
			clean = false
		}
		if class == "span" && firstSpan < 0 {
			firstSpan = j
		}
		if class == "span" || class == "current" || class == "previous" {
			lastInRange = j
			f := bigOf(in.Factor).Uint64()
			need := needed(t.Latest-t.Conf+1, f, in.Epoch, dc, dp)
			switch {
			case t.Conf < need:
				em.Tally("round-conf-below-required")
			case t.Conf == need:
				em.Tally("round-conf-at-required")
			default:
				em.Tally("round-conf-above-required")
			}
		}
	}
	spanFirst := firstSpan >= 0 && lastInRange > firstSpan
	em.Tally(fmt.Sprintf("round-size-%d", len(in.Txs)))
	em.Tally("round-end-" + o.End)
	if spanFirst {
		em.Tally("round-span-before-in-range-tx")
	}
	if in.Shared {
		em.Tally("round-shared-objects")
	} else {
		em.Tally("round-fresh-objects")
	}
	for _, x := range o.Outs {
		if x.Submitted {
			em.Tally("round-out-submitted")
		} else {
			em.Tally("round-out-skipped")
		}
	}
	if !o.Kept {
		em.Tally("arguments-modified")
	}
	em.Case(lib.Case{
		ID:  id,
		Coq: coq,
		Key: fmt.Sprintf("round|%s|%d|%s|%s|%v|%s", in.Factor, in.Epoch, in.DCur, in.DPrev, in.Shared,
			strings.Join(keyParts, ";")),
		Nontrivial: clean && spanFirst,
		Sig:        map[string]interface{}{"class": "round", "diff": diff, "out": o.End},
		In:         input{Round: &in},
		Out:        o,
	})
}

func roundCorpus(em *lib.Emitter) {
	b := uint64(300 * epochLen)
	tip := func(confs ...uint64) []rtx {
		txs := make([]rtx, len(confs))
		for j, c := range confs {
			txs[j] = rtx{Latest: b + 28, Conf: c}
		}
		return txs
	}
	// tip 28 blocks into epoch 300: 31 confirmations = two headers in the previous epoch (needs 9),
	// 10 and 4 confirmations = current epoch (6 needed), 2100 = previous epoch, 5000 = too old
	for _, shared := range []bool{true, false} {
		tag := map[bool]string{true: "shared", false: "fresh"}[shared]
		runRound(roundIn{Factor: "6", Epoch: 300, DCur: "30", DPrev: "50", Shared: shared, Txs: tip(31, 10, 4)}, em,
			"corpus-round-span-first-"+tag)
		runRound(roundIn{Factor: "6", Epoch: 300, DCur: "30", DPrev: "50", Shared: shared, Txs: tip(10, 4, 31)}, em,
			"corpus-round-span-last-"+tag)
		runRound(roundIn{Factor: "6", Epoch: 300, DCur: "50", DPrev: "30", Shared: shared, Txs: tip(4, 31, 5, 6, 2100, 5000)}, em,
			"corpus-round-span-middle-up-"+tag)
		runRound(roundIn{Factor: "6", Epoch: 300, DCur: "30", DPrev: "50", Shared: shared, Txs: tip(31, 32, 33, 8, 2044)}, em,
			"corpus-round-three-spans-"+tag)
	}
	// the tip moves between transactions
	runRound(roundIn{Factor: "6", Epoch: 300, DCur: "30", DPrev: "50", Shared: true, Txs: []rtx{
		{Latest: b + 3, Conf: 6}, {Latest: b + 4, Conf: 5}, {Latest: b + 6, Conf: 6}, {Latest: b + 6, Conf: 9}}}, em,
		"corpus-round-moving-tip")
	// failures end the round at that transaction
	for _, f := range []string{"latest", "conf", "factor", "epoch", "diff"} {
		txs := tip(31, 31, 10)
		txs[1].Fail = f
		runRound(roundIn{Factor: "6", Epoch: 300, DCur: "30", DPrev: "50", Shared: true, Txs: txs}, em, "corpus-round-fail-"+f)
	}
	{
		txs := tip(31, 10, 12)
		txs[1].SubFail = true
		runRound(roundIn{Factor: "6", Epoch: 300, DCur: "30", DPrev: "50", Shared: true, Txs: txs}, em, "corpus-round-submitter-fails")
		txs = tip(31, 4, 12)
		txs[1].SubFail = true // skipped anyway: the submitter is not reached
		runRound(roundIn{Factor: "6", Epoch: 300, DCur: "30", DPrev: "50", Shared: true, Txs: txs}, em, "corpus-round-submitter-not-reached")
		runRound(roundIn{Factor: "6", Epoch: 300, DCur: "0", DPrev: "50", Shared: true, Txs: tip(10, 31, 10)}, em,
			"corpus-round-zero-current-difficulty")
		runRound(roundIn{Factor: "6", Epoch: 300, DCur: "30", DPrev: "50", Shared: false, Txs: []rtx{}}, em, "corpus-round-empty")
	}
}

// genRound: 2..6 transactions around the boundary between the relay's previous and current epoch.
func genRound(r *lib.Rng) roundIn {
	epoch := uint64(r.Range(2, 500))
	if r.Chance(1, 12) {
		epoch = 2 + r.U64()%(1<<40)
	}
	f := uint64(r.Range(2, 12))
	if r.Chance(1, 15) {
		f = uint64(r.Range(13, 200))
	}
	dcs, dps := diffPair(r)
	dc, dp := bigOf(dcs), bigOf(dps)
	in := roundIn{Factor: u(f), Epoch: epoch, DCur: dcs, DPrev: dps, Shared: r.Bool()}
	b := epoch * epochLen
	n := r.Range(2, 6)

	// kinds: at least one spanning transaction that is NOT in last place (5 rounds of 6)
	kinds := make([]int, n) // 0 span, 1 current, 2 previous, 3 outside
	for j := range kinds {
		kinds[j] = []int{0, 1, 1, 1, 2, 2, 3}[r.Intn(7)]
	}
	if !r.Chance(1, 6) {
		kinds[r.Intn(n-1)] = 0
	}

	// start block of a transaction of the given kind
	start := func(kind int) uint64 {
		switch kind {
		case 0:
			return b - uint64(r.Range(1, int(f)-1))
		case 1:
			if r.Chance(1, 3) {
				return b + uint64(r.Range(0, 3))
			}
			if r.Chance(1, 4) {
				return b + epochLen - f - uint64(r.Range(0, 2))
			}
			return b + uint64(r.Intn(epochLen-int(f)+1))
		case 2:
			if r.Chance(1, 3) {
				return b - f - uint64(r.Range(0, 2))
			}
			if r.Chance(1, 4) {
				return b - epochLen + uint64(r.Range(0, 2))
			}
			return b - epochLen + uint64(r.Intn(epochLen-int(f)+1))
		default:
			switch r.Intn(3) {
			case 0:
				return b - epochLen - uint64(r.Range(1, 3*int(f)))
			case 1:
				return b + epochLen - uint64(r.Range(1, int(f)-1)) // current -> next epoch
			default:
				return b + epochLen + uint64(r.Range(0, 3000))
			}
		}
	}
	// confirmations around the number the transaction needs, around the plain factor, around
	// the factor reduced by the headers of the previous epoch, or plenty
	confFor := func(s uint64) uint64 {
		need := needed(s, f, epoch, dc, dp)
		var c int64
		switch r.Intn(8) {
		case 0, 1, 2:
			c = int64(need) + int64(r.Range(-2, 2))
		case 3:
			c = int64(f) + int64(r.Range(-2, 1))
		case 4:
			c = int64(f) - int64(r.Range(1, int(f)))
		case 5:
			c = int64(r.Range(0, 3))
		default:
			c = int64(need) + int64(r.Range(0, 60))
		}
		if c < 0 {
			c = 0
		}
		return uint64(c)
	}

	if r.Chance(3, 5) {
		// one chain tip for the whole round, a few blocks into the current epoch: the position
		// of a transaction IS its number of confirmations
		tipOff := uint64(r.Range(0, 3*int(f)))
		if r.Chance(1, 5) {
			tipOff = uint64(r.Intn(epochLen))
		}
		latest := b + tipOff
		for _, k := range kinds {
			var s uint64
			switch k {
			case 1:
				s = b + uint64(r.Intn(int(tipOff)+1))
				if r.Chance(1, 2) && tipOff >= f { // near the number needed
					d := int64(tipOff) + 1 - int64(f) + int64(r.Range(-2, 2))
					if d < 0 {
						d = 0
					}
					if uint64(d) > tipOff {
						d = int64(tipOff)
					}
					s = b + uint64(d)
				}
			default:
				s = start(k)
				if s > latest+1 {
					s = latest + 1 // not yet mined: zero confirmations
				}
			}
			in.Txs = append(in.Txs, rtx{Latest: latest, Conf: latest - s + 1})
		}
	} else {
		// every transaction meets its own tip (the chain moves while the round runs)
		for _, k := range kinds {
			s := start(k)
			c := confFor(s)
			in.Txs = append(in.Txs, rtx{Latest: s + c - 1, Conf: c})
		}
	}

	// a few rounds with one injected failure / rejected submission / unguarded difficulty
	if r.Chance(1, 10) {
		j := r.Intn(n)
		switch r.Intn(7) {
		case 0:
			in.Txs[j].Fail = "latest"
		case 1:
			in.Txs[j].Fail = "conf"
		case 2:
			in.Txs[j].Fail = "epoch"
		case 3:
			in.Txs[j].Fail = "diff"
		case 4, 5:
			in.Txs[j].SubFail = true
		default:
			in.DCur = "0"
		}
	}
	return in
}
