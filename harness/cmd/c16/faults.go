// Fault histories for C16: ONE long-lived real libp2p channel (built by the verif export exactly
// like channelManager builds it, with a publisher function of the driver's) whose publisher
// answers every publish call by a script (ok / error): errors on the first publish of a Send
// only, on retransmissions only, alternating, random.  Retransmission rounds are fed by hand
// through the channel's ticker.  Every publish call is recorded as (message, sequence number on
// the wire, answer); what was published successfully is handed to a second real channel whose
// Recv handler (with the code's own retransmission filter) records its delegate calls.  A message
// of a third channel (another sender), published last, tells that the receiver has handled
// everything before it.
package main

import (
	"context"
	"encoding/binary"
	"errors"
	"fmt"
	"os"
	"sync"
	"sync/atomic"
	"time"

	golog "github.com/ipfs/go-log"

	pubsub "github.com/libp2p/go-libp2p-pubsub"
	pubsubpb "github.com/libp2p/go-libp2p-pubsub/pb"
	libp2pcrypto "github.com/libp2p/go-libp2p/core/crypto"
	"google.golang.org/protobuf/proto"

	"github.com/keep-network/keep-core/pkg/net"
	"github.com/keep-network/keep-core/pkg/net/gen/pb"
	"github.com/keep-network/keep-core/pkg/net/libp2p"
	"github.com/keep-network/keep-core/pkg/net/retransmission"

	"verifharness/lib"
)

type faultStep struct {
	Op string `json:"op"`          // send | badsend (Marshal fails) | tick | cancel
	I  int    `json:"i,omitempty"` // cancel: which Send's context (index among send / badsend steps)
}
type faultIn struct {
	Script  []bool      `json:"script"` // the publisher's answer per publish call (true = ok); later calls succeed
	Steps   []faultStep `json:"steps"`
	Backoff bool        `json:"backoff"`
	Name    string      `json:"name"`
}

// sim tells how many publish calls a retransmission round makes (the schedule of the code's
// strategies is C17's subject; here it only tells the driver what to wait for).
type simSend struct {
	bad, cancelled, removed bool
	ticks                   uint64
}
type sim struct {
	sends   []*simSend
	backoff bool
}

func (s *sim) send(bad bool) { s.sends = append(s.sends, &simSend{bad: bad}) }
func (s *sim) cancel(i int) {
	if i >= 0 && i < len(s.sends) {
		s.sends[i].cancelled = true
	}
}
func (s *sim) live() int {
	n := 0
	for _, x := range s.sends {
		if !x.bad && !x.removed {
			n++
		}
	}
	return n
}
func (s *sim) tick() int {
	n := 0
	for _, x := range s.sends {
		if x.bad || x.removed {
			continue
		}
		if x.cancelled {
			x.removed = true
			continue
		}
		x.ticks++
		if !s.backoff || isSched(x.ticks) {
			n++
		}
	}
	return n
}

// plan labels every publish call the steps will make: true = the first publish of a Send.
func plan(steps []faultStep, backoff bool) []bool {
	s := &sim{backoff: backoff}
	var calls []bool
	for _, st := range steps {
		switch st.Op {
		case "send":
			s.send(false)
			calls = append(calls, true)
		case "badsend":
			s.send(true)
		case "cancel":
			s.cancel(st.I)
		case "tick":
			for i, n := 0, s.tick(); i < n; i++ {
				calls = append(calls, false)
			}
		}
	}
	return calls
}

var faultLogger = golog.Logger("c16-fault-harness")

type wireRec struct {
	payload, seqno uint64
	ok             bool
}

func faultKey(i int) libp2pcrypto.PrivKey {
	priv, _, err := libp2pcrypto.GenerateSecp256k1Key(rngReader{lib.NewRng(uint64(2000 + i))})
	if err != nil {
		panic(err)
	}
	return priv
}

const faultSentinel = uint64(1) << 50

func runFault(in faultIn, budget time.Duration) (coq string, out interface{}, sig map[string]interface{}, nontrivial bool, incon string) {
	debugState := func() string { return "" }
	defer func() {
		if r := recover(); r != nil {
			if ic, ok := r.(inconclusive); ok {
				incon = ic.what
				fmt.Fprintf(os.Stderr, "c16: fault history stuck at %s: %s\n", ic.what, debugState())
				return
			}
			panic(r)
		}
	}()
	ticks := make(chan uint64)
	ticker := retransmission.NewTicker(ticks)
	defer close(ticks)
	idle := make(chan uint64)
	idleTicker := retransmission.NewTicker(idle) // never fed: the other sender's schedule
	defer close(idle)

	var mu sync.Mutex
	calls, completed := 0, 0
	var wire []wireRec

	receiver, err := libp2p.VerifNewChannel(in.Name, faultKey(1), idleTicker, func([]byte) error { return nil })
	if err != nil {
		panic(err)
	}
	var sender, other *libp2p.VerifChannel
	forward := func(from *libp2p.VerifChannel, data []byte) {
		receiver.ProcessPubsubMessage(&pubsub.Message{Message: &pubsubpb.Message{Data: data, From: []byte(from.PeerID())}})
	}
	sender, err = libp2p.VerifNewChannel(in.Name, faultKey(0), ticker, func(data []byte) error {
		var m pb.BroadcastNetworkMessage
		if err := proto.Unmarshal(data, &m); err != nil {
			panic(err)
		}
		rec := wireRec{seqno: m.SequenceNumber, payload: 1 << 40}
		if len(m.Payload) == 8 {
			rec.payload = binary.BigEndian.Uint64(m.Payload)
		}
		mu.Lock()
		rec.ok = calls >= len(in.Script) || in.Script[calls]
		calls++
		wire = append(wire, rec)
		mu.Unlock()
		defer func() { // the call is over (and what it published is in the receiver's queue)
			mu.Lock()
			completed++
			mu.Unlock()
		}()
		if !rec.ok {
			return errors.New("scripted publish failure")
		}
		forward(sender, data)
		return nil
	})
	if err != nil {
		panic(err)
	}
	other, err = libp2p.VerifNewChannel(in.Name, faultKey(2), idleTicker, func(data []byte) error {
		forward(other, data)
		return nil
	})
	if err != nil {
		panic(err)
	}
	for _, c := range []*libp2p.VerifChannel{receiver, sender, other} {
		c.Channel().SetUnmarshaler(func() net.TaggedUnmarshaler { return &c16Payload{} })
	}

	type del struct {
		sender         string
		seqno, payload uint64
	}
	var dels []del
	recvCtx, stopRecv := context.WithCancel(context.Background())
	defer stopRecv()
	receiver.Channel().Recv(recvCtx, func(m net.Message) {
		d := del{sender: m.TransportSenderID().String(), seqno: m.Seqno(), payload: 1 << 41}
		if p, ok := m.Payload().(*c16Payload); ok {
			d.payload = p.id
		}
		mu.Lock()
		dels = append(dels, d)
		mu.Unlock()
	})

	strategy := net.StandardRetransmissionStrategy
	if in.Backoff {
		strategy = net.BackoffRetransmissionStrategy
	}
	type sendRec struct {
		payload uint64
		bad     bool
		failed  bool
		cancel  context.CancelFunc
	}
	var sends []*sendRec
	defer func() {
		for _, s := range sends {
			s.cancel()
		}
	}()
	s := &sim{backoff: in.Backoff}
	nCalls := func() int { mu.Lock(); defer mu.Unlock(); return completed }
	nTicks := uint64(0)
	// A schedule of the driver's own on the same ticker tells when the ticker has taken up a
	// tick: the ticker walks its handlers holding its mutex, so once the marker of tick n was
	// called and VerifHandlerCount (same mutex) has returned, every handler registered before
	// the tick has been given it and none registered later will be.
	var marker int64
	markerCtx, stopMarker := context.WithCancel(context.Background())
	defer stopMarker()
	retransmission.ScheduleRetransmissions(markerCtx, faultLogger, ticker, func() error {
		atomic.AddInt64(&marker, 1)
		return nil
	}, retransmission.WithStandardStrategy())
	waitFor(budget, "marker registration", func() bool { return ticker.VerifHandlerCount() >= 1 })
	stepNo, before, expect := 0, 0, 0
	debugState = func() string {
		return fmt.Sprintf("step %d, publish calls before the round %d, expected in the round %d, seen %d, ticker handlers %d, live sends %d",
			stepNo, before, expect, nCalls(), ticker.VerifHandlerCount()-1, s.live())
	}
	for i, st := range in.Steps {
		stepNo = i
		switch st.Op {
		case "send", "badsend":
			ctx, cancel := context.WithCancel(context.Background())
			r := &sendRec{payload: uint64(len(sends) + 1), bad: st.Op == "badsend", cancel: cancel}
			sends = append(sends, r)
			r.failed = sender.Channel().Send(ctx, &c16Payload{id: r.payload, failMarshal: r.bad}, strategy) != nil
			s.send(r.bad)
			// ScheduleRetransmissions registers with the ticker from a goroutine of its own
			waitFor(budget, "retransmission registration", func() bool { return ticker.VerifHandlerCount() >= s.live()+1 })
		case "cancel":
			if st.I >= 0 && st.I < len(sends) {
				sends[st.I].cancel()
				s.cancel(st.I)
			}
		case "tick":
			before = nCalls()
			expect = s.tick()
			nTicks++
			ticks <- nTicks
			waitFor(budget, "tick taken up", func() bool { return atomic.LoadInt64(&marker) >= int64(nTicks) })
			ticker.VerifHandlerCount()
			waitFor(budget, "retransmission round", func() bool { return nCalls() >= before+expect })
		}
	}
	// everything published so far has been handed to the receiver; a message of another sender
	// comes out of its handler after all of it
	if err := other.Channel().Send(recvCtx, &c16Payload{id: faultSentinel}, net.StandardRetransmissionStrategy); err != nil {
		panic(err)
	}
	waitFor(budget, "receiver handles the other sender's message", func() bool {
		mu.Lock()
		defer mu.Unlock()
		for _, d := range dels {
			if d.payload == faultSentinel {
				return true
			}
		}
		return false
	})

	mu.Lock()
	defer mu.Unlock()
	idOf := map[uint64]int{}
	var wireT, outS []string
	firstFailed, retxFailed, retxOk, dupSeqno := false, false, false, false
	bySeq := map[uint64]uint64{}
	for _, w := range wire {
		id, known := idOf[w.payload]
		if !known {
			id = len(idOf)
			idOf[w.payload] = id
			if !w.ok {
				firstFailed = true
			}
		} else if w.ok {
			retxOk = true
		} else {
			retxFailed = true
		}
		if p, ok := bySeq[w.seqno]; ok && p != w.payload {
			dupSeqno = true
		}
		bySeq[w.seqno] = w.payload
		wireT = append(wireT, fmt.Sprintf("(%d, %d, %s)", id, w.seqno, lib.Bool(w.ok)))
		outS = append(outS, fmt.Sprintf("publish message %d (payload %d) seqno %d ok=%v", id, w.payload, w.seqno, w.ok))
	}
	var sendT []string
	nBad, nCancel := 0, 0
	for _, r := range sends {
		m := "None"
		if id, ok := idOf[r.payload]; ok {
			m = fmt.Sprintf("(Some %d)", id)
		}
		if r.bad {
			nBad++
		}
		sendT = append(sendT, fmt.Sprintf("(%s, %s)", m, lib.Bool(r.failed)))
		outS = append(outS, fmt.Sprintf("Send payload %d marshalFails=%v returned error=%v", r.payload, r.bad, r.failed))
	}
	for _, x := range s.sends {
		if x.cancelled {
			nCancel++
		}
	}
	var delT []string
	me := sender.PeerID().String()
	for _, d := range dels {
		if d.sender != me {
			continue
		}
		id, ok := idOf[d.payload]
		if !ok {
			id = 999999
		}
		delT = append(delT, fmt.Sprintf("(%d, %d)", id, d.seqno))
		outS = append(outS, fmt.Sprintf("receiver delegate: message %d (payload %d) seqno %d", id, d.payload, d.seqno))
	}
	coq = fmt.Sprintf("(CFault {| fa_wire := %s; fa_sends := %s; fa_delivered := %s; fa_flushed := true |})",
		lib.List(wireT), lib.List(sendT), lib.List(delT))
	sig = map[string]interface{}{"kind": "fault", "dup_seqno": dupSeqno, "first_failed": firstFailed,
		"retx_failed": retxFailed, "marshal_failed": nBad > 0, "cancelled": nCancel > 0}
	return coq, outS, sig, firstFailed && retxOk && len(idOf) >= 2, ""
}

// ---------------------------------------------------------------- generators

func S(ops ...string) []faultStep {
	var out []faultStep
	for _, o := range ops {
		out = append(out, faultStep{Op: o})
	}
	return out
}

func faultCorpus(name func(int) string) []faultIn {
	return []faultIn{
		// the first publish of A fails, B follows on the same channel, then two rounds
		{Script: []bool{false}, Steps: S("send", "send", "tick", "tick"), Name: name(9100)},
		// ... with the backoff strategy
		{Script: []bool{false}, Steps: S("send", "send", "tick", "tick", "tick"), Backoff: true, Name: name(9101)},
		// every first publish fails, every retransmission succeeds
		{Script: []bool{false, false, true, true, false, true, true, true}, Steps: S("send", "send", "tick", "send", "tick"), Name: name(9102)},
		// retransmissions fail, first publishes succeed
		{Script: []bool{true, true, false, false, true, false, false, false}, Steps: S("send", "send", "tick", "send", "tick"), Name: name(9103)},
		// alternating
		{Script: []bool{false, true, false, true, false, true, false, true, false, true, false, true}, Steps: S("send", "tick", "send", "tick", "send", "tick", "tick"), Name: name(9104)},
		// a failed Send that is never retransmitted (context cancelled), then more Sends
		{Script: []bool{false, true, true}, Steps: []faultStep{{Op: "send"}, {Op: "cancel", I: 0}, {Op: "tick"}, {Op: "send"}, {Op: "send"}, {Op: "tick"}}, Name: name(9105)},
		// Marshal failures between failed publishes
		{Script: []bool{false, false, true}, Steps: S("badsend", "send", "badsend", "send", "tick", "send", "tick"), Name: name(9106)},
		// nothing ever fails
		{Steps: S("send", "send", "tick", "send", "tick"), Name: name(9107)},
	}
}

func genFault(r *lib.Rng, name string) faultIn {
	in := faultIn{Backoff: r.Chance(1, 4), Name: name}
	nSends := r.Range(2, 8)
	made := 0
	for made < nSends {
		switch x := r.Intn(100); {
		case x < 10:
			in.Steps = append(in.Steps, faultStep{Op: "badsend"})
			made++
		case x < 18 && made > 0:
			in.Steps = append(in.Steps, faultStep{Op: "cancel", I: r.Intn(made)})
		case x < 50:
			in.Steps = append(in.Steps, faultStep{Op: "tick"})
		default:
			in.Steps = append(in.Steps, faultStep{Op: "send"})
			made++
		}
	}
	for i, n := 0, r.Range(1, 3); i < n; i++ {
		in.Steps = append(in.Steps, faultStep{Op: "tick"})
	}
	calls := plan(in.Steps, in.Backoff)
	mode := r.Intn(5)
	for i, first := range calls {
		ok := true
		switch mode {
		case 0: // first publishes only
			ok = !first || r.Bool()
		case 1: // retransmissions only
			ok = first || r.Bool()
		case 2: // alternating
			ok = i%2 == 1
		case 3: // every first publish
			ok = !first
		default:
			ok = !r.Chance(3, 10)
		}
		in.Script = append(in.Script, ok)
	}
	return in
}
