// Driver for C16: histories of the real duplicate filter (retransmission.WithRetransmissionSupport)
// called from concurrent goroutines, and of the real local and libp2p broadcast channels
// (Send / Recv / retransmissions / cancellation) under concurrent senders, late registration and
// cancellation races.  Every recorded event takes a value of one logical clock; the Coq side
// (Model/C16.v) evaluates the property on the history and validates the linearisation
// certificate / the model replay.
//
// All waiting is on explicit conditions; a condition not reached within the budget makes the
// history inconclusive (retried once with 4x the budget, then skipped and counted).
package main

import (
	"context"
	"encoding/binary"
	"encoding/json"
	"fmt"
	"os"
	"runtime"
	"sort"
	"strconv"
	"strings"
	"sync"
	"sync/atomic"
	"time"

	pubsub "github.com/libp2p/go-libp2p-pubsub"
	pubsubpb "github.com/libp2p/go-libp2p-pubsub/pb"
	libp2pcrypto "github.com/libp2p/go-libp2p/core/crypto"

	"github.com/keep-network/keep-core/pkg/net"
	"github.com/keep-network/keep-core/pkg/net/libp2p"
	"github.com/keep-network/keep-core/pkg/net/local"
	"github.com/keep-network/keep-core/pkg/net/retransmission"

	"verifharness/lib"
)

type inconclusive struct{ what string }

func waitFor(budget time.Duration, what string, cond func() bool) {
	deadline := time.Now().Add(budget)
	for i := 0; !cond(); i++ {
		if i%32 == 31 {
			if time.Now().After(deadline) {
				panic(inconclusive{what})
			}
			time.Sleep(200 * time.Microsecond) // polling pause, not a verdict
		} else {
			runtime.Gosched()
		}
	}
}

type sid string

func (s sid) String() string { return string(s) }

// ================================================================ (A) the filter, directly

type fmsg struct {
	sender string
	seqno  uint64
	tag    int
}

func (m *fmsg) TransportSenderID() net.TransportIdentifier { return sid(m.sender) }
func (m *fmsg) SenderPublicKey() []byte                    { return nil }
func (m *fmsg) Payload() interface{}                       { return nil }
func (m *fmsg) Type() string                               { return "verif/c16" }
func (m *fmsg) Seqno() uint64                              { return m.seqno }

type fcallIn struct {
	Sender int    `json:"s"`
	Seqno  uint64 `json:"n"`
}
type filterIn struct {
	Threads [][]fcallIn `json:"threads"`
	Yield   bool        `json:"yield"` // the delegate yields, widening the overlap
}

var senders = []string{"p", "p-1", "q", "p-", "16Uiu2HAm"}

func runFilter(in filterIn) (string, interface{}, map[string]interface{}, bool) {
	var clock uint64
	type rec struct {
		thread, sender int
		seqno          uint64
		inv, ret       uint64
		delivered      int32
	}
	var recs []*rec
	per := make([][]*rec, len(in.Threads))
	for t, calls := range in.Threads {
		for _, c := range calls {
			r := &rec{thread: t, sender: c.Sender % len(senders), seqno: c.Seqno}
			recs = append(recs, r)
			per[t] = append(per[t], r)
		}
	}
	idx := map[*rec]int{}
	for i, r := range recs {
		idx[r] = i
	}
	handler := retransmission.WithRetransmissionSupport(func(m net.Message) {
		fm := m.(*fmsg)
		atomic.AddInt32(&recs[fm.tag].delivered, 1)
		if in.Yield {
			for i := 0; i < 20; i++ {
				runtime.Gosched()
			}
		}
	})
	start := make(chan struct{})
	var wg sync.WaitGroup
	for t := range per {
		wg.Add(1)
		go func(t int) {
			defer wg.Done()
			<-start
			for _, r := range per[t] {
				r.inv = atomic.AddUint64(&clock, 1)
				handler(&fmsg{senders[r.sender], r.seqno, idx[r]})
				r.ret = atomic.AddUint64(&clock, 1)
			}
		}(t)
	}
	close(start)
	wg.Wait()

	// linearisation certificate: per key the delivering call first (at its invocation), the
	// others at max(own invocation, that point) + 1/2
	type key struct {
		s int
		n uint64
	}
	first := map[key]uint64{}
	dup := false
	nDelivered := 0
	for _, r := range recs {
		if r.delivered > 0 {
			nDelivered++
			k := key{r.sender, r.seqno}
			if _, ok := first[k]; ok || r.delivered > 1 {
				dup = true
			}
			first[k] = r.inv
		}
	}
	lp := func(r *rec) uint64 {
		if r.delivered > 0 {
			return 2 * r.inv
		}
		p := r.inv
		if f, ok := first[key{r.sender, r.seqno}]; ok && f > p {
			p = f
		}
		return 2*p + 1
	}
	order := make([]int, len(recs))
	for i := range order {
		order[i] = i
	}
	sort.SliceStable(order, func(a, b int) bool { return lp(recs[order[a]]) < lp(recs[order[b]]) })
	var calls, ord, out []string
	for _, r := range recs {
		// a call whose delegate ran more than once is shown as two delivered calls
		calls = append(calls, fmt.Sprintf("{| f_thread := %d; f_msg := (%d, %d); f_inv := %d; f_ret := %d; f_delivered := %s |}",
			r.thread, r.sender+1, r.seqno, r.inv, r.ret, lib.Bool(r.delivered > 0)))
		if r.delivered > 1 {
			calls = append(calls, fmt.Sprintf("{| f_thread := %d; f_msg := (%d, %d); f_inv := %d; f_ret := %d; f_delivered := true |}",
				r.thread, r.sender+1, r.seqno, r.inv, r.ret))
		}
		out = append(out, fmt.Sprintf("t%d %s-%d [%d,%d] delivered=%d", r.thread, senders[r.sender], r.seqno, r.inv, r.ret, r.delivered))
	}
	for _, i := range order {
		ord = append(ord, lib.Nat(i))
	}
	coq := fmt.Sprintf("(CFilter {| fc_calls := %s; fc_order := %s |})", lib.List(calls), lib.List(ord))
	nontrivial := len(in.Threads) >= 2 && nDelivered < len(recs) && nDelivered >= 2
	return coq, out, map[string]interface{}{"kind": "filter", "dup": dup}, nontrivial
}

// ================================================================ (B) channels

type c16Payload struct {
	id          uint64
	failMarshal bool
}

func (p *c16Payload) Type() string { return "verif/c16" }
func (p *c16Payload) Marshal() ([]byte, error) {
	if p.failMarshal {
		return nil, fmt.Errorf("payload cannot be marshalled")
	}
	b := make([]byte, 8)
	binary.BigEndian.PutUint64(b, p.id)
	return b, nil
}
func (p *c16Payload) Unmarshal(b []byte) error {
	if len(b) != 8 {
		return fmt.Errorf("bad length")
	}
	p.id = binary.BigEndian.Uint64(b)
	return nil
}

type handlerIn struct {
	Peer   int    `json:"peer"`
	When   string `json:"when"`   // early | mid | late
	Cancel string `json:"cancel"` // never | afterK | self | gate | concurrent
	K      int    `json:"k"`
}
type chanIn struct {
	System   string      `json:"system"` // local | libp2p
	Peers    int         `json:"peers"`
	Sends    [][]int     `json:"sends"` // per sender goroutine: the peers it sends on, in order
	Backoff  bool        `json:"backoff"`
	Handlers []handlerIn `json:"handlers"`
	Post     int         `json:"post"` // sends made after every cancellation returned
	Name     string      `json:"name"`
}

type delivery struct {
	sender   string
	seqno    uint64
	payload  uint64
	inv, ret uint64
}
type hrec struct {
	in       handlerIn
	ctx      context.Context
	cancel   context.CancelFunc
	reg      uint64
	cinv     uint64
	cret     uint64
	dels     []*delivery
	gateHit  int32
	gate     chan struct{}
	observer bool
}

type history struct {
	mu     sync.Mutex
	clock  uint64
	budget time.Duration
}

func (h *history) tick() uint64 { return atomic.AddUint64(&h.clock, 1) }

type system interface {
	channel(i int) net.BroadcastChannel
	// round makes every live send be retransmitted once more (or waits for the next round of
	// the real-time ticker) -- best effort, the caller waits on its own condition
	round(h *history, nSends int)
	close()
}

// ---- local provider: real-time ticker of 50ms inside
type localSys struct{ chans []net.BroadcastChannel }

func newLocal(n int, name string) *localSys {
	s := &localSys{}
	for i := 0; i < n; i++ {
		ch, err := local.Connect().BroadcastChannelFor(name)
		if err != nil {
			panic(err)
		}
		s.chans = append(s.chans, ch)
	}
	return s
}
func (s *localSys) channel(i int) net.BroadcastChannel { return s.chans[i] }
func (s *localSys) round(h *history, n int)            { time.Sleep(5 * time.Millisecond) } // the ticker is the code's own
func (s *localSys) close()                             {}

// ---- libp2p channels on a loop-back bus, retransmission ticks fed by the driver
type p2pSys struct {
	chans     []*libp2p.VerifChannel
	ticks     chan uint64
	ticker    *retransmission.Ticker
	published int64
	nTicks    uint64
	backoff   bool
	base      []uint64 // per send: the number of ticks fed before it was scheduled
}

func newP2P(n int, name string, backoff bool) *p2pSys {
	s := &p2pSys{ticks: make(chan uint64), backoff: backoff}
	s.ticker = retransmission.NewTicker(s.ticks)
	for i := 0; i < n; i++ {
		i := i
		priv, _, err := libp2pcrypto.GenerateSecp256k1Key(rngReader{lib.NewRng(uint64(1000 + i))})
		if err != nil {
			panic(err)
		}
		var vc *libp2p.VerifChannel
		vc, err = libp2p.VerifNewChannel(name, priv, s.ticker, func(data []byte) error {
			from := []byte(s.chans[i].PeerID())
			for _, c := range s.chans {
				c.ProcessPubsubMessage(&pubsub.Message{Message: &pubsubpb.Message{Data: data, From: from}})
			}
			atomic.AddInt64(&s.published, 1)
			return nil
		})
		if err != nil {
			panic(err)
		}
		s.chans = append(s.chans, vc)
	}
	return s
}
func (s *p2pSys) channel(i int) net.BroadcastChannel { return s.chans[i].Channel() }
func isSched(k uint64) bool {
	for n := uint(1); n < 63; n++ {
		if k == (uint64(1)<<(n-1))+uint64(n)-1 {
			return true
		}
	}
	return false
}
func (s *p2pSys) round(h *history, nSends int) {
	waitFor(h.budget, "retransmission registration", func() bool { return s.ticker.VerifHandlerCount() >= nSends })
	before := atomic.LoadInt64(&s.published)
	for len(s.base) < nSends {
		s.base = append(s.base, s.nTicks)
	}
	s.nTicks++
	s.ticks <- s.nTicks
	expect := int64(0)
	for _, b := range s.base {
		if !s.backoff || isSched(s.nTicks-b) {
			expect++
		}
	}
	waitFor(h.budget, "retransmission round", func() bool { return atomic.LoadInt64(&s.published) >= before+expect })
}
func (s *p2pSys) close() { close(s.ticks) }

type rngReader struct{ r *lib.Rng }

func (rr rngReader) Read(p []byte) (int, error) { copy(p, rr.r.Bytes(len(p))); return len(p), nil }

type sendRec struct {
	peer     int
	payload  uint64
	inv, ret uint64
}

func runChan(in chanIn, budget time.Duration) (coq string, out interface{}, sig map[string]interface{}, nontrivial bool, incon string) {
	defer func() {
		if r := recover(); r != nil {
			if ic, ok := r.(inconclusive); ok {
				incon = ic.what
				return
			}
			panic(r)
		}
	}()
	h := &history{budget: budget}
	var sys system
	if in.System == "local" {
		sys = newLocal(in.Peers, in.Name)
	} else {
		sys = newP2P(in.Peers, in.Name, in.Backoff)
	}
	defer sys.close()
	for i := 0; i < in.Peers; i++ {
		sys.channel(i).SetUnmarshaler(func() net.TaggedUnmarshaler { return &c16Payload{} })
	}
	strategy := net.StandardRetransmissionStrategy
	if in.Backoff {
		strategy = net.BackoffRetransmissionStrategy
	}

	var handlers []*hrec
	register := func(hr *hrec) {
		ctx, cancel := context.WithCancel(context.Background())
		h.mu.Lock()
		hr.ctx, hr.cancel = ctx, cancel
		h.mu.Unlock()
		sys.channel(hr.in.Peer).Recv(ctx, func(m net.Message) {
			d := &delivery{sender: m.TransportSenderID().String(), seqno: m.Seqno()}
			if p, ok := m.Payload().(*c16Payload); ok {
				d.payload = p.id
			} else {
				d.payload = 1 << 40
			}
			h.mu.Lock()
			d.inv = h.tick()
			hr.dels = append(hr.dels, d)
			n := len(hr.dels)
			h.mu.Unlock()
			if !hr.observer && n == hr.in.K {
				switch hr.in.Cancel {
				case "self":
					doCancel(h, hr)
				case "gate":
					atomic.StoreInt32(&hr.gateHit, 1)
					<-hr.gate
				}
			}
			h.mu.Lock()
			d.ret = h.tick()
			h.mu.Unlock()
		})
		h.mu.Lock()
		hr.reg = h.tick()
		h.mu.Unlock()
	}
	count := func(hr *hrec) int { h.mu.Lock(); defer h.mu.Unlock(); return len(hr.dels) }
	has := func(hr *hrec, ids []uint64) bool {
		h.mu.Lock()
		defer h.mu.Unlock()
		got := map[uint64]bool{}
		for _, d := range hr.dels {
			got[d.payload] = true
		}
		for _, id := range ids {
			if !got[id] {
				return false
			}
		}
		return true
	}

	// observers: one per peer, registered first, live to the end
	var observers []*hrec
	for p := 0; p < in.Peers; p++ {
		o := &hrec{in: handlerIn{Peer: p, When: "early", Cancel: "never"}, observer: true, gate: make(chan struct{})}
		register(o)
		observers = append(observers, o)
		handlers = append(handlers, o)
	}
	for i := range in.Handlers {
		hr := &hrec{in: in.Handlers[i], gate: make(chan struct{})}
		handlers = append(handlers, hr)
		if hr.in.When == "early" {
			register(hr)
		}
	}

	// senders, mid registrations and cancellers run concurrently
	sendCtx, stopSends := context.WithCancel(context.Background())
	defer stopSends()
	var sends []*sendRec
	var nextPayload uint64
	send := func(peer int) {
		h.mu.Lock()
		nextPayload++
		s := &sendRec{peer: peer, payload: nextPayload}
		sends = append(sends, s)
		s.inv = h.tick()
		h.mu.Unlock()
		if err := sys.channel(peer).Send(sendCtx, &c16Payload{id: s.payload}, strategy); err != nil {
			panic(err)
		}
		h.mu.Lock()
		s.ret = h.tick()
		h.mu.Unlock()
	}
	var wgSend, wgAux sync.WaitGroup
	sendsDone := int32(0)
	start := make(chan struct{})
	auxPanic := make(chan interface{}, 64)
	goAux := func(wg *sync.WaitGroup, f func()) {
		wg.Add(1)
		go func() {
			defer wg.Done()
			defer func() {
				if r := recover(); r != nil {
					auxPanic <- r
				}
			}()
			<-start
			f()
		}()
	}
	for _, peers := range in.Sends {
		peers := peers
		goAux(&wgSend, func() {
			for _, p := range peers {
				send(p % in.Peers)
			}
		})
	}
	for _, hr := range handlers {
		hr := hr
		if hr.observer {
			continue
		}
		if hr.in.When == "mid" {
			goAux(&wgAux, func() { register(hr) })
		}
		switch hr.in.Cancel {
		case "afterK":
			goAux(&wgAux, func() {
				// the handler may never get K messages (registered late, sends over): give up then
				for count(hr) < hr.in.K && atomic.LoadInt32(&sendsDone) < 2 {
					runtime.Gosched()
				}
				doCancel(h, hr)
			})
		case "concurrent":
			goAux(&wgAux, func() {
				for i := 0; i < hr.in.K*10; i++ {
					runtime.Gosched()
				}
				doCancel(h, hr)
			})
		}
	}
	close(start)
	wgSend.Wait()
	atomic.StoreInt32(&sendsDone, 1)
	select {
	case r := <-auxPanic:
		panic(r)
	default:
	}
	h.mu.Lock()
	nSends := len(sends)
	var all []uint64
	for _, s := range sends {
		all = append(all, s.payload)
	}
	h.mu.Unlock()
	for _, o := range observers {
		o := o
		waitFor(budget, "observers receive every send", func() bool { return has(o, all) })
	}
	// late handlers get everything through retransmissions only
	for _, hr := range handlers {
		if hr.in.When == "late" {
			register(hr)
		}
	}
	must := map[*hrec][]uint64{}
	for _, o := range observers {
		must[o] = all
	}
	for _, hr := range handlers {
		hr := hr
		if hr.observer {
			continue
		}
		if hr.in.Cancel == "never" {
			must[hr] = all
			waitFor(budget, "live handler receives every send", func() bool {
				if has(hr, all) {
					return true
				}
				sys.round(h, nSends)
				return has(hr, all)
			})
		}
	}
	// gated handlers: cancel while the delegate is blocked, then release it
	for _, hr := range handlers {
		hr := hr
		if hr.in.Cancel == "gate" {
			// it reaches the gate if it gets K messages; retransmission rounds bring them
			reached := false
			for i := 0; i < 3 && !reached; i++ {
				sys.round(h, nSends)
				for j := 0; j < 200 && !reached; j++ {
					reached = atomic.LoadInt32(&hr.gateHit) == 1
					runtime.Gosched()
				}
			}
			doCancel(h, hr)
			close(hr.gate)
		}
	}
	atomic.StoreInt32(&sendsDone, 2)
	wgAux.Wait()
	select {
	case r := <-auxPanic:
		panic(r)
	default:
	}
	// sends made after every cancellation has returned
	for i := 0; i < in.Post; i++ {
		send(i % in.Peers)
	}
	h.mu.Lock()
	all = nil
	for _, s := range sends {
		all = append(all, s.payload)
	}
	nSends = len(sends)
	h.mu.Unlock()
	for _, o := range observers {
		o := o
		must[o] = all
		waitFor(budget, "observers receive the late sends", func() bool { return has(o, all) })
	}
	// one more retransmission round reaches every queue, witnessed by a fresh handler
	flush := &hrec{in: handlerIn{Peer: 0, When: "late", Cancel: "never"}, gate: make(chan struct{})}
	register(flush)
	handlers = append(handlers, flush)
	must[flush] = all
	waitFor(budget, "flush handler receives everything", func() bool {
		if has(flush, all) {
			return true
		}
		sys.round(h, nSends)
		return has(flush, all)
	})
	for i := 0; i < 200; i++ {
		runtime.Gosched()
	}
	stopSends()

	// ---- snapshot
	h.mu.Lock()
	defer h.mu.Unlock()
	defer func() {
		for _, hr := range handlers {
			if hr.cancel != nil {
				hr.cancel()
			}
		}
	}()
	senderN := map[string]uint64{}
	sn := func(s string) uint64 {
		if v, ok := senderN[s]; ok {
			return v
		}
		senderN[s] = uint64(len(senderN) + 1)
		return senderN[s]
	}
	// the (sender, seqno) of every send, as first seen by anybody
	type sm struct {
		s string
		n uint64
	}
	seen := map[uint64]sm{}
	for _, hr := range handlers {
		for _, d := range hr.dels {
			if _, ok := seen[d.payload]; !ok {
				seen[d.payload] = sm{d.sender, d.seqno}
			}
		}
	}
	sendIdx := map[uint64]int{}
	var sendTerms, outS []string
	for i, s := range sends {
		sendIdx[s.payload] = i
		m := "None"
		if v, ok := seen[s.payload]; ok {
			m = fmt.Sprintf("(Some (%d, %d))", sn(v.s), v.n)
		}
		sendTerms = append(sendTerms, fmt.Sprintf("{| s_chan := %d; s_msg := %s; s_inv := %d; s_ret := %d |}", s.peer, m, s.inv, s.ret))
		outS = append(outS, fmt.Sprintf("send %d on peer %d [%d,%d] -> %v", s.payload, s.peer, s.inv, s.ret, seen[s.payload]))
	}
	var hTerms []string
	afterCancel, dupSeen := 0, false
	for hi, hr := range handlers {
		if hr.ctx == nil {
			continue // never registered
		}
		var ds []string
		keys := map[sm]bool{}
		for _, d := range hr.dels {
			idx, ok := sendIdx[d.payload]
			if !ok || seen[d.payload] != (sm{d.sender, d.seqno}) {
				idx = 999999
			}
			if keys[sm{d.sender, d.seqno}] {
				dupSeen = true
			}
			keys[sm{d.sender, d.seqno}] = true
			if hr.cret != 0 && d.inv > hr.cret {
				afterCancel++
			}
			ds = append(ds, fmt.Sprintf("{| d_msg := (%d, %d); d_send := %d; d_inv := %d; d_ret := %d |}", sn(d.sender), d.seqno, idx, d.inv, d.ret))
		}
		canc := "None"
		if hr.cret != 0 {
			canc = fmt.Sprintf("(Some (%d, %d))", hr.cinv, hr.cret)
		}
		var mustIdx []string
		if hr.cret == 0 {
			for _, id := range must[hr] {
				mustIdx = append(mustIdx, lib.Nat(sendIdx[id]))
			}
		}
		hTerms = append(hTerms, fmt.Sprintf("{| h_reg := %d; h_cancel := %s; h_must := %s; h_deliveries := %s |}",
			hr.reg, canc, lib.List(mustIdx), lib.List(ds)))
		outS = append(outS, fmt.Sprintf("handler %d %+v reg=%d cancel=[%d,%d] deliveries=%d", hi, hr.in, hr.reg, hr.cinv, hr.cret, len(hr.dels)))
	}
	var fresh []string
	for p := 0; p < in.Peers; p++ {
		fresh = append(fresh, fmt.Sprint(p))
	}
	coq = fmt.Sprintf("(CChan {| cc_sends := %s; cc_handlers := %s; cc_fresh_chans := %s |})",
		lib.List(sendTerms), lib.List(hTerms), lib.List(fresh))
	cancels := 0
	for _, hr := range handlers {
		if hr.cret != 0 {
			cancels++
		}
	}
	sig = map[string]interface{}{"kind": "chan", "system": in.System, "dup": dupSeen, "after_cancel": afterCancel}
	return coq, outS, sig, cancels > 0 && nSends >= 3, ""
}

func doCancel(h *history, hr *hrec) {
	h.mu.Lock()
	if hr.cinv != 0 || hr.cancel == nil { // already cancelled / not registered yet
		h.mu.Unlock()
		return
	}
	hr.cinv = h.tick()
	cancel := hr.cancel
	h.mu.Unlock()
	cancel()
	h.mu.Lock()
	hr.cret = h.tick()
	h.mu.Unlock()
}

// ================================================================ generation / main

type input struct {
	Filter *filterIn `json:"filter,omitempty"`
	Chan   *chanIn   `json:"chan,omitempty"`
	Fault  *faultIn  `json:"fault,omitempty"`
}

type result struct {
	id         string
	in         input
	coq        string
	out        interface{}
	sig        map[string]interface{}
	nontrivial bool
	incon      string
}

func runOne(id string, in input) result {
	r := result{id: id, in: in}
	if in.Filter != nil {
		r.coq, r.out, r.sig, r.nontrivial = runFilter(*in.Filter)
		return r
	}
	budget := 30 * time.Second
	if in.Fault != nil {
		r.coq, r.out, r.sig, r.nontrivial, r.incon = runFault(*in.Fault, budget)
		if r.incon != "" {
			f := *in.Fault
			f.Name += "-retry"
			r.coq, r.out, r.sig, r.nontrivial, r.incon = runFault(f, 4*budget)
		}
		return r
	}
	r.coq, r.out, r.sig, r.nontrivial, r.incon = runChan(*in.Chan, budget)
	if r.incon != "" {
		c := *in.Chan
		c.Name += "-retry"
		r.coq, r.out, r.sig, r.nontrivial, r.incon = runChan(c, 4*budget)
	}
	return r
}

func genFilter(r *lib.Rng) filterIn {
	nt := r.Range(1, 6)
	nKeys := r.Range(1, 5)
	in := filterIn{Yield: r.Bool()}
	for t := 0; t < nt; t++ {
		var calls []fcallIn
		for i, n := 0, r.Range(1, 10); i < n; i++ {
			k := r.Intn(nKeys)
			calls = append(calls, fcallIn{Sender: k % 3 * (1 + r.Intn(2)), Seqno: []uint64{1, 11, 2, 0, ^uint64(0)}[(k/2+r.Intn(2))%5]})
		}
		in.Threads = append(in.Threads, calls)
	}
	return in
}

func genChan(r *lib.Rng, system, name string) chanIn {
	in := chanIn{System: system, Peers: r.Range(1, 3), Backoff: r.Chance(1, 3), Post: r.Range(1, 3), Name: name}
	for g, ng := 0, r.Range(1, 3); g < ng; g++ {
		var peers []int
		for i, n := 0, r.Range(1, 4); i < n; i++ {
			peers = append(peers, r.Intn(in.Peers))
		}
		in.Sends = append(in.Sends, peers)
	}
	total := 0
	for _, p := range in.Sends {
		total += len(p)
	}
	for i, n := 0, r.Range(1, 4); i < n; i++ {
		hi := handlerIn{Peer: r.Intn(in.Peers), K: r.Range(1, total)}
		hi.When = []string{"early", "early", "mid", "late"}[r.Intn(4)]
		hi.Cancel = []string{"never", "afterK", "self", "gate", "gate", "concurrent"}[r.Intn(6)]
		in.Handlers = append(in.Handlers, hi)
	}
	return in
}

func main() {
	lib.SilenceLogs()
	o := lib.ParseOpts()
	em := lib.NewEmitter()
	if o.Replay != "" {
		var in input
		if err := lib.LoadReplay(o.Replay, &in); err != nil {
			fmt.Fprintln(os.Stderr, err)
			os.Exit(2)
		}
		if in.Chan != nil {
			in.Chan.Name = fmt.Sprintf("verif-c16-replay-%d", time.Now().UnixNano())
		}
		if in.Fault != nil {
			in.Fault.Name = fmt.Sprintf("verif-c16-replay-%d", time.Now().UnixNano())
		}
		emit(em, runOne("replay", in))
		em.Close("replay", nil)
		return
	}
	rng := lib.NewRng(o.Seed)
	type job struct {
		id string
		in input
	}
	var jobs []job
	name := func(i int) string { return fmt.Sprintf("verif-c16-%d-%d-%d", o.Seed, os.Getpid(), i) }

	// --- corpus
	jobs = append(jobs,
		job{"corpus-filter-same-key", input{Filter: &filterIn{Yield: true, Threads: [][]fcallIn{
			{{0, 1}, {0, 1}, {0, 1}}, {{0, 1}, {0, 1}}, {{0, 1}, {0, 1}}, {{0, 1}}}}}},
		job{"corpus-filter-dash-senders", input{Filter: &filterIn{Threads: [][]fcallIn{
			{{0, 11}, {1, 1}, {3, 1}, {0, 1}}, {{1, 1}, {0, 11}, {3, 11}}}}}},
	)
	for si, system := range []string{"local", "libp2p"} {
		jobs = append(jobs,
			job{"corpus-gate-" + system, input{Chan: &chanIn{System: system, Peers: 1, Sends: [][]int{{0, 0, 0, 0}}, Post: 2, Name: name(9000 + si),
				Handlers: []handlerIn{{Peer: 0, When: "early", Cancel: "gate", K: 1}}}}},
			job{"corpus-self-cancel-" + system, input{Chan: &chanIn{System: system, Peers: 2, Sends: [][]int{{0, 1, 0}, {1, 1}}, Post: 1, Name: name(9010 + si),
				Handlers: []handlerIn{{Peer: 0, When: "early", Cancel: "self", K: 2}, {Peer: 1, When: "late", Cancel: "never", K: 1}}}}},
			job{"corpus-late-backoff-" + system, input{Chan: &chanIn{System: system, Peers: 2, Sends: [][]int{{0}, {1}}, Post: 1, Backoff: true, Name: name(9020 + si),
				Handlers: []handlerIn{{Peer: 1, When: "late", Cancel: "never", K: 1}, {Peer: 0, When: "early", Cancel: "afterK", K: 1}}}}},
		)
	}
	for i, f := range faultCorpus(name) {
		f := f
		jobs = append(jobs, job{fmt.Sprintf("corpus-fault-%02d", i), input{Fault: &f}})
	}
	// --- random
	for i, n := 0, o.Count(60, 1000); i < n; i++ {
		f := genFault(rng.Fork(fmt.Sprintf("fault%d", i)), name(20000+i))
		jobs = append(jobs, job{fmt.Sprintf("fault-%d", i), input{Fault: &f}})
	}
	nF := o.Count(120, 2000)
	for i := 0; i < nF; i++ {
		f := genFilter(rng.Fork(fmt.Sprintf("filter%d", i)))
		jobs = append(jobs, job{fmt.Sprintf("filter-%d", i), input{Filter: &f}})
	}
	nC := o.Count(160, 2500)
	for i := 0; i < nC; i++ {
		system := "libp2p"
		if i%2 == 0 {
			system = "local"
		}
		c := genChan(rng.Fork(fmt.Sprintf("chan%d", i)), system, name(i))
		jobs = append(jobs, job{fmt.Sprintf("chan-%s-%d", system, i), input{Chan: &c}})
	}

	if only := os.Getenv("C16_ONLY"); only != "" { // development aid: run one class of histories
		var kept []job
		for _, j := range jobs {
			if strings.Contains(j.id, only) {
				kept = append(kept, j)
			}
		}
		jobs = kept
	}
	results := make([]result, len(jobs))
	var wg sync.WaitGroup
	par := 8
	if v, err := strconv.Atoi(os.Getenv("C16_PAR")); err == nil && v > 0 {
		par = v
	}
	sem := make(chan struct{}, par)
	for i := range jobs {
		wg.Add(1)
		sem <- struct{}{}
		go func(i int) {
			defer wg.Done()
			defer func() { <-sem }()
			results[i] = runOne(jobs[i].id, jobs[i].in)
		}(i)
	}
	wg.Wait()
	nIncon := 0
	for _, r := range results {
		if r.incon != "" {
			nIncon++
			em.Tally("inconclusive-" + r.incon)
			if b, err := json.Marshal(r.in); err == nil {
				fmt.Fprintf(os.Stderr, "c16: history %s inconclusive (%s): %s\n", r.id, r.incon, b)
			}
			continue
		}
		emit(em, r)
	}
	if nIncon*4 > len(jobs) {
		fmt.Fprintf(os.Stderr, "c16: %d of %d histories did not reach quiescence: the harness is not working\n", nIncon, len(jobs))
		em.Close("", nil)
		os.Exit(3)
	}
	em.Close("a case is one history: either concurrent goroutines calling one WithRetransmissionSupport handler with "+
		"overlapping duplicate messages, or one local/libp2p broadcast channel group with concurrent senders, retransmission "+
		"rounds, early/mid/late handler registration and cancellations (from outside, from inside the delegate, while the "+
		"delegate is blocked) followed by further sends; distinct by the recorded history; non-trivial when a filter history "+
		"has >= 2 goroutines, >= 2 deliveries and at least one suppressed duplicate, or a channel history has >= 3 sends and a cancellation; "+
		"or one long-lived libp2p channel whose publisher fails on scripted publish calls (first publish of a Send, retransmissions, "+
		"alternating, random; Marshal failures; cancelled Sends) with hand-fed retransmission rounds and a receiving channel, "+
		"non-trivial when the first publish of some Send failed, a retransmission succeeded and at least two messages were published",
		map[string]interface{}{"inconclusive": nIncon})
}

func emit(em *lib.Emitter, r result) {
	if r.in.Fault != nil {
		em.Tally("fault")
		for _, k := range []string{"first_failed", "retx_failed", "marshal_failed", "cancelled", "dup_seqno"} {
			if b, _ := r.sig[k].(bool); b {
				em.Tally("fault-" + k)
			}
		}
		if r.in.Fault.Backoff {
			em.Tally("fault-backoff")
		}
	} else if r.in.Filter != nil {
		em.Tally("filter")
		em.Tally(fmt.Sprintf("filter-threads-%d", len(r.in.Filter.Threads)))
	} else {
		em.Tally("chan-" + r.in.Chan.System)
		for _, h := range r.in.Chan.Handlers {
			em.Tally("handler-" + h.When + "-" + h.Cancel)
		}
		if n, _ := r.sig["after_cancel"].(int); n > 0 {
			em.Tally("delivery-inside-cancel-window")
		}
	}
	em.Case(lib.Case{ID: r.id, Coq: r.coq, Key: r.coq, Nontrivial: r.nontrivial, Sig: r.sig, In: r.in, Out: r.out})
}
