package main

import (
	"fmt"

	"github.com/keep-network/keep-core/pkg/bitcoin"
)

// fakeChain is a bitcoin.Chain that serves previous transactions from a map; the sweep assembly
// functions only ever call GetTransaction.
type fakeChain struct {
	txs   map[bitcoin.Hash]*bitcoin.Transaction
	calls int
}

func newFakeChain() *fakeChain { return &fakeChain{txs: map[bitcoin.Hash]*bitcoin.Transaction{}} }

func (c *fakeChain) GetTransaction(h bitcoin.Hash) (*bitcoin.Transaction, error) {
	c.calls++
	tx, ok := c.txs[h]
	if !ok {
		return nil, fmt.Errorf("transaction not found")
	}
	return tx, nil
}

func (c *fakeChain) GetTransactionConfirmations(bitcoin.Hash) (uint, error) {
	panic("fakeChain: unexpected GetTransactionConfirmations")
}
func (c *fakeChain) BroadcastTransaction(*bitcoin.Transaction) error {
	panic("fakeChain: unexpected BroadcastTransaction")
}
func (c *fakeChain) GetLatestBlockHeight() (uint, error) {
	panic("fakeChain: unexpected GetLatestBlockHeight")
}
func (c *fakeChain) GetBlockHeader(uint) (*bitcoin.BlockHeader, error) {
	panic("fakeChain: unexpected GetBlockHeader")
}
func (c *fakeChain) GetTransactionMerkleProof(bitcoin.Hash, uint) (*bitcoin.TransactionMerkleProof, error) {
	panic("fakeChain: unexpected GetTransactionMerkleProof")
}
func (c *fakeChain) GetTransactionsForPublicKeyHash([20]byte, int) ([]*bitcoin.Transaction, error) {
	panic("fakeChain: unexpected GetTransactionsForPublicKeyHash")
}
func (c *fakeChain) GetTxHashesForPublicKeyHash([20]byte) ([]bitcoin.Hash, error) {
	panic("fakeChain: unexpected GetTxHashesForPublicKeyHash")
}
func (c *fakeChain) GetMempoolForPublicKeyHash([20]byte) ([]*bitcoin.Transaction, error) {
	panic("fakeChain: unexpected GetMempoolForPublicKeyHash")
}
func (c *fakeChain) GetUtxosForPublicKeyHash([20]byte) ([]*bitcoin.UnspentTransactionOutput, error) {
	panic("fakeChain: unexpected GetUtxosForPublicKeyHash")
}
func (c *fakeChain) GetMempoolUtxosForPublicKeyHash([20]byte) ([]*bitcoin.UnspentTransactionOutput, error) {
	panic("fakeChain: unexpected GetMempoolUtxosForPublicKeyHash")
}
func (c *fakeChain) EstimateSatPerVByteFee(uint32) (int64, error) {
	panic("fakeChain: unexpected EstimateSatPerVByteFee")
}
func (c *fakeChain) GetCoinbaseTxHash(uint) (bitcoin.Hash, error) {
	panic("fakeChain: unexpected GetCoinbaseTxHash")
}
