// Driver for C28: the real tbtc.Deposit.Script() on generated deposit parameters; the script is
// locked behind P2SH and P2WSH and spent with the wallet key, the refund key and unrelated keys,
// with transaction locktimes and input sequences around the refund locktime; btcd's txscript
// engine (standard verify flags) decides every spend.  The Coq model (Model/C28.v) rebuilds the
// script bytes and runs its own interpreter on the same unlocking data.
package main

import (
	"crypto/ecdsa"
	"crypto/sha256"
	"encoding/binary"
	"encoding/hex"
	"fmt"
	"math/big"
	"os"

	"github.com/btcsuite/btcd/btcec"
	"github.com/btcsuite/btcd/chaincfg/chainhash"
	"github.com/btcsuite/btcd/txscript"
	"github.com/btcsuite/btcd/wire"
	"github.com/btcsuite/btcutil"

	"github.com/keep-network/keep-core/pkg/bitcoin"
	"github.com/keep-network/keep-core/pkg/chain"
	"github.com/keep-network/keep-core/pkg/tbtc"

	"verifharness/lib"
)

type spendSpec struct {
	Wrap         string `json:"wrap"` // p2sh | p2wsh
	Key          int    `json:"key"`  // 0 wallet, 1 refund, >= 2 unrelated
	Uncompressed bool   `json:"uncompressed"`
	TxLocktime   uint32 `json:"txLocktime"`
	Sequence     uint32 `json:"sequence"`
	Version      int32  `json:"version"`
	NIn          int    `json:"nIn"`
	Idx          int    `json:"idx"`
	Amount       int64  `json:"amount"`
	HashType     byte   `json:"hashType"`
	SigMut       string `json:"sigMut"` // "" | wrongdigest | flipS | highS | empty
	Form         string `json:"form"`   // "" | extraitem | pushdata1 | noscript | wrongscript
}

type input struct {
	Depositor      string      `json:"depositor"` // the chain.Address string, possibly malformed
	Blinding       string      `json:"blinding"`
	Extra          *string     `json:"extra"`
	Locktime       string      `json:"locktime"` // 4 bytes, as stored in Deposit.RefundLocktime
	Keys           []string    `json:"keys"`
	WalletIsRefund bool        `json:"walletIsRefund"`
	Spends         []spendSpec `json:"spends"`
	// Utxo is the funding output the deposit is bound to (production deposits always have one);
	// nil only in the nil-Utxo controls and in replays stored before the field existed.
	Utxo *utxoSpec `json:"utxo,omitempty"`
	// Roles = indices into Keys of the wallet and the refund key (default 0 and 1).  With Roles
	// set, a spend's Key 0 / 1 is the wallet / refund key and Key k >= 2 is Keys[(k-2) % len].
	Roles []int `json:"roles,omitempty"`
	// Hist, when set, makes the case a Script() call history (hist.go); the fields above other
	// than Keys are then unused.
	Hist *histInput `json:"hist,omitempty"`
}

// utxoSpec describes a funding output.  Ptr names the *bitcoin.UnspentTransactionOutput OBJECT
// within one case: equal Ptr = the same pointer, different Ptr with equal Hash/Index = equal
// outpoints behind different pointers.
type utxoSpec struct {
	Hash  string `json:"hash"`
	Index uint32 `json:"index"`
	Value int64  `json:"value"`
	Ptr   int    `json:"ptr"`
}

func (u *utxoSpec) build() *bitcoin.UnspentTransactionOutput {
	if u == nil {
		return nil
	}
	var h bitcoin.Hash
	copy(h[:], mustHex(u.Hash))
	return &bitcoin.UnspentTransactionOutput{
		Outpoint: &bitcoin.TransactionOutpoint{TransactionHash: h, OutputIndex: u.Index},
		Value:    u.Value,
	}
}

func genUtxo(r *lib.Rng) *utxoSpec {
	return &utxoSpec{Hash: hexOf(r, 32), Index: uint32(r.Intn(4)), Value: int64(r.Range(10000, 100000000))}
}

func mustHex(s string) []byte {
	b, err := hex.DecodeString(s)
	if err != nil {
		panic("driver: bad hex " + s)
	}
	return b
}

func derInt(v *big.Int) []byte {
	b := v.Bytes()
	if len(b) == 0 {
		b = []byte{0}
	}
	if b[0]&0x80 != 0 {
		b = append([]byte{0}, b...)
	}
	return append([]byte{0x02, byte(len(b))}, b...)
}

// derRaw encodes (r, s) in DER without normalising s.
func derRaw(r, s *big.Int) []byte {
	body := append(derInt(r), derInt(s)...)
	return append([]byte{0x30, byte(len(body))}, body...)
}

func engineAccepts(pkScript []byte, tx *wire.MsgTx, idx int, amount int64) (ok bool, note string) {
	defer func() {
		if r := recover(); r != nil {
			ok, note = false, fmt.Sprintf("engine panic: %v", r)
		}
	}()
	vm, err := txscript.NewEngine(pkScript, tx, idx, txscript.StandardVerifyFlags, nil, nil, amount)
	if err != nil {
		return false, err.Error()
	}
	if err := vm.Execute(); err != nil {
		return false, err.Error()
	}
	return true, ""
}

func coqBytesList(l [][]byte) string {
	s := make([]string, len(l))
	for i, b := range l {
		s[i] = lib.Bytes(b)
	}
	return lib.List(s)
}

type table struct {
	seen map[string]bool
	k, v [][]byte
}

func (t *table) add(k, v []byte) {
	if t.seen == nil {
		t.seen = map[string]bool{}
	}
	if t.seen[string(k)] {
		return
	}
	t.seen[string(k)] = true
	t.k, t.v = append(t.k, k), append(t.v, v)
}
func (t *table) coq() string {
	s := make([]string, len(t.k))
	for i := range t.k {
		s[i] = lib.Pair(lib.Bytes(t.k[i]), lib.Bytes(t.v[i]))
	}
	return lib.List(s)
}

func asciiCodes(s string) string {
	v := make([]uint64, len(s))
	for i := 0; i < len(s); i++ {
		v[i] = uint64(s[i])
	}
	return lib.ListN(v)
}

// roleKeys returns the wallet and the refund private key of the deposit.
func roleKeys(in input, keys []*btcec.PrivateKey) (w, r *btcec.PrivateKey) {
	if len(in.Roles) == 2 {
		return keys[in.Roles[0]%len(keys)], keys[in.Roles[1]%len(keys)]
	}
	return keys[0], keys[1]
}

func spendKey(in input, keys []*btcec.PrivateKey, k int) *btcec.PrivateKey {
	if len(in.Roles) == 2 {
		w, r := roleKeys(in, keys)
		switch {
		case k == 0:
			return w
		case k == 1:
			return r
		default:
			return keys[(k-2)%len(keys)]
		}
	}
	return keys[k%len(keys)]
}

func parseKeys(ks []string) []*btcec.PrivateKey {
	keys := make([]*btcec.PrivateKey, len(ks))
	for i, k := range ks {
		keys[i], _ = btcec.PrivKeyFromBytes(btcec.S256(), mustHex(k))
	}
	return keys
}

func keyHashes(in input, keys []*btcec.PrivateKey) (wpkh, rpkh [20]byte) {
	w, r := roleKeys(in, keys)
	copy(wpkh[:], btcutil.Hash160(w.PubKey().SerializeCompressed()))
	copy(rpkh[:], btcutil.Hash160(r.PubKey().SerializeCompressed()))
	if in.WalletIsRefund {
		rpkh = wpkh
	}
	return
}

// setDeposit writes the parameters of [in] into [dep] (every field Script() may read).  An
// ExtraData array the deposit already owns is overwritten in place when [inPlace] is set (the
// pointer is then shared with every struct copy taken earlier).
func setDeposit(dep *tbtc.Deposit, in input, keys []*btcec.PrivateKey, utxo *bitcoin.UnspentTransactionOutput, inPlace bool) {
	wpkh, rpkh := keyHashes(in, keys)
	dep.Utxo = utxo
	dep.Depositor = chain.Address(in.Depositor)
	dep.WalletPublicKeyHash, dep.RefundPublicKeyHash = wpkh, rpkh
	copy(dep.BlindingFactor[:], mustHex(in.Blinding))
	copy(dep.RefundLocktime[:], mustHex(in.Locktime))
	if in.Extra != nil {
		var e [32]byte
		copy(e[:], mustHex(*in.Extra))
		if inPlace && dep.ExtraData != nil {
			*dep.ExtraData = e
		} else {
			dep.ExtraData = &e
		}
	} else {
		dep.ExtraData = nil
	}
}

// callScript is the one place the driver calls the real Deposit.Script().
func callScript(dep *tbtc.Deposit) (script []byte, scriptErr string) {
	defer func() {
		if r := recover(); r != nil {
			script, scriptErr = nil, fmt.Sprintf("panic: %v", r)
		}
	}()
	s, err := dep.Script()
	if err != nil {
		return nil, err.Error()
	}
	if s == nil {
		return nil, "nil script without error"
	}
	return s, ""
}

func run(in input, em *lib.Emitter, id string) {
	if in.Hist != nil {
		runHist(in, em, id)
		return
	}
	keys := parseKeys(in.Keys)
	dep := &tbtc.Deposit{}
	setDeposit(dep, in, keys, in.Utxo.build(), false)
	script, scriptErr := callScript(dep)
	coq, outs, nAcc, nRej := depCase(in, keys, script, em, id)
	if script != nil {
		em.Tally("script-ok")
	} else {
		em.Tally("script-error")
	}
	if in.Utxo == nil {
		em.Tally("single-nil-utxo")
	}
	kh := sha256.Sum256([]byte(coq))
	em.Case(lib.Case{
		ID:         id,
		Coq:        "(DOne (" + coq + "))",
		Key:        hex.EncodeToString(kh[:12]),
		Nontrivial: script != nil && nAcc > 0 && nRej > 0,
		Sig:        map[string]interface{}{"extra": in.Extra != nil, "scriptOk": script != nil},
		In:         in,
		Out:        map[string]interface{}{"script": hex.EncodeToString(script), "scriptError": scriptErr, "spends": outs},
	})
}

// depCase runs the spends of [in] against [script] (the script some Script() call returned for
// the parameters of [in]; nil = error) and renders the dep_case term.
func depCase(in input, keys []*btcec.PrivateKey, script []byte, em *lib.Emitter, id string) (coq string, outs []interface{}, nAcc, nRej int) {
	wpkh, rpkh := keyHashes(in, keys)
	extra := "None"
	if in.Extra != nil {
		extra = lib.Some(lib.Bytes(mustHex(*in.Extra)))
	}
	depIn := fmt.Sprintf("{| di_depositor := %s; di_blinding := %s; di_extra := %s; di_wpkh := %s; di_rpkh := %s; di_lock := %s |}",
		asciiCodes(in.Depositor), lib.Bytes(mustHex(in.Blinding)), extra, lib.Bytes(wpkh[:]), lib.Bytes(rpkh[:]),
		lib.Bytes(mustHex(in.Locktime)))

	var h160, s256 table
	spendTerms := []string{}
	outs = []interface{}{}
	spends := in.Spends
	if script != nil {
		// a script btcd cannot even tokenise cannot be signed for (the legacy digest parses it):
		// the case goes out without spends and fails the embedding requirement of the property
		if _, err := txscript.DisasmString(script); err != nil {
			spends = nil
			em.Tally("script-unparsable")
		}
	}
	if script != nil {
		for si, sp := range spends {
			key := spendKey(in, keys, sp.Key)
			pk := key.PubKey().SerializeCompressed()
			if sp.Uncompressed {
				pk = key.PubKey().SerializeUncompressed()
			}
			h160.add(pk, btcutil.Hash160(pk))

			// the spending transaction
			tx := wire.NewMsgTx(sp.Version)
			tx.LockTime = sp.TxLocktime
			txins := make([]string, sp.NIn)
			for j := 0; j < sp.NIn; j++ {
				hh := sha256.Sum256([]byte(fmt.Sprintf("%s/%d/%d", id, si, j)))
				ch := chainhash.Hash(hh)
				ti := wire.NewTxIn(wire.NewOutPoint(&ch, uint32(j)), nil, nil)
				if j == sp.Idx {
					ti.Sequence = sp.Sequence
				} else if j%2 == 1 {
					ti.Sequence = 0
				}
				tx.AddTxIn(ti)
				txins[j] = fmt.Sprintf("{| ti_txid := %d; ti_vout := %d; ti_seq := %d |}", j+1, j, ti.Sequence)
			}
			outScript := append([]byte{0x00, 0x14}, wpkh[:]...)
			tx.AddTxOut(wire.NewTxOut(sp.Amount/2, outScript))

			usedScript := script
			if sp.Form == "wrongscript" {
				usedScript = append([]byte{}, script...)
				usedScript[1] ^= 1 // a different depositor byte
			}
			var pkScript []byte
			if sp.Wrap == "p2sh" {
				h := btcutil.Hash160(script)
				h160.add(script, h)
				if sp.Form == "wrongscript" {
					h160.add(usedScript, btcutil.Hash160(usedScript))
				}
				pkScript, _ = txscript.NewScriptBuilder().AddOp(txscript.OP_HASH160).AddData(h).AddOp(txscript.OP_EQUAL).Script()
			} else {
				h := sha256.Sum256(script)
				s256.add(script, h[:])
				if sp.Form == "wrongscript" {
					hw := sha256.Sum256(usedScript)
					s256.add(usedScript, hw[:])
				}
				pkScript, _ = txscript.NewScriptBuilder().AddOp(txscript.OP_0).AddData(h[:]).Script()
			}

			// the digest a correct signer uses: the script that is really executed
			digestFor := func(ht byte) []byte {
				if sp.Wrap == "p2sh" {
					d, err := txscript.CalcSignatureHash(usedScript, txscript.SigHashType(ht), tx, sp.Idx)
					if err != nil {
						panic("driver: CalcSignatureHash: " + err.Error())
					}
					return d
				}
				d, err := txscript.CalcWitnessSigHash(usedScript, txscript.NewTxSigHashes(tx),
					txscript.SigHashType(ht), tx, sp.Idx, sp.Amount)
				if err != nil {
					panic("driver: CalcWitnessSigHash: " + err.Error())
				}
				return d
			}
			digest := digestFor(sp.HashType)
			signed := digest
			if sp.SigMut == "wrongdigest" {
				x := sha256.Sum256(digest)
				signed = x[:]
			}
			sig, err := key.Sign(signed)
			if err != nil {
				panic("driver: sign: " + err.Error())
			}
			r, s := new(big.Int).Set(sig.R), new(big.Int).Set(sig.S)
			switch sp.SigMut {
			case "flipS":
				s.Add(s, big.NewInt(1))
			case "highS":
				s.Sub(btcec.S256().N, s)
			}
			der := derRaw(r, s)
			canonical := (&btcec.Signature{R: r, S: s}).Serialize()
			derOk := hex.EncodeToString(der) == hex.EncodeToString(canonical)
			valid := ecdsa.Verify(key.PubKey().ToECDSA(), digest, r, s)
			fullSig := append(append([]byte{}, der...), sp.HashType)
			if sp.SigMut == "empty" {
				fullSig, valid, derOk = []byte{}, false, false
			}

			// unlocking data
			var scriptSig []byte
			var witness [][]byte
			items := [][]byte{fullSig, pk, usedScript}
			switch sp.Form {
			case "extraitem":
				items = append([][]byte{{0x07, 0x07}}, items...)
			case "noscript":
				items = items[:2]
			}
			if sp.Wrap == "p2sh" {
				b := txscript.NewScriptBuilder()
				for k, it := range items {
					if sp.Form == "pushdata1" && k == len(items)-2 {
						b.AddOp(txscript.OP_PUSHDATA1).AddOp(byte(len(it))).AddOps(it) // raw bytes
					} else {
						b.AddData(it)
					}
				}
				scriptSig, err = b.Script()
				if err != nil {
					panic("driver: scriptSig: " + err.Error())
				}
				tx.TxIn[sp.Idx].SignatureScript = scriptSig
			} else {
				witness = items
				tx.TxIn[sp.Idx].Witness = witness
			}
			ok, why := engineAccepts(pkScript, tx, sp.Idx, sp.Amount)
			if ok {
				nAcc++
			} else {
				nRej++
			}

			wrap := "WP2SH"
			if sp.Wrap != "p2sh" {
				wrap = "WP2WSH"
			}
			neutral := sp.Form != ""
			skel := fmt.Sprintf("{| tx_version := %s; tx_ins := %s; tx_outs := [%s]; tx_lock := %d |}",
				lib.Z(int64(sp.Version)), lib.List(txins), lib.Pair(lib.Z(sp.Amount/2), lib.Bytes(outScript)), sp.TxLocktime)
			spendTerms = append(spendTerms, fmt.Sprintf("{| sp_wrap := %s; sp_pk := %s; sp_sig := %s; sp_der_ok := %s; sp_valid := %s; "+
				"sp_tx := %s; sp_idx := %s; sp_amount := %s; sp_script_sig := %s; sp_witness := %s; sp_neutral := %s; sp_engine := %s |}",
				wrap, lib.Bytes(pk), lib.Bytes(fullSig), lib.Bool(derOk), lib.Bool(valid), skel, lib.Nat(sp.Idx),
				lib.Z(sp.Amount), lib.Bytes(scriptSig), coqBytesList(witness), lib.Bool(neutral), lib.Bool(ok)))
			outs = append(outs, map[string]interface{}{"spend": si, "accepted": ok, "error": why})

			role := "other"
			if pkh := btcutil.Hash160(pk); hex.EncodeToString(pkh) == hex.EncodeToString(wpkh[:]) {
				role = "wallet"
			} else if hex.EncodeToString(pkh) == hex.EncodeToString(rpkh[:]) {
				role = "refund"
			}
			tag := role
			if sp.SigMut != "" {
				tag += "-" + sp.SigMut
			}
			if sp.Form != "" {
				tag += "-" + sp.Form
			}
			em.Tally(fmt.Sprintf("spend-%s-%s-%v", sp.Wrap, tag, ok))
		}
	}

	scriptTerm := "None"
	if script != nil {
		scriptTerm = lib.Some(lib.Bytes(script))
	}
	if in.Extra != nil {
		em.Tally("with-extra-data")
	}
	coq = fmt.Sprintf("{| dc_in := %s; dc_script := %s; dc_hash160 := %s; dc_sha256 := %s; dc_spends := %s |}",
		depIn, scriptTerm, h160.coq(), s256.coq(), lib.List(spendTerms))
	return coq, outs, nAcc, nRej
}

// ------------------------------------------------------------------ generators

func hexOf(r *lib.Rng, n int) string { return hex.EncodeToString(r.Bytes(n)) }

func genKeys(r *lib.Rng, n int) []string {
	ks := make([]string, n)
	for i := range ks {
		b := r.Bytes(32)
		b[0] &= 0x7f
		b[31] |= 1
		ks[i] = hex.EncodeToString(b)
	}
	return ks
}

func le32(v uint32) string {
	b := make([]byte, 4)
	binary.LittleEndian.PutUint32(b, v)
	return hex.EncodeToString(b)
}

// genLock picks the refund locktime: mostly realistic timestamps, plus the edges of the
// script-number encoding and of the height/time threshold.
func genLock(r *lib.Rng) uint32 {
	switch r.Intn(10) {
	case 0:
		return uint32(r.Range(8388608, 499999999)) // block height with a non-zero top byte
	case 1:
		return []uint32{0, 1, 800000, 499999999, 500000000, 0x7fffffff, 0x80000000, 0xffffffff,
			0x00800000, 0x007fffff, 0x01000000, 0x80000001}[r.Intn(12)]
	case 2:
		return uint32(r.U64())
	default:
		return uint32(1500000000 + r.Intn(600000000))
	}
}

func around(r *lib.Rng, l uint32) uint32 {
	switch r.Intn(9) {
	case 0:
		return l
	case 1:
		return l - 1
	case 2:
		return l + 1
	case 3:
		return 0
	case 4:
		return []uint32{499999999, 500000000, 0xffffffff, 0x7fffffff, 0x80000000}[r.Intn(5)]
	case 5:
		return l + uint32(r.Intn(1000000))
	case 6:
		return l - uint32(r.Intn(1000000))
	default:
		return uint32(r.U64())
	}
}

func genSeq(r *lib.Rng) uint32 {
	switch r.Intn(5) {
	case 0:
		return 0xffffffff
	case 1:
		return 0xfffffffe
	case 2:
		return 0
	case 3:
		return uint32(r.U64())
	default:
		return 0xfffffffd
	}
}

func genSpend(r *lib.Rng, lock uint32, nKeys int) spendSpec {
	sp := spendSpec{Wrap: []string{"p2sh", "p2wsh"}[r.Intn(2)], Version: int32(r.Range(1, 2)), HashType: 1}
	switch r.Intn(8) {
	case 0, 1, 2:
		sp.Key = 0
	case 3, 4, 5:
		sp.Key = 1
	default:
		sp.Key = 2 + r.Intn(nKeys-2)
	}
	sp.NIn = r.Range(1, 3)
	sp.Idx = r.Intn(sp.NIn)
	sp.Amount = int64(r.Range(1000, 100000000))
	sp.TxLocktime = around(r, lock)
	sp.Sequence = genSeq(r)
	if sp.Key == 0 && r.Bool() { // the usual sweep: final sequence, zero locktime
		sp.TxLocktime, sp.Sequence = 0, 0xffffffff
	}
	if r.Chance(1, 8) {
		sp.HashType = []byte{2, 3, 0x81, 0x82, 0x83, 0, 4, 0x80, 0x84}[r.Intn(9)]
	}
	if r.Chance(1, 6) {
		sp.SigMut = []string{"wrongdigest", "flipS", "highS", "empty"}[r.Intn(4)]
	}
	if r.Chance(1, 12) {
		sp.Uncompressed = true
	}
	if r.Chance(1, 8) {
		sp.Form = []string{"extraitem", "pushdata1", "noscript", "wrongscript"}[r.Intn(4)]
		if sp.Form == "pushdata1" && sp.Wrap != "p2sh" {
			sp.Form = "extraitem"
		}
	}
	return sp
}

func genInput(r *lib.Rng, nSpends int) input {
	in := input{Depositor: "0x" + hexOf(r, 20), Blinding: hexOf(r, 8), Keys: genKeys(r, 4), Utxo: genUtxo(r)}
	if r.Chance(1, 12) {
		in.Utxo = nil // control: a deposit not yet bound to a funding output
	}
	if r.Chance(1, 4) {
		in.Depositor = hexOf(r, 20) // no prefix
	}
	if r.Chance(1, 6) {
		in.Depositor = "0x" + fmt.Sprintf("%X", r.Bytes(20)) // upper-case digits
	}
	if r.Bool() {
		e := hexOf(r, 32)
		in.Extra = &e
	}
	lock := genLock(r)
	in.Locktime = le32(lock)
	in.WalletIsRefund = r.Chance(1, 15)
	for i := 0; i < nSpends; i++ {
		in.Spends = append(in.Spends, genSpend(r, lock, 4))
	}
	return in
}

func main() {
	o := lib.ParseOpts()
	em := lib.NewEmitter()
	if o.Replay != "" {
		var in input
		if err := lib.LoadReplay(o.Replay, &in); err != nil {
			fmt.Fprintln(os.Stderr, err)
			os.Exit(2)
		}
		run(in, em, "replay")
		em.Close("replay", nil)
		return
	}
	rng := lib.NewRng(o.Seed)

	// --- corpus: the boundary of the refund locktime for both wrappers, each key role
	{
		r := lib.NewRng(28)
		for ci, lock := range []uint32{1700000000, 9000000, 800000, 0x80000000} {
			in := input{Depositor: "0x" + hexOf(r, 20), Blinding: hexOf(r, 8), Keys: genKeys(r, 4), Locktime: le32(lock)}
			ur := lib.NewRng(2800 + uint64(ci))
			in.Utxo = genUtxo(ur)
			if ci%2 == 1 {
				e := hexOf(r, 32)
				in.Extra = &e
			}
			for _, w := range []string{"p2sh", "p2wsh"} {
				for key := 0; key < 3; key++ {
					for _, lt := range []uint32{0, lock - 1, lock, lock + 1} {
						for _, sq := range []uint32{0xffffffff, 0xfffffffe} {
							in.Spends = append(in.Spends, spendSpec{Wrap: w, Key: key, TxLocktime: lt, Sequence: sq,
								Version: 1, NIn: 1, Idx: 0, Amount: 100000, HashType: 1})
						}
					}
				}
			}
			// split so that the case terms stay small
			for k := 0; k < len(in.Spends); k += 8 {
				part := in
				part.Spends = in.Spends[k : k+8]
				run(part, em, fmt.Sprintf("corpus-boundary-%d-%d", ci, k/8))
			}
		}
		for i, d := range []string{"", "0x", "0x" + hexOf(r, 19), "0x" + hexOf(r, 21), "0X" + hexOf(r, 20),
			"0x0x" + hexOf(r, 20), "0x" + hexOf(r, 19) + "zz", "0x" + hexOf(r, 19) + "a", hexOf(r, 20),
			"0x" + fmt.Sprintf("%X", r.Bytes(20)), " 0x" + hexOf(r, 20)} {
			in := input{Depositor: d, Blinding: hexOf(r, 8), Keys: genKeys(r, 4), Locktime: le32(1700000000)}
			in.Utxo = genUtxo(lib.NewRng(2850 + uint64(i)))
			in.Spends = []spendSpec{{Wrap: "p2wsh", Key: 0, Sequence: 0xffffffff, Version: 1, NIn: 1, Amount: 5000, HashType: 1}}
			run(in, em, fmt.Sprintf("corpus-depositor-%d", i))
		}
	}

	// --- Script() call histories on deposits sharing a funding outpoint (hist.go)
	histCorpus(em)
	nh := o.Count(27, 400)
	for i := 0; i < nh; i++ {
		r := rng.Fork(fmt.Sprintf("hist%d", i))
		run(input{Hist: genHist(r, i)}, em, fmt.Sprintf("hist-%d", i))
	}

	// --- random deposits, ~8 spends each
	n := o.Count(70, 1200)
	for i := 0; i < n; i++ {
		r := rng.Fork(fmt.Sprintf("dep%d", i))
		in := genInput(r, r.Range(5, 9))
		if r.Chance(1, 25) { // malformed depositor strings
			in.Depositor = []string{"0x" + hexOf(r, r.Range(0, 30)), "0x" + hexOf(r, 19) + "g0", hexOf(r, 20) + "0"}[r.Intn(3)]
		}
		run(in, em, fmt.Sprintf("dep-%d", i))
	}
	em.Close("a case is one Deposit (parameters -> Script(), bound to its own funding outpoint; 1 in 12 with a nil Utxo) "+
		"or a HISTORY of 2..6 Script() calls in one process on deposits that share a funding Utxo (same pointer, equal "+
		"outpoints behind different pointers, same transaction / other output, nil) and differ in one or several "+
		"parameters, on a long-lived Deposit mutated between calls, on struct copies, on fresh values and through the "+
		"deposit sweep assembly; every call's script is judged with that call's parameters and re-read after the last call; "+
		"each with 4..9 spends of the script behind P2SH / P2WSH "+
		"(key role, signature fault, hash type, transaction locktime / input sequence around the refund "+
		"locktime, malformed unlocking data); distinct by the whole case term; non-trivial when the script "+
		"was produced and the engine accepted at least one and rejected at least one spend", nil)
}
