// Script() call HISTORIES for C28.  The model says Deposit.Script() is a pure function of the
// receiver's fields; a driver that builds one fresh Deposit per case and calls Script() once can
// not tell that from an implementation with memory (e.g. a memo keyed by the funding outpoint).
// A history is one case: 2..6 calls in one process on deposits that share a funding Utxo - the
// same pointer, or equal outpoints behind different pointers - and differ in one or several
// parameters; on ONE long-lived Deposit value mutated between the calls, on struct copies of the
// previous deposit (sharing the Utxo and ExtraData pointers), on fresh values; directly or through
// the deposit sweep assembly (assembleDepositSweepTransaction calls Script() for every deposit of
// the proposal: several outputs of one funding transaction).  Every call's script is copied at
// once and judged (bytes, embedding, spend matrix) with THAT call's parameters; the slice the
// call returned is kept and re-read after the last call (or, for "scribble" steps, overwritten by
// the caller after use: the caller owns it).
package main

import (
	"crypto/sha256"
	"encoding/binary"
	"encoding/hex"
	"fmt"

	"github.com/btcsuite/btcd/btcec"

	"github.com/keep-network/keep-core/pkg/bitcoin"
	"github.com/keep-network/keep-core/pkg/tbtc"

	"verifharness/lib"
)

type histStep struct {
	// P holds the deposit parameters of this call (Keys empty: the history's keys; Utxo nil = a
	// deposit with a nil Utxo) and the spends run against the script this call returned.
	P input `json:"p"`
	// Obj: "fresh" = a new Deposit value; "live" = the history's long-lived Deposit, its fields
	// overwritten; "copy" = struct copy of the deposit of the previous call, then overwritten.
	Obj string `json:"obj"`
	// InPlace: an ExtraData array the deposit already points to is overwritten through the pointer.
	InPlace bool `json:"inPlace,omitempty"`
	// Sweep k > 0: consecutive steps with the same k are the deposits of ONE
	// assembleDepositSweepTransaction call; the script is read from the assembled input.
	Sweep     int    `json:"sweep,omitempty"`
	SweepWrap string `json:"sweepWrap,omitempty"` // type of the funding output: p2sh | p2wsh
	// Scribble: after the spends the caller overwrites the returned slice (no late re-read).
	Scribble bool `json:"scribble,omitempty"`
}

type histInput struct {
	Keys  []string   `json:"keys"`
	Steps []histStep `json:"steps"`
	Kind  string     `json:"kind"`
}

func runHist(whole input, em *lib.Emitter, id string) {
	h := whole.Hist
	keys := parseKeys(h.Keys)
	n := len(h.Steps)

	utxos := map[int]*bitcoin.UnspentTransactionOutput{} // Ptr -> object
	utxoOf := func(u *utxoSpec) *bitcoin.UnspentTransactionOutput {
		if u == nil {
			return nil
		}
		if o, ok := utxos[u.Ptr]; ok {
			// the object is long-lived; a step may re-point it (same pointer, other outpoint)
			b := u.build()
			*o.Outpoint, o.Value = *b.Outpoint, b.Value
			return o
		}
		utxos[u.Ptr] = u.build()
		return utxos[u.Ptr]
	}

	live := &tbtc.Deposit{}
	var prev *tbtc.Deposit
	deps := make([]*tbtc.Deposit, n)
	kept := make([][]byte, n) // the slices the calls returned
	now := make([][]byte, n)  // copies taken at once
	errs := make([]string, n)
	coqs := make([]string, n)
	outsAll := make([]interface{}, n)
	totalAcc, totalRej, nScripts := 0, 0, 0

	judge := func(i int) {
		st := h.Steps[i]
		if kept[i] != nil {
			now[i] = append([]byte{}, kept[i]...)
			nScripts++
		}
		p := st.P
		p.Keys = h.Keys
		coq, outs, a, r := depCase(p, keys, now[i], em, fmt.Sprintf("%s/s%d", id, i))
		coqs[i] = coq
		outsAll[i] = map[string]interface{}{"step": i, "script": hex.EncodeToString(now[i]), "scriptError": errs[i], "spends": outs}
		totalAcc, totalRej = totalAcc+a, totalRej+r
		if st.Scribble && kept[i] != nil {
			for k := range kept[i] {
				kept[i][k] ^= 0xa5
			}
		}
	}

	for i := 0; i < n; {
		st := h.Steps[i]
		liveInGroup := false
		prepare := func(j int) {
			s := h.Steps[j]
			obj, inPlace := s.Obj, s.InPlace
			if s.Sweep != 0 {
				// the deposits of one assembly are distinct values that exist side by side
				inPlace = false
				if obj == "live" && liveInGroup {
					obj = "copy"
				}
				liveInGroup = liveInGroup || obj == "live"
			}
			var d *tbtc.Deposit
			switch obj {
			case "live":
				d = live
			case "copy":
				if prev != nil {
					c := *prev
					d = &c
				} else {
					d = &tbtc.Deposit{}
				}
			default:
				d = &tbtc.Deposit{}
			}
			p := s.P
			p.Keys = h.Keys
			setDeposit(d, p, keys, utxoOf(s.P.Utxo), inPlace)
			deps[j], prev = d, d
			em.Tally("hist-obj-" + s.Obj)
		}
		if st.Sweep == 0 {
			prepare(i)
			kept[i], errs[i] = callScript(deps[i])
			em.Tally("hist-call-direct")
			judge(i)
			i++
			continue
		}
		// one sweep assembly over the run of steps with the same group number
		j := i
		for j < n && h.Steps[j].Sweep == st.Sweep {
			prepare(j)
			j++
		}
		scripts, err := sweepScripts(h.Steps[i:j], deps[i:j], keys[0])
		for k := i; k < j; k++ {
			if err != "" {
				errs[k] = err
			} else {
				kept[k] = scripts[k-i]
			}
			em.Tally("hist-call-sweep")
		}
		for k := i; k < j; k++ {
			judge(k)
		}
		i = j
	}

	// re-read every returned slice after all later calls
	terms := make([]string, n)
	changed := 0
	for i := 0; i < n; i++ {
		late := "None"
		if kept[i] != nil {
			l := kept[i]
			if h.Steps[i].Scribble {
				l = now[i]
			} else if hex.EncodeToString(l) != hex.EncodeToString(now[i]) {
				changed++
			}
			late = lib.Some(lib.Bytes(l))
		}
		terms[i] = fmt.Sprintf("{| he_case := %s; he_late := %s |}", coqs[i], late)
	}
	em.Tally("hist-kind-" + h.Kind)
	coq := "(DHist " + lib.List(terms) + ")"
	kh := sha256.Sum256([]byte(coq))
	em.Case(lib.Case{
		ID:         id,
		Coq:        coq,
		Key:        hex.EncodeToString(kh[:12]),
		Nontrivial: nScripts >= 2 && totalAcc > 0 && totalRej > 0,
		Sig:        map[string]interface{}{"hist": true, "kind": h.Kind},
		In:         whole,
		Out:        map[string]interface{}{"calls": outsAll, "returnedSlicesChangedLater": changed},
	})
}

// sweepScripts assembles ONE deposit sweep transaction over the given deposits with the real
// assembleDepositSweepTransaction and returns, per deposit, the redeem script the assembly put
// into the input (the very slice Script() returned: the builder stores it as is).
func sweepScripts(steps []histStep, deps []*tbtc.Deposit, walletKey *btcec.PrivateKey) (scripts [][]byte, errText string) {
	defer func() {
		if r := recover(); r != nil {
			scripts, errText = nil, fmt.Sprintf("panic: %v", r)
		}
	}()
	fc := newFakeChain()
	for k, d := range deps {
		o := d.Utxo.Outpoint
		tx := fc.txs[o.TransactionHash]
		if tx == nil {
			tx = &bitcoin.Transaction{Version: 1}
			fc.txs[o.TransactionHash] = tx
		}
		for uint32(len(tx.Outputs)) <= o.OutputIndex {
			tx.Outputs = append(tx.Outputs, &bitcoin.TransactionOutput{Value: 1, PublicKeyScript: []byte{0x51}})
		}
		// the funding output: only its class (P2SH / P2WSH) matters to the assembly
		dummy := sha256.Sum256([]byte(fmt.Sprintf("funding/%x/%d", o.TransactionHash, o.OutputIndex)))
		pk := append([]byte{0x00, 0x20}, dummy[:]...)
		if steps[k].SweepWrap == "p2sh" {
			pk = append(append([]byte{0xa9, 0x14}, dummy[:20]...), 0x87)
		}
		tx.Outputs[o.OutputIndex] = &bitcoin.TransactionOutput{Value: d.Utxo.Value, PublicKeyScript: pk}
	}
	builder, err := tbtc.VerifAssembleDepositSweepTransaction(fc, walletKey.PubKey().ToECDSA(), nil, deps, 1000)
	if err != nil {
		return nil, err.Error()
	}
	tx, _ := builder.VerifUnsignedTransaction()
	if len(tx.Inputs) != len(deps) {
		return nil, fmt.Sprintf("assembled %d inputs for %d deposits", len(tx.Inputs), len(deps))
	}
	scripts = make([][]byte, len(deps))
	for k, in := range tx.Inputs {
		if len(in.SignatureScript) > 0 {
			scripts[k] = in.SignatureScript
		} else if len(in.Witness) == 1 {
			scripts[k] = in.Witness[0]
		}
		if scripts[k] == nil {
			return nil, fmt.Sprintf("input %d carries no redeem script", k)
		}
	}
	return scripts, ""
}

// ------------------------------------------------------------------ generators

func lockOf(p input) uint32 { return binary.LittleEndian.Uint32(mustHex(p.Locktime)) }

// matrix is the decisive spend set for one call: the wallet key at any time, the refund key one
// before / at / after the refund locktime, another key (the previous refund / wallet key when a
// role changed, else an unrelated one); random wrapper per spend.
func matrix(r *lib.Rng, p input, oldKeys []int, nKeys int) []spendSpec {
	lock := lockOf(p)
	w := func() string { return []string{"p2sh", "p2wsh"}[r.Intn(2)] }
	base := func(key int, lt, seq uint32) spendSpec {
		return spendSpec{Wrap: w(), Key: key, TxLocktime: lt, Sequence: seq, Version: int32(r.Range(1, 2)),
			NIn: 1, Idx: 0, Amount: int64(r.Range(1000, 100000000)), HashType: 1}
	}
	sp := []spendSpec{
		base(0, 0, 0xffffffff),
		base(1, lock-1, 0xfffffffe),
		base(1, lock, 0xfffffffe),
	}
	if r.Chance(1, 3) {
		sp = append(sp, base(1, lock+1, uint32(r.Intn(3))))
	}
	if len(oldKeys) > 0 {
		for _, k := range oldKeys {
			sp = append(sp, base(2+k, lock, 0xfffffffe))
		}
	} else {
		sp = append(sp, base(2+r.Intn(nKeys), around(r, lock), genSeq(r)))
	}
	if r.Chance(1, 4) {
		sp = append(sp, genSpend(r, lock, nKeys))
	}
	return sp
}

// mutate changes the named parameter of p.
func mutate(r *lib.Rng, p *input, what string, nKeys int) {
	switch what {
	case "depositor":
		p.Depositor = "0x" + hexOf(r, 20)
		if r.Chance(1, 4) {
			b := mustHex(p.Depositor[2:])
			p.Depositor = fmt.Sprintf("%X", b) // no prefix, upper case
		}
	case "blinding":
		b := mustHex(p.Blinding)
		if r.Bool() {
			b[r.Intn(8)] ^= byte(1 << uint(r.Intn(8))) // one bit
		} else {
			b = r.Bytes(8)
		}
		p.Blinding = hex.EncodeToString(b)
	case "wallet":
		p.Roles = []int{(p.Roles[0] + 1 + r.Intn(nKeys-1)) % nKeys, p.Roles[1]}
	case "refund":
		p.Roles = []int{p.Roles[0], (p.Roles[1] + 1 + r.Intn(nKeys-1)) % nKeys}
	case "swap":
		p.Roles = []int{p.Roles[1], p.Roles[0]}
	case "lock":
		l := lockOf(*p)
		switch r.Intn(5) {
		case 0:
			l++
		case 1:
			l--
		case 2:
			l += uint32(r.Range(2, 100000000))
		case 3:
			l -= uint32(r.Range(2, 100000000))
		default:
			l = genLock(r)
		}
		p.Locktime = le32(l)
	case "extra":
		switch {
		case p.Extra == nil:
			e := hexOf(r, 32)
			p.Extra = &e
		case r.Bool():
			p.Extra = nil
		default:
			b := mustHex(*p.Extra)
			b[r.Intn(32)] ^= byte(1 << uint(r.Intn(8)))
			e := hex.EncodeToString(b)
			p.Extra = &e
		}
	}
}

var mutations = []string{"depositor", "blinding", "wallet", "refund", "lock", "extra", "swap"}

func roleChange(a, b input) (old []int) {
	if a.Roles[1] != b.Roles[1] && a.Roles[1] != b.Roles[0] {
		old = append(old, a.Roles[1])
	}
	if a.Roles[0] != b.Roles[0] && a.Roles[0] != b.Roles[1] {
		old = append(old, a.Roles[0])
	}
	return
}

func baseParams(r *lib.Rng) input {
	p := input{Depositor: "0x" + hexOf(r, 20), Blinding: hexOf(r, 8), Roles: []int{0, 1}}
	if r.Bool() {
		e := hexOf(r, 32)
		p.Extra = &e
	}
	l := uint32(1500000000 + r.Intn(600000000))
	if r.Chance(1, 6) {
		l = genLock(r)
	}
	p.Locktime = le32(l)
	return p
}

func cloneParams(p input) input {
	q := p
	q.Roles = append([]int{}, p.Roles...)
	if p.Extra != nil {
		e := *p.Extra
		q.Extra = &e
	}
	q.Spends = nil
	return q
}

const histKeys = 5

// genHist: i selects the kind round-robin so that every kind occurs in every run.
func genHist(r *lib.Rng, i int) *histInput {
	kinds := []string{"shared-one", "shared-several", "live-object", "equal-outpoint-other-pointer",
		"sweep-then-changed", "control-nil-utxo", "control-distinct-outpoints", "mixed", "sweep-one-funding-tx"}
	kind := kinds[i%len(kinds)]
	h := &histInput{Keys: genKeys(r, histKeys), Kind: kind}
	shared := genUtxo(r)
	n := r.Range(2, 5)
	cur := baseParams(r)
	objs := []string{"fresh", "live", "copy"}
	ptr := 0
	for s := 0; s < n; s++ {
		prevP := cloneParams(cur)
		var old []int
		if s > 0 {
			k := 1
			if kind == "shared-several" || (kind == "mixed" && r.Bool()) {
				k = r.Range(2, 4)
			}
			if kind != "shared-one" && r.Chance(1, 10) {
				k = 0 // identical parameters again
			}
			for _, m := range r.Perm(len(mutations))[:k] {
				mutate(r, &cur, mutations[m], histKeys)
			}
			old = roleChange(prevP, cur)
		}
		st := histStep{P: cloneParams(cur), Obj: objs[r.Intn(3)], InPlace: r.Bool()}
		u := *shared
		switch kind {
		case "live-object":
			st.Obj = "live"
		case "equal-outpoint-other-pointer":
			ptr++
			u.Ptr = ptr
		case "control-nil-utxo":
			st.P.Utxo = nil
		case "control-distinct-outpoints":
			if r.Bool() {
				u.Index = shared.Index + uint32(s) + 1 // same transaction, another output
			} else {
				u.Hash = hexOf(r, 32)
			}
			u.Ptr = s
		case "mixed":
			switch r.Intn(6) {
			case 0:
				ptr++
				u.Ptr = ptr
			case 1:
				u.Index = uint32(r.Intn(3))
				u.Ptr = r.Intn(ptr + 1) // re-points a long-lived Utxo object
			}
		}
		if kind != "control-nil-utxo" {
			st.P.Utxo = &u
		}
		if (kind == "mixed" || kind == "shared-one") && s > 0 && r.Chance(1, 8) {
			// a call that fails in between: malformed depositor, same outpoint
			st.P.Depositor = []string{"0x" + hexOf(r, 19), "0x" + hexOf(r, 19) + "zz", ""}[r.Intn(3)]
		} else {
			st.P.Spends = matrix(r, st.P, old, histKeys)
		}
		st.Scribble = r.Chance(1, 5)
		h.Steps = append(h.Steps, st)
	}
	switch kind {
	case "sweep-then-changed":
		// the first calls come from one sweep assembly, the later ones are direct / a second assembly
		cut := r.Range(1, n-1)
		for s := range h.Steps {
			h.Steps[s].SweepWrap = []string{"p2sh", "p2wsh"}[r.Intn(2)]
			if s < cut {
				h.Steps[s].Sweep = 1
			} else if r.Bool() {
				h.Steps[s].Sweep = 2
			}
		}
	case "sweep-one-funding-tx":
		// the deposits of one funding transaction (distinct outputs) swept together, twice: the
		// second proposal carries the same outpoints with changed parameters
		first := h.Steps
		for s := range first {
			first[s].P.Utxo.Index = uint32(s)
			first[s].P.Utxo.Ptr = s
			first[s].Sweep = 1
			first[s].SweepWrap = []string{"p2sh", "p2wsh"}[r.Intn(2)]
		}
		if len(first) > 3 {
			first = first[:3]
		}
		h.Steps = append([]histStep{}, first...)
		for s := range first {
			st := first[s]
			p := cloneParams(st.P)
			mutate(r, &p, mutations[r.Intn(len(mutations))], histKeys)
			u := *st.P.Utxo
			if r.Bool() {
				u.Ptr = 10 + s
			}
			p.Utxo = &u
			p.Spends = matrix(r, p, roleChange(st.P, p), histKeys)
			h.Steps = append(h.Steps, histStep{P: p, Obj: objs[r.Intn(3)], Sweep: 2, SweepWrap: st.SweepWrap})
		}
	}
	for s := range h.Steps { // sweep steps need a funding output and a well-formed depositor
		if h.Steps[s].Sweep != 0 && h.Steps[s].P.Utxo == nil {
			h.Steps[s].Sweep = 0
		}
	}
	return h
}

// histCorpus: minimal histories, one changed parameter each, on one shared Utxo pointer; the
// refund-locktime boundary both ways; the long-lived object; nil-Utxo and distinct-outpoint controls.
func histCorpus(em *lib.Emitter) {
	r := lib.NewRng(2828)
	keys := genKeys(r, histKeys)
	for ci, m := range []string{"depositor", "blinding", "wallet", "refund", "lock+1", "lock-1", "lock-far", "extra-add", "extra-drop", "extra-change"} {
		for vi, variant := range []string{"same-pointer", "other-pointer", "live", "sweep"} {
			if (ci+vi)%2 == 1 && m != "lock+1" && m != "refund" { // half of the grid, the two demo cases in full
				continue
			}
			a := baseParams(r)
			a.Locktime = le32(1700000000 + uint32(ci))
			if m == "extra-add" {
				a.Extra = nil
			} else if m == "extra-drop" || m == "extra-change" {
				e := hexOf(r, 32)
				a.Extra = &e
			}
			b := cloneParams(a)
			switch m {
			case "lock+1":
				b.Locktime = le32(lockOf(a) + 1)
			case "lock-1":
				b.Locktime = le32(lockOf(a) - 1)
			case "lock-far":
				b.Locktime = le32(lockOf(a) + 300000000)
			case "extra-add":
				e := hexOf(r, 32)
				b.Extra = &e
			case "extra-drop":
				b.Extra = nil
			case "extra-change":
				x := mustHex(*a.Extra)
				x[31] ^= 1
				e := hex.EncodeToString(x)
				b.Extra = &e
			default:
				mutate(r, &b, m, histKeys)
			}
			u := genUtxo(r)
			ua, ub := *u, *u
			sa, sb := histStep{P: a, Obj: "fresh"}, histStep{P: b, Obj: "copy"}
			switch variant {
			case "same-pointer":
				// the caller overwrites the first returned slice: the third call (the first
				// parameters again) must not hand out the same memory
				sa.Scribble = true
			case "other-pointer":
				ub.Ptr = 1
				sb.Obj = "fresh"
			case "live":
				sa.Obj, sb.Obj, sb.InPlace = "live", "live", true
			case "sweep":
				sa.Sweep, sb.Sweep = 1, 2
				sa.SweepWrap, sb.SweepWrap = "p2wsh", "p2wsh"
			}
			sa.P.Utxo, sb.P.Utxo = &ua, &ub
			sa.P.Spends = matrix(r, sa.P, nil, histKeys)
			sb.P.Spends = matrix(r, sb.P, roleChange(a, b), histKeys)
			// third call: back to the first parameters (a memo of the SECOND script would show here)
			sc := histStep{P: cloneParams(a), Obj: sb.Obj}
			sc.P.Utxo = &ua
			sc.P.Spends = matrix(r, sc.P, roleChange(b, a), histKeys)
			h := &histInput{Keys: keys, Kind: "corpus-" + m + "-" + variant, Steps: []histStep{sa, sb, sc}}
			run(input{Hist: h}, em, fmt.Sprintf("corpus-hist-%s-%s", m, variant))
		}
	}
}
