// Driver for C30: calls the real bitcoin.TransactionSizeEstimator (and the four fee estimators
// of pkg/tbtcpg that feed it, at 1 sat/vbyte so that the fee IS the estimated virtual size) on
// generated op sequences, and for the same shape builds and signs a REAL transaction with the
// real bitcoin.TransactionBuilder and secp256k1 keys (RFC 6979 signatures, forced maximal-length
// 72-byte low-S and high-S signatures obtained by grinding the nonce, and the short r of k = 1/2).
// Measured: Serialize(Standard) / Serialize(Witness) lengths of the signed transaction, btcd's
// mempool.GetTxVirtualSize of it, and per input the signature and key lengths the builder wrote.
package main

import (
	"crypto/sha256"
	"encoding/hex"
	"fmt"
	"math/big"
	"os"
	"sort"
	"strings"

	"github.com/btcsuite/btcd/btcec"
	"github.com/btcsuite/btcd/chaincfg/chainhash"
	"github.com/btcsuite/btcd/mempool"
	"github.com/btcsuite/btcd/wire"
	"github.com/btcsuite/btcutil"

	"github.com/keep-network/keep-core/pkg/bitcoin"
	"github.com/keep-network/keep-core/pkg/chain"
	"github.com/keep-network/keep-core/pkg/tbtc"
	"github.com/keep-network/keep-core/pkg/tbtcpg"

	"verifharness/lib"
)

// ------------------------------------------------------------------ replayable input

type opSpec struct {
	Kind  string `json:"kind"` // pkhin | shin | pkhout | shout
	Count int    `json:"count"`
	RLen  int    `json:"rlen"`
	Wit   bool   `json:"wit"`
}

type inGroup struct {
	Kind    string `json:"kind"`    // p2pkh | p2wpkh | p2sh | p2wsh
	RLen    int    `json:"rlen"`    // redeem script length (sh)
	First   int    `json:"first"`   // first byte of the redeem script (the rest is OP_NOP)
	Deposit bool   `json:"deposit"` // use a real tBTC deposit script of RLen 92 or 126
	Sig     string `json:"sig"`     // rfc | max | highs | short | mix
	Mult    int    `json:"mult"`
}

type outGroup struct {
	Len  int `json:"len"` // script length: 22/25/23/34 get the standard scripts, others OP_NOPs
	Mult int `json:"mult"`
}

type itemSpec struct {
	Op   opSpec     `json:"op"`
	Ins  []inGroup  `json:"ins"`
	Outs []outGroup `json:"outs"`
}

type input struct {
	Items  []itemSpec `json:"items"`
	Caller string     `json:"caller"` // "" | sweep | redemption | moving | movedsweep : estimate through pkg/tbtcpg
	NoReal bool       `json:"noReal"` // do not build a real transaction
	Seed   uint64     `json:"seed"`   // keys, nonces, input order
}

// ------------------------------------------------------------------ fakes

type fakeBtc struct {
	bitcoin.Chain
	txs map[bitcoin.Hash]*bitcoin.Transaction
}

func (f *fakeBtc) GetTransaction(h bitcoin.Hash) (*bitcoin.Transaction, error) {
	t, ok := f.txs[h]
	if !ok {
		return nil, fmt.Errorf("unknown transaction")
	}
	return t, nil
}
func (f *fakeBtc) EstimateSatPerVByteFee(blocks uint32) (int64, error) { return 1, nil }

type fakePg struct{ tbtcpg.Chain }

func (fakePg) GetDepositParameters() (uint64, uint64, uint64, uint32, error) {
	return 0, 0, 1 << 40, 0, nil
}
func (fakePg) GetDepositSweepMaxSize() (uint16, error) { return 20, nil }

// ------------------------------------------------------------------ estimator side

func opTerm(o opSpec) string {
	switch o.Kind {
	case "pkhin":
		return fmt.Sprintf("(OPkhIn %s %s)", lib.Z(int64(o.Count)), lib.Bool(o.Wit))
	case "shin":
		return fmt.Sprintf("(OShIn %s %s %s)", lib.Z(int64(o.Count)), lib.Z(int64(o.RLen)), lib.Bool(o.Wit))
	case "pkhout":
		return fmt.Sprintf("(OPkhOut %s %s)", lib.Z(int64(o.Count)), lib.Bool(o.Wit))
	}
	return fmt.Sprintf("(OShOut %s %s)", lib.Z(int64(o.Count)), lib.Bool(o.Wit))
}

// runEstimator returns the Coq eres term and a readable observable.
func runEstimator(in input) (term string, obs interface{}) {
	defer func() {
		if r := recover(); r != nil {
			term, obs = "VPanic", fmt.Sprintf("panic: %v", r)
		}
	}()
	if in.Caller != "" {
		return runCaller(in)
	}
	e := bitcoin.NewTransactionSizeEstimator()
	for _, it := range in.Items {
		o := it.Op
		switch o.Kind {
		case "pkhin":
			e.AddPublicKeyHashInputs(o.Count, o.Wit)
		case "shin":
			e.AddScriptHashInputs(o.Count, o.RLen, o.Wit)
		case "pkhout":
			e.AddPublicKeyHashOutputs(o.Count, o.Wit)
		default:
			e.AddScriptHashOutputs(o.Count, o.Wit)
		}
	}
	v, err := e.VirtualSize()
	if err != nil {
		return "VErr", "error: " + err.Error()
	}
	return fmt.Sprintf("(VOk %s)", lib.N(uint64(v))), v
}

// runCaller goes through the exported fee estimators of pkg/tbtcpg with a 1 sat/vbyte chain.  The
// ops of the items must be the ones the caller is expected to issue (the model recomputes them).
func runCaller(in input) (string, interface{}) {
	btc := &fakeBtc{}
	var fee int64
	var err error
	switch in.Caller {
	case "sweep":
		n := in.Items[1].Op.Count
		var fees map[int]struct {
			TotalFee       int64
			SatPerVByteFee int64
		}
		fees, err = tbtcpg.EstimateDepositsSweepFee(fakePg{}, btc, n)
		if err == nil {
			fee = fees[n].TotalFee
		}
	case "redemption":
		var scripts []bitcoin.Script
		for _, it := range in.Items[2:] {
			scripts = append(scripts, stdScript(stdLen(it.Op), []byte{7}))
		}
		fee, err = tbtcpg.EstimateRedemptionFee(btc, scripts)
	case "moving":
		fee, err = tbtcpg.EstimateMovingFundsFee(btc, in.Items[1].Op.Count, 1<<40)
	case "movedsweep":
		fee, err = tbtcpg.EstimateMovedFundsSweepFee(btc, in.Items[0].Op.Count == 2, 1<<40)
	default:
		panic("driver: unknown caller " + in.Caller)
	}
	if err != nil {
		return "VErr", "error: " + err.Error()
	}
	return fmt.Sprintf("(VOk %s)", lib.N(uint64(fee))), fee
}

func stdLen(o opSpec) int {
	switch {
	case o.Kind == "pkhout" && o.Wit:
		return 22
	case o.Kind == "pkhout":
		return 25
	case o.Wit:
		return 34
	}
	return 23
}

// stdScript: the standard output script of the given length (other lengths: OP_NOPs)
func stdScript(n int, fill []byte) []byte {
	h := sha256.Sum256(fill)
	var h20 [20]byte
	copy(h20[:], h[:20])
	var s []byte
	switch n {
	case 22:
		s, _ = bitcoin.PayToWitnessPublicKeyHash(h20)
	case 25:
		s, _ = bitcoin.PayToPublicKeyHash(h20)
	case 23:
		s, _ = bitcoin.PayToScriptHash(h20)
	case 34:
		s, _ = bitcoin.PayToWitnessScriptHash(h)
	default:
		s = make([]byte, n)
		for i := range s {
			s[i] = 0x61
		}
	}
	return s
}

// ------------------------------------------------------------------ real transaction side

var curve = btcec.S256()
var two255 = new(big.Int).Lsh(big.NewInt(1), 255)
var two248 = new(big.Int).Lsh(big.NewInt(1), 248)
var halfOrder = new(big.Int).Rsh(curve.N, 1)

// signWith: ECDSA with an explicit nonce
func signWith(d *big.Int, z *big.Int, k *big.Int) (r, s *big.Int) {
	x, _ := curve.ScalarBaseMult(k.Bytes())
	r = new(big.Int).Mod(x, curve.N)
	kinv := new(big.Int).ModInverse(k, curve.N)
	s = new(big.Int).Mul(r, d)
	s.Add(s, z)
	s.Mul(s, kinv)
	s.Mod(s, curve.N)
	return
}

// sign produces (r, s) for the digest in the requested mode.
func sign(mode string, priv *btcec.PrivateKey, digest *big.Int, rng *lib.Rng) (*big.Int, *big.Int) {
	switch mode {
	case "max", "highs":
		for {
			k := new(big.Int).SetBytes(rng.Bytes(32))
			k.Mod(k, curve.N)
			if k.Sign() == 0 {
				continue
			}
			r, s := signWith(priv.D, digest, k)
			if r.Sign() == 0 || s.Sign() == 0 {
				continue
			}
			low := new(big.Int).Set(s)
			if low.Cmp(halfOrder) > 0 {
				low.Sub(curve.N, low)
			}
			// r needs the 0x00 pad (33 bytes) and the low s is a full 32 bytes
			if r.Cmp(two255) >= 0 && low.Cmp(two248) >= 0 {
				if mode == "highs" {
					return r, new(big.Int).Sub(curve.N, low)
				}
				return r, low
			}
		}
	case "short":
		// k = 1/2: r = x(G/2) has only 166 bits
		k := new(big.Int).ModInverse(big.NewInt(2), curve.N)
		r, s := signWith(priv.D, digest, k)
		return r, s
	}
	b := digest.Bytes()
	if len(b) < 32 {
		p := make([]byte, 32)
		copy(p[32-len(b):], b)
		b = p
	}
	sig, err := priv.Sign(b)
	if err != nil {
		panic("driver: sign: " + err.Error())
	}
	return sig.R, sig.S
}

func nops(n int, first int) []byte {
	s := make([]byte, n)
	for i := range s {
		s[i] = 0x61
	}
	if n > 0 {
		s[0] = byte(first)
	}
	return s
}

func depositScript(n int, walletPKH [20]byte, r *lib.Rng) []byte {
	dep := &tbtc.Deposit{Depositor: chain.Address("0x" + hex.EncodeToString(r.Bytes(20)))}
	copy(dep.BlindingFactor[:], r.Bytes(8))
	dep.WalletPublicKeyHash = walletPKH
	copy(dep.RefundPublicKeyHash[:], r.Bytes(20))
	copy(dep.RefundLocktime[:], []byte{0x60, 0xbc, 0xea, 0x61})
	if n == 126 {
		var e [32]byte
		copy(e[:], r.Bytes(32))
		dep.ExtraData = &e
	}
	s, err := dep.Script()
	if err != nil {
		panic("driver: deposit script: " + err.Error())
	}
	if len(s) != n {
		panic(fmt.Sprintf("driver: deposit script has %d bytes, wanted %d", len(s), n))
	}
	return s
}

type flatIn struct {
	item, group int
	mode        string
	priv        *btcec.PrivateKey
	utxo        *bitcoin.UnspentTransactionOutput
	redeem      []byte
	sh          bool
}

type cinObs struct {
	kind   string // Coq ckind
	sl, pl int
	mult   int
}

type realResult struct {
	built         bool
	note          string
	base, total   int
	vsize         int64
	perItem       [][]cinObs
	sigs          []string // Coq sig_obs terms
	sigLens       map[int]int
	maxSig, nSigs int
}

func buildReal(in input) (res realResult) {
	defer func() {
		if r := recover(); r != nil {
			res = realResult{note: fmt.Sprintf("panic: %v", r)}
		}
	}()
	rng := lib.NewRng(in.Seed)
	fc := &fakeBtc{txs: map[bitcoin.Hash]*bitcoin.Transaction{}}
	var flat []flatIn
	for ii, it := range in.Items {
		for gi, g := range it.Ins {
			priv, pub := btcec.PrivKeyFromBytes(curve, append([]byte{1}, rng.Fork(fmt.Sprintf("key%d.%d", ii, gi)).Bytes(31)...))
			var pkh [20]byte
			copy(pkh[:], btcutil.Hash160(pub.SerializeCompressed()))
			var redeem, script []byte
			switch g.Kind {
			case "p2pkh":
				script, _ = bitcoin.PayToPublicKeyHash(pkh)
			case "p2wpkh":
				script, _ = bitcoin.PayToWitnessPublicKeyHash(pkh)
			default:
				if g.Deposit {
					redeem = depositScript(g.RLen, pkh, rng.Fork("dep"))
				} else {
					redeem = nops(g.RLen, g.First)
				}
				if g.Kind == "p2sh" {
					script, _ = bitcoin.PayToScriptHash(bitcoin.ScriptHash(redeem))
				} else {
					script, _ = bitcoin.PayToWitnessScriptHash(bitcoin.WitnessScriptHash(redeem))
				}
			}
			var h bitcoin.Hash
			hh := sha256.Sum256([]byte(fmt.Sprintf("funding-%d-%d-%d", in.Seed, ii, gi)))
			copy(h[:], hh[:])
			ftx := &bitcoin.Transaction{Version: 1}
			for j := 0; j < g.Mult; j++ {
				ftx.Outputs = append(ftx.Outputs, &bitcoin.TransactionOutput{Value: 100000 + int64(j), PublicKeyScript: script})
				mode := g.Sig
				if mode == "mix" {
					mode = []string{"rfc", "max", "highs", "short", "rfc"}[rng.Intn(5)]
				}
				flat = append(flat, flatIn{item: ii, group: gi, mode: mode, priv: priv, redeem: redeem,
					sh: g.Kind == "p2sh" || g.Kind == "p2wsh",
					utxo: &bitcoin.UnspentTransactionOutput{
						Outpoint: &bitcoin.TransactionOutpoint{TransactionHash: h, OutputIndex: uint32(j)},
						Value:    100000 + int64(j)}})
			}
			fc.txs[h] = ftx
		}
	}
	// the wallet's input order is not the estimator's: shuffle
	p := rng.Fork("order").Perm(len(flat))
	shuffled := make([]flatIn, len(flat))
	for i, j := range p {
		shuffled[i] = flat[j]
	}
	flat = shuffled

	tb := bitcoin.NewTransactionBuilder(fc)
	for _, f := range flat {
		var err error
		if f.sh {
			err = tb.AddScriptHashInput(f.utxo, f.redeem)
		} else {
			err = tb.AddPublicKeyHashInput(f.utxo)
		}
		if err != nil {
			return realResult{note: "add input: " + err.Error()}
		}
	}
	for ii, it := range in.Items {
		for gi, g := range it.Outs {
			for j := 0; j < g.Mult; j++ {
				tb.AddOutput(&bitcoin.TransactionOutput{Value: int64(1000 + j),
					PublicKeyScript: stdScript(g.Len, []byte{byte(ii), byte(gi), byte(j), byte(j >> 8)})})
			}
		}
	}
	digests, err := tb.ComputeSignatureHashes()
	if err != nil {
		return realResult{note: "sighashes: " + err.Error()}
	}
	containers := make([]*bitcoin.SignatureContainer, len(flat))
	nonce := rng.Fork("nonce")
	type rs struct{ r, s *big.Int }
	handed := make([]rs, len(flat))
	for i, f := range flat {
		r, s := sign(f.mode, f.priv, digests[i], nonce)
		handed[i] = rs{r, s}
		containers[i] = &bitcoin.SignatureContainer{R: r, S: s, PublicKey: f.priv.PubKey().ToECDSA()}
	}
	tx, err := tb.AddSignatures(containers)
	if err != nil {
		return realResult{note: "add signatures: " + err.Error()}
	}

	res.built = true
	res.base = len(tx.Serialize(bitcoin.Standard))
	res.total = len(tx.Serialize(bitcoin.Witness))
	msg := wire.NewMsgTx(tx.Version)
	msg.LockTime = tx.Locktime
	for _, ti := range tx.Inputs {
		h := chainhash.Hash(ti.Outpoint.TransactionHash)
		txin := wire.NewTxIn(wire.NewOutPoint(&h, ti.Outpoint.OutputIndex), ti.SignatureScript, ti.Witness)
		txin.Sequence = ti.Sequence
		msg.AddTxIn(txin)
	}
	for _, o := range tx.Outputs {
		msg.AddTxOut(wire.NewTxOut(o.Value, o.PublicKeyScript))
	}
	res.vsize = mempool.GetTxVirtualSize(btcutil.NewTx(msg))

	// per input: lengths of what the builder wrote
	type key struct{ item, group, sl, pl int }
	counts := map[key]int{}
	res.sigLens = map[int]int{}
	for i, f := range flat {
		ti := tx.Inputs[i]
		var sl, pl int
		if len(ti.Witness) > 0 {
			sl, pl = len(ti.Witness[0]), len(ti.Witness[1])
		} else {
			// <push sl> sig <push pl> pk ...: both pushes are single-byte OP_DATA_n
			sl = int(ti.SignatureScript[0])
			pl = int(ti.SignatureScript[1+sl])
		}
		counts[key{f.item, f.group, sl, pl}]++
		res.sigLens[sl]++
		res.nSigs++
		if sl > res.maxSig {
			res.maxSig = sl
		}
		if len(res.sigs) < 4 && (i < 2 || f.mode == "highs" || f.mode == "short") {
			res.sigs = append(res.sigs, fmt.Sprintf("{| so_r := %s; so_s := %s; so_len := %s |}",
				lib.ZBig(handed[i].r), lib.ZBig(handed[i].s), lib.N(uint64(sl))))
		}
	}
	keys := make([]key, 0, len(counts))
	for k := range counts {
		keys = append(keys, k)
	}
	sort.Slice(keys, func(a, b int) bool {
		x, y := keys[a], keys[b]
		if x.item != y.item {
			return x.item < y.item
		}
		if x.group != y.group {
			return x.group < y.group
		}
		if x.sl != y.sl {
			return x.sl < y.sl
		}
		return x.pl < y.pl
	})
	res.perItem = make([][]cinObs, len(in.Items))
	for _, k := range keys {
		g := in.Items[k.item].Ins[k.group]
		var kind string
		switch g.Kind {
		case "p2pkh":
			kind = "(CPkh false)"
		case "p2wpkh":
			kind = "(CPkh true)"
		default:
			first := g.First
			if g.Deposit || g.RLen == 0 {
				first = 0x14 // a deposit script starts with the push of the depositor address
			}
			kind = fmt.Sprintf("(CSh %s %s %s)", lib.Bool(g.Kind == "p2wsh"), lib.N(uint64(g.RLen)), lib.N(uint64(first)))
		}
		res.perItem[k.item] = append(res.perItem[k.item], cinObs{kind, k.sl, k.pl, counts[k]})
	}
	return res
}

// ------------------------------------------------------------------ one case

func run(in input, em *lib.Emitter, id string) {
	estTerm, estObs := runEstimator(in)
	var real realResult
	hasReal := false
	if !in.NoReal {
		n := 0
		for _, it := range in.Items {
			for _, g := range it.Ins {
				n += g.Mult
			}
		}
		if n > 0 {
			real = buildReal(in)
			hasReal = real.built
		}
	}

	items := make([]string, len(in.Items))
	kinds := map[string]bool{}
	boundary := false
	for i, it := range in.Items {
		var ins, outs []string
		if hasReal {
			for _, c := range real.perItem[i] {
				ins = append(ins, fmt.Sprintf("{| ci_kind := %s; ci_sl := %s; ci_pl := %s; ci_mult := %s |}",
					c.kind, lib.N(uint64(c.sl)), lib.N(uint64(c.pl)), lib.N(uint64(c.mult))))
			}
			for _, g := range it.Outs {
				outs = append(outs, lib.Pair(lib.N(uint64(g.Mult)), lib.N(uint64(g.Len))))
			}
		}
		for _, g := range it.Ins {
			kinds[g.Kind] = true
			if g.Mult >= 252 || (g.RLen >= 74 && g.RLen <= 77) || (g.RLen >= 252 && g.RLen <= 257) || g.RLen >= 519 {
				boundary = true
			}
		}
		if it.Op.Count >= 252 {
			boundary = true
		}
		items[i] = fmt.Sprintf("{| it_op := %s; it_ins := %s; it_outs := %s |}", opTerm(it.Op), lib.List(ins), lib.List(outs))
	}
	realTerm := "None"
	if hasReal {
		realTerm = fmt.Sprintf("(Some {| r_base := %s; r_total := %s; r_vsize := %s |})",
			lib.N(uint64(real.base)), lib.N(uint64(real.total)), lib.N(uint64(real.vsize)))
	}
	callerTerm := "None"
	switch in.Caller {
	case "sweep":
		callerTerm = fmt.Sprintf("(Some (CallSweep %s))", lib.Z(int64(in.Items[1].Op.Count)))
	case "redemption":
		var sh []string
		for _, it := range in.Items[2:] {
			if it.Op.Kind == "pkhout" {
				sh = append(sh, "TPkh "+lib.Bool(it.Op.Wit))
			} else {
				sh = append(sh, "TSh "+lib.Bool(it.Op.Wit))
			}
		}
		callerTerm = fmt.Sprintf("(Some (CallRedemption %s))", lib.List(sh))
	case "moving":
		callerTerm = fmt.Sprintf("(Some (CallMoving %s))", lib.Z(int64(in.Items[1].Op.Count)))
	case "movedsweep":
		callerTerm = fmt.Sprintf("(Some (CallMovedSweep %s))", lib.Bool(in.Items[0].Op.Count == 2))
	}
	coq := fmt.Sprintf("{| c_items := %s; c_caller := %s; c_est := %s; c_real := %s; c_sigs := %s |}",
		lib.List(items), callerTerm, estTerm, realTerm, lib.List(real.sigs))

	kindList := make([]string, 0, len(kinds))
	for k := range kinds {
		kindList = append(kindList, k)
	}
	sort.Strings(kindList)
	em.Tally("est-" + strings.SplitN(strings.Trim(estTerm, "("), " ", 2)[0])
	if in.Caller != "" {
		em.Tally("caller-" + in.Caller)
	}
	if hasReal {
		em.Tally("real-built")
		em.Tally("kinds-" + strings.Join(kindList, "+"))
		for sl, c := range real.sigLens {
			for k := 0; k < c; k++ {
				em.Tally(fmt.Sprintf("siglen-%02d", sl))
			}
		}
		if v, ok := estObs.(int64); ok {
			switch d := v - real.vsize; {
			case d < 0:
				em.Tally("estimate-below-real")
			case d == 0:
				em.Tally("estimate-equals-real")
			default:
				em.Tally("estimate-above-real")
			}
		}
	} else if !in.NoReal {
		em.Tally("real-not-built")
	}
	kh := sha256.Sum256([]byte(coq))
	em.Case(lib.Case{
		ID:         id,
		Coq:        coq,
		Key:        hex.EncodeToString(kh[:12]),
		Nontrivial: hasReal && (len(kinds) >= 2 || boundary || real.maxSig == 72),
		Sig: sigOf(in, kindList, hasReal),
		In: in,
		Out: map[string]interface{}{"estimate": estObs, "built": hasReal, "note": real.note,
			"base": real.base, "total": real.total, "vsize": real.vsize, "sigLengths": real.sigLens},
	})
}

// sigOf: structural signature for known-findings matching.  Deposit sweeps estimated through
// tbtcpg.EstimateDepositsSweepFee say whether legacy P2SH deposits are among the swept ones.
func sigOf(in input, kindList []string, built bool) map[string]interface{} {
	sig := map[string]interface{}{"caller": in.Caller, "kinds": strings.Join(kindList, "+"), "built": built}
	if in.Caller == "sweep" {
		sig["caller"] = "EstimateDepositsSweepFee"
		p2sh := false
		for _, it := range in.Items {
			for _, g := range it.Ins {
				if g.Kind == "p2sh" {
					p2sh = true
				}
			}
		}
		sig["p2sh_deposits"] = p2sh
	}
	return sig
}

// ------------------------------------------------------------------ generators

func pkhIn(count int, wit bool, real int, sig string) itemSpec {
	kind := "p2pkh"
	if wit {
		kind = "p2wpkh"
	}
	it := itemSpec{Op: opSpec{Kind: "pkhin", Count: count, Wit: wit}}
	if real > 0 {
		it.Ins = []inGroup{{Kind: kind, Sig: sig, Mult: real}}
	}
	return it
}

func shIn(count, rlen int, wit bool, real, realLen int, sig string) itemSpec {
	kind := "p2sh"
	if wit {
		kind = "p2wsh"
	}
	it := itemSpec{Op: opSpec{Kind: "shin", Count: count, RLen: rlen, Wit: wit}}
	if real > 0 {
		it.Ins = []inGroup{{Kind: kind, RLen: realLen, First: 0x61, Sig: sig, Mult: real,
			Deposit: realLen == 92 || realLen == 126}}
	}
	return it
}

func outs(kind string, count int, wit bool, real int) itemSpec {
	o := opSpec{Kind: kind, Count: count, Wit: wit}
	it := itemSpec{Op: o}
	if real > 0 {
		it.Outs = []outGroup{{Len: stdLen(o), Mult: real}}
	}
	return it
}

func randItems(r *lib.Rng, maxCount int, exact bool) []itemSpec {
	var items []itemSpec
	sigs := []string{"rfc", "max", "highs", "short", "mix", "mix"}
	nIn := r.Range(1, 4)
	for i := 0; i < nIn; i++ {
		c := r.Range(0, maxCount)
		real := c
		if !exact && c > 0 && r.Chance(1, 4) {
			real = r.Range(0, c)
		}
		wit := r.Bool()
		sig := sigs[r.Intn(len(sigs))]
		if r.Bool() {
			items = append(items, pkhIn(c, wit, real, sig))
		} else {
			var l int
			switch r.Intn(5) {
			case 0:
				l = []int{92, 126}[r.Intn(2)]
			case 1:
				l = []int{0, 1, 2, 74, 75, 76, 77, 252, 253, 254, 255, 256, 257, 519, 520}[r.Intn(15)]
			case 2:
				l = r.Range(2, 520)
			default:
				l = r.Range(2, 150)
			}
			rl := l
			if !exact && r.Chance(1, 3) {
				rl = r.Range(0, l)
				if rl == 1 {
					rl = 2
				}
			}
			items = append(items, shIn(c, l, wit, real, rl, sig))
		}
	}
	nOut := r.Range(0, 3)
	for i := 0; i < nOut; i++ {
		c := r.Range(0, maxCount)
		real := c
		if !exact && c > 0 && r.Chance(1, 4) {
			real = r.Range(0, c)
		}
		items = append(items, outs([]string{"pkhout", "shout"}[r.Intn(2)], c, r.Bool(), real))
	}
	// the estimator is order-insensitive: call it in a random order
	p := r.Perm(len(items))
	sh := make([]itemSpec, len(items))
	for i, j := range p {
		sh[i] = items[j]
	}
	return sh
}

func main() {
	o := lib.ParseOpts()
	lib.SilenceLogs()
	em0 := lib.NewEmitter()
	if o.Replay != "" {
		var in input
		if err := lib.LoadReplay(o.Replay, &in); err != nil {
			fmt.Fprintln(os.Stderr, err)
			os.Exit(2)
		}
		run(in, em0, "replay")
		em0.Close("replay", nil)
		return
	}
	rng := lib.NewRng(o.Seed)
	emit := func(in input, id string) { run(in, em0, id) }

	// --- corpus
	{
		// the shapes of pkg/bitcoin/estimator_test.go, with real transactions and maximal signatures
		emit(input{Seed: 11, Items: []itemSpec{pkhIn(1, true, 1, "max"), shIn(1, 92, true, 1, 92, "max"), outs("pkhout", 1, true, 1)}}, "corpus-test-1")
		emit(input{Seed: 12, Items: []itemSpec{pkhIn(1, true, 1, "max"), shIn(10, 92, true, 10, 92, "max"), outs("pkhout", 1, true, 1)}}, "corpus-test-10")
		emit(input{Seed: 13, Items: []itemSpec{shIn(3, 92, true, 3, 92, "highs"), shIn(2, 92, false, 2, 92, "highs"), outs("pkhout", 1, true, 1)}}, "corpus-test-mixed")
		emit(input{Seed: 14, Items: []itemSpec{pkhIn(1, true, 1, "max"), outs("pkhout", 1, false, 1), outs("pkhout", 2, true, 2),
			outs("shout", 1, false, 1), outs("shout", 1, true, 1)}}, "corpus-test-outputs")
		// equality: all four kinds, maximal signatures, exact lengths
		emit(input{Seed: 15, Items: []itemSpec{pkhIn(2, true, 2, "max"), pkhIn(2, false, 2, "max"), shIn(2, 126, true, 2, 126, "max"),
			shIn(2, 126, false, 2, 126, "highs"), outs("pkhout", 1, true, 1), outs("shout", 1, false, 1)}}, "corpus-tight-all-kinds")
		// four non-witness inputs: one byte less in the placeholder would already show
		emit(input{Seed: 16, Items: []itemSpec{pkhIn(4, false, 4, "max"), outs("pkhout", 1, false, 1)}}, "corpus-tight-p2pkh")
		emit(input{Seed: 17, Items: []itemSpec{pkhIn(8, true, 8, "max"), outs("pkhout", 1, true, 1)}}, "corpus-tight-p2wpkh")
		// short signatures
		emit(input{Seed: 18, Items: []itemSpec{pkhIn(3, true, 3, "short"), pkhIn(3, false, 3, "short"), outs("pkhout", 1, true, 1)}}, "corpus-short-r")
		// one-byte redeem script that is not a small integer: outside the covered shapes (the model
		// predicts the one-byte undershoot, see Props one_byte_redeem_undershoots)
		one := shIn(1, 1, false, 1, 1, "max")
		one.Ins[0].First = 0x51
		emit(input{Seed: 19, Items: []itemSpec{one, outs("pkhout", 1, true, 1)}}, "corpus-one-byte-redeem-0x51")
		zero := shIn(1, 1, false, 1, 1, "max")
		zero.Ins[0].First = 0x00
		emit(input{Seed: 20, Items: []itemSpec{zero, outs("pkhout", 1, true, 1)}}, "corpus-one-byte-redeem-0x00")
		// estimator errors and panics
		emit(input{Seed: 21, NoReal: true, Items: []itemSpec{shIn(0, 521, false, 0, 0, ""), outs("pkhout", 1, true, 0)}}, "corpus-redeem-521-error")
		emit(input{Seed: 22, NoReal: true, Items: []itemSpec{pkhIn(1, true, 0, ""), shIn(1, -1, true, 0, 0, "")}}, "corpus-negative-length-panic")
		emit(input{Seed: 23, NoReal: true, Items: []itemSpec{shIn(1, 521, false, 0, 0, ""), shIn(1, -1, true, 0, 0, "")}}, "corpus-error-then-negative")
		emit(input{Seed: 24, NoReal: true, Items: []itemSpec{pkhIn(-3, true, 0, ""), outs("shout", -1, true, 0)}}, "corpus-negative-counts")
		emit(input{Seed: 25, NoReal: true, Items: nil}, "corpus-empty")
		emit(input{Seed: 26, Items: []itemSpec{shIn(1, 521, true, 1, 521, "max"), shIn(1, 10001, true, 1, 10001, "rfc"), outs("shout", 1, true, 1)}}, "corpus-long-witness-scripts")
		// deposit sweep through tbtcpg: P2WSH deposits (covered) and P2SH deposits (not the shape
		// the caller announces: the model predicts by how much the real transaction is larger)
		emit(input{Seed: 27, Caller: "sweep", Items: []itemSpec{pkhIn(1, true, 1, "max"), shIn(3, 126, true, 3, 126, "max"), outs("pkhout", 1, true, 1)}}, "corpus-sweep-3")
		p2sh := shIn(2, 126, true, 2, 126, "max")
		p2sh.Ins[0].Kind = "p2sh"
		emit(input{Seed: 28, Caller: "sweep", Items: []itemSpec{pkhIn(1, true, 1, "max"), p2sh, outs("pkhout", 1, true, 1)}}, "corpus-sweep-p2sh-deposits")
	}

	// --- boundaries: redeem script lengths around the push-data and compact-size steps
	lens := []int{0, 2, 74, 75, 76, 77, 107, 144, 145, 146, 252, 253, 254, 255, 256, 257, 519, 520}
	for i, l := range lens {
		if o.Tier == "quick" && i%2 == int(o.Seed%2) && l != 75 && l != 76 && l != 255 && l != 256 {
			continue
		}
		for _, wit := range []bool{false, true} {
			r := rng.Fork(fmt.Sprintf("len%d%v", l, wit))
			sig := []string{"max", "highs"}[r.Intn(2)]
			emit(input{Seed: r.U64(), Items: []itemSpec{shIn(1, l, wit, 1, l, sig), outs("pkhout", 1, true, 1)}},
				fmt.Sprintf("len-%d-%v", l, wit))
			if l > 2 {
				// announced l, real one byte shorter
				emit(input{Seed: r.U64(), Items: []itemSpec{shIn(2, l, wit, 2, l-1, "mix"), outs("shout", 1, wit, 1)}},
					fmt.Sprintf("len-%d-%v-shorter", l, wit))
			}
		}
	}
	// --- boundaries: counts around the compact-size step
	type cb struct {
		n    int
		kind int
	}
	var cbs []cb
	for _, n := range []int{252, 253} {
		for k := 0; k < 4; k++ {
			cbs = append(cbs, cb{n, k})
		}
	}
	for i, c := range cbs {
		if o.Tier == "quick" && (i+int(o.Seed))%4 != 0 {
			continue
		}
		r := rng.Fork(fmt.Sprintf("cnt%d", i))
		var it itemSpec
		switch c.kind {
		case 0:
			it = pkhIn(c.n, true, c.n, "mix")
		case 1:
			it = pkhIn(c.n, false, c.n, "mix")
		case 2:
			it = shIn(c.n, 126, true, c.n, 126, "mix")
		default:
			it = shIn(c.n, 92, false, c.n, 92, "mix")
		}
		emit(input{Seed: r.U64(), Items: []itemSpec{it, outs("pkhout", 1, true, 1)}}, fmt.Sprintf("count-in-%d-%d", c.n, c.kind))
	}
	for _, n := range []int{252, 253, 65535, 65536} {
		if n > 60000 && o.Tier == "quick" && int(o.Seed)%2 != n%2 {
			continue
		}
		r := rng.Fork(fmt.Sprintf("outs%d", n))
		emit(input{Seed: r.U64(), Items: []itemSpec{pkhIn(1, true, 1, "max"), outs([]string{"pkhout", "shout"}[r.Intn(2)], n, r.Bool(), n)}},
			fmt.Sprintf("count-out-%d", n))
	}
	// estimator only: large counts
	for _, n := range []int{65535, 65536, 70000} {
		emit(input{Seed: 1, NoReal: true, Items: []itemSpec{pkhIn(n, true, 0, ""), shIn(3, 126, false, 0, 0, ""), outs("shout", n, false, 0)}},
			fmt.Sprintf("estimator-large-%d", n))
	}

	// --- callers of the estimator in pkg/tbtcpg
	nCall := o.Count(10, 60)
	for i := 0; i < nCall; i++ {
		r := rng.Fork(fmt.Sprintf("caller%d", i))
		switch i % 4 {
		case 0:
			n := r.Range(1, 20)
			dep := shIn(n, 126, true, n, []int{92, 126}[r.Intn(2)], "mix")
			main := pkhIn(1, true, r.Intn(2), "mix") // a wallet without main UTXO has no such input
			if r.Chance(1, 3) && n >= 2 {
				// some of the swept deposits are legacy P2SH ones (known finding C30-sweep-p2sh-deposits)
				k := r.Range(1, n-1)
				dep.Ins[0].Mult = n - k
				dep.Ins = append(dep.Ins, inGroup{Kind: "p2sh", RLen: dep.Ins[0].RLen, First: 0x61, Sig: "mix", Mult: k, Deposit: true})
			}
			emit(input{Seed: r.U64(), Caller: "sweep", Items: []itemSpec{main, dep, outs("pkhout", 1, true, 1)}}, fmt.Sprintf("caller-sweep-%d", i))
		case 1:
			n := r.Range(1, 12)
			items := []itemSpec{pkhIn(1, true, 1, "mix"), outs("pkhout", 1, true, r.Intn(2))}
			for j := 0; j < n; j++ {
				items = append(items, outs([]string{"pkhout", "shout"}[r.Intn(2)], 1, r.Bool(), 1))
			}
			emit(input{Seed: r.U64(), Caller: "redemption", Items: items}, fmt.Sprintf("caller-redemption-%d", i))
		case 2:
			n := r.Range(1, 20)
			emit(input{Seed: r.U64(), Caller: "moving", Items: []itemSpec{pkhIn(1, true, 1, "mix"), outs("pkhout", n, true, n)}}, fmt.Sprintf("caller-moving-%d", i))
		default:
			n := r.Range(1, 2)
			emit(input{Seed: r.U64(), Caller: "movedsweep", Items: []itemSpec{pkhIn(n, true, n, "max"), outs("pkhout", 1, true, 1)}}, fmt.Sprintf("caller-movedsweep-%d", i))
		}
	}

	// --- random mixes: exact shapes, covered sub-shapes
	nRand := o.Count(110, 1500)
	for i := 0; i < nRand; i++ {
		r := rng.Fork(fmt.Sprintf("rand%d", i))
		mc := 4
		if r.Chance(1, 8) {
			mc = 30
		}
		emit(input{Seed: r.U64(), Items: randItems(r, mc, r.Bool())}, fmt.Sprintf("rand-%d", i))
	}
	// --- malformed stream: shapes the ops do NOT cover (longer redeem script, more inputs than
	// announced, other kind), errors and panics in the middle
	nBad := o.Count(25, 300)
	for i := 0; i < nBad; i++ {
		r := rng.Fork(fmt.Sprintf("bad%d", i))
		items := randItems(r, 3, true)
		j := r.Intn(len(items))
		switch r.Intn(5) {
		case 0:
			if len(items[j].Ins) > 0 && items[j].Op.Kind == "shin" {
				items[j].Ins[0].RLen += r.Range(1, 40)
				items[j].Ins[0].Deposit = false
			}
		case 1:
			if len(items[j].Ins) > 0 {
				items[j].Ins[0].Mult += r.Range(1, 3)
			}
		case 2:
			if len(items[j].Ins) > 0 {
				items[j].Op.Wit = !items[j].Op.Wit
			}
		case 3:
			items = append(items, shIn(r.Range(0, 2), 521+r.Intn(100), false, 0, 0, ""))
		default:
			if len(items[j].Outs) > 0 {
				items[j].Outs[0].Len += r.Range(1, 30)
			}
		}
		emit(input{Seed: r.U64(), Items: items}, fmt.Sprintf("bad-%d", i))
	}
	em0.Close("a case is one op sequence given to the real TransactionSizeEstimator (or to a tbtcpg fee estimator at "+
		"1 sat/vbyte) plus, when one can be built, the real signed transaction of that shape from the real "+
		"TransactionBuilder with its measured sizes; distinct by the whole case term; non-trivial when a real "+
		"transaction was built and it has >= 2 input kinds, or a count / redeem length at a compact-size or "+
		"push-data boundary, or a maximal 72-byte signature", nil)
}
