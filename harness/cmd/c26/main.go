// Driver for C26: runs the four wallet transaction assembly functions of pkg/tbtc (through the
// verif-tagged exports) against a fake bitcoin.Chain, reads the unsigned transaction out of the
// returned TransactionBuilder and prints the cases for the Coq model (Model/C26.v).
// Scripts and outpoints become N identifiers by first occurrence.  The expected scripts (the
// wallet's own P2WPKH script, the target wallets' P2WPKH scripts) are computed here by hand, not
// with the repository's helpers.
package main

import (
	"crypto/ecdsa"
	"crypto/sha256"
	"encoding/hex"
	"fmt"
	"math/big"
	"os"
	"strings"

	"github.com/btcsuite/btcd/btcec"
	"golang.org/x/crypto/ripemd160"

	"github.com/keep-network/keep-core/pkg/bitcoin"
	"github.com/keep-network/keep-core/pkg/chain"
	"github.com/keep-network/keep-core/pkg/tbtc"

	"verifharness/lib"
)

// ---------------------------------------------------------------- replayable input

type utxoIn struct {
	Hash   string `json:"hash"`   // 32 bytes hex (internal order)
	Index  uint32 `json:"index"`  // output index
	Value  int64  `json:"value"`  // the value the caller claims
	Chain  string `json:"chain"`  // missing | nooutput | p2pkh | p2wpkh | p2sh | p2wsh | other
	Actual int64  `json:"actual"` // the value of the output on the chain
}
type depositIn struct {
	Utxo     utxoIn `json:"utxo"`
	ScriptOK bool   `json:"script_ok"` // false: the depositor field is not 20 bytes of hex
	Seed     uint64 `json:"seed"`      // the other deposit fields
	Extra    bool   `json:"extra"`
}
type requestIn struct {
	Script   string `json:"script"` // hex
	Amount   uint64 `json:"amount"`
	Treasury uint64 `json:"treasury"`
}
type input struct {
	Fn        string      `json:"fn"` // deposit_sweep | redemption | moving_funds | moved_funds_sweep | fee_shares
	KeySeed   uint64      `json:"key_seed"`
	Main      *utxoIn     `json:"main"`
	Deposits  []depositIn `json:"deposits"`
	Requests  []requestIn `json:"requests"`
	Dist      string      `json:"dist"` // total | shares
	Fee       int64       `json:"fee"`
	Shares    []int64     `json:"shares"`
	Shape     int         `json:"shape"` // -1: argument omitted (default)
	Targets   []string    `json:"targets"`
	MovedKind string      `json:"moved_kind"` // nil | chain | direct
	Moved     *utxoIn     `json:"moved"`
	N         int         `json:"n"` // fee_shares: number of requests
}

// ---------------------------------------------------------------- helpers

func walletKey(seed uint64) *ecdsa.PublicKey {
	r := lib.NewRng(seed ^ 0xC26C26)
	k := new(big.Int).SetBytes(r.Bytes(31))
	k.Add(k, big.NewInt(1))
	x, y := btcec.S256().ScalarBaseMult(k.Bytes())
	return &ecdsa.PublicKey{Curve: btcec.S256(), X: x, Y: y}
}

func hash160(b []byte) []byte {
	s := sha256.Sum256(b)
	h := ripemd160.New()
	h.Write(s[:])
	return h.Sum(nil)
}

// ownScript: 0x00 0x14 HASH160(compressed public key), by hand.
func ownScript(pk *ecdsa.PublicKey) []byte {
	c := make([]byte, 33)
	c[0] = 2 + byte(pk.Y.Bit(0))
	xb := pk.X.Bytes()
	copy(c[33-len(xb):], xb)
	return append([]byte{0x00, 0x14}, hash160(c)...)
}

func p2wpkh(h []byte) []byte { return append([]byte{0x00, 0x14}, h...) }

func scriptOfClass(class string, seed []byte) []byte {
	h := hash160(seed)
	switch class {
	case "p2pkh":
		return append(append([]byte{0x76, 0xa9, 0x14}, h...), 0x88, 0xac)
	case "p2wpkh":
		return p2wpkh(h)
	case "p2sh":
		return append(append([]byte{0xa9, 0x14}, h...), 0x87)
	case "p2wsh":
		s := sha256.Sum256(seed)
		return append([]byte{0x00, 0x20}, s[:]...)
	default:
		switch seed[0] % 3 {
		case 0:
			return []byte{0x6a, 0x02, 0xbe, 0xef} // OP_RETURN data
		case 1:
			return []byte{}
		default:
			return append(append([]byte{0x21, 0x02}, sha256.New().Sum(seed)[:32]...), 0xac) // P2PK
		}
	}
}

func mustHash(s string) bitcoin.Hash {
	b, err := hex.DecodeString(s)
	if err != nil || len(b) != 32 {
		panic("bad hash in input: " + s)
	}
	var h bitcoin.Hash
	copy(h[:], b)
	return h
}

// canon numbers byte strings by first occurrence, starting at 1.
type canon struct {
	m map[string]uint64
}

func newCanon() *canon { return &canon{m: map[string]uint64{}} }
func (c *canon) id(b []byte) uint64 {
	k := string(b)
	if v, ok := c.m[k]; ok {
		return v
	}
	v := uint64(len(c.m) + 1)
	c.m[k] = v
	return v
}
func opKey(h bitcoin.Hash, idx uint32) []byte {
	return append(append([]byte{}, h[:]...), byte(idx), byte(idx>>8), byte(idx>>16), byte(idx>>24))
}

func classCoq(c string) string {
	switch c {
	case "p2pkh", "p2wpkh":
		return "KPkh"
	case "p2sh", "p2wsh":
		return "KSh"
	}
	return "KOther"
}
func centryCoq(u *utxoIn) string {
	switch u.Chain {
	case "missing":
		return "CMissing"
	case "nooutput":
		return "CNoOutput"
	}
	return fmt.Sprintf("(COut %s %s)", classCoq(u.Chain), lib.Z(u.Actual))
}

type env struct {
	chain *fakeChain
	ops   *canon
	scr   *canon
}

// serve registers what the chain answers for the UTXO's outpoint.
func (e *env) serve(u *utxoIn) {
	if u.Chain == "missing" {
		return
	}
	h := mustHash(u.Hash)
	tx, ok := e.chain.txs[h]
	if !ok {
		tx = &bitcoin.Transaction{Version: 1}
		e.chain.txs[h] = tx
	}
	if u.Chain == "nooutput" {
		if int(u.Index) < len(tx.Outputs) {
			tx.Outputs = tx.Outputs[:u.Index]
		}
		return
	}
	for len(tx.Outputs) <= int(u.Index) {
		tx.Outputs = append(tx.Outputs, &bitcoin.TransactionOutput{Value: 1, PublicKeyScript: []byte{0x51}})
	}
	seed := append([]byte(u.Hash), byte(u.Index))
	tx.Outputs[u.Index] = &bitcoin.TransactionOutput{
		Value:           u.Actual,
		PublicKeyScript: scriptOfClass(u.Chain, seed),
	}
}

func (e *env) utxo(u *utxoIn) *bitcoin.UnspentTransactionOutput {
	if u == nil {
		return nil
	}
	return &bitcoin.UnspentTransactionOutput{
		Outpoint: &bitcoin.TransactionOutpoint{TransactionHash: mustHash(u.Hash), OutputIndex: u.Index},
		Value:    u.Value,
	}
}

func (e *env) utxoCoq(u *utxoIn) string {
	return fmt.Sprintf("{| u_op := %s; u_value := %s; u_chain := %s |}",
		lib.N(e.ops.id(opKey(mustHash(u.Hash), u.Index))), lib.Z(u.Value), centryCoq(u))
}
func (e *env) optUtxoCoq(u *utxoIn) string {
	if u == nil {
		return "None"
	}
	return lib.Some(e.utxoCoq(u))
}

type observed struct {
	Kind string     `json:"kind"` // Tx | Rejected | Panic
	Err  string     `json:"err,omitempty"`
	Ins  [][2]int64 `json:"ins,omitempty"`  // (outpoint id, value)
	Outs [][2]int64 `json:"outs,omitempty"` // (script id, value)
}

func (e *env) observe(f func() (*bitcoin.TransactionBuilder, error)) (o observed) {
	defer func() {
		if r := recover(); r != nil {
			o = observed{Kind: "Panic", Err: fmt.Sprintf("%v", r)}
		}
	}()
	b, err := f()
	if err != nil {
		return observed{Kind: "Rejected", Err: err.Error()}
	}
	tx, vals := b.VerifUnsignedTransaction()
	o.Kind = "Tx"
	if len(vals) != len(tx.Inputs) {
		return observed{Kind: "Panic", Err: "builder holds a different number of inputs and input values"}
	}
	for i, in := range tx.Inputs {
		o.Ins = append(o.Ins, [2]int64{int64(e.ops.id(opKey(in.Outpoint.TransactionHash, in.Outpoint.OutputIndex))), vals[i]})
	}
	for _, out := range tx.Outputs {
		o.Outs = append(o.Outs, [2]int64{int64(e.scr.id(out.PublicKeyScript)), out.Value})
	}
	return o
}

func pairsCoq(l [][2]int64) string {
	s := make([]string, len(l))
	for i, p := range l {
		s[i] = lib.Pair(lib.N(uint64(p[0])), lib.Z(p[1]))
	}
	return lib.List(s)
}
func (o observed) coq() string {
	switch o.Kind {
	case "Tx":
		return "(Tx " + pairsCoq(o.Ins) + " " + pairsCoq(o.Outs) + ")"
	case "Rejected":
		return "Rejected"
	}
	return "Panic"
}

func makeDeposit(e *env, d depositIn) *tbtc.Deposit {
	r := lib.NewRng(d.Seed)
	dep := &tbtc.Deposit{Utxo: e.utxo(&d.Utxo)}
	if d.ScriptOK {
		dep.Depositor = chain.Address("0x" + hex.EncodeToString(r.Bytes(20)))
	} else if r.Bool() {
		dep.Depositor = chain.Address("0x" + hex.EncodeToString(r.Bytes(19)))
	} else {
		dep.Depositor = chain.Address("0xzz" + hex.EncodeToString(r.Bytes(19)))
	}
	copy(dep.BlindingFactor[:], r.Bytes(8))
	copy(dep.WalletPublicKeyHash[:], r.Bytes(20))
	copy(dep.RefundPublicKeyHash[:], r.Bytes(20))
	copy(dep.RefundLocktime[:], r.Bytes(4))
	if d.Extra {
		var x [32]byte
		copy(x[:], r.Bytes(32))
		dep.ExtraData = &x
	}
	return dep
}

// ---------------------------------------------------------------- one case

func run(in input, em *lib.Emitter, id string) {
	e := &env{chain: newFakeChain(), ops: newCanon(), scr: newCanon()}
	pk := walletKey(in.KeySeed)
	own := e.scr.id(ownScript(pk))
	var coq string
	var o observed
	sig := map[string]interface{}{"fn": in.Fn, "main": in.Main != nil}
	nIn, nOut := 0, 0
	if in.Main != nil {
		e.serve(in.Main)
	}
	switch in.Fn {
	case "deposit_sweep":
		mainCoq := e.optUtxoCoq(in.Main)
		ds := make([]*tbtc.Deposit, len(in.Deposits))
		dcoq := make([]string, len(in.Deposits))
		for i := range in.Deposits {
			e.serve(&in.Deposits[i].Utxo)
			ds[i] = makeDeposit(e, in.Deposits[i])
			dcoq[i] = fmt.Sprintf("{| d_utxo := %s; d_script_ok := %s |}",
				e.utxoCoq(&in.Deposits[i].Utxo), lib.Bool(in.Deposits[i].ScriptOK))
		}
		o = e.observe(func() (*bitcoin.TransactionBuilder, error) {
			return tbtc.VerifAssembleDepositSweepTransaction(e.chain, pk, e.utxo(in.Main), ds, in.Fee)
		})
		coq = fmt.Sprintf("(CDepositSweep %s %s %s %s %s)", lib.N(own), mainCoq, lib.List(dcoq), lib.Z(in.Fee), o.coq())
		sig["count"] = len(in.Deposits)
	case "redemption":
		mainCoq := e.optUtxoCoq(in.Main)
		reqs := make([]*tbtc.RedemptionRequest, len(in.Requests))
		rcoq := make([]string, len(in.Requests))
		for i, r := range in.Requests {
			script, err := hex.DecodeString(r.Script)
			if err != nil {
				panic(err)
			}
			reqs[i] = &tbtc.RedemptionRequest{
				Redeemer:             chain.Address(fmt.Sprintf("0x%040x", i+1)),
				RedeemerOutputScript: script,
				RequestedAmount:      r.Amount,
				TreasuryFee:          r.Treasury,
				TxMaxFee:             r.Amount,
			}
			rcoq[i] = fmt.Sprintf("{| r_script := %s; r_amount := %s; r_treasury := %s |}",
				lib.N(e.scr.id(script)), lib.ZU(r.Amount), lib.ZU(r.Treasury))
		}
		var dist func([]*tbtc.RedemptionRequest) []int64
		var dcoq string
		if in.Dist == "shares" {
			sh := append([]int64{}, in.Shares...)
			dist = func([]*tbtc.RedemptionRequest) []int64 { return append([]int64{}, sh...) }
			dcoq = "(DShares " + lib.ListZ(in.Shares) + ")"
		} else {
			dist = tbtc.VerifWithRedemptionTotalFee(in.Fee)
			dcoq = "(DTotal " + lib.Z(in.Fee) + ")"
		}
		shape := uint64(0)
		o = e.observe(func() (*bitcoin.TransactionBuilder, error) {
			if in.Shape < 0 {
				return tbtc.VerifAssembleRedemptionTransaction(e.chain, pk, e.utxo(in.Main), reqs, dist)
			}
			return tbtc.VerifAssembleRedemptionTransaction(e.chain, pk, e.utxo(in.Main), reqs, dist,
				tbtc.RedemptionTransactionShape(in.Shape))
		})
		if in.Shape >= 0 {
			shape = uint64(uint8(in.Shape))
		}
		coq = fmt.Sprintf("(CRedemption %s %s %s %s %s %s)", lib.N(own), mainCoq, lib.List(rcoq), dcoq, lib.N(shape), o.coq())
		sig["count"] = len(in.Requests)
		sig["dist"] = in.Dist
		sig["change"] = o.Kind == "Tx" && len(o.Outs) == len(in.Requests)+1
	case "moving_funds":
		mainCoq := e.optUtxoCoq(in.Main)
		targets := make([][20]byte, len(in.Targets))
		tids := make([]uint64, len(in.Targets))
		for i, t := range in.Targets {
			b, err := hex.DecodeString(t)
			if err != nil || len(b) != 20 {
				panic("bad target")
			}
			copy(targets[i][:], b)
			tids[i] = e.scr.id(p2wpkh(b))
		}
		o = e.observe(func() (*bitcoin.TransactionBuilder, error) {
			return tbtc.VerifAssembleMovingFundsTransaction(e.chain, e.utxo(in.Main), targets, in.Fee)
		})
		coq = fmt.Sprintf("(CMovingFunds %s %s %s %s)", mainCoq, lib.ListN(tids), lib.Z(in.Fee), o.coq())
		sig["count"] = len(in.Targets)
	case "moved_funds_sweep":
		var mcoq string
		var direct *bitcoin.UnspentTransactionOutput
		switch in.MovedKind {
		case "nil":
			mcoq = "MNil"
		case "chain":
			e.serve(in.Moved)
			mcoq = fmt.Sprintf("(MChain %s %s)", lib.N(e.ops.id(opKey(mustHash(in.Moved.Hash), in.Moved.Index))), centryCoq(in.Moved))
		default:
			e.serve(in.Moved)
			mcoq = "(MDirect " + e.utxoCoq(in.Moved) + ")"
			direct = e.utxo(in.Moved)
		}
		mainCoq := e.optUtxoCoq(in.Main)
		o = e.observe(func() (*bitcoin.TransactionBuilder, error) {
			moved := direct
			if in.MovedKind == "chain" {
				u, err := tbtc.VerifAssembleMovedFundsSweepUtxo(e.chain, mustHash(in.Moved.Hash), in.Moved.Index)
				if err != nil {
					return nil, err
				}
				moved = u
			}
			return tbtc.VerifAssembleMovedFundsSweepTransaction(e.chain, pk, moved, e.utxo(in.Main), in.Fee)
		})
		coq = fmt.Sprintf("(CMovedFundsSweep %s %s %s %s %s)", lib.N(own), mcoq, mainCoq, lib.Z(in.Fee), o.coq())
		sig["moved"] = in.MovedKind
	case "fee_shares":
		res := "None"
		func() {
			defer func() {
				if r := recover(); r != nil {
					o = observed{Kind: "Panic", Err: fmt.Sprintf("%v", r)}
				}
			}()
			reqs := make([]*tbtc.RedemptionRequest, in.N)
			for i := range reqs {
				reqs[i] = &tbtc.RedemptionRequest{}
			}
			sh := tbtc.VerifWithRedemptionTotalFee(in.Fee)(reqs)
			res = lib.Some(lib.ListZ(sh))
			o = observed{Kind: "Shares"}
			for _, s := range sh {
				o.Outs = append(o.Outs, [2]int64{0, s})
			}
		}()
		coq = fmt.Sprintf("(CFeeShares %s %s %s)", lib.Z(in.Fee), lib.Nat(in.N), res)
		sig["count"] = in.N
	default:
		panic("unknown fn " + in.Fn)
	}
	nIn, nOut = len(o.Ins), len(o.Outs)
	sig["result"] = o.Kind
	em.Tally(in.Fn + "-" + o.Kind)
	if o.Kind == "Tx" {
		em.Tally(fmt.Sprintf("%s-inputs-%02d", in.Fn, nIn))
		em.Tally(fmt.Sprintf("%s-outputs-%02d", in.Fn, nOut))
	}
	em.Case(lib.Case{
		ID:         id,
		Coq:        coq,
		Key:        coq,
		Nontrivial: (o.Kind == "Tx" && (nIn >= 2 || nOut >= 2)) || (o.Kind == "Shares" && nOut >= 2),
		Sig:        sig,
		In:         in,
		Out:        o,
	})
}

// ---------------------------------------------------------------- generators

const maxI64 = int64(^uint64(0) >> 1)
const minI64 = -maxI64 - 1

func hashHex(r *lib.Rng) string { return hex.EncodeToString(r.Bytes(32)) }

// amount: a satoshi amount with the usual magnitudes
func amount(r *lib.Rng) int64 {
	switch r.Intn(8) {
	case 0:
		return int64(r.Intn(20))
	case 1:
		return int64(r.Range(500, 3000))
	case 2:
		return int64(r.Range(100000, 100000000))
	case 3:
		return int64(r.Range(1, 2100)) * 100000000
	case 4:
		return int64(r.Range(1, 21000000)) * 100000000
	default:
		return int64(r.Range(10000, 50000000))
	}
}

func goodUtxo(r *lib.Rng, class string, v int64) utxoIn {
	return utxoIn{Hash: hashHex(r), Index: uint32(r.Intn(4)), Value: v, Chain: class, Actual: v}
}
func pkhClass(r *lib.Rng) string {
	if r.Chance(1, 3) {
		return "p2pkh"
	}
	return "p2wpkh"
}
func shClass(r *lib.Rng) string {
	if r.Chance(1, 3) {
		return "p2sh"
	}
	return "p2wsh"
}

// spoil makes a UTXO the chain does not confirm in some way
func spoil(r *lib.Rng, u utxoIn, right string) utxoIn {
	switch r.Intn(6) {
	case 0:
		u.Chain = "missing"
	case 1:
		// its own transaction: a sibling outpoint with a higher index would make the fake chain
		// re-create this output (as a filler) and the case would contradict its own description
		u.Chain = "nooutput"
		u.Hash = hashHex(r)
	case 2:
		u.Chain = "other"
	case 3:
		if right == "pkh" {
			u.Chain = shClass(r)
		} else {
			u.Chain = pkhClass(r)
		}
	case 4:
		u.Actual = u.Value + int64(r.Range(1, 1000))
	default:
		u.Actual = u.Value - int64(r.Range(1, 1000))
	}
	return u
}

// feeAround: fees around the boundaries of [0, total]
func feeAround(r *lib.Rng, total int64) int64 {
	switch r.Intn(12) {
	case 0:
		return 0
	case 1:
		return total
	case 2:
		return total - 1
	case 3:
		return total + 1
	case 4:
		return -int64(r.Range(1, 1000))
	case 5:
		return maxI64
	case 6:
		return minI64
	case 7:
		return total + int64(r.Range(2, 100000))
	case 8:
		return 1
	default:
		if total <= 0 {
			return int64(r.Intn(5))
		}
		m := total
		if r.Bool() && m > 100000 {
			m = 100000
		}
		return int64(r.U64() % uint64(m))
	}
}

func redeemerScript(r *lib.Rng) string {
	classes := []string{"p2pkh", "p2wpkh", "p2sh", "p2wsh"}
	return hex.EncodeToString(scriptOfClass(classes[r.Intn(4)], r.Bytes(8)))
}

func genDepositSweep(r *lib.Rng, malformed bool) input {
	in := input{Fn: "deposit_sweep", KeySeed: uint64(r.Intn(5)), Shape: -1}
	n := r.Range(1, 20)
	if r.Chance(1, 2) {
		n = r.Range(1, 4)
	}
	var total int64
	if r.Chance(3, 5) {
		u := goodUtxo(r, pkhClass(r), amount(r))
		in.Main = &u
		total += u.Value
	}
	for i := 0; i < n; i++ {
		v := amount(r)
		d := depositIn{Utxo: goodUtxo(r, shClass(r), v), ScriptOK: true, Seed: r.U64(), Extra: r.Chance(1, 3)}
		if i > 0 && r.Chance(1, 6) { // several deposits funded by the same transaction
			d.Utxo.Hash = in.Deposits[i-1].Utxo.Hash
			d.Utxo.Index = in.Deposits[i-1].Utxo.Index + 1 + uint32(r.Intn(2))
		}
		total += v
		in.Deposits = append(in.Deposits, d)
	}
	in.Fee = feeAround(r, total)
	if malformed {
		switch r.Intn(5) {
		case 0:
			in.Deposits = nil
		case 1:
			if in.Main != nil {
				u := spoil(r, *in.Main, "pkh")
				in.Main = &u
			} else {
				i := r.Intn(len(in.Deposits))
				in.Deposits[i].Utxo = spoil(r, in.Deposits[i].Utxo, "sh")
			}
		case 2:
			i := r.Intn(len(in.Deposits))
			in.Deposits[i].ScriptOK = false
		case 3:
			i := r.Intn(len(in.Deposits))
			in.Deposits[i].Utxo.Value = []int64{maxI64, maxI64 / 2, -5, minI64}[r.Intn(4)]
			in.Deposits[i].Utxo.Actual = in.Deposits[i].Utxo.Value
		default:
			for k := 0; k < 2; k++ {
				i := r.Intn(len(in.Deposits))
				in.Deposits[i].Utxo = spoil(r, in.Deposits[i].Utxo, "sh")
				if r.Bool() {
					in.Deposits[r.Intn(len(in.Deposits))].ScriptOK = false
				}
			}
		}
	}
	return in
}

func genRedemption(r *lib.Rng, malformed bool) input {
	in := input{Fn: "redemption", KeySeed: uint64(r.Intn(5)), Shape: []int{-1, 0, 1}[r.Intn(3)], Dist: "total"}
	n := r.Range(1, 20)
	if r.Chance(1, 2) {
		n = r.Range(1, 4)
	}
	var sumRedeemable int64
	minRedeemable := maxI64
	for i := 0; i < n; i++ {
		a := amount(r) + 1
		t := int64(0)
		switch r.Intn(4) {
		case 0:
			t = 0
		case 1:
			t = a / 2000
		case 2:
			t = a
		default:
			t = int64(r.U64() % uint64(a+1))
		}
		in.Requests = append(in.Requests, requestIn{Script: redeemerScript(r), Amount: uint64(a), Treasury: uint64(t)})
		sumRedeemable += a - t
		if a-t < minRedeemable {
			minRedeemable = a - t
		}
	}
	if n > 1 && r.Chance(1, 5) { // two requests paying the same script
		in.Requests[n-1].Script = in.Requests[0].Script
	}
	// main UTXO value around the solvency boundary
	mv := sumRedeemable
	switch r.Intn(6) {
	case 0: // exactly solvent: no change
	case 1:
		mv++
	case 2:
		mv--
	case 3:
		mv += amount(r)
	case 4:
		mv += int64(r.Range(1, 3000))
	default:
		mv += amount(r)
	}
	u := goodUtxo(r, pkhClass(r), mv)
	in.Main = &u
	// total fee around n * (smallest redeemable amount)
	switch r.Intn(8) {
	case 0:
		in.Fee = 0
	case 1:
		in.Fee = minRedeemable * int64(n)
	case 2:
		in.Fee = minRedeemable*int64(n) + int64(r.Intn(n+1))
	case 3:
		in.Fee = minRedeemable*int64(n) - int64(r.Intn(n+1))
	case 4:
		in.Fee = int64(r.Range(0, 3*n))
	default:
		if minRedeemable > 0 {
			in.Fee = int64(r.U64() % uint64(minRedeemable*int64(n)))
		}
	}
	if r.Chance(1, 4) {
		in.Dist = "shares"
		for i := 0; i < n; i++ {
			red := int64(in.Requests[i].Amount - in.Requests[i].Treasury)
			in.Shares = append(in.Shares, int64(r.U64()%uint64(red+1)))
		}
	}
	if malformed {
		switch r.Intn(8) {
		case 0:
			in.Main = nil
		case 1:
			in.Requests = nil
		case 2:
			s := spoil(r, *in.Main, "pkh")
			in.Main = &s
		case 3:
			in.Shape = r.Range(2, 255)
		case 4:
			in.Dist = "shares"
			in.Shares = nil
			for i := 0; i < r.Intn(n+3); i++ {
				in.Shares = append(in.Shares, feeAround(r, 1000))
			}
		case 5:
			in.Fee = feeAround(r, sumRedeemable)
		case 6:
			i := r.Intn(n)
			in.Requests[i].Treasury = in.Requests[i].Amount + uint64(r.Range(1, 100)) // treasury fee > amount
			if r.Bool() {
				in.Requests[i].Amount = ^uint64(0) - uint64(r.Intn(3))
				in.Requests[i].Treasury = uint64(r.Intn(3))
			}
		default:
			in.Main.Value = []int64{maxI64, 0, -7, minI64, 1}[r.Intn(5)]
			in.Main.Actual = in.Main.Value
		}
	}
	return in
}

func genMovingFunds(r *lib.Rng, malformed bool) input {
	in := input{Fn: "moving_funds", Shape: -1}
	n := r.Range(1, 20)
	if r.Chance(1, 2) {
		n = r.Range(1, 5)
	}
	for i := 0; i < n; i++ {
		in.Targets = append(in.Targets, hex.EncodeToString(r.Bytes(20)))
	}
	if n > 1 && r.Chance(1, 8) {
		in.Targets[n-1] = in.Targets[0]
	}
	v := amount(r)
	u := goodUtxo(r, pkhClass(r), v)
	in.Main = &u
	in.Fee = feeAround(r, v)
	if r.Chance(1, 3) && v > int64(n) { // force a chosen remainder
		in.Fee = (v % int64(n)) + int64(n)*int64(r.Intn(3)) - int64(r.Intn(n))
		if in.Fee < 0 {
			in.Fee = 0
		}
	}
	if malformed {
		switch r.Intn(4) {
		case 0:
			in.Main = nil
		case 1:
			in.Targets = nil
		case 2:
			s := spoil(r, *in.Main, "pkh")
			in.Main = &s
		default:
			in.Main.Value = []int64{maxI64, 0, -7, minI64, 1}[r.Intn(5)]
			in.Main.Actual = in.Main.Value
		}
	}
	return in
}

func genMovedFundsSweep(r *lib.Rng, malformed bool) input {
	in := input{Fn: "moved_funds_sweep", KeySeed: uint64(r.Intn(5)), Shape: -1, MovedKind: "chain"}
	if r.Chance(1, 3) {
		in.MovedKind = "direct"
	}
	v := amount(r)
	m := goodUtxo(r, pkhClass(r), v)
	in.Moved = &m
	total := v
	if r.Bool() {
		u := goodUtxo(r, pkhClass(r), amount(r))
		in.Main = &u
		total += u.Value
	}
	in.Fee = feeAround(r, total)
	if malformed {
		switch r.Intn(4) {
		case 0:
			in.MovedKind = "nil"
			in.Moved = nil
		case 1:
			s := spoil(r, *in.Moved, "pkh")
			in.Moved = &s
		case 2:
			if in.Main != nil {
				s := spoil(r, *in.Main, "pkh")
				in.Main = &s
			} else {
				s := spoil(r, *in.Moved, "pkh")
				in.Moved = &s
			}
		default:
			in.Moved.Value = []int64{maxI64, 0, -7, minI64, 1}[r.Intn(5)]
			in.Moved.Actual = in.Moved.Value
		}
	}
	return in
}

func h32(b byte) string { return strings.Repeat(fmt.Sprintf("%02x", b), 32) }
func h20(b byte) string { return strings.Repeat(fmt.Sprintf("%02x", b), 20) }

func main() {
	o := lib.ParseOpts()
	em := lib.NewEmitter()
	if o.Replay != "" {
		var in input
		if err := lib.LoadReplay(o.Replay, &in); err != nil {
			fmt.Fprintln(os.Stderr, err)
			os.Exit(2)
		}
		run(in, em, "replay")
		em.Close("replay", nil)
		return
	}
	rng := lib.NewRng(o.Seed)

	// --- corpus: the witnesses of the *_refuted theorems and the shapes of every function
	{
		scriptA := hex.EncodeToString(scriptOfClass("p2wpkh", []byte("a")))
		scriptB := hex.EncodeToString(scriptOfClass("p2pkh", []byte("b")))
		scriptC := hex.EncodeToString(scriptOfClass("p2wsh", []byte("c")))
		main100 := func(v int64) *utxoIn { return &utxoIn{Hash: h32(0xaa), Index: 1, Value: v, Chain: "p2wpkh", Actual: v} }
		dep := func(b byte, v int64) depositIn {
			return depositIn{Utxo: utxoIn{Hash: h32(b), Index: 0, Value: v, Chain: "p2wsh", Actual: v}, ScriptOK: true, Seed: uint64(b)}
		}
		// redemption: insolvent wallet (main 100 < redeemable 200): inputs - outputs <> fee
		run(input{Fn: "redemption", Main: main100(100), Requests: []requestIn{{scriptA, 200, 0}}, Dist: "total", Fee: 10, Shape: -1}, em, "corpus-redemption-insolvent")
		run(input{Fn: "redemption", Main: main100(1000), Requests: []requestIn{{scriptA, 200, 10}, {scriptB, 300, 0}, {scriptC, 50, 5}}, Dist: "total", Fee: 20, Shape: 0}, em, "corpus-redemption-change-first")
		run(input{Fn: "redemption", Main: main100(1000), Requests: []requestIn{{scriptA, 200, 10}, {scriptB, 300, 0}, {scriptC, 50, 5}}, Dist: "total", Fee: 20, Shape: 1}, em, "corpus-redemption-change-last")
		run(input{Fn: "redemption", Main: main100(535), Requests: []requestIn{{scriptA, 200, 10}, {scriptB, 300, 0}, {scriptC, 50, 5}}, Dist: "total", Fee: 20, Shape: -1}, em, "corpus-redemption-no-change")
		run(input{Fn: "redemption", Main: main100(1000), Requests: []requestIn{{scriptA, 200, 10}, {scriptB, 300, 0}}, Dist: "shares", Shares: []int64{7}, Shape: 0}, em, "corpus-redemption-short-shares")
		run(input{Fn: "redemption", Main: main100(1000), Requests: []requestIn{{scriptA, 200, 10}}, Dist: "total", Fee: 5, Shape: 7}, em, "corpus-redemption-unknown-shape")
		run(input{Fn: "redemption", Main: main100(1000), Requests: []requestIn{{scriptA, 5, 10}}, Dist: "total", Fee: 1, Shape: 0}, em, "corpus-redemption-treasury-above-amount")
		// moving funds: fee above the value: negative remainder on the last output
		run(input{Fn: "moving_funds", Main: main100(10), Targets: []string{h20(1), h20(2), h20(3)}, Fee: 15, Shape: -1}, em, "corpus-moving-funds-fee-above-value")
		run(input{Fn: "moving_funds", Main: main100(1000), Targets: []string{h20(1), h20(2), h20(3)}, Fee: 10, Shape: -1}, em, "corpus-moving-funds-even")
		run(input{Fn: "moving_funds", Main: main100(1001), Targets: []string{h20(1), h20(2), h20(3)}, Fee: 10, Shape: -1}, em, "corpus-moving-funds-remainder")
		// sweeps
		run(input{Fn: "deposit_sweep", Main: main100(500), Deposits: []depositIn{dep(1, 100), dep(2, 200)}, Fee: 30, Shape: -1}, em, "corpus-sweep-main")
		run(input{Fn: "deposit_sweep", Deposits: []depositIn{dep(1, 100), dep(2, 200)}, Fee: 30, Shape: -1}, em, "corpus-sweep-no-main")
		run(input{Fn: "deposit_sweep", Deposits: []depositIn{dep(1, 100)}, Fee: 101, Shape: -1}, em, "corpus-sweep-fee-above-value")
		run(input{Fn: "deposit_sweep", Deposits: []depositIn{dep(1, 1)}, Fee: minI64, Shape: -1}, em, "corpus-sweep-int64-wrap")
		claimed := dep(1, 100)
		claimed.Utxo.Actual = 60
		run(input{Fn: "deposit_sweep", Deposits: []depositIn{claimed}, Fee: 10, Shape: -1}, em, "corpus-sweep-claimed-value-not-real")
		run(input{Fn: "moved_funds_sweep", MovedKind: "chain", Moved: main100(700), Main: &utxoIn{Hash: h32(0xbb), Index: 0, Value: 300, Chain: "p2pkh", Actual: 300}, Fee: 25, Shape: -1}, em, "corpus-moved-sweep-main")
		run(input{Fn: "moved_funds_sweep", MovedKind: "chain", Moved: main100(700), Fee: 25, Shape: -1}, em, "corpus-moved-sweep-no-main")
		run(input{Fn: "moved_funds_sweep", MovedKind: "nil", Fee: 25, Shape: -1}, em, "corpus-moved-sweep-nil")
		run(input{Fn: "fee_shares", Fee: 10, N: 3, Shape: -1}, em, "corpus-shares-10-3")
		run(input{Fn: "fee_shares", Fee: -10, N: 3, Shape: -1}, em, "corpus-shares-neg")
		run(input{Fn: "fee_shares", Fee: 10, N: 0, Shape: -1}, em, "corpus-shares-zero-requests")
	}

	// --- small scope, exhaustive: the even split
	for total := int64(-4); total <= 13; total++ {
		for n := 0; n <= 5; n++ {
			if o.Tier == "quick" && (total+int64(n))%2 == 1 && total > 6 {
				continue
			}
			run(input{Fn: "fee_shares", Fee: total, N: n, Shape: -1}, em, fmt.Sprintf("small-shares-%d-%d", total, n))
		}
	}
	for v := int64(0); v <= 7; v++ {
		for fee := int64(0); fee <= v+1; fee++ {
			for n := 1; n <= 4; n++ {
				if o.Tier == "quick" && (v+fee+int64(n))%3 != 0 {
					continue
				}
				var ts []string
				for i := 0; i < n; i++ {
					ts = append(ts, h20(byte(i+1)))
				}
				run(input{Fn: "moving_funds", Main: &utxoIn{Hash: h32(0xaa), Index: 0, Value: v, Chain: "p2wpkh", Actual: v}, Targets: ts, Fee: fee, Shape: -1},
					em, fmt.Sprintf("small-mf-%d-%d-%d", v, fee, n))
			}
		}
	}
	// small scope: redemption, 1..2 requests, main value and fee around the boundaries
	{
		scriptA := hex.EncodeToString(scriptOfClass("p2wpkh", []byte("a")))
		scriptB := hex.EncodeToString(scriptOfClass("p2sh", []byte("b")))
		k := 0
		for mv := int64(8); mv <= 12; mv++ {
			for fee := int64(0); fee <= 5; fee++ {
				for shape := -1; shape <= 1; shape++ {
					k++
					if o.Tier == "quick" && k%3 != 0 {
						continue
					}
					run(input{Fn: "redemption", Main: &utxoIn{Hash: h32(0xaa), Index: 0, Value: mv, Chain: "p2pkh", Actual: mv},
						Requests: []requestIn{{scriptA, 6, 1}, {scriptB, 5, 0}}, Dist: "total", Fee: fee, Shape: shape},
						em, fmt.Sprintf("small-red-%d-%d-%d", mv, fee, shape))
				}
			}
		}
	}

	// --- structured random generation: mostly valid inputs plus a malformed stream
	n := o.Count(450, 6000)
	for i := 0; i < n; i++ {
		r := rng.Fork(fmt.Sprintf("case%d", i))
		malformed := r.Chance(1, 5)
		var in input
		switch i % 4 {
		case 0:
			in = genDepositSweep(r, malformed)
		case 1:
			in = genRedemption(r, malformed)
		case 2:
			in = genMovingFunds(r, malformed)
		default:
			in = genMovedFundsSweep(r, malformed)
		}
		run(in, em, fmt.Sprintf("rand-%d", i))
		if i%10 == 0 {
			total := feeAround(r, amount(r))
			run(input{Fn: "fee_shares", Fee: total, N: r.Range(0, 20), Shape: -1}, em, fmt.Sprintf("rand-shares-%d", i))
		}
	}
	em.Close("a case is one call of an assembly function (or of the fee distribution) with its chain; distinct by the "+
		"canonical Coq term; non-trivial when a transaction with >= 2 inputs or >= 2 outputs was assembled "+
		"(>= 2 fee shares for the fee distribution)", nil)
}
