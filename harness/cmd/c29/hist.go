// Call histories for C29: "results are values".  One caller with long-lived objects (ONE
// Transaction it keeps refilling and serialising, ONE Transaction and ONE BlockHeader it keeps
// deserialising into, ONE byte buffer it keeps reusing for raw arguments) makes 2..6 calls of
// the property's functions and KEEPS every result.  After each call the caller overwrites its
// argument slices.  After the last call, a burst of further calls and forced collections, every
// kept result is read again: it must be what it was right after its call (a rendering taken at
// that moment) and what the model says the call returns.
package main

import (
	"bytes"
	"encoding/hex"
	"fmt"
	"runtime"
	"strings"

	"github.com/keep-network/keep-core/pkg/bitcoin"

	"verifharness/lib"
)

// hop is one call of a history (replayable).
type hop struct {
	// ser-std ser-wit version inputs outputs locktime hash whash   (on the long-lived Transaction)
	// deser tovarlen fromvarlen csw hdrser hdrdeser hex newhash newhashstr
	Op string `json:"op"`
	// transaction calls: the transaction the caller fills in; nil = the long-lived object as
	// the earlier calls and the caller's own overwriting left it
	Tx    *jTx   `json:"tx,omitempty"`
	Raw   string `json:"raw,omitempty"` // hex: raw bytes / script / hash
	V     uint64 `json:"v,omitempty"`
	Str   string `json:"str,omitempty"`
	Order int    `json:"order,omitempty"`
	Hdr   *jHdr  `json:"hdr,omitempty"`
	Fresh bool   `json:"fresh,omitempty"` // deser: a new target object instead of the long-lived one
}

// scramble is the caller overwriting a buffer it owns (not an involution: a buffer overwritten
// twice does not come back to its first content).
func scramble(b []byte) {
	for i := range b {
		b[i] += 0x5b
	}
}

// scrambleTx is the caller overwriting everything it owns in its transaction object.
func scrambleTx(t *bitcoin.Transaction) {
	for _, in := range t.Inputs {
		scramble(in.SignatureScript)
		for _, w := range in.Witness {
			scramble(w)
		}
		if in.Outpoint != nil {
			scramble(in.Outpoint.TransactionHash[:])
			in.Outpoint.OutputIndex++
		}
		in.Sequence--
	}
	for _, o := range t.Outputs {
		scramble(o.PublicKeyScript)
		o.Value++
	}
	t.Version++
	t.Locktime++
}

// snapshotTx is a deep copy of the live object in replayable form.
func snapshotTx(t *bitcoin.Transaction) *jTx {
	j := &jTx{Version: t.Version, Locktime: t.Locktime}
	for _, in := range t.Inputs {
		x := jIn{Script: hex.EncodeToString(in.SignatureScript), Seq: in.Sequence}
		if in.Outpoint != nil {
			x.Hash = hex.EncodeToString(in.Outpoint.TransactionHash[:])
			x.Index = in.Outpoint.OutputIndex
		}
		for _, w := range in.Witness {
			x.Witness = append(x.Witness, hex.EncodeToString(w))
		}
		j.Ins = append(j.Ins, x)
	}
	for _, o := range t.Outputs {
		j.Outs = append(j.Outs, jOut{Value: o.Value, Script: hex.EncodeToString(o.PublicKeyScript)})
	}
	return j
}

func oBytes(b []byte) string { return "(OBytes " + chunks(b) + ")" }

type keptResult struct {
	op        string
	call      string        // hcall term: the call with its arguments as they were at call time
	now       string        // ores right after the call
	render    func() string // reads the SAME result object again
	inputKept bool
	inputLate func() bool // arguments the caller did not overwrite: still intact at the end?
}

func coqOrder(o int) string {
	if o == 1 {
		return "ReversedOrder"
	}
	return "InternalOrder"
}

func pad(b []byte, n int) []byte {
	x := make([]byte, n)
	copy(x, b)
	return x
}

// caller is the long-lived object graph of one history.
type caller struct {
	t    *bitcoin.Transaction // filled in and serialised again and again
	tSet bool
	d    *bitcoin.Transaction // Deserialize target
	hd   *bitcoin.BlockHeader
	buf  []byte            // reusable buffer for raw arguments
	sha  map[string]string // preimage hex -> digest hex
	shaK []string
}

func (c *caller) arg(data []byte) []byte {
	c.buf = append(c.buf[:0], data...)
	return c.buf[:len(data)]
}

// burst: further calls after the history, on the same long-lived objects, with inputs of the
// sizes that share small buffers.
func (c *caller) burst() {
	guard(func() {
		for _, n := range []int{0, 1, 22, 25, 34, 62, 63, 64, 65, 252, 253} {
			_, _ = bitcoin.Script(bytes.Repeat([]byte{0xee}, n)).ToVarLenData()
		}
		for _, v := range []uint64{0xee, 0xfc, 0xfd, 0xeeee, 0x10000, 0xeeeeeeeeee} {
			_, _ = bitcoin.VerifWriteCompactSizeUint(v)
		}
		ee := bytes.Repeat([]byte{0xee}, 32)
		j := &jTx{Version: -0x11111112, Locktime: 0xeeeeeeee,
			Ins: []jIn{{Hash: hex.EncodeToString(ee), Index: 0xeeeeeeee, Script: "eeeeee", Witness: []string{"eeee", "ee"}, Seq: 0xeeeeeeee},
				{Hash: hex.EncodeToString(ee), Index: 0xeeeeeeee, Script: strings.Repeat("ee", 40), Seq: 0xeeeeeeee}},
			Outs: []jOut{{Value: -0x1111111111111112, Script: strings.Repeat("ee", 25)}, {Value: 1, Script: "ee"}}}
		f := j.toTx()
		c.t.Version, c.t.Inputs, c.t.Outputs, c.t.Locktime = f.Version, f.Inputs, f.Outputs, f.Locktime
		w := c.t.Serialize()
		s := c.t.Serialize(bitcoin.Standard)
		_ = c.t.SerializeInputs()
		_ = c.t.SerializeOutputs()
		_ = c.t.Hash()
		_ = c.t.WitnessHash()
		_ = c.d.Deserialize(c.arg(w))
		scramble(c.buf)
		_ = c.d.Deserialize(c.arg(s))
		scramble(c.buf)
		var arr [80]byte
		copy(arr[:], bytes.Repeat([]byte{0xee}, 80))
		c.hd.Deserialize(arr)
		_ = c.hd.Serialize()
		var h bitcoin.Hash
		copy(h[:], ee)
		_ = h.Hex(bitcoin.ReversedByteOrder)
		_, _ = bitcoin.NewHash(c.arg(ee), bitcoin.ReversedByteOrder)
		_, _ = bitcoin.NewScriptFromVarLenData(c.arg(append([]byte{32}, ee...)))
		scramble(c.buf)
	})
}

func (c *caller) call(op hop) keptResult {
	k := keptResult{op: op.Op, inputKept: true}
	switch op.Op {
	case "ser-std", "ser-wit", "version", "inputs", "outputs", "locktime", "hash", "whash":
		if op.Tx != nil || !c.tSet {
			j := op.Tx
			if j == nil {
				j = &jTx{}
			}
			f := j.toTx()
			c.t.Version, c.t.Inputs, c.t.Outputs, c.t.Locktime = f.Version, f.Inputs, f.Outputs, f.Locktime
			c.tSet = true
		}
		t := c.t
		snap := snapshotTx(t)
		before := renderTx(t)
		var res []byte
		var arr4 [4]byte
		var arr32 bitcoin.Hash
		kind := 0 // 0 slice, 1 [4]byte, 2 hash
		var panicked bool
		switch op.Op {
		case "ser-std":
			k.call = "(HSerialize Standard " + before + ")"
			panicked = guard(func() { res = t.Serialize(bitcoin.Standard) })
		case "ser-wit":
			k.call = "(HSerialize Witness " + before + ")"
			panicked = guard(func() { res = t.Serialize() })
		case "version":
			k.call = "(HPart PVersion " + before + ")"
			kind = 1
			panicked = guard(func() { arr4 = t.SerializeVersion() })
		case "locktime":
			k.call = "(HPart PLocktime " + before + ")"
			kind = 1
			panicked = guard(func() { arr4 = t.SerializeLocktime() })
		case "inputs":
			k.call = "(HPart PInputs " + before + ")"
			panicked = guard(func() { res = t.SerializeInputs() })
		case "outputs":
			k.call = "(HPart POutputs " + before + ")"
			panicked = guard(func() { res = t.SerializeOutputs() })
		case "hash", "whash":
			kind = 2
			std := op.Op == "hash"
			if std {
				k.call = "(HTxHash Standard " + before + ")"
				panicked = guard(func() { arr32 = t.Hash() })
			} else {
				k.call = "(HTxHash Witness " + before + ")"
				panicked = guard(func() { arr32 = t.WitnessHash() })
			}
			// double SHA-256 table: Go's crypto/sha256 on the serialisation of a FRESH copy
			guard(func() {
				pre := serializeOf(snap, !std)
				key := hex.EncodeToString(pre)
				if _, ok := c.sha[key]; !ok {
					d := sha256d(pre)
					c.sha[key] = hex.EncodeToString(d[:])
					c.shaK = append(c.shaK, key)
				}
			})
		}
		k.inputKept = renderTx(t) == before
		switch {
		case panicked:
			k.render = func() string { return "OPanicked" }
		case kind == 0:
			k.render = func() string { return oBytes(res) }
		case kind == 1:
			k.render = func() string { return oBytes(arr4[:]) }
		default:
			k.render = func() string { return oBytes(arr32[:]) }
		}
		k.now = k.render()
		scrambleTx(t)
	case "deser":
		data := unhex(op.Raw)
		arg := c.arg(data)
		k.call = "(HDeserialize " + chunks(data) + ")"
		target := c.d
		if op.Fresh {
			target = &bitcoin.Transaction{}
		}
		var err error
		panicked := guard(func() { err = target.Deserialize(arg) })
		k.inputKept = bytes.Equal(arg, data)
		switch {
		case panicked:
			k.render = func() string { return "OPanicked" }
		case err != nil:
			k.render = func() string { return "OErr" }
		default:
			// what the caller takes away: the fields (slice headers), not the target object
			got := *target
			k.render = func() string { return "(OTx " + renderTx(&got) + ")" }
		}
		k.now = k.render()
		scramble(arg)
	case "tovarlen":
		data := unhex(op.Raw)
		arg := c.arg(data)
		k.call = "(HToVarLen " + chunks(data) + ")"
		var res []byte
		var err error
		panicked := guard(func() { res, err = bitcoin.Script(arg).ToVarLenData() })
		k.inputKept = bytes.Equal(arg, data)
		switch {
		case panicked:
			k.render = func() string { return "OPanicked" }
		case err != nil:
			k.render = func() string { return "OErr" }
		default:
			k.render = func() string { return oBytes(res) }
		}
		k.now = k.render()
		scramble(arg)
	case "fromvarlen":
		// the script returned IS a window of the argument (script.go), so this argument is the
		// caller's to keep: its own slice, not overwritten, checked again at the end
		data := unhex(op.Raw)
		own := append([]byte{}, data...)
		k.call = "(HFromVarLen " + chunks(data) + ")"
		var res bitcoin.Script
		var err error
		panicked := guard(func() { res, err = bitcoin.NewScriptFromVarLenData(own) })
		k.inputKept = bytes.Equal(own, data)
		k.inputLate = func() bool { return bytes.Equal(own, data) }
		switch {
		case panicked:
			k.render = func() string { return "OPanicked" }
		case err != nil:
			k.render = func() string { return "OErr" }
		default:
			k.render = func() string { return oBytes(res) }
		}
		k.now = k.render()
	case "csw":
		k.call = fmt.Sprintf("(HWriteCompact %d)", op.V)
		var res []byte
		var err error
		panicked := guard(func() { res, err = bitcoin.VerifWriteCompactSizeUint(op.V) })
		switch {
		case panicked:
			k.render = func() string { return "OPanicked" }
		case err != nil:
			k.render = func() string { return "OErr" }
		default:
			k.render = func() string { return oBytes(res) }
		}
		k.now = k.render()
	case "hdrser":
		hd := c.hd
		hd.Version, hd.Time, hd.Bits, hd.Nonce = op.Hdr.Version, op.Hdr.Time, op.Hdr.Bits, op.Hdr.Nonce
		copy(hd.PreviousBlockHeaderHash[:], pad(unhex(op.Hdr.Prev), 32))
		copy(hd.MerkleRootHash[:], pad(unhex(op.Hdr.Merkle), 32))
		before := *hd
		k.call = "(HHdrSerialize " + renderHdr(hd) + ")"
		var ser [80]byte
		panicked := guard(func() { ser = hd.Serialize() })
		k.inputKept = *hd == before
		if panicked {
			k.render = func() string { return "OPanicked" }
		} else {
			k.render = func() string { return oBytes(ser[:]) }
		}
		k.now = k.render()
		scramble(hd.PreviousBlockHeaderHash[:])
		scramble(hd.MerkleRootHash[:])
		hd.Version++
		hd.Nonce++
	case "hdrdeser":
		var arr [80]byte
		copy(arr[:], unhex(op.Raw))
		k.call = "(HHdrDeserialize " + chunks(arr[:]) + ")"
		panicked := guard(func() { c.hd.Deserialize(arr) })
		if panicked {
			k.render = func() string { return "OPanicked" }
		} else {
			got := *c.hd
			k.render = func() string { return "(OHdr " + renderHdr(&got) + ")" }
		}
		k.now = k.render()
	case "hex":
		var h bitcoin.Hash
		copy(h[:], unhex(op.Raw))
		before := h
		k.call = "(HHashHex " + chunks(h[:]) + " " + coqOrder(op.Order) + ")"
		var s string
		panicked := guard(func() { s = h.Hex(bitcoin.ByteOrder(op.Order)) })
		k.inputKept = h == before
		if panicked {
			k.render = func() string { return "OPanicked" }
		} else {
			k.render = func() string { return oBytes([]byte(s)) }
		}
		k.now = k.render()
		scramble(h[:])
	case "newhash":
		data := unhex(op.Raw)
		arg := c.arg(data)
		k.call = "(HNewHash " + chunks(data) + " " + coqOrder(op.Order) + ")"
		var h bitcoin.Hash
		var err error
		panicked := guard(func() { h, err = bitcoin.NewHash(arg, bitcoin.ByteOrder(op.Order)) })
		k.inputKept = bytes.Equal(arg, data)
		switch {
		case panicked:
			k.render = func() string { return "OPanicked" }
		case err != nil:
			k.render = func() string { return "OErr" }
		default:
			k.render = func() string { return oBytes(h[:]) }
		}
		k.now = k.render()
		scramble(arg)
	case "newhashstr":
		k.call = "(HNewHashStr " + chunks([]byte(op.Str)) + " " + coqOrder(op.Order) + ")"
		var h bitcoin.Hash
		var err error
		panicked := guard(func() { h, err = bitcoin.NewHashFromString(op.Str, bitcoin.ByteOrder(op.Order)) })
		switch {
		case panicked:
			k.render = func() string { return "OPanicked" }
		case err != nil:
			k.render = func() string { return "OErr" }
		default:
			k.render = func() string { return oBytes(h[:]) }
		}
		k.now = k.render()
	default:
		panic("unknown history op " + op.Op)
	}
	return k
}

// runHist runs one history and returns the Coq case term and the readable observable.
func runHist(ops []hop, em *lib.Emitter) (string, interface{}) {
	c := &caller{t: &bitcoin.Transaction{}, d: &bitcoin.Transaction{}, hd: &bitcoin.BlockHeader{},
		buf: make([]byte, 0, 96), sha: map[string]string{}}
	kept := make([]keptResult, 0, len(ops))
	for _, op := range ops {
		kept = append(kept, c.call(op))
		em.Tally("hist-op-" + op.Op)
	}
	// pooled scratch space survives one collection (victim cache) and is dropped by the second
	c.burst()
	runtime.GC()
	c.burst()
	if len(ops)%3 == 0 {
		runtime.GC()
		runtime.GC()
		c.burst()
	}

	entries := make([]string, len(kept))
	outs := make([]map[string]interface{}, len(kept))
	for i, k := range kept {
		late := k.render()
		inputKept := k.inputKept
		if k.inputLate != nil && !k.inputLate() {
			inputKept = false
		}
		entries[i] = fmt.Sprintf("{| he_call := %s; he_now := %s; he_late := %s; he_input_kept := %s |}",
			k.call, k.now, late, lib.Bool(inputKept))
		o := map[string]interface{}{"op": k.op, "stable": late == k.now, "input_kept": inputKept}
		if late != k.now {
			o["now"], o["late"] = k.now, late
		}
		outs[i] = o
	}
	tbl := make([]string, len(c.shaK))
	for i, key := range c.shaK {
		tbl[i] = "(" + chunks(unhex(key)) + ", " + chunks(unhex(c.sha[key])) + ")"
	}
	return "(CHist " + lib.List(tbl) + " " + lib.List(entries) + ")", outs
}

// ---------------------------------------------------------------- history generation

var histOps = []string{"ser-std", "ser-wit", "version", "inputs", "outputs", "locktime", "hash", "whash",
	"deser", "tovarlen", "fromvarlen", "csw", "hdrser", "hdrdeser", "hex", "newhash", "newhashstr"}

// ops whose results come out of small shared scratch space in a careless implementation
var smallBufOps = []string{"tovarlen", "csw", "tovarlen", "fromvarlen", "inputs", "outputs", "ser-std", "ser-wit", "tovarlen"}

// ops that read caller-owned bytes into results the caller keeps
var decoderOps = []string{"deser", "deser", "deser", "fromvarlen", "hdrdeser", "newhash", "newhashstr"}

// histLen: sizes that share small buffers (<= 64 with the one-byte prefix), the 252/253
// prefix boundary, a few beyond.
func histLen(r *lib.Rng) int {
	switch r.Intn(20) {
	case 0, 1, 2, 3, 4:
		return []int{0, 1, 20, 22, 23, 25, 32, 34, 35, 62, 63}[r.Intn(11)]
	case 5, 6, 7, 8, 9, 10, 11:
		return r.Range(0, 63)
	case 12, 13, 14:
		return r.Range(63, 66)
	case 15, 16, 17, 18:
		return r.Range(251, 254)
	default:
		return r.Range(255, 300)
	}
}

func histTx(r *lib.Rng) *jTx {
	nIn := r.Range(1, 3)
	if r.Chance(1, 12) {
		nIn = 0
	}
	t := genTx(r, nIn, r.Range(0, 3), r.Intn(3))
	for i := range t.Ins {
		if len(t.Ins[i].Witness) > 4 {
			t.Ins[i].Witness = t.Ins[i].Witness[:4]
		}
		if r.Bool() {
			t.Ins[i].Script = hex.EncodeToString(blob(r, histLen(r)))
		}
		for k := range t.Ins[i].Witness {
			if r.Chance(1, 3) {
				t.Ins[i].Witness[k] = hex.EncodeToString(blob(r, histLen(r)))
			}
		}
	}
	for i := range t.Outs {
		if r.Bool() {
			t.Outs[i].Script = hex.EncodeToString(blob(r, histLen(r)))
		}
	}
	return t
}

func genHop(r *lib.Rng, op string, haveTx bool) hop {
	h := hop{Op: op}
	switch op {
	case "ser-std", "ser-wit", "version", "inputs", "outputs", "locktime", "hash", "whash":
		// half of the time the caller goes on with the object it has (overwritten since)
		if !haveTx || r.Bool() {
			h.Tx = histTx(r)
		}
	case "deser":
		raw := serializeOf(histTx(r), r.Bool())
		if r.Chance(1, 6) {
			raw, _ = mutate(r, raw)
		}
		h.Raw = hex.EncodeToString(raw)
		h.Fresh = r.Chance(1, 3)
	case "tovarlen":
		h.Raw = hex.EncodeToString(blob(r, histLen(r)))
	case "fromvarlen":
		s := blob(r, histLen(r))
		v := append(le(1, uint64(len(s))), s...)
		if len(s) >= 253 {
			v = append(append([]byte{0xfd}, le(2, uint64(len(s)))...), s...)
		}
		switch r.Intn(8) {
		case 0:
			v = append(v, byte(r.Intn(256)))
		case 1:
			if len(v) > 0 {
				v = v[:len(v)-1]
			}
		}
		h.Raw = hex.EncodeToString(v)
	case "csw":
		switch r.Intn(5) {
		case 0:
			h.V = uint64(r.Intn(253))
		case 1:
			h.V = []uint64{252, 253, 254, 0xffff, 0x10000, 0xffffffff, 0x100000000, ^uint64(0)}[r.Intn(8)]
		default:
			h.V = r.U64() >> uint(r.Intn(64))
		}
	case "hdrser":
		h.Hdr = &jHdr{Version: int32(r.U64()), Prev: hex.EncodeToString(r.Bytes(32)), Merkle: hex.EncodeToString(r.Bytes(32)),
			Time: uint32(r.U64()), Bits: uint32(r.U64()), Nonce: uint32(r.U64())}
	case "hdrdeser":
		h.Raw = hex.EncodeToString(r.Bytes(80))
	case "hex":
		h.Raw = hex.EncodeToString(r.Bytes(32))
		h.Order = r.Intn(2)
	case "newhash":
		n := 32
		if r.Chance(1, 8) {
			n = []int{0, 31, 33, 64}[r.Intn(4)]
		}
		h.Raw = hex.EncodeToString(r.Bytes(n))
		h.Order = r.Intn(2)
	case "newhashstr":
		h.Str = hexStr(r, r.Bytes(32))
		if r.Chance(1, 8) {
			h.Str = h.Str[:r.Intn(64)]
		}
		h.Order = r.Intn(2)
	}
	return h
}

func isTxOp(op string) bool {
	switch op {
	case "ser-std", "ser-wit", "version", "inputs", "outputs", "locktime", "hash", "whash":
		return true
	}
	return false
}

func genHist(r *lib.Rng) ([]hop, string) {
	n := r.Range(2, 6)
	ops := make([]hop, 0, n)
	mode := []string{"same", "mixed", "small-buffers", "small-buffers", "decoders", "one-transaction"}[r.Intn(6)]
	same := histOps[r.Intn(len(histOps))]
	haveTx := false
	for i := 0; i < n; i++ {
		op := same
		switch mode {
		case "mixed":
			op = histOps[r.Intn(len(histOps))]
		case "small-buffers":
			op = smallBufOps[r.Intn(len(smallBufOps))]
		case "decoders":
			op = decoderOps[r.Intn(len(decoderOps))]
		case "one-transaction":
			op = histOps[r.Intn(8)]
		}
		ops = append(ops, genHop(r, op, haveTx))
		if isTxOp(op) {
			haveTx = true
		}
	}
	return ops, mode
}

// corpusHists: fixed regression histories.
type namedHist struct {
	name string
	ops  []hop
}

func corpusHists() []namedHist {
	p2pkh := "76a914" + strings.Repeat("aa", 20) + "88ac"
	p2wpkh := "0014" + strings.Repeat("bb", 20)
	p2wsh := "0020" + strings.Repeat("cc", 32)
	r := lib.NewRng(2929)
	t1 := histTx(r)
	t2 := histTx(r)
	return []namedHist{
		// the var-len form of several redeemer output scripts, converted first, used afterwards
		{"varlen-three-standard-scripts", []hop{{Op: "tovarlen", Raw: p2pkh}, {Op: "tovarlen", Raw: p2wpkh}, {Op: "tovarlen", Raw: p2wsh}}},
		{"compact-252-then-wider", []hop{{Op: "csw", V: 252}, {Op: "csw", V: 0xffff}, {Op: "csw", V: 253}, {Op: "csw", V: 1 << 40}}},
		{"varlen-prefix-boundary", []hop{{Op: "tovarlen", Raw: strings.Repeat("11", 252)}, {Op: "tovarlen", Raw: strings.Repeat("22", 253)},
			{Op: "tovarlen", Raw: strings.Repeat("33", 63)}, {Op: "tovarlen", Raw: strings.Repeat("44", 64)}, {Op: "tovarlen", Raw: ""}}},
		{"one-transaction-object", []hop{{Op: "ser-wit", Tx: t1}, {Op: "hash"}, {Op: "inputs"}, {Op: "hash", Tx: t2}, {Op: "whash"}, {Op: "outputs"}}},
		{"one-deserialize-target", []hop{{Op: "deser", Raw: hex.EncodeToString(serializeOf(t1, true))}, {Op: "deser", Raw: hex.EncodeToString(serializeOf(t2, true))},
			{Op: "deser", Raw: "00"}, {Op: "deser", Raw: hex.EncodeToString(serializeOf(t2, false)), Fresh: true}}},
		{"from-varlen-windows", []hop{{Op: "fromvarlen", Raw: "19" + p2pkh}, {Op: "tovarlen", Raw: p2wpkh}, {Op: "fromvarlen", Raw: "16" + p2wpkh}, {Op: "csw", V: 22}}},
		{"hash-strings", []hop{{Op: "hex", Raw: strings.Repeat("0f", 31) + "01", Order: 1}, {Op: "hex", Raw: strings.Repeat("0f", 31) + "01", Order: 0},
			{Op: "newhash", Raw: strings.Repeat("0f", 31) + "01", Order: 1}, {Op: "newhashstr", Str: strings.Repeat("0F", 31) + "01", Order: 1}}},
		{"one-header-object", []hop{{Op: "hdrser", Hdr: &jHdr{Version: 0x20000000, Prev: strings.Repeat("01", 32), Merkle: strings.Repeat("02", 32), Time: 1, Bits: 2, Nonce: 3}},
			{Op: "hdrdeser", Raw: strings.Repeat("07", 80)},
			{Op: "hdrser", Hdr: &jHdr{Version: -1, Prev: strings.Repeat("03", 32), Merkle: strings.Repeat("04", 32), Time: 0xffffffff, Bits: 5, Nonce: 6}}}},
	}
}
