// Driver for C29: runs the real pkg/bitcoin codecs (which wrap btcd wire) on generated
// transactions, raw byte strings, compact-size values, hash strings, block headers and
// var-len scripts, and prints the cases for the Coq model (Model/C29.v).
package main

import (
	"bytes"
	"crypto/sha256"
	"encoding/hex"
	"fmt"
	"os"
	"strings"

	"github.com/keep-network/keep-core/pkg/bitcoin"

	"verifharness/lib"
)

// ---------------------------------------------------------------- replayable inputs

type jIn struct {
	Hash    string   `json:"hash"`
	Index   uint32   `json:"index"`
	Script  string   `json:"script"`
	Witness []string `json:"witness"`
	Seq     uint32   `json:"seq"`
}
type jOut struct {
	Value  int64  `json:"value"`
	Script string `json:"script"`
}
type jTx struct {
	Version  int32  `json:"version"`
	Ins      []jIn  `json:"ins"`
	Outs     []jOut `json:"outs"`
	Locktime uint32 `json:"locktime"`
}
type jHdr struct {
	Version int32  `json:"version"`
	Prev    string `json:"prev"`
	Merkle  string `json:"merkle"`
	Time    uint32 `json:"time"`
	Bits    uint32 `json:"bits"`
	Nonce   uint32 `json:"nonce"`
}
type input struct {
	Kind  string `json:"kind"`           // tx raw csw csr hash hdr hdrraw script scriptraw hist
	Hist  []hop  `json:"hist,omitempty"` // hist: the calls of one history (hist.go)
	Tx    *jTx   `json:"tx,omitempty"`
	Raw   string `json:"raw,omitempty"` // hex
	V     uint64 `json:"v,omitempty"`   // csw
	Str   string `json:"str,omitempty"` // hash string (plain text)
	Order int    `json:"order,omitempty"`
	Hdr   *jHdr  `json:"hdr,omitempty"`
	Note  string `json:"note,omitempty"`
}

func unhex(s string) []byte {
	b, err := hex.DecodeString(s)
	if err != nil {
		panic(err)
	}
	return b
}

func (j *jTx) toTx() *bitcoin.Transaction {
	t := &bitcoin.Transaction{Version: j.Version, Locktime: j.Locktime}
	for _, in := range j.Ins {
		var h bitcoin.Hash
		copy(h[:], unhex(in.Hash))
		ti := &bitcoin.TransactionInput{
			Outpoint:        &bitcoin.TransactionOutpoint{TransactionHash: h, OutputIndex: in.Index},
			SignatureScript: unhex(in.Script),
			Sequence:        in.Seq,
		}
		for _, w := range in.Witness {
			ti.Witness = append(ti.Witness, unhex(w))
		}
		t.Inputs = append(t.Inputs, ti)
	}
	for _, o := range j.Outs {
		t.Outputs = append(t.Outputs, &bitcoin.TransactionOutput{Value: o.Value, PublicKeyScript: unhex(o.Script)})
	}
	return t
}

// ---------------------------------------------------------------- Coq rendering

// chunks renders a byte string as a list of chunk: runs of >= 12 equal bytes become R n b,
// the rest hexadecimal string literals H "..".
func chunks(b []byte) string {
	var parts []string
	lit := 0
	flush := func(upto int) {
		if upto > lit {
			parts = append(parts, "H \""+hex.EncodeToString(b[lit:upto])+"\"")
		}
	}
	for i := 0; i < len(b); {
		j := i
		for j < len(b) && b[j] == b[i] {
			j++
		}
		if j-i >= 12 {
			flush(i)
			parts = append(parts, fmt.Sprintf("R %d %d", j-i, b[i]))
			lit = j
		}
		i = j
	}
	flush(len(b))
	return "[" + strings.Join(parts, "; ") + "]"
}

// runs groups consecutive equal rendered items as (count, item).
func runs(items []string) string {
	var parts []string
	for i := 0; i < len(items); {
		j := i
		for j < len(items) && items[j] == items[i] {
			j++
		}
		parts = append(parts, fmt.Sprintf("(%d, %s)", j-i, items[i]))
		i = j
	}
	return "[" + strings.Join(parts, "; ") + "]"
}

func renderTx(t *bitcoin.Transaction) string {
	ins := make([]string, len(t.Inputs))
	for i, in := range t.Inputs {
		wit := make([]string, len(in.Witness))
		for k, w := range in.Witness {
			wit[k] = chunks(w)
		}
		var h []byte
		var idx uint32
		if in.Outpoint != nil {
			h = in.Outpoint.TransactionHash[:]
			idx = in.Outpoint.OutputIndex
		}
		ins[i] = fmt.Sprintf("{| ci_hash := %s; ci_index := %d; ci_script := %s; ci_witness := %s; ci_seq := %d |}",
			chunks(h), idx, chunks(in.SignatureScript), runs(wit), in.Sequence)
	}
	outs := make([]string, len(t.Outputs))
	for i, o := range t.Outputs {
		outs[i] = fmt.Sprintf("{| co_value := %s; co_script := %s |}", lib.Z(o.Value), chunks(o.PublicKeyScript))
	}
	return fmt.Sprintf("{| c_version := %s; c_ins := %s; c_outs := %s; c_locktime := %d |}",
		lib.Z(int64(t.Version)), runs(ins), runs(outs), t.Locktime)
}

func ob(b []byte, panicked bool) string {
	if panicked {
		return "OPanic"
	}
	return "(OB " + chunks(b) + ")"
}
func optOb(b []byte, ok bool, panicked bool) string {
	if panicked {
		return "(Some OPanic)"
	}
	if !ok {
		return "None"
	}
	return "(Some (OB " + chunks(b) + "))"
}

// ---------------------------------------------------------------- guarded calls

func guard(f func()) (panicked bool) {
	defer func() {
		if r := recover(); r != nil {
			panicked = true
		}
	}()
	f()
	return false
}

func sha256d(b []byte) bitcoin.Hash {
	a := sha256.Sum256(b)
	return sha256.Sum256(a[:])
}

func deser(data []byte) (string, string) {
	var t bitcoin.Transaction
	var err error
	if guard(func() { err = t.Deserialize(data) }) {
		return "TPanic", "panic"
	}
	if err != nil {
		return "TErr", "error: " + err.Error()
	}
	return "(TOk " + renderTx(&t) + ")", "ok"
}

// ---------------------------------------------------------------- running one case

func run(in input, em *lib.Emitter, id string) {
	sig := map[string]interface{}{"kind": in.Kind}
	var coq, key string
	var out interface{}
	nontrivial := false
	switch in.Kind {
	case "hist":
		coq, out = runHist(in.Hist, em)
		key = fmt.Sprintf("hist|%x", sha256d([]byte(coq)))
		nontrivial = len(in.Hist) >= 2
		em.Tally(fmt.Sprintf("hist-len-%d", len(in.Hist)))
	case "tx":
		t := in.Tx.toTx()
		var std, wit, inputs, outputs []byte
		var ver, lock [4]byte
		pStd := guard(func() { std = t.Serialize(bitcoin.Standard) })
		pWit := guard(func() { wit = t.Serialize() })
		pVer := guard(func() { ver = t.SerializeVersion() })
		pIn := guard(func() { inputs = t.SerializeInputs() })
		pOut := guard(func() { outputs = t.SerializeOutputs() })
		pLock := guard(func() { lock = t.SerializeLocktime() })
		dStd, nStd := deser(std)
		dWit, nWit := deser(wit)
		var hashIsStd, whashIsWit, hashSame bool
		guard(func() {
			hashIsStd = t.Hash() == sha256d(std)
			whashIsWit = t.WitnessHash() == sha256d(wit)
			// the same transaction with every witness replaced / removed
			t2 := in.Tx.toTx()
			for i, ti := range t2.Inputs {
				if i%2 == 0 {
					ti.Witness = nil
				} else {
					ti.Witness = [][]byte{{byte(i), 0x55}, {}}
				}
			}
			hashSame = t.Hash() == t2.Hash()
		})
		coq = fmt.Sprintf("(CTx {| tc_tx := %s; tc_ser_std := %s; tc_ser_wit := %s; tc_version := %s; "+
			"tc_inputs := %s; tc_outputs := %s; tc_locktime := %s; tc_deser_std := %s; tc_deser_wit := %s; "+
			"tc_hash_is_std := %s; tc_whash_is_wit := %s; tc_hash_same := %s |})",
			renderTx(t), ob(std, pStd), ob(wit, pWit), ob(ver[:], pVer), ob(inputs, pIn), ob(outputs, pOut),
			ob(lock[:], pLock), dStd, dWit, lib.Bool(hashIsStd), lib.Bool(whashIsWit), lib.Bool(hashSame))
		hasWit := false
		big := len(t.Inputs) >= 253 || len(t.Outputs) >= 253
		for _, ti := range t.Inputs {
			if len(ti.Witness) > 0 {
				hasWit = true
			}
			if len(ti.SignatureScript) >= 253 || len(ti.Witness) >= 253 {
				big = true
			}
			for _, w := range ti.Witness {
				if len(w) >= 253 {
					big = true
				}
			}
		}
		for _, o := range t.Outputs {
			if len(o.PublicKeyScript) >= 253 {
				big = true
			}
		}
		nontrivial = len(t.Inputs) >= 1 && (hasWit || big)
		sig["inputs0"] = len(t.Inputs) == 0
		sig["witness"] = hasWit
		key = fmt.Sprintf("tx|%x", sha256d(append(append([]byte{}, wit...), std...)))
		out = map[string]interface{}{"std_len": len(std), "wit_len": len(wit), "deser_std": nStd, "deser_wit": nWit,
			"hash_is_std": hashIsStd, "whash_is_wit": whashIsWit, "hash_same": hashSame}
		em.Tally(fmt.Sprintf("tx-inputs-%s", bucket(len(t.Inputs))))
		em.Tally(fmt.Sprintf("tx-outputs-%s", bucket(len(t.Outputs))))
		if hasWit {
			em.Tally("tx-witness")
		} else {
			em.Tally("tx-no-witness")
		}
	case "raw":
		raw := unhex(in.Raw)
		d, n := deser(raw)
		coq = fmt.Sprintf("(CRaw %s %s)", chunks(raw), d)
		key = "raw|" + in.Raw
		out = n
		nontrivial = n == "ok"
		em.Tally("raw-" + strings.SplitN(n, ":", 2)[0])
	case "csw":
		tail := unhex(in.Raw)
		var w []byte
		var err error
		pw := guard(func() { w, err = bitcoin.VerifWriteCompactSizeUint(in.V) })
		if err != nil {
			pw = true
		}
		r := "CPanic"
		guard(func() {
			v, n, err := bitcoin.VerifReadCompactSizeUint(append(append([]byte{}, w...), tail...))
			if err != nil {
				r = "CErr"
			} else {
				r = fmt.Sprintf("(COk %d %d)", v, n)
			}
		})
		coq = fmt.Sprintf("(CCompactW %d %s %s %s)", in.V, chunks(tail), ob(w, pw), r)
		key = fmt.Sprintf("csw|%d|%s", in.V, in.Raw)
		out = map[string]interface{}{"written": hex.EncodeToString(w), "read": r}
		nontrivial = in.V >= 253
		em.Tally("compact-write-" + bucket64(in.V))
	case "csr":
		raw := unhex(in.Raw)
		r := "CPanic"
		var w []byte
		pw := false
		guard(func() {
			v, n, err := bitcoin.VerifReadCompactSizeUint(raw)
			if err != nil {
				r = "CErr"
				return
			}
			r = fmt.Sprintf("(COk %d %d)", v, n)
			pw = guard(func() { w, _ = bitcoin.VerifWriteCompactSizeUint(v) })
		})
		coq = fmt.Sprintf("(CCompactR %s %s %s)", chunks(raw), r, ob(w, pw))
		key = "csr|" + in.Raw
		out = r
		nontrivial = len(raw) >= 3
		em.Tally("compact-read-" + strings.Trim(strings.SplitN(r, " ", 2)[0], "()"))
	case "hash":
		order := bitcoin.ByteOrder(in.Order)
		other := bitcoin.ByteOrder(1 - in.Order)
		var h bitcoin.Hash
		var err error
		ph := guard(func() { h, err = bitcoin.NewHashFromString(in.Str, order) })
		ok := err == nil && !ph
		var same, oth string
		var back, fromBytes bitcoin.Hash
		var pSame, pOther, pBack, pFrom, okBack, okFrom bool
		if ok {
			pSame = guard(func() { same = h.Hex(order) })
			pOther = guard(func() { oth = h.Hex(other) })
			pBack = guard(func() {
				b, err := bitcoin.NewHashFromString(oth, other)
				back, okBack = b, err == nil
			})
			pFrom = guard(func() {
				raw, err := hex.DecodeString(in.Str)
				if err != nil {
					return
				}
				b, err := bitcoin.NewHash(raw, order)
				fromBytes, okFrom = b, err == nil
			})
		}
		ord := "InternalOrder"
		if in.Order == 1 {
			ord = "ReversedOrder"
		}
		coq = fmt.Sprintf("(CHash %q %s %s %s %s %s %s)", in.Str, ord,
			optOb(h[:], ok, ph), optOb([]byte(same), ok, pSame), optOb([]byte(oth), ok, pOther),
			optOb(back[:], okBack, pBack), optOb(fromBytes[:], okFrom, pFrom))
		key = fmt.Sprintf("hash|%d|%s", in.Order, in.Str)
		out = map[string]interface{}{"ok": ok, "hex_same": same, "hex_other": oth}
		nontrivial = ok
		if ok {
			em.Tally("hash-valid")
		} else {
			em.Tally("hash-rejected")
		}
	case "hdr":
		hd := &bitcoin.BlockHeader{Version: in.Hdr.Version, Time: in.Hdr.Time, Bits: in.Hdr.Bits, Nonce: in.Hdr.Nonce}
		copy(hd.PreviousBlockHeaderHash[:], unhex(in.Hdr.Prev))
		copy(hd.MerkleRootHash[:], unhex(in.Hdr.Merkle))
		var ser [80]byte
		ps := guard(func() { ser = hd.Serialize() })
		var back bitcoin.BlockHeader
		pb := guard(func() { back.Deserialize(ser) })
		coq = fmt.Sprintf("(CHeader %s %s %s)", renderHdr(hd), ob(ser[:], ps), ohdr(&back, pb))
		key = fmt.Sprintf("hdr|%x", ser)
		out = hex.EncodeToString(ser[:])
		nontrivial = true
		em.Tally("header")
	case "hdrraw":
		raw := unhex(in.Raw)
		var arr [80]byte
		copy(arr[:], raw)
		var hd bitcoin.BlockHeader
		ph := guard(func() { hd.Deserialize(arr) })
		var ser [80]byte
		ps := guard(func() { ser = hd.Serialize() })
		coq = fmt.Sprintf("(CHeaderRaw %s %s %s)", chunks(arr[:]), ohdr(&hd, ph), ob(ser[:], ps))
		key = "hdrraw|" + in.Raw
		out = hex.EncodeToString(ser[:])
		nontrivial = true
		em.Tally("header-raw")
	case "script":
		s := bitcoin.Script(unhex(in.Raw))
		var v []byte
		var err error
		pv := guard(func() { v, err = s.ToVarLenData() })
		if err != nil {
			pv = true
		}
		var back bitcoin.Script
		okBack := false
		pb := guard(func() {
			b, err := bitcoin.NewScriptFromVarLenData(v)
			back, okBack = b, err == nil
		})
		coq = fmt.Sprintf("(CScript %s %s %s)", chunks(s), ob(v, pv), optOb(back, okBack, pb))
		key = fmt.Sprintf("script|%x", sha256d(s))
		out = map[string]interface{}{"varlen_len": len(v), "back_ok": okBack}
		nontrivial = len(s) >= 253
		em.Tally("script-len-" + bucket(len(s)))
	case "scriptraw":
		raw := unhex(in.Raw)
		var s bitcoin.Script
		okS := false
		var v []byte
		okV := false
		pv := false
		ps := guard(func() {
			b, err := bitcoin.NewScriptFromVarLenData(raw)
			s, okS = b, err == nil
			if okS {
				pv = guard(func() {
					x, err := s.ToVarLenData()
					v, okV = x, err == nil
				})
			}
		})
		coq = fmt.Sprintf("(CScriptRaw %s %s %s)", chunks(raw), optOb(s, okS, ps), optOb(v, okV, pv))
		key = fmt.Sprintf("scriptraw|%x", sha256d(raw))
		out = map[string]interface{}{"ok": okS}
		nontrivial = okS && len(raw) > 1
		if okS {
			em.Tally("scriptraw-accepted")
		} else {
			em.Tally("scriptraw-rejected")
		}
	default:
		panic("unknown kind " + in.Kind)
	}
	if in.Note != "" {
		sig["note"] = in.Note
	}
	em.Case(lib.Case{ID: id, Coq: coq, Key: key, Nontrivial: nontrivial, Sig: sig, In: in, Out: out})
}

func renderHdr(h *bitcoin.BlockHeader) string {
	return fmt.Sprintf("{| hc_version := %s; hc_prev := %s; hc_merkle := %s; hc_time := %d; hc_bits := %d; hc_nonce := %d |}",
		lib.Z(int64(h.Version)), chunks(h.PreviousBlockHeaderHash[:]), chunks(h.MerkleRootHash[:]),
		h.Time, h.Bits, h.Nonce)
}
func ohdr(h *bitcoin.BlockHeader, panicked bool) string {
	if panicked {
		return "HPanic"
	}
	return "(HOk " + renderHdr(h) + ")"
}

func bucket(n int) string {
	switch {
	case n == 0:
		return "0"
	case n < 252:
		return "1..251"
	case n <= 254:
		return fmt.Sprintf("%d", n)
	case n < 65535:
		return "255..65534"
	default:
		return ">=65535"
	}
}
func bucket64(v uint64) string {
	switch {
	case v < 253:
		return "1byte"
	case v <= 0xffff:
		return "3byte"
	case v <= 0xffffffff:
		return "5byte"
	default:
		return "9byte"
	}
}

// ---------------------------------------------------------------- generators

var boundaryLens = []int{0, 1, 2, 75, 76, 251, 252, 253, 254, 255, 256, 257, 520}

// blob makes n bytes: short ones random, long ones compressible (random head and tail).
func blob(r *lib.Rng, n int) []byte {
	if n <= 40 {
		return r.Bytes(n)
	}
	b := bytes.Repeat([]byte{byte(r.Intn(256))}, n)
	copy(b, r.Bytes(4))
	copy(b[n-4:], r.Bytes(4))
	if r.Bool() {
		b[n/2] ^= 0x5a
	}
	return b
}

func someLen(r *lib.Rng) int {
	switch r.Intn(10) {
	case 0, 1:
		return boundaryLens[r.Intn(len(boundaryLens))]
	case 2:
		return r.Range(250, 258)
	case 3:
		return 0
	default:
		return r.Range(0, 40)
	}
}

func genIn(r *lib.Rng, witness int) jIn {
	in := jIn{Index: uint32(r.U64()), Seq: uint32(r.U64())}
	switch r.Intn(4) {
	case 0:
		in.Hash = hex.EncodeToString(bytes.Repeat([]byte{byte(r.Intn(256))}, 32))
	default:
		in.Hash = hex.EncodeToString(r.Bytes(32))
	}
	if r.Chance(1, 5) {
		in.Seq = 0xffffffff
	}
	if r.Chance(1, 5) {
		in.Index = uint32(r.Intn(3))
	}
	in.Script = hex.EncodeToString(blob(r, someLen(r)))
	// witness: 0 none, 1 maybe, 2 always
	if witness == 2 || (witness == 1 && r.Bool()) {
		n := r.Range(1, 4)
		if r.Chance(1, 12) {
			n = r.Range(251, 255)
		}
		for k := 0; k < n; k++ {
			l := someLen(r)
			if n > 10 {
				l = r.Intn(3)
			}
			in.Witness = append(in.Witness, hex.EncodeToString(blob(r, l)))
		}
	}
	return in
}

func genOut(r *lib.Rng) jOut {
	o := jOut{Value: r.I64(), Script: hex.EncodeToString(blob(r, someLen(r)))}
	switch r.Intn(6) {
	case 0:
		o.Value = 0
	case 1:
		o.Value = int64(r.Intn(100000000))
	case 2:
		o.Value = []int64{-1, 1<<63 - 1, -1 << 63, 2100000000000000}[r.Intn(4)]
	}
	return o
}

func genTx(r *lib.Rng, nIn, nOut, witness int) *jTx {
	t := &jTx{Version: int32(r.U64()), Locktime: uint32(r.U64())}
	if r.Chance(2, 3) {
		t.Version = int32(r.Range(1, 2))
	}
	if r.Chance(1, 3) {
		t.Locktime = 0
	}
	// many inputs/outputs: a few distinct ones among copies of a small template
	var tin *jIn
	for i := 0; i < nIn; i++ {
		if nIn > 20 && !(i < 2 || i >= nIn-2 || r.Chance(1, 120)) {
			if tin == nil {
				x := jIn{Hash: strings.Repeat("00", 32), Index: 0, Script: "", Seq: 0}
				if r.Chance(1, 3) {
					x.Script = "51"
					x.Seq = 0xffffffff
				}
				tin = &x
			}
			t.Ins = append(t.Ins, *tin)
			continue
		}
		x := genIn(r, witness)
		if nIn > 20 {
			x.Script = hex.EncodeToString(r.Bytes(r.Intn(4)))
			if len(x.Witness) > 3 {
				x.Witness = x.Witness[:3]
			}
		}
		t.Ins = append(t.Ins, x)
	}
	var tout *jOut
	for i := 0; i < nOut; i++ {
		if nOut > 20 && !(i < 2 || i >= nOut-2 || r.Chance(1, 120)) {
			if tout == nil {
				x := jOut{Value: 0, Script: ""}
				if r.Chance(1, 3) {
					x.Value = int64(r.Intn(1000))
					x.Script = "6a"
				}
				tout = &x
			}
			t.Outs = append(t.Outs, *tout)
			continue
		}
		x := genOut(r)
		if nOut > 20 {
			x.Script = hex.EncodeToString(r.Bytes(r.Intn(4)))
		}
		t.Outs = append(t.Outs, x)
	}
	return t
}

func count(r *lib.Rng) int {
	switch r.Intn(12) {
	case 0:
		return []int{252, 253, 254}[r.Intn(3)]
	case 1:
		return 0
	case 2, 3:
		return 1
	default:
		return r.Range(1, 6)
	}
}

func serializeOf(t *jTx, witness bool) []byte {
	tx := t.toTx()
	if witness {
		return tx.Serialize()
	}
	return tx.Serialize(bitcoin.Standard)
}

func le(n int, v uint64) []byte {
	b := make([]byte, n)
	for i := 0; i < n; i++ {
		b[i] = byte(v >> (8 * uint(i)))
	}
	return b
}

// mutate produces a malformed / unusual variant of a valid serialisation.
func mutate(r *lib.Rng, b []byte) ([]byte, string) {
	c := append([]byte{}, b...)
	switch r.Intn(9) {
	case 0:
		return c[:r.Intn(len(c)+1)], "truncated"
	case 1:
		if len(c) > 0 {
			c[r.Intn(len(c))] ^= byte(1 << uint(r.Intn(8)))
		}
		return c, "bitflip"
	case 2:
		return append(c, r.Bytes(r.Range(1, 5))...), "trailing"
	case 3: // non-canonical input count
		if len(c) > 5 && c[4] != 0 && c[4] < 0xfd {
			x := append([]byte{}, c[:4]...)
			x = append(x, 0xfd, c[4], 0)
			return append(x, c[5:]...), "noncanonical-count"
		}
		return c, "same"
	case 4: // flag byte
		if len(c) > 6 && c[4] == 0 {
			c[5] = byte(r.Intn(4))
		}
		return c, "flag"
	case 5: // absurd count
		x := append([]byte{}, c[:4]...)
		x = append(x, 0xfe)
		if r.Chance(1, 6) {
			x = append(x, le(4, uint64(r.Range(818400, 818403)))...)
		} else {
			x = append(x, le(4, uint64(r.Range(818402, 900000)))...)
		}
		return append(x, c[4:]...), "huge-count"
	case 6:
		if len(c) > 8 {
			i := r.Range(4, len(c)-1)
			c[i] = []byte{0xfd, 0xfe, 0xff}[r.Intn(3)]
		}
		return c, "varint-marker"
	case 7:
		x := append([]byte{}, c[:4]...)
		x = append(x, 0xff)
		x = append(x, le(8, r.U64()>>uint(r.Intn(64)))...)
		return append(x, c[4:]...), "huge-count-9"
	default:
		i := r.Intn(len(c) + 1)
		return append(append(append([]byte{}, c[:i]...), byte(r.Intn(256))), c[i:]...), "insert"
	}
}

func hexStr(r *lib.Rng, b []byte) string {
	s := hex.EncodeToString(b)
	switch r.Intn(3) {
	case 0:
		return strings.ToUpper(s)
	case 1:
		x := []byte(s)
		for i := range x {
			if r.Bool() {
				x[i] = strings.ToUpper(string(x[i]))[0]
			}
		}
		return string(x)
	}
	return s
}

func main() {
	o := lib.ParseOpts()
	em := lib.NewEmitter()
	if o.Replay != "" {
		var in input
		if err := lib.LoadReplay(o.Replay, &in); err != nil {
			fmt.Fprintln(os.Stderr, err)
			os.Exit(2)
		}
		run(in, em, "replay")
		em.Close("replay", nil)
		return
	}
	rng := lib.NewRng(o.Seed)

	// ---------------- corpus (fixed regression cases, run first)
	{
		r := lib.NewRng(29)
		// a real mainnet-style P2WPKH spend shape
		one := genTx(r, 1, 2, 2)
		run(input{Kind: "tx", Tx: one}, em, "corpus-witness-1in")
		run(input{Kind: "tx", Tx: genTx(r, 2, 1, 0)}, em, "corpus-legacy-2in")
		// no inputs: the marker ambiguity (outside the property, still modelled exactly)
		run(input{Kind: "tx", Tx: &jTx{Version: 1, Outs: []jOut{{Value: 0x0000000100000000, Script: ""}}, Locktime: 7}}, em, "corpus-0in-misparse")
		run(input{Kind: "tx", Tx: &jTx{Version: 1, Locktime: 0}}, em, "corpus-0in-0out")
		run(input{Kind: "tx", Tx: genTx(r, 0, 1, 0)}, em, "corpus-0in-1out")
		for _, n := range []int{252, 253} {
			run(input{Kind: "tx", Tx: genTx(r, n, 1, 1)}, em, fmt.Sprintf("corpus-%din", n))
			run(input{Kind: "tx", Tx: genTx(r, 1, n, 1)}, em, fmt.Sprintf("corpus-%dout", n))
		}
		for _, n := range []int{65535, 65536} {
			t := genTx(r, 1, 1, 0)
			t.Ins[0].Script = hex.EncodeToString(blob(r, n))
			run(input{Kind: "tx", Tx: t}, em, fmt.Sprintf("corpus-script-%d", n))
			t = genTx(r, 1, 1, 0)
			t.Ins[0].Witness = []string{"01", hex.EncodeToString(blob(r, n))}
			run(input{Kind: "tx", Tx: t}, em, fmt.Sprintf("corpus-witness-item-%d", n))
			t = genTx(r, 1, 1, 0)
			t.Outs[0].Script = hex.EncodeToString(blob(r, n))
			run(input{Kind: "tx", Tx: t}, em, fmt.Sprintf("corpus-pkscript-%d", n))
			run(input{Kind: "script", Raw: hex.EncodeToString(blob(r, n))}, em, fmt.Sprintf("corpus-varlen-%d", n))
		}
		for _, v := range []uint64{0, 1, 252, 253, 254, 255, 256, 0xfffe, 0xffff, 0x10000, 0x10001, 0xfffffffe, 0xffffffff,
			0x100000000, 0x100000001, 1 << 63, ^uint64(0) - 1, ^uint64(0)} {
			run(input{Kind: "csw", V: v, Raw: "aa"}, em, fmt.Sprintf("corpus-compact-%d", v))
		}
		for _, raw := range []string{"", "fc", "fd", "fdfc00", "fdfd00", "fdff", "fe00000100", "feffff0000", "fe000001",
			"ff0000000001000000", "ffffffffff00000000", "ffffffffffffffffff", "ff00000000010000", "fd0001ff"} {
			run(input{Kind: "csr", Raw: raw}, em, "corpus-compact-read-"+raw)
		}
		for _, raw := range []string{"", "00", "0100", "01", "02aabb", "02aa", "02aabbcc", "fd0300aabbcc", "fd0100aa",
			"ff0000000000000000", "fffffffffffffffff7", "fe00000000"} {
			run(input{Kind: "scriptraw", Raw: raw}, em, "corpus-varlen-raw-"+raw)
		}
		h := "000000000000000000024bead8df69990852c202db0e0097c1a12ea637d7e96d"
		for ord := 0; ord < 2; ord++ {
			run(input{Kind: "hash", Str: h, Order: ord}, em, fmt.Sprintf("corpus-hash-%d", ord))
			run(input{Kind: "hash", Str: strings.ToUpper(h), Order: ord}, em, fmt.Sprintf("corpus-hash-upper-%d", ord))
			run(input{Kind: "hash", Str: h[:62], Order: ord}, em, fmt.Sprintf("corpus-hash-short-%d", ord))
			run(input{Kind: "hash", Str: h[:63] + "g", Order: ord}, em, fmt.Sprintf("corpus-hash-badchar-%d", ord))
		}
	}

	for _, h := range corpusHists() {
		run(input{Kind: "hist", Hist: h.ops, Note: "corpus"}, em, "corpus-hist-"+h.name)
	}

	// ---------------- exhaustive small scope: compact-size values around every boundary
	for _, base := range []uint64{0, 253, 1 << 16, 1 << 32} {
		for d := -3; d <= 3; d++ {
			v := base + uint64(int64(d))
			if base == 0 && d < 0 {
				v = ^uint64(0) - uint64(-d) + 1
			}
			run(input{Kind: "csw", V: v}, em, fmt.Sprintf("small-compact-%d", v))
		}
	}
	// every 1-byte prefix followed by a fixed tail: which prefixes are read how
	if o.Tier != "quick" {
		for p := 0; p < 256; p++ {
			run(input{Kind: "csr", Raw: fmt.Sprintf("%02x", p) + "0100000001000000"}, em, fmt.Sprintf("small-compact-prefix-%02x", p))
		}
	} else {
		for p := 248; p < 256; p++ {
			run(input{Kind: "csr", Raw: fmt.Sprintf("%02x", p) + "0100000001000000"}, em, fmt.Sprintf("small-compact-prefix-%02x", p))
		}
	}

	// ---------------- random transactions
	nTx := o.Count(170, 4000)
	for i := 0; i < nTx; i++ {
		r := rng.Fork(fmt.Sprintf("tx%d", i))
		nIn, nOut := count(r), count(r)
		if nIn >= 252 && nOut >= 252 {
			nOut = r.Range(1, 3)
		}
		t := genTx(r, nIn, nOut, r.Intn(3))
		if r.Chance(1, 40) && nIn >= 1 && nIn < 20 {
			// one large field
			n := []int{65534, 65535, 65536, 65537}[r.Intn(4)]
			switch r.Intn(3) {
			case 0:
				t.Ins[0].Script = hex.EncodeToString(blob(r, n))
			case 1:
				t.Ins[0].Witness = append(t.Ins[0].Witness, hex.EncodeToString(blob(r, n)))
			default:
				if nOut > 0 {
					t.Outs[0].Script = hex.EncodeToString(blob(r, n))
				}
			}
		}
		run(input{Kind: "tx", Tx: t}, em, fmt.Sprintf("tx-%d", i))
	}

	// ---------------- raw / malformed byte strings
	nRaw := o.Count(150, 4000)
	for i := 0; i < nRaw; i++ {
		r := rng.Fork(fmt.Sprintf("raw%d", i))
		var raw []byte
		note := "random"
		if r.Chance(1, 8) {
			raw = r.Bytes(r.Range(0, 60))
			if len(raw) > 5 && r.Bool() {
				raw[4] = byte(r.Intn(3))
				raw[5] = byte(r.Intn(3))
			}
		} else {
			t := genTx(r, r.Range(0, 3), r.Range(0, 3), r.Intn(3))
			raw, note = mutate(r, serializeOf(t, r.Bool()))
		}
		run(input{Kind: "raw", Raw: hex.EncodeToString(raw), Note: note}, em, fmt.Sprintf("raw-%d", i))
	}

	// ---------------- compact size
	nCs := o.Count(120, 2000)
	for i := 0; i < nCs; i++ {
		r := rng.Fork(fmt.Sprintf("cs%d", i))
		v := r.U64() >> uint(r.Intn(64))
		if r.Bool() {
			run(input{Kind: "csw", V: v, Raw: hex.EncodeToString(r.Bytes(r.Intn(4)))}, em, fmt.Sprintf("csw-%d", i))
			continue
		}
		var raw []byte
		switch r.Intn(4) {
		case 0:
			raw = r.Bytes(r.Range(0, 10))
		case 1: // possibly non-canonical: a wide marker with a small value
			w := []int{2, 4, 8}[r.Intn(3)]
			raw = append([]byte{[]byte{0xfd, 0xfe, 0xff}[map[int]int{2: 0, 4: 1, 8: 2}[w]]}, le(w, v>>uint(r.Intn(64)))...)
		case 2:
			raw, _ = bitcoin.VerifWriteCompactSizeUint(v)
			raw = raw[:r.Intn(len(raw)+1)]
		default:
			raw, _ = bitcoin.VerifWriteCompactSizeUint(v)
			raw = append(raw, r.Bytes(r.Intn(3))...)
		}
		run(input{Kind: "csr", Raw: hex.EncodeToString(raw)}, em, fmt.Sprintf("csr-%d", i))
	}

	// ---------------- hashes
	nH := o.Count(80, 1000)
	for i := 0; i < nH; i++ {
		r := rng.Fork(fmt.Sprintf("hash%d", i))
		s := hexStr(r, r.Bytes(32))
		if r.Chance(1, 6) {
			switch r.Intn(4) {
			case 0:
				s = s[:r.Intn(64)]
			case 1:
				s = s + "0"
			case 2:
				x := []byte(s)
				x[r.Intn(64)] = "gGzZ xX-"[r.Intn(8)]
				s = string(x)
			default:
				s = s + s[:2]
			}
		}
		run(input{Kind: "hash", Str: s, Order: r.Intn(2)}, em, fmt.Sprintf("hash-%d", i))
	}

	// ---------------- block headers
	nHd := o.Count(60, 1000)
	for i := 0; i < nHd; i++ {
		r := rng.Fork(fmt.Sprintf("hdr%d", i))
		if r.Bool() {
			h := &jHdr{Version: int32(r.U64()), Prev: hex.EncodeToString(r.Bytes(32)), Merkle: hex.EncodeToString(r.Bytes(32)),
				Time: uint32(r.U64()), Bits: uint32(r.U64()), Nonce: uint32(r.U64())}
			if r.Chance(1, 4) {
				h.Version = []int32{-1, 0, 1, 0x20000000, -2147483648, 2147483647}[r.Intn(6)]
				h.Nonce = []uint32{0, 0xffffffff, 1}[r.Intn(3)]
			}
			run(input{Kind: "hdr", Hdr: h}, em, fmt.Sprintf("hdr-%d", i))
		} else {
			run(input{Kind: "hdrraw", Raw: hex.EncodeToString(r.Bytes(80))}, em, fmt.Sprintf("hdrraw-%d", i))
		}
	}

	// ---------------- var-len scripts
	nS := o.Count(100, 1500)
	for i := 0; i < nS; i++ {
		r := rng.Fork(fmt.Sprintf("script%d", i))
		n := someLen(r)
		if r.Chance(1, 25) {
			n = r.Range(65533, 65538)
		}
		s := blob(r, n)
		if r.Bool() {
			run(input{Kind: "script", Raw: hex.EncodeToString(s)}, em, fmt.Sprintf("script-%d", i))
			continue
		}
		v, _ := bitcoin.Script(s).ToVarLenData()
		note := "valid"
		switch r.Intn(6) {
		case 0:
			v = append(v, byte(r.Intn(256)))
			note = "extra-byte"
		case 1:
			if len(v) > 0 {
				v = v[:len(v)-1]
			}
			note = "short"
		case 2: // non-canonical length prefix
			if n < 253 {
				v = append([]byte{0xfd, byte(n), 0}, s...)
				note = "noncanonical"
			}
		case 3:
			v = r.Bytes(r.Range(0, 12))
			note = "random"
		}
		run(input{Kind: "scriptraw", Raw: hex.EncodeToString(v), Note: note}, em, fmt.Sprintf("scriptraw-%d", i))
	}

	// ---------------- call histories: results are values
	nHist := o.Count(150, 3000)
	for i := 0; i < nHist; i++ {
		r := rng.Fork(fmt.Sprintf("hist%d", i))
		ops, mode := genHist(r)
		run(input{Kind: "hist", Hist: ops, Note: mode}, em, fmt.Sprintf("hist-%d", i))
	}

	em.Close("a case is one transaction (serialised in both formats, split into parts, deserialised back, hashed), "+
		"one raw byte string fed to Deserialize, one compact-size write/read, one hash string, one block header, one "+
		"var-len script, or one history of 2..6 calls on one caller's long-lived objects whose kept results are read again "+
		"at the end; distinct by content; a history of >= 2 calls is non-trivial; non-trivial: a transaction with >= 1 input that carries witness data or a "+
		"count/length >= 253; a raw string that decodes; a compact-size value >= 253 or raw input >= 3 bytes; an accepted hash "+
		"string; any header; a script of >= 253 bytes or an accepted var-len string", nil)
}
