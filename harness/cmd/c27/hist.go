// Builder histories for C27: operation sequences on ONE long-lived bitcoin.TransactionBuilder
// (Add*Input, AddOutput, ComputeSignatureHashes — possibly several times, interleaved with the
// additions — and AddSignatures with signatures over the hashes of the last or of an earlier
// computation), the way a caller that estimates a fee, appends a change output and computes the
// hashes again uses it.  Every call's result is recorded; the digests every computation returned
// are compared (in Coq) with the digests btcd gives for a FRESHLY built wire.MsgTx holding the
// inputs and outputs added up to that call; the inputs of the produced transaction are executed
// by btcd's engine.
package main

import (
	"bytes"
	"crypto/ecdsa"
	"crypto/sha256"
	"encoding/hex"
	"fmt"
	"math/big"
	"sort"
	"strings"

	"github.com/btcsuite/btcd/btcec"
	"github.com/btcsuite/btcd/chaincfg/chainhash"
	"github.com/btcsuite/btcd/txscript"
	"github.com/btcsuite/btcd/wire"
	"github.com/btcsuite/btcutil"

	"github.com/keep-network/keep-core/pkg/bitcoin"

	"verifharness/lib"
)

type histOp struct {
	Op   string    `json:"op"` // in | out | compute | sign
	In   *inSpec   `json:"in,omitempty"`
	Out  *outSpec  `json:"out,omitempty"`
	Sigs []sigSpec `json:"sigs,omitempty"`
}

func signWith(keys []*btcec.PrivateKey, sp sigSpec, d []byte) *bitcoin.SignatureContainer {
	sig, err := keys[sp.Signer].Sign(pad32(d))
	if err != nil {
		panic("driver: sign: " + err.Error())
	}
	r, s := new(big.Int).Set(sig.R), new(big.Int).Set(sig.S)
	n := btcec.S256().N
	switch sp.Mut {
	case "highS":
		half := new(big.Int).Rsh(n, 1)
		if s.Cmp(half) <= 0 {
			s.Sub(n, s)
		}
	case "flipR":
		r.Add(r, big.NewInt(1))
	case "flipS":
		s.Add(s, big.NewInt(1))
	case "zeroS":
		s.SetInt64(0)
	}
	return &bitcoin.SignatureContainer{R: r, S: s, PublicKey: keys[sp.Container].PubKey().ToECDSA()}
}

// prefixTx builds, independently of the builder, the unsigned transaction with the given inputs
// and outputs.
func prefixTx(ins []resolvedIn, outs []outSpec) *wire.MsgTx {
	msg := wire.NewMsgTx(1)
	for _, r := range ins {
		var h chainhash.Hash
		copy(h[:], mustHex(r.spec.Txid))
		msg.AddTxIn(wire.NewTxIn(wire.NewOutPoint(&h, r.spec.Vout), nil, nil))
	}
	for _, o := range outs {
		msg.AddTxOut(wire.NewTxOut(o.Value, mustHex(o.Script)))
	}
	return msg
}

func runHist(in input, em *lib.Emitter, id string) {
	keys := make([]*btcec.PrivateKey, len(in.Keys))
	pkhs := make([][20]byte, len(in.Keys))
	pkBytes := make([][]byte, len(in.Keys))
	for i, k := range in.Keys {
		priv, pub := btcec.PrivKeyFromBytes(btcec.S256(), mustHex(k))
		keys[i] = priv
		pkBytes[i] = pub.SerializeCompressed()
		copy(pkhs[i][:], btcutil.Hash160(pkBytes[i]))
	}
	fc := &fakeChain{txs: map[bitcoin.Hash]*bitcoin.Transaction{}}

	// digest identifiers
	ids := map[string]uint64{}
	idOf := func(d []byte) uint64 {
		k := hex.EncodeToString(pad32(d))
		if v, ok := ids[k]; ok {
			return v
		}
		ids[k] = uint64(len(ids) + 1)
		return ids[k]
	}

	type snapshot struct{ nins, nouts int }
	var (
		tb         = bitcoin.NewTransactionBuilder(fc) // the ONE builder of the history
		accepted   []resolvedIn                        // inputs the builder took, in order
		allIns     []resolvedIn                        // every input specification met
		outs       []outSpec
		computed   [][]*big.Int // result of every ComputeSignatureHashes call (nil on error)
		snaps      []snapshot
		seenSnap   = map[snapshot]bool{}
		obs        []string
		obsOut     []interface{}
		opTerms    []string
		containers []*bitcoin.SignatureContainer
		lastTx     *bitcoin.Transaction
		shape      strings.Builder
	)
	snap := func() {
		s := snapshot{len(accepted), len(outs)}
		if !seenSnap[s] {
			seenSnap[s] = true
			snaps = append(snaps, s)
		}
	}
	// classification state
	var (
		lastComputeAt    = -1 // position of the last computation
		lastComputeOk    = false
		changedSince     = map[int]bool{} // computation number (1-based) -> something was added after it and before the last computation
		addedAfterLast   = false
		earlierSignsSafe = true
		finalGood        = false
		finalBad         = false
		muts             = map[string]bool{}
	)
	nComputes := 0
	for pos, op := range in.Hist {
		isLast := pos == len(in.Hist)-1
		lastTx = nil
		func() {
			defer func() {
				if r := recover(); r != nil {
					obs = append(obs, "BPanic")
					obsOut = append(obsOut, map[string]interface{}{"op": op.Op, "panic": fmt.Sprint(r)})
				}
			}()
			switch op.Op {
			case "in":
				shape.WriteString("I")
				r := resolveIn(*op.In, pkhs, pkBytes)
				fc.fund(r.spec, r.utxoScript)
				allIns = append(allIns, r)
				opTerms = append(opTerms, "") // filled below once txids are numbered
				var h bitcoin.Hash
				copy(h[:], mustHex(r.spec.Txid))
				u := &bitcoin.UnspentTransactionOutput{
					Outpoint: &bitcoin.TransactionOutpoint{TransactionHash: h, OutputIndex: r.spec.Vout},
					Value:    r.spec.Value,
				}
				var err error
				if r.spec.Api == "pkh" {
					err = tb.AddPublicKeyHashInput(u)
				} else {
					err = tb.AddScriptHashInput(u, r.redeem)
				}
				if err != nil {
					obs = append(obs, "BAddErr")
					obsOut = append(obsOut, map[string]interface{}{"op": "in", "error": err.Error()})
				} else {
					accepted = append(accepted, r)
					addedAfterLast = true
					for k := 1; k <= nComputes; k++ {
						changedSince[k] = true
					}
					obs = append(obs, "BAdded")
					obsOut = append(obsOut, map[string]interface{}{"op": "in", "ok": true})
				}
			case "out":
				shape.WriteString("O")
				opTerms = append(opTerms, fmt.Sprintf("CAddOut %s %s", lib.Z(op.Out.Value), lib.Bytes(mustHex(op.Out.Script))))
				tb.AddOutput(&bitcoin.TransactionOutput{Value: op.Out.Value, PublicKeyScript: mustHex(op.Out.Script)})
				outs = append(outs, *op.Out)
				addedAfterLast = true
				for k := 1; k <= nComputes; k++ {
					changedSince[k] = true
				}
				obs = append(obs, "BVoid")
				obsOut = append(obsOut, map[string]interface{}{"op": "out"})
			case "compute":
				shape.WriteString("C")
				opTerms = append(opTerms, "CCompute")
				snap()
				nComputes++
				lastComputeAt = pos
				addedAfterLast = false
				computed = append(computed, nil)
				ds, err := tb.ComputeSignatureHashes()
				if err != nil {
					lastComputeOk = false
					obs = append(obs, "BHashErr")
					obsOut = append(obsOut, map[string]interface{}{"op": "compute", "error": err.Error()})
					return
				}
				lastComputeOk = true
				computed[nComputes-1] = ds
				idl := make([]uint64, len(ds))
				for i, d := range ds {
					idl[i] = idOf(d.Bytes())
				}
				obs = append(obs, "(BHashes "+lib.ListN(idl)+")")
				obsOut = append(obsOut, map[string]interface{}{"op": "compute", "digests": len(ds)})
			case "sign":
				shape.WriteString("S")
				snap()
				// classify the signatures before running the call
				n := len(accepted)
				bad := len(op.Sigs) != n || nComputes == 0
				byCommitted := true
				ks := make([]string, len(op.Sigs))
				cs := make([]*bitcoin.SignatureContainer, len(op.Sigs))
				firstBad := len(op.Sigs) != n
				for k, sp := range op.Sigs {
					gen := sp.Gen
					if gen <= 0 || gen > nComputes {
						gen = nComputes
					}
					var digest []byte
					if gen >= 1 && len(computed[gen-1]) > 0 {
						ds := computed[gen-1]
						digest = ds[sp.DigestOf%len(ds)].Bytes()
					} else {
						d := sha256.Sum256([]byte("no digest"))
						digest = d[:]
					}
					stale := gen != nComputes && changedSince[gen]
					noDigest := !(gen >= 1 && len(computed[gen-1]) > 0)
					good := sp.Signer == sp.Container && sp.DigestOf == k && (sp.Mut == "" || sp.Mut == "highS") && !stale && !noDigest
					if k < n && !good {
						bad = true
						if k == 0 {
							firstBad = true
						}
					}
					if k < n && sp.Signer != accepted[k].spec.Key {
						byCommitted = false
					}
					if sp.Mut != "" {
						muts[sp.Mut] = true
					}
					if sp.DigestOf != k {
						muts["swap"] = true
					}
					if stale {
						muts["stale"] = true
					}
					if sp.Signer != sp.Container {
						muts["otherkey"] = true
					}
					c := signWith(keys, sp, digest)
					cs[k] = c
					ks[k] = lib.Nat(len(containers))
					containers = append(containers, c)
				}
				if len(op.Sigs) != n {
					muts["count"] = true
				}
				opTerms = append(opTerms, "CSign "+lib.List(ks))
				if isLast {
					finalBad = bad
					finalGood = !bad && byCommitted && n > 0
				} else if !firstBad {
					// an earlier AddSignatures that gets past input 0 rewrites inputs in place
					earlierSignsSafe = false
				}
				tx, err := tb.AddSignatures(cs)
				if err != nil {
					obs = append(obs, "BRefused")
					obsOut = append(obsOut, map[string]interface{}{"op": "sign", "error": err.Error()})
					return
				}
				lastTx = tx
				obs = append(obs, "BTx")
				obsOut = append(obsOut, map[string]interface{}{"op": "sign", "txProduced": true})
			default:
				panic("driver: unknown operation " + op.Op)
			}
		}()
	}

	// ---- operation terms of the inputs (txids by first occurrence)
	txids := map[string]uint64{}
	{
		k := 0
		for pos, op := range in.Hist {
			if op.Op != "in" {
				continue
			}
			r := allIns[k]
			k++
			if _, ok := txids[r.spec.Txid]; !ok {
				txids[r.spec.Txid] = uint64(len(txids) + 1)
			}
			kind := "KPkh"
			if r.spec.Api == "sh" {
				kind = "(KSh " + lib.Bytes(r.redeem) + ")"
			}
			opTerms[pos] = fmt.Sprintf("CAddIn {| in_utxo := {| u_txid := %s; u_vout := %s; u_value := %s |}; in_script := %s; in_kind_ := %s |} %s",
				lib.N(txids[r.spec.Txid]), lib.N(uint64(r.spec.Vout)), lib.Z(r.spec.Value), lib.Bytes(r.utxoScript), kind,
				lib.Bytes(r.p2pkhProg))
		}
	}

	// ---- digest table: for every transaction a computation or AddSignatures saw
	var rows []string
	for _, s := range snaps {
		if s.nins == 0 {
			continue
		}
		msg := prefixTx(accepted[:s.nins], outs[:s.nouts])
		frag := txscript.NewTxSigHashes(msg)
		for i := 0; i < s.nins; i++ {
			r := accepted[i]
			type cand struct {
				kind string
				code []byte
			}
			cands := []cand{{"KUtxoScript", r.utxoScript}}
			if r.redeem != nil {
				cands = append(cands, cand{"KRedeem", r.redeem})
			}
			if r.p2pkhProg != nil {
				cands = append(cands, cand{"KP2pkhOfProgram", r.p2pkhProg})
				want, err := txscript.CalcWitnessSigHash(r.utxoScript, frag, txscript.SigHashAll, msg, i, r.spec.Value)
				if err != nil || !bytes.Equal(want, bip143(msg, i, r.p2pkhProg, r.spec.Value)) {
					panic("driver self-check: BIP-143 digest differs from btcd")
				}
			}
			values := []int64{r.spec.Value}
			if o := accepted[(i+1)%s.nins].spec.Value; o != r.spec.Value {
				values = append(values, o)
			}
			for _, c := range cands {
				if d, err := txscript.CalcSignatureHash(c.code, txscript.SigHashAll, msg, i); err == nil {
					rows = append(rows, fmt.Sprintf("{| hr_nins := %s; hr_nouts := %s; hr_idx := %s; hr_ver := Legacy; hr_code := %s; hr_value := %s; hr_id := %s |}",
						lib.Nat(s.nins), lib.Nat(s.nouts), lib.Nat(i), c.kind, lib.Z(r.spec.Value), lib.N(idOf(d))))
				}
				for _, v := range values {
					rows = append(rows, fmt.Sprintf("{| hr_nins := %s; hr_nouts := %s; hr_idx := %s; hr_ver := Bip143; hr_code := %s; hr_value := %s; hr_id := %s |}",
						lib.Nat(s.nins), lib.Nat(s.nouts), lib.Nat(i), c.kind, lib.Z(v), lib.N(idOf(bip143(msg, i, c.code, v)))))
				}
			}
		}
	}

	// ---- signatures as observed
	allDigests := make([]string, 0, len(ids))
	for k := range ids {
		allDigests = append(allDigests, k)
	}
	sort.Strings(allDigests)
	sigTerms := make([]string, len(containers))
	for k, c := range containers {
		var valid []uint64
		for _, dh := range allDigests {
			if ecdsa.Verify(c.PublicKey, mustHex(dh), c.R, c.S) {
				valid = append(valid, ids[dh])
			}
		}
		sort.Slice(valid, func(a, b int) bool { return valid[a] < valid[b] })
		der := []byte{}
		if c.R.Sign() > 0 && c.S.Sign() > 0 {
			der = (&btcec.Signature{R: c.R, S: c.S}).Serialize()
		}
		sigTerms[k] = fmt.Sprintf("{| so_pk := %s; so_der := %s; so_valid_for := %s |}",
			lib.Bytes((*btcec.PublicKey)(c.PublicKey).SerializeCompressed()), lib.Bytes(der), lib.ListN(valid))
	}

	// ---- engine on every input of the transaction the last call produced
	var finTerms []string
	var engineOut []interface{}
	if lastTx != nil {
		signed := wire.NewMsgTx(lastTx.Version)
		signed.LockTime = lastTx.Locktime
		for _, ti := range lastTx.Inputs {
			h := chainhash.Hash(ti.Outpoint.TransactionHash)
			txin := wire.NewTxIn(wire.NewOutPoint(&h, ti.Outpoint.OutputIndex), ti.SignatureScript, ti.Witness)
			txin.Sequence = ti.Sequence
			signed.AddTxIn(txin)
		}
		for _, o := range lastTx.Outputs {
			signed.AddTxOut(wire.NewTxOut(o.Value, o.PublicKeyScript))
		}
		for i := range signed.TxIn {
			eng := "None"
			if i < len(accepted) {
				ok, why := engineAccepts(accepted[i].utxoScript, signed, i, accepted[i].spec.Value)
				eng = lib.Some(lib.Bool(ok))
				engineOut = append(engineOut, map[string]interface{}{"accepted": ok, "error": why})
				em.Tally(fmt.Sprintf("engine-%s-%v", accepted[i].spec.Kind, ok))
			}
			finTerms = append(finTerms, fmt.Sprintf("{| fi_engine := %s; fi_script_sig := %s; fi_witness := %s |}",
				eng, lib.Bytes(signed.TxIn[i].SignatureScript), coqBytesList(signed.TxIn[i].Witness)))
		}
	}

	// ---- hash tables
	var hk, hv, sk, sv [][]byte
	seen := map[string]bool{}
	add160 := func(b []byte) {
		if b == nil || seen["h"+string(b)] {
			return
		}
		seen["h"+string(b)] = true
		hk, hv = append(hk, b), append(hv, btcutil.Hash160(b))
	}
	for _, c := range containers {
		add160((*btcec.PublicKey)(c.PublicKey).SerializeCompressed())
	}
	for _, r := range accepted {
		if r.redeem == nil {
			continue
		}
		if r.spec.Kind == "p2wsh" {
			if !seen["s"+string(r.redeem)] {
				seen["s"+string(r.redeem)] = true
				d := sha256.Sum256(r.redeem)
				sk, sv = append(sk, r.redeem), append(sv, d[:])
			}
		} else {
			add160(r.redeem)
		}
	}

	// ---- classification (from the structure of the history, not from what the builder returned)
	lastIsSign := len(in.Hist) > 0 && in.Hist[len(in.Hist)-1].Op == "sign"
	allRegular := len(accepted) == len(allIns)
	kinds := map[string]bool{}
	for _, r := range accepted {
		allRegular = allRegular && r.regular
		kinds[r.spec.Kind] = true
	}
	dirty := addedAfterLast // an input or output was added after the last computation
	computeFine := lastComputeAt >= 0 && lastComputeOk
	expectValid := lastIsSign && allRegular && finalGood && !dirty && computeFine && earlierSignsSafe
	mustReject := lastIsSign && finalBad && earlierSignsSafe
	kindList := make([]string, 0, len(kinds))
	for k := range kinds {
		kindList = append(kindList, k)
	}
	sort.Strings(kindList)
	mutList := make([]string, 0, len(muts))
	for k := range muts {
		mutList = append(mutList, k)
	}
	sort.Strings(mutList)

	coq := fmt.Sprintf("(CHist {| hc_ops := %s; hc_obs := %s; hc_rows := %s; hc_hash160 := %s; hc_sha256 := %s; hc_sigs := %s; "+
		"hc_final := %s; hc_expect_valid := %s; hc_must_reject := %s |})",
		lib.List(opTerms), lib.List(obs), lib.List(rows), coqTable(hk, hv), coqTable(sk, sv), lib.List(sigTerms),
		lib.List(finTerms), lib.Bool(expectValid), lib.Bool(mustReject))

	em.Tally("mode-history")
	em.Tally(fmt.Sprintf("history-computes-%d", nComputes))
	em.Tally("history-shape-" + shape.String())
	switch {
	case expectValid:
		em.Tally("class-history-valid")
	case mustReject:
		em.Tally("class-history-must-reject-" + strings.Join(mutList, "+"))
	case dirty:
		em.Tally("class-history-added-after-last-computation")
	default:
		em.Tally("class-history-neutral-" + strings.Join(mutList, "+"))
	}
	kh := sha256.Sum256([]byte(coq))
	em.Case(lib.Case{
		ID:         id,
		Coq:        coq,
		Key:        hex.EncodeToString(kh[:12]),
		Nontrivial: nComputes >= 2 || mustReject,
		Sig: map[string]interface{}{"mode": "history", "kinds": strings.Join(kindList, "+"), "shape": shape.String(),
			"mut": strings.Join(mutList, "+"), "expectValid": expectValid, "mustReject": mustReject, "dirty": dirty},
		In: in,
		Out: map[string]interface{}{"calls": obsOut, "txProduced": lastTx != nil, "engine": engineOut},
	})
}

// ------------------------------------------------------------------ history generators

func opIn(s inSpec) histOp    { return histOp{Op: "in", In: &s} }
func opOut(o outSpec) histOp  { return histOp{Op: "out", Out: &o} }
func opCompute() histOp       { return histOp{Op: "compute"} }
func opSign(s []sigSpec) histOp { return histOp{Op: "sign", Sigs: s} }

func genOut1(r *lib.Rng) outSpec {
	for {
		if o := genOuts(r); len(o) > 0 {
			return o[0]
		}
	}
}

func staleSigs(ins []inSpec, gen int) []sigSpec {
	s := goodSigs(ins)
	for i := range s {
		s[i].Gen = gen
	}
	return s
}

func histCorpus(em *lib.Emitter) {
	r := lib.NewRng(2727)
	keys := genKeys(r, 2)
	mk := func(kinds ...string) []inSpec {
		ins := make([]inSpec, len(kinds))
		for i, k := range kinds {
			ins[i] = genIn(r, k, 0, 2)
		}
		return ins
	}
	{ // the hashes are computed, an output (change) is appended, the hashes are computed again
		ins := mk("p2wpkh", "p2wsh", "p2sh", "p2pkh")
		h := []histOp{opIn(ins[0]), opIn(ins[1]), opIn(ins[2]), opIn(ins[3]), opOut(genOut1(r)), opCompute(),
			opOut(genOut1(r)), opCompute(), opSign(goodSigs(ins))}
		run(input{Keys: keys, Hist: h}, em, "corpus-history-recompute-after-output")
	}
	{ // ... an input is appended
		ins := mk("p2wsh", "p2wpkh")
		h := []histOp{opIn(ins[0]), opOut(genOut1(r)), opCompute(), opIn(ins[1]), opCompute(), opSign(goodSigs(ins))}
		run(input{Keys: keys, Hist: h}, em, "corpus-history-recompute-after-input")
	}
	{ // signatures over the hashes of the FIRST computation after the transaction changed
		ins := mk("p2wpkh", "p2pkh")
		h := []histOp{opIn(ins[0]), opIn(ins[1]), opOut(genOut1(r)), opCompute(), opOut(genOut1(r)), opCompute(),
			opSign(staleSigs(ins, 1))}
		run(input{Keys: keys, Hist: h}, em, "corpus-history-stale-signatures")
		h2 := append(append([]histOp{}, h...), opSign(goodSigs(ins)))
		run(input{Keys: keys, Hist: h2}, em, "corpus-history-stale-then-fresh-signatures")
	}
	{ // an output added AFTER the last computation: the stored hashes are verified, not fresh ones
		ins := mk("p2wsh", "p2pkh")
		h := []histOp{opIn(ins[0]), opIn(ins[1]), opOut(genOut1(r)), opCompute(), opOut(genOut1(r)), opSign(goodSigs(ins))}
		run(input{Keys: keys, Hist: h}, em, "corpus-history-output-after-last-computation")
	}
	{ // an input added AFTER the last computation: the stored list is indexed out of range
		ins := mk("p2wpkh", "p2sh")
		h := []histOp{opIn(ins[0]), opOut(genOut1(r)), opCompute(), opIn(ins[1]), opSign(goodSigs(ins))}
		run(input{Keys: keys, Hist: h}, em, "corpus-history-input-after-last-computation")
	}
	{ // the same transaction computed twice; a computation before anything was added
		ins := mk("p2sh", "p2wpkh")
		h := []histOp{opCompute(), opIn(ins[0]), opIn(ins[1]), opOut(genOut1(r)), opCompute(), opCompute(), opSign(goodSigs(ins))}
		run(input{Keys: keys, Hist: h}, em, "corpus-history-repeated-computation")
	}
	{ // a failing computation keeps the hashes of the previous one
		ins := mk("p2wpkh", "p2wsh")
		ins[1].Dep, ins[1].Redeem = nil, "truncated"
		h := []histOp{opIn(ins[0]), opOut(genOut1(r)), opCompute(), opIn(ins[1]), opCompute(), opSign(staleSigs(ins, 1))}
		run(input{Keys: keys, Hist: h}, em, "corpus-history-failed-recomputation")
	}
}

// genHist makes one random history of 3..8 operations before the final AddSignatures.
func genHist(r *lib.Rng) input {
	nKeys := r.Range(1, 2)
	keys := genKeys(r, nKeys)
	var h []histOp
	var ins []inSpec
	nOuts, nComp := 0, 0
	changed := map[int]bool{}
	dirty := true
	addIn := func() {
		s := genIn(r, kinds4[r.Intn(4)], 0, nKeys)
		if len(ins) > 0 && r.Chance(1, 4) {
			s.Txid, s.Vout = ins[len(ins)-1].Txid, ins[len(ins)-1].Vout+1
		}
		ins = append(ins, s)
		h = append(h, opIn(s))
		dirty = true
		for k := 1; k <= nComp; k++ {
			changed[k] = true
		}
	}
	addOut := func() {
		h = append(h, opOut(genOut1(r)))
		nOuts++
		dirty = true
		for k := 1; k <= nComp; k++ {
			changed[k] = true
		}
	}
	compute := func() {
		h = append(h, opCompute())
		nComp++
		dirty = false
	}
	addIn()
	if r.Bool() {
		addIn()
	}
	n := r.Range(3, 7)
	for len(h) < n {
		switch x := r.Intn(10); {
		case x < 2 && len(ins) < 4:
			addIn()
		case x < 6:
			addOut()
		default:
			compute()
		}
	}
	mode := r.Intn(20)
	switch {
	case mode < 12: // signatures over the last computation, nothing added afterwards
		if dirty {
			compute()
		}
		if nComp < 2 && r.Chance(2, 3) { // make sure most histories compute at least twice
			addOut()
			compute()
		}
		s := goodSigs(ins)
		if r.Chance(1, 5) {
			for i := range s {
				if r.Bool() {
					s[i].Mut = "highS"
				}
			}
		}
		h = append(h, opSign(s))
	case mode < 16: // signatures over an EARLIER computation's hashes after the transaction changed
		if dirty {
			compute()
		}
		if nComp < 2 || !changed[1] {
			addOut()
			compute()
		}
		h = append(h, opSign(staleSigs(ins, 1)))
		if r.Bool() { // the caller then signs the fresh hashes on the same builder
			h = append(h, opSign(goodSigs(ins)))
		}
	case mode < 18: // a signature / count fault against the last computation
		if dirty {
			compute()
		}
		in := input{Ins: ins, Sigs: goodSigs(ins)}
		mutate(r, &in, nKeys)
		h = append(h, opSign(in.Sigs))
	default: // something added after the last computation (code as written; no obligation)
		if dirty {
			compute()
		}
		if r.Bool() || len(ins) >= 4 {
			addOut()
		} else {
			addIn()
		}
		h = append(h, opSign(goodSigs(ins)))
	}
	return input{Keys: keys, Hist: h}
}
