// Driver for C27: the real bitcoin.TransactionBuilder (and tbtc signTransaction through the
// verif hook) on generated mixes of P2PKH / P2WPKH / P2SH / P2WSH inputs, real btcec keys signing
// the builder's signature hashes, then btcd's txscript engine with the standard verify flags on
// every input.  For the Coq model (Model/C27.v) the driver also tabulates, per input, the digests
// btcd / BIP-143 give for the candidate (algorithm, script code, amount) triples, so that the
// model's prediction of what the builder commits to can be compared with the builder's digest.
package main

import (
	"bytes"
	"crypto/ecdsa"
	"crypto/sha256"
	"encoding/binary"
	"encoding/hex"
	"fmt"
	"math/big"
	"os"
	"sort"
	"strings"

	"github.com/btcsuite/btcd/btcec"
	"github.com/btcsuite/btcd/chaincfg/chainhash"
	"github.com/btcsuite/btcd/txscript"
	"github.com/btcsuite/btcd/wire"
	"github.com/btcsuite/btcutil"

	"github.com/keep-network/keep-core/pkg/bitcoin"
	"github.com/keep-network/keep-core/pkg/chain"
	"github.com/keep-network/keep-core/pkg/tbtc"
	"github.com/keep-network/keep-core/pkg/tecdsa"

	"verifharness/lib"
)

// ------------------------------------------------------------------ replayable input

type depSpec struct {
	Depositor string  `json:"depositor"` // 40 hex digits
	Blinding  string  `json:"blinding"`  // 16 hex digits
	Extra     *string `json:"extra"`     // 64 hex digits or null
	RefundKey int     `json:"refundKey"`
	Locktime  string  `json:"locktime"` // 8 hex digits
}

type inSpec struct {
	Kind   string   `json:"kind"` // p2pkh | p2wpkh | p2sh | p2wsh | raw
	Api    string   `json:"api"`  // pkh | sh : which builder method is called
	Key    int      `json:"key"`  // the key the script commits to
	Value  int64    `json:"value"`
	Txid   string   `json:"txid"`
	Vout   uint32   `json:"vout"`
	Dep    *depSpec `json:"dep"`    // sh with a deposit script
	Redeem string   `json:"redeem"` // sh with another redeem script: "p2pkh", "pkchecksig", "truncated" or hex
	Raw    string   `json:"raw"`    // kind raw: the UTXO script (hex)
}

type outSpec struct {
	Value  int64  `json:"value"`
	Script string `json:"script"`
}

type sigSpec struct {
	Signer    int    `json:"signer"`    // key that signs
	Container int    `json:"container"` // key put into the SignatureContainer
	DigestOf  int    `json:"digestOf"`  // index of the input whose digest is signed
	Mut       string `json:"mut"`       // "" | highS | flipR | flipS | zeroS
	Gen       int    `json:"gen,omitempty"` // histories: 0 = hashes of the last computation, k = of the k-th ComputeSignatureHashes call
}

type input struct {
	Keys   []string  `json:"keys"`
	Ins    []inSpec  `json:"ins"`
	Outs   []outSpec `json:"outs"`
	Sigs   []sigSpec `json:"sigs"`
	Wallet bool      `json:"wallet"` // go through tbtc signTransaction (container key = key 0)
	Hist   []histOp  `json:"hist,omitempty"` // an operation history on ONE builder (then Ins/Outs/Sigs are unused)
}

// ------------------------------------------------------------------ fake chain

type fakeChain struct {
	bitcoin.Chain
	txs map[bitcoin.Hash]*bitcoin.Transaction
}

func (f *fakeChain) GetTransaction(h bitcoin.Hash) (*bitcoin.Transaction, error) {
	t, ok := f.txs[h]
	if !ok {
		return nil, fmt.Errorf("unknown transaction")
	}
	return t, nil
}

// ------------------------------------------------------------------ helpers

func mustHex(s string) []byte {
	b, err := hex.DecodeString(s)
	if err != nil {
		panic("driver: bad hex " + s)
	}
	return b
}

func pad32(b []byte) []byte {
	if len(b) >= 32 {
		return b
	}
	out := make([]byte, 32)
	copy(out[32-len(b):], b)
	return out
}

func dsha(b []byte) []byte {
	a := sha256.Sum256(b)
	c := sha256.Sum256(a[:])
	return c[:]
}

func writeVarInt(w *bytes.Buffer, n uint64) {
	_ = wire.WriteVarInt(w, 0, n)
}

// bip143 computes the BIP-143 SIGHASH_ALL digest with the script code taken literally.
func bip143(tx *wire.MsgTx, idx int, code []byte, amount int64) []byte {
	var prev, seqs, outs bytes.Buffer
	for _, in := range tx.TxIn {
		prev.Write(in.PreviousOutPoint.Hash[:])
		_ = binary.Write(&prev, binary.LittleEndian, in.PreviousOutPoint.Index)
		_ = binary.Write(&seqs, binary.LittleEndian, in.Sequence)
	}
	for _, o := range tx.TxOut {
		_ = binary.Write(&outs, binary.LittleEndian, o.Value)
		writeVarInt(&outs, uint64(len(o.PkScript)))
		outs.Write(o.PkScript)
	}
	var p bytes.Buffer
	_ = binary.Write(&p, binary.LittleEndian, tx.Version)
	p.Write(dsha(prev.Bytes()))
	p.Write(dsha(seqs.Bytes()))
	in := tx.TxIn[idx]
	p.Write(in.PreviousOutPoint.Hash[:])
	_ = binary.Write(&p, binary.LittleEndian, in.PreviousOutPoint.Index)
	writeVarInt(&p, uint64(len(code)))
	p.Write(code)
	_ = binary.Write(&p, binary.LittleEndian, amount)
	_ = binary.Write(&p, binary.LittleEndian, in.Sequence)
	p.Write(dsha(outs.Bytes()))
	_ = binary.Write(&p, binary.LittleEndian, tx.LockTime)
	_ = binary.Write(&p, binary.LittleEndian, uint32(txscript.SigHashAll))
	return dsha(p.Bytes())
}

func engineAccepts(pkScript []byte, tx *wire.MsgTx, idx int, amount int64) (ok bool, note string) {
	defer func() {
		if r := recover(); r != nil {
			ok, note = false, fmt.Sprintf("engine panic: %v", r)
		}
	}()
	vm, err := txscript.NewEngine(pkScript, tx, idx, txscript.StandardVerifyFlags, nil, nil, amount)
	if err != nil {
		return false, err.Error()
	}
	if err := vm.Execute(); err != nil {
		return false, err.Error()
	}
	return true, ""
}

func coqBytesList(l [][]byte) string {
	s := make([]string, len(l))
	for i, b := range l {
		s[i] = lib.Bytes(b)
	}
	return lib.List(s)
}

func coqTable(keys [][]byte, vals [][]byte) string {
	s := make([]string, len(keys))
	for i := range keys {
		s[i] = lib.Pair(lib.Bytes(keys[i]), lib.Bytes(vals[i]))
	}
	return lib.List(s)
}

// ------------------------------------------------------------------ one case

type resolvedIn struct {
	spec       inSpec
	utxoScript []byte
	redeem     []byte // nil for pkh api
	p2pkhProg  []byte
	regular    bool // well-formed P2PKH/P2WPKH wallet input or deposit input committed to spec.Key
}

func depositScript(d *depSpec, walletPKH [20]byte, refundPKH [20]byte) []byte {
	dep := &tbtc.Deposit{Depositor: chain.Address("0x" + d.Depositor)}
	copy(dep.BlindingFactor[:], mustHex(d.Blinding))
	dep.WalletPublicKeyHash = walletPKH
	dep.RefundPublicKeyHash = refundPKH
	copy(dep.RefundLocktime[:], mustHex(d.Locktime))
	if d.Extra != nil {
		var e [32]byte
		copy(e[:], mustHex(*d.Extra))
		dep.ExtraData = &e
	}
	s, err := dep.Script()
	if err != nil {
		panic("driver: deposit script: " + err.Error())
	}
	return s
}

// resolveIn derives the scripts of one input specification.
func resolveIn(s inSpec, pkhs [][20]byte, pkBytes [][]byte) resolvedIn {
	r := resolvedIn{spec: s}
	pkh := pkhs[s.Key]
	if s.Api == "sh" {
		switch {
		case s.Dep != nil:
			r.redeem = depositScript(s.Dep, pkh, pkhs[s.Dep.RefundKey])
			r.regular = true
		case s.Redeem == "p2pkh":
			r.redeem, _ = bitcoin.PayToPublicKeyHash(pkh)
		case s.Redeem == "pkchecksig":
			r.redeem = append(append([]byte{33}, pkBytes[s.Key]...), 0xac)
		case s.Redeem == "truncated":
			r.redeem = []byte{0x14, 1, 2, 3}
		default:
			r.redeem = mustHex(s.Redeem)
		}
	}
	switch s.Kind {
	case "p2pkh":
		r.utxoScript, _ = bitcoin.PayToPublicKeyHash(pkh)
		r.regular = s.Api == "pkh"
	case "p2wpkh":
		r.utxoScript, _ = bitcoin.PayToWitnessPublicKeyHash(pkh)
		r.regular = s.Api == "pkh"
	case "p2sh":
		red := r.redeem
		if red == nil {
			red = []byte{0x51}
		}
		r.utxoScript, _ = bitcoin.PayToScriptHash(bitcoin.ScriptHash(red))
		r.regular = r.regular && s.Api == "sh"
	case "p2wsh":
		red := r.redeem
		if red == nil {
			red = []byte{0x51}
		}
		r.utxoScript, _ = bitcoin.PayToWitnessScriptHash(bitcoin.WitnessScriptHash(red))
		r.regular = r.regular && s.Api == "sh"
	default:
		r.utxoScript = mustHex(s.Raw)
		r.regular = false
	}
	if len(r.utxoScript) == 22 && r.utxoScript[0] == 0 && r.utxoScript[1] == 20 {
		r.p2pkhProg, _ = txscript.NewScriptBuilder().AddOp(txscript.OP_DUP).AddOp(txscript.OP_HASH160).
			AddData(r.utxoScript[2:]).AddOp(txscript.OP_EQUALVERIFY).AddOp(txscript.OP_CHECKSIG).Script()
	}
	return r
}

// fund makes the UTXO of the specification exist on the fake chain.
func (f *fakeChain) fund(s inSpec, script []byte) {
	var h bitcoin.Hash
	copy(h[:], mustHex(s.Txid))
	ftx, ok := f.txs[h]
	if !ok {
		ftx = &bitcoin.Transaction{Version: 1}
		f.txs[h] = ftx
	}
	for uint32(len(ftx.Outputs)) <= s.Vout {
		ftx.Outputs = append(ftx.Outputs, &bitcoin.TransactionOutput{Value: 1, PublicKeyScript: []byte{0x51}})
	}
	ftx.Outputs[s.Vout] = &bitcoin.TransactionOutput{Value: s.Value, PublicKeyScript: script}
}

func run(in input, em *lib.Emitter, id string) {
	if len(in.Hist) > 0 {
		runHist(in, em, id)
		return
	}
	keys := make([]*btcec.PrivateKey, len(in.Keys))
	pkhs := make([][20]byte, len(in.Keys))
	pkBytes := make([][]byte, len(in.Keys))
	for i, k := range in.Keys {
		priv, pub := btcec.PrivKeyFromBytes(btcec.S256(), mustHex(k))
		keys[i] = priv
		pkBytes[i] = pub.SerializeCompressed()
		copy(pkhs[i][:], btcutil.Hash160(pkBytes[i]))
	}

	// resolve scripts, fund the fake chain
	fc := &fakeChain{txs: map[bitcoin.Hash]*bitcoin.Transaction{}}
	res := make([]resolvedIn, len(in.Ins))
	for i, s := range in.Ins {
		r := resolveIn(s, pkhs, pkBytes)
		res[i] = r

		fc.fund(s, r.utxoScript)
	}

	// the unsigned transaction as the builder is expected to lay it out
	msg := wire.NewMsgTx(1)
	for _, s := range in.Ins {
		var h chainhash.Hash
		copy(h[:], mustHex(s.Txid))
		msg.AddTxIn(wire.NewTxIn(wire.NewOutPoint(&h, s.Vout), nil, nil))
	}
	for _, o := range in.Outs {
		msg.AddTxOut(wire.NewTxOut(o.Value, mustHex(o.Script)))
	}

	// ---- run the implementation
	var (
		buildOk     = true
		panicked    = false
		note        string
		digests     []*big.Int
		tx          *bitcoin.Transaction
		containers  []*bitcoin.SignatureContainer // what was (or would be) handed to AddSignatures
		haveDigests bool
	)
	makeSigs := func(ds []*big.Int) ([]*bitcoin.SignatureContainer, []*tecdsa.Signature) {
		cs := make([]*bitcoin.SignatureContainer, len(in.Sigs))
		ts := make([]*tecdsa.Signature, len(in.Sigs))
		for k, sp := range in.Sigs {
			d := ds[sp.DigestOf%len(ds)]
			sig, err := keys[sp.Signer].Sign(pad32(d.Bytes()))
			if err != nil {
				panic("driver: sign: " + err.Error())
			}
			r, s := new(big.Int).Set(sig.R), new(big.Int).Set(sig.S)
			n := btcec.S256().N
			switch sp.Mut {
			case "highS":
				half := new(big.Int).Rsh(n, 1)
				if s.Cmp(half) <= 0 {
					s.Sub(n, s)
				}
			case "flipR":
				r.Add(r, big.NewInt(1))
			case "flipS":
				s.Add(s, big.NewInt(1))
			case "zeroS":
				s.SetInt64(0)
			}
			pub := keys[sp.Container].PubKey().ToECDSA()
			cs[k] = &bitcoin.SignatureContainer{R: r, S: s, PublicKey: pub}
			ts[k] = &tecdsa.Signature{R: r, S: s}
		}
		return cs, ts
	}
	func() {
		defer func() {
			if r := recover(); r != nil {
				panicked, note = true, fmt.Sprintf("panic: %v", r)
			}
		}()
		tb := bitcoin.NewTransactionBuilder(fc)
		for i, s := range in.Ins {
			var h bitcoin.Hash
			copy(h[:], mustHex(s.Txid))
			u := &bitcoin.UnspentTransactionOutput{
				Outpoint: &bitcoin.TransactionOutpoint{TransactionHash: h, OutputIndex: s.Vout},
				Value:    s.Value,
			}
			var err error
			if s.Api == "pkh" {
				err = tb.AddPublicKeyHashInput(u)
			} else {
				err = tb.AddScriptHashInput(u, res[i].redeem)
			}
			if err != nil {
				buildOk, note = false, err.Error()
				return
			}
		}
		for _, o := range in.Outs {
			tb.AddOutput(&bitcoin.TransactionOutput{Value: o.Value, PublicKeyScript: mustHex(o.Script)})
		}
		if in.Wallet {
			var err error
			tx, err = tbtc.VerifSignTransaction(fc, keys[0].PubKey().ToECDSA(),
				func(messages []*big.Int) ([]*tecdsa.Signature, error) {
					digests, haveDigests = messages, true
					if len(messages) == 0 {
						return nil, nil
					}
					cs, ts := makeSigs(messages)
					containers = cs
					return ts, nil
				}, tb)
			if err != nil {
				note = err.Error()
				tx = nil
				if !haveDigests {
					buildOk = false // ComputeSignatureHashes failed
				}
			}
		} else {
			ds, err := tb.ComputeSignatureHashes()
			if err != nil {
				buildOk, note = false, err.Error()
				return
			}
			digests, haveDigests = ds, true
			if len(ds) > 0 {
				containers, _ = makeSigs(ds)
			}
			tx, err = tb.AddSignatures(containers)
			if err != nil {
				note = err.Error()
				tx = nil
			}
		}
	}()

	// ---- digest table
	ids := map[string]uint64{}
	idOf := func(d []byte) uint64 {
		k := hex.EncodeToString(pad32(d))
		if v, ok := ids[k]; ok {
			return v
		}
		ids[k] = uint64(len(ids) + 1)
		return ids[k]
	}
	rows := make([][]string, len(res))
	if buildOk && !panicked && haveDigests {
		for i, r := range res {
			type cand struct {
				kind string
				code []byte
			}
			cands := []cand{{"KUtxoScript", r.utxoScript}}
			if r.redeem != nil {
				cands = append(cands, cand{"KRedeem", r.redeem})
			}
			if r.p2pkhProg != nil {
				cands = append(cands, cand{"KP2pkhOfProgram", r.p2pkhProg})
				// self-check of the literal BIP-143 implementation against btcd
				want, err := txscript.CalcWitnessSigHash(r.utxoScript, txscript.NewTxSigHashes(msg),
					txscript.SigHashAll, msg, i, r.spec.Value)
				if err != nil || !bytes.Equal(want, bip143(msg, i, r.p2pkhProg, r.spec.Value)) {
					panic("driver self-check: BIP-143 digest differs from btcd")
				}
			}
			values := []int64{r.spec.Value}
			if o := res[(i+1)%len(res)].spec.Value; o != r.spec.Value {
				values = append(values, o)
			}
			for _, c := range cands {
				if d, err := txscript.CalcSignatureHash(c.code, txscript.SigHashAll, msg, i); err == nil {
					rows[i] = append(rows[i], fmt.Sprintf("{| dr_ver := Legacy; dr_code := %s; dr_value := %s; dr_id := %s |}",
						c.kind, lib.Z(r.spec.Value), lib.N(idOf(d))))
				}
				for _, v := range values {
					rows[i] = append(rows[i], fmt.Sprintf("{| dr_ver := Bip143; dr_code := %s; dr_value := %s; dr_id := %s |}",
						c.kind, lib.Z(v), lib.N(idOf(bip143(msg, i, c.code, v)))))
				}
			}
		}
	}
	builderDigest := make([]string, len(res))
	for i := range res {
		builderDigest[i] = "None"
		if haveDigests && i < len(digests) {
			builderDigest[i] = lib.Some(lib.N(idOf(digests[i].Bytes())))
		}
	}

	// ---- signatures as observed, and which digests each verifies against (Go ecdsa)
	allDigests := make([]string, 0, len(ids))
	for k := range ids {
		allDigests = append(allDigests, k)
	}
	sort.Strings(allDigests)
	sigTerms := make([]string, len(containers))
	for k, c := range containers {
		var valid []uint64
		for _, dh := range allDigests {
			if ecdsa.Verify(c.PublicKey, mustHex(dh), c.R, c.S) {
				valid = append(valid, ids[dh])
			}
		}
		sort.Slice(valid, func(a, b int) bool { return valid[a] < valid[b] })
		der := []byte{}
		if c.R.Sign() > 0 && c.S.Sign() > 0 {
			der = (&btcec.Signature{R: c.R, S: c.S}).Serialize()
		}
		sigTerms[k] = fmt.Sprintf("{| so_pk := %s; so_der := %s; so_valid_for := %s |}",
			lib.Bytes((*btcec.PublicKey)(c.PublicKey).SerializeCompressed()), lib.Bytes(der), lib.ListN(valid))
	}

	// ---- engine on every input of the produced transaction
	engine := make([]string, len(res))
	engineOut := make([]interface{}, len(res))
	scriptSigs := make([][]byte, len(res))
	witnesses := make([][][]byte, len(res))
	for i := range res {
		engine[i] = "None"
	}
	if tx != nil {
		signed := wire.NewMsgTx(tx.Version)
		signed.LockTime = tx.Locktime
		for _, ti := range tx.Inputs {
			h := chainhash.Hash(ti.Outpoint.TransactionHash)
			txin := wire.NewTxIn(wire.NewOutPoint(&h, ti.Outpoint.OutputIndex), ti.SignatureScript, ti.Witness)
			txin.Sequence = ti.Sequence
			signed.AddTxIn(txin)
		}
		for _, o := range tx.Outputs {
			signed.AddTxOut(wire.NewTxOut(o.Value, o.PublicKeyScript))
		}
		for i, r := range res {
			if i >= len(signed.TxIn) {
				break
			}
			ok, why := engineAccepts(r.utxoScript, signed, i, r.spec.Value)
			engine[i] = lib.Some(lib.Bool(ok))
			engineOut[i] = map[string]interface{}{"accepted": ok, "error": why}
			scriptSigs[i] = signed.TxIn[i].SignatureScript
			witnesses[i] = signed.TxIn[i].Witness
			em.Tally(fmt.Sprintf("engine-%s-%v", r.spec.Kind, ok))
		}
	}

	// ---- hash tables
	var hk, hv, sk, sv [][]byte
	seen := map[string]bool{}
	add160 := func(b []byte) {
		if b == nil || seen["h"+string(b)] {
			return
		}
		seen["h"+string(b)] = true
		hk, hv = append(hk, b), append(hv, btcutil.Hash160(b))
	}
	for _, c := range containers {
		add160((*btcec.PublicKey)(c.PublicKey).SerializeCompressed())
	}
	for _, r := range res {
		if r.redeem == nil {
			continue
		}
		if r.spec.Kind == "p2wsh" {
			if !seen["s"+string(r.redeem)] {
				seen["s"+string(r.redeem)] = true
				d := sha256.Sum256(r.redeem)
				sk, sv = append(sk, r.redeem), append(sv, d[:])
			}
		} else {
			add160(r.redeem)
		}
	}

	// ---- classification of the case
	n := len(in.Ins)
	allRegular := true
	kinds := map[string]bool{}
	for _, r := range res {
		allRegular = allRegular && r.regular
		kinds[r.spec.Kind] = true
	}
	sigsAsExpected := len(in.Sigs) == n
	mustReject := len(in.Sigs) != n
	muts := map[string]bool{}
	for k, sp := range in.Sigs {
		if k >= n {
			break
		}
		good := sp.Signer == sp.Container && sp.DigestOf == k && (sp.Mut == "" || sp.Mut == "highS")
		if !good {
			mustReject = true // the signature does not verify against input k's digest
		}
		if !good || sp.Signer != in.Ins[k].Key {
			sigsAsExpected = false
		}
		if sp.Mut != "" {
			muts[sp.Mut] = true
		}
		if sp.DigestOf != k {
			muts["swap"] = true
		}
		if sp.Signer != sp.Container {
			muts["otherkey"] = true
		} else if sp.Signer != in.Ins[k].Key {
			muts["foreign"] = true
		}
	}
	if n == 0 {
		mustReject = true // no digests: "signature hashes must be computed first"
	}
	if !buildOk {
		mustReject = false
	}
	expectValid := allRegular && sigsAsExpected && n > 0

	kindList := make([]string, 0, len(kinds))
	for k := range kinds {
		kindList = append(kindList, k)
	}
	sort.Strings(kindList)
	mutList := make([]string, 0, len(muts))
	for k := range muts {
		mutList = append(mutList, k)
	}
	sort.Strings(mutList)
	if len(in.Sigs) != n {
		mutList = append(mutList, "count")
	}

	inTerms := make([]string, n)
	txids := map[string]uint64{}
	for i, r := range res {
		kind := "KPkh"
		if r.spec.Api == "sh" {
			kind = "(KSh " + lib.Bytes(r.redeem) + ")"
		}
		if _, ok := txids[r.spec.Txid]; !ok {
			txids[r.spec.Txid] = uint64(len(txids) + 1)
		}
		txidID := txids[r.spec.Txid]
		inTerms[i] = fmt.Sprintf("{| ic_input := {| in_utxo := {| u_txid := %s; u_vout := %s; u_value := %s |}; in_script := %s; in_kind_ := %s |}; "+
			"ic_p2pkh := %s; ic_digests := %s; ic_builder_digest := %s; ic_engine := %s; ic_script_sig := %s; ic_witness := %s |}",
			lib.N(txidID), lib.N(uint64(r.spec.Vout)), lib.Z(r.spec.Value), lib.Bytes(r.utxoScript), kind,
			lib.Bytes(r.p2pkhProg), lib.List(rows[i]), builderDigest[i], engine[i],
			lib.Bytes(scriptSigs[i]), coqBytesList(witnesses[i]))
	}
	outTerms := make([]string, len(in.Outs))
	for i, o := range in.Outs {
		outTerms[i] = lib.Pair(lib.Z(o.Value), lib.Bytes(mustHex(o.Script)))
	}
	coq := fmt.Sprintf("{| tc_ins := %s; tc_outs := %s; tc_hash160 := %s; tc_sha256 := %s; tc_sigs := %s; "+
		"tc_expect_valid := %s; tc_must_reject := %s; tc_build_ok := %s; tc_panic := %s; tc_tx_produced := %s |}",
		lib.List(inTerms), lib.List(outTerms), coqTable(hk, hv), coqTable(sk, sv), lib.List(sigTerms),
		lib.Bool(expectValid), lib.Bool(mustReject), lib.Bool(buildOk), lib.Bool(panicked), lib.Bool(tx != nil))

	mode := "direct"
	if in.Wallet {
		mode = "wallet"
	}
	em.Tally("mode-" + mode)
	em.Tally(fmt.Sprintf("inputs-%02d", n))
	em.Tally("kinds-" + strings.Join(kindList, "+"))
	switch {
	case !buildOk:
		em.Tally("class-build-error")
	case expectValid:
		em.Tally("class-valid")
	case mustReject:
		em.Tally("class-must-reject-" + strings.Join(mutList, "+"))
	default:
		em.Tally("class-neutral-" + strings.Join(mutList, "+"))
	}
	kh := sha256.Sum256([]byte(coq))
	em.Case(lib.Case{
		ID:         id,
		Coq:        "(CTx " + coq + ")",
		Key:        hex.EncodeToString(kh[:12]),
		Nontrivial: buildOk && (len(kinds) >= 2 || mustReject),
		Sig: map[string]interface{}{"mode": mode, "kinds": strings.Join(kindList, "+"),
			"mut": strings.Join(mutList, "+"), "expectValid": expectValid, "mustReject": mustReject},
		In: in,
		Out: map[string]interface{}{"buildOk": buildOk, "panic": panicked, "txProduced": tx != nil,
			"note": note, "engine": engineOut},
	})
}

// ------------------------------------------------------------------ generators

func hexOf(r *lib.Rng, n int) string { return hex.EncodeToString(r.Bytes(n)) }

func genKeys(r *lib.Rng, n int) []string {
	ks := make([]string, n)
	for i := range ks {
		b := r.Bytes(32)
		b[0] &= 0x7f // below the group order
		b[31] |= 1
		ks[i] = hex.EncodeToString(b)
	}
	return ks
}

func genDep(r *lib.Rng, nKeys int) *depSpec {
	d := &depSpec{Depositor: hexOf(r, 20), Blinding: hexOf(r, 8), RefundKey: r.Intn(nKeys)}
	if r.Bool() {
		e := hexOf(r, 32)
		d.Extra = &e
	}
	lt := make([]byte, 4)
	binary.LittleEndian.PutUint32(lt, uint32(1600000000+r.Intn(200000000)))
	if r.Chance(1, 5) {
		lt = r.Bytes(4)
	}
	d.Locktime = hex.EncodeToString(lt)
	return d
}

func genIn(r *lib.Rng, kind string, key int, nKeys int) inSpec {
	s := inSpec{Kind: kind, Key: key, Txid: hexOf(r, 32), Vout: uint32(r.Intn(4))}
	switch r.Intn(4) {
	case 0:
		s.Value = int64(r.Range(546, 100000))
	case 1:
		s.Value = int64(r.Range(100000, 2100000000))
	case 2:
		s.Value = int64(r.U64() % 2100000000000000)
	default:
		s.Value = []int64{0, 1, 546, 100000000, 2100000000000000}[r.Intn(5)]
	}
	if kind == "p2pkh" || kind == "p2wpkh" {
		s.Api = "pkh"
	} else {
		s.Api = "sh"
		s.Dep = genDep(r, nKeys)
	}
	return s
}

func genOuts(r *lib.Rng) []outSpec {
	n := r.Range(1, 3)
	if r.Chance(1, 10) {
		n = 0
	}
	outs := make([]outSpec, n)
	for i := range outs {
		var script []byte
		switch r.Intn(4) {
		case 0:
			script = append([]byte{0x76, 0xa9, 0x14}, append(r.Bytes(20), 0x88, 0xac)...)
		case 1:
			script = append([]byte{0x00, 0x14}, r.Bytes(20)...)
		case 2:
			script = append([]byte{0xa9, 0x14}, append(r.Bytes(20), 0x87)...)
		default:
			script = append([]byte{0x00, 0x20}, r.Bytes(32)...)
		}
		outs[i] = outSpec{Value: int64(r.Range(0, 1000000)), Script: hex.EncodeToString(script)}
	}
	return outs
}

var kinds4 = []string{"p2pkh", "p2wpkh", "p2sh", "p2wsh"}

func goodSigs(ins []inSpec) []sigSpec {
	s := make([]sigSpec, len(ins))
	for i, in := range ins {
		s[i] = sigSpec{Signer: in.Key, Container: in.Key, DigestOf: i}
	}
	return s
}

// mutate injects one signature / count fault
func mutate(r *lib.Rng, in *input, nKeys int) {
	n := len(in.Ins)
	choices := []string{"count-", "count+", "count0", "flipR", "flipS", "zeroS", "otherkey", "foreign"}
	if n >= 2 {
		choices = append(choices, "swap", "swap")
	}
	k := r.Intn(n)
	switch c := choices[r.Intn(len(choices))]; c {
	case "count-":
		in.Sigs = in.Sigs[:n-1]
	case "count+":
		in.Sigs = append(in.Sigs, in.Sigs[r.Intn(n)])
	case "count0":
		in.Sigs = nil
	case "swap":
		j := (k + 1 + r.Intn(n-1)) % n
		in.Sigs[k].DigestOf = j
	case "otherkey":
		if nKeys < 2 {
			in.Sigs[k].Mut = "flipS"
		} else {
			in.Sigs[k].Signer = (in.Sigs[k].Signer + 1 + r.Intn(nKeys-1)) % nKeys
		}
	case "foreign":
		if nKeys < 2 || in.Wallet {
			in.Sigs[k].Mut = "flipR"
		} else {
			o := (in.Sigs[k].Signer + 1 + r.Intn(nKeys-1)) % nKeys
			in.Sigs[k].Signer, in.Sigs[k].Container = o, o
		}
	default:
		in.Sigs[k].Mut = c
	}
}

func main() {
	o := lib.ParseOpts()
	em := lib.NewEmitter()
	if o.Replay != "" {
		var in input
		if err := lib.LoadReplay(o.Replay, &in); err != nil {
			fmt.Fprintln(os.Stderr, err)
			os.Exit(2)
		}
		run(in, em, "replay")
		em.Close("replay", nil)
		return
	}
	rng := lib.NewRng(o.Seed)

	// --- corpus
	{
		r := lib.NewRng(27)
		keys := genKeys(r, 2)
		all := []inSpec{}
		for _, k := range kinds4 {
			all = append(all, genIn(r, k, 0, 2))
		}
		outs := genOuts(r)
		run(input{Keys: keys, Ins: all, Outs: outs, Sigs: goodSigs(all), Wallet: true}, em, "corpus-all-four-wallet")
		run(input{Keys: keys, Ins: all, Outs: outs, Sigs: goodSigs(all)}, em, "corpus-all-four-direct")
		for _, k := range kinds4 {
			one := []inSpec{genIn(r, k, 0, 2)}
			run(input{Keys: keys, Ins: one, Outs: outs, Sigs: goodSigs(one), Wallet: true}, em, "corpus-single-"+k)
		}
		sw := goodSigs(all)
		sw[0].DigestOf, sw[1].DigestOf = 1, 0
		run(input{Keys: keys, Ins: all, Outs: outs, Sigs: sw, Wallet: true}, em, "corpus-swapped-digests")
		run(input{Keys: keys, Ins: all, Outs: outs, Sigs: goodSigs(all)[:3], Wallet: true}, em, "corpus-missing-signature")
		hs := goodSigs(all)
		for i := range hs {
			hs[i].Mut = "highS"
		}
		run(input{Keys: keys, Ins: all, Outs: outs, Sigs: hs}, em, "corpus-high-s")
		run(input{Keys: keys, Ins: nil, Outs: outs, Sigs: nil}, em, "corpus-no-inputs")
		bad := genIn(r, "p2sh", 0, 2)
		bad.Api, bad.Dep = "pkh", nil
		run(input{Keys: keys, Ins: []inSpec{bad}, Outs: outs, Sigs: nil}, em, "corpus-pkh-api-on-p2sh")
		tr := genIn(r, "p2wsh", 0, 2)
		tr.Dep, tr.Redeem = nil, "truncated"
		run(input{Keys: keys, Ins: []inSpec{tr}, Outs: outs, Sigs: goodSigs([]inSpec{tr})}, em, "corpus-unparsable-redeem")
		// regression: a raw UTXO script ending in OP_PUSHDATA4 with a declared length of 2^31 bytes
		// (the model must compare that length as a binary number)
		hp := genIn(r, "p2wsh", 0, 2)
		hp.Kind, hp.Raw = "raw", "610e38f2bc6ec600f5ac7519fb9d6634644e12b0977dffb0f9"
		run(input{Keys: keys, Ins: []inSpec{all[3], hp}, Outs: outs, Sigs: goodSigs([]inSpec{all[3], hp}), Wallet: true}, em, "corpus-huge-pushdata4-length")
	}

	// --- operation histories on one long-lived builder
	histCorpus(em)
	nHist := o.Count(52, 600)
	for i := 0; i < nHist; i++ {
		run(genHist(rng.Fork(fmt.Sprintf("hist%d", i))), em, fmt.Sprintf("hist-%d", i))
	}

	// --- exhaustive small scope: every ordered mix of the four kinds with 1..3 inputs (wallet key)
	var mixes [][]string
	var rec func(cur []string)
	rec = func(cur []string) {
		if len(cur) >= 1 {
			mixes = append(mixes, append([]string{}, cur...))
		}
		if len(cur) == 3 {
			return
		}
		for _, k := range kinds4 {
			rec(append(cur, k))
		}
	}
	rec(nil)
	perm := rng.Fork("mixes").Perm(len(mixes))
	nMix := o.Count(84, len(mixes))
	for i := 0; i < nMix && i < len(mixes); i++ {
		r := rng.Fork(fmt.Sprintf("mix%d", i))
		mix := mixes[perm[i]]
		if o.Tier == "quick" && len(mix) == 3 && i%2 == 1 {
			continue
		}
		keys := genKeys(r, 2)
		ins := make([]inSpec, len(mix))
		for j, k := range mix {
			ins[j] = genIn(r, k, 0, 2)
		}
		in := input{Keys: keys, Ins: ins, Outs: genOuts(r), Sigs: goodSigs(ins), Wallet: r.Bool()}
		run(in, em, fmt.Sprintf("mix-%d", i))
		bad := in
		bad.Sigs = goodSigs(ins)
		mutate(r, &bad, 2)
		run(bad, em, fmt.Sprintf("mix-%d-mut", i))
	}

	// --- random larger mixes
	nRand := o.Count(120, 1500)
	for i := 0; i < nRand; i++ {
		r := rng.Fork(fmt.Sprintf("rand%d", i))
		nKeys := r.Range(1, 3)
		keys := genKeys(r, nKeys)
		n := r.Range(1, 5)
		if r.Chance(1, 6) {
			n = r.Range(6, 9)
		}
		wallet := r.Chance(2, 3)
		ins := make([]inSpec, n)
		for j := range ins {
			key := 0
			if !wallet {
				key = r.Intn(nKeys)
			}
			ins[j] = genIn(r, kinds4[r.Intn(4)], key, nKeys)
			if j > 0 && r.Chance(1, 4) { // several outputs of one funding transaction
				ins[j].Txid = ins[j-1].Txid
				ins[j].Vout = ins[j-1].Vout + 1
			}
			if j > 0 && r.Chance(1, 5) {
				ins[j].Value = ins[j-1].Value
			}
		}
		in := input{Keys: keys, Ins: ins, Outs: genOuts(r), Sigs: goodSigs(ins), Wallet: wallet}
		switch r.Intn(10) {
		case 0, 1, 2: // injected signature faults
			mutate(r, &in, nKeys)
		case 3: // malformed stream: wrong API for the script, odd scripts, non-deposit redeem scripts
			j := r.Intn(n)
			switch r.Intn(6) {
			case 0:
				if in.Ins[j].Api == "pkh" {
					in.Ins[j].Api, in.Ins[j].Redeem = "sh", "p2pkh"
				} else {
					in.Ins[j].Api, in.Ins[j].Dep = "pkh", nil
				}
			case 1:
				in.Ins[j].Kind, in.Ins[j].Raw = "raw", hexOf(r, r.Range(0, 40))
			case 2:
				in.Ins[j].Kind, in.Ins[j].Api, in.Ins[j].Dep, in.Ins[j].Redeem = kinds4[2+r.Intn(2)], "sh", nil, "p2pkh"
			case 3:
				in.Ins[j].Kind, in.Ins[j].Api, in.Ins[j].Dep, in.Ins[j].Redeem = kinds4[2+r.Intn(2)], "sh", nil, "pkchecksig"
			case 4:
				in.Ins[j].Kind, in.Ins[j].Api, in.Ins[j].Dep, in.Ins[j].Redeem = kinds4[2+r.Intn(2)], "sh", nil, "truncated"
			default:
				// a deposit whose wallet key hash is another key's: signature by the input key is
				// valid ECDSA but the script does not commit to it
				if nKeys >= 2 && !wallet {
					in.Sigs[j].Signer = (in.Ins[j].Key + 1) % nKeys
					in.Sigs[j].Container = in.Sigs[j].Signer
				}
			}
		case 4:
			for j := range in.Sigs {
				if r.Bool() {
					in.Sigs[j].Mut = "highS"
				}
			}
		}
		run(in, em, fmt.Sprintf("rand-%d", i))
	}
	em.Close("a case is one transaction, or one operation history on one builder (Add*Input, AddOutput, "+
		"ComputeSignatureHashes several times, AddSignatures with signatures over the last or an earlier "+
		"computation; non-trivial when the hashes were computed at least twice or the final signatures must "+
		"be refused); a transaction case is: inputs of the four kinds, outputs, one signature container per "+
		"input (possibly faulted), run through the real builder (and tbtc signTransaction in wallet mode) "+
		"and btcd's engine on every input; distinct by the whole case term; non-trivial when the build "+
		"succeeded and the inputs are of >= 2 different kinds or a signature / count fault was injected", nil)
}
