// Driver for C09: runs pkg/tecdsa/retry on generated seat lists and prints the cases for the
// Coq model (Model/C09.v).  Operators become N identifiers by rank of their address string.
package main

import (
	"fmt"
	"os"
	"sort"
	"strings"

	"github.com/keep-network/keep-core/pkg/chain"
	"github.com/keep-network/keep-core/pkg/tecdsa/retry"

	"verifharness/lib"
)

type input struct {
	Fn      string   `json:"fn"` // "sign" | "keygen"
	Seats   []string `json:"seats"`
	Seed    int64    `json:"seed"`
	Retries []uint64 `json:"retries"` // sign: exactly one
	Count   uint64   `json:"count"`
}

func call(fn string, seats []chain.Address, seed int64, retryN uint, count uint) (out string, obs interface{}) {
	defer func() {
		if r := recover(); r != nil {
			out, obs = "Panic", fmt.Sprintf("panic: %v", r)
		}
	}()
	var res []chain.Address
	var err error
	if fn == "sign" {
		res, err = retry.EvaluateRetryParticipantsForSigning(seats, seed, retryN, count)
	} else {
		res, err = retry.EvaluateRetryParticipantsForKeyGeneration(seats, seed, retryN, count)
	}
	if err != nil {
		if strings.Contains(err.Error(), "asked for too many seats") {
			return "ErrTooMany", err.Error()
		}
		if strings.Contains(err.Error(), "too large to handle") {
			return "ErrRetry", err.Error()
		}
		return "Panic", "unclassified error: " + err.Error()
	}
	strs := make([]string, len(res))
	for i, a := range res {
		strs[i] = string(a)
	}
	return "OK", strs
}

func run(in input, em *lib.Emitter, id string) {
	rank := lib.Rank(in.Seats)
	seats := make([]chain.Address, len(in.Seats))
	ids := make([]uint64, len(in.Seats))
	for i, s := range in.Seats {
		seats[i] = chain.Address(s)
		ids[i] = rank[s]
	}
	render := func(kind string, obs interface{}) string {
		if kind != "OK" {
			return kind
		}
		l := obs.([]string)
		v := make([]uint64, len(l))
		for i, s := range l {
			r, ok := rank[s]
			if !ok {
				r = 0 // an operator that is not among the seats: no identifier equals 0
			}
			v[i] = r
		}
		return "(Ok " + lib.ListN(v) + ")"
	}
	seatCounts := map[string]int{}
	for _, s := range in.Seats {
		seatCounts[s]++
	}
	cs := map[int]bool{}
	for _, c := range seatCounts {
		cs[c] = true
	}
	uneven := len(cs) >= 2
	multiset := make([]int, 0, len(seatCounts))
	for _, c := range seatCounts {
		multiset = append(multiset, c)
	}
	sort.Ints(multiset)
	sig := map[string]interface{}{"fn": in.Fn, "uneven": uneven, "operators": len(seatCounts)}
	var outs []string
	var obsAll []interface{}
	var coq string
	if in.Fn == "sign" {
		for rep := 0; rep < 2; rep++ {
			k, o := call("sign", append([]chain.Address{}, seats...), in.Seed, uint(in.Retries[0]), uint(in.Count))
			outs = append(outs, render(k, o))
			obsAll = append(obsAll, o)
		}
		coq = fmt.Sprintf("(CSign {| s_seats := %s; s_seed := %s; s_retry := %s; s_count := %s; s_outs := %s |})",
			lib.ListN(ids), lib.Z(in.Seed), lib.N(in.Retries[0]), lib.N(in.Count), lib.List(outs))
	} else {
		nErr := 0
		for ri, r := range in.Retries {
			if nErr >= 2 {
				in.Retries = in.Retries[:ri]
				break
			}
			k, o := call("keygen", append([]chain.Address{}, seats...), in.Seed, uint(r), uint(in.Count))
			outs = append(outs, render(k, o))
			obsAll = append(obsAll, o)
			if k == "ErrRetry" {
				nErr++
				em.Tally("keygen-out-ErrRetry")
			} else {
				em.Tally("keygen-out-" + k)
			}
		}
		k, o := call("keygen", append([]chain.Address{}, seats...), in.Seed, uint(in.Retries[0]), uint(in.Count))
		rep := render(k, o)
		coq = fmt.Sprintf("(CKeygen {| k_seats := %s; k_seed := %s; k_count := %s; k_retries := %s; k_outs := %s; k_rep := %s |})",
			lib.ListN(ids), lib.Z(in.Seed), lib.N(in.Count), lib.ListN(in.Retries), lib.List(outs), rep)
	}
	em.Tally(fmt.Sprintf("%s-operators-%02d", in.Fn, len(seatCounts)))
	if uneven {
		em.Tally(in.Fn + "-uneven")
	} else {
		em.Tally(in.Fn + "-uniform")
	}
	em.Case(lib.Case{
		ID:         id,
		Coq:        coq,
		Key:        fmt.Sprintf("%s|%v|%d|%v|%d|%v", in.Fn, ids, in.Seed, in.Retries, in.Count, multiset),
		Nontrivial: uneven && len(seatCounts) >= 2,
		Sig:        sig,
		In:         in,
		Out:        obsAll,
	})
}

func addr(r *lib.Rng) string {
	const hexd = "0123456789abcdefABCDEF"
	b := make([]byte, 40)
	for i := range b {
		b[i] = hexd[r.Intn(len(hexd))]
	}
	return "0x" + string(b)
}

// seatsFor builds a seat list from per-operator seat counts, interleaved by perm.
func seatsFor(r *lib.Rng, counts []int) []string {
	var seats []string
	for _, c := range counts {
		a := addr(r)
		for i := 0; i < c; i++ {
			seats = append(seats, a)
		}
	}
	p := r.Perm(len(seats))
	out := make([]string, len(seats))
	for i, j := range p {
		out[i] = seats[j]
	}
	return out
}

func enumRetries(nOps int, cap int, r *lib.Rng) []uint64 {
	total := nOps + nOps*(nOps-1)/2 + nOps*(nOps-1)*(nOps-2)/6
	var rs []uint64
	if total+2 <= cap {
		for i := 0; i < total+2; i++ {
			rs = append(rs, uint64(i))
		}
		return rs
	}
	// a strictly increasing sample: a dense prefix and sparse later retries
	cur := uint64(0)
	for len(rs) < cap {
		rs = append(rs, cur)
		if len(rs) < cap/2 {
			cur++
		} else {
			cur += uint64(1 + r.Intn(2*total/cap+2))
		}
	}
	return rs
}

func main() {
	o := lib.ParseOpts()
	em := lib.NewEmitter()
	if o.Replay != "" {
		var in input
		if err := lib.LoadReplay(o.Replay, &in); err != nil {
			fmt.Fprintln(os.Stderr, err)
			os.Exit(2)
		}
		run(in, em, "replay")
		em.Close("replay", nil)
		return
	}
	rng := lib.NewRng(o.Seed)

	// --- corpus: minimised regression cases (run first)
	{
		r := lib.NewRng(7)
		a, b, c, e := addr(r), addr(r), addr(r), addr(r)
		seats := []string{a, b, c, c, c, e, e, e, e, e}
		run(input{"keygen", seats, 1, enumRetries(4, 40, r), 6}, em, "corpus-triplet-uneven")
		run(input{"keygen", []string{a, b, c, c, c, e, e, e, e, e}, 1, []uint64{6}, 6}, em, "corpus-triplet-retry6")
		run(input{"sign", seats, -3, []uint64{0}, 10}, em, "corpus-sign-all")
		run(input{"sign", seats, 9223372036854775807, []uint64{5}, 1}, em, "corpus-sign-seed-wrap")
		run(input{"sign", seats, 5, []uint64{0}, 0}, em, "corpus-sign-zero")
		run(input{"keygen", seats, 5, []uint64{0, 1, 2}, 11}, em, "corpus-keygen-toomany")
	}

	// --- exhaustive small scope: <= 4 operators, seat counts 1..3, every count, every retry
	var small [][]int
	var rec func(cur []int, k int)
	rec = func(cur []int, k int) {
		if len(cur) >= 1 {
			small = append(small, append([]int{}, cur...))
		}
		if k == 0 {
			return
		}
		lo := 1
		if len(cur) > 0 {
			lo = cur[len(cur)-1] // non-decreasing: multisets
		}
		for c := lo; c <= 3; c++ {
			rec(append(cur, c), k-1)
		}
	}
	rec(nil, 4)
	nSmall := o.Count(60, len(small))
	perm := rng.Fork("small").Perm(len(small))
	for i := 0; i < nSmall && i < len(small); i++ {
		counts := small[perm[i]]
		r := rng.Fork(fmt.Sprintf("small%d", i))
		seats := seatsFor(r, counts)
		total := len(seats)
		for count := 0; count <= total+1; count++ {
			if o.Tier == "quick" && count > 0 && count < total-3 && r.Chance(1, 2) {
				continue
			}
			seed := r.I64()
			if r.Chance(1, 4) {
				seed = int64(r.Intn(5)) - 2
			}
			run(input{"keygen", seats, seed, enumRetries(len(counts), 30, r), uint64(count)}, em,
				fmt.Sprintf("small-%d-k%d", i, count))
			run(input{"sign", seats, seed, []uint64{uint64(r.Intn(6))}, uint64(count)}, em,
				fmt.Sprintf("small-%d-s%d", i, count))
		}
	}

	// --- random larger groups, skewed seat distributions
	nRand := o.Count(150, 1500)
	for i := 0; i < nRand; i++ {
		r := rng.Fork(fmt.Sprintf("rand%d", i))
		nOps := r.Range(2, 12)
		if r.Chance(1, 6) {
			nOps = r.Range(12, 25)
		}
		counts := make([]int, nOps)
		for j := range counts {
			switch r.Intn(4) {
			case 0:
				counts[j] = 1
			case 1:
				counts[j] = r.Range(1, 3)
			case 2:
				counts[j] = r.Range(1, 8)
			default:
				counts[j] = r.Range(1, 20)
			}
		}
		seats := seatsFor(r, counts)
		if len(seats) > 100 {
			seats = seats[:100]
		}
		total := len(seats)
		var count int
		switch r.Intn(4) {
		case 0:
			count = total/2 + 1 // group quorum style
		case 1:
			count = r.Range(total*8/10, total)
		default:
			count = r.Range(0, total)
		}
		seed := r.I64()
		if r.Chance(1, 8) {
			seed = []int64{0, -1, 1<<63 - 1, -1 << 63, 2147483647, -2147483647}[r.Intn(6)]
		}
		if r.Bool() {
			run(input{"sign", seats, seed, []uint64{uint64(r.Intn(50))}, uint64(count)}, em, fmt.Sprintf("rand-%d", i))
		} else {
			distinct := map[string]bool{}
			for _, s := range seats {
				distinct[s] = true
			}
			run(input{"keygen", seats, seed, enumRetries(len(distinct), 24, r), uint64(count)}, em, fmt.Sprintf("rand-%d", i))
		}
	}
	em.Close("a case is one signing call (run twice) or one key-generation enumeration over a "+
		"strictly increasing list of retries for one (seats, seed, count); distinct by (fn, canonical seat list, "+
		"seed, retries, count); non-trivial when the seat list has >= 2 operators holding different numbers of seats", nil)
}
