// Driver for C23: runs the real tbtc.watchCoordinationWindows (through the thin wrapper in
// pkg/tbtc/verif_export_c23.go) on scripted block channels and reports, for every block the
// watcher consumed, which coordination windows it started right after consuming it.
//
// Synchronisation is by goroutine dumps, never by wall-clock: after a block was handed to the
// watcher over the unbuffered channel the driver waits until the watcher goroutine is parked in
// its select again (so the loop iteration, including a possible `go onWindowFn(window)`, is
// complete) and then collects exactly the callback goroutines that exist ("created by
// ...watchCoordinationWindows"); callbacks block on an unbuffered channel until collected.
package main

import (
	"context"
	"fmt"
	"os"
	"regexp"
	"runtime"
	"strings"
	"sync"
	"time"

	"github.com/keep-network/keep-core/pkg/tbtc"

	"verifharness/lib"
)

type input struct {
	Fn     string   `json:"fn"`     // "stream" | "index" | "isafter"
	Blocks []uint64 `json:"blocks"` // stream: blocks offered in order; index: [b]; isafter: [b] or [b, other]
	// stream: number of blocks offered before the context is cancelled (-1: cancel after the
	// whole stream); the blocks after that point are offered racing with the cancellation
	CancelAt int `json:"cancelAt"`
	// life: the history of the block source of ONE watcher: blocks offered on the current
	// subscription and closures of the current channel; every call of watchBlocksFn gets a new
	// channel (CancelAt counts events)
	Events []event `json:"events,omitempty"`
}

type event struct {
	B     uint64 `json:"b"`
	Close bool   `json:"close,omitempty"`
}

const freq = 900 // only used to GENERATE interesting streams; the model uses the translated constant

var (
	reGoroutine = regexp.MustCompile(`(?m)^goroutine (\d+) \[([^\]]*)\]:`)
)

type dump struct {
	watcherState string // "" when the watcher goroutine does not exist
	callbacks    int    // goroutines created by watchCoordinationWindows
}

func snapshot() dump {
	buf := make([]byte, 1<<16)
	for {
		n := runtime.Stack(buf, true)
		if n < len(buf) {
			buf = buf[:n]
			break
		}
		buf = make([]byte, 2*len(buf))
	}
	var d dump
	for _, g := range strings.Split(string(buf), "\n\n") {
		m := reGoroutine.FindStringSubmatch(g)
		if m == nil {
			continue
		}
		created := ""
		if i := strings.Index(g, "created by "); i >= 0 {
			created = g[i:]
		}
		body := g
		if i := strings.Index(g, "created by "); i >= 0 {
			body = g[:i]
		}
		if strings.Contains(created, "tbtc.watchCoordinationWindows") {
			d.callbacks++
			continue
		}
		if strings.Contains(body, "tbtc.watchCoordinationWindows(") {
			d.watcherState = m[2]
		}
	}
	return d
}

// collect waits until the watcher is parked in its select (or gone) and returns the windows
// started since the last collection.
func collect(trig chan uint64, watcherGone func() bool) []uint64 {
	for {
		d := snapshot()
		idle := strings.HasPrefix(d.watcherState, "select") || (d.watcherState == "" && watcherGone())
		if !idle {
			runtime.Gosched()
			continue
		}
		out := make([]uint64, 0, d.callbacks)
		for i := 0; i < d.callbacks; i++ {
			out = append(out, <-trig)
		}
		if d.callbacks > 0 {
			// wait for the collected goroutines to exit so that they are not counted twice
			for snapshot().callbacks > 0 {
				runtime.Gosched()
			}
		}
		return out
	}
}

type stepObs struct {
	Block   uint64   `json:"block"`
	Started []uint64 `json:"started"`
}

func runStream(in input) (steps []stepObs, panicked string) {
	defer func() {
		if r := recover(); r != nil {
			panicked = fmt.Sprint(r)
		}
	}()
	ctx, cancel := context.WithCancel(context.Background())
	defer cancel()
	ch := make(chan uint64)
	trig := make(chan uint64)
	done := make(chan string, 1)
	go func() {
		defer func() {
			if r := recover(); r != nil {
				done <- fmt.Sprint(r)
				return
			}
			done <- ""
		}()
		tbtc.VerifC23WatchCoordinationWindows(
			ctx,
			func(context.Context) <-chan uint64 { return ch },
			func(b uint64) { trig <- b },
		)
	}()
	gone := false
	goneMsg := ""
	watcherGone := func() bool {
		if gone {
			return true
		}
		select {
		case goneMsg = <-done:
			gone = true
		default:
		}
		return gone
	}
	// make sure the watcher reached its select before the first block
	collect(trig, watcherGone)
	cancelAt := in.CancelAt
	if cancelAt < 0 || cancelAt > len(in.Blocks) {
		cancelAt = len(in.Blocks)
	}
	for i, b := range in.Blocks {
		if i == cancelAt {
			cancel()
		}
		if i >= cancelAt {
			// racing with the cancellation: the watcher may or may not take the block
			if watcherGone() {
				break
			}
			select {
			case ch <- b:
			case goneMsg = <-done:
				gone = true
			}
			if gone {
				break
			}
		} else {
			select {
			case ch <- b:
			case goneMsg = <-done: // the watcher died (panic): stop
				gone = true
			}
			if gone {
				break
			}
		}
		steps = append(steps, stepObs{b, collect(trig, watcherGone)})
	}
	if cancelAt == len(in.Blocks) {
		cancel()
	}
	if !gone {
		goneMsg = <-done
		gone = true
	}
	if late := collect(trig, watcherGone); len(late) > 0 {
		// cannot happen unless a callback is started outside a loop iteration
		steps = append(steps, stepObs{^uint64(0), late})
	}
	if goneMsg != "" {
		panicked = goneMsg
	}
	return steps, panicked
}

type lifeObs struct {
	Close    bool     `json:"close,omitempty"`
	Block    uint64   `json:"block"`
	Received bool     `json:"received"`
	Started  []uint64 `json:"started"`
}

// runLife drives ONE watcher through a history of its block source: blocks offered on the
// current subscription and closures of the current channel. watchBlocksFn hands out a new
// channel on every call. After a closure the driver finds out what the watcher did about it:
//   - it asked for a new subscription and is parked in its select again: go on there;
//   - it returned: nothing more is received;
//   - it is parked without a new subscription: nothing more is received;
//   - it busy-spins on the closed channel (the unchanged code: zero-value reads): it has been
//     seen running, never parked, in many consecutive goroutine dumps. This only decides when
//     the driver stops offering blocks (they are reported as not received, which is what
//     happened); no verdict depends on it. The watcher is then cancelled and awaited.
func runLife(in input) (obs []lifeObs, subs int, after []string, panicked string) {
	defer func() {
		if r := recover(); r != nil {
			panicked = fmt.Sprint(r)
		}
	}()
	ctx, cancel := context.WithCancel(context.Background())
	defer cancel()
	var mu sync.Mutex
	var chans []chan uint64
	nSubs := func() int { mu.Lock(); defer mu.Unlock(); return len(chans) }
	trig := make(chan uint64)
	done := make(chan string, 1)
	go func() {
		defer func() {
			if r := recover(); r != nil {
				done <- fmt.Sprint(r)
				return
			}
			done <- ""
		}()
		tbtc.VerifC23WatchCoordinationWindows(
			ctx,
			func(context.Context) <-chan uint64 {
				mu.Lock()
				defer mu.Unlock()
				ch := make(chan uint64)
				chans = append(chans, ch)
				return ch
			},
			func(b uint64) { trig <- b },
		)
	}()
	gone := false
	goneMsg := ""
	watcherGone := func() bool {
		if gone {
			return true
		}
		select {
		case goneMsg = <-done:
			gone = true
		default:
		}
		return gone
	}
	collect(trig, watcherGone)
	deaf := nSubs() == 0 // nothing can be received any more
	var cur chan uint64
	if !deaf {
		cur = chans[0]
	}
	cancelAt := in.CancelAt
	if cancelAt < 0 || cancelAt > len(in.Events) {
		cancelAt = len(in.Events)
	}
	dropped := false
	for i, e := range in.Events {
		if i == cancelAt {
			cancel()
		}
		if deaf {
			obs = append(obs, lifeObs{Close: e.Close, Block: e.B})
			continue
		}
		if !e.Close {
			if watcherGone() {
				dropped = true
				break
			}
			select {
			case cur <- e.B:
			case goneMsg = <-done:
				gone = true
			}
			if gone {
				dropped = true
				break
			}
			obs = append(obs, lifeObs{Block: e.B, Received: true, Started: collect(trig, watcherGone)})
			continue
		}
		// the source closes the current channel (close readies the parked watcher before it
		// returns, so a "select" state seen from now on is a NEW park)
		n0 := nSubs()
		close(cur)
		started := []uint64{}
		t0 := time.Now()
		busy := 0
		for {
			d := snapshot()
			for k := 0; k < d.callbacks; k++ {
				started = append(started, <-trig)
			}
			if d.callbacks > 0 {
				for snapshot().callbacks > 0 {
					runtime.Gosched()
				}
				continue
			}
			if d.watcherState == "" && watcherGone() {
				after = append(after, "returned")
				deaf = true
				break
			}
			if strings.HasPrefix(d.watcherState, "select") {
				if n := nSubs(); n > n0 {
					after = append(after, "resubscribed")
					mu.Lock()
					cur = chans[n-1]
					mu.Unlock()
				} else {
					after = append(after, "parked")
					deaf = true
				}
				break
			}
			busy++
			if busy >= 30 && time.Since(t0) > 15*time.Millisecond {
				after = append(after, "spins")
				deaf = true
				break
			}
			runtime.Gosched()
		}
		obs = append(obs, lifeObs{Close: true, Received: true, Started: started})
	}
	cancel()
	if !gone {
		goneMsg = <-done
		gone = true
	}
	_ = dropped
	if late := collect(trig, watcherGone); len(late) > 0 {
		// cannot happen unless a callback is started outside a loop iteration
		obs = append(obs, lifeObs{Close: true, Received: true, Started: late})
	}
	if goneMsg != "" {
		panicked = goneMsg
	}
	return obs, nSubs(), after, panicked
}

func runLifeCase(in input, em *lib.Emitter, id string) {
	obs, subs, after, panicked := runLife(in)
	items := make([]string, 0, len(obs)+1)
	closes, crossReplay := 0, false
	maxWin := uint64(0) // highest window start offered before the latest closure
	curMax := uint64(0)
	for _, o := range obs {
		evt := "EClose"
		if !o.Close {
			evt = "(EBlock " + lib.ZU(o.Block) + ")"
		}
		out := "None"
		if o.Received {
			st := make([]string, len(o.Started))
			for j, w := range o.Started {
				st[j] = lib.ZU(w)
			}
			out = lib.Some(lib.List(st))
		}
		items = append(items, lib.Pair(evt, out))
		if o.Close {
			closes++
			maxWin = curMax
			continue
		}
		if o.Block%freq == 0 && o.Block > 0 {
			if closes > 0 && o.Block <= maxWin {
				crossReplay = true
			}
			if o.Block > curMax {
				curMax = o.Block
			}
		}
	}
	if panicked != "" {
		items = append(items, lib.Pair("(EBlock "+lib.ZU(1)+")", lib.Some(lib.List([]string{lib.ZU(1)}))))
	}
	em.Tally(fmt.Sprintf("life-closures-%d", closes))
	em.Tally(fmt.Sprintf("life-subscriptions-%d", subs))
	for _, a := range after {
		em.Tally("life-after-close-" + a)
	}
	if crossReplay {
		em.Tally("life-replay-or-regression-across-closure")
	}
	em.Case(lib.Case{ID: id, Coq: "(CLife " + lib.List(items) + ")",
		Key:        fmt.Sprintf("life|%v|%d|%d", in.Events, in.CancelAt, len(obs)),
		Nontrivial: closes > 0 && crossReplay,
		Sig: map[string]interface{}{"fn": "life", "closures": closes > 0, "crossReplay": crossReplay,
			"resubscribed": subs > 1, "panic": panicked != ""},
		In: in, Out: map[string]interface{}{"events": obs, "subscriptions": subs,
			"afterClose": after, "panic": panicked}})
}

func run(in input, em *lib.Emitter, id string) {
	switch in.Fn {
	case "life":
		runLifeCase(in, em, id)
	case "index":
		b := in.Blocks[0]
		var idx uint64
		func() {
			defer func() {
				if r := recover(); r != nil {
					idx = ^uint64(0) // a panic (e.g. division by zero) is reported as an impossible index
				}
			}()
			idx = tbtc.VerifC23WindowIndex(b)
		}()
		em.Tally("index")
		em.Case(lib.Case{ID: id, Coq: fmt.Sprintf("(CIndex %s %s)", lib.ZU(b), lib.ZU(idx)),
			Key: fmt.Sprintf("index|%d", b), Nontrivial: b%freq == 0 && b > 0,
			Sig: map[string]interface{}{"fn": "index"}, In: in, Out: idx})
	case "isafter":
		b := in.Blocks[0]
		has := len(in.Blocks) > 1
		other := uint64(0)
		o := "None"
		if has {
			other = in.Blocks[1]
			o = lib.Some(lib.ZU(other))
		}
		r := tbtc.VerifC23WindowIsAfter(b, has, other)
		em.Tally("isafter")
		em.Case(lib.Case{ID: id, Coq: fmt.Sprintf("(CIsAfter %s %s %s)", lib.ZU(b), o, lib.Bool(r)),
			Key: fmt.Sprintf("isafter|%v", in.Blocks), Nontrivial: has,
			Sig: map[string]interface{}{"fn": "isafter"}, In: in, Out: r})
	default:
		steps, panicked := runStream(in)
		items := make([]string, len(steps))
		windows, dups, regress := 0, false, false
		seen := map[uint64]bool{}
		maxSeen := uint64(0)
		for i, s := range steps {
			st := make([]string, len(s.Started))
			for j, w := range s.Started {
				st[j] = lib.ZU(w)
			}
			items[i] = lib.Pair(lib.ZU(s.Block), lib.List(st))
			if s.Block%freq == 0 && s.Block > 0 {
				windows++
				if seen[s.Block] {
					dups = true
				}
				if s.Block < maxSeen {
					regress = true
				}
				seen[s.Block] = true
				if s.Block > maxSeen {
					maxSeen = s.Block
				}
			}
		}
		if panicked != "" {
			// a panic of the watcher is reported as a window start that can never be right
			items = append(items, lib.Pair(lib.ZU(1), lib.List([]string{lib.ZU(1)})))
		}
		em.Tally(fmt.Sprintf("stream-len-%02d", len(steps)/10*10))
		if dups {
			em.Tally("stream-with-duplicate-window")
		}
		if regress {
			em.Tally("stream-with-regression")
		}
		if in.CancelAt >= 0 && in.CancelAt < len(in.Blocks) {
			em.Tally("stream-cancelled-midway")
		}
		em.Case(lib.Case{ID: id, Coq: "(CStream " + lib.List(items) + ")",
			Key:        fmt.Sprintf("stream|%v|%d", in.Blocks, len(steps)),
			Nontrivial: windows >= 2 && (dups || regress),
			Sig: map[string]interface{}{"fn": "stream", "duplicates": dups, "regression": regress,
				"panic": panicked != ""},
			In: in, Out: map[string]interface{}{"steps": steps, "panic": panicked}})
	}
}

// genStream builds a stream that mixes window starts, their neighbours, duplicates, gaps and
// regressions.
func genStream(r *lib.Rng, n int) []uint64 {
	base := uint64(r.Intn(6)) * freq
	switch r.Intn(8) {
	case 0:
		base = 0
	case 1:
		base = uint64(r.Intn(1<<20)) * freq
	case 2:
		base = (^uint64(0))/freq*freq - uint64(r.Intn(4))*freq // close to 2^64
	}
	cur := base
	var out []uint64
	for len(out) < n {
		switch r.Intn(12) {
		case 0, 1, 2: // next window start
			cur = cur/freq*freq + freq
			if cur < freq { // wrapped
				cur = freq
			}
			out = append(out, cur)
		case 3: // duplicate of the current block
			out = append(out, cur)
		case 4: // duplicate of an earlier block
			if len(out) > 0 {
				out = append(out, out[r.Intn(len(out))])
			}
		case 5: // regression to an earlier window start
			k := uint64(r.Intn(4) + 1)
			if cur/freq > k {
				out = append(out, (cur/freq-k)*freq)
			} else {
				out = append(out, 0)
			}
		case 6: // gap: skip some windows
			cur = cur/freq*freq + uint64(r.Range(2, 5))*freq
			if cur < freq {
				cur = 2 * freq
			}
			out = append(out, cur)
		case 7: // neighbours of a window start
			w := cur/freq*freq + freq
			out = append(out, w-1)
			if r.Bool() {
				out = append(out, w+1)
			}
		case 8: // block zero / tiny
			out = append(out, uint64(r.Intn(3)))
		case 9: // arbitrary block
			out = append(out, cur+uint64(r.Intn(2*freq)))
		default: // ordinary next block
			cur++
			out = append(out, cur)
		}
	}
	return out[:n]
}

func blocksToEvents(bs []uint64) []event {
	out := make([]event, len(bs))
	for i, b := range bs {
		out[i] = event{B: b}
	}
	return out
}

// genLife builds a history of the block source: a first subscription, a closure, and further
// subscriptions that replay, repeat or regress below what was delivered before the closure
// (what a re-established block subscription typically does) or just move forward.
func genLife(r *lib.Rng) []event {
	var evs []event
	var prev []uint64
	if !r.Chance(1, 12) {
		prev = genStream(r, r.Range(1, 12))
		if r.Chance(2, 3) { // make sure a window was delivered shortly before the closure
			w := prev[len(prev)-1]/freq*freq + freq
			if w < freq {
				w = freq
			}
			prev = append(prev, w-1, w)
			if r.Bool() {
				prev = append(prev, w+1)
			}
		}
	}
	evs = append(evs, blocksToEvents(prev)...)
	nSubs := r.Range(1, 2)
	for s := 0; s < nSubs; s++ {
		evs = append(evs, event{Close: true})
		maxWin := uint64(0)
		for _, b := range prev {
			if b%freq == 0 && b > maxWin {
				maxWin = b
			}
		}
		next := maxWin + freq
		if next < freq {
			next = freq
		}
		var sub []uint64
		switch r.Intn(6) {
		case 0, 1: // replay of the most recent blocks, then forward
			if len(prev) > 0 {
				k := r.Range(1, 6)
				if k > len(prev) {
					k = len(prev)
				}
				sub = append(sub, prev[len(prev)-k:]...)
			}
			sub = append(sub, next-1, next, next+1)
		case 2: // the latest window start again (and again)
			sub = append(sub, maxWin)
			if r.Bool() {
				sub = append(sub, maxWin, next)
			}
		case 3: // regression below the latest window start
			k := uint64(r.Range(1, 3))
			if maxWin/freq > k {
				sub = append(sub, (maxWin/freq-k)*freq)
			} else {
				sub = append(sub, freq)
			}
			if r.Bool() {
				sub = append(sub, maxWin, next)
			}
		case 4: // an arbitrary selection of what was delivered before
			for i := r.Range(1, 5); i > 0 && len(prev) > 0; i-- {
				sub = append(sub, prev[r.Intn(len(prev))])
			}
		default: // forward only
			sub = append(sub, next, next+1)
			if r.Bool() {
				sub = append(sub, next+freq)
			}
		}
		if r.Chance(1, 3) {
			sub = append(sub, genStream(r, r.Range(1, 5))...)
		}
		evs = append(evs, blocksToEvents(sub)...)
		prev = append(prev, sub...)
	}
	if r.Chance(1, 6) {
		evs = append(evs, event{Close: true})
	}
	return evs
}

func main() {
	o := lib.ParseOpts()
	em := lib.NewEmitter()
	if o.Replay != "" {
		var in input
		if err := lib.LoadReplay(o.Replay, &in); err != nil {
			fmt.Fprintln(os.Stderr, err)
			os.Exit(2)
		}
		run(in, em, "replay")
		em.Close("replay", nil)
		return
	}
	rng := lib.NewRng(o.Seed)

	// --- corpus
	corpus := []input{
		{Fn: "stream", Blocks: []uint64{899, 900, 900, 901, 1800, 1800}, CancelAt: -1},
		{Fn: "stream", Blocks: []uint64{1800, 900, 1800, 2700, 900, 2700}, CancelAt: -1},
		{Fn: "stream", Blocks: []uint64{0, 0, 900, 0}, CancelAt: -1},
		{Fn: "stream", Blocks: []uint64{900, 1800, 2700}, CancelAt: 1},
		{Fn: "stream", Blocks: []uint64{2700, 2700, 2700}, CancelAt: 0},
		{Fn: "stream", Blocks: []uint64{18446744073709551600, 18446744073709550700, 18446744073709551600, 900}, CancelAt: -1},
		{Fn: "stream", Blocks: []uint64{450, 1350, 901, 1799}, CancelAt: -1},
		{Fn: "stream", Blocks: []uint64{}, CancelAt: -1},
		{Fn: "index", Blocks: []uint64{0}, CancelAt: 0}, {Fn: "index", Blocks: []uint64{900}, CancelAt: 0}, {Fn: "index", Blocks: []uint64{899}, CancelAt: 0},
		{Fn: "index", Blocks: []uint64{18446744073709551600}, CancelAt: 0}, {Fn: "index", Blocks: []uint64{18446744073709551615}, CancelAt: 0},
		{Fn: "isafter", Blocks: []uint64{900}, CancelAt: 0}, {Fn: "isafter", Blocks: []uint64{900, 900}, CancelAt: 0},
		{Fn: "isafter", Blocks: []uint64{900, 1800}, CancelAt: 0}, {Fn: "isafter", Blocks: []uint64{1800, 900}, CancelAt: 0},
	}
	for i, c := range corpus {
		run(c, em, fmt.Sprintf("corpus-%02d", i))
	}
	B := func(b uint64) event { return event{B: b} }
	X := event{Close: true}
	lifeCorpus := [][]event{
		// the subscription is dropped right after window 900; a new one would replay 899..901
		{B(898), B(899), B(900), B(901), X, B(899), B(900), B(901), B(1799), B(1800), B(1801), B(1802)},
		// a new subscription would regress below the latest window
		{B(900), B(1800), X, B(900), B(1800), B(2700)},
		{B(2700), X, B(1800), X, B(900)},
		{X, B(900), B(900)},
		{B(900), X, X, B(900)},
		{B(899), X},
		{B(900), B(901), X, B(1800), B(1801)},
	}
	for i, c := range lifeCorpus {
		run(input{Fn: "life", Events: c, CancelAt: -1}, em, fmt.Sprintf("life-corpus-%02d", i))
	}
	run(input{Fn: "life", Events: lifeCorpus[0], CancelAt: 5}, em, "life-corpus-cancel")

	// --- small scope, exhaustive: every stream of length <= 4 over {0, f-1, f, 2f, 3f} (quick: a
	// seeded sample of them)
	alphabet := []uint64{0, freq - 1, freq, 2 * freq, 3 * freq}
	var small [][]uint64
	var rec func(cur []uint64, k int)
	rec = func(cur []uint64, k int) {
		if len(cur) > 0 {
			small = append(small, append([]uint64{}, cur...))
		}
		if k == 0 {
			return
		}
		for _, a := range alphabet {
			rec(append(cur, a), k-1)
		}
	}
	rec(nil, 4)
	nSmall := o.Count(150, len(small))
	perm := rng.Fork("small").Perm(len(small))
	for i := 0; i < nSmall && i < len(small); i++ {
		run(input{Fn: "stream", Blocks: small[perm[i]], CancelAt: -1}, em, fmt.Sprintf("small-%d", i))
	}

	// --- random streams
	nRand := o.Count(350, 4000)
	for i := 0; i < nRand; i++ {
		r := rng.Fork(fmt.Sprintf("rand%d", i))
		n := r.Range(3, 40)
		if r.Chance(1, 10) {
			n = r.Range(40, 120)
		}
		blocks := genStream(r, n)
		cancelAt := -1
		if r.Chance(1, 4) {
			cancelAt = r.Intn(len(blocks) + 1)
		}
		run(input{Fn: "stream", Blocks: blocks, CancelAt: cancelAt}, em, fmt.Sprintf("rand-%d", i))
	}
	// --- whole-life histories: small scope over {f-1, f, 2f, close}, length <= 4 (quick: a sample)
	lifeAlphabet := []event{B(freq - 1), B(freq), B(2 * freq), X}
	var smallLife [][]event
	var recL func(cur []event, k int, closed bool)
	recL = func(cur []event, k int, closed bool) {
		if closed && len(cur) > 1 {
			smallLife = append(smallLife, append([]event{}, cur...))
		}
		if k == 0 {
			return
		}
		for _, a := range lifeAlphabet {
			recL(append(cur, a), k-1, closed || a.Close)
		}
	}
	recL(nil, 4, false)
	nSmallLife := o.Count(50, len(smallLife))
	permL := rng.Fork("smalllife").Perm(len(smallLife))
	for i := 0; i < nSmallLife && i < len(smallLife); i++ {
		run(input{Fn: "life", Events: smallLife[permL[i]], CancelAt: -1}, em, fmt.Sprintf("smalllife-%d", i))
	}
	// --- random whole-life histories
	nLife := o.Count(110, 1500)
	for i := 0; i < nLife; i++ {
		r := rng.Fork(fmt.Sprintf("life%d", i))
		evs := genLife(r)
		cancelAt := -1
		if r.Chance(1, 6) {
			cancelAt = r.Intn(len(evs) + 1)
		}
		run(input{Fn: "life", Events: evs, CancelAt: cancelAt}, em, fmt.Sprintf("life-%d", i))
	}
	// --- pure functions
	nPure := o.Count(100, 1000)
	for i := 0; i < nPure; i++ {
		r := rng.Fork(fmt.Sprintf("pure%d", i))
		b := r.U64()
		switch r.Intn(4) {
		case 0:
			b = b / freq * freq
		case 1:
			b = uint64(r.Intn(10000))
		case 2:
			b = uint64(r.Intn(50)) * freq
		}
		if r.Bool() {
			run(input{Fn: "index", Blocks: []uint64{b}, CancelAt: 0}, em, fmt.Sprintf("index-%d", i))
		} else {
			other := b + uint64(r.Intn(3)) - 1
			if r.Chance(1, 5) {
				run(input{Fn: "isafter", Blocks: []uint64{b}, CancelAt: 0}, em, fmt.Sprintf("isafter-%d", i))
			} else {
				run(input{Fn: "isafter", Blocks: []uint64{b, other}, CancelAt: 0}, em, fmt.Sprintf("isafter-%d", i))
			}
		}
	}
	em.Close("a case is one run of the real watchCoordinationWindows on a scripted stream of consumed blocks, "+
		"or on a whole-life history of its block source (blocks, closures of the current channel, a new channel "+
		"per watchBlocksFn call), or one call of index / isAfter; distinct by the consumed blocks / the history; "+
		"a stream is non-trivial when it contains >= 2 window starts and a duplicate or a regression among them, "+
		"a life when a window start at or below the latest one is offered after a closure", nil)
}
