// Driver for C23: runs the real tbtc.watchCoordinationWindows (through the thin wrapper in
// pkg/tbtc/verif_export_c23.go) on scripted block channels and reports, for every block the
// watcher consumed, which coordination windows it started right after consuming it.
//
// Synchronisation is by goroutine dumps, never by wall-clock: after a block was handed to the
// watcher over the unbuffered channel the driver waits until the watcher goroutine is parked in
// its select again (so the loop iteration, including a possible `go onWindowFn(window)`, is
// complete) and then collects exactly the callback goroutines that exist ("created by
// ...watchCoordinationWindows"); callbacks block on an unbuffered channel until collected.
package main

import (
	"context"
	"fmt"
	"os"
	"regexp"
	"runtime"
	"strings"

	"github.com/keep-network/keep-core/pkg/tbtc"

	"verifharness/lib"
)

type input struct {
	Fn     string   `json:"fn"`     // "stream" | "index" | "isafter"
	Blocks []uint64 `json:"blocks"` // stream: blocks offered in order; index: [b]; isafter: [b] or [b, other]
	// stream: number of blocks offered before the context is cancelled (-1: cancel after the
	// whole stream); the blocks after that point are offered racing with the cancellation
	CancelAt int `json:"cancelAt"`
}

const freq = 900 // only used to GENERATE interesting streams; the model uses the translated constant

var (
	reGoroutine = regexp.MustCompile(`(?m)^goroutine (\d+) \[([^\]]*)\]:`)
)

type dump struct {
	watcherState string // "" when the watcher goroutine does not exist
	callbacks    int    // goroutines created by watchCoordinationWindows
}

func snapshot() dump {
	buf := make([]byte, 1<<16)
	for {
		n := runtime.Stack(buf, true)
		if n < len(buf) {
			buf = buf[:n]
			break
		}
		buf = make([]byte, 2*len(buf))
	}
	var d dump
	for _, g := range strings.Split(string(buf), "\n\n") {
		m := reGoroutine.FindStringSubmatch(g)
		if m == nil {
			continue
		}
		created := ""
		if i := strings.Index(g, "created by "); i >= 0 {
			created = g[i:]
		}
		body := g
		if i := strings.Index(g, "created by "); i >= 0 {
			body = g[:i]
		}
		if strings.Contains(created, "tbtc.watchCoordinationWindows") {
			d.callbacks++
			continue
		}
		if strings.Contains(body, "tbtc.watchCoordinationWindows(") {
			d.watcherState = m[2]
		}
	}
	return d
}

// collect waits until the watcher is parked in its select (or gone) and returns the windows
// started since the last collection.
func collect(trig chan uint64, watcherGone func() bool) []uint64 {
	for {
		d := snapshot()
		idle := strings.HasPrefix(d.watcherState, "select") || (d.watcherState == "" && watcherGone())
		if !idle {
			runtime.Gosched()
			continue
		}
		out := make([]uint64, 0, d.callbacks)
		for i := 0; i < d.callbacks; i++ {
			out = append(out, <-trig)
		}
		if d.callbacks > 0 {
			// wait for the collected goroutines to exit so that they are not counted twice
			for snapshot().callbacks > 0 {
				runtime.Gosched()
			}
		}
		return out
	}
}

type stepObs struct {
	Block   uint64   `json:"block"`
	Started []uint64 `json:"started"`
}

func runStream(in input) (steps []stepObs, panicked string) {
	defer func() {
		if r := recover(); r != nil {
			panicked = fmt.Sprint(r)
		}
	}()
	ctx, cancel := context.WithCancel(context.Background())
	defer cancel()
	ch := make(chan uint64)
	trig := make(chan uint64)
	done := make(chan string, 1)
	go func() {
		defer func() {
			if r := recover(); r != nil {
				done <- fmt.Sprint(r)
				return
			}
			done <- ""
		}()
		tbtc.VerifC23WatchCoordinationWindows(
			ctx,
			func(context.Context) <-chan uint64 { return ch },
			func(b uint64) { trig <- b },
		)
	}()
	gone := false
	goneMsg := ""
	watcherGone := func() bool {
		if gone {
			return true
		}
		select {
		case goneMsg = <-done:
			gone = true
		default:
		}
		return gone
	}
	// make sure the watcher reached its select before the first block
	collect(trig, watcherGone)
	cancelAt := in.CancelAt
	if cancelAt < 0 || cancelAt > len(in.Blocks) {
		cancelAt = len(in.Blocks)
	}
	for i, b := range in.Blocks {
		if i == cancelAt {
			cancel()
		}
		if i >= cancelAt {
			// racing with the cancellation: the watcher may or may not take the block
			if watcherGone() {
				break
			}
			select {
			case ch <- b:
			case goneMsg = <-done:
				gone = true
			}
			if gone {
				break
			}
		} else {
			select {
			case ch <- b:
			case goneMsg = <-done: // the watcher died (panic): stop
				gone = true
			}
			if gone {
				break
			}
		}
		steps = append(steps, stepObs{b, collect(trig, watcherGone)})
	}
	if cancelAt == len(in.Blocks) {
		cancel()
	}
	if !gone {
		goneMsg = <-done
		gone = true
	}
	if late := collect(trig, watcherGone); len(late) > 0 {
		// cannot happen unless a callback is started outside a loop iteration
		steps = append(steps, stepObs{^uint64(0), late})
	}
	if goneMsg != "" {
		panicked = goneMsg
	}
	return steps, panicked
}

func run(in input, em *lib.Emitter, id string) {
	switch in.Fn {
	case "index":
		b := in.Blocks[0]
		var idx uint64
		func() {
			defer func() {
				if r := recover(); r != nil {
					idx = ^uint64(0) // a panic (e.g. division by zero) is reported as an impossible index
				}
			}()
			idx = tbtc.VerifC23WindowIndex(b)
		}()
		em.Tally("index")
		em.Case(lib.Case{ID: id, Coq: fmt.Sprintf("(CIndex %s %s)", lib.ZU(b), lib.ZU(idx)),
			Key: fmt.Sprintf("index|%d", b), Nontrivial: b%freq == 0 && b > 0,
			Sig: map[string]interface{}{"fn": "index"}, In: in, Out: idx})
	case "isafter":
		b := in.Blocks[0]
		has := len(in.Blocks) > 1
		other := uint64(0)
		o := "None"
		if has {
			other = in.Blocks[1]
			o = lib.Some(lib.ZU(other))
		}
		r := tbtc.VerifC23WindowIsAfter(b, has, other)
		em.Tally("isafter")
		em.Case(lib.Case{ID: id, Coq: fmt.Sprintf("(CIsAfter %s %s %s)", lib.ZU(b), o, lib.Bool(r)),
			Key: fmt.Sprintf("isafter|%v", in.Blocks), Nontrivial: has,
			Sig: map[string]interface{}{"fn": "isafter"}, In: in, Out: r})
	default:
		steps, panicked := runStream(in)
		items := make([]string, len(steps))
		windows, dups, regress := 0, false, false
		seen := map[uint64]bool{}
		maxSeen := uint64(0)
		for i, s := range steps {
			st := make([]string, len(s.Started))
			for j, w := range s.Started {
				st[j] = lib.ZU(w)
			}
			items[i] = lib.Pair(lib.ZU(s.Block), lib.List(st))
			if s.Block%freq == 0 && s.Block > 0 {
				windows++
				if seen[s.Block] {
					dups = true
				}
				if s.Block < maxSeen {
					regress = true
				}
				seen[s.Block] = true
				if s.Block > maxSeen {
					maxSeen = s.Block
				}
			}
		}
		if panicked != "" {
			// a panic of the watcher is reported as a window start that can never be right
			items = append(items, lib.Pair(lib.ZU(1), lib.List([]string{lib.ZU(1)})))
		}
		em.Tally(fmt.Sprintf("stream-len-%02d", len(steps)/10*10))
		if dups {
			em.Tally("stream-with-duplicate-window")
		}
		if regress {
			em.Tally("stream-with-regression")
		}
		if in.CancelAt >= 0 && in.CancelAt < len(in.Blocks) {
			em.Tally("stream-cancelled-midway")
		}
		em.Case(lib.Case{ID: id, Coq: "(CStream " + lib.List(items) + ")",
			Key:        fmt.Sprintf("stream|%v|%d", in.Blocks, len(steps)),
			Nontrivial: windows >= 2 && (dups || regress),
			Sig: map[string]interface{}{"fn": "stream", "duplicates": dups, "regression": regress,
				"panic": panicked != ""},
			In: in, Out: map[string]interface{}{"steps": steps, "panic": panicked}})
	}
}

// genStream builds a stream that mixes window starts, their neighbours, duplicates, gaps and
// regressions.
func genStream(r *lib.Rng, n int) []uint64 {
	base := uint64(r.Intn(6)) * freq
	switch r.Intn(8) {
	case 0:
		base = 0
	case 1:
		base = uint64(r.Intn(1<<20)) * freq
	case 2:
		base = (^uint64(0))/freq*freq - uint64(r.Intn(4))*freq // close to 2^64
	}
	cur := base
	var out []uint64
	for len(out) < n {
		switch r.Intn(12) {
		case 0, 1, 2: // next window start
			cur = cur/freq*freq + freq
			if cur < freq { // wrapped
				cur = freq
			}
			out = append(out, cur)
		case 3: // duplicate of the current block
			out = append(out, cur)
		case 4: // duplicate of an earlier block
			if len(out) > 0 {
				out = append(out, out[r.Intn(len(out))])
			}
		case 5: // regression to an earlier window start
			k := uint64(r.Intn(4) + 1)
			if cur/freq > k {
				out = append(out, (cur/freq-k)*freq)
			} else {
				out = append(out, 0)
			}
		case 6: // gap: skip some windows
			cur = cur/freq*freq + uint64(r.Range(2, 5))*freq
			if cur < freq {
				cur = 2 * freq
			}
			out = append(out, cur)
		case 7: // neighbours of a window start
			w := cur/freq*freq + freq
			out = append(out, w-1)
			if r.Bool() {
				out = append(out, w+1)
			}
		case 8: // block zero / tiny
			out = append(out, uint64(r.Intn(3)))
		case 9: // arbitrary block
			out = append(out, cur+uint64(r.Intn(2*freq)))
		default: // ordinary next block
			cur++
			out = append(out, cur)
		}
	}
	return out[:n]
}

func main() {
	o := lib.ParseOpts()
	em := lib.NewEmitter()
	if o.Replay != "" {
		var in input
		if err := lib.LoadReplay(o.Replay, &in); err != nil {
			fmt.Fprintln(os.Stderr, err)
			os.Exit(2)
		}
		run(in, em, "replay")
		em.Close("replay", nil)
		return
	}
	rng := lib.NewRng(o.Seed)

	// --- corpus
	corpus := []input{
		{"stream", []uint64{899, 900, 900, 901, 1800, 1800}, -1},
		{"stream", []uint64{1800, 900, 1800, 2700, 900, 2700}, -1},
		{"stream", []uint64{0, 0, 900, 0}, -1},
		{"stream", []uint64{900, 1800, 2700}, 1},
		{"stream", []uint64{2700, 2700, 2700}, 0},
		{"stream", []uint64{18446744073709551600, 18446744073709550700, 18446744073709551600, 900}, -1},
		{"stream", []uint64{450, 1350, 901, 1799}, -1},
		{"stream", []uint64{}, -1},
		{"index", []uint64{0}, 0}, {"index", []uint64{900}, 0}, {"index", []uint64{899}, 0},
		{"index", []uint64{18446744073709551600}, 0}, {"index", []uint64{18446744073709551615}, 0},
		{"isafter", []uint64{900}, 0}, {"isafter", []uint64{900, 900}, 0},
		{"isafter", []uint64{900, 1800}, 0}, {"isafter", []uint64{1800, 900}, 0},
	}
	for i, c := range corpus {
		run(c, em, fmt.Sprintf("corpus-%02d", i))
	}

	// --- small scope, exhaustive: every stream of length <= 4 over {0, f-1, f, 2f, 3f} (quick: a
	// seeded sample of them)
	alphabet := []uint64{0, freq - 1, freq, 2 * freq, 3 * freq}
	var small [][]uint64
	var rec func(cur []uint64, k int)
	rec = func(cur []uint64, k int) {
		if len(cur) > 0 {
			small = append(small, append([]uint64{}, cur...))
		}
		if k == 0 {
			return
		}
		for _, a := range alphabet {
			rec(append(cur, a), k-1)
		}
	}
	rec(nil, 4)
	nSmall := o.Count(150, len(small))
	perm := rng.Fork("small").Perm(len(small))
	for i := 0; i < nSmall && i < len(small); i++ {
		run(input{"stream", small[perm[i]], -1}, em, fmt.Sprintf("small-%d", i))
	}

	// --- random streams
	nRand := o.Count(350, 4000)
	for i := 0; i < nRand; i++ {
		r := rng.Fork(fmt.Sprintf("rand%d", i))
		n := r.Range(3, 40)
		if r.Chance(1, 10) {
			n = r.Range(40, 120)
		}
		blocks := genStream(r, n)
		cancelAt := -1
		if r.Chance(1, 4) {
			cancelAt = r.Intn(len(blocks) + 1)
		}
		run(input{"stream", blocks, cancelAt}, em, fmt.Sprintf("rand-%d", i))
	}
	// --- pure functions
	nPure := o.Count(100, 1000)
	for i := 0; i < nPure; i++ {
		r := rng.Fork(fmt.Sprintf("pure%d", i))
		b := r.U64()
		switch r.Intn(4) {
		case 0:
			b = b / freq * freq
		case 1:
			b = uint64(r.Intn(10000))
		case 2:
			b = uint64(r.Intn(50)) * freq
		}
		if r.Bool() {
			run(input{"index", []uint64{b}, 0}, em, fmt.Sprintf("index-%d", i))
		} else {
			other := b + uint64(r.Intn(3)) - 1
			if r.Chance(1, 5) {
				run(input{"isafter", []uint64{b}, 0}, em, fmt.Sprintf("isafter-%d", i))
			} else {
				run(input{"isafter", []uint64{b, other}, 0}, em, fmt.Sprintf("isafter-%d", i))
			}
		}
	}
	em.Close("a case is one run of the real watchCoordinationWindows on a scripted stream of consumed blocks "+
		"(or one call of index / isAfter); distinct by the consumed blocks; a stream is non-trivial when it "+
		"contains >= 2 window starts and a duplicate or a regression among them", nil)
}
