// Driver for C05: runs decideMemberFate / waitForDkgResultEvent / resolveGroupOperators of
// pkg/beacon/dkg (through the verif-tagged exports) with a fake chain and a fake block counter,
// and the tail of ExecuteDKG composed exactly as ExecuteDKG composes it, and prints the cases
// for the Coq model (Model/C05.v).
//
// The fake block counter knows the chain history of the case: whether a DKG result event is
// emitted and in which block.  When the code asks to be woken at block T, the event is made
// available on the result channel iff its block is <= T and the returned waiter has fired iff
// there is no event or its block is >= T.  So exactly one of the two select branches is ready,
// except when the event lands in block T itself: then both are and Go's select may take either
// (the case is run several times; every observed outcome must be one of the model's two).
package main

import (
	"context"
	"encoding/hex"
	"encoding/json"
	"errors"
	"fmt"
	"math/big"
	"os"
	"strings"

	bn256 "github.com/ethereum/go-ethereum/crypto/bn256/cloudflare"
	beaconchain "github.com/keep-network/keep-core/pkg/beacon/chain"
	"github.com/keep-network/keep-core/pkg/beacon/dkg"
	dkgresult "github.com/keep-network/keep-core/pkg/beacon/dkg/result"
	"github.com/keep-network/keep-core/pkg/beacon/event"
	"github.com/keep-network/keep-core/pkg/beacon/gjkr"
	"github.com/keep-network/keep-core/pkg/chain"
	"github.com/keep-network/keep-core/pkg/protocol/group"

	"verifharness/lib"
)

// ids is a list of member indexes, rendered in JSON as numbers (a plain []uint8 would be base64).
type ids []uint8

func (l ids) MarshalJSON() ([]byte, error) {
	v := make([]int, len(l))
	for i, x := range l {
		v[i] = int(x)
	}
	return json.Marshal(v)
}
func (l *ids) UnmarshalJSON(b []byte) error {
	var v []int
	if err := json.Unmarshal(b, &v); err != nil {
		return err
	}
	*l = nil
	for _, x := range v {
		*l = append(*l, uint8(x))
	}
	return nil
}

type input struct {
	Kind string `json:"kind"` // fate | resolve | tail
	// member and its local GJKR result
	Me     uint8 `json:"me"`
	KeyIdx int   `json:"key_idx"` // local group public key = G2 generator * (KeyIdx+1); -1 = nil key
	Size   int   `json:"size"`    // number of members of the GJKR group
	Marked ids   `json:"marked"`  // members marked inactive (even positions) / disqualified (odd) locally
	// chain configuration
	GroupSize       int    `json:"group_size"`
	HonestThreshold int    `json:"honest_threshold"`
	Step            uint64 `json:"step"`
	Start           uint64 `json:"start"`
	// chain history
	WaiterErr  bool   `json:"waiter_err"`
	HasEvent   bool   `json:"has_event"`
	EventBlock uint64 `json:"event_block"`
	EventKey   string `json:"event_key"` // hex
	Misbehaved ids    `json:"misbehaved"`
	// tail
	PublishOK bool     `json:"publish_ok"`
	Selected  []string `json:"selected"`
	// resolve
	Operating ids `json:"operating"`
}

// ---------------------------------------------------------------- fakes

type fakeChain struct {
	beaconchain.Interface // nil: any other method would panic (and be reported)
	cfg                   *beaconchain.Config
}

func (f *fakeChain) GetConfig() *beaconchain.Config { return f.cfg }

type fakeBlockCounter struct {
	in        *input
	ch        chan *event.DKGResultSubmission
	requested []uint64
}

func (f *fakeBlockCounter) WaitForBlockHeight(uint64) error { panic("unexpected WaitForBlockHeight") }
func (f *fakeBlockCounter) CurrentBlock() (uint64, error)   { panic("unexpected CurrentBlock") }
func (f *fakeBlockCounter) WatchBlocks(context.Context) <-chan uint64 {
	panic("unexpected WatchBlocks")
}
func (f *fakeBlockCounter) BlockHeightWaiter(t uint64) (<-chan uint64, error) {
	f.requested = append(f.requested, t)
	if f.in.WaiterErr {
		return nil, errors.New("fake block counter: waiter unavailable")
	}
	w := make(chan uint64, 1)
	if f.in.HasEvent && f.in.EventBlock <= t {
		key, _ := hex.DecodeString(f.in.EventKey)
		f.ch <- &event.DKGResultSubmission{
			MemberIndex:    1,
			GroupPublicKey: key,
			Misbehaved:     append([]uint8{}, f.in.Misbehaved...),
			BlockNumber:    f.in.EventBlock,
		}
	}
	if !f.in.HasEvent || f.in.EventBlock >= t {
		w <- t
		close(w)
	}
	return w, nil
}

var keyPool []*bn256.G2

func localKey(idx int) *bn256.G2 {
	if idx < 0 {
		return nil
	}
	return keyPool[idx%len(keyPool)]
}

func setup(in *input) (*gjkr.Result, *fakeChain, *fakeBlockCounter) {
	g := group.NewGroup(in.Size-in.HonestThreshold, in.Size)
	for i, m := range in.Marked {
		if i%2 == 0 {
			g.MarkMemberAsInactive(m)
		} else {
			g.MarkMemberAsDisqualified(m)
		}
	}
	res := &gjkr.Result{Group: g, GroupPublicKey: localKey(in.KeyIdx)}
	fc := &fakeChain{cfg: &beaconchain.Config{GroupSize: in.GroupSize, HonestThreshold: in.HonestThreshold,
		ResultPublicationBlockStep: in.Step}}
	bc := &fakeBlockCounter{in: in, ch: make(chan *event.DKGResultSubmission, 1)}
	return res, fc, bc
}

func errKind(err error) string {
	s := err.Error()
	switch {
	case strings.Contains(s, "waiter unavailable"):
		return "EWaiter"
	case strings.Contains(s, "timed out"):
		return "ETimeout"
	case strings.Contains(s, "group public key is nil"):
		return "ENilKey"
	case strings.Contains(s, "do not support the same group public key"):
		return "EKeyMismatch"
	case strings.Contains(s, "considered as misbehaving"):
		return "EMisbehaved"
	}
	return "EOther"
}

func idsN(v []uint8) string {
	b := make([]byte, len(v))
	copy(b, v)
	return lib.Bytes(b)
}

type fateObs struct {
	Waiter string `json:"waiter_block"`
	Fate   string `json:"fate"`
	Detail string `json:"detail,omitempty"`
}

func runFate(in *input) (o fateObs, coq string) {
	res, fc, bc := setup(in)
	waiter := func() (string, string) {
		if len(bc.requested) == 1 {
			return fmt.Sprint(bc.requested[0]), lib.Some(lib.ZU(bc.requested[0]))
		}
		return fmt.Sprintf("%d calls", len(bc.requested)), "None"
	}
	defer func() {
		if r := recover(); r != nil {
			w, wc := waiter()
			o = fateObs{w, "FatePanic", fmt.Sprintf("panic: %v", r)}
			coq = lib.Pair(wc, "FatePanic")
		}
	}()
	ops, err := dkg.VerifDecideMemberFate(in.Me, res, bc.ch, in.Start, fc, bc)
	w, wc := waiter()
	if err != nil {
		k := errKind(err)
		return fateObs{w, k, err.Error()}, lib.Pair(wc, "(FateErr "+k+")")
	}
	return fateObs{w, fmt.Sprint(ops), ""}, lib.Pair(wc, "(FateOk "+idsN(ops)+")")
}

func addrIDs(selected []string) (map[string]uint64, []uint64) {
	m := map[string]uint64{}
	ids := make([]uint64, len(selected))
	for i, s := range selected {
		if _, ok := m[s]; !ok {
			m[s] = uint64(len(m) + 1)
		}
		ids[i] = m[s]
	}
	return m, ids
}

func renderAddrs(m map[string]uint64, l []chain.Address) string {
	v := make([]uint64, len(l))
	for i, a := range l {
		v[i] = m[string(a)] // an address that was not selected: 0
	}
	return lib.ListN(v)
}

func toAddrs(s []string) []chain.Address {
	out := make([]chain.Address, len(s))
	for i, a := range s {
		out[i] = chain.Address(a)
	}
	return out
}

func runResolve(in *input) (obs string, coq string) {
	m, _ := addrIDs(in.Selected)
	defer func() {
		if r := recover(); r != nil {
			obs, coq = fmt.Sprintf("panic: %v", r), "RPanic"
		}
	}()
	cfg := &beaconchain.Config{GroupSize: in.GroupSize, HonestThreshold: in.HonestThreshold}
	l, err := dkg.VerifResolveGroupOperators(toAddrs(in.Selected), append([]uint8{}, in.Operating...), cfg)
	if err != nil {
		if strings.Contains(err.Error(), "invalid input parameters") {
			return err.Error(), "RErrInvalid"
		}
		return "unclassified error: " + err.Error(), "RPanic"
	}
	return fmt.Sprint(l), "(ROk " + renderAddrs(m, l) + ")"
}

// runTail is the tail of ExecuteDKG (dkg.go, from `operatingMemberIndexes :=` to the
// construction of the ThresholdSigner) with the publication outcome given by the case.
func runTail(in *input) (obs string, coq string) {
	m, _ := addrIDs(in.Selected)
	res, fc, bc := setup(in)
	defer func() {
		if r := recover(); r != nil {
			obs, coq = fmt.Sprintf("panic: %v", r), "TPanic"
		}
	}()
	beaconConfig := fc.GetConfig()
	operatingMemberIndexes := res.Group.OperatingMemberIndexes()
	if !in.PublishOK {
		var err error
		if operatingMemberIndexes, err = dkg.VerifDecideMemberFate(in.Me, res, bc.ch, in.Start, fc, bc); err != nil {
			return err.Error(), "(TErrFate " + errKind(err) + ")"
		}
	}
	groupOperators, err := dkg.VerifResolveGroupOperators(toAddrs(in.Selected), operatingMemberIndexes, beaconConfig)
	if err != nil {
		if strings.Contains(err.Error(), "invalid input parameters") {
			return err.Error(), "TErrResolve"
		}
		return "unclassified error: " + err.Error(), "TPanic"
	}
	return fmt.Sprint(groupOperators), "(TSigner " + renderAddrs(m, groupOperators) + ")"
}

// timeoutBlock mirrors the Go expression only to label cases (tallies, signatures).
func timeoutBlock(in *input) uint64 {
	return in.Start + dkgresult.PrePublicationBlocks() + uint64(in.GroupSize)*in.Step
}

func coqFateIn(in *input) string {
	key := "None"
	if k := localKey(in.KeyIdx); k != nil {
		key = lib.Some(lib.Bytes(k.Marshal()))
	}
	hist := "NoEvent"
	if in.HasEvent {
		kb, _ := hex.DecodeString(in.EventKey)
		hist = fmt.Sprintf("(EventAt %s {| ev_key := %s; ev_misbehaved := %s |})", lib.ZU(in.EventBlock),
			lib.Bytes(kb), idsN(in.Misbehaved))
	}
	return fmt.Sprintf("{| f_me := %s; f_key := %s; f_size := %s; f_cfg := %s; f_start := %s; f_werr := %s; f_hist := %s |}",
		lib.N(uint64(in.Me)), key, lib.Nat(in.Size), coqCfg(in), lib.ZU(in.Start), lib.Bool(in.WaiterErr), hist)
}

func coqCfg(in *input) string {
	return fmt.Sprintf("{| group_size := %s; honest_threshold := %s; step := %s |}",
		lib.Z(int64(in.GroupSize)), lib.Z(int64(in.HonestThreshold)), lib.ZU(in.Step))
}

func contains(l []uint8, x uint8) bool {
	for _, y := range l {
		if x == y {
			return true
		}
	}
	return false
}

func run(in input, em *lib.Emitter, id string) {
	sig := map[string]interface{}{"kind": in.Kind}
	var coq string
	var out interface{}
	nontrivial := false
	arrival := "none"
	if in.HasEvent {
		switch t := timeoutBlock(&in); {
		case in.EventBlock < t:
			arrival = "event-first"
		case in.EventBlock > t:
			arrival = "timeout-first"
		default:
			arrival = "both-ready"
		}
	}
	reps := 2
	if arrival == "both-ready" {
		reps = 6
	}
	sameKey := false
	if k := localKey(in.KeyIdx); k != nil && in.HasEvent {
		sameKey = hex.EncodeToString(k.Marshal()) == in.EventKey
	}
	switch in.Kind {
	case "fate":
		var obs []fateObs
		var terms []string
		for i := 0; i < reps; i++ {
			o, c := runFate(&in)
			obs = append(obs, o)
			terms = append(terms, c)
		}
		coq = fmt.Sprintf("(CFate %s %s)", coqFateIn(&in), lib.List(terms))
		out = obs
		em.Tally("fate-" + arrival)
		if strings.HasPrefix(obs[0].Fate, "[") {
			em.Tally("fate-out-stays")
		} else {
			em.Tally("fate-out-" + obs[0].Fate)
		}
		sig["arrival"] = arrival
		nontrivial = in.HasEvent && arrival != "timeout-first" && sameKey && len(in.Misbehaved) > 0
	case "resolve":
		o, c := runResolve(&in)
		_, ids := addrIDs(in.Selected)
		coq = fmt.Sprintf("(CResolve %s %s %s %s)", lib.ListN(ids), idsN(in.Operating), coqCfg(&in), c)
		out = o
		em.Tally("resolve-out-" + strings.Fields(strings.Trim(c, "()"))[0])
		sorted := true
		for i := 1; i < len(in.Operating); i++ {
			if in.Operating[i-1] >= in.Operating[i] {
				sorted = false
			}
		}
		sig["sorted_input"] = sorted
		nontrivial = !sorted && strings.HasPrefix(c, "(ROk") && len(in.Operating) >= 2
	case "tail":
		var obs, terms []string
		for i := 0; i < reps; i++ {
			o, c := runTail(&in)
			obs = append(obs, o)
			terms = append(terms, c)
		}
		_, ids := addrIDs(in.Selected)
		coq = fmt.Sprintf("(CTail %s %s %s %s %s)", coqFateIn(&in), idsN(in.Marked), lib.Bool(in.PublishOK),
			lib.ListN(ids), lib.List(terms))
		out = obs
		em.Tally("tail-" + arrival)
		em.Tally("tail-out-" + strings.Fields(strings.Trim(terms[0], "()"))[0])
		sig["arrival"] = arrival
		sig["publish_ok"] = in.PublishOK
		nontrivial = strings.HasPrefix(terms[0], "(TSigner") && !in.PublishOK && len(in.Misbehaved) > 0
	default:
		panic("unknown kind " + in.Kind)
	}
	if in.Kind != "resolve" {
		if contains(in.Misbehaved, in.Me) {
			em.Tally("me-listed-as-misbehaving")
		}
		if in.HasEvent {
			if sameKey {
				em.Tally("event-key-same")
			} else {
				em.Tally("event-key-different")
			}
		}
	}
	key := fmt.Sprintf("%s|%d|%d|%d|%v|%d|%d|%d|%d|%v|%v|%d|%s|%v|%v|%v|%v", in.Kind, in.Me, in.KeyIdx, in.Size, in.Marked,
		in.GroupSize, in.HonestThreshold, in.Step, in.Start, in.WaiterErr, in.HasEvent, in.EventBlock, in.EventKey,
		in.Misbehaved, in.PublishOK, canonical(in.Selected), in.Operating)
	em.Case(lib.Case{ID: id, Coq: coq, Key: key, Nontrivial: nontrivial, Sig: sig, In: in, Out: out})
}

func canonical(sel []string) []uint64 { _, ids := addrIDs(sel); return ids }

// ---------------------------------------------------------------- generators

func addr(r *lib.Rng) string { return "0x" + hex.EncodeToString(r.Bytes(20)) }

func addrs(r *lib.Rng, n int, dupChance int) []string {
	out := make([]string, n)
	for i := range out {
		if i > 0 && r.Chance(dupChance, 10) { // one operator holding several seats
			out[i] = out[r.Intn(i)]
		} else {
			out[i] = addr(r)
		}
	}
	return out
}

func subset(r *lib.Rng, size int, p int) []uint8 {
	var out []uint8
	for m := 1; m <= size; m++ {
		if r.Chance(p, 100) {
			out = append(out, uint8(m))
		}
	}
	return out
}

func shuffle(r *lib.Rng, l []uint8) []uint8 {
	out := make([]uint8, len(l))
	for i, j := range r.Perm(len(l)) {
		out[i] = l[j]
	}
	return out
}

func keyHex(idx int) string { return hex.EncodeToString(keyPool[idx%len(keyPool)].Marshal()) }

// randomHistory fills the chain side of a fate/tail case.
func randomHistory(r *lib.Rng, in *input) {
	in.Step = uint64(r.Range(0, 6))
	switch r.Intn(6) {
	case 0:
		in.Start = 0
	case 1:
		in.Start = ^uint64(0) - uint64(r.Intn(400)) // uint64 wrap of the timeout block
	default:
		in.Start = uint64(r.Range(1, 5000000))
	}
	in.WaiterErr = r.Chance(1, 25)
	in.HasEvent = !r.Chance(1, 7)
	t := timeoutBlock(in)
	before := uint64(r.Range(1, 20))
	switch r.Intn(8) {
	case 0:
		in.EventBlock = t
	case 1:
		in.EventBlock = t + uint64(r.Range(1, 30))
		if in.EventBlock < t { // beyond the last block number
			in.EventBlock = ^uint64(0)
		}
	case 2:
		before = 1
		fallthrough
	default:
		if before > t {
			before = t
		}
		in.EventBlock = t - before
	}
	// the accepted key: the member's own, another member's, or a damaged copy
	own := in.KeyIdx
	if own < 0 {
		own = 0
	}
	switch k := r.Intn(12); {
	case k < 7:
		in.EventKey = keyHex(own)
	case k < 9:
		in.EventKey = keyHex(own + 1 + r.Intn(len(keyPool)-1))
	case k == 9:
		b, _ := hex.DecodeString(keyHex(own))
		b[r.Intn(len(b))] ^= byte(1 << uint(r.Intn(8)))
		in.EventKey = hex.EncodeToString(b)
	case k == 10:
		h := keyHex(own)
		in.EventKey = h[:len(h)-2*r.Range(1, 4)] // truncated
	default:
		in.EventKey = keyHex(own) + "00" // extended
	}
	// misbehaved list: subset of the members; sometimes with the member itself, with
	// duplicates, unsorted, or with indexes that are no members
	in.Misbehaved = subset(r, in.Size, []int{0, 5, 20, 50}[r.Intn(4)])
	if r.Chance(1, 4) && !contains(in.Misbehaved, in.Me) {
		in.Misbehaved = append(in.Misbehaved, in.Me)
	}
	if r.Chance(1, 5) && len(in.Misbehaved) > 0 {
		in.Misbehaved = append(in.Misbehaved, in.Misbehaved[r.Intn(len(in.Misbehaved))])
	}
	if r.Chance(1, 6) {
		in.Misbehaved = append(in.Misbehaved, uint8(r.Intn(256)))
	}
	if r.Chance(1, 3) {
		in.Misbehaved = shuffle(r, in.Misbehaved)
	}
}

func randomMember(r *lib.Rng, in *input) {
	in.Me = uint8(r.Range(1, in.Size+1))
	if in.Size == 0 || r.Chance(1, 15) {
		in.Me = uint8(r.Intn(256))
	}
	in.KeyIdx = r.Intn(len(keyPool))
	if r.Chance(1, 20) {
		in.KeyIdx = -1
	}
	in.Marked = nil
	if r.Chance(1, 2) {
		in.Marked = shuffle(r, subset(r, in.Size, 15))
	}
}

func groupShape(r *lib.Rng) (size, threshold int) {
	switch r.Intn(6) {
	case 0:
		size = 64
		threshold = 33
	case 1:
		size = r.Range(100, 255)
		threshold = size/2 + 1
	default:
		size = r.Range(1, 12)
		threshold = r.Range(0, size)
	}
	return
}

func main() {
	o := lib.ParseOpts()
	em := lib.NewEmitter()
	for k := int64(1); k <= 5; k++ {
		keyPool = append(keyPool, new(bn256.G2).ScalarBaseMult(big.NewInt(9+k)))
	}
	if o.Replay != "" {
		var in input
		if err := lib.LoadReplay(o.Replay, &in); err != nil {
			fmt.Fprintln(os.Stderr, err)
			os.Exit(2)
		}
		run(in, em, "replay")
		em.Close("replay", nil)
		return
	}
	rng := lib.NewRng(o.Seed)

	// --- corpus: the fixed combinations of pkg/beacon/dkg/dkg_test.go and their neighbours
	{
		r := lib.NewRng(11)
		sel10 := addrs(r, 10, 0)
		base := input{Kind: "fate", Me: 1, KeyIdx: 0, Size: 10, GroupSize: 10, HonestThreshold: 6, Step: 3, Start: 0,
			HasEvent: true, EventBlock: 20, EventKey: keyHex(0), Misbehaved: []uint8{7, 10}, Selected: sel10}
		run(base, em, "corpus-happy-path")
		c := base
		c.EventKey = keyHex(1)
		run(c, em, "corpus-other-key")
		c = base
		c.Misbehaved = []uint8{1, 7}
		run(c, em, "corpus-me-misbehaved")
		c = base
		c.HasEvent = false
		run(c, em, "corpus-timeout")
		c = base
		c.EventBlock = 36 // = 0 + 6 + 10*3: both select branches ready
		run(c, em, "corpus-event-in-timeout-block")
		c = base
		c.EventBlock = 37
		run(c, em, "corpus-event-after-timeout")
		c = base
		c.KeyIdx = -1
		run(c, em, "corpus-nil-local-key")
		c = base
		c.WaiterErr = true
		run(c, em, "corpus-waiter-error")
		c = base
		c.EventKey = c.EventKey[:len(c.EventKey)-2]
		run(c, em, "corpus-truncated-key")
		c = base
		c.Kind, c.Marked = "tail", []uint8{3}
		run(c, em, "corpus-tail-publication-failed")
		c.PublishOK = true
		run(c, em, "corpus-tail-published")
		c.PublishOK, c.Misbehaved = false, []uint8{2, 3, 4, 5, 6}
		run(c, em, "corpus-tail-too-few-members-left")
		c = base
		c.Kind, c.Selected = "tail", sel10[:9]
		run(c, em, "corpus-tail-selected-too-short")
		sel5 := addrs(r, 5, 0)
		res := input{Kind: "resolve", Selected: sel5, Operating: []uint8{5, 1, 3}, GroupSize: 5, HonestThreshold: 3}
		run(res, em, "corpus-resolve-doc-example")
		c = res
		c.Operating = []uint8{5, 1}
		run(c, em, "corpus-resolve-below-threshold")
		c = res
		c.Operating = []uint8{3, 3, 1, 3}
		run(c, em, "corpus-resolve-duplicates")
		c = res
		c.Operating = []uint8{2, 0, 4}
		run(c, em, "corpus-resolve-index-zero")
		c = res
		c.Operating = []uint8{2, 6, 4}
		run(c, em, "corpus-resolve-index-beyond")
		c = res
		c.GroupSize = 6
		run(c, em, "corpus-resolve-group-size-differs")
		big := addrs(r, 256, 2)
		run(input{Kind: "resolve", Selected: big, Operating: []uint8{0, 255, 1}, GroupSize: 256, HonestThreshold: 1}, em,
			"corpus-resolve-uint8-wrap-in-range")
	}

	// --- exhaustive small scope, fate and tail: group of 3, threshold 2; every misbehaved
	// subset, every member, same / other key, the four arrival orders
	{
		r := rng.Fork("small-sel")
		sel3 := addrs(r, 3, 0)
		n := 0
		for mask := 0; mask < 8; mask++ {
			var mis []uint8
			for m := 1; m <= 3; m++ {
				if mask>>(m-1)&1 == 1 {
					mis = append(mis, uint8(m))
				}
			}
			for me := uint8(1); me <= 3; me++ {
				for key := 0; key < 2; key++ {
					for arr := 0; arr < 4; arr++ {
						in := input{Me: me, KeyIdx: 0, Size: 3, GroupSize: 3, HonestThreshold: 2, Step: 2, Start: 50,
							HasEvent: arr != 3, EventBlock: uint64(61 + arr), EventKey: keyHex(key), Misbehaved: mis,
							Selected: sel3}
						n++
						if o.Tier == "quick" && n%2 == 0 {
							in.Kind = "tail"
						} else {
							in.Kind = "fate"
						}
						run(in, em, fmt.Sprintf("small-%s-%d", in.Kind, n))
						if o.Tier != "quick" {
							in.Kind = "tail"
							run(in, em, fmt.Sprintf("small-tail-%d", n))
						}
					}
				}
			}
		}
	}
	// --- exhaustive small scope, resolve: 3 selected operators, every operating list of
	// length <= 3 over {0..4}, thresholds 0 and 2, group size 3 (and 4 for a sample)
	{
		r := rng.Fork("small-res")
		sel3 := addrs(r, 3, 0)
		var lists [][]uint8
		var rec func(cur []uint8)
		rec = func(cur []uint8) {
			lists = append(lists, append([]uint8{}, cur...))
			if len(cur) == 3 {
				return
			}
			for v := uint8(0); v <= 4; v++ {
				rec(append(cur, v))
			}
		}
		rec(nil)
		for i, l := range lists {
			for _, th := range []int{0, 2} {
				if o.Tier == "quick" && (i+th)%2 == 1 {
					continue
				}
				gs := 3
				if i%17 == 0 {
					gs = 4
				}
				run(input{Kind: "resolve", Selected: sel3, Operating: l, GroupSize: gs, HonestThreshold: th}, em,
					fmt.Sprintf("small-resolve-%d-%d", i, th))
			}
		}
	}

	// --- random fate / tail cases
	nFate := o.Count(260, 4000)
	for i := 0; i < nFate; i++ {
		r := rng.Fork(fmt.Sprintf("fate%d", i))
		var in input
		in.Size, in.HonestThreshold = groupShape(r)
		in.GroupSize = in.Size
		randomMember(r, &in)
		if r.Bool() {
			in.Kind = "fate"
			if r.Chance(1, 8) { // the config's group size only enters the timeout block here
				in.GroupSize = []int{0, -1, -5, 300, 1 << 40}[r.Intn(5)]
			}
		} else {
			in.Kind = "tail"
			in.PublishOK = r.Chance(1, 4)
			in.Selected = addrs(r, in.Size, 2)
			if r.Chance(1, 10) { // inconsistent selection
				if r.Bool() && len(in.Selected) > 0 {
					in.Selected = in.Selected[:len(in.Selected)-1]
				} else {
					in.Selected = append(in.Selected, addr(r))
				}
			}
			if r.Chance(1, 6) {
				in.HonestThreshold = r.Range(0, in.Size+1)
			}
		}
		randomHistory(r, &in)
		if r.Bool() && in.KeyIdx >= 0 && in.Size > 0 {
			// a history in which the member can stay: accepted result with its key, in time,
			// listing only a few other members
			in.WaiterErr, in.HasEvent, in.EventKey = false, true, keyHex(in.KeyIdx)
			if t := timeoutBlock(&in); in.EventBlock > t || r.Chance(1, 10) {
				in.EventBlock = t
			}
			var mis []uint8
			for _, m := range in.Misbehaved {
				if m != in.Me && len(mis) < in.Size-in.HonestThreshold {
					mis = append(mis, m)
				}
			}
			in.Misbehaved = mis
		}
		run(in, em, fmt.Sprintf("%s-%d", in.Kind, i))
	}

	// --- random resolve cases: permuted, duplicated and out-of-range operating lists
	nRes := o.Count(200, 3000)
	for i := 0; i < nRes; i++ {
		r := rng.Fork(fmt.Sprintf("res%d", i))
		size, th := groupShape(r)
		if r.Chance(1, 12) {
			size = r.Range(256, 300) // beyond uint8: index 0 wraps to a valid position
		}
		in := input{Kind: "resolve", Selected: addrs(r, size, 2), GroupSize: size, HonestThreshold: th}
		ops := subset(r, min(size, 255), []int{100, 90, 60, 30}[r.Intn(4)])
		switch r.Intn(6) {
		case 0: // as ExecuteDKG passes it: sorted
		case 1, 2:
			ops = shuffle(r, ops)
		case 3:
			ops = shuffle(r, ops)
			for k := r.Range(1, 3); k > 0 && len(ops) > 0; k-- {
				ops = append(ops, ops[r.Intn(len(ops))])
			}
		case 4:
			ops = shuffle(r, append(ops, uint8(r.Intn(256))))
		default:
			ops = shuffle(r, append(ops, 0))
		}
		in.Operating = ops
		switch r.Intn(12) {
		case 0:
			in.GroupSize = size + 1
		case 1:
			in.GroupSize = -size
		case 2:
			in.HonestThreshold = len(ops) + 1
		case 3:
			in.HonestThreshold = -3
		case 4:
			in.HonestThreshold = len(ops)
		}
		run(in, em, fmt.Sprintf("resolve-%d", i))
	}

	em.Close("a case is one call of decideMemberFate (kind fate, repeated 2..6 times), one call of "+
		"resolveGroupOperators (kind resolve) or one run of the tail of ExecuteDKG (kind tail) on a generated local "+
		"result, chain configuration, chain history and operator selection; distinct by all inputs; non-trivial: fate "+
		"when the event is deliverable, carries the member's key and lists some misbehaving member; resolve when the "+
		"operating list is not sorted and the call succeeds; tail when publication failed and a signer with a "+
		"non-empty misbehaved list results", nil)
}

func min(a, b int) int {
	if a < b {
		return a
	}
	return b
}
