// Driver for C43: runs the REAL Bitcoin difficulty maintainer (pkg/maintainer/btcdiff:
// startControlLoop, proveEpochs, verifySubmissionEligibility, proveNextEpoch, reached through
// the verif-tagged exports of verif_export_c43.go) against a scripted Bitcoin chain and a
// scripted relay chain, and prints the cases for the Coq model (Model/C43.v).
//
// Script semantics (the same as in the model): the k-th call the maintainer makes on either
// collaborator is answered from the k-th world of the script.  When the script has run out the
// context is cancelled and every further call fails.  The observable is the list of calls made
// while the script lasted plus the one call that found it empty (with arguments: header heights fetched, header heights submitted,
// which authorisation was asked for which address, which retarget entry point was used), the
// function's result class, and the number of submissions attempted after the script ran out.
//
// The only real time in a run is the code's own hard-wired 1 s poll of waitForCurrentEpochUpdate
// (a sleep, never a verdict); cases run concurrently so that these sleeps overlap.
package main

import (
	"context"
	"crypto/sha1"
	"encoding/binary"
	"errors"
	"fmt"
	"os"
	"strings"
	"sync"
	"time"

	logging "github.com/ipfs/go-log/v2"

	"github.com/keep-network/keep-core/pkg/bitcoin"
	"github.com/keep-network/keep-core/pkg/chain"
	"github.com/keep-network/keep-core/pkg/maintainer/btcdiff"

	"verifharness/lib"
)

const epochLen = 2016 // only steers generation, never judges

// ---------------------------------------------------------------- script

// tri-state answers: 0 = false, 1 = true, 2 = the call returns an error
type world struct {
	R   int    `json:"r"`   // Ready
	A   int    `json:"a"`   // IsAuthorized
	AR  int    `json:"ar"`  // IsAuthorizedForRefund
	H   uint64 `json:"h"`   // GetLatestBlockHeight
	HE  bool   `json:"he"`  // ... fails
	E   uint64 `json:"e"`   // CurrentEpoch
	EE  bool   `json:"ee"`  // ... fails
	P   uint64 `json:"p"`   // ProofLength
	PE  bool   `json:"pe"`  // ... fails
	HK  bool   `json:"hk"`  // GetBlockHeader succeeds
	SK  bool   `json:"sk"`  // Retarget / RetargetWithRefund succeeds
}

type input struct {
	Mode   string  `json:"mode"` // loop | epochs | verify | next
	DP     bool    `json:"dp"`   // config.DisableProxy
	Script []world `json:"script"`
}

var errInjected = errors.New("injected failure")
var errExhausted = errors.New("script exhausted")

const ownAddress = chain.Address("0xC43maintainer")

// ---------------------------------------------------------------- fakes

type env struct {
	mu     sync.Mutex
	script []world
	pos    int
	trace  []string // Coq terms of the calls
	human  []string
	late   int
	cancel context.CancelFunc
	bad    string // harness-level anomaly (nil header ...)
}

// take returns the world answering this call, or nil when the script has run out.
func (e *env) take(coq, human string, submit bool) *world {
	e.mu.Lock()
	defer e.mu.Unlock()
	if e.pos >= len(e.script) {
		// the script has run out: this call fails and the context is cancelled.  The first
		// such call still belongs to the observable; later ones only if they submit.
		if e.pos == len(e.script) {
			e.pos++
			e.trace = append(e.trace, coq)
			e.human = append(e.human, human+" <script exhausted>")
		} else if submit {
			e.late++
		}
		e.cancel()
		return nil
	}
	w := &e.script[e.pos]
	e.pos++
	e.trace = append(e.trace, coq)
	e.human = append(e.human, human)
	return w
}

type btcFake struct {
	bitcoin.Chain // any other method: nil interface, panics (reported)
	e             *env
}

func (b *btcFake) GetLatestBlockHeight() (uint, error) {
	w := b.e.take("CHeight", "GetLatestBlockHeight", false)
	if w == nil {
		return 0, errExhausted
	}
	if w.HE {
		return 0, errInjected
	}
	return uint(w.H), nil
}

func (b *btcFake) GetBlockHeader(height uint) (*bitcoin.BlockHeader, error) {
	w := b.e.take(fmt.Sprintf("CHeader %d", uint64(height)), fmt.Sprintf("GetBlockHeader(%d)", uint64(height)), false)
	if w == nil {
		return nil, errExhausted
	}
	if !w.HK {
		return nil, errInjected
	}
	h := &bitcoin.BlockHeader{Version: 1}
	binary.LittleEndian.PutUint64(h.PreviousBlockHeaderHash[0:8], uint64(height))
	h.PreviousBlockHeaderHash[31] = 0xC4 // marks a header made by this fake
	return h, nil
}

type signingFake struct {
	chain.Signing
}

func (signingFake) Address() chain.Address { return ownAddress }

type relayFake struct {
	btcdiff.Chain
	e *env
}

func consecutive(v []uint64) bool {
	for i := 1; i < len(v); i++ {
		if v[i-1] == ^uint64(0) || v[i] != v[i-1]+1 {
			return false
		}
	}
	return true
}

func tri(v int) (bool, error) {
	if v == 2 {
		return false, errInjected
	}
	return v == 1, nil
}

func (r *relayFake) Ready() (bool, error) {
	w := r.e.take("CReady", "Ready", false)
	if w == nil {
		return false, errExhausted
	}
	return tri(w.R)
}
func (r *relayFake) auth(refund bool, a chain.Address) (bool, error) {
	name := "IsAuthorized"
	if refund {
		name = "IsAuthorizedForRefund"
	}
	w := r.e.take(fmt.Sprintf("CAuth %s %s", lib.Bool(refund), lib.Bool(a == ownAddress)), fmt.Sprintf("%s(own=%v)", name, a == ownAddress), false)
	if w == nil {
		return false, errExhausted
	}
	if refund {
		return tri(w.AR)
	}
	return tri(w.A)
}
func (r *relayFake) IsAuthorized(a chain.Address) (bool, error)          { return r.auth(false, a) }
func (r *relayFake) IsAuthorizedForRefund(a chain.Address) (bool, error) { return r.auth(true, a) }
func (r *relayFake) Signing() chain.Signing                              { return signingFake{} }

func (r *relayFake) submit(refund bool, headers []*bitcoin.BlockHeader) error {
	hs := make([]string, len(headers))
	var nums []uint64
	for i, h := range headers {
		if h == nil || h.PreviousBlockHeaderHash[31] != 0xC4 {
			r.e.mu.Lock()
			r.e.bad = "submitted a header that was not fetched from the Bitcoin chain"
			r.e.mu.Unlock()
			hs[i] = "(-1)"
			continue
		}
		v := binary.LittleEndian.Uint64(h.PreviousBlockHeaderHash[0:8])
		nums = append(nums, v)
		hs[i] = fmt.Sprintf("%d", v)
	}
	name := "Retarget"
	if refund {
		name = "RetargetWithRefund"
	}
	list := "[" + strings.Join(hs, "; ") + "]"
	if len(nums) == len(headers) && len(nums) > 2 && consecutive(nums) {
		list = fmt.Sprintf("(zrange %d %d%%nat)", nums[0], len(nums)) // the same list, shorter to elaborate
	}
	w := r.e.take(fmt.Sprintf("CSubmit %s %s", lib.Bool(refund), list),
		fmt.Sprintf("%s[%s]", name, strings.Join(hs, ",")), true)
	if w == nil {
		return errExhausted
	}
	if !w.SK {
		return errInjected
	}
	return nil
}
func (r *relayFake) Retarget(h []*bitcoin.BlockHeader) error           { return r.submit(false, h) }
func (r *relayFake) RetargetWithRefund(h []*bitcoin.BlockHeader) error { return r.submit(true, h) }

func (r *relayFake) CurrentEpoch() (uint64, error) {
	w := r.e.take("CEpoch", "CurrentEpoch", false)
	if w == nil {
		return 0, errExhausted
	}
	if w.EE {
		return 0, errInjected
	}
	return w.E, nil
}
func (r *relayFake) ProofLength() (uint64, error) {
	w := r.e.take("CPLen", "ProofLength", false)
	if w == nil {
		return 0, errExhausted
	}
	if w.PE {
		return 0, errInjected
	}
	return w.P, nil
}

// ---------------------------------------------------------------- one run

type obs struct {
	Calls []string `json:"calls"`
	Res   string   `json:"res"`
	Late  int      `json:"late"`
	Panic string   `json:"panic,omitempty"`
}

type result struct {
	in    input
	o     obs
	trace []string
}

func errClass(err error) string {
	switch {
	case err == nil:
		return "FOk"
	case btcdiff.VerifIsNoGenesis(err):
		return "FNotReady"
	case btcdiff.VerifIsNotAuthorized(err):
		return "FNotAuth"
	}
	return "FErr"
}

func execute(in input) (res result) {
	ctx, cancel := context.WithCancel(context.Background())
	defer cancel()
	e := &env{script: in.Script, cancel: cancel}
	btc := &btcFake{e: e}
	relay := &relayFake{e: e}
	cfg := btcdiff.Config{Enabled: true, DisableProxy: in.DP,
		IdleBackOffTime: time.Nanosecond, RestartBackOffTime: time.Nanosecond}
	res.in = in
	out := "FNone"
	panicked := ""
	func() {
		defer func() {
			if r := recover(); r != nil {
				panicked = fmt.Sprint(r)
			}
		}()
		switch in.Mode {
		case "loop":
			btcdiff.VerifStartControlLoop(ctx, cfg, btc, relay) // returns once the context is cancelled
		case "epochs":
			out = errClass(btcdiff.VerifProveEpochs(ctx, cfg, btc, relay))
			if out == "FOk" {
				out = "FNone" // proveEpochs never returns nil
			}
		case "verify":
			out = errClass(btcdiff.VerifVerifySubmissionEligibility(cfg, btc, relay))
		case "next":
			proven, err := btcdiff.VerifProveNextEpoch(ctx, cfg, btc, relay)
			switch {
			case err != nil:
				out = "FErr"
			case proven:
				out = "FProven"
			default:
				out = "FIdle"
			}
		default:
			panic("bad mode " + in.Mode)
		}
	}()
	e.mu.Lock()
	defer e.mu.Unlock()
	res.trace = e.trace
	res.o = obs{Calls: e.human, Res: out, Late: e.late}
	if panicked != "" || e.bad != "" {
		res.o.Panic = panicked + e.bad
		res.o.Late = -1 // outside the model's domain: reported as BadCase
	}
	return res
}

// ---------------------------------------------------------------- rendering

func triZ(v int) string {
	if v == 2 {
		return "2"
	}
	return fmt.Sprint(v)
}
func optZ(v uint64, isErr bool) string {
	if isErr {
		return "(-1)"
	}
	return fmt.Sprintf("%d", v)
}
func worldCoq(w world) string {
	return fmt.Sprintf("mkw %s %s %s %s %s %s %s %s", triZ(w.R), triZ(w.A), triZ(w.AR),
		optZ(w.H, w.HE), optZ(w.E, w.EE), optZ(w.P, w.PE), lib.Bool(w.HK), lib.Bool(w.SK))
}

var modeCtor = map[string]string{"loop": "MLoop", "epochs": "MEpochs", "verify": "MVerify", "next": "MNext"}

func emit(em *lib.Emitter, id string, r result) {
	// distinct worlds are bound once (let a0 := mkw ... in ...): elaborating the term in Coq is
	// the dominant cost of a case, and consecutive worlds of a script are mostly identical
	names := map[string]string{}
	var lets []string
	ws := make([]string, len(r.in.Script))
	for i, w := range r.in.Script {
		t := worldCoq(w)
		n, ok := names[t]
		if !ok {
			n = fmt.Sprintf("a%d", len(names))
			names[t] = n
			lets = append(lets, fmt.Sprintf("let %s := %s in ", n, t))
		}
		ws[i] = n
	}
	coq := fmt.Sprintf("(%s{| c_dp := %s; c_mode := %s; c_ws := [%s]; c_trace := [%s]; c_res := %s; c_late := %d |})",
		strings.Join(lets, ""), lib.Bool(r.in.DP), modeCtor[r.in.Mode], strings.Join(ws, "; "), strings.Join(r.trace, "; "), r.o.Res, r.o.Late)
	submits, okSubmits, withHeaders := 0, 0, 0
	for i, c := range r.trace {
		if strings.HasPrefix(c, "CSubmit") {
			submits++
			if i < len(r.in.Script) && r.in.Script[i].SK {
				okSubmits++
			}
			if !strings.HasSuffix(c, " []") {
				withHeaders++
			}
		}
	}
	em.Tally("mode-" + r.in.Mode)
	em.Tally("res-" + r.o.Res)
	switch {
	case submits == 0:
		em.Tally("submissions-0")
	case submits == 1:
		em.Tally("submissions-1")
	default:
		em.Tally("submissions-2+")
	}
	if okSubmits < submits {
		em.Tally("with-failed-submission")
	}
	em.Case(lib.Case{
		ID:         id,
		Coq:        coq,
		Key:        fmt.Sprintf("%x", sha1.Sum([]byte(coq))),
		Nontrivial: withHeaders > 0,
		Sig:        map[string]interface{}{"mode": r.in.Mode, "dp": r.in.DP, "submissions": submits, "res": r.o.Res},
		In:         r.in,
		Out:        r.o,
	})
}

// ---------------------------------------------------------------- reference walk (steers generation only)

// sim mirrors the control flow of the maintainer so that the generator knows which call comes
// next and can place heights / epochs / errors where they matter.  It never judges anything.
type sim struct {
	st             string // ready auth height epoch plen fetch submit wait
	h, e, l        uint64
	cur, last      uint64
	target         uint64
	lagPolls       int // polls answered below the target so far in this run (each costs 1 s)
	submits, fetch int
}

func (s *sim) step(w world, dp bool) {
	restart := func() { s.st = "ready" }
	switch s.st {
	case "ready":
		if w.R == 1 {
			s.st = "auth"
		}
	case "auth":
		a := w.AR
		if dp {
			a = w.A
		}
		if a == 1 {
			s.st = "height"
		} else {
			restart()
		}
	case "height":
		if w.HE {
			restart()
		} else {
			s.h, s.st = w.H, "epoch"
		}
	case "epoch":
		if w.EE {
			restart()
		} else {
			s.e, s.st = w.E, "plen"
		}
	case "plen":
		if w.PE {
			restart()
			return
		}
		s.l = w.P
		neh := (s.e + 1) * epochLen
		first := neh - s.l
		s.last = neh + s.l - 1
		switch {
		case s.h < s.last:
			s.st = "height"
		case first <= s.last:
			s.cur, s.st = first, "fetch"
		default:
			s.st = "submit"
		}
	case "fetch":
		s.fetch++
		if !w.HK {
			restart()
			return
		}
		s.cur++ // wraps like the code's loop variable
		if !(s.cur <= s.last) {
			s.st = "submit"
		}
	case "submit":
		s.submits++
		if w.SK {
			s.target, s.st = s.e+1, "wait"
		} else {
			restart()
		}
	case "wait":
		switch {
		case w.EE:
			restart()
		case w.E >= s.target:
			s.st = "height"
		default:
			s.lagPolls++
		}
	}
}

// ---------------------------------------------------------------- generators

type profile struct {
	pErr      int // per-mille: the call that is about to be made fails
	pNotReady int // per-mille
	pNotAuth  int
	bigL      bool
	edge      bool // 64-bit edge values
}

// genScript grows a script of n worlds along the reference walk.
func genScript(r *lib.Rng, mode string, dp bool, n int, pf profile) []world {
	s := &sim{st: "ready"}
	if mode == "next" {
		s.st = "height"
	}
	pickL := func() uint64 {
		switch {
		case pf.bigL && r.Chance(1, 3):
			return uint64(r.Range(9, 40))
		case pf.edge && r.Chance(1, 3):
			return []uint64{0, 2017, 5000, 1 << 62, 1<<63 + 2, ^uint64(0)}[r.Intn(6)]
		case r.Chance(1, 12):
			return 0
		}
		return uint64(r.Range(1, 6))
	}
	pickE := func() uint64 {
		if pf.edge && r.Chance(1, 2) {
			return []uint64{^uint64(0), ^uint64(0) - 1, (1<<64-1)/epochLen - 1, (1<<64-1)/epochLen, (1<<64-1)/epochLen - 2, 0}[r.Intn(6)]
		}
		if r.Chance(1, 6) {
			return uint64(r.Intn(3))
		}
		return uint64(r.Range(0, 900))
	}
	relayE := pickE() // what the relay currently reports
	L := pickL()
	height := uint64(0)
	placeHeight := func() {
		neh := (relayE + 1) * epochLen
		last := neh + L - 1
		switch r.Intn(9) {
		case 0:
			height = last - 1
		case 1, 2:
			height = last
		case 3:
			height = last + 1
		case 4:
			height = neh - L // first required header
		case 5:
			height = neh // the new epoch has just begun
		case 6:
			height = neh - uint64(r.Range(1, 2016))
		case 7:
			height = last + uint64(r.Range(2, 5000))
		default:
			height = last - uint64(r.Range(1, int(2*L)+2))
		}
	}
	placeHeight()
	ready, auth, authr := 1, 1, 1
	// sometimes the maintainer is not eligible from the start (and stays so for a while)
	sticky := 0
	if r.Chance(1, 5) {
		switch r.Intn(3) {
		case 0:
			ready = 0
		case 1:
			auth, authr = 0, 0
		default:
			if dp {
				auth = 0
			} else {
				authr = 0
			}
		}
		sticky = r.Range(8, 30)
	}
	var ws []world
	lagBudget := 2
	for len(ws) < n {
		// slow drift of the environment
		if r.Chance(1, 25) {
			height += uint64(r.Range(1, 3))
		}
		if len(ws) < sticky {
			// keep the initial ineligibility
		} else if r.Chance(pf.pNotReady, 1000) {
			ready = 1 - ready
		} else if ready == 0 && r.Chance(1, 3) {
			ready = 1
		}
		if len(ws) < sticky {
		} else if r.Chance(pf.pNotAuth, 1000) {
			if r.Bool() {
				auth = 1 - auth
			} else {
				authr = 1 - authr
			}
		} else if r.Chance(1, 4) {
			auth, authr = auth|btoi(r.Chance(1, 2)), authr|btoi(r.Chance(1, 2))
		}
		// steer by the call that comes next
		switch s.st {
		case "height":
			if r.Chance(2, 3) {
				placeHeight()
			}
		case "epoch":
			switch {
			case r.Chance(1, 10):
				relayE += uint64(r.Range(1, 3)) // somebody else proved epochs meanwhile
			case r.Chance(1, 40) && relayE > 0:
				relayE-- // relay reorg
			}
		case "plen":
			if r.Chance(1, 15) {
				L = pickL()
			}
		case "wait":
			switch {
			case s.lagPolls >= lagBudget || r.Chance(1, 2):
				if relayE < s.target {
					relayE = s.target
				}
				if r.Chance(1, 8) {
					relayE += uint64(r.Range(1, 2))
				}
			}
		}
		w := world{R: ready, A: auth, AR: authr, H: height, E: relayE, P: L, HK: true, SK: true}
		// the pending call fails
		if r.Chance(pf.pErr, 1000) {
			switch s.st {
			case "ready":
				w.R = 2
			case "auth":
				if dp {
					w.A = 2
				} else {
					w.AR = 2
				}
			case "height":
				w.HE = true
			case "epoch", "wait":
				w.EE = true
			case "plen":
				w.PE = true
			case "fetch":
				w.HK = false
			case "submit":
				w.SK = false
			}
		}
		// failures of calls that are NOT being made must not matter
		if r.Chance(1, 6) {
			switch r.Intn(7) {
			case 0:
				if s.st != "ready" {
					w.R = r.Intn(3)
				}
			case 1:
				if s.st != "auth" {
					w.A, w.AR = r.Intn(3), r.Intn(3)
				}
			case 2:
				if s.st != "height" {
					w.HE = true
				}
			case 3:
				if s.st != "epoch" && s.st != "wait" {
					w.EE = true
				}
			case 4:
				if s.st != "plen" {
					w.PE = true
				}
			case 5:
				if s.st != "fetch" {
					w.HK = false
				}
			default:
				if s.st != "submit" {
					w.SK = false
				}
			}
		}
		// the authorisation of the other kind is irrelevant: often make it differ
		if s.st == "auth" && r.Chance(1, 2) {
			if dp {
				w.AR = r.Intn(3)
			} else {
				w.A = r.Intn(3)
			}
		}
		ws = append(ws, w)
		s.step(w, dp)
	}
	return ws
}

func btoi(b bool) int {
	if b {
		return 1
	}
	return 0
}

// nextScript builds the script of one proveNextEpoch call: height, epoch, proof length,
// headers, submission, polls.  fail: -1 none, otherwise the index of the failing call.
func nextScript(h, e, l uint64, fail int, polls []int64) []world {
	base := world{R: 1, A: 1, AR: 1, H: h, E: e, P: l, HK: true, SK: true}
	n := 3
	first := (e+1)*epochLen - l
	last := (e+1)*epochLen + l - 1
	cnt := 0 // headers the code's loop fetches
	if first <= last {
		cnt = int(last - first + 1)
	}
	if h >= last {
		n += cnt + 1 + len(polls)
	}
	ws := make([]world, n)
	for i := range ws {
		ws[i] = base
		if i >= 3+cnt+1 { // polls: the relay's answers after the submission
			p := polls[i-(3+cnt+1)]
			if p < 0 {
				ws[i].EE = true
			} else {
				ws[i].E = uint64(p)
			}
		}
		if i == fail {
			ws[i].HE, ws[i].EE, ws[i].PE, ws[i].HK, ws[i].SK = true, true, true, false, false
		}
	}
	return ws
}

// ---------------------------------------------------------------- main

type job struct {
	id string
	in input
}

func main() {
	lib.SilenceLogs()
	logging.SetAllLoggers(logging.LevelFatal)
	o := lib.ParseOpts()
	em := lib.NewEmitter()
	// a run that never returns is a harness failure (exit 3), not a verdict
	time.AfterFunc(25*time.Minute, func() {
		fmt.Fprintln(os.Stderr, "c43: driver watchdog: a maintainer run did not return")
		os.Exit(3)
	})
	if o.Replay != "" {
		var in input
		if err := lib.LoadReplay(o.Replay, &in); err != nil {
			fmt.Fprintln(os.Stderr, err)
			os.Exit(2)
		}
		emit(em, "replay", execute(in))
		em.Close("replay", nil)
		return
	}
	rng := lib.NewRng(o.Seed)
	var jobs []job
	add := func(id, mode string, dp bool, ws []world) {
		jobs = append(jobs, job{id, input{Mode: mode, DP: dp, Script: ws}})
	}
	ok := world{R: 1, A: 1, AR: 1, H: 4034, E: 1, P: 3, HK: true, SK: true}
	rep := func(w world, n int) []world {
		ws := make([]world, n)
		for i := range ws {
			ws[i] = w
		}
		return ws
	}

	// --- corpus: the example of the code comment (epoch 258 -> 259 begins at 522144, proof length 3)
	{
		h := uint64(522146)
		add("corpus-comment-example", "next", false, nextScript(h, 258, 3, -1, []int64{259}))
		add("corpus-comment-example-direct", "next", true, nextScript(h, 258, 3, -1, []int64{259}))
		add("corpus-one-block-short", "next", false, nextScript(h-1, 258, 3, -1, nil))
		add("corpus-epoch-just-begun", "next", false, nextScript(522144, 258, 3, -1, nil))
		add("corpus-up-to-date", "next", false, nextScript(522000, 258, 3, -1, nil))
		add("corpus-relay-lags-two-polls", "next", false, nextScript(h, 258, 3, -1, []int64{258, 258, 259}))
		add("corpus-relay-jumps", "next", false, nextScript(h+9000, 258, 3, -1, []int64{261}))
		add("corpus-poll-error", "next", false, nextScript(h, 258, 3, -1, []int64{-1}))
		add("corpus-submit-error", "next", true, nextScript(h, 258, 3, 9, []int64{259}))
		add("corpus-header-error", "next", false, nextScript(h, 258, 3, 5, []int64{259}))
		add("corpus-proof-length-zero", "next", false, nextScript(h, 258, 0, -1, []int64{259}))
		add("corpus-proof-length-above-height", "next", false, nextScript(9000, 0, 3000, -1, []int64{1}))
		add("corpus-epoch-max", "next", false, nextScript(5, ^uint64(0), 3, -1, []int64{0}))
		// whole loop: two epochs in a row, then idle
		ws := append(nextScript(h+2016, 258, 3, -1, []int64{259}), nextScript(h+2016, 259, 3, -1, []int64{260})...)
		ws = append(ws, nextScript(h+2016, 260, 3, -1, nil)...)
		add("corpus-loop-two-epochs", "loop", false, append(rep(ok, 2), ws...))
		// relay still reports the old epoch after a poll error: the restarted maintainer submits again
		ws = append(nextScript(h, 258, 3, -1, []int64{-1}), rep(world{R: 1, A: 1, AR: 1, H: h, E: 258, P: 3, HK: true, SK: true}, 13)...)
		add("corpus-loop-resubmission-after-poll-error", "loop", false, append(rep(ok, 2), ws...))
		// not ready / not authorised / wrong kind of authorisation
		nr := ok
		nr.R = 0
		add("corpus-loop-not-ready", "loop", false, rep(nr, 16))
		add("corpus-epochs-not-ready", "epochs", true, rep(nr, 16))
		na := ok
		na.AR = 0
		add("corpus-loop-not-authorized-refund", "loop", false, rep(na, 16))
		add("corpus-verify-not-authorized-refund", "verify", false, rep(na, 3))
		add("corpus-epochs-not-authorized-refund", "epochs", false, rep(na, 16))
		add("corpus-loop-direct-ignores-refund-auth", "loop", true, rep(na, 14))
		na = ok
		na.A = 0
		add("corpus-loop-not-authorized-direct", "loop", true, rep(na, 16))
		add("corpus-verify-not-authorized-direct", "verify", true, rep(na, 3))
		add("corpus-epochs-not-authorized-direct", "epochs", true, rep(na, 16))
		add("corpus-loop-proxy-ignores-direct-auth", "loop", false, rep(na, 14))
		add("corpus-verify-ok", "verify", false, rep(ok, 3))
		add("corpus-verify-not-ready", "verify", false, rep(nr, 3))
		add("corpus-verify-empty-script", "verify", true, nil)
		add("corpus-epochs-empty-script", "epochs", true, nil)
		add("corpus-next-empty-script", "next", true, nil)
		add("corpus-loop-empty-script", "loop", false, nil)
	}

	// --- small-scope enumeration of single proveNextEpoch calls around the height threshold
	{
		type pt struct {
			e, l      uint64
			dh, fail  int
			wait      int
			dp        bool
		}
		var all []pt
		for _, e := range []uint64{0, 1, 7} {
			for l := uint64(0); l <= 3; l++ {
				for dh := -2; dh <= 1; dh++ {
					nCalls := 3 + int(2*l) + 2
					for fail := -1; fail < nCalls; fail++ {
						if dh < 0 && fail > 2 {
							continue
						}
						for wait := 0; wait < 3; wait++ {
							if (dh < 0 || (fail >= 0 && fail <= 3+int(2*l))) && wait > 0 {
								continue // no submission succeeds: the polls are never asked
							}
							all = append(all, pt{e, l, dh, fail, wait, (int(e)+int(l)+dh+fail+wait)%2 == 0})
						}
					}
				}
			}
		}
		n := o.Count(260, 1200)
		perm := rng.Fork("enum").Perm(len(all))
		for i := 0; i < n && i < len(all); i++ {
			p := all[perm[i]]
			last := (p.e+1)*epochLen + p.l - 1
			polls := [][]int64{{int64(p.e) + 1}, {int64(p.e) + 3}, {int64(p.e), int64(p.e) + 1}}[p.wait]
			add(fmt.Sprintf("enum-e%d_l%d_dh%d_f%d_w%d", p.e, p.l, p.dh, p.fail, p.wait), "next", p.dp,
				nextScript(uint64(int64(last)+int64(p.dh)), p.e, p.l, p.fail, polls))
		}
	}

	// --- structured random histories
	{
		r := rng.Fork("random")
		nLoop := o.Count(230, 1500)
		for i := 0; i < nLoop; i++ {
			pf := profile{pErr: r.Range(0, 120), pNotReady: r.Range(0, 60), pNotAuth: r.Range(0, 60), bigL: r.Chance(1, 6)}
			if r.Chance(1, 3) {
				pf = profile{pErr: r.Range(0, 40)} // mostly healthy: long productive runs
			}
			if r.Chance(1, 10) {
				pf.edge = true
			}
			mode := "loop"
			switch {
			case i%7 == 5:
				mode = "epochs"
			case i%7 == 6:
				mode = "next"
			case i%21 == 4:
				mode = "verify"
			}
			n := r.Range(4, 56)
			if mode == "verify" {
				n = r.Range(0, 4)
			}
			dp := r.Bool()
			add(fmt.Sprintf("rand-%05d-%s", i, mode), mode, dp, genScript(r, mode, dp, n, pf))
		}
	}

	// --- run (concurrently: the code's own 1 s polls overlap), emit in order
	results := make([]result, len(jobs))
	var wg sync.WaitGroup
	sem := make(chan struct{}, 384)
	for i := range jobs {
		wg.Add(1)
		sem <- struct{}{}
		go func(i int) {
			defer wg.Done()
			defer func() { <-sem }()
			results[i] = execute(jobs[i].in)
		}(i)
	}
	wg.Wait()
	for i := range jobs {
		emit(em, jobs[i].id, results[i])
	}
	em.Close("non-trivial = the maintainer submitted at least one non-empty list of headers during the run", nil)
}
