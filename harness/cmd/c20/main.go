// Driver for C20: runs the real connection handshake (pkg/net/security/handshake) the way
// pkg/net/libp2p/authenticated_connection.go drives it — InitiateHandshake, Message().Marshal(),
// Unmarshal at the receiver, AnswerHandshake, InitiatorAct2.Next, FinalizeHandshake — with a
// party in the middle that alters the marshalled acts field by field, replays acts of another
// (real) session, or delivers undecodable bytes.  Prints the cases for the Coq model
// (Model/C20.v).
//
// Both nonces are injected through crypto/rand.Reader (the handshake draws them with
// crypto/rand.Read), so every case is deterministic and replayable.  Fields of the messages
// are read and altered through their wire form (pkg/net/gen/pb), no hook in /repo is needed.
// Challenges are rendered as [CH a b] when the 32 bytes equal sha256(le64(a)||le64(b)||0^16)
// computed HERE with crypto/sha256 for nonces a, b of the case, [COther k] otherwise.
package main

import (
	crand "crypto/rand"
	"crypto/sha256"
	"encoding/binary"
	"encoding/hex"
	"fmt"
	"io"
	"os"
	"strings"

	"google.golang.org/protobuf/proto"

	"github.com/keep-network/keep-core/pkg/net/gen/pb"
	"github.com/keep-network/keep-core/pkg/net/security/handshake"

	"verifharness/lib"
)

// ------------------------------------------------------------------ inputs

type chalSpec struct {
	Kind string `json:"kind"` // "hash" (of A,B) | "flip" (bit Bit of the sent challenge) | "raw" (Hex)
	A    uint64 `json:"a,omitempty"`
	B    uint64 `json:"b,omitempty"`
	Bit  int    `json:"bit,omitempty"`
	Hex  string `json:"hex,omitempty"`
}

// what the party in the middle does to one act
type tamper struct {
	Nonce     *uint64   `json:"nonce,omitempty"`
	Proto     *string   `json:"proto,omitempty"`
	Chal      *chalSpec `json:"chal,omitempty"`
	Replay    bool      `json:"replay,omitempty"`    // deliver the same act of session B instead
	Extra     bool      `json:"extra,omitempty"`     // append an unknown protobuf field (no field changes)
	Malformed string    `json:"malformed,omitempty"` // nonce7|nonce9|nonce0|chal31|chal33|chal0|garbage|empty
}

func (t tamper) none() bool {
	return t.Nonce == nil && t.Proto == nil && t.Chal == nil && !t.Replay && !t.Extra && t.Malformed == ""
}

type sessionIn struct {
	P1 string `json:"p1"`
	P2 string `json:"p2"`
	N1 uint64 `json:"n1"`
	N2 uint64 `json:"n2"`
}

type input struct {
	Family string     `json:"family"`
	S      sessionIn  `json:"s"`
	T      [3]tamper  `json:"t"`
	B      *sessionIn `json:"b,omitempty"` // the other session whose acts are replayed
}

// ------------------------------------------------------------------ nonce injection

type nonceReader struct{ queue []uint64 }

func (r *nonceReader) Read(p []byte) (int, error) {
	if len(r.queue) == 0 || len(p) != 8 {
		return 0, io.ErrUnexpectedEOF
	}
	binary.LittleEndian.PutUint64(p, r.queue[0])
	r.queue = r.queue[1:]
	return 8, nil
}

func withNonces(ns []uint64, f func()) {
	old := crand.Reader
	crand.Reader = &nonceReader{queue: ns}
	defer func() { crand.Reader = old }()
	f()
}

// ------------------------------------------------------------------ running one session

type outcome struct {
	Stop int    // 0 = completed, else the act at which it failed
	Err  string // ErrProtocol | ErrChallenge | ErrDecode | ""
	Text string
}

type wire struct{ b1, b2, b3 []byte } // what each side SENT (nil = never sent)

func classify(err error) string {
	s := err.Error()
	switch {
	case strings.Contains(s, "unsupported protocol"):
		return "ErrProtocol"
	case strings.Contains(s, "challenge") && strings.Contains(s, "unexpected"):
		return "ErrChallenge"
	}
	return "ErrOther"
}

// runSession drives the acts exactly in the order of runHandshakeAsInitiator /
// runHandshakeAsResponder; deliver(k, bytes) is the network.
func runSession(s sessionIn, deliver func(act int, sent []byte) []byte) (w wire, out outcome) {
	defer func() {
		if r := recover(); r != nil {
			out = outcome{Stop: -1, Err: "Panic", Text: fmt.Sprintf("panic: %v", r)}
		}
	}()
	withNonces([]uint64{s.N1, s.N2}, func() {
		// initiator, act 1
		ia1, err := handshake.InitiateHandshake(s.P1)
		if err != nil {
			out = outcome{1, "ErrOther", err.Error()}
			return
		}
		b1, err := ia1.Message().Marshal()
		if err != nil {
			out = outcome{1, "ErrOther", err.Error()}
			return
		}
		w.b1 = b1
		ia2 := ia1.Next()
		// responder, act 1 -> act 2
		m1 := &handshake.Act1Message{}
		if err := m1.Unmarshal(deliver(1, b1)); err != nil {
			out = outcome{1, "ErrDecode", err.Error()}
			return
		}
		ra2, err := handshake.AnswerHandshake(m1, s.P2)
		if err != nil {
			out = outcome{1, classify(err), err.Error()}
			return
		}
		b2, err := ra2.Message().Marshal()
		if err != nil {
			out = outcome{2, "ErrOther", err.Error()}
			return
		}
		w.b2 = b2
		ra3 := ra2.Next()
		// initiator, act 2 -> act 3
		m2 := &handshake.Act2Message{}
		if err := m2.Unmarshal(deliver(2, b2)); err != nil {
			out = outcome{2, "ErrDecode", err.Error()}
			return
		}
		ia3, err := ia2.Next(m2)
		if err != nil {
			out = outcome{2, classify(err), err.Error()}
			return
		}
		b3, err := ia3.Message().Marshal()
		if err != nil {
			out = outcome{3, "ErrOther", err.Error()}
			return
		}
		w.b3 = b3
		// responder, act 3
		m3 := &handshake.Act3Message{}
		if err := m3.Unmarshal(deliver(3, b3)); err != nil {
			out = outcome{3, "ErrDecode", err.Error()}
			return
		}
		if err := ra3.FinalizeHandshake(m3); err != nil {
			out = outcome{3, classify(err), err.Error()}
			return
		}
		out = outcome{0, "", ""}
	})
	return
}

// ------------------------------------------------------------------ the wire

func le64(v uint64) []byte {
	b := make([]byte, 8)
	binary.LittleEndian.PutUint64(b, v)
	return b
}

// the driver's own hash of two nonces (independent of the code under test)
func refChallenge(a, b uint64) [32]byte {
	var in [32]byte
	copy(in[0:], le64(a))
	copy(in[8:], le64(b))
	return sha256.Sum256(in[:])
}

func malformedField(kind string, nonce, chal []byte) ([]byte, []byte, bool) {
	pad := func(b []byte, n int) []byte {
		o := make([]byte, n)
		copy(o, b)
		return o
	}
	switch kind {
	case "nonce7":
		return pad(nonce, 7), chal, true
	case "nonce9":
		return pad(nonce, 9), chal, true
	case "nonce0":
		return nil, chal, true
	case "chal31":
		return nonce, pad(chal, 31), true
	case "chal33":
		return nonce, pad(chal, 33), true
	case "chal0":
		return nonce, nil, true
	}
	return nonce, chal, false
}

func applyChal(c *chalSpec, sent []byte) []byte {
	switch c.Kind {
	case "hash":
		h := refChallenge(c.A, c.B)
		return h[:]
	case "flip":
		o := append([]byte{}, sent...)
		if len(o) > 0 {
			o[(c.Bit/8)%len(o)] ^= 1 << (uint(c.Bit) % 8)
		}
		return o
	default:
		b, _ := hex.DecodeString(c.Hex)
		o := make([]byte, 32)
		copy(o, b)
		return o
	}
}

// an unknown field (number 15, varint 1): valid protobuf that proto.Unmarshal keeps aside
var extraField = []byte{0x78, 0x01}

func tamperBytes(act int, t tamper, sent []byte, other []byte) []byte {
	if t.none() {
		return sent
	}
	if t.Malformed == "garbage" {
		return []byte{0xff, 0xff, 0xff, 0x07}
	}
	if t.Malformed == "empty" {
		return []byte{}
	}
	base := sent
	if t.Replay && other != nil {
		base = other
	}
	var out []byte
	switch act {
	case 1:
		var m pb.Act1Message
		_ = proto.Unmarshal(base, &m)
		if t.Nonce != nil {
			m.Nonce = le64(*t.Nonce)
		}
		if t.Proto != nil {
			m.Protocol = *t.Proto
		}
		m.Nonce, _, _ = malformedField(t.Malformed, m.Nonce, nil)
		out, _ = proto.Marshal(&m)
	case 2:
		var m pb.Act2Message
		_ = proto.Unmarshal(base, &m)
		if t.Chal != nil {
			m.Challenge = applyChal(t.Chal, m.Challenge)
		}
		if t.Nonce != nil {
			m.Nonce = le64(*t.Nonce)
		}
		if t.Proto != nil {
			m.Protocol = *t.Proto
		}
		m.Nonce, m.Challenge, _ = malformedField(t.Malformed, m.Nonce, m.Challenge)
		out, _ = proto.Marshal(&m)
	default:
		var m pb.Act3Message
		_ = proto.Unmarshal(base, &m)
		if t.Chal != nil {
			m.Challenge = applyChal(t.Chal, m.Challenge)
		}
		_, m.Challenge, _ = malformedField(t.Malformed, nil, m.Challenge)
		out, _ = proto.Marshal(&m)
	}
	if t.Extra {
		out = append(out, extraField...)
	}
	return out
}

// ------------------------------------------------------------------ rendering

type canon struct {
	protos map[string]uint64
	table  map[[32]byte][2]uint64
	others map[string]uint64
}

func newCanon(nonces []uint64) *canon {
	c := &canon{protos: map[string]uint64{}, table: map[[32]byte][2]uint64{}, others: map[string]uint64{}}
	for _, a := range nonces {
		for _, b := range nonces {
			h := refChallenge(a, b)
			if _, ok := c.table[h]; !ok {
				c.table[h] = [2]uint64{a, b}
			}
		}
	}
	return c
}
func (c *canon) proto(s string) string {
	if _, ok := c.protos[s]; !ok {
		c.protos[s] = uint64(len(c.protos) + 1)
	}
	return lib.N(c.protos[s])
}
func (c *canon) chal(b []byte) string {
	if len(b) == 32 {
		var k [32]byte
		copy(k[:], b)
		if ab, ok := c.table[k]; ok {
			return fmt.Sprintf("(CH %s %s)", lib.N(ab[0]), lib.N(ab[1]))
		}
	}
	s := string(b)
	if _, ok := c.others[s]; !ok {
		c.others[s] = uint64(len(c.others) + 1)
	}
	return fmt.Sprintf("(COther %s)", lib.N(c.others[s]))
}
func nonceN(b []byte) string {
	if len(b) != 8 {
		return "18446744073709551616%N" // not a uint64: cannot agree with any model nonce
	}
	return lib.N(binary.LittleEndian.Uint64(b))
}

func run(in input, em *lib.Emitter, id string) {
	// session B (honest, own nonces) supplies the acts to replay
	var wb wire
	if in.B != nil {
		wb, _ = runSession(*in.B, func(_ int, b []byte) []byte { return b })
	}
	otherOf := func(act int) []byte {
		switch act {
		case 1:
			return wb.b1
		case 2:
			return wb.b2
		}
		return wb.b3
	}
	delivered := map[int][]byte{}
	w, out := runSession(in.S, func(act int, sent []byte) []byte {
		d := tamperBytes(act, in.T[act-1], sent, otherOf(act))
		delivered[act] = d
		return d
	})

	// the nonce universe of the case
	nonces := []uint64{in.S.N1, in.S.N2, 0, ^uint64(0)}
	if in.B != nil {
		nonces = append(nonces, in.B.N1, in.B.N2)
	}
	for _, t := range in.T {
		if t.Nonce != nil {
			nonces = append(nonces, *t.Nonce)
		}
		if t.Chal != nil && t.Chal.Kind == "hash" {
			nonces = append(nonces, t.Chal.A, t.Chal.B)
		}
	}
	cn := newCanon(nonces)
	p1, p2 := cn.proto(in.S.P1), cn.proto(in.S.P2)

	// messages sent
	var s1 pb.Act1Message
	_ = proto.Unmarshal(w.b1, &s1)
	coqS1 := fmt.Sprintf("{| a1_nonce := %s; a1_proto := %s |}", nonceN(s1.Nonce), cn.proto(s1.Protocol))
	if w.b1 == nil {
		coqS1 = "{| a1_nonce := 18446744073709551616%N; a1_proto := 0%N |}"
	}
	coqS2, coqS3 := "None", "None"
	if w.b2 != nil {
		var m pb.Act2Message
		_ = proto.Unmarshal(w.b2, &m)
		coqS2 = fmt.Sprintf("(Some {| a2_nonce := %s; a2_chal := %s; a2_proto := %s |})", nonceN(m.Nonce), cn.chal(m.Challenge), cn.proto(m.Protocol))
	}
	if w.b3 != nil {
		var m pb.Act3Message
		_ = proto.Unmarshal(w.b3, &m)
		coqS3 = fmt.Sprintf("(Some {| a3_chal := %s |})", cn.chal(m.Challenge))
	}

	// tamperings, rendered from the bytes actually delivered: every field overridden with
	// the delivered value, or dropped when the delivered bytes are not a well-formed act
	some := func(s string) string { return "(Some " + s + ")" }
	t1 := "{| t1_drop := false; t1_nonce := None; t1_proto := None |}"
	t2 := "{| t2_drop := false; t2_nonce := None; t2_chal := None; t2_proto := None |}"
	t3 := "{| t3_drop := false; t3_chal := None |}"
	altered := []int{}
	if d, ok := delivered[1]; ok && !in.T[0].none() {
		altered = append(altered, 1)
		var m pb.Act1Message
		if proto.Unmarshal(d, &m) != nil || len(m.Nonce) != 8 {
			t1 = "{| t1_drop := true; t1_nonce := None; t1_proto := None |}"
		} else {
			t1 = fmt.Sprintf("{| t1_drop := false; t1_nonce := %s; t1_proto := %s |}", some(nonceN(m.Nonce)), some(cn.proto(m.Protocol)))
		}
	}
	if d, ok := delivered[2]; ok && !in.T[1].none() {
		altered = append(altered, 2)
		var m pb.Act2Message
		if proto.Unmarshal(d, &m) != nil || len(m.Nonce) != 8 || len(m.Challenge) != 32 {
			t2 = "{| t2_drop := true; t2_nonce := None; t2_chal := None; t2_proto := None |}"
		} else {
			t2 = fmt.Sprintf("{| t2_drop := false; t2_nonce := %s; t2_chal := %s; t2_proto := %s |}",
				some(nonceN(m.Nonce)), some(cn.chal(m.Challenge)), some(cn.proto(m.Protocol)))
		}
	}
	if d, ok := delivered[3]; ok && !in.T[2].none() {
		altered = append(altered, 3)
		var m pb.Act3Message
		if proto.Unmarshal(d, &m) != nil || len(m.Challenge) != 32 {
			t3 = "{| t3_drop := true; t3_chal := None |}"
		} else {
			t3 = fmt.Sprintf("{| t3_drop := false; t3_chal := %s |}", some(cn.chal(m.Challenge)))
		}
	}
	coqOut := "Completed"
	switch {
	case out.Stop == 0:
	case out.Stop < 0 || out.Err == "ErrOther":
		// a panic or an error the model does not know: act 9 never matches the model
		coqOut = "(FailedAt 9%N ErrDecode)"
	default:
		coqOut = fmt.Sprintf("(FailedAt %s %s)", lib.N(uint64(out.Stop)), out.Err)
	}
	coq := fmt.Sprintf("{| c_p1 := %s; c_p2 := %s; c_n1 := %s; c_n2 := %s; c_t1 := %s; c_t2 := %s; c_t3 := %s; c_s1 := %s; c_s2 := %s; c_s3 := %s; c_out := %s |}",
		p1, p2, lib.N(in.S.N1), lib.N(in.S.N2), t1, t2, t3, coqS1, coqS2, coqS3, coqOut)

	em.Tally("family-" + in.Family)
	em.Tally(fmt.Sprintf("stop-%d", out.Stop))
	if in.S.P1 == in.S.P2 {
		em.Tally("protocols-equal")
	} else {
		em.Tally("protocols-differ")
	}
	if in.S.N1 == in.S.N2 {
		em.Tally("nonces-equal")
	}
	em.Case(lib.Case{
		ID:         id,
		Coq:        coq,
		Key:        fmt.Sprintf("%x", sha256.Sum256([]byte(coq)))[:24],
		Nontrivial: len(altered) > 0 || in.S.P1 != in.S.P2,
		Sig:        map[string]interface{}{"family": in.Family, "altered": fmt.Sprint(altered), "stop": out.Stop},
		In:         in,
		Out: map[string]interface{}{"stop": out.Stop, "err": out.Err, "text": out.Text,
			"sent": []string{hex.EncodeToString(w.b1), hex.EncodeToString(w.b2), hex.EncodeToString(w.b3)},
			"delivered": []string{hex.EncodeToString(delivered[1]), hex.EncodeToString(delivered[2]), hex.EncodeToString(delivered[3])}},
	})
}

// ------------------------------------------------------------------ generators

var protoPool = []string{"keep-mainnet", "keep-mainnet ", "Keep-mainnet", "keep-mainnet-5", "keep-mainnet-50",
	"", "a", "keep/1.0.0", "keep/1.0.1", "клиент", "keep\x00mainnet"}

var noncePool = []uint64{0, 1, 2, ^uint64(0), ^uint64(0) - 1, 1 << 63, 1<<63 - 1, 1 << 32, 255, 256, 0x0102030405060708, 0x0807060504030201}

func u(v uint64) *uint64 { return &v }
func sp(v string) *string { return &v }

func pickNonce(r *lib.Rng) uint64 {
	if r.Chance(1, 3) {
		return noncePool[r.Intn(len(noncePool))]
	}
	return r.U64()
}

func pickSession(r *lib.Rng) sessionIn {
	s := sessionIn{N1: pickNonce(r), N2: pickNonce(r)}
	s.P1 = protoPool[r.Intn(len(protoPool))]
	s.P2 = s.P1
	if r.Chance(1, 4) {
		s.P2 = protoPool[r.Intn(len(protoPool))]
	}
	if r.Chance(1, 8) {
		s.N2 = s.N1
	}
	return s
}

// a different value "near" v
func otherNonce(r *lib.Rng, v uint64, s sessionIn) uint64 {
	for {
		var c uint64
		switch r.Intn(7) {
		case 0:
			c = v + 1
		case 1:
			c = v - 1
		case 2:
			c = v ^ (1 << uint(r.Intn(64)))
		case 3:
			c = s.N1
		case 4:
			c = s.N2
		case 5:
			c = noncePool[r.Intn(len(noncePool))]
		default:
			c = r.U64()
		}
		if c != v {
			return c
		}
	}
}

func randChal(r *lib.Rng, s sessionIn) *chalSpec {
	switch r.Intn(6) {
	case 0:
		return &chalSpec{Kind: "flip", Bit: r.Intn(256)}
	case 1:
		return &chalSpec{Kind: "hash", A: s.N2, B: s.N1} // the nonces swapped
	case 2:
		return &chalSpec{Kind: "hash", A: otherNonce(r, s.N1, s), B: s.N2}
	case 3:
		return &chalSpec{Kind: "hash", A: s.N1, B: otherNonce(r, s.N2, s)}
	case 4:
		return &chalSpec{Kind: "raw", Hex: hex.EncodeToString(r.Bytes(32))}
	default:
		return &chalSpec{Kind: "raw", Hex: ""} // 32 zero bytes
	}
}

func main() {
	o := lib.ParseOpts()
	em := lib.NewEmitter()
	if o.Replay != "" {
		var in input
		if err := lib.LoadReplay(o.Replay, &in); err != nil {
			fmt.Fprintln(os.Stderr, err)
			os.Exit(2)
		}
		run(in, em, "replay")
		em.Close("replay", nil)
		return
	}
	rng := lib.NewRng(o.Seed)
	max := ^uint64(0)
	km := "keep-mainnet"

	// --- corpus (run first)
	run(input{Family: "honest", S: sessionIn{km, km, 7, 9}}, em, "corpus-honest")
	run(input{Family: "honest", S: sessionIn{km, "keep-testnet", 7, 9}}, em, "corpus-protocol-mismatch")
	run(input{Family: "honest", S: sessionIn{km, km, 0, 0}}, em, "corpus-zero-nonces")
	run(input{Family: "honest", S: sessionIn{km, km, max, max}}, em, "corpus-max-nonces")
	run(input{Family: "honest", S: sessionIn{"", "", 0, max}}, em, "corpus-empty-protocol")
	run(input{Family: "field", S: sessionIn{km, km, 7, 9}, T: [3]tamper{{}, {Nonce: u(10)}, {}}}, em, "corpus-act2-nonce-altered")
	run(input{Family: "field", S: sessionIn{km, km, 7, 9}, T: [3]tamper{{}, {Chal: &chalSpec{Kind: "flip", Bit: 255}}, {}}}, em, "corpus-act2-challenge-bit")
	run(input{Family: "field", S: sessionIn{km, km, 7, 9}, T: [3]tamper{{}, {}, {Chal: &chalSpec{Kind: "flip", Bit: 0}}}}, em, "corpus-act3-challenge-bit")
	run(input{Family: "field", S: sessionIn{km, km, 7, 9}, T: [3]tamper{{}, {Chal: &chalSpec{Kind: "hash", A: 9, B: 7}}, {}}}, em, "corpus-act2-challenge-swapped-nonces")
	run(input{Family: "field", S: sessionIn{km, km, 7, 9}, T: [3]tamper{{Nonce: u(8)}, {}, {}}}, em, "corpus-act1-nonce-altered")
	run(input{Family: "field", S: sessionIn{km, km, 7, 9}, T: [3]tamper{{}, {Proto: sp("keep-testnet")}, {}}}, em, "corpus-act2-protocol-altered")
	run(input{Family: "forge", S: sessionIn{km, km, 7, 9}, T: [3]tamper{{}, {Nonce: u(10), Chal: &chalSpec{Kind: "hash", A: 7, B: 10}}, {}}}, em, "corpus-act2-consistent-forgery-fails-at-act3")
	run(input{Family: "forge", S: sessionIn{km, "keep-testnet", 7, 9}, T: [3]tamper{{Proto: sp("keep-testnet")}, {}, {}}}, em, "corpus-act1-protocol-rewritten-fails-at-act2")
	run(input{Family: "replay", S: sessionIn{km, km, 7, 9}, B: &sessionIn{km, km, 8, 9}, T: [3]tamper{{}, {Replay: true}, {}}}, em, "corpus-replay-act2-other-nonce1")
	run(input{Family: "replay", S: sessionIn{km, km, 7, 9}, B: &sessionIn{km, km, 8, 9}, T: [3]tamper{{}, {}, {Replay: true}}}, em, "corpus-replay-act3-other-nonce1")
	run(input{Family: "replay", S: sessionIn{km, km, 7, 9}, B: &sessionIn{km, km, 7, 10}, T: [3]tamper{{}, {}, {Replay: true}}}, em, "corpus-replay-act3-other-nonce2")
	run(input{Family: "malformed", S: sessionIn{km, km, 7, 9}, T: [3]tamper{{}, {Malformed: "chal31"}, {}}}, em, "corpus-act2-short-challenge")
	run(input{Family: "malformed", S: sessionIn{km, km, 7, 9}, T: [3]tamper{{Malformed: "nonce9"}, {}, {}}}, em, "corpus-act1-long-nonce")
	run(input{Family: "extra", S: sessionIn{km, km, 7, 9}, T: [3]tamper{{Extra: true}, {Extra: true}, {Extra: true}}}, em, "corpus-unknown-fields-only")

	// --- exhaustive small scope: honest network, every pair of pool protocols (first 6) and
	// every pair of pool nonces (first 6)
	{
		k := 0
		for i := 0; i < 6; i++ {
			for j := 0; j < 6; j++ {
				for a := 0; a < 6; a++ {
					for b := 0; b < 6; b++ {
						k++
						if o.Tier == "quick" && (k*2654435761)%7 != 0 && !(i == j && a == b) {
							continue
						}
						run(input{Family: "honest", S: sessionIn{protoPool[i], protoPool[j], noncePool[a], noncePool[b]}}, em, fmt.Sprintf("small-%d-%d-%d-%d", i, j, a, b))
					}
				}
			}
		}
	}

	// --- every single-field alteration of every act, on sessions with equal protocols
	nField := o.Count(60, 600)
	for i := 0; i < nField; i++ {
		r := rng.Fork(fmt.Sprintf("field%d", i))
		s := pickSession(r)
		if !r.Chance(1, 6) {
			s.P2 = s.P1
		}
		otherP := protoPool[r.Intn(len(protoPool))]
		alts := []struct {
			name string
			t    [3]tamper
		}{
			{"a1-nonce", [3]tamper{{Nonce: u(otherNonce(r, s.N1, s))}, {}, {}}},
			{"a1-proto", [3]tamper{{Proto: sp(otherP)}, {}, {}}},
			{"a2-nonce", [3]tamper{{}, {Nonce: u(otherNonce(r, s.N2, s))}, {}}},
			{"a2-chal", [3]tamper{{}, {Chal: randChal(r, s)}, {}}},
			{"a2-proto", [3]tamper{{}, {Proto: sp(otherP)}, {}}},
			{"a3-chal", [3]tamper{{}, {}, {Chal: randChal(r, s)}}},
		}
		for _, a := range alts {
			run(input{Family: "field", S: s, T: a.t}, em, fmt.Sprintf("field-%d-%s", i, a.name))
		}
	}

	// --- forgeries that are consistent for one receiver (several fields / several acts)
	nForge := o.Count(60, 600)
	for i := 0; i < nForge; i++ {
		r := rng.Fork(fmt.Sprintf("forge%d", i))
		s := pickSession(r)
		x := otherNonce(r, s.N1, s)
		y := otherNonce(r, s.N2, s)
		var t [3]tamper
		switch r.Intn(6) {
		case 0: // act 2 consistent for the initiator: passes act 2, fails act 3
			t[1] = tamper{Nonce: u(y), Chal: &chalSpec{Kind: "hash", A: s.N1, B: y}}
		case 1: // nonce1 rewritten and both challenges fixed up: completes
			t[0] = tamper{Nonce: u(x)}
			t[1] = tamper{Chal: &chalSpec{Kind: "hash", A: s.N1, B: s.N2}}
			t[2] = tamper{Chal: &chalSpec{Kind: "hash", A: x, B: s.N2}}
		case 2: // nonce2 rewritten and both challenges fixed up: completes
			t[1] = tamper{Nonce: u(y), Chal: &chalSpec{Kind: "hash", A: s.N1, B: y}}
			t[2] = tamper{Chal: &chalSpec{Kind: "hash", A: s.N1, B: s.N2}}
		case 3: // protocol identifiers rewritten in both directions
			t[0] = tamper{Proto: sp(s.P2)}
			t[1] = tamper{Proto: sp(s.P1)}
		case 4: // nonce1 rewritten, act 2 fixed up, act 3 left alone: fails at act 3
			t[0] = tamper{Nonce: u(x)}
			t[1] = tamper{Chal: &chalSpec{Kind: "hash", A: s.N1, B: s.N2}}
		default: // protocol rewritten towards the responder only
			t[0] = tamper{Proto: sp(s.P2)}
		}
		run(input{Family: "forge", S: s, T: t}, em, fmt.Sprintf("forge-%d", i))
	}

	// --- replays of acts of another real session
	nReplay := o.Count(80, 800)
	for i := 0; i < nReplay; i++ {
		r := rng.Fork(fmt.Sprintf("replay%d", i))
		s := pickSession(r)
		if !r.Chance(1, 8) {
			s.P2 = s.P1
		}
		b := sessionIn{P1: s.P1, P2: s.P1, N1: s.N1, N2: s.N2}
		switch r.Intn(5) {
		case 0:
			b.N1 = otherNonce(r, s.N1, s)
		case 1:
			b.N2 = otherNonce(r, s.N2, s)
		case 2:
			b.N1, b.N2 = otherNonce(r, s.N1, s), otherNonce(r, s.N2, s)
		case 3:
			b.N1, b.N2 = s.N2, s.N1
		default: // the very same nonces drawn again: the replay is indistinguishable
		}
		if r.Chance(1, 10) {
			b.P1 = protoPool[r.Intn(len(protoPool))]
			b.P2 = b.P1
		}
		var t [3]tamper
		for k := 0; k < 3; k++ {
			if r.Chance(1, 2) {
				t[k] = tamper{Replay: true}
			}
		}
		if t[0].none() && t[1].none() && t[2].none() {
			t[1+r.Intn(2)] = tamper{Replay: true}
		}
		run(input{Family: "replay", S: s, T: t, B: &b}, em, fmt.Sprintf("replay-%d", i))
	}

	// --- undecodable acts and unknown fields
	mal := [][]string{{"nonce7", "nonce9", "nonce0", "garbage", "empty"},
		{"nonce7", "nonce9", "nonce0", "chal31", "chal33", "chal0", "garbage", "empty"},
		{"chal31", "chal33", "chal0", "garbage", "empty"}}
	nMal := o.Count(40, 300)
	for i := 0; i < nMal; i++ {
		r := rng.Fork(fmt.Sprintf("mal%d", i))
		s := pickSession(r)
		var t [3]tamper
		k := r.Intn(3)
		if r.Chance(1, 5) {
			t[k] = tamper{Extra: true}
			run(input{Family: "extra", S: s, T: t}, em, fmt.Sprintf("extra-%d", i))
			continue
		}
		t[k] = tamper{Malformed: mal[k][r.Intn(len(mal[k]))]}
		run(input{Family: "malformed", S: s, T: t}, em, fmt.Sprintf("mal-%d", i))
	}

	// --- random mixes
	nMix := o.Count(150, 2500)
	for i := 0; i < nMix; i++ {
		r := rng.Fork(fmt.Sprintf("mix%d", i))
		s := pickSession(r)
		var t [3]tamper
		for k := 0; k < 3; k++ {
			if !r.Chance(2, 5) {
				continue
			}
			if k < 2 && r.Chance(1, 2) {
				base := s.N1
				if k == 1 {
					base = s.N2
				}
				t[k].Nonce = u(otherNonce(r, base, s))
			}
			if k < 2 && r.Chance(1, 3) {
				t[k].Proto = sp(protoPool[r.Intn(len(protoPool))])
			}
			if k >= 1 && r.Chance(1, 2) {
				t[k].Chal = randChal(r, s)
			}
			if r.Chance(1, 12) {
				t[k].Malformed = mal[k][r.Intn(len(mal[k]))]
			}
			if r.Chance(1, 10) {
				t[k].Extra = true
			}
		}
		run(input{Family: "mix", S: s, T: t}, em, fmt.Sprintf("mix-%d", i))
	}

	em.Close("a case is one handshake session (initiator and responder of the real package, nonces injected, "+
		"acts carried as marshalled bytes through a tampering network); distinct by the rendered case term; "+
		"non-trivial when at least one act is delivered altered / replayed / undecodable or the two protocol "+
		"identifiers differ", nil)
}
