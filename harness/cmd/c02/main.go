// Driver for C02 (beacon DKG: honest key shares are consistent with the group public key).
//
// The runs are complete 12-phase executions of REAL pkg/beacon/gjkr members under a scripted
// adversary, performed by the engine shared with C01 (verifharness/cmd/c01/gjkrdrv.Execute): it
// returns the run as a Coq term of Model/C01's [case] type whose observable part carries, for every
// honest member that finished, Result.GroupPrivateKeyShare, the group public key and
// Result.GroupPublicKeyShares() — each G2 point replaced by a discrete logarithm d that the engine
// certified with the bn256 library itself (d*G2 == point), or None when no candidate matched.
// Model/C02's judge evaluates the property on these observables (share_i = certified logarithm of
// the public key share every other honest member holds for i; every (t+1)-subset of the honest
// shares interpolates at 0 to the certified logarithm of the group key) and compares them with the
// model's own run.
//
// This file owns the C02 corpus and generator: runs are weighted towards QUAL != everyone
// (members inactive or disqualified before phase 6) and towards reconstruction of a qualified
// member's key in phases 10-12 (silent or disqualified from phase 7 on), composed with faulty
// reveal messages, duplicates and arrival-order shuffles, and towards reconstruction with CORRUPT
// revealers (gjkrdrv.Collusion: a corrupt dealer sends a corrupt accomplice a share no honest member
// can check, the accomplice keeps quiet in phase 4, the dealer leaves, the accomplice reveals in
// phase 10), the only runs that reach the share-judging branches of recoverMisbehavedShares.
package main

import (
	"encoding/json"
	"flag"
	"fmt"
	"os"
	"runtime"
	"sort"
	"strings"
	"sync"

	"verifharness/cmd/c01/gjkrdrv"
	"verifharness/lib"
)

type (
	RunDesc    = gjkrdrv.RunDesc
	Attack     = gjkrdrv.Attack
	Accomplice = gjkrdrv.Accomplice
)

func ops(n int) []uint64 {
	o := make([]uint64, n)
	for i := range o {
		o[i] = uint64(i + 1)
	}
	return o
}

// corpus: minimised regression runs for the mechanisms the property is anchored in.
func corpus() []RunDesc {
	a := func(name string, phase, by, target, k int) Attack {
		return Attack{Name: name, Phase: phase, By: by, Target: target, K: k}
	}
	return []RunDesc{
		// everyone honest: QUAL = everyone, no reconstruction
		{ID: "c02-honest-3-1", N: 3, T: 1, Ops: ops(3), OrderSeed: 21, Shuffle: true},
		{ID: "c02-honest-5-2", N: 5, T: 2, Ops: ops(5), OrderSeed: 22, Shuffle: true},
		{ID: "c02-honest-6-2", N: 6, T: 2, Ops: ops(6), OrderSeed: 23, Shuffle: true},
		// QUAL != everyone: inactive from the start / from phase 3; disqualified in phase 4/5
		{ID: "c02-inactive-phase1", N: 5, T: 2, Corrupt: []int{2}, Ops: ops(5), OrderSeed: 24, Shuffle: true,
			Attacks: []Attack{a("silent-from", 1, 2, 0, 0)}},
		{ID: "c02-inactive-phase3", N: 5, T: 2, Corrupt: []int{4}, Ops: ops(5), OrderSeed: 25, Shuffle: true,
			Attacks: []Attack{a("silent-from", 3, 4, 0, 0)}},
		{ID: "c02-bad-share-disqualified", N: 5, T: 2, Corrupt: []int{3}, Ops: ops(5), OrderSeed: 26, Shuffle: true,
			Attacks: []Attack{a("sh-wrong-value", 3, 3, 1, 0)}},
		{ID: "c02-short-commitments", N: 4, T: 1, Corrupt: []int{1}, Ops: ops(4), OrderSeed: 27, Shuffle: true,
			Attacks: []Attack{a("cm-short", 3, 1, 0, 0)}},
		{ID: "c02-false-accuser-disqualified", N: 5, T: 2, Corrupt: []int{5}, Ops: ops(5), OrderSeed: 28, Shuffle: true,
			Attacks: []Attack{a("acc-false", 4, 5, 2, 0)}},
		// reconstruction (phases 10-12): a qualified member is silent from phase 7 / publishes bad points
		{ID: "c02-reconstruct-silent7", N: 5, T: 2, Corrupt: []int{4}, Ops: ops(5), OrderSeed: 29, Shuffle: true,
			Attacks: []Attack{a("silent-from", 7, 4, 0, 0)}},
		{ID: "c02-reconstruct-silent7-n3", N: 3, T: 1, Corrupt: []int{1}, Ops: ops(3), OrderSeed: 30, Shuffle: true,
			Attacks: []Attack{a("silent-from", 7, 1, 0, 0)}},
		{ID: "c02-reconstruct-bad-points", N: 5, T: 2, Corrupt: []int{2}, Ops: ops(5), OrderSeed: 31, Shuffle: true,
			Attacks: []Attack{a("pts-mutate", 7, 2, 0, 1)}},
		{ID: "c02-reconstruct-short-points", N: 6, T: 2, Corrupt: []int{6}, Ops: ops(6), OrderSeed: 32, Shuffle: true,
			Attacks: []Attack{a("pts-short", 7, 6, 0, 0)}},
		// two reconstructed members
		{ID: "c02-reconstruct-two", N: 5, T: 2, Corrupt: []int{1, 5}, Ops: ops(5), OrderSeed: 33, Shuffle: true,
			Attacks: []Attack{a("silent-from", 7, 1, 0, 0), a("pts-mutate", 7, 5, 0, 0)}},
		// reconstruction while another corrupt seat sends a faulty reveal (fewer revealed shares)
		{ID: "c02-reconstruct-reveal-omit", N: 5, T: 2, Corrupt: []int{2, 4}, Ops: ops(5), OrderSeed: 34, Shuffle: true,
			Attacks: []Attack{a("silent-from", 7, 2, 0, 0), a("rev-omit", 10, 4, 0, 0)}},
		{ID: "c02-reconstruct-reveal-bad-key", N: 7, T: 3, Corrupt: []int{3, 6}, Ops: ops(7), OrderSeed: 35, Shuffle: true,
			Attacks: []Attack{a("silent-from", 7, 3, 0, 0), a("rev-bad-key", 10, 6, 0, 0)}},
		{ID: "c02-reconstruct-reveal-silent", N: 5, T: 2, Corrupt: []int{2, 4}, Ops: ops(5), OrderSeed: 36, Shuffle: true,
			Attacks: []Attack{a("silent-from", 7, 2, 0, 0), a("silent-from", 10, 4, 0, 0)}},
		// QUAL != everyone AND reconstruction
		{ID: "c02-inactive1-and-reconstruct", N: 5, T: 2, Corrupt: []int{1, 3}, Ops: ops(5), OrderSeed: 37, Shuffle: true,
			Attacks: []Attack{a("silent-from", 1, 1, 0, 0), a("silent-from", 7, 3, 0, 0)}},
		{ID: "c02-disqualified4-and-reconstruct", N: 7, T: 3, Corrupt: []int{2, 5, 7}, Ops: ops(7), OrderSeed: 38, Shuffle: true,
			Attacks: []Attack{a("sh-garbage", 3, 2, 1, 0), a("pts-long", 7, 5, 0, 0), a("dup", 10, 7, 0, 0)}},
		// a point accuser that is wrong: disqualified in phase 9, its points stay valid (no reconstruction)
		{ID: "c02-false-point-accuser", N: 5, T: 2, Corrupt: []int{3}, Ops: ops(5), OrderSeed: 39, Shuffle: true,
			Attacks: []Attack{a("acc-false", 8, 3, 1, 0)}},
		// late crashes: the member is in QUAL with valid points, only inactive
		{ID: "c02-inactive-phase8", N: 5, T: 2, Corrupt: []int{5}, Ops: ops(5), OrderSeed: 40, Shuffle: true,
			Attacks: []Attack{a("silent-from", 8, 5, 0, 0)}},
		{ID: "c02-inactive-phase10", N: 4, T: 1, Corrupt: []int{3}, Ops: ops(4), OrderSeed: 41, Shuffle: true,
			Attacks: []Attack{a("silent-from", 10, 3, 0, 0)}},
		// reconstruction with a CORRUPT revealer (phase 11, recoverMisbehavedShares). 5 sends its
		// accomplice 4 a share that does not fit 5's commitments, 4 does not accuse, 5 is silent after
		// phase 3, 4 reveals the key it used with 5: the share must be dropped (4 is disqualified) and the
		// key of 5 reconstructed from the three honest shares only
		{ID: "c02-collude-inconsistent-share-revealed", N: 5, T: 2, Corrupt: []int{4, 5}, Ops: ops(5), OrderSeed: 42, Shuffle: true,
			Attacks: gjkrdrv.Collusion(5, Attack{Name: "silent-from", Phase: 4}, Accomplice{K: 4, Share: "sh-wrong-value", Reveal: "rev-extra"})},
		// the accomplice sits between the honest seats, the dealer is disqualified for bad points in phase 8
		{ID: "c02-collude-inconsistent-share-bad-points", N: 5, T: 2, Corrupt: []int{1, 3}, Ops: ops(5), OrderSeed: 43, Shuffle: true,
			Attacks: gjkrdrv.Collusion(1, Attack{Name: "pts-mutate", Phase: 7, K: 1}, Accomplice{K: 3, Share: "sh-wrong-value", Val: 3, Reveal: "rev-extra"})},
		// the accomplice reveals a key that is not the one it published: disqualified, no share
		{ID: "c02-collude-wrong-key-revealed", N: 5, T: 2, Corrupt: []int{2, 5}, Ops: ops(5), OrderSeed: 44, Shuffle: true,
			Attacks: gjkrdrv.Collusion(2, Attack{Name: "silent-from", Phase: 7}, Accomplice{K: 5, Share: "sh-wrong-value", Reveal: "rev-wrong-for"})},
		// the share for the accomplice cannot be decrypted at all
		{ID: "c02-collude-garbage-share-revealed", N: 5, T: 2, Corrupt: []int{3, 4}, Ops: ops(5), OrderSeed: 45, Shuffle: true,
			Attacks: gjkrdrv.Collusion(3, Attack{Name: "silent-from", Phase: 7}, Accomplice{K: 4, Share: "sh-garbage", Reveal: "rev-extra"})},
		// control: the accomplice's share is valid and it reveals correctly: its share IS interpolated
		// (four points for a polynomial of degree two) and nobody is disqualified
		{ID: "c02-collude-control-valid-share", N: 5, T: 2, Corrupt: []int{4, 5}, Ops: ops(5), OrderSeed: 46, Shuffle: true,
			Attacks: gjkrdrv.Collusion(5, Attack{Name: "silent-from", Phase: 4}, Accomplice{K: 4, Reveal: "rev-extra"})},
		// two accomplices, one with an inconsistent share, one with a valid share
		{ID: "c02-collude-two-accomplices", N: 7, T: 3, Corrupt: []int{2, 3, 6}, Ops: ops(7), OrderSeed: 47, Shuffle: true,
			Attacks: gjkrdrv.Collusion(2, Attack{Name: "silent-from", Phase: 7},
				Accomplice{K: 3, Share: "sh-wrong-value", Val: 1, Reveal: "rev-extra"}, Accomplice{K: 6, Share: "sh-wrong-value", Reveal: "rev-extra"})},
		// known defect C01-a (DESIGN section 7): agreement fails, the run is outside C02's premise and
		// must be judged Agree (spec_ok = true by in_scope = false)
		{ID: "c02-out-of-scope-C01a", N: 5, T: 2, Corrupt: []int{1}, Ops: ops(5), OrderSeed: 13,
			Attacks: []Attack{{Name: "points-poly-offset", Phase: 7, By: 1, Val: 7, Set: []int{2, 3}}}},
	}
}

// families that take a qualified member out after phase 6 (its key is reconstructed) ...
var reconstructing = []string{"silent-from", "drop", "pts-short", "pts-long", "pts-mutate", "wrong-session"}

// ... that shrink QUAL (phases 1-5) ...
var shrinking = []struct {
	name  string
	phase int
}{{"silent-from", 1}, {"silent-from", 3}, {"drop", 1}, {"drop", 3}, {"eph-omit", 1}, {"drop-shares", 3},
	{"drop-commits", 3}, {"sh-omit", 3}, {"sh-garbage", 3}, {"sh-wrong-value", 3}, {"sh-wrong-key", 3},
	{"cm-short", 3}, {"cm-long", 3}, {"cm-mutate", 3}, {"acc-false", 4}, {"acc-bad-key", 4}, {"silent-from", 4}}

// ... and that disturb the reveal / reconstruction phases
var revealing = []string{"rev-omit", "rev-extra", "rev-bad-key", "rev-self", "rev-range", "rev-none", "dup",
	"foreign-index", "drop", "silent-from", "wrong-session"}

// ways a qualified dealer leaves so that its individual key has to be reconstructed
var exits = []Attack{{Name: "silent-from", Phase: 4}, {Name: "silent-from", Phase: 7}, {Name: "silent-from", Phase: 7},
	{Name: "drop", Phase: 7}, {Name: "pts-mutate", Phase: 7}, {Name: "pts-short", Phase: 7}, {Name: "wrong-session", Phase: 7}}

// collusionRun draws a reconstruction run with corrupt revealers: a corrupt dealer, one or more
// corrupt accomplices (n >= 5 so that t >= 2), each with its own kind of share and of reveal.
func collusionRun(r *lib.Rng, id string, maxN int) RunDesc {
	n := r.Range(5, maxN)
	t := (n - 1) / 2
	nc := 2
	if t > 2 && r.Chance(1, 2) {
		nc = r.Range(2, t)
	}
	perm := r.Perm(n)
	corrupt := make([]int, nc)
	for i := range corrupt {
		corrupt[i] = perm[i] + 1
	}
	o := ops(n)
	if r.Chance(1, 4) { // one operator holds every corrupt seat
		mn := corrupt[0]
		for _, c := range corrupt {
			if c < mn {
				mn = c
			}
		}
		for _, c := range corrupt {
			o[c-1] = uint64(mn)
		}
	}
	d := RunDesc{ID: id, N: n, T: t, Ops: o, OrderSeed: r.U64() % 1000000, Shuffle: !r.Chance(1, 10)}
	exit := exits[r.Intn(len(exits))]
	exit.K = r.Intn(4)
	var acs []Accomplice
	for _, k := range corrupt[1:] {
		a := Accomplice{K: k, Val: int64(r.Intn(5))}
		switch x := r.Intn(10); {
		case x < 6:
			a.Share = "sh-wrong-value"
		case x < 7:
			a.Share = "sh-garbage"
		case x < 8:
			a.Share = "sh-wrong-key"
		} // else: a valid share (control)
		switch x := r.Intn(10); {
		case x < 7:
			a.Reveal = "rev-extra"
		case x < 8:
			a.Reveal = "rev-wrong-for"
		case x < 9:
			a.Reveal = "rev-none"
		} // else: whatever the accomplice's own object reveals
		acs = append(acs, a)
	}
	d.Attacks = gjkrdrv.Collusion(corrupt[0], exit, acs...)
	sort.Ints(corrupt)
	d.Corrupt = corrupt
	return d
}

// focusedRun draws a run aimed at this property: up to t corrupt seats; the first reconstructs
// (when the plan says so), the others shrink QUAL or disturb the reveal phase.
func focusedRun(r *lib.Rng, id string, maxN int) RunDesc {
	n := r.Range(3, maxN)
	t := (n - 1) / 2
	if t > 1 && r.Chance(1, 5) {
		t = r.Range(1, t)
	}
	nc := r.Range(1, t)
	perm := r.Perm(n)
	var corrupt, honest []int
	for i, p := range perm {
		if i < nc {
			corrupt = append(corrupt, p+1)
		} else {
			honest = append(honest, p+1)
		}
	}
	sort.Ints(honest)
	d := RunDesc{ID: id, N: n, T: t, Ops: ops(n), OrderSeed: r.U64() % 1000000, Shuffle: !r.Chance(1, 10)}
	tgt := func() int { return honest[r.Intn(len(honest))] }
	plan := r.Intn(10) // 0-5 reconstruct, 6-8 shrink only, 9 late crash
	for i, c := range corrupt {
		switch {
		case i == 0 && plan <= 5:
			nm := reconstructing[r.Intn(len(reconstructing))]
			d.Attacks = append(d.Attacks, Attack{Name: nm, Phase: 7, By: c, Target: tgt(), K: r.Intn(4)})
		case i == 0 && plan == 9:
			d.Attacks = append(d.Attacks, Attack{Name: "silent-from", Phase: []int{8, 10}[r.Intn(2)], By: c})
		case i == 0 || r.Chance(1, 2):
			s := shrinking[r.Intn(len(shrinking))]
			d.Attacks = append(d.Attacks, Attack{Name: s.name, Phase: s.phase, By: c, Target: tgt(), K: r.Intn(4), Val: int64(r.Intn(5))})
		default:
			nm := revealing[r.Intn(len(revealing))]
			d.Attacks = append(d.Attacks, Attack{Name: nm, Phase: 10, By: c, Target: tgt(), K: r.Intn(4)})
		}
	}
	sort.Ints(corrupt)
	d.Corrupt = corrupt
	return d
}

// ---------------------------------------------------------------- running

// every run is executed in a child process: ComputeGroupPublicKeyShares works in a goroutine of
// the implementation, a panic there cannot be recovered in-process.
func runAll(self string, descs []RunDesc) []lib.Case {
	out := make([]lib.Case, len(descs))
	jobs := make(chan int)
	var wg sync.WaitGroup
	workers := runtime.NumCPU()
	if workers > 16 {
		workers = 16
	}
	for w := 0; w < workers; w++ {
		wg.Add(1)
		go func() {
			defer wg.Done()
			for i := range jobs {
				// a child that dies inside an Initiate call is re-run with that call skipped (the
				// seat is observed as failed there); see gjkrdrv.RunChild
				c, crashed := gjkrdrv.RunChild(self, descs[i])
				if crashed {
					gjkrdrv.Unattributed.Add(1)
				}
				out[i] = c
			}
		}()
	}
	for i := range descs {
		jobs <- i
	}
	close(jobs)
	wg.Wait()
	return out
}

type memberOut struct {
	ID        int               `json:"id"`
	Finished  bool              `json:"finished"`
	IA        []int             `json:"ia"`
	DQ        []int             `json:"dq"`
	KeyOK     bool              `json:"key_dlog_certified"`
	PubShares map[string]string `json:"pubshares_ok"`
}

func emit(em *lib.Emitter, d RunDesc, c lib.Case) {
	if c.Coq == "DRIVER_ERROR" {
		em.Tally("driver-error")
		fmt.Fprintf(os.Stderr, "driver error in %s: %v\n", d.ID, c.Out)
		return
	}
	// the Out of the shared engine: {"members": [...], "notes": [...]}
	var o struct {
		Members []memberOut `json:"members"`
	}
	b, _ := json.Marshal(c.Out)
	json.Unmarshal(b, &o)
	fin, marked := 0, map[int]bool{}
	for _, m := range o.Members {
		if !m.Finished {
			continue
		}
		fin++
		for _, x := range m.IA {
			marked[x] = true
		}
		for _, x := range m.DQ {
			marked[x] = true
		}
	}
	var names []string
	recon, shrink := false, false
	isCorrupt := map[int]bool{}
	for _, c := range d.Corrupt {
		isCorrupt[c] = true
	}
	// a corrupt seat that reveals for another corrupt seat whose key the honest members reconstruct
	collusion, badShare := false, false
	for _, a := range d.Attacks {
		if a.Phase == 10 && strings.HasPrefix(a.Name, "rev-") && isCorrupt[a.Target] && a.Target != a.By {
			collusion = true
		}
		if a.Phase == 3 && strings.HasPrefix(a.Name, "sh-") && isCorrupt[a.Target] {
			badShare = true
		}
	}
	for _, a := range d.Attacks {
		names = append(names, fmt.Sprintf("%s@%d", a.Name, a.Phase))
		if marked[a.By] {
			// a seat that withholds its phase-4 message is inactive from phase 5 on but its shares
			// were accepted in phase 4: it is in QUAL and its key is reconstructed
			leaves4 := a.Phase == 4 && (a.Name == "silent-from" || a.Name == "drop" || a.Name == "wrong-session")
			if a.Phase == 7 || leaves4 {
				recon = true
			}
			unseen := a.Phase == 3 && strings.HasPrefix(a.Name, "sh-") && isCorrupt[a.Target] // no honest member sees it
			if a.Phase <= 4 && !leaves4 && !unseen && a.Name != "acc-quiet" {
				shrink = true
			}
		}
	}
	em.Tally(fmt.Sprintf("n=%d,t=%d", d.N, d.T))
	em.Tally(fmt.Sprintf("corrupt=%d", len(d.Corrupt)))
	em.Tally(fmt.Sprintf("honest-finished>=t+1:%v", fin >= d.T+1))
	em.Tally(fmt.Sprintf("marked-members=%d", len(marked)))
	for _, a := range d.Attacks {
		em.Tally(fmt.Sprintf("deviation:%s@%d", a.Name, a.Phase))
	}
	if recon {
		em.Tally("class:qualified-member-marked-from-phase-7(reconstruction)")
	}
	if shrink {
		em.Tally("class:member-marked-before-phase-6(QUAL-shrinks)")
	}
	if len(marked) == 0 {
		em.Tally("class:QUAL=everyone")
	}
	if collusion && recon {
		em.Tally("class:reconstruction-with-corrupt-revealer")
		if badShare {
			em.Tally("class:reconstruction-with-corrupt-revealer(unverifiable-share-to-accomplice)")
		}
	}
	c.Nontrivial = fin >= d.T+1 && len(marked) > 0
	c.Sig = map[string]interface{}{"attack": strings.Join(names, "+"), "corrupt": len(d.Corrupt),
		"n": d.N, "t": d.T, "reconstruction": recon, "qual_shrinks": shrink, "corrupt_revealer": collusion}
	em.Case(c)
}

const rule = "a case is one complete 12-phase run of real gjkr members (n, t, corrupt seats, scripted deviations, " +
	"per-member arrival orders); distinct by that tuple; non-trivial when at least t+1 honest members finished " +
	"(so that shares are interpolated) and at least one member was marked inactive or disqualified by them " +
	"(QUAL differs from the whole group and/or a key was reconstructed)"

func main() {
	child := flag.Bool("child", false, "run one description from stdin (internal)")
	o := lib.ParseOpts()
	if *child {
		var d RunDesc
		if err := json.NewDecoder(os.Stdin).Decode(&d); err != nil {
			fmt.Fprintln(os.Stderr, err)
			os.Exit(2)
		}
		c := gjkrdrv.Execute(d)
		c.Kind = "case"
		b, _ := json.Marshal(c)
		os.Stdout.Write(b)
		return
	}
	self, err := os.Executable()
	if err != nil {
		panic(err)
	}
	em := lib.NewEmitter()
	var descs []RunDesc
	if o.Replay != "" {
		var d RunDesc
		if err := lib.LoadReplay(o.Replay, &d); err != nil {
			fmt.Fprintln(os.Stderr, err)
			os.Exit(2)
		}
		d.ID = "replay"
		descs = []RunDesc{d}
	} else {
		rng := lib.NewRng(o.Seed)
		descs = corpus()
		nRand := o.Count(26, 400)
		if o.Tier == "search" && o.N == 0 {
			nRand = 120 // a search round after a mismatch: more runs than quick, bounded wall time
		}
		maxN := 6
		if o.Tier != "quick" {
			maxN = 9
		}
		for i := 0; i < nRand; i++ {
			id := fmt.Sprintf("rand-%d", i)
			if i%3 == 2 {
				// the C01 generator: every deviation family, 1-3 composed (the families of the known
				// agreement defect only every 9th run)
				descs = append(descs, gjkrdrv.RandomRun(rng.Fork("c01-"+id), id, maxN, i%9 == 8))
			} else if i%3 == 1 {
				// reconstruction with corrupt revealers (dealer + accomplices)
				descs = append(descs, collusionRun(rng.Fork("col-"+id), id, maxN))
			} else {
				descs = append(descs, focusedRun(rng.Fork("c02-"+id), id, maxN))
			}
		}
	}
	cases := runAll(self, descs)
	for i, c := range cases {
		emit(em, descs[i], c)
	}
	if o.Replay != "" {
		em.Close("replay", nil)
		return
	}
	em.Close(rule, nil)
	if n := gjkrdrv.Unattributed.Load(); n > 0 {
		fmt.Fprintf(os.Stderr, "%d child process(es) died outside any Initiate call\n", n)
		os.Exit(3)
	}
}
