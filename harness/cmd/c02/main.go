// Driver for C02 (beacon DKG: key shares are consistent with the group public key).  Same runs
// as C01 (engine in cmd/c01/gjkrdrv); the cases are judged by Model/C02's judge, whose spec_ok is
// share*G2 = public key share and (t+1)-subset interpolation.
package main

import "verifharness/cmd/c01/gjkrdrv"

func main() { gjkrdrv.Main() }
