// Driver for C42: runs pkg/sortition's MonitorPool (its first status check) against a scripted
// chain for every combination of chain answers and several join policies, and records which
// state-changing requests the client made.
package main

import (
	"context"
	"fmt"
	"math/big"
	"os"
	"strings"
	"time"

	"github.com/ipfs/go-log"
	"github.com/keep-network/keep-core/pkg/chain"
	"github.com/keep-network/keep-core/pkg/sortition"

	"verifharness/lib"
)

// answers: 0 = true, 1 = false, 2 = error
type world struct {
	Registered, InPool, UpToDate, Locked, Eligible, CanRestore, Chaosnet, Beta int
	RestoreFails, UpdateFails, JoinFails                                    bool
}

type fakeChain struct {
	w   world
	txs []string
}

var errScripted = fmt.Errorf("scripted chain error")

func ans(a int) (bool, error) {
	switch a {
	case 0:
		return true, nil
	case 1:
		return false, nil
	}
	return false, errScripted
}
func fail(b bool) error {
	if b {
		return errScripted
	}
	return nil
}
func (f *fakeChain) OperatorToStakingProvider() (chain.Address, bool, error) {
	b, err := ans(f.w.Registered)
	return chain.Address("0xaa"), b, err
}
func (f *fakeChain) EligibleStake(chain.Address) (*big.Int, error) { return big.NewInt(1), nil }
func (f *fakeChain) IsPoolLocked() (bool, error)                  { return ans(f.w.Locked) }
func (f *fakeChain) IsOperatorInPool() (bool, error)              { return ans(f.w.InPool) }
func (f *fakeChain) IsOperatorUpToDate() (bool, error)            { return ans(f.w.UpToDate) }
func (f *fakeChain) JoinSortitionPool() error {
	f.txs = append(f.txs, "Join")
	return fail(f.w.JoinFails)
}
func (f *fakeChain) UpdateOperatorStatus() error {
	f.txs = append(f.txs, "Update")
	return fail(f.w.UpdateFails)
}
func (f *fakeChain) IsEligibleForRewards() (bool, error)        { return ans(f.w.Eligible) }
func (f *fakeChain) CanRestoreRewardEligibility() (bool, error) { return ans(f.w.CanRestore) }
func (f *fakeChain) RestoreRewardEligibility() error {
	f.txs = append(f.txs, "Restore")
	return fail(f.w.RestoreFails)
}
func (f *fakeChain) IsChaosnetActive() (bool, error) { return ans(f.w.Chaosnet) }
func (f *fakeChain) IsBetaOperator() (bool, error)   { return ans(f.w.Beta) }
func (f *fakeChain) GetOperatorID(chain.Address) (chain.OperatorID, error) {
	return 1, nil
}

type constPolicy bool

func (c constPolicy) ShouldJoin() bool { return bool(c) }

// policies: a small language mirrored by Model/C42.v's [policy]
type pol struct {
	Kind string `json:"kind"` // uncond | beta | const | conj
	B    bool   `json:"b,omitempty"`
	Ps   []pol  `json:"ps,omitempty"`
}

func (p pol) build(c sortition.Chain, lg log.StandardLogger) sortition.JoinPolicy {
	switch p.Kind {
	case "uncond":
		return sortition.UnconditionalJoinPolicy
	case "beta":
		return sortition.NewBetaOperatorPolicy(c, lg)
	case "const":
		return constPolicy(p.B)
	}
	var ps []sortition.JoinPolicy
	for _, q := range p.Ps {
		ps = append(ps, q.build(c, lg))
	}
	return sortition.NewConjunctionPolicy(ps...)
}
func (p pol) coq() string {
	switch p.Kind {
	case "uncond":
		return "PUncond"
	case "beta":
		return "PBeta"
	case "const":
		return "(PConst " + lib.Bool(p.B) + ")"
	}
	var s []string
	for _, q := range p.Ps {
		s = append(s, q.coq())
	}
	return "(PConj " + lib.List(s) + ")"
}

func a(i int) string { return []string{"ATrue", "AFalse", "AErr"}[i] }
func (w world) coq() string {
	return fmt.Sprintf("{| registered := %s; in_pool := %s; up_to_date := %s; locked := %s; eligible := %s; can_restore := %s; chaosnet := %s; beta := %s; restore_fails := %s; update_fails := %s; join_fails := %s |}",
		a(w.Registered), a(w.InPool), a(w.UpToDate), a(w.Locked), a(w.Eligible), a(w.CanRestore), a(w.Chaosnet), a(w.Beta),
		lib.Bool(w.RestoreFails), lib.Bool(w.UpdateFails), lib.Bool(w.JoinFails))
}

type input struct {
	Policy pol     `json:"policy"`
	Worlds []world `json:"worlds"`
}

var logger = log.Logger("verif-c42")

func runStep(p pol, w world) (txs []string, errd bool) {
	fc := &fakeChain{w: w}
	ctx, cancel := context.WithCancel(context.Background())
	defer cancel()
	defer func() {
		if r := recover(); r != nil {
			txs, errd = append(fc.txs, "PANIC"), true
		}
	}()
	err := sortition.MonitorPool(ctx, logger, fc, 24*time.Hour, p.build(fc, logger))
	return fc.txs, err != nil
}

func run(in input, em *lib.Emitter, id string) {
	var steps []string
	var outs []interface{}
	nontrivial := false
	sig := map[string]interface{}{"policy": in.Policy.Kind}
	for _, w := range in.Worlds {
		txs, errd := runStep(in.Policy, w)
		for _, t := range txs {
			em.Tally("tx-" + t)
			nontrivial = true
		}
		if len(txs) == 0 {
			em.Tally("tx-none")
		}
		steps = append(steps, fmt.Sprintf("{| s_world := %s; s_txs := %s; s_err := %s |}", w.coq(), lib.List(txs), lib.Bool(errd)))
		outs = append(outs, map[string]interface{}{"txs": txs, "err": errd})
	}
	coq := fmt.Sprintf("{| c_policy := %s; c_steps := %s |}", in.Policy.coq(), lib.List(steps))
	em.Case(lib.Case{ID: id, Coq: coq, Key: coq[:strings.Index(coq, "s_txs")] + fmt.Sprint(len(coq)) + fmt.Sprint(in.Worlds), Nontrivial: nontrivial, Sig: sig, In: in, Out: outs})
}

func main() {
	lib.SilenceLogs()
	o := lib.ParseOpts()
	em := lib.NewEmitter()
	if o.Replay != "" {
		var in input
		if err := lib.LoadReplay(o.Replay, &in); err != nil {
			fmt.Fprintln(os.Stderr, err)
			os.Exit(2)
		}
		run(in, em, "replay")
		em.Close("replay", nil)
		return
	}
	rng := lib.NewRng(o.Seed)
	policies := []pol{
		{Kind: "uncond"}, {Kind: "beta"}, {Kind: "const", B: false},
		{Kind: "conj", Ps: []pol{{Kind: "beta"}, {Kind: "const", B: true}}},
		{Kind: "conj", Ps: []pol{{Kind: "const", B: false}, {Kind: "beta"}}},
		{Kind: "conj"},
		{Kind: "conj", Ps: []pol{{Kind: "uncond"}, {Kind: "conj", Ps: []pol{{Kind: "beta"}, {Kind: "uncond"}}}}},
	}
	// corpus: the interesting corners, one history each
	run(input{policies[0], []world{
		{0, 1, 1, 1, 0, 0, 0, 0, false, false, false}, // join
		{0, 0, 1, 1, 1, 0, 0, 0, true, true, false},   // restore + update, both failing
		{0, 1, 1, 0, 0, 0, 0, 0, false, false, false}, // locked: nothing
		{1, 1, 1, 1, 0, 0, 0, 0, false, false, false}, // not registered
		{2, 1, 1, 1, 0, 0, 0, 0, false, false, false}, // registration query fails
	}}, em, "corpus-basic")
	run(input{policies[1], []world{
		{0, 1, 1, 1, 0, 0, 0, 1, false, false, false}, // chaosnet, not beta: no join
		{0, 1, 1, 1, 0, 0, 1, 1, false, false, false}, // chaosnet over: join
		{0, 1, 1, 1, 0, 0, 2, 0, false, false, false}, // chaosnet query fails: no join
	}}, em, "corpus-beta")

	// exhaustive over the 3^7 answer combinations (registered = true) x policies, in histories of 9 worlds;
	// the quick tier takes a seeded third of them
	var all []world
	for i := 0; i < 2187; i++ {
		d := make([]int, 7)
		x := i
		for k := range d {
			d[k] = x % 3
			x /= 3
		}
		all = append(all, world{0, d[0], d[1], d[2], d[3], d[4], d[5], d[6], false, false, false})
	}
	perm := rng.Fork("order").Perm(len(all))
	n := 0
	for pi, p := range policies {
		r := rng.Fork(fmt.Sprintf("p%d", pi))
		var chunk []world
		for k, idx := range perm {
			if o.Tier == "quick" && (k+pi)%3 != 0 {
				continue
			}
			w := all[idx]
			w.RestoreFails, w.UpdateFails, w.JoinFails = r.Chance(1, 4), r.Chance(1, 4), r.Chance(1, 4)
			if r.Chance(1, 40) {
				w.Registered = 1 + r.Intn(2)
			}
			chunk = append(chunk, w)
			if len(chunk) == 9 {
				run(input{p, chunk}, em, fmt.Sprintf("ex-%d-%d", pi, n))
				n++
				chunk = nil
			}
		}
		if len(chunk) > 0 {
			run(input{p, chunk}, em, fmt.Sprintf("ex-%d-%d", pi, n))
			n++
		}
	}
	em.Close("a case is a history of status checks (one MonitorPool start per world) under one join policy; "+
		"worlds enumerate all 3^7 combinations of {true,false,error} answers of the seven chain queries (quick: a seeded third per policy), "+
		"transaction outcomes random; distinct by (policy, worlds); non-trivial when at least one state-changing request was made",
		map[string]interface{}{"exhaustive_worlds": o.Tier != "quick"})
}
