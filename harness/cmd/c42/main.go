// Driver for C42: runs pkg/sortition's MonitorPool and then checkOperatorStatus tick after tick
// (as MonitorPool's ticker loop does) against ONE scripted chain and ONE long-lived join policy
// object graph — ConjunctionPolicy over scripted sub-policies, BetaOperatorPolicy, tbtc's
// enoughPreParamsInPoolPolicy and tbtc's own composition — over histories of 1-8 ticks in which the
// chain answers, the sub-policy answers, the lock state and the injected errors change from tick
// to tick. Per tick it records the state-changing requests and the questions asked.
package main

import (
	"context"
	"fmt"
	"math/big"
	"os"
	"strings"
	"sync"
	"time"

	"github.com/bnb-chain/tss-lib/crypto/paillier"
	"github.com/bnb-chain/tss-lib/ecdsa/keygen"
	"github.com/ipfs/go-log"
	"github.com/keep-network/keep-common/pkg/persistence"
	"github.com/keep-network/keep-core/pkg/chain"
	"github.com/keep-network/keep-core/pkg/generator"
	"github.com/keep-network/keep-core/pkg/sortition"
	"github.com/keep-network/keep-core/pkg/tbtc"
	"github.com/keep-network/keep-core/pkg/tecdsa/dkg"

	"verifharness/lib"
)

// answers: 0 = true, 1 = false, 2 = error
type tick struct {
	InPool, UpToDate, Locked, Eligible, CanRestore, Chaosnet, Beta int
	RestoreFails, UpdateFails, JoinFails                           bool
	Script                                                         []bool // answers of the scripted sub-policies at this tick
	PreSize                                                        int    // configured pre-parameters pool size at this tick
}

const nScript = 3

// fakeChain lives through the whole history; cur is the script of the current tick.
type fakeChain struct {
	registered int
	cur        *tick
	txs        []string
	queries    []string
}

var errScripted = fmt.Errorf("scripted chain error")

func ans(a int) (bool, error) {
	switch a {
	case 0:
		return true, nil
	case 1:
		return false, nil
	}
	return false, errScripted
}
func fail(b bool) error {
	if b {
		return errScripted
	}
	return nil
}
func (f *fakeChain) q(name string, a int) (bool, error) {
	f.queries = append(f.queries, name)
	return ans(a)
}
func (f *fakeChain) OperatorToStakingProvider() (chain.Address, bool, error) {
	b, err := ans(f.registered)
	return chain.Address("0xaa"), b, err
}
func (f *fakeChain) EligibleStake(chain.Address) (*big.Int, error) { return big.NewInt(1), nil }
func (f *fakeChain) IsPoolLocked() (bool, error)                   { return f.q("QLocked", f.cur.Locked) }
func (f *fakeChain) IsOperatorInPool() (bool, error)               { return f.q("QInPool", f.cur.InPool) }
func (f *fakeChain) IsOperatorUpToDate() (bool, error)             { return f.q("QUpToDate", f.cur.UpToDate) }
func (f *fakeChain) JoinSortitionPool() error {
	f.txs = append(f.txs, "Join")
	return fail(f.cur.JoinFails)
}
func (f *fakeChain) UpdateOperatorStatus() error {
	f.txs = append(f.txs, "Update")
	return fail(f.cur.UpdateFails)
}
func (f *fakeChain) IsEligibleForRewards() (bool, error) { return f.q("QEligible", f.cur.Eligible) }
func (f *fakeChain) CanRestoreRewardEligibility() (bool, error) {
	return f.q("QCanRestore", f.cur.CanRestore)
}
func (f *fakeChain) RestoreRewardEligibility() error {
	f.txs = append(f.txs, "Restore")
	return fail(f.cur.RestoreFails)
}
func (f *fakeChain) IsChaosnetActive() (bool, error) { return f.q("QChaosnet", f.cur.Chaosnet) }
func (f *fakeChain) IsBetaOperator() (bool, error)   { return f.q("QBeta", f.cur.Beta) }
func (f *fakeChain) GetOperatorID(chain.Address) (chain.OperatorID, error) {
	return 1, nil
}

// scriptPolicy is "any other JoinPolicy": it answers what the current tick scripts for it.
type scriptPolicy struct {
	i  int
	fc *fakeChain
}

func (s *scriptPolicy) ShouldJoin() bool {
	s.fc.queries = append(s.fc.queries, "(QAsk "+lib.Nat(s.i)+")")
	return s.i < len(s.fc.cur.Script) && s.fc.cur.Script[s.i]
}

// policies: a small language mirrored by Model/C42.v's [policy]
type pol struct {
	Kind string `json:"kind"` // uncond | beta | script | pre | tbtc | conj
	I    int    `json:"i,omitempty"`
	Ps   []pol  `json:"ps,omitempty"`
}

// graph is the long-lived object graph of one history
type graph struct {
	fc   *fakeChain
	exec *dkg.Executor
	pres []*tbtc.VerifC42PreParamsPolicy
}

func (g *graph) build(p pol) sortition.JoinPolicy {
	switch p.Kind {
	case "uncond":
		return sortition.UnconditionalJoinPolicy
	case "beta":
		return sortition.NewBetaOperatorPolicy(g.fc, logger)
	case "script":
		return &scriptPolicy{p.I, g.fc}
	case "pre":
		h := tbtc.VerifC42NewPreParamsPolicy(g.exec, 0)
		g.pres = append(g.pres, h)
		return h.Policy()
	case "tbtc": // the composition tbtc.Initialize hands to MonitorPool
		h := tbtc.VerifC42NewPreParamsPolicy(g.exec, 0)
		g.pres = append(g.pres, h)
		return tbtc.VerifC42JoinPolicy(g.fc, logger, h)
	}
	var ps []sortition.JoinPolicy
	for _, q := range p.Ps {
		ps = append(ps, g.build(q))
	}
	return sortition.NewConjunctionPolicy(ps...)
}
func (p pol) usesPre() bool {
	if p.Kind == "pre" || p.Kind == "tbtc" {
		return true
	}
	for _, q := range p.Ps {
		if q.usesPre() {
			return true
		}
	}
	return false
}
func (p pol) coq() string {
	switch p.Kind {
	case "uncond":
		return "PUncond"
	case "beta":
		return "PBeta"
	case "script":
		return "(PScript " + lib.Nat(p.I) + ")"
	case "pre":
		return "PPre"
	case "tbtc":
		return "(PConj [PBeta; PPre])"
	}
	var s []string
	for _, q := range p.Ps {
		s = append(s, q.coq())
	}
	return "(PConj " + lib.List(s) + ")"
}
func (p pol) shape() string {
	if p.Kind != "conj" {
		return p.Kind
	}
	var s []string
	for _, q := range p.Ps {
		s = append(s, q.shape())
	}
	return "conj(" + strings.Join(s, ",") + ")"
}

// allows is the driver's own reading of "the join policy allows joining at this tick": every
// leaf's answer at this tick is yes. Computed from the script only; no policy object is touched.
func (p pol) allows(t *tick, preCount int) bool {
	beta := t.Chaosnet == 1 || (t.Chaosnet == 0 && t.Beta == 0)
	pre := preCount >= t.PreSize
	switch p.Kind {
	case "uncond":
		return true
	case "beta":
		return beta
	case "script":
		return p.I < len(t.Script) && t.Script[p.I]
	case "pre":
		return pre
	case "tbtc":
		return beta && pre
	}
	all := true
	for _, q := range p.Ps {
		if !q.allows(t, preCount) {
			all = false
		}
	}
	return all
}

func a(i int) string { return []string{"ATrue", "AFalse", "AErr"}[i] }
func (t tick) coq(reg, preCount int) string {
	var sc []string
	for _, b := range t.Script {
		sc = append(sc, lib.Bool(b))
	}
	return fmt.Sprintf("{| registered := %s; in_pool := %s; up_to_date := %s; locked := %s; eligible := %s; can_restore := %s; chaosnet := %s; beta := %s; restore_fails := %s; update_fails := %s; join_fails := %s; scripted := %s; pre_count := %s; pre_size := %s |}",
		a(reg), a(t.InPool), a(t.UpToDate), a(t.Locked), a(t.Eligible), a(t.CanRestore), a(t.Chaosnet), a(t.Beta),
		lib.Bool(t.RestoreFails), lib.Bool(t.UpdateFails), lib.Bool(t.JoinFails),
		lib.List(sc), lib.Z(int64(preCount)), lib.Z(int64(t.PreSize)))
}

type input struct {
	Registered int    `json:"registered"`
	Policy     pol    `json:"policy"`
	PreCount   int    `json:"pre_count"` // pre-parameters held by the executor's pool
	Ticks      []tick `json:"ticks"`
}

var logger = log.Logger("verif-c42")

// ---- a real dkg.Executor holding n (dummy) pre-parameters, nothing generated in the background

type memDescriptor struct {
	name, dir string
	content   []byte
}

func (d *memDescriptor) Name() string             { return d.name }
func (d *memDescriptor) Directory() string        { return d.dir }
func (d *memDescriptor) Content() ([]byte, error) { return d.content, nil }

type memPersistence struct{ items []*memDescriptor }

func (p *memPersistence) Save([]byte, string, string) error { return nil }
func (p *memPersistence) Delete(string, string) error       { return nil }
func (p *memPersistence) ReadAll() (<-chan persistence.DataDescriptor, <-chan error) {
	dc := make(chan persistence.DataDescriptor)
	ec := make(chan error)
	go func() {
		for _, it := range p.items {
			dc <- it
		}
		close(dc)
		close(ec)
	}()
	return dc, ec
}

var (
	execMu    sync.Mutex
	execCache = map[int]*dkg.Executor{}
)

// executorWith returns an executor whose pool holds exactly n pre-parameters (read through its own
// persistence path, on a stopped scheduler). The pool is never drained here, so one executor per
// count is shared by all histories.
func executorWith(n int) *dkg.Executor {
	execMu.Lock()
	defer execMu.Unlock()
	if e, ok := execCache[n]; ok {
		return e
	}
	one := big.NewInt(1)
	pers := &memPersistence{}
	for i := 0; i < n; i++ {
		pre := &keygen.LocalPreParams{
			PaillierSK: &paillier.PrivateKey{PublicKey: paillier.PublicKey{N: one}, LambdaN: one, PhiN: one},
			NTildei:    one, H1i: one, H2i: one, Alpha: one, Beta: one, P: one, Q: one,
		}
		b, err := dkg.VerifNewPreParams(pre).Marshal()
		if err != nil {
			panic(err)
		}
		pers.items = append(pers.items, &memDescriptor{fmt.Sprintf("pp_%d", i), "preparams", b})
	}
	e := dkg.NewExecutor(logger, generator.VerifNewStoppedScheduler(), pers, n+4, time.Minute, time.Second, 1, 1)
	if e.PreParamsCount() != n {
		panic(fmt.Sprintf("pre-params pool holds %d of %d entries", e.PreParamsCount(), n))
	}
	execCache[n] = e
	return e
}

type obs struct {
	Txs     []string `json:"txs"`
	Queries []string `json:"queries"`
	Err     string   `json:"err"` // yes | no | unobservable
	Allow   bool     `json:"policy_allows"`
}

// oneCheck runs one status check on the long-lived objects. first: through MonitorPool (which
// resolves the registration and runs the first check); otherwise the ticker's call.
func oneCheck(g *graph, policy sortition.JoinPolicy, t *tick, first bool, cancels *[]context.CancelFunc) (o obs, monitorErr bool) {
	g.fc.cur, g.fc.txs, g.fc.queries = t, nil, nil
	for _, h := range g.pres {
		h.SetPreParamsPoolSize(t.PreSize)
	}
	defer func() {
		if r := recover(); r != nil {
			o = obs{Txs: append(g.fc.txs, "Panic"), Queries: g.fc.queries, Err: "unobservable"}
		}
	}()
	if first {
		ctx, cancel := context.WithCancel(context.Background())
		*cancels = append(*cancels, cancel)
		err := sortition.MonitorPool(ctx, logger, g.fc, 24*time.Hour, policy)
		return obs{Txs: g.fc.txs, Queries: g.fc.queries, Err: "unobservable"}, err != nil
	}
	err := sortition.VerifC42CheckOperatorStatus(logger, g.fc, policy)
	e := "no"
	if err != nil {
		e = "yes"
	}
	return obs{Txs: g.fc.txs, Queries: g.fc.queries, Err: e}, false
}

func run(in input, em *lib.Emitter, id string) {
	for i := range in.Ticks {
		for len(in.Ticks[i].Script) < nScript {
			in.Ticks[i].Script = append(in.Ticks[i].Script, false)
		}
	}
	g := &graph{fc: &fakeChain{registered: in.Registered}}
	if in.Policy.usesPre() {
		g.exec = executorWith(in.PreCount)
	}
	policy := g.build(in.Policy) // built ONCE
	var cancels []context.CancelFunc
	defer func() {
		for _, c := range cancels {
			c()
		}
	}()

	var steps []string
	var outs []obs
	nontrivial, monitorErr := false, false
	joins, flips := 0, 0
	for i := range in.Ticks {
		t := &in.Ticks[i]
		var o obs
		if i == 0 {
			o, monitorErr = oneCheck(g, policy, t, true, &cancels)
		} else if monitorErr {
			break // MonitorPool gave up: there is no ticker
		} else {
			o, _ = oneCheck(g, policy, t, false, &cancels)
		}
		o.Allow = in.Policy.allows(t, in.PreCount)
		if i > 0 && o.Allow != outs[i-1].Allow {
			flips++
		}
		for _, x := range o.Txs {
			em.Tally("tx-" + x)
			nontrivial = true
			if x == "Join" {
				joins++
			}
		}
		if len(o.Txs) == 0 {
			em.Tally("tx-none")
		}
		e := "None"
		if o.Err != "unobservable" {
			e = lib.Some(lib.Bool(o.Err == "yes"))
		}
		steps = append(steps, fmt.Sprintf("{| s_world := %s; s_txs := %s; s_queries := %s; s_err := %s; s_allow := %s |}",
			t.coq(in.Registered, in.PreCount), lib.List(o.Txs), lib.List(o.Queries), e, lib.Bool(o.Allow)))
		outs = append(outs, o)
	}
	em.Tally(fmt.Sprintf("ticks-%d", len(outs)))
	if flips > 0 {
		em.Tally("policy-answer-changes-between-ticks")
	}
	sig := map[string]interface{}{"policy": in.Policy.Kind, "shape": in.Policy.shape(), "registered": in.Registered == 0}
	coq := fmt.Sprintf("{| c_registered := %s; c_policy := %s; c_steps := %s; c_monitor_err := %s |}",
		a(in.Registered), in.Policy.coq(), lib.List(steps), lib.Bool(monitorErr))
	key := fmt.Sprintf("%d|%s|%d|%v", in.Registered, in.Policy.coq(), in.PreCount, in.Ticks)
	em.Case(lib.Case{ID: id, Coq: coq, Key: key, Nontrivial: nontrivial, Sig: sig, In: in,
		Out: map[string]interface{}{"monitor_err": monitorErr, "ticks": outs}})
}

// ---- generators

func conj(p ...pol) pol { return pol{Kind: "conj", Ps: p} }
func S(i int) pol       { return pol{Kind: "script", I: i} }

var (
	pUncond = pol{Kind: "uncond"}
	pBeta   = pol{Kind: "beta"}
	pPre    = pol{Kind: "pre"}
	pTbtc   = pol{Kind: "tbtc"}
)

// joinable: operator out of the pool, out of date, pool unlocked — the check reaches the policy
func joinable(sc ...bool) tick {
	return tick{InPool: 1, UpToDate: 1, Locked: 1, Eligible: 0, CanRestore: 1, Chaosnet: 1, Beta: 1, Script: sc}
}

// beta states: the five distinguishable (chaosnet, beta) answers
var betaStates = [][2]int{{1, 1}, {0, 0}, {0, 1}, {2, 0}, {0, 2}}

func withBeta(t tick, s int) tick { t.Chaosnet, t.Beta = betaStates[s][0], betaStates[s][1]; return t }

func randTick(r *lib.Rng) tick {
	a3 := func(pErr int) int {
		if r.Chance(1, pErr) {
			return 2
		}
		return r.Intn(2)
	}
	t := tick{InPool: a3(12), UpToDate: a3(12), Locked: a3(10), Eligible: a3(8), CanRestore: a3(8),
		Chaosnet: a3(6), Beta: a3(6),
		RestoreFails: r.Chance(1, 4), UpdateFails: r.Chance(1, 4), JoinFails: r.Chance(1, 4),
		PreSize: r.Intn(5)}
	if r.Chance(3, 5) { // mostly: the check reaches the joining decision
		t.InPool, t.UpToDate, t.Locked = 1, 1, 1
		if r.Chance(1, 6) {
			t.Locked = r.Intn(3)
		}
	}
	for i := 0; i < nScript; i++ {
		t.Script = append(t.Script, r.Chance(3, 5))
	}
	return t
}

func randPol(r *lib.Rng, depth int) pol {
	if depth == 0 || (depth < 2 && r.Chance(1, 4)) {
		n := r.Intn(4)
		if depth == 0 {
			n = 2 + r.Intn(3)
		}
		p := pol{Kind: "conj"}
		for i := 0; i < n; i++ {
			p.Ps = append(p.Ps, randPol(r, depth+1))
		}
		return p
	}
	switch r.Intn(8) {
	case 4, 5:
		return pBeta
	case 6:
		if r.Bool() {
			return pTbtc
		}
		return pPre
	case 7:
		return pUncond
	}
	return S(r.Intn(nScript))
}

func main() {
	lib.SilenceLogs()
	o := lib.ParseOpts()
	em := lib.NewEmitter()
	if o.Replay != "" {
		var in input
		if err := lib.LoadReplay(o.Replay, &in); err != nil {
			fmt.Fprintln(os.Stderr, err)
			os.Exit(2)
		}
		run(in, em, "replay")
		em.Close("replay", nil)
		return
	}
	rng := lib.NewRng(o.Seed)
	quick := o.Tier == "quick"
	deep := o.Tier == "thorough" // "search" (after a mismatch) sits in between: different seeds, moderate size

	// ---- corpus: the interesting corners, one history each
	run(input{0, pUncond, 0, []tick{
		{InPool: 1, UpToDate: 1, Locked: 1},                                                     // join
		{InPool: 0, UpToDate: 1, Locked: 1, Eligible: 1, RestoreFails: true, UpdateFails: true}, // restore + update, both failing
		{InPool: 1, UpToDate: 1, Locked: 0},                                                     // locked: nothing
		{InPool: 2}, {InPool: 1, UpToDate: 2}, {InPool: 1, UpToDate: 1, Locked: 2},              // failing queries
		{InPool: 1, UpToDate: 1, Locked: 1, JoinFails: true}, // join again (failing)
	}}, em, "corpus-basic")
	run(input{1, pUncond, 0, []tick{{InPool: 1, UpToDate: 1, Locked: 1}, {InPool: 1, UpToDate: 1, Locked: 1}}}, em, "corpus-unregistered")
	run(input{2, pUncond, 0, []tick{{InPool: 1, UpToDate: 1, Locked: 1}}}, em, "corpus-registration-fails")
	run(input{0, pBeta, 0, []tick{
		withBeta(joinable(), 2), // chaosnet, not beta: no join
		withBeta(joinable(), 0), // chaosnet over: join
		withBeta(joinable(), 3), // chaosnet query fails: no join
		withBeta(joinable(), 1), // beta operator: join
		withBeta(joinable(), 4), // beta query fails: no join
	}}, em, "corpus-beta")
	// a passed sub-policy must be asked again: (A yes, B no) then (A no, B yes), and permutations
	run(input{0, conj(S(0), S(1)), 0, []tick{joinable(true, false), joinable(false, true), joinable(true, true)}}, em, "corpus-stale-yes-ab")
	run(input{0, conj(S(0), S(1)), 0, []tick{joinable(false, true), joinable(true, false), joinable(true, true), joinable(false, false)}}, em, "corpus-stale-yes-ba")
	run(input{0, conj(S(1), S(0)), 0, []tick{joinable(false, true), joinable(true, false)}}, em, "corpus-stale-yes-swapped")
	run(input{0, conj(S(0), S(1), S(2)), 0, []tick{
		joinable(true, true, false), joinable(false, true, true), joinable(true, false, true), joinable(true, true, true), joinable(false, false, false)}}, em, "corpus-stale-yes-3")
	run(input{0, conj(S(0), conj(S(1), S(2))), 0, []tick{
		joinable(true, true, false), joinable(true, false, true), joinable(false, true, true), joinable(true, true, true)}}, em, "corpus-stale-yes-nested")
	run(input{0, conj(pBeta, S(0)), 0, []tick{
		withBeta(joinable(false), 0), withBeta(joinable(true), 2), withBeta(joinable(true), 3), withBeta(joinable(true), 1)}}, em, "corpus-stale-beta")
	run(input{0, pTbtc, 2, []tick{
		func() tick { t := withBeta(joinable(), 0); t.PreSize = 3; return t }(), // beta yes, pre-params short
		func() tick { t := withBeta(joinable(), 2); t.PreSize = 2; return t }(), // beta no, pre-params enough
		func() tick { t := withBeta(joinable(), 1); t.PreSize = 2; return t }(), // both
		func() tick { t := withBeta(joinable(), 1); t.PreSize = 1000; return t }(),
	}}, em, "corpus-tbtc")
	// a "no" must not be remembered either
	run(input{0, conj(S(0), S(1)), 0, []tick{joinable(false, false), joinable(true, true), joinable(false, true), joinable(true, true)}}, em, "corpus-stale-no")

	// ---- small-scope exhaustive: every sequence of sub-policy answers, operator joinable at every tick
	keep := func(r *lib.Rng, num, den int) bool { return deep || r.Chance(num, den) }
	{
		r := rng.Fork("seq")
		bits := func(x, n int) []bool {
			var b []bool
			for i := 0; i < n; i++ {
				b = append(b, x>>i&1 == 1)
			}
			return b
		}
		seqs := func(label string, p pol, n, length, num, den int) {
			opts := 1 << n
			total := 1
			for i := 0; i < length; i++ {
				total *= opts
			}
			for x := 0; x < total; x++ {
				if !keep(r, num, den) {
					continue
				}
				var ts []tick
				y := x
				for i := 0; i < length; i++ {
					t := joinable(bits(y%opts, n)...)
					t.JoinFails = r.Chance(1, 3)
					ts = append(ts, t)
					y /= opts
				}
				run(input{0, p, 0, ts}, em, fmt.Sprintf("seq-%s-%d-%d", label, length, x))
			}
		}
		seqs("ab", conj(S(0), S(1)), 2, 2, 1, 1)
		seqs("ab", conj(S(0), S(1)), 2, 3, 1, 1)
		seqs("abc", conj(S(0), S(1), S(2)), 3, 2, 1, 1)
		seqs("abc", conj(S(0), S(1), S(2)), 3, 3, 1, 8)
		seqs("a-bc", conj(S(0), conj(S(1), S(2))), 3, 2, 1, 2)
		seqs("ab", conj(S(0), S(1)), 2, 4, 1, 8)

		// beta x scripted, both orders; tbtc composition: beta x pre-parameters
		for x := 0; x < 100; x++ {
			if !keep(r, 1, 4) {
				continue
			}
			for oi, p := range []pol{conj(pBeta, S(0)), conj(S(0), pBeta)} {
				var ts []tick
				for _, c := range []int{x % 10, x / 10} {
					ts = append(ts, withBeta(joinable(c%2 == 0), c/2))
				}
				run(input{0, p, 0, ts}, em, fmt.Sprintf("seq-beta-%d-%d", oi, x))
			}
		}
		for x := 0; x < 225; x++ {
			if !keep(r, 1, 5) {
				continue
			}
			var ts []tick
			for _, c := range []int{x % 15, x / 15} {
				t := withBeta(joinable(), c/3)
				t.PreSize = 1 + c%3 // below, at, above the count
				ts = append(ts, t)
			}
			run(input{0, pTbtc, 2, ts}, em, fmt.Sprintf("seq-tbtc-%d", x))
		}
	}

	// ---- all 3^7 combinations of chain answers, eight per history, on long-lived policy graphs with
	// sub-policy answers changing from tick to tick (quick: a seeded third of the combinations)
	graphs := []pol{
		pUncond, pBeta, S(0), conj(), pTbtc,
		conj(S(0), S(1)), conj(S(0), S(1), S(2)), conj(pBeta, S(0)), conj(S(0), pBeta),
		conj(pUncond, conj(pBeta, pUncond)), conj(S(0), conj(S(1), pBeta), S(2)), conj(pBeta, pPre, S(0)),
	}
	{
		r := rng.Fork("ex")
		perm := rng.Fork("order").Perm(2187)
		passes := 1
		if deep {
			passes = len(graphs)
		}
		n := 0
		for pass := 0; pass < passes; pass++ {
			var chunk []tick
			flush := func() {
				if len(chunk) > 0 {
					run(input{0, graphs[(n+pass)%len(graphs)], r.Intn(4), chunk}, em, fmt.Sprintf("ex-%d-%d", pass, n))
					n++
					chunk = nil
				}
			}
			for k, idx := range perm {
				if quick && k%3 != int(o.Seed%3) {
					continue
				}
				d := make([]int, 7)
				x := idx
				for j := range d {
					d[j] = x % 3
					x /= 3
				}
				t := tick{InPool: d[0], UpToDate: d[1], Locked: d[2], Eligible: d[3], CanRestore: d[4], Chaosnet: d[5], Beta: d[6],
					RestoreFails: r.Chance(1, 4), UpdateFails: r.Chance(1, 4), JoinFails: r.Chance(1, 4), PreSize: r.Intn(5)}
				for i := 0; i < nScript; i++ {
					t.Script = append(t.Script, r.Chance(2, 3))
				}
				chunk = append(chunk, t)
				if len(chunk) == 8 {
					flush()
				}
			}
			flush()
		}
	}

	// ---- random histories of 2-8 ticks on random policy graphs
	{
		r := rng.Fork("rand")
		nRand := o.Count(160, 3000)
		if o.Tier == "search" && o.N == 0 {
			nRand = 600
		}
		for i := 0; i < nRand; i++ {
			in := input{Registered: 0, PreCount: r.Intn(4)}
			if r.Chance(1, 25) {
				in.Registered = 1 + r.Intn(2)
			}
			if r.Chance(1, 2) {
				in.Policy = graphs[5+r.Intn(len(graphs)-5)]
			} else {
				in.Policy = randPol(r, 0)
			}
			for n := r.Range(2, 8); n > 0; n-- {
				in.Ticks = append(in.Ticks, randTick(r))
			}
			run(in, em, fmt.Sprintf("rand-%d", i))
		}
	}

	em.Close("a case is a history of 1-8 status checks on ONE scripted chain and ONE join policy object graph "+
		"(MonitorPool for the first check, then checkOperatorStatus per tick); chain answers, sub-policy answers, "+
		"lock state and injected errors change from tick to tick; corpus + every sequence of sub-policy answers of "+
		"length 2-3 for 2- and 3-part conjunctions (quick: seeded subsets of the larger ones) + all 3^7 combinations of "+
		"{true,false,error} answers of the seven chain queries (quick: a seeded third) + random histories; "+
		"distinct by (registration, policy graph, ticks); non-trivial when at least one state-changing request was made",
		map[string]interface{}{"exhaustive_worlds": !quick, "exhaustive_sequences": deep})
}
