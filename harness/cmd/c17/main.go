// Driver for C17: runs the real retransmission strategies behind the real Ticker and
// ScheduleRetransmissions with a tick channel fed by the driver, and prints the observed
// retransmission schedule for the Coq model (Model/C17.v).
//
// Waiting is always on explicit conditions (probe counters, the ticker's handler count); a
// condition that is not reached within the budget makes the case inconclusive (retried once
// with 4x the budget, then skipped and counted), never a violation.
package main

import (
	"context"
	"fmt"
	"os"
	"regexp"
	"runtime"
	"strings"
	"sync"
	"sync/atomic"
	"time"

	golog "github.com/ipfs/go-log"
	"github.com/keep-network/keep-core/pkg/net"
	"github.com/keep-network/keep-core/pkg/net/retransmission"

	"verifharness/lib"
)

type step struct {
	K string `json:"k"` // seq | burst | gburst | cancel | dereg
	N int    `json:"n"`
}

type input struct {
	Strategy string `json:"strategy"` // "std" | "backoff" (fresh, real constructor) | "state"
	TC       uint64 `json:"tc"`
	Delay    uint64 `json:"delay"`
	RT       uint64 `json:"rt"`
	Script   []step `json:"script"`
	// registry history on ONE long-lived Ticker (Strategy == "registry")
	Hist []rop `json:"hist,omitempty"`
}

// one op of a registry history: "sched" registers a NEW message M (numbered 0,1,2,... in
// registration order) with strategy S ("std" | "backoff"); "cancel" ends message M's context;
// "tick" delivers one tick
type rop struct {
	K string `json:"k"`
	M int    `json:"m"`
	S string `json:"s,omitempty"`
}

// probe wraps the real strategy (an injected collaborator: ScheduleRetransmissions takes the
// Strategy interface) to expose when Tick calls start and finish.
type probe struct {
	inner   retransmission.Strategy
	started int64
	done    int64
}

func (p *probe) Tick(fn retransmission.RetransmitFn) error {
	atomic.AddInt64(&p.started, 1)
	err := p.inner.Tick(fn)
	atomic.AddInt64(&p.done, 1)
	return err
}

type inconclusive struct{ what string }

func waitFor(budget time.Duration, what string, cond func() bool) {
	deadline := time.Now().Add(budget)
	for i := 0; !cond(); i++ {
		if i%64 == 63 && time.Now().After(deadline) {
			panic(inconclusive{what})
		}
		runtime.Gosched()
	}
}

type obs struct {
	Coq []string
	Out []string
}

func runCase(in input, budget time.Duration) (o obs, incon string, pan string) {
	defer func() {
		if r := recover(); r != nil {
			if ic, ok := r.(inconclusive); ok {
				incon = ic.what
				return
			}
			pan = fmt.Sprint(r)
		}
	}()
	var strat retransmission.Strategy
	switch in.Strategy {
	case "std":
		strat = retransmission.WithStrategy(net.StandardRetransmissionStrategy)
	case "backoff":
		strat = retransmission.WithStrategy(net.BackoffRetransmissionStrategy)
	default:
		strat = retransmission.VerifNewBackoffStrategy(in.TC, in.Delay, in.RT)
	}
	p := &probe{inner: strat}
	ticks := make(chan uint64)
	ticker := retransmission.NewTicker(ticks)
	defer close(ticks)

	var retx, inCallback int64
	var gateMu sync.Mutex
	var gate chan struct{}
	retransmit := func() error {
		gateMu.Lock()
		g := gate
		gateMu.Unlock()
		if g != nil {
			atomic.AddInt64(&inCallback, 1)
			<-g
			atomic.AddInt64(&inCallback, -1)
		}
		atomic.AddInt64(&retx, 1)
		return nil
	}
	ctx, cancel := context.WithCancel(context.Background())
	defer cancel()
	retransmission.ScheduleRetransmissions(ctx, golog.Logger("verif-c17"), ticker, retransmit, p)
	waitFor(budget, "handler registration", func() bool { return ticker.VerifHandlerCount() == 1 })

	live := true
	var tickNo uint64
	send := func() { tickNo++; ticks <- tickNo }
	// settle gives goroutines that should not exist a chance to show up before a snapshot
	settle := func() {
		for i := 0; i < 300; i++ {
			runtime.Gosched()
		}
	}
	burst := func(kind string, n int) {
		c0, r0 := atomic.LoadInt64(&p.done), atomic.LoadInt64(&retx)
		if live {
			if kind == "gburst" {
				gateMu.Lock()
				gate = make(chan struct{})
				gateMu.Unlock()
			}
			for i := 0; i < n; i++ {
				send()
			}
			if kind == "gburst" {
				waitFor(budget, "gated burst", func() bool {
					return atomic.LoadInt64(&p.done)+atomic.LoadInt64(&inCallback) == c0+int64(n)
				})
				gateMu.Lock()
				close(gate)
				gate = nil
				gateMu.Unlock()
			}
			waitFor(budget, "burst goroutines", func() bool { return atomic.LoadInt64(&p.done) == c0+int64(n) })
		} else {
			// dead ticks: one extra tick flushes the ticker loop (a send returns only when the
			// loop has finished the previous tick); it is reported as part of the burst
			for i := 0; i < n+1; i++ {
				send()
			}
			n++
			settle()
		}
		dc, dr := atomic.LoadInt64(&p.started)-c0, atomic.LoadInt64(&retx)-r0
		o.Coq = append(o.Coq, fmt.Sprintf("SBurst %d %d %d", n, dc, dr))
		o.Out = append(o.Out, fmt.Sprintf("%s %d calls=%d retx=%d", kind, n, dc, dr))
	}
	for _, st := range in.Script {
		c0, r0 := atomic.LoadInt64(&p.done), atomic.LoadInt64(&retx)
		switch st.K {
		case "seq":
			if !live {
				burst("burst", st.N)
				continue
			}
			var fired []uint64
			for i := 1; i <= st.N; i++ {
				cb, rb := atomic.LoadInt64(&p.done), atomic.LoadInt64(&retx)
				send()
				waitFor(budget, "tick goroutine", func() bool { return atomic.LoadInt64(&p.done) == cb+1 })
				if atomic.LoadInt64(&retx) != rb {
					fired = append(fired, uint64(i))
				}
			}
			o.Coq = append(o.Coq, fmt.Sprintf("SSeq %d %s", st.N, lib.ListN(fired)))
			o.Out = append(o.Out, fmt.Sprintf("seq %d fired=%v", st.N, fired))
		case "burst", "gburst":
			burst(st.K, st.N)
		case "cancel":
			cancel()
			live = false
			settle()
			dc, dr := atomic.LoadInt64(&p.started)-c0, atomic.LoadInt64(&retx)-r0
			o.Coq = append(o.Coq, fmt.Sprintf("SCancel %d %d", dc, dr))
			o.Out = append(o.Out, fmt.Sprintf("cancel calls=%d retx=%d", dc, dr))
		case "dereg":
			n := ticker.VerifHandlerCount()
			o.Coq = append(o.Coq, fmt.Sprintf("SDereg %d", n))
			o.Out = append(o.Out, fmt.Sprintf("handlers=%d", n))
		}
	}
	// late arrivals after the last snapshot are charged to a final dead burst of 0 ticks
	settle()
	if !live {
		c0, r0 := atomic.LoadInt64(&p.done), atomic.LoadInt64(&retx)
		settle()
		dc, dr := atomic.LoadInt64(&p.started)-c0, atomic.LoadInt64(&retx)-r0
		o.Coq = append(o.Coq, fmt.Sprintf("SCancel %d %d", dc, dr))
		o.Out = append(o.Out, fmt.Sprintf("final calls=%d retx=%d", dc, dr))
	}
	return o, "", ""
}

// ---------- registry histories: ONE long-lived Ticker shared by many messages ----------
//
// Drained states are recognised from goroutine dumps, never from expected counts (a count the
// driver expects would make a message that silently stopped being ticked look like a case
// that is merely slow): the ticker goroutine is parked in `for range t.ticks` again (so the
// tick was handed to every handler it knows) and no goroutine created by
// ScheduleRetransmissions exists (neither a registration nor a per-tick Tick call).
var reGoroutine = regexp.MustCompile(`(?m)^goroutine (\d+) \[([^\]]*)\]:`)

type regDump struct {
	tickers    int // goroutines running Ticker.start
	tickerIdle bool
	spawned    int // goroutines created by ScheduleRetransmissions (registration or per-tick)
}

func regSnapshot() regDump {
	buf := make([]byte, 1<<16)
	for {
		n := runtime.Stack(buf, true)
		if n < len(buf) {
			buf = buf[:n]
			break
		}
		buf = make([]byte, 2*len(buf))
	}
	var d regDump
	for _, g := range strings.Split(string(buf), "\n\n") {
		m := reGoroutine.FindStringSubmatch(g)
		if m == nil {
			continue
		}
		body, created := g, ""
		if i := strings.Index(g, "created by "); i >= 0 {
			body, created = g[:i], g[i:]
		}
		if strings.Contains(created, "retransmission.ScheduleRetransmissions") {
			d.spawned++
			continue
		}
		if strings.Contains(body, "retransmission.(*Ticker).start") {
			d.tickers++
			d.tickerIdle = strings.HasPrefix(m[2], "chan receive")
		}
	}
	return d
}

func regDrain(budget time.Duration, what string) {
	waitFor(budget, what, func() bool {
		d := regSnapshot()
		return d.tickers == 1 && d.tickerIdle && d.spawned == 0
	})
}

type regObs struct {
	Logs     [][]uint64 `json:"logs"` // per message: tick numbers at which it was retransmitted
	Handlers int        `json:"handlers"`
}

func runRegistry(in input, budget time.Duration) (o regObs, incon string, pan string) {
	defer func() {
		if r := recover(); r != nil {
			if ic, ok := r.(inconclusive); ok {
				incon = ic.what
				return
			}
			pan = fmt.Sprint(r)
		}
	}()
	// no ticker of an earlier case may still be winding down
	waitFor(budget, "previous ticker gone", func() bool { return regSnapshot().tickers == 0 })
	ticks := make(chan uint64)
	ticker := retransmission.NewTicker(ticks)
	var cancels []context.CancelFunc
	defer func() {
		close(ticks)
		for _, c := range cancels {
			c()
		}
		for i := 0; regSnapshot().tickers != 0 && i < 1000000; i++ {
			runtime.Gosched()
		}
	}()
	regDrain(budget, "ticker start")
	var mu sync.Mutex
	var logs [][]uint64
	var tickNo uint64
	logger := golog.Logger("verif-c17")
	for _, op := range in.Hist {
		switch op.K {
		case "sched":
			ctx, cancel := context.WithCancel(context.Background())
			cancels = append(cancels, cancel)
			mu.Lock()
			m := len(logs)
			logs = append(logs, []uint64{})
			mu.Unlock()
			kind := net.StandardRetransmissionStrategy
			if op.S == "backoff" {
				kind = net.BackoffRetransmissionStrategy
			}
			retransmission.ScheduleRetransmissions(ctx, logger, ticker, func() error {
				mu.Lock()
				logs[m] = append(logs[m], atomic.LoadUint64(&tickNo))
				mu.Unlock()
				return nil
			}, retransmission.WithStrategy(kind))
			regDrain(budget, "registration")
		case "cancel":
			if op.M >= 0 && op.M < len(cancels) {
				cancels[op.M]()
			}
		case "tick":
			n := atomic.AddUint64(&tickNo, 1)
			ticks <- n
			regDrain(budget, "tick")
		}
	}
	mu.Lock()
	for _, l := range logs {
		o.Logs = append(o.Logs, append([]uint64{}, l...))
	}
	mu.Unlock()
	o.Handlers = ticker.VerifHandlerCount()
	return o, "", ""
}

func runRegistryCase(in input, em *lib.Emitter, id string) {
	budget := 60 * time.Second
	o, incon, pan := runRegistry(in, budget)
	if incon != "" {
		o, incon, pan = runRegistry(in, 4*budget)
		if incon != "" {
			nIncon++
			em.Tally("inconclusive-" + incon)
			return
		}
	}
	ops := make([]string, 0, len(in.Hist))
	nMsg, nTicks, nCancel := 0, 0, 0
	// churn: a registration made after a tick that followed the cancellation of an earlier
	// message, while a later-registered message is still live
	live := map[int]bool{}
	cancelledThenTicked, pendingCancel, churn := false, false, false
	for _, op := range in.Hist {
		switch op.K {
		case "sched":
			st := "Std"
			if op.S == "backoff" {
				st = "(Back {| tc := 0; delay := 1; rt := 1 |})"
			}
			ops = append(ops, fmt.Sprintf("RSchedule %d %s", nMsg, st))
			if cancelledThenTicked && len(live) > 0 {
				churn = true
			}
			live[nMsg] = true
			nMsg++
		case "cancel":
			ops = append(ops, fmt.Sprintf("RCancel %d", op.M))
			if live[op.M] {
				delete(live, op.M)
				pendingCancel = true
			}
			nCancel++
		case "tick":
			ops = append(ops, "RTick")
			nTicks++
			if pendingCancel {
				cancelledThenTicked = true
			}
		}
	}
	logs := make([]string, len(o.Logs))
	for i, l := range o.Logs {
		logs[i] = lib.Pair(fmt.Sprint(i), lib.ListN(l))
	}
	term := fmt.Sprintf("(CReg %s %s %d)", lib.List(ops), lib.List(logs), o.Handlers)
	out := map[string]interface{}{"logs": o.Logs, "handlers": o.Handlers}
	if pan != "" {
		term = "(CReg [RTick] [] 99)" // a panic is not an outcome the model has
		out["panic"] = pan
	}
	em.Tally("registry")
	em.Tally(fmt.Sprintf("registry-messages-%s", bucket(nMsg)))
	if churn {
		em.Tally("registry-with-churn")
	}
	em.Case(lib.Case{
		ID:         id,
		Coq:        term,
		Key:        fmt.Sprintf("registry|%v", in.Hist),
		Nontrivial: nMsg >= 2 && nTicks >= 3 && churn,
		Sig:        map[string]interface{}{"strategy": "registry", "churn": churn, "cancel": nCancel > 0},
		In:         in,
		Out:        out,
	})
}

// genRegistry builds a history with churn: messages come and go on one ticker, ticks pass
// between a cancellation and the next registration, long-lived messages stay.
func genRegistry(r *lib.Rng, maxOps int) []rop {
	var h []rop
	n := 0
	var live []int
	strat := func() string {
		if r.Bool() {
			return "backoff"
		}
		return "std"
	}
	for k := r.Range(1, 3); k > 0; k-- {
		h = append(h, rop{K: "sched", M: n, S: strat()})
		live = append(live, n)
		n++
	}
	for len(h) < maxOps {
		switch r.Intn(10) {
		case 0, 1:
			h = append(h, rop{K: "sched", M: n, S: strat()})
			live = append(live, n)
			n++
		case 2, 3:
			if len(live) > 0 {
				// mostly an EARLIER-registered message ends (the later ones stay live)
				i := 0
				if r.Chance(1, 3) {
					i = r.Intn(len(live))
				}
				h = append(h, rop{K: "cancel", M: live[i]})
				live = append(live[:i], live[i+1:]...)
				if r.Chance(2, 3) {
					h = append(h, rop{K: "tick"})
					if r.Chance(1, 2) {
						h = append(h, rop{K: "sched", M: n, S: strat()})
						live = append(live, n)
						n++
					}
				}
			}
		case 4:
			if n > 0 && r.Chance(1, 3) { // cancel again / cancel a message that is long gone
				h = append(h, rop{K: "cancel", M: r.Intn(n)})
				for i, m := range live {
					if m == h[len(h)-1].M {
						live = append(live[:i], live[i+1:]...)
						break
					}
				}
			}
		default:
			for k := r.Range(1, 4); k > 0; k-- {
				h = append(h, rop{K: "tick"})
			}
		}
	}
	for k := r.Range(2, 8); k > 0; k-- {
		h = append(h, rop{K: "tick"})
	}
	return h
}

func stratTerm(in input) string {
	switch in.Strategy {
	case "std":
		return "Std"
	case "backoff":
		return "(Back {| tc := 0; delay := 1; rt := 1 |})"
	}
	return fmt.Sprintf("(Back {| tc := %d; delay := %d; rt := %d |})", in.TC, in.Delay, in.RT)
}

var nIncon int

func run(in input, em *lib.Emitter, id string) {
	if in.Strategy == "registry" {
		runRegistryCase(in, em, id)
		return
	}
	budget := 20 * time.Second
	o, incon, pan := runCase(in, budget)
	if incon != "" {
		o, incon, pan = runCase(in, 4*budget)
		if incon != "" {
			nIncon++
			em.Tally("inconclusive-" + incon)
			return
		}
	}
	script := lib.List(o.Coq)
	if pan != "" {
		// a panic is not an outcome the model has: an impossible observation
		script = "[SDereg 99]"
		o.Out = append(o.Out, "panic: "+pan)
	}
	ticks, hasCancel, hasBurst, deadTicks := 0, false, false, 0
	for _, s := range in.Script {
		switch s.K {
		case "seq", "burst", "gburst":
			ticks += s.N
			if hasCancel {
				deadTicks += s.N
			}
			if s.K != "seq" {
				hasBurst = true
			}
		case "cancel":
			hasCancel = true
		}
	}
	em.Tally("strategy-" + in.Strategy)
	if hasCancel {
		em.Tally("with-cancel")
	}
	if hasBurst {
		em.Tally("with-overlap")
	}
	em.Tally(fmt.Sprintf("ticks-%s", bucket(ticks)))
	em.Case(lib.Case{
		ID:         id,
		Coq:        fmt.Sprintf("(COne {| c_strategy := %s; c_script := %s |})", stratTerm(in), script),
		Key:        fmt.Sprintf("%s|%d|%d|%d|%v", in.Strategy, in.TC, in.Delay, in.RT, in.Script),
		Nontrivial: ticks >= 3 && (in.Strategy != "std" || deadTicks > 0),
		Sig:        map[string]interface{}{"strategy": in.Strategy, "cancel": hasCancel, "overlap": hasBurst},
		In:         in,
		Out:        o.Out,
	})
}

func bucket(n int) string {
	switch {
	case n < 10:
		return "000-009"
	case n < 100:
		return "010-099"
	case n < 1000:
		return "100-999"
	}
	return "1000+"
}

func sched(n uint) uint64 { return (uint64(1) << (n - 1)) + uint64(n) - 1 }

// a state the strategy really reaches: before the n-th retransmission, off ticks before it
func reachable(n uint, r *lib.Rng) input {
	lo := uint64(0)
	if n > 1 {
		lo = sched(n - 1)
	}
	hi := sched(n) - 1
	tc := hi
	if hi > lo {
		span := hi - lo
		if span > 6 && r.Chance(3, 4) {
			tc = hi - uint64(r.Intn(6))
		} else {
			tc = lo + r.U64()%(span+1)
		}
	}
	return input{Strategy: "state", TC: tc, Delay: uint64(1) << (n - 1), RT: sched(n)}
}

func randScript(r *lib.Rng, maxTicks int) []step {
	var sc []step
	n := r.Range(1, 7)
	cancelled := false
	for i := 0; i < n; i++ {
		switch r.Intn(8) {
		case 0, 1, 2:
			sc = append(sc, step{"seq", r.Range(1, maxTicks)})
		case 3:
			sc = append(sc, step{"burst", r.Range(1, 40)})
		case 4:
			sc = append(sc, step{"gburst", r.Range(2, 40)})
		case 5:
			sc = append(sc, step{"dereg", 0})
		default:
			if !cancelled && r.Chance(1, 2) {
				sc = append(sc, step{"cancel", 0})
				cancelled = true
				maxTicks = 6
			} else {
				sc = append(sc, step{"seq", r.Range(1, 12)})
			}
		}
	}
	if cancelled {
		sc = append(sc, step{"burst", r.Range(1, 5)}, step{"dereg", 0})
	}
	return sc
}

func main() {
	lib.SilenceLogs()
	o := lib.ParseOpts()
	em := lib.NewEmitter()
	if o.Replay != "" {
		var in input
		if err := lib.LoadReplay(o.Replay, &in); err != nil {
			fmt.Fprintln(os.Stderr, err)
			os.Exit(2)
		}
		run(in, em, "replay")
		em.Close("replay", nil)
		return
	}
	rng := lib.NewRng(o.Seed)

	// --- corpus
	run(input{Strategy: "backoff", Script: []step{{"seq", 40}}}, em, "corpus-backoff-40")
	// the witness of the repaired defect: overlapping ticks on a fresh backoff strategy
	run(input{Strategy: "backoff", Script: []step{{"gburst", 2}, {"seq", 10}}}, em, "corpus-overlap-2")
	run(input{Strategy: "backoff", Script: []step{{"seq", 2}, {"gburst", 2}, {"seq", 8}}}, em, "corpus-overlap-3-4")
	for i := 0; i < 20; i++ {
		run(input{Strategy: "backoff", Script: []step{{"burst", 100}, {"seq", 1}}}, em, fmt.Sprintf("corpus-burst-100-%d", i))
	}
	run(input{Strategy: "std", Script: []step{{"seq", 10}, {"cancel", 0}, {"burst", 5}, {"dereg", 0}}}, em, "corpus-std-cancel")
	run(input{Strategy: "backoff", Script: []step{{"seq", 5}, {"dereg", 0}, {"cancel", 0}, {"dereg", 0}, {"burst", 4}, {"dereg", 0}, {"seq", 3}}}, em, "corpus-backoff-cancel")
	run(input{Strategy: "state", TC: sched(40) - 2, Delay: 1 << 39, RT: sched(40), Script: []step{{"seq", 5}}}, em, "corpus-deep-40")
	run(input{Strategy: "state", TC: 1<<64 - 2, Delay: 1 << 63, RT: 0, Script: []step{{"seq", 4}}}, em, "corpus-wrap")
	run(input{Strategy: "backoff", Script: []step{{"seq", 2100}}}, em, "corpus-backoff-2100")

	// --- small scope, exhaustive: fresh strategies, a live ticks then b overlapping then cancel then c dead
	for _, s := range []string{"std", "backoff"} {
		for a := 0; a <= 4; a++ {
			for b := 0; b <= 3; b++ {
				for c := 0; c <= 1; c++ {
					if o.Tier == "quick" && (a+b+c)%2 == 1 {
						continue
					}
					var sc []step
					if a > 0 {
						sc = append(sc, step{"seq", a})
					}
					if b > 0 {
						sc = append(sc, step{"gburst", b})
					}
					sc = append(sc, step{"cancel", 0})
					if c > 0 {
						sc = append(sc, step{"seq", c})
					}
					sc = append(sc, step{"burst", 1}, step{"dereg", 0})
					run(input{Strategy: s, Script: sc}, em, fmt.Sprintf("small-%s-%d-%d-%d", s, a, b, c))
				}
			}
		}
	}

	// --- registry histories on ONE long-lived ticker
	T, S, B, C := rop{K: "tick"}, func(m int) rop { return rop{K: "sched", M: m, S: "std"} },
		func(m int) rop { return rop{K: "sched", M: m, S: "backoff"} }, func(m int) rop { return rop{K: "cancel", M: m} }
	regCorpus := [][]rop{
		// an earlier message ends, a tick passes, a new one is registered while a later one is live
		{S(0), S(1), T, T, C(0), T, S(2), T, T, T, T, T, T, T, T, T},
		{S(0), B(1), T, T, C(0), T, S(2), T, T, T, T, T, T, T, T, T},
		{B(0), B(1), B(2), T, C(0), C(1), T, S(3), B(4), T, T, T, T, T, T, T, T, T, T, T},
		{S(0), C(0), T, S(1), T, C(1), T, S(2), T, T},
		{S(0), T, C(0), C(0), T, T},
		{T, T, B(0), T, T, T, T, T, T, C(0), T},
		{C(0), S(0), T},
	}
	for i, h := range regCorpus {
		run(input{Strategy: "registry", Hist: h}, em, fmt.Sprintf("registry-corpus-%02d", i))
	}
	// small scope: two messages, the first ends after a ticks, b ticks pass, a third is
	// registered, c more ticks (every strategy assignment)
	for a := 0; a <= 2; a++ {
		for b := 0; b <= 2; b++ {
			for mask := 0; mask < 8; mask++ {
				if o.Tier == "quick" && (a+b+mask)%3 != 0 {
					continue
				}
				mk := func(i, m int) rop {
					if mask&(1<<uint(i)) != 0 {
						return B(m)
					}
					return S(m)
				}
				h := []rop{mk(0, 0), mk(1, 1)}
				for i := 0; i < a; i++ {
					h = append(h, T)
				}
				h = append(h, C(0))
				for i := 0; i < b; i++ {
					h = append(h, T)
				}
				h = append(h, mk(2, 2), T, T, T, T, T, T)
				run(input{Strategy: "registry", Hist: h}, em, fmt.Sprintf("registry-small-%d-%d-%d", a, b, mask))
			}
		}
	}
	nReg := o.Count(120, 1500)
	for i := 0; i < nReg; i++ {
		r := rng.Fork(fmt.Sprintf("reg%d", i))
		maxOps := r.Range(6, 40)
		if r.Chance(1, 10) {
			maxOps = r.Range(40, 150)
		}
		run(input{Strategy: "registry", Hist: genRegistry(r, maxOps)}, em, fmt.Sprintf("registry-%d", i))
	}

	// --- random
	n := o.Count(260, 4000)
	for i := 0; i < n; i++ {
		r := rng.Fork(fmt.Sprintf("rand%d", i))
		var in input
		switch r.Intn(10) {
		case 0, 1:
			in = input{Strategy: "std"}
		case 2, 3, 4:
			in = input{Strategy: "backoff"}
		case 5, 6, 7, 8:
			in = reachable(uint(r.Range(1, 62)), r)
		default: // counters no run reaches, incl. the wrap-around region
			in = input{Strategy: "state", TC: r.U64(), Delay: r.U64(), RT: r.U64()}
			if r.Bool() {
				in.TC = ^uint64(0) - uint64(r.Intn(4))
				in.RT = uint64(r.Intn(4))
			}
			if r.Bool() {
				in.Delay = uint64(1) << uint(r.Range(60, 63))
				in.RT = in.TC + uint64(r.Range(1, 4))
			}
		}
		maxTicks := 60
		if r.Chance(1, 12) {
			maxTicks = 1500
		}
		in.Script = randScript(r, maxTicks)
		run(in, em, fmt.Sprintf("rand-%d", i))
	}
	if nIncon > 0 && em != nil {
		fmt.Fprintf(os.Stderr, "c17: %d inconclusive cases skipped\n", nIncon)
	}
	em.Close("a case is one ScheduleRetransmissions registration on a real Ticker driven through a script of "+
		"sequential ticks, overlapping bursts (callbacks gated so that Tick calls overlap), a cancellation and dead ticks; "+
		"distinct by (strategy, initial counters, script); non-trivial when it has >= 3 ticks and is a backoff schedule "+
		"or has ticks after the cancellation; or one history of registrations, cancellations and ticks on ONE long-lived "+
		"Ticker (per message the tick numbers at which it was retransmitted), non-trivial when a message is registered "+
		"after a tick that followed an earlier message's cancellation while another message is live", map[string]interface{}{"inconclusive": nIncon})
}
