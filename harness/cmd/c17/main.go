// Driver for C17: runs the real retransmission strategies behind the real Ticker and
// ScheduleRetransmissions with a tick channel fed by the driver, and prints the observed
// retransmission schedule for the Coq model (Model/C17.v).
//
// Waiting is always on explicit conditions (probe counters, the ticker's handler count); a
// condition that is not reached within the budget makes the case inconclusive (retried once
// with 4x the budget, then skipped and counted), never a violation.
package main

import (
	"context"
	"fmt"
	"os"
	"runtime"
	"sync"
	"sync/atomic"
	"time"

	golog "github.com/ipfs/go-log"
	"github.com/keep-network/keep-core/pkg/net"
	"github.com/keep-network/keep-core/pkg/net/retransmission"

	"verifharness/lib"
)

type step struct {
	K string `json:"k"` // seq | burst | gburst | cancel | dereg
	N int    `json:"n"`
}

type input struct {
	Strategy string `json:"strategy"` // "std" | "backoff" (fresh, real constructor) | "state"
	TC       uint64 `json:"tc"`
	Delay    uint64 `json:"delay"`
	RT       uint64 `json:"rt"`
	Script   []step `json:"script"`
}

// probe wraps the real strategy (an injected collaborator: ScheduleRetransmissions takes the
// Strategy interface) to expose when Tick calls start and finish.
type probe struct {
	inner   retransmission.Strategy
	started int64
	done    int64
}

func (p *probe) Tick(fn retransmission.RetransmitFn) error {
	atomic.AddInt64(&p.started, 1)
	err := p.inner.Tick(fn)
	atomic.AddInt64(&p.done, 1)
	return err
}

type inconclusive struct{ what string }

func waitFor(budget time.Duration, what string, cond func() bool) {
	deadline := time.Now().Add(budget)
	for i := 0; !cond(); i++ {
		if i%64 == 63 && time.Now().After(deadline) {
			panic(inconclusive{what})
		}
		runtime.Gosched()
	}
}

type obs struct {
	Coq []string
	Out []string
}

func runCase(in input, budget time.Duration) (o obs, incon string, pan string) {
	defer func() {
		if r := recover(); r != nil {
			if ic, ok := r.(inconclusive); ok {
				incon = ic.what
				return
			}
			pan = fmt.Sprint(r)
		}
	}()
	var strat retransmission.Strategy
	switch in.Strategy {
	case "std":
		strat = retransmission.WithStrategy(net.StandardRetransmissionStrategy)
	case "backoff":
		strat = retransmission.WithStrategy(net.BackoffRetransmissionStrategy)
	default:
		strat = retransmission.VerifNewBackoffStrategy(in.TC, in.Delay, in.RT)
	}
	p := &probe{inner: strat}
	ticks := make(chan uint64)
	ticker := retransmission.NewTicker(ticks)
	defer close(ticks)

	var retx, inCallback int64
	var gateMu sync.Mutex
	var gate chan struct{}
	retransmit := func() error {
		gateMu.Lock()
		g := gate
		gateMu.Unlock()
		if g != nil {
			atomic.AddInt64(&inCallback, 1)
			<-g
			atomic.AddInt64(&inCallback, -1)
		}
		atomic.AddInt64(&retx, 1)
		return nil
	}
	ctx, cancel := context.WithCancel(context.Background())
	defer cancel()
	retransmission.ScheduleRetransmissions(ctx, golog.Logger("verif-c17"), ticker, retransmit, p)
	waitFor(budget, "handler registration", func() bool { return ticker.VerifHandlerCount() == 1 })

	live := true
	var tickNo uint64
	send := func() { tickNo++; ticks <- tickNo }
	// settle gives goroutines that should not exist a chance to show up before a snapshot
	settle := func() {
		for i := 0; i < 300; i++ {
			runtime.Gosched()
		}
	}
	burst := func(kind string, n int) {
		c0, r0 := atomic.LoadInt64(&p.done), atomic.LoadInt64(&retx)
		if live {
			if kind == "gburst" {
				gateMu.Lock()
				gate = make(chan struct{})
				gateMu.Unlock()
			}
			for i := 0; i < n; i++ {
				send()
			}
			if kind == "gburst" {
				waitFor(budget, "gated burst", func() bool {
					return atomic.LoadInt64(&p.done)+atomic.LoadInt64(&inCallback) == c0+int64(n)
				})
				gateMu.Lock()
				close(gate)
				gate = nil
				gateMu.Unlock()
			}
			waitFor(budget, "burst goroutines", func() bool { return atomic.LoadInt64(&p.done) == c0+int64(n) })
		} else {
			// dead ticks: one extra tick flushes the ticker loop (a send returns only when the
			// loop has finished the previous tick); it is reported as part of the burst
			for i := 0; i < n+1; i++ {
				send()
			}
			n++
			settle()
		}
		dc, dr := atomic.LoadInt64(&p.started)-c0, atomic.LoadInt64(&retx)-r0
		o.Coq = append(o.Coq, fmt.Sprintf("SBurst %d %d %d", n, dc, dr))
		o.Out = append(o.Out, fmt.Sprintf("%s %d calls=%d retx=%d", kind, n, dc, dr))
	}
	for _, st := range in.Script {
		c0, r0 := atomic.LoadInt64(&p.done), atomic.LoadInt64(&retx)
		switch st.K {
		case "seq":
			if !live {
				burst("burst", st.N)
				continue
			}
			var fired []uint64
			for i := 1; i <= st.N; i++ {
				cb, rb := atomic.LoadInt64(&p.done), atomic.LoadInt64(&retx)
				send()
				waitFor(budget, "tick goroutine", func() bool { return atomic.LoadInt64(&p.done) == cb+1 })
				if atomic.LoadInt64(&retx) != rb {
					fired = append(fired, uint64(i))
				}
			}
			o.Coq = append(o.Coq, fmt.Sprintf("SSeq %d %s", st.N, lib.ListN(fired)))
			o.Out = append(o.Out, fmt.Sprintf("seq %d fired=%v", st.N, fired))
		case "burst", "gburst":
			burst(st.K, st.N)
		case "cancel":
			cancel()
			live = false
			settle()
			dc, dr := atomic.LoadInt64(&p.started)-c0, atomic.LoadInt64(&retx)-r0
			o.Coq = append(o.Coq, fmt.Sprintf("SCancel %d %d", dc, dr))
			o.Out = append(o.Out, fmt.Sprintf("cancel calls=%d retx=%d", dc, dr))
		case "dereg":
			n := ticker.VerifHandlerCount()
			o.Coq = append(o.Coq, fmt.Sprintf("SDereg %d", n))
			o.Out = append(o.Out, fmt.Sprintf("handlers=%d", n))
		}
	}
	// late arrivals after the last snapshot are charged to a final dead burst of 0 ticks
	settle()
	if !live {
		c0, r0 := atomic.LoadInt64(&p.done), atomic.LoadInt64(&retx)
		settle()
		dc, dr := atomic.LoadInt64(&p.started)-c0, atomic.LoadInt64(&retx)-r0
		o.Coq = append(o.Coq, fmt.Sprintf("SCancel %d %d", dc, dr))
		o.Out = append(o.Out, fmt.Sprintf("final calls=%d retx=%d", dc, dr))
	}
	return o, "", ""
}

func stratTerm(in input) string {
	switch in.Strategy {
	case "std":
		return "Std"
	case "backoff":
		return "(Back {| tc := 0; delay := 1; rt := 1 |})"
	}
	return fmt.Sprintf("(Back {| tc := %d; delay := %d; rt := %d |})", in.TC, in.Delay, in.RT)
}

var nIncon int

func run(in input, em *lib.Emitter, id string) {
	budget := 20 * time.Second
	o, incon, pan := runCase(in, budget)
	if incon != "" {
		o, incon, pan = runCase(in, 4*budget)
		if incon != "" {
			nIncon++
			em.Tally("inconclusive-" + incon)
			return
		}
	}
	script := lib.List(o.Coq)
	if pan != "" {
		// a panic is not an outcome the model has: an impossible observation
		script = "[SDereg 99]"
		o.Out = append(o.Out, "panic: "+pan)
	}
	ticks, hasCancel, hasBurst, deadTicks := 0, false, false, 0
	for _, s := range in.Script {
		switch s.K {
		case "seq", "burst", "gburst":
			ticks += s.N
			if hasCancel {
				deadTicks += s.N
			}
			if s.K != "seq" {
				hasBurst = true
			}
		case "cancel":
			hasCancel = true
		}
	}
	em.Tally("strategy-" + in.Strategy)
	if hasCancel {
		em.Tally("with-cancel")
	}
	if hasBurst {
		em.Tally("with-overlap")
	}
	em.Tally(fmt.Sprintf("ticks-%s", bucket(ticks)))
	em.Case(lib.Case{
		ID:         id,
		Coq:        fmt.Sprintf("{| c_strategy := %s; c_script := %s |}", stratTerm(in), script),
		Key:        fmt.Sprintf("%s|%d|%d|%d|%v", in.Strategy, in.TC, in.Delay, in.RT, in.Script),
		Nontrivial: ticks >= 3 && (in.Strategy != "std" || deadTicks > 0),
		Sig:        map[string]interface{}{"strategy": in.Strategy, "cancel": hasCancel, "overlap": hasBurst},
		In:         in,
		Out:        o.Out,
	})
}

func bucket(n int) string {
	switch {
	case n < 10:
		return "000-009"
	case n < 100:
		return "010-099"
	case n < 1000:
		return "100-999"
	}
	return "1000+"
}

func sched(n uint) uint64 { return (uint64(1) << (n - 1)) + uint64(n) - 1 }

// a state the strategy really reaches: before the n-th retransmission, off ticks before it
func reachable(n uint, r *lib.Rng) input {
	lo := uint64(0)
	if n > 1 {
		lo = sched(n - 1)
	}
	hi := sched(n) - 1
	tc := hi
	if hi > lo {
		span := hi - lo
		if span > 6 && r.Chance(3, 4) {
			tc = hi - uint64(r.Intn(6))
		} else {
			tc = lo + r.U64()%(span+1)
		}
	}
	return input{Strategy: "state", TC: tc, Delay: uint64(1) << (n - 1), RT: sched(n)}
}

func randScript(r *lib.Rng, maxTicks int) []step {
	var sc []step
	n := r.Range(1, 7)
	cancelled := false
	for i := 0; i < n; i++ {
		switch r.Intn(8) {
		case 0, 1, 2:
			sc = append(sc, step{"seq", r.Range(1, maxTicks)})
		case 3:
			sc = append(sc, step{"burst", r.Range(1, 40)})
		case 4:
			sc = append(sc, step{"gburst", r.Range(2, 40)})
		case 5:
			sc = append(sc, step{"dereg", 0})
		default:
			if !cancelled && r.Chance(1, 2) {
				sc = append(sc, step{"cancel", 0})
				cancelled = true
				maxTicks = 6
			} else {
				sc = append(sc, step{"seq", r.Range(1, 12)})
			}
		}
	}
	if cancelled {
		sc = append(sc, step{"burst", r.Range(1, 5)}, step{"dereg", 0})
	}
	return sc
}

func main() {
	lib.SilenceLogs()
	o := lib.ParseOpts()
	em := lib.NewEmitter()
	if o.Replay != "" {
		var in input
		if err := lib.LoadReplay(o.Replay, &in); err != nil {
			fmt.Fprintln(os.Stderr, err)
			os.Exit(2)
		}
		run(in, em, "replay")
		em.Close("replay", nil)
		return
	}
	rng := lib.NewRng(o.Seed)

	// --- corpus
	run(input{Strategy: "backoff", Script: []step{{"seq", 40}}}, em, "corpus-backoff-40")
	// the witness of the repaired defect: overlapping ticks on a fresh backoff strategy
	run(input{Strategy: "backoff", Script: []step{{"gburst", 2}, {"seq", 10}}}, em, "corpus-overlap-2")
	run(input{Strategy: "backoff", Script: []step{{"seq", 2}, {"gburst", 2}, {"seq", 8}}}, em, "corpus-overlap-3-4")
	for i := 0; i < 20; i++ {
		run(input{Strategy: "backoff", Script: []step{{"burst", 100}, {"seq", 1}}}, em, fmt.Sprintf("corpus-burst-100-%d", i))
	}
	run(input{Strategy: "std", Script: []step{{"seq", 10}, {"cancel", 0}, {"burst", 5}, {"dereg", 0}}}, em, "corpus-std-cancel")
	run(input{Strategy: "backoff", Script: []step{{"seq", 5}, {"dereg", 0}, {"cancel", 0}, {"dereg", 0}, {"burst", 4}, {"dereg", 0}, {"seq", 3}}}, em, "corpus-backoff-cancel")
	run(input{Strategy: "state", TC: sched(40) - 2, Delay: 1 << 39, RT: sched(40), Script: []step{{"seq", 5}}}, em, "corpus-deep-40")
	run(input{Strategy: "state", TC: 1<<64 - 2, Delay: 1 << 63, RT: 0, Script: []step{{"seq", 4}}}, em, "corpus-wrap")
	run(input{Strategy: "backoff", Script: []step{{"seq", 2100}}}, em, "corpus-backoff-2100")

	// --- small scope, exhaustive: fresh strategies, a live ticks then b overlapping then cancel then c dead
	for _, s := range []string{"std", "backoff"} {
		for a := 0; a <= 4; a++ {
			for b := 0; b <= 3; b++ {
				for c := 0; c <= 1; c++ {
					if o.Tier == "quick" && (a+b+c)%2 == 1 {
						continue
					}
					var sc []step
					if a > 0 {
						sc = append(sc, step{"seq", a})
					}
					if b > 0 {
						sc = append(sc, step{"gburst", b})
					}
					sc = append(sc, step{"cancel", 0})
					if c > 0 {
						sc = append(sc, step{"seq", c})
					}
					sc = append(sc, step{"burst", 1}, step{"dereg", 0})
					run(input{Strategy: s, Script: sc}, em, fmt.Sprintf("small-%s-%d-%d-%d", s, a, b, c))
				}
			}
		}
	}

	// --- random
	n := o.Count(260, 4000)
	for i := 0; i < n; i++ {
		r := rng.Fork(fmt.Sprintf("rand%d", i))
		var in input
		switch r.Intn(10) {
		case 0, 1:
			in = input{Strategy: "std"}
		case 2, 3, 4:
			in = input{Strategy: "backoff"}
		case 5, 6, 7, 8:
			in = reachable(uint(r.Range(1, 62)), r)
		default: // counters no run reaches, incl. the wrap-around region
			in = input{Strategy: "state", TC: r.U64(), Delay: r.U64(), RT: r.U64()}
			if r.Bool() {
				in.TC = ^uint64(0) - uint64(r.Intn(4))
				in.RT = uint64(r.Intn(4))
			}
			if r.Bool() {
				in.Delay = uint64(1) << uint(r.Range(60, 63))
				in.RT = in.TC + uint64(r.Range(1, 4))
			}
		}
		maxTicks := 60
		if r.Chance(1, 12) {
			maxTicks = 1500
		}
		in.Script = randScript(r, maxTicks)
		run(in, em, fmt.Sprintf("rand-%d", i))
	}
	if nIncon > 0 && em != nil {
		fmt.Fprintf(os.Stderr, "c17: %d inconclusive cases skipped\n", nIncon)
	}
	em.Close("a case is one ScheduleRetransmissions registration on a real Ticker driven through a script of "+
		"sequential ticks, overlapping bursts (callbacks gated so that Tick calls overlap), a cancellation and dead ticks; "+
		"distinct by (strategy, initial counters, script); non-trivial when it has >= 3 ticks and is a backoff schedule "+
		"or has ticks after the cancellation", map[string]interface{}{"inconclusive": nIncon})
}
