// Driver for C13: feeds histories of signature messages to the real result / claim publication
// states (beacon DKG result, tECDSA DKG result, inactivity claim), runs the real verification and
// the real submitters (beacon SubmittingMember, tbtc dkgResultSubmitter / inactivityClaimSubmitter)
// against a recording chain, and reports the support map and what reached the chain.
// Signatures come from a stub signer in which validity is a tagged bit (fk.Signer).
package main

import (
	"context"
	"crypto/ecdsa"
	"fmt"
	"math/big"
	"os"
	"sort"

	"github.com/bnb-chain/tss-lib/crypto"
	"github.com/bnb-chain/tss-lib/ecdsa/keygen"
	"github.com/keep-network/keep-core/pkg/subscription"

	beaconchain "github.com/keep-network/keep-core/pkg/beacon/chain"
	"github.com/keep-network/keep-core/pkg/beacon/dkg/result"
	"github.com/keep-network/keep-core/pkg/beacon/event"
	"github.com/keep-network/keep-core/pkg/chain"
	"github.com/keep-network/keep-core/pkg/protocol/group"
	"github.com/keep-network/keep-core/pkg/protocol/inactivity"
	"github.com/keep-network/keep-core/pkg/tbtc"
	"github.com/keep-network/keep-core/pkg/tecdsa"
	tdkg "github.com/keep-network/keep-core/pkg/tecdsa/dkg"

	"verifharness/cmd/c12/fk"
	"verifharness/lib"
)

type rawIn struct {
	Idx         int  `json:"idx"`     // claimed member index
	Key         int  `json:"key"`     // operator id of the network key that sends the message
	PubKey      int  `json:"pubkey"`  // operator id of the key named inside the message
	Hash        int  `json:"hash"`    // supported hash (< 4095)
	SigKey      int  `json:"sig_key"` // the signature is (SigKey, SigHash, SigOK)
	SigHash     int  `json:"sig_hash"`
	SigOK       bool `json:"sig_ok"`
	SameSession bool `json:"same_session"`
}

type input struct {
	Proto  string  `json:"proto"` // beacon | tecdsa | inactivity
	Ops    []int   `json:"ops"`
	Self   int     `json:"self"`
	IA     []int   `json:"ia"`
	DQ     []int   `json:"dq"`
	Pref   int     `json:"pref"` // the receiver's own hash
	Raws   []rawIn `json:"raws"`
	Honest int     `json:"honest"`
	Quorum int     `json:"quorum"`
	EnvOK  bool    `json:"env_ok"` // nobody has submitted yet
}

const (
	sessSame  = 7
	sessOther = 8
)

func sessionStr(v int) string { return fmt.Sprintf("session-%d", v) }

// ---------------------------------------------------------------- recording chains

type blockCounter struct{}

func (blockCounter) WaitForBlockHeight(uint64) error { return nil }
func (blockCounter) BlockHeightWaiter(h uint64) (<-chan uint64, error) {
	c := make(chan uint64, 1)
	c <- h
	return c, nil
}
func (blockCounter) CurrentBlock() (uint64, error)             { return 100, nil }
func (blockCounter) WatchBlocks(context.Context) <-chan uint64 { return make(chan uint64) }

type record struct {
	submitted bool
	sigs      map[group.MemberIndex][]byte
}

type beaconChain struct {
	beaconchain.Interface
	signer *fk.Signer
	cfg    *beaconchain.Config
	pref   int
	envOK  bool
	rec    *record
}

func (c *beaconChain) GetConfig() *beaconchain.Config { return c.cfg }
func (c *beaconChain) Signing() chain.Signing         { return c.signer }
func (c *beaconChain) CalculateDKGResultHash(*beaconchain.DKGResult) (beaconchain.DKGResultHash, error) {
	return beaconchain.DKGResultHash(fk.Hash32(c.pref)), nil
}
func (c *beaconChain) OnDKGResultSubmitted(func(*event.DKGResultSubmission)) subscription.EventSubscription {
	return subscription.NewEventSubscription(func() {})
}
func (c *beaconChain) IsGroupRegistered([]byte) (bool, error) { return !c.envOK, nil }
func (c *beaconChain) SubmitDKGResult(_ beaconchain.GroupMemberIndex, _ *beaconchain.DKGResult,
	signatures map[beaconchain.GroupMemberIndex][]byte) error {
	c.rec.submitted = true
	c.rec.sigs = signatures
	return nil
}

type tbtcChain struct {
	tbtc.Chain
	signer *fk.Signer
	pref   int
	envOK  bool
	rec    *record
}

func (c *tbtcChain) Signing() chain.Signing                    { return c.signer }
func (c *tbtcChain) BlockCounter() (chain.BlockCounter, error) { return blockCounter{}, nil }
func (c *tbtcChain) CalculateDKGResultSignatureHash(*ecdsa.PublicKey, []group.MemberIndex, uint64) (tdkg.ResultSignatureHash, error) {
	return tdkg.ResultSignatureHash(fk.Hash32(c.pref)), nil
}
func (c *tbtcChain) GetDKGState() (tbtc.DKGState, error) {
	if c.envOK {
		return tbtc.AwaitingResult, nil
	}
	return tbtc.Idle, nil
}
func (c *tbtcChain) AssembleDKGResult(_ group.MemberIndex, _ *ecdsa.PublicKey, _ []group.MemberIndex,
	_ []group.MemberIndex, signatures map[group.MemberIndex][]byte, _ *tbtc.GroupSelectionResult) (*tbtc.DKGChainResult, error) {
	c.rec.sigs = signatures
	return &tbtc.DKGChainResult{}, nil
}
func (c *tbtcChain) IsDKGResultValid(*tbtc.DKGChainResult) (bool, error) { return true, nil }
func (c *tbtcChain) SubmitDKGResult(*tbtc.DKGChainResult) error {
	c.rec.submitted = true
	return nil
}
func (c *tbtcChain) CalculateInactivityClaimHash(*inactivity.ClaimPreimage) (inactivity.ClaimHash, error) {
	return inactivity.ClaimHash(fk.Hash32(c.pref)), nil
}
func (c *tbtcChain) GetWallet([20]byte) (*tbtc.WalletChainData, error) {
	return &tbtc.WalletChainData{EcdsaWalletID: [32]byte{1}}, nil
}
func (c *tbtcChain) GetInactivityClaimNonce([32]byte) (*big.Int, error) {
	if c.envOK {
		return big.NewInt(5), nil
	}
	return big.NewInt(6), nil
}
func (c *tbtcChain) AssembleInactivityClaim(_ [32]byte, _ []group.MemberIndex,
	signatures map[group.MemberIndex][]byte, _ bool) (*tbtc.InactivityClaim, error) {
	c.rec.sigs = signatures
	return &tbtc.InactivityClaim{}, nil
}
func (c *tbtcChain) SubmitInactivityClaim(*tbtc.InactivityClaim, *big.Int, []uint32) error {
	c.rec.submitted = true
	return nil
}

// ---------------------------------------------------------------- one case

type outT struct {
	Kind      string            `json:"kind"` // ok | panic
	Detail    string            `json:"detail,omitempty"`
	Sigs      map[string]uint64 `json:"sigs"`
	Submitted bool              `json:"submitted"`
	SubSigs   map[string]uint64 `json:"submitted_sigs,omitempty"`
	SubmitErr string            `json:"submit_err,omitempty"`
}

func mark(g *group.Group, in input) {
	for _, i := range in.IA {
		g.MarkMemberAsInactive(group.MemberIndex(i))
	}
	for _, i := range in.DQ {
		g.MarkMemberAsDisqualified(group.MemberIndex(i))
	}
}

func exec(in input) (sigs map[group.MemberIndex][]byte, rec *record, submitErr string, panicked string) {
	defer func() {
		if r := recover(); r != nil {
			panicked = fmt.Sprintf("panic: %v", r)
		}
	}()
	n := len(in.Ops)
	addrs := make([]chain.Address, n)
	for i, o := range in.Ops {
		addrs[i] = fk.Addr(o)
	}
	selfOp := in.Ops[in.Self-1]
	signer := &fk.Signer{Self: selfOp}
	validator := group.NewMembershipValidator(fk.Logger, addrs, signer)
	self := group.MemberIndex(in.Self)
	ctx := context.Background()
	ch := fk.NewChan()
	rec = &record{}
	waitFn := func(context.Context, uint64) error { return nil }
	msgOf := func(r rawIn) (sess string, key, pub, sig []byte) {
		s := sessSame
		if !r.SameSession {
			s = sessOther
		}
		return sessionStr(s), fk.KeyBytes(r.Key), fk.KeyBytes(r.PubKey), fk.Sig(r.SigKey, r.SigHash, r.SigOK)
	}

	switch in.Proto {
	case "beacon":
		g := group.NewGroup(n-in.Honest, n)
		mark(g, in)
		bc := &beaconChain{signer: signer, pref: in.Pref, envOK: in.EnvOK, rec: rec,
			cfg: &beaconchain.Config{GroupSize: n, HonestThreshold: in.Honest, ResultPublicationBlockStep: 1}}
		st := result.VerifC13NewSigningState(fk.Logger, self, g, validator, sessionStr(sessSame), ch, bc,
			blockCounter{}, &beaconchain.DKGResult{GroupPublicKey: []byte{1, 2, 3}}, 10)
		if err := st.Initiate(ctx); err != nil {
			panic(err)
		}
		for _, r := range in.Raws {
			sess, key, pub, sig := msgOf(r)
			p := result.VerifC12NewSignatureMessage(group.MemberIndex(r.Idx), beaconchain.DKGResultHash(fk.Hash32(r.Hash)), sig, pub, sess)
			if err := st.Receive(&fk.Msg{Key: key, P: p}); err != nil {
				panic(err)
			}
		}
		st2, err := st.Next()
		if err != nil {
			panic(err)
		}
		if err := st2.Initiate(ctx); err != nil {
			panic(err)
		}
		sigs = result.VerifC13Signatures(st2)
		st3, err := st2.Next()
		if err != nil {
			panic(err)
		}
		if err := st3.Initiate(ctx); err != nil {
			submitErr = err.Error()
		}
		return

	case "tecdsa":
		g := group.NewGroup(n-in.Honest, n)
		mark(g, in)
		tc := &tbtcChain{signer: signer, pref: in.Pref, envOK: in.EnvOK, rec: rec}
		x, y := tecdsa.Curve.ScalarBaseMult(big.NewInt(4321).Bytes())
		res := &tdkg.Result{Group: g, PrivateKeyShare: tecdsa.NewPrivateKeyShare(
			keygen.LocalPartySaveData{ECDSAPub: crypto.NewECPointNoCurveCheck(tecdsa.Curve, x, y)})}
		params := &tbtc.GroupParameters{GroupSize: n, GroupQuorum: in.Quorum, HonestThreshold: in.Honest}
		st := tdkg.VerifC13NewResultSigningState(fk.Logger, self, ch, validator, sessionStr(sessSame),
			tbtc.VerifC13NewDkgResultSigner(tc, 0),
			tbtc.VerifC13NewDkgResultSubmitter(tc, params, &tbtc.GroupSelectionResult{}, waitFn), res)
		if err := st.Initiate(ctx); err != nil {
			panic(err)
		}
		for _, r := range in.Raws {
			sess, key, pub, sig := msgOf(r)
			p := tdkg.VerifC12NewResultSignatureMessage(group.MemberIndex(r.Idx), tdkg.ResultSignatureHash(fk.Hash32(r.Hash)), sig, pub, sess)
			if err := st.Receive(&fk.Msg{Key: key, P: p}); err != nil {
				panic(err)
			}
		}
		st2, err := st.Next()
		if err != nil {
			panic(err)
		}
		if err := st2.Initiate(ctx); err != nil {
			panic(err)
		}
		sigs = tdkg.VerifC13Signatures(st2)
		st3, err := st2.Next()
		if err != nil {
			panic(err)
		}
		if err := st3.Initiate(ctx); err != nil {
			submitErr = err.Error()
		}
		return

	case "inactivity":
		tc := &tbtcChain{signer: signer, pref: in.Pref, envOK: in.EnvOK, rec: rec}
		x, y := tecdsa.Curve.ScalarBaseMult(big.NewInt(4321).Bytes())
		claim := inactivity.NewClaimPreimage(big.NewInt(5), &ecdsa.PublicKey{Curve: tecdsa.Curve, X: x, Y: y},
			[]group.MemberIndex{2}, false)
		params := &tbtc.GroupParameters{GroupSize: n, GroupQuorum: in.Quorum, HonestThreshold: in.Honest}
		st, g := inactivity.VerifC13NewClaimSigningState(fk.Logger, self, ch, n, n-in.Honest, validator, sessionStr(sessSame),
			tbtc.VerifC13NewInactivityClaimSigner(tc),
			tbtc.VerifC13NewInactivityClaimSubmitter(tc, params, nil, waitFn), claim)
		mark(g, in)
		if err := st.Initiate(ctx); err != nil {
			panic(err)
		}
		for _, r := range in.Raws {
			sess, key, pub, sig := msgOf(r)
			p := inactivity.VerifC12NewClaimSignatureMessage(group.MemberIndex(r.Idx), inactivity.ClaimHash(fk.Hash32(r.Hash)), sig, pub, sess)
			if err := st.Receive(&fk.Msg{Key: key, P: p}); err != nil {
				panic(err)
			}
		}
		st2, err := st.Next()
		if err != nil {
			panic(err)
		}
		if err := st2.Initiate(ctx); err != nil {
			panic(err)
		}
		sigs = inactivity.VerifC13Signatures(st2)
		st3, err := st2.Next()
		if err != nil {
			panic(err)
		}
		if err := st3.Initiate(ctx); err != nil {
			submitErr = err.Error()
		}
		return
	}
	panic("unknown protocol " + in.Proto)
}

func nl(v []int) string {
	u := make([]uint64, len(v))
	for i, x := range v {
		u[i] = uint64(x)
	}
	return lib.ListN(u)
}

func sigMap(m map[group.MemberIndex][]byte) (string, map[string]uint64) {
	keys := make([]int, 0, len(m))
	for k := range m {
		keys = append(keys, int(k))
	}
	sort.Ints(keys)
	items := make([]string, 0, len(keys))
	human := map[string]uint64{}
	for _, k := range keys {
		v := fk.SigN(m[group.MemberIndex(k)])
		items = append(items, lib.Pair(lib.N(uint64(k)), lib.N(v)))
		human[fmt.Sprint(k)] = v
	}
	return lib.List(items), human
}

func run(in input, em *lib.Emitter, id string) {
	n := len(in.Ops)
	if in.Self < 1 || in.Self > n || in.Pref >= 4095 {
		em.Case(lib.Case{ID: id, Coq: "bad_input", Key: id, In: in, Out: "bad input"})
		return
	}
	sigs, rec, submitErr, panicked := exec(in)
	selfOp := in.Ops[in.Self-1]
	protoC := map[string]string{"beacon": "Beacon", "tecdsa": "Tecdsa", "inactivity": "Inactivity"}[in.Proto]

	// key -> address, as answered by the real oracle of the run
	keySet := map[int]bool{selfOp: true}
	for _, o := range in.Ops {
		keySet[o] = true
	}
	for _, r := range in.Raws {
		keySet[r.Key] = true
		keySet[r.PubKey] = true
	}
	var keys []int
	for k := range keySet {
		keys = append(keys, k)
	}
	sort.Ints(keys)
	signer := &fk.Signer{Self: selfOp}
	var table []string
	for _, k := range keys {
		a := fk.AddrID(signer.PublicKeyBytesToAddress(fk.KeyBytes(k)), keys)
		if a == 0 {
			a = 9999
		}
		table = append(table, lib.Pair(lib.N(uint64(k)), lib.N(uint64(a))))
	}
	raws := make([]string, len(in.Raws))
	for i, r := range in.Raws {
		s := sessSame
		if !r.SameSession {
			s = sessOther
		}
		raws[i] = fmt.Sprintf("{| r_idx := %s; r_key := %s; r_pubkey := %s; r_hash := %s; r_sig := %s; r_session := %s |}",
			lib.N(uint64(r.Idx)), lib.N(uint64(r.Key)), lib.N(uint64(r.PubKey)), lib.N(uint64(r.Hash)),
			lib.N(fk.SigN(fk.Sig(r.SigKey, r.SigHash, r.SigOK))), lib.N(uint64(s)))
	}
	out := outT{Kind: "ok", SubmitErr: submitErr}
	sigsCoq, human := sigMap(sigs)
	out.Sigs = human
	submitted := "None"
	if rec != nil && rec.submitted {
		sc, h := sigMap(rec.sigs)
		submitted = "(Some " + sc + ")"
		out.Submitted, out.SubSigs = true, h
	}
	if panicked != "" {
		// an own signature of 0 can never satisfy the property: a panic is a failure of it
		out.Kind, out.Detail = "panic", panicked
		sigsCoq, submitted = "[]", "None"
	}
	coq := fmt.Sprintf("{| c_proto := %s; c_cfg := {| f_self := %s; f_ops := %s; f_grp := mk_grp %s %s %s; "+
		"f_session := %s; f_hash := %s; f_selfsig := %s |}; c_params := {| p_gsize := %s; p_honest := %s; p_quorum := %s |}; "+
		"c_raws := %s; c_addr := %s; c_env_ok := %s; c_sigs := %s; c_submitted := %s |}",
		protoC, lib.N(uint64(in.Self)), nl(in.Ops), lib.N(uint64(n)), nl(in.IA), nl(in.DQ),
		lib.N(sessSame), lib.N(uint64(in.Pref)), lib.N(fk.SigN(fk.Sig(selfOp, in.Pref, true))),
		lib.Z(int64(n)), lib.Z(int64(in.Honest)), lib.Z(int64(in.Quorum)),
		lib.List(raws), lib.List(table), lib.Bool(in.EnvOK), sigsCoq, submitted)

	// structural features
	perSender := map[int]int{}
	conflict, badSig, foreign, nonMember := false, false, false, false
	for _, r := range in.Raws {
		perSender[r.Idx]++
		if r.Hash != in.Pref {
			conflict = true
		}
		if !r.SigOK || r.SigKey != r.PubKey || r.SigHash != r.Hash {
			badSig = true
		}
		if r.PubKey != r.Key {
			foreign = true
		}
		if r.Idx < 1 || r.Idx > n || in.Ops[r.Idx-1] != r.Key {
			nonMember = true
		}
	}
	dups := false
	for _, c := range perSender {
		if c > 1 {
			dups = true
		}
	}
	feat := 0
	for _, b := range []bool{dups, conflict, badSig, foreign, nonMember} {
		if b {
			feat++
		}
	}
	em.Tally("proto-" + in.Proto)
	em.Tally(fmt.Sprintf("history-len-%02d", len(in.Raws)))
	em.Tally(fmt.Sprintf("support-%02d", len(sigs)))
	if panicked == "" {
		// distance of the support count from the submitter's threshold (statistics only)
		thr := in.Quorum
		switch in.Proto {
		case "beacon":
			thr = in.Honest + (n-in.Honest)/2
		case "inactivity":
			thr = in.Honest
		}
		switch d := len(sigs) - thr; {
		case d == 0:
			em.Tally("gate-" + in.Proto + "-at-threshold")
		case d == -1:
			em.Tally("gate-" + in.Proto + "-one-below")
		case d < -1:
			em.Tally("gate-" + in.Proto + "-far-below")
		default:
			em.Tally("gate-" + in.Proto + "-above")
		}
	}
	if len(in.IA)+len(in.DQ) > 0 {
		em.Tally("with-excluded-member")
	}
	if out.Submitted {
		em.Tally("submitted")
	} else {
		em.Tally("not-submitted")
	}
	for name, b := range map[string]bool{"dups": dups, "conflicting-hash": conflict, "bad-sig": badSig, "foreign-key": foreign, "non-member": nonMember} {
		if b {
			em.Tally("with-" + name)
		}
	}
	em.Case(lib.Case{
		ID:         id,
		Coq:        coq,
		Key:        fmt.Sprintf("%+v", in),
		Nontrivial: feat >= 2,
		Sig: map[string]interface{}{"proto": in.Proto, "dups": dups, "conflict": conflict, "bad_sig": badSig,
			"foreign_key": foreign, "non_member": nonMember, "submitted": out.Submitted, "panic": panicked != ""},
		In:  in,
		Out: out,
	})
}

// ---------------------------------------------------------------- generation

func validRaw(in input, seat int) rawIn {
	k := in.Ops[seat-1]
	return rawIn{Idx: seat, Key: k, PubKey: k, Hash: in.Pref, SigKey: k, SigHash: in.Pref, SigOK: true, SameSession: true}
}

// variant v of a message of member seat: 0 valid, 1 other hash (validly signed), 2 invalid signature,
// 3 signed by another key than the one named, 4 names (and signs with) a key that is not the
// network key, 5 other session, 6 sent by an outsider, 7 sent by another operator's key, 8 a second
// valid signature of the same hash... (same as 0)
func variant(in input, seat, v int, r *lib.Rng) rawIn {
	m := validRaw(in, seat)
	other := in.Ops[r.Intn(len(in.Ops))]
	switch v {
	case 1:
		m.Hash = in.Pref + 1 + r.Intn(2)
		m.SigHash = m.Hash
	case 2:
		m.SigOK = false
	case 3:
		m.SigKey = m.Key + 1
	case 4:
		m.PubKey = m.Key + 1
		m.SigKey = m.PubKey
	case 5:
		m.SameSession = false
	case 6:
		m.Key, m.PubKey, m.SigKey = fk.Outsider, fk.Outsider, fk.Outsider
	case 7:
		m.Key, m.PubKey, m.SigKey = other, other, other
	case 8:
		m.SigHash = in.Pref + 1 // signature over another hash than the one named
	}
	return m
}

func main() {
	o := lib.ParseOpts()
	em := lib.NewEmitter()
	if o.Replay != "" {
		var in input
		if err := lib.LoadReplay(o.Replay, &in); err != nil {
			fmt.Fprintln(os.Stderr, err)
			os.Exit(2)
		}
		run(in, em, "replay")
		em.Close("replay", nil)
		return
	}
	rng := lib.NewRng(o.Seed)
	protos := []string{"beacon", "tecdsa", "inactivity"}

	// --- corpus
	for _, p := range protos {
		in := input{Proto: p, Ops: []int{1, 2, 2, 3, 4}, Self: 1, Pref: 9, Honest: 3, Quorum: 4, EnvOK: true}
		r := lib.NewRng(5)
		// duplicated sender with conflicting hashes, invalid signature, foreign key, spoofed seat
		in.Raws = []rawIn{validRaw(in, 2), validRaw(in, 3), variant(in, 3, 1, r), variant(in, 4, 2, r),
			variant(in, 5, 4, r), variant(in, 4, 7, r)}
		run(in, em, "corpus-mixed-"+p)
		// conflicting first, valid second: tecdsa keeps none, beacon none
		in.Raws = []rawIn{variant(in, 2, 1, r), validRaw(in, 2), validRaw(in, 4), validRaw(in, 5)}
		run(in, em, "corpus-conflict-first-"+p)
		// the same valid message twice
		in.Raws = []rawIn{validRaw(in, 2), validRaw(in, 2), validRaw(in, 3), validRaw(in, 4), validRaw(in, 5)}
		run(in, em, "corpus-same-twice-"+p)
		// exactly at / one below the threshold
		in.Honest, in.Quorum = 4, 4
		in.Raws = []rawIn{validRaw(in, 2), validRaw(in, 3), validRaw(in, 4)}
		run(in, em, "corpus-at-threshold-"+p)
		in.Raws = []rawIn{validRaw(in, 2), validRaw(in, 3), variant(in, 4, 2, r)}
		run(in, em, "corpus-below-threshold-"+p)
		// own message echoed back, excluded member, somebody already submitted
		in.Raws = []rawIn{validRaw(in, 1), validRaw(in, 2), validRaw(in, 3), validRaw(in, 4), validRaw(in, 5)}
		in.DQ = []int{4}
		in.EnvOK = false
		run(in, em, "corpus-self-excluded-"+p)
		in.EnvOK = true
		in.Raws = nil
		run(in, em, "corpus-empty-"+p)
	}

	// --- small scope: 3 seats, receiver 1, every history of length <= 2 (quick: a sample of
	// length <= 3) over senders {2,3} x 9 variants
	{
		type mv struct{ seat, v int }
		var alphabet []mv
		for seat := 2; seat <= 3; seat++ {
			for v := 0; v <= 8; v++ {
				alphabet = append(alphabet, mv{seat, v})
			}
		}
		var hist [][]mv
		for _, a := range alphabet {
			hist = append(hist, []mv{a})
			for _, b := range alphabet {
				hist = append(hist, []mv{a, b})
				for _, c := range alphabet {
					hist = append(hist, []mv{a, b, c})
				}
			}
		}
		nSmall := o.Count(400, len(hist))
		perm := rng.Fork("small").Perm(len(hist))
		for i := 0; i < nSmall && i < len(hist); i++ {
			r := rng.Fork(fmt.Sprintf("small%d", i))
			in := input{Proto: protos[i%3], Ops: [][]int{{1, 2, 3}, {1, 2, 2}}[r.Intn(2)], Self: 1, Pref: 9,
				Honest: 2, Quorum: r.Range(2, 3), EnvOK: !r.Chance(1, 8)}
			if r.Chance(1, 8) {
				in.DQ = []int{3}
			} else if r.Chance(1, 8) {
				in.IA = []int{2}
			}
			for _, m := range hist[perm[i]] {
				in.Raws = append(in.Raws, variant(in, m.seat, m.v, r))
			}
			run(in, em, fmt.Sprintf("small-%d", i))
		}
	}

	// --- random histories: mostly valid traffic plus a malformed stream
	nRand := o.Count(700, 6000)
	for i := 0; i < nRand; i++ {
		r := rng.Fork(fmt.Sprintf("rand%d", i))
		n := r.Range(3, 9)
		if r.Chance(1, 8) {
			n = r.Range(10, 30)
		}
		nOps := r.Range(2, n)
		ops := make([]int, n)
		for j := range ops {
			ops[j] = 1 + r.Intn(nOps)
		}
		in := input{Proto: protos[r.Intn(3)], Ops: ops, Self: r.Range(1, n), Pref: r.Range(1, 4000), EnvOK: !r.Chance(1, 8)}
		for k := r.Intn(3); k > 0 && r.Chance(1, 2); k-- {
			v := r.Range(1, n)
			if v != in.Self {
				if r.Bool() {
					in.IA = append(in.IA, v)
				} else {
					in.DQ = append(in.DQ, v)
				}
			}
		}
		if len(in.IA) > 0 && len(in.DQ) > 0 && in.IA[0] == in.DQ[0] {
			in.DQ = nil
		}
		if len(in.IA) == 2 && in.IA[0] == in.IA[1] {
			in.IA = in.IA[:1]
		}
		if len(in.DQ) == 2 && in.DQ[0] == in.DQ[1] {
			in.DQ = in.DQ[:1]
		}
		malice := r.Intn(4) // 0: all honest .. 3: heavy
		for seat := 1; seat <= n; seat++ {
			if seat == in.Self {
				if r.Chance(1, 3) {
					in.Raws = append(in.Raws, validRaw(in, seat)) // own message comes back
				}
				continue
			}
			if r.Chance(1, 6) {
				continue // silent member
			}
			v := 0
			if r.Intn(8) < 2*malice {
				v = 1 + r.Intn(8)
			}
			in.Raws = append(in.Raws, variant(in, seat, v, r))
			for r.Intn(10) < malice { // duplicates
				in.Raws = append(in.Raws, variant(in, seat, r.Intn(9), r))
			}
		}
		if malice > 0 {
			for k := r.Intn(3); k > 0; k-- { // indexes outside the group, spoofed seats
				m := validRaw(in, r.Range(1, n))
				m.Idx = []int{0, n + 1, 255, r.Range(1, n)}[r.Intn(4)]
				in.Raws = append(in.Raws, m)
			}
		}
		p := r.Perm(len(in.Raws))
		sh := make([]rawIn, len(in.Raws))
		for a, b := range p {
			sh[a] = in.Raws[b]
		}
		in.Raws = sh
		// thresholds around the number of plausible supporters
		in.Honest = r.Range(n/2+1, n)
		in.Quorum = r.Range(in.Honest, n)
		if r.Chance(1, 2) {
			c := 1
			seen := map[int]bool{}
			for _, m := range in.Raws {
				if m.Idx != in.Self && !seen[m.Idx] {
					seen[m.Idx] = true
					c++
				}
			}
			t := c + r.Range(-2, 1)
			if t < 1 {
				t = 1
			}
			if t > n {
				t = n
			}
			in.Honest, in.Quorum = t, t
			if in.Proto == "beacon" { // H + (N-H)/2 = t  with N-H even
				h := 2*t - n
				if h >= 1 && h <= n {
					in.Honest = h
				}
			}
		}
		if r.Chance(1, 2) {
			// thresholds right at the size of the set the implementation builds from this history
			// (a first run with the thresholds above tells the size; it does not depend on them)
			if probe, _, _, pn := exec(in); pn == "" {
				t := len(probe) + r.Range(-1, 1)
				if t < 1 {
					t = 1
				}
				if t > n {
					t = n
				}
				in.Honest, in.Quorum = t, t
				if in.Proto == "beacon" { // H + (N-H)/2 = t  for H = 2t-N and H = 2t-N+1
					h := 2*t - n + r.Intn(2)
					if h >= 1 && h <= n {
						in.Honest = h
					}
				}
			}
		}
		run(in, em, fmt.Sprintf("rand-%d", i))
	}

	em.Close("a case is one history of signature messages delivered to the real result-signing / claim-signing state of "+
		"one protocol, followed by the real verification and the real submitter; distinct by the whole input; non-trivial when "+
		"the history shows at least two of: duplicated sender, conflicting hash, invalid or mismatching signature, key differing "+
		"from the network key, sender not holding the claimed seat", nil)
}
