package main

import (
	"crypto/sha256"
	"encoding/hex"
	"fmt"

	"github.com/keep-network/keep-core/pkg/bitcoin"

	"verifharness/lib"
)

// simChain is a simulated Bitcoin chain served the way an Electrum server serves it.  The
// whole final chain exists from the start; query number k sees the first `visible` blocks and
// `growth[k-1]` more blocks are "mined" just before query k (k >= 1).  Only the methods
// AssembleSpvProof uses are implemented; any other call hits the embedded nil interface.
type simChain struct {
	bitcoin.Chain
	blocks  []*simBlock
	visible int
	growth  []int
	queries int
	log     []string
}

type simBlock struct {
	header bitcoin.BlockHeader
	txs    []*bitcoin.Transaction
	ids    []bitcoin.Hash
	levels [][][32]byte // Merkle tree, level 0 = transaction ids
}

func dsha(b []byte) [32]byte {
	a := sha256.Sum256(b)
	return sha256.Sum256(a[:])
}

func buildLevels(ids []bitcoin.Hash) [][][32]byte {
	cur := make([][32]byte, len(ids))
	for i, h := range ids {
		cur[i] = h
	}
	levels := [][][32]byte{cur}
	for len(cur) > 1 {
		var next [][32]byte
		for i := 0; i < len(cur); i += 2 {
			l := cur[i]
			r := l
			if i+1 < len(cur) {
				r = cur[i+1]
			}
			next = append(next, dsha(append(append([]byte{}, l[:]...), r[:]...)))
		}
		levels = append(levels, next)
		cur = next
	}
	return levels
}

func randTx(r *lib.Rng, coinbase bool) *bitcoin.Transaction {
	tx := &bitcoin.Transaction{Version: int32(r.Range(1, 2)), Locktime: uint32(r.U64())}
	if r.Chance(1, 4) {
		tx.Locktime = 0
	}
	nIn := r.Range(1, 3)
	if coinbase {
		nIn = 1
	}
	for i := 0; i < nIn; i++ {
		in := &bitcoin.TransactionInput{
			Outpoint:        &bitcoin.TransactionOutpoint{OutputIndex: uint32(r.Intn(4))},
			SignatureScript: r.Bytes(r.Intn(24)),
			Sequence:        uint32(r.U64()),
		}
		copy(in.Outpoint.TransactionHash[:], r.Bytes(32))
		if coinbase {
			in.Outpoint = &bitcoin.TransactionOutpoint{OutputIndex: 0xffffffff}
			in.SignatureScript = r.Bytes(r.Range(2, 30))
			if r.Chance(2, 3) { // segwit coinbase: witness reserved value
				in.Witness = [][]byte{make([]byte, 32)}
			}
		} else if r.Chance(1, 2) {
			in.Witness = [][]byte{r.Bytes(r.Range(1, 72)), r.Bytes(33)}
			if r.Bool() {
				in.SignatureScript = nil
			}
		}
		tx.Inputs = append(tx.Inputs, in)
	}
	for i, n := 0, r.Range(1, 3); i < n; i++ {
		tx.Outputs = append(tx.Outputs, &bitcoin.TransactionOutput{
			Value: int64(r.U64() % 2_100_000_000_000_000), PublicKeyScript: r.Bytes(r.Range(1, 34))})
	}
	return tx
}

func newSimChain(r *lib.Rng, sizes []int) []*simBlock {
	var blocks []*simBlock
	var prev bitcoin.Hash
	copy(prev[:], r.Bytes(32))
	for h, n := range sizes {
		b := &simBlock{}
		for i := 0; i < n; i++ {
			tx := randTx(r, i == 0)
			b.txs = append(b.txs, tx)
			b.ids = append(b.ids, tx.Hash())
		}
		b.levels = buildLevels(b.ids)
		b.header = bitcoin.BlockHeader{
			Version: int32(r.U64()), PreviousBlockHeaderHash: prev, Time: uint32(1_600_000_000 + 600*h),
			Bits: uint32(r.U64()), Nonce: uint32(r.U64()),
		}
		b.header.MerkleRootHash = bitcoin.Hash(b.levels[len(b.levels)-1][0])
		ser := b.header.Serialize()
		prev = bitcoin.Hash(dsha(ser[:]))
		blocks = append(blocks, b)
	}
	return blocks
}

func (c *simChain) tick(what string) {
	if c.queries >= 1 && c.queries-1 < len(c.growth) {
		c.visible += c.growth[c.queries-1]
	}
	if c.visible > len(c.blocks) {
		c.visible = len(c.blocks)
	}
	c.log = append(c.log, fmt.Sprintf("q%d@%d:%s", c.queries, c.visible, what))
	c.queries++
}

func (c *simChain) find(h bitcoin.Hash) (int, int, bool) {
	for bi := 0; bi < c.visible; bi++ {
		for ti, id := range c.blocks[bi].ids {
			if id == h {
				return bi, ti, true
			}
		}
	}
	return 0, 0, false
}

func (c *simChain) GetTransactionConfirmations(h bitcoin.Hash) (uint, error) {
	c.tick("conf")
	bi, _, ok := c.find(h)
	if !ok {
		return 0, fmt.Errorf("not found")
	}
	return uint(c.visible - bi), nil
}

func (c *simChain) GetTransaction(h bitcoin.Hash) (*bitcoin.Transaction, error) {
	c.tick("tx")
	bi, ti, ok := c.find(h)
	if !ok {
		return nil, fmt.Errorf("not found")
	}
	return c.blocks[bi].txs[ti], nil
}

func (c *simChain) GetLatestBlockHeight() (uint, error) {
	c.tick("latest")
	if c.visible == 0 {
		return 0, fmt.Errorf("no blocks")
	}
	return uint(c.visible - 1), nil
}

func (c *simChain) GetBlockHeader(height uint) (*bitcoin.BlockHeader, error) {
	c.tick(fmt.Sprintf("header(%d)", height))
	if height >= uint(c.visible) {
		return nil, fmt.Errorf("height out of range")
	}
	h := c.blocks[height].header
	return &h, nil
}

// reversed (display) byte order, as Electrum's blockchain.transaction.get_merkle
func revHex(b [32]byte) string {
	for i := 0; i < 16; i++ {
		b[i], b[31-i] = b[31-i], b[i]
	}
	return hex.EncodeToString(b[:])
}

func (c *simChain) GetTransactionMerkleProof(h bitcoin.Hash, height uint) (*bitcoin.TransactionMerkleProof, error) {
	c.tick(fmt.Sprintf("merkle(%d)", height))
	if height >= uint(c.visible) {
		return nil, fmt.Errorf("height out of range")
	}
	b := c.blocks[height]
	pos := -1
	for i, id := range b.ids {
		if id == h {
			pos = i
			break
		}
	}
	if pos < 0 {
		return nil, fmt.Errorf("tx not in block")
	}
	res := &bitcoin.TransactionMerkleProof{BlockHeight: height, Position: uint(pos)}
	p := pos
	for l := 0; l < len(b.levels)-1; l++ {
		lvl := b.levels[l]
		sib := p ^ 1
		if sib >= len(lvl) {
			sib = p
		}
		res.MerkleNodes = append(res.MerkleNodes, revHex(lvl[sib]))
		p /= 2
	}
	return res, nil
}

func (c *simChain) GetCoinbaseTxHash(height uint) (bitcoin.Hash, error) {
	c.tick(fmt.Sprintf("coinbase(%d)", height))
	if height >= uint(c.visible) {
		return bitcoin.Hash{}, fmt.Errorf("height out of range")
	}
	return c.blocks[height].ids[0], nil
}
