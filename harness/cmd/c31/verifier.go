package main

import (
	"bytes"
	"crypto/sha256"
	"fmt"

	"github.com/keep-network/keep-core/pkg/bitcoin"
)

// proveMerkle mirrors the Bridge's ValidateSPV.prove / verifyHash256Merkle: walk from the leaf
// to the root, the bits of index deciding left/right; additionally every bit of the index must
// be consumed by the path ("at the stated position").
func proveMerkle(leaf [32]byte, proof []byte, index uint, root [32]byte) error {
	if len(proof)%32 != 0 {
		return fmt.Errorf("merkle proof length %d is not a multiple of 32", len(proof))
	}
	cur := leaf
	idx := index
	for off := 0; off < len(proof); off += 32 {
		var buf []byte
		if idx%2 == 1 {
			buf = append(append(buf, proof[off:off+32]...), cur[:]...)
		} else {
			buf = append(append(buf, cur[:]...), proof[off:off+32]...)
		}
		cur = dsha(buf)
		idx >>= 1
	}
	if cur != root {
		return fmt.Errorf("merkle path does not end at the header's root")
	}
	if idx != 0 {
		return fmt.Errorf("index %d has bits beyond the depth of the path", index)
	}
	return nil
}

// verifySpv is the independent verifier: the Bridge's BitcoinTx.validateProof rules
// (transaction Merkle proof against the first header's root, coinbase preimage/proof at index
// 0, equal proof lengths) and the header chain rules (80-byte headers, each header's previous
// hash is the double SHA-256 of the one before), plus "the required length" and "starting at
// the transaction's block" (the first header is the header of the block that contains the
// transaction in the simulated chain).  Proof of work is outside the property.
func verifySpv(tx *bitcoin.Transaction, want bitcoin.Hash, p *bitcoin.SpvProof, required uint, txBlock *simBlock) error {
	if tx == nil || p == nil {
		return fmt.Errorf("nil transaction or proof")
	}
	txHash := dsha(tx.Serialize(bitcoin.Standard))
	if bitcoin.Hash(txHash) != want {
		return fmt.Errorf("returned transaction is not the requested one")
	}
	if required < 1 {
		return fmt.Errorf("no header required")
	}
	if len(p.BitcoinHeaders) != 80*int(required) {
		return fmt.Errorf("headers length %d, want %d", len(p.BitcoinHeaders), 80*required)
	}
	var root [32]byte
	copy(root[:], p.BitcoinHeaders[36:68])
	if err := proveMerkle(txHash, p.MerkleProof, p.TxIndexInBlock, root); err != nil {
		return fmt.Errorf("tx: %v", err)
	}
	cbHash := sha256.Sum256(p.CoinbasePreimage[:])
	if err := proveMerkle(cbHash, p.CoinbaseProof, 0, root); err != nil {
		return fmt.Errorf("coinbase: %v", err)
	}
	if len(p.MerkleProof) != len(p.CoinbaseProof) {
		return fmt.Errorf("tx not on the same level of the merkle tree as the coinbase")
	}
	for off := 80; off < len(p.BitcoinHeaders); off += 80 {
		d := dsha(p.BitcoinHeaders[off-80 : off])
		if !bytes.Equal(p.BitcoinHeaders[off+4:off+36], d[:]) {
			return fmt.Errorf("header %d does not link to its predecessor", off/80)
		}
	}
	if txBlock != nil {
		ser := txBlock.header.Serialize()
		if !bytes.Equal(p.BitcoinHeaders[:80], ser[:]) {
			return fmt.Errorf("first header is not the header of the transaction's block")
		}
	}
	return nil
}
