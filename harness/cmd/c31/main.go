// Driver for C31: runs bitcoin.AssembleSpvProof against a simulated, growing Bitcoin chain
// (chain.go), verifies every returned proof with an independent Bridge-rule verifier
// (verifier.go, real SHA-256) and prints the structural data of the case for the Coq model
// (Model/C31.v), which predicts the outcome and the shape of the proof.
package main

import (
	"fmt"
	"os"
	"strings"

	"github.com/keep-network/keep-core/pkg/bitcoin"

	"verifharness/lib"
)

type input struct {
	Seed     uint64 `json:"seed"`   // seeds the contents of the blocks
	Sizes    []int  `json:"sizes"`  // transactions per block of the final chain
	Vis0     int    `json:"vis0"`   // blocks visible to the first query
	Growth   []int  `json:"growth"` // blocks mined just before query 1, 2, ...
	TxHeight int    `json:"tx_height"`
	TxPos    int    `json:"tx_pos"` // -1: a transaction that is nowhere on the chain
	Required uint   `json:"required"`
}

type outcome struct {
	Kind       string   `json:"kind"` // Assembled | NotEnough | Failed | Panic
	MerkleLen  int      `json:"merkle_len"`
	Index      uint     `json:"index"`
	HeadersLen int      `json:"headers_len"`
	CbLen      int      `json:"cb_len"`
	Verify     string   `json:"verify"` // "ok" or the verifier's complaint
	Err        string   `json:"err,omitempty"`
	Queries    []string `json:"queries"`
}

func call(h bitcoin.Hash, required uint, c *simChain) (tx *bitcoin.Transaction, p *bitcoin.SpvProof, kind, detail string) {
	defer func() {
		if r := recover(); r != nil {
			kind, detail = "Panic", fmt.Sprint(r)
		}
	}()
	tx, p, err := bitcoin.AssembleSpvProof(h, required, c)
	if err != nil {
		if strings.Contains(err.Error(), "is not enough") {
			return nil, nil, "NotEnough", err.Error()
		}
		return nil, nil, "Failed", err.Error()
	}
	return tx, p, "Assembled", ""
}

func run(in input, em *lib.Emitter, id string) {
	blocks := newSimChain(lib.NewRng(in.Seed), in.Sizes)
	c := &simChain{blocks: blocks, visible: in.Vis0, growth: in.Growth}
	var h bitcoin.Hash
	var txBlock *simBlock
	if in.TxPos >= 0 {
		txBlock = blocks[in.TxHeight]
		h = txBlock.ids[in.TxPos]
	} else {
		copy(h[:], lib.NewRng(in.Seed^0x5bd1e995).Bytes(32))
	}
	tx, p, kind, detail := call(h, in.Required, c)
	o := outcome{Kind: kind, Err: detail, Queries: c.log}
	goVerify := false
	obs := map[string]string{"NotEnough": "ONotEnough", "Failed": "OFailed", "Panic": "OPanic"}[kind]
	if kind == "Assembled" {
		o.MerkleLen, o.Index, o.HeadersLen, o.CbLen = len(p.MerkleProof), p.TxIndexInBlock, len(p.BitcoinHeaders), len(p.CoinbaseProof)
		if err := verifySpv(tx, h, p, in.Required, txBlock); err != nil {
			o.Verify = err.Error()
		} else {
			o.Verify = "ok"
			goVerify = true
		}
		obs = fmt.Sprintf("(OAssembled %s %s %s %s)", lib.N(uint64(o.MerkleLen)), lib.ZU(uint64(o.Index)),
			lib.N(uint64(o.HeadersLen)), lib.N(uint64(o.CbLen)))
	}
	sizes := make([]uint64, len(in.Sizes))
	for i, s := range in.Sizes {
		sizes[i] = uint64(s)
	}
	growth := make([]uint64, len(in.Growth))
	grew, grewEarly := false, false
	for i, g := range in.Growth {
		growth[i] = uint64(g)
		if g > 0 {
			grew = true
			if i < 2 { // before the second or the third query: between confirmations and height
				grewEarly = true
			}
		}
	}
	txTerm := "None"
	tree, posClass := 0, "unknown"
	if in.TxPos >= 0 {
		txTerm = lib.Some(lib.Pair(lib.N(uint64(in.TxHeight)), lib.N(uint64(in.TxPos))))
		tree = in.Sizes[in.TxHeight]
		switch {
		case in.TxPos == 0:
			posClass = "first"
		case in.TxPos == tree-1:
			posClass = "last"
		default:
			posClass = "middle"
		}
	}
	coq := fmt.Sprintf("{| c_sizes := %s; c_vis0 := %s; c_growth := %s; c_tx := %s; c_required := %s; c_obs := %s; c_go_verify := %s |}",
		lib.ListN(sizes), lib.N(uint64(in.Vis0)), lib.ListN(growth), txTerm, lib.ZU(uint64(in.Required)), obs, lib.Bool(goVerify))
	em.Tally("out-" + kind)
	em.Tally("pos-" + posClass)
	if tree > 0 {
		par := "even"
		if tree%2 == 1 {
			par = "odd"
		}
		em.Tally("tree-" + par)
	}
	if grew {
		em.Tally("chain-grew-during-assembly")
	}
	if grewEarly {
		em.Tally("chain-grew-between-confirmations-and-height")
	}
	if kind == "Assembled" {
		em.Tally(fmt.Sprintf("assembled-depth-%d", o.MerkleLen/32))
	}
	em.Case(lib.Case{
		ID:         id,
		Coq:        coq,
		Key:        fmt.Sprintf("%v|%d|%v|%d|%d|%d", in.Sizes, in.Vis0, in.Growth, in.TxHeight, in.TxPos, in.Required),
		Nontrivial: kind == "Assembled" && tree >= 2 && in.Required >= 2,
		Sig: map[string]interface{}{"kind": kind, "verify_ok": goVerify, "grew": grew, "grew_early": grewEarly,
			"pos": posClass, "required_zero": in.Required == 0},
		In:  in,
		Out: o,
	})
}

var treeSizes = []int{1, 1, 2, 2, 3, 3, 4, 5, 6, 7, 8, 9, 10, 11, 12, 13, 15, 16, 17, 24, 31, 32, 33, 50}

func randSizes(r *lib.Rng, n int) []int {
	s := make([]int, n)
	for i := range s {
		s[i] = treeSizes[r.Intn(len(treeSizes))]
	}
	return s
}

func pickPos(r *lib.Rng, size int) int {
	switch r.Intn(4) {
	case 0:
		return 0
	case 1:
		return size - 1
	case 2:
		return size / 2
	}
	return r.Intn(size)
}

func main() {
	o := lib.ParseOpts()
	em := lib.NewEmitter()
	if o.Replay != "" {
		var in input
		if err := lib.LoadReplay(o.Replay, &in); err != nil {
			fmt.Fprintln(os.Stderr, err)
			os.Exit(2)
		}
		run(in, em, "replay")
		em.Close("replay", nil)
		return
	}
	rng := lib.NewRng(o.Seed)

	// --- corpus (runs first)
	{
		s10 := []int{1, 3, 4, 7, 2, 1, 5, 6, 2, 2, 3, 1}
		run(input{11, s10, 10, nil, 3, 6, 6}, em, "corpus-last-of-odd-tree")
		run(input{12, s10, 10, nil, 3, 0, 6}, em, "corpus-coinbase-itself")
		run(input{13, s10, 10, nil, 5, 0, 5}, em, "corpus-single-tx-block")
		run(input{14, s10, 10, nil, 9, 1, 1}, em, "corpus-tip-one-confirmation")
		run(input{15, s10, 10, nil, 7, 3, 3}, em, "corpus-exactly-enough")
		run(input{16, s10, 10, nil, 7, 3, 4}, em, "corpus-one-short")
		run(input{17, s10, 10, nil, 2, 2, 0}, em, "corpus-required-zero")
		run(input{18, s10, 10, nil, 0, -1, 2}, em, "corpus-unknown-tx")
		run(input{19, s10, 10, nil, 11, 0, 1}, em, "corpus-not-yet-mined")
		run(input{20, s10, 10, []int{1}, 4, 1, 3}, em, "corpus-grew-before-get-transaction")
		run(input{21, s10, 10, []int{0, 1}, 4, 1, 3}, em, "corpus-grew-before-latest-height")
		run(input{22, s10, 10, []int{0, 0, 1, 0, 1}, 4, 1, 3}, em, "corpus-grew-while-fetching-headers")
		run(input{23, s10, 10, []int{0, 0, 0, 0, 0, 1, 1}, 4, 1, 3}, em, "corpus-grew-before-merkle")
		run(input{24, s10, 9, []int{0, 0, 1, 1, 1}, 7, 5, 2}, em, "corpus-headers-mined-just-in-time")
	}

	// --- small scope, exhaustively: every tree size 1..9 (tier thorough: ..17), every position,
	// 1..3 required confirmations, with and without one block mined after the height query
	{
		maxTree := 9
		if o.Tier != "quick" {
			maxTree = 17
		}
		r := rng.Fork("small")
		for size := 1; size <= maxTree; size++ {
			for pos := 0; pos < size; pos++ {
				for req := uint(1); req <= 3; req++ {
					if o.Tier == "quick" && req == 2 && size > 5 {
						continue
					}
					sizes := randSizes(r, 6)
					hgt := r.Range(0, 2)
					sizes[hgt] = size
					var growth []int
					vis := 5
					if (size+pos+int(req))%2 == 0 {
						growth = []int{0, 0, 1}
					}
					run(input{r.U64(), sizes, vis, growth, hgt, pos, req}, em,
						fmt.Sprintf("small-%d_%d_%d", size, pos, req))
				}
			}
		}
	}

	// --- structured random chains
	n := o.Count(260, 3000)
	for i := 0; i < n; i++ {
		r := rng.Fork(fmt.Sprintf("rand%d", i))
		vis0 := r.Range(2, 30)
		var growth []int
		nq := r.Range(0, 14)
		switch r.Intn(5) {
		case 0, 1: // the chain does not move
		case 2: // moves only after the height has been read (harmless for the computed height)
			growth = []int{0, 0}
			for k := 0; k < nq; k++ {
				g := 0
				if r.Chance(1, 3) {
					g = r.Range(1, 2)
				}
				growth = append(growth, g)
			}
		case 3: // moves between the confirmations query and the height query
			growth = []int{r.Intn(2), r.Intn(3)}
			if growth[0]+growth[1] == 0 {
				growth[1] = 1
			}
		default:
			for k := 0; k < nq; k++ {
				g := 0
				if r.Chance(1, 4) {
					g = r.Range(1, 3)
				}
				growth = append(growth, g)
			}
		}
		total := vis0
		for _, g := range growth {
			total += g
		}
		total += r.Intn(3) // blocks that never become visible
		sizes := randSizes(r, total)
		in := input{Seed: r.U64(), Sizes: sizes, Vis0: vis0, Growth: growth}
		switch r.Intn(12) {
		case 0: // unknown transaction
			in.TxPos = -1
		case 1: // in a block that is not visible at the first query
			in.TxHeight = vis0 + r.Intn(total-vis0+1)
			if in.TxHeight >= total {
				in.TxHeight = total - 1
			}
			in.TxPos = pickPos(r, sizes[in.TxHeight])
		default:
			in.TxHeight = r.Intn(vis0)
			if r.Chance(1, 3) { // near the tip
				in.TxHeight = vis0 - 1 - r.Intn(min(vis0, 7))
			}
			in.TxPos = pickPos(r, sizes[in.TxHeight])
		}
		conf := vis0 - in.TxHeight
		if conf < 1 {
			conf = 1
		}
		switch r.Intn(10) {
		case 0:
			in.Required = uint(conf + r.Range(1, 3)) // insufficient
		case 1:
			in.Required = uint(conf) // exactly enough
		case 2:
			in.Required = 0
			if r.Bool() {
				in.Required = 1
			}
		default:
			in.Required = uint(r.Range(1, min(conf, 12)))
		}
		run(in, em, fmt.Sprintf("rand-%05d", i))
	}

	em.Close("non-trivial = a proof was assembled for a transaction in a block with at least two transactions "+
		"(a real Merkle path) with at least two required confirmations (header linkage is exercised)", nil)
}

func min(a, b int) int {
	if a < b {
		return a
	}
	return b
}
