package main

import (
	"fmt"
	"math/big"
	"sort"
	"strings"

	"google.golang.org/protobuf/proto"
	"google.golang.org/protobuf/reflect/protoreflect"

	"verifharness/lib"
)

// Rendering of the cases of the types modelled in Coq (Model/C19.v): the input bytes, the
// observed outcomes of the key parsers on the byte strings the decoder hands to them, and the
// decoded value read back field by field from its re-encoding.

const maxModelledBytes = 700

func coqBytes(b []byte) string {
	if len(b) == 0 {
		return "[]"
	}
	return fmt.Sprintf("(hb %d 0x%x)", len(b), b)
}

func renderVal0(m protoreflect.Message, f fspec) (string, bool) {
	fd := m.Descriptor().Fields().ByNumber(protoreflect.FieldNumber(f.num))
	if fd == nil {
		return "", false
	}
	switch f.kind {
	case "u32max", "u32trunc", "u32full", "u64":
		return fmt.Sprintf("VN %d", m.Get(fd).Uint()), true
	case "bytes":
		return "VB " + coqBytes(m.Get(fd).Bytes()), true
	case "str":
		return "VB " + coqBytes([]byte(m.Get(fd).String())), true
	case "big":
		return "VN " + new(big.Int).SetBytes(m.Get(fd).Bytes()).String(), true
	case "rep", "repstr":
		l := m.Get(fd).List()
		items := make([]string, l.Len())
		for i := range items {
			if f.kind == "rep" {
				items[i] = coqBytes(l.Get(i).Bytes())
			} else {
				items[i] = coqBytes([]byte(l.Get(i).String()))
			}
		}
		return "VL " + lib.List(items), true
	case "map":
		mp := m.Get(fd).Map()
		var keys []uint64
		vals := map[uint64][]byte{}
		mp.Range(func(k protoreflect.MapKey, v protoreflect.Value) bool {
			keys = append(keys, k.Uint())
			vals[k.Uint()] = v.Bytes()
			return true
		})
		sort.Slice(keys, func(i, j int) bool { return keys[i] < keys[j] })
		items := make([]string, len(keys))
		for i, k := range keys {
			items[i] = fmt.Sprintf("(%d, %s)", k, coqBytes(vals[k]))
		}
		return "VM " + lib.List(items), true
	}
	return "", false
}

func renderValue(m protoreflect.Message, fields []fspec) (string, bool) {
	items := make([]string, len(fields))
	for i, f := range fields {
		if f.kind == "msg" {
			fd := m.Descriptor().Fields().ByNumber(protoreflect.FieldNumber(f.num))
			if fd == nil || !m.Has(fd) {
				return "", false
			}
			sub := m.Get(fd).Message()
			subs := make([]string, len(f.sub))
			for j, sf := range f.sub {
				s, ok := renderVal0(sub, sf)
				if !ok {
					return "", false
				}
				subs[j] = "(" + s + ")"
			}
			items[i] = "VMsg " + lib.List(subs)
			continue
		}
		s, ok := renderVal0(m, f)
		if !ok {
			return "", false
		}
		items[i] = "V0 (" + s + ")"
	}
	return lib.List(items), true
}

// the byte strings of the parsed input that the decoder passes to a key parser
func collectOracle(m protoreflect.Message, fields []fspec, acc map[string]bool, out *[]string) {
	add := func(p int, b []byte) {
		k := fmt.Sprintf("%d|%x", p, b)
		if acc[k] {
			return
		}
		acc[k] = true
		c, ok := runParser(p, b)
		r := "None"
		if ok {
			r = "(Some " + coqBytes(c) + ")"
		}
		*out = append(*out, fmt.Sprintf("(%d, %s, %s)", p, coqBytes(b), r))
	}
	for _, f := range fields {
		fd := m.Descriptor().Fields().ByNumber(protoreflect.FieldNumber(f.num))
		if fd == nil {
			continue
		}
		if f.kind == "msg" {
			if m.Has(fd) {
				collectOracle(m.Get(fd).Message(), f.sub, acc, out)
			}
			continue
		}
		if f.chk != "parse" && f.chk != "neparse" {
			continue
		}
		switch f.kind {
		case "bytes":
			add(f.n, m.Get(fd).Bytes())
		case "rep":
			l := m.Get(fd).List()
			for i := 0; i < l.Len(); i++ {
				add(f.n, l.Get(i).Bytes())
			}
		case "map":
			var keys []uint64
			vals := map[uint64][]byte{}
			m.Get(fd).Map().Range(func(k protoreflect.MapKey, v protoreflect.Value) bool {
				keys = append(keys, k.Uint())
				vals[k.Uint()] = v.Bytes()
				return true
			})
			sort.Slice(keys, func(i, j int) bool { return keys[i] < keys[j] })
			for _, k := range keys {
				add(f.n, vals[k])
			}
		}
	}
}

func renderModelCase(t *typeEntry, kind string, bytes []byte, orig []byte, o *outcome) (string, bool) {
	if t.schema == nil || len(bytes) > maxModelledBytes {
		return "", false
	}
	obs := o.Class
	if o.Class == "Ok" {
		if o.b1 == nil || len(o.b1) > maxModelledBytes {
			return "", false
		}
		m := t.newPB()
		if err := proto.Unmarshal(o.b1, m); err != nil {
			return "", false
		}
		v, ok := renderValue(m.ProtoReflect(), t.schema.fields)
		if !ok {
			return "", false
		}
		obs = "(Ok " + v + ")"
	}
	origTerm := "None"
	if kind == "roundtrip" {
		m := t.newPB()
		if err := proto.Unmarshal(orig, m); err != nil {
			return "", false
		}
		v, ok := renderValue(m.ProtoReflect(), t.schema.fields)
		if !ok {
			return "", false
		}
		origTerm = "(Some " + v + ")"
	}
	var orc []string
	in := t.newPB()
	if err := proto.Unmarshal(bytes, in); err == nil {
		collectOracle(in.ProtoReflect(), t.schema.fields, map[string]bool{}, &orc)
	}
	term := fmt.Sprintf("(CModel {| m_schema := %s; m_kind := %s; m_bytes := %s; m_orc := %s; m_obs := %s; m_valid := %s; m_orig := %s |})",
		t.schema.coq, kindCoq[kind], coqBytes(bytes), lib.List(orc), obs, lib.Bool(o.Valid), origTerm)
	if len(term) > 60000 || strings.Count(term, ";") > 12000 {
		return "", false
	}
	return term, true
}
