package main

import (
	"crypto/elliptic"
	"encoding/json"
	"fmt"
	"math/big"
	"os"
	"sort"
	"time"

	"github.com/bnb-chain/tss-lib/ecdsa/keygen"
	"github.com/btcsuite/btcd/btcec"
	bn256 "github.com/ethereum/go-ethereum/crypto/bn256/cloudflare"
	"google.golang.org/protobuf/proto"
	"google.golang.org/protobuf/reflect/protoreflect"
	"google.golang.org/protobuf/types/known/timestamppb"

	beacondkg "github.com/keep-network/keep-core/pkg/beacon/dkg"
	"github.com/keep-network/keep-core/pkg/beacon/dkg/result"
	resultpb "github.com/keep-network/keep-core/pkg/beacon/dkg/result/gen/pb"
	"github.com/keep-network/keep-core/pkg/beacon/entry"
	entrypb "github.com/keep-network/keep-core/pkg/beacon/entry/gen/pb"
	"github.com/keep-network/keep-core/pkg/beacon/gjkr"
	gjkrpb "github.com/keep-network/keep-core/pkg/beacon/gjkr/gen/pb"
	"github.com/keep-network/keep-core/pkg/beacon/registry"
	registrypb "github.com/keep-network/keep-core/pkg/beacon/registry/gen/pb"
	"github.com/keep-network/keep-core/pkg/crypto/ephemeral"
	netpb "github.com/keep-network/keep-core/pkg/net/gen/pb"
	"github.com/keep-network/keep-core/pkg/net/security/handshake"
	"github.com/keep-network/keep-core/pkg/protocol/announcer"
	announcerpb "github.com/keep-network/keep-core/pkg/protocol/announcer/gen/pb"
	"github.com/keep-network/keep-core/pkg/protocol/inactivity"
	inactivitypb "github.com/keep-network/keep-core/pkg/protocol/inactivity/gen/pb"
	"github.com/keep-network/keep-core/pkg/tbtc"
	tbtcpb "github.com/keep-network/keep-core/pkg/tbtc/gen/pb"
	"github.com/keep-network/keep-core/pkg/tecdsa"
	tecdsadkg "github.com/keep-network/keep-core/pkg/tecdsa/dkg"
	tecdsadkgpb "github.com/keep-network/keep-core/pkg/tecdsa/dkg/gen/pb"
	tecdsapb "github.com/keep-network/keep-core/pkg/tecdsa/gen/pb"
	"github.com/keep-network/keep-core/pkg/tecdsa/signing"
	signingpb "github.com/keep-network/keep-core/pkg/tecdsa/signing/gen/pb"

	"verifharness/lib"
)

// ---------------------------------------------------------------- field specifications
// One description serves the generator of well-formed values and (for modelled types) the
// rendering of the Coq schema value.  kind: u32max | u32trunc | u32full | u64 | bytes | str |
// big | rep | repstr | map | msg.  chk (bytes, rep, map values): any | len | parse | neparse.
type fspec struct {
	num  int
	kind string
	chk  string
	n    int     // chk=len: the length; chk=parse/neparse: the parser number
	sub  []fspec // kind=msg
}

type mschema struct {
	coq    string // name of the schema in Model/C19.v
	fields []fspec
}

func fs(num int, kind string, rest ...interface{}) fspec {
	f := fspec{num: num, kind: kind, chk: "any"}
	for _, x := range rest {
		switch v := x.(type) {
		case string:
			f.chk = v
		case int:
			f.n = v
		case []fspec:
			f.sub = v
		}
	}
	return f
}

var sender = fs(1, "u32max")

const (
	pEphPub = 1 + iota
	pEphPriv
	pG1
	pG2
	pWalletPub
	pKeyShare
)

// ---------------------------------------------------------------- key material

func scalar(r *lib.Rng) *big.Int {
	k := new(big.Int).SetBytes(r.Bytes(32))
	k.Mod(k, new(big.Int).Sub(btcec.S256().N, big.NewInt(1)))
	return k.Add(k, big.NewInt(1))
}

var smallShareCache [][]byte

// a well-formed, canonical value for key parser p
func genKey(p int, r *lib.Rng) []byte {
	switch p {
	case pEphPub:
		_, pub := btcec.PrivKeyFromBytes(btcec.S256(), scalar(r).Bytes())
		return (*ephemeral.PublicKey)(pub).Marshal()
	case pEphPriv:
		priv, _ := btcec.PrivKeyFromBytes(btcec.S256(), scalar(r).Bytes())
		return (*ephemeral.PrivateKey)(priv).Marshal()
	case pG1:
		return new(bn256.G1).ScalarBaseMult(scalar(r)).Marshal()
	case pG2:
		return new(bn256.G2).ScalarBaseMult(scalar(r)).Marshal()
	case pWalletPub:
		x, y := tecdsa.Curve.ScalarBaseMult(scalar(r).Bytes())
		return elliptic.Marshal(tecdsa.Curve, x, y)
	case pKeyShare:
		// a small but valid private key share: only the ECDSA public key is set; canonical
		// form obtained through the implementation itself
		x, y := tecdsa.Curve.ScalarBaseMult(scalar(r).Bytes())
		b := mustMarshal(&tecdsapb.PrivateKeyShare{Data: &tecdsapb.LocalPartySaveData{
			Ks:       [][]byte{r.Bytes(3)},
			EcdsaPub: &tecdsapb.LocalPartySaveData_ECPoint{X: x.Bytes(), Y: y.Bytes()}}})
		c, ok := runParser(pKeyShare, b)
		if !ok {
			panic("small key share rejected")
		}
		return c
	}
	panic("unknown parser")
}

// the key parsers exactly as the decoders call them; ok=false: the parser returned an error
func runParser(p int, b []byte) (canon []byte, ok bool) {
	defer func() {
		if r := recover(); r != nil {
			canon, ok = nil, false
		}
	}()
	switch p {
	case pEphPub:
		k, err := ephemeral.UnmarshalPublicKey(b)
		if err != nil {
			return nil, false
		}
		return k.Marshal(), true
	case pEphPriv:
		return ephemeral.UnmarshalPrivateKey(b).Marshal(), true
	case pG1:
		g := new(bn256.G1)
		if _, err := g.Unmarshal(b); err != nil {
			return nil, false
		}
		return g.Marshal(), true
	case pG2:
		g := new(bn256.G2)
		if _, err := g.Unmarshal(b); err != nil {
			return nil, false
		}
		return g.Marshal(), true
	case pWalletPub:
		x, y := elliptic.Unmarshal(tecdsa.Curve, b)
		if x == nil || y == nil {
			return nil, false
		}
		return elliptic.Marshal(tecdsa.Curve, x, y), true
	case pKeyShare:
		s := &tecdsa.PrivateKeyShare{}
		if err := s.Unmarshal(b); err != nil {
			return nil, false
		}
		c, err := s.Marshal()
		if err != nil {
			return nil, false
		}
		return c, true
	}
	return nil, false
}

var fixtures []keygen.LocalPartySaveData

func loadFixtures() {
	root := os.Getenv("VERIF_REPO")
	if root == "" {
		root = "/repo"
	}
	for i := 0; i < 5; i++ {
		bz, err := os.ReadFile(fmt.Sprintf("%s/pkg/internal/tecdsatest/testdata/private_key_share_data_%d.json", root, i))
		if err != nil {
			panic(err)
		}
		var d keygen.LocalPartySaveData
		if err := json.Unmarshal(bz, &d); err != nil {
			panic(err)
		}
		fixtures = append(fixtures, d)
	}
}

func fullShare(i int) []byte {
	b, err := tecdsa.NewPrivateKeyShare(fixtures[i%len(fixtures)]).Marshal()
	if err != nil {
		panic(err)
	}
	return b
}

// ---------------------------------------------------------------- generic generator from a field specification

var sampleStrings = []string{"", "session-1", "0x7f3a", "zażółć-gęślą-jaźń", "会話-42", "é\U0001F511", "a"}

func genBytesFor(f fspec, r *lib.Rng, edge int) []byte {
	switch f.chk {
	case "len":
		if edge == 3 {
			return make([]byte, f.n)
		}
		return r.Bytes(f.n)
	case "parse", "neparse":
		return genKey(f.n, r)
	}
	switch edge {
	case 1:
		return nil
	case 2:
		return r.Bytes(300)
	}
	return r.Bytes(r.Intn(40))
}

func bigBytes(r *lib.Rng, edge int) []byte {
	switch edge {
	case 1:
		return nil
	case 2:
		return new(big.Int).Lsh(big.NewInt(1), 255).Bytes()
	}
	return new(big.Int).SetBytes(r.Bytes(1 + r.Intn(9))).Bytes()
}

func fill(m protoreflect.Message, fields []fspec, r *lib.Rng, edge int) {
	for _, f := range fields {
		fd := m.Descriptor().Fields().ByNumber(protoreflect.FieldNumber(f.num))
		if fd == nil {
			panic(fmt.Sprintf("no field %d in %s", f.num, m.Descriptor().FullName()))
		}
		count := func() int {
			switch edge {
			case 1:
				return 0
			case 2:
				return 40
			case 3:
				return 1
			}
			return r.Intn(6)
		}
		switch f.kind {
		case "u32max", "u32trunc":
			v := uint32(1 + r.Intn(255))
			switch edge {
			case 1:
				v = 0
			case 2:
				v = 255
			case 3:
				v = 1
			}
			m.Set(fd, protoreflect.ValueOfUint32(v))
		case "u32full":
			v := uint32(r.U64())
			if edge == 1 {
				v = 0
			} else if edge == 2 {
				v = 1<<32 - 1
			}
			m.Set(fd, protoreflect.ValueOfUint32(v))
		case "u64":
			v := r.U64()
			if edge == 1 {
				v = 0
			} else if edge == 2 {
				v = 1<<64 - 1
			} else if edge == 0 {
				v = uint64(r.Intn(1 << 20))
			}
			m.Set(fd, protoreflect.ValueOfUint64(v))
		case "bytes":
			m.Set(fd, protoreflect.ValueOfBytes(genBytesFor(f, r, edge)))
		case "big":
			m.Set(fd, protoreflect.ValueOfBytes(bigBytes(r, edge)))
		case "str":
			s := sampleStrings[r.Intn(len(sampleStrings))]
			if edge == 1 {
				s = ""
			}
			m.Set(fd, protoreflect.ValueOfString(s))
		case "rep":
			l := m.Mutable(fd).List()
			for i, n := 0, count(); i < n; i++ {
				e := genBytesFor(f, r, 0)
				if f.chk == "any" && i == 1 {
					e = nil // an empty element is well-formed
				}
				l.Append(protoreflect.ValueOfBytes(e))
			}
		case "repstr":
			l := m.Mutable(fd).List()
			for i, n := 0, count(); i < n; i++ {
				l.Append(protoreflect.ValueOfString(fmt.Sprintf("0x%x%s", r.Bytes(4), sampleStrings[r.Intn(len(sampleStrings))])))
			}
		case "map":
			mp := m.Mutable(fd).Map()
			for i, n := 0, count(); i < n; i++ {
				k := uint32(r.Intn(256))
				if i == 0 && r.Bool() {
					k = 0
				}
				mp.Set(protoreflect.ValueOfUint32(k).MapKey(), protoreflect.ValueOfBytes(genBytesFor(f, r, 0)))
			}
		case "msg":
			fill(m.Mutable(fd).Message(), f.sub, r, edge)
		default:
			panic("kind " + f.kind)
		}
	}
}

func specGen(newPB func() proto.Message, fields []fspec) func(*lib.Rng, int) proto.Message {
	return func(r *lib.Rng, edge int) proto.Message {
		m := newPB()
		fill(m.ProtoReflect(), fields, r, edge)
		return m
	}
}

// ---------------------------------------------------------------- the table

func buildTypes() []*typeEntry {
	loadFixtures()
	var ts []*typeEntry
	// modelled type: schema name in Coq + field specification
	modelled := func(name string, nc func() codec, np func() proto.Message, coq string, fields ...fspec) {
		ts = append(ts, &typeEntry{name: name, newCodec: nc, newPB: np, gen: specGen(np, fields),
			schema: &mschema{coq, fields}})
	}
	custom := func(name string, nc func() codec, np func() proto.Message, gen func(*lib.Rng, int) proto.Message) *typeEntry {
		t := &typeEntry{name: name, newCodec: nc, newPB: np, gen: gen}
		ts = append(ts, t)
		return t
	}
	str := func(n int) fspec { return fs(n, "str") }
	ephPubMap := fs(2, "map", "parse", pEphPub)
	privMap := fs(2, "map", "neparse", pEphPriv)

	// --- pkg/beacon/gjkr
	modelled("gjkr.EphemeralPublicKeyMessage", func() codec { return &gjkr.EphemeralPublicKeyMessage{} },
		func() proto.Message { return &gjkrpb.EphemeralPublicKey{} }, "S_gjkr_EphemeralPublicKey", sender, ephPubMap, str(3))
	modelled("gjkr.MemberCommitmentsMessage", func() codec { return &gjkr.MemberCommitmentsMessage{} },
		func() proto.Message { return &gjkrpb.MemberCommitments{} }, "S_gjkr_MemberCommitments", sender, fs(2, "rep", "parse", pG1), str(3))
	custom("gjkr.PeerSharesMessage", func() codec { return &gjkr.PeerSharesMessage{} },
		func() proto.Message { return &gjkrpb.PeerShares{} }, func(r *lib.Rng, edge int) proto.Message {
			m := &gjkrpb.PeerShares{SenderID: uint32(1 + r.Intn(255)), SessionID: sampleStrings[r.Intn(len(sampleStrings))],
				Shares: map[uint32]*gjkrpb.PeerShares_Shares{}}
			n := r.Intn(6)
			if edge == 1 {
				n, m.SenderID, m.SessionID = 0, 0, ""
			} else if edge == 2 {
				n = 40
			}
			for i := 0; i < n; i++ {
				m.Shares[uint32(r.Intn(256))] = &gjkrpb.PeerShares_Shares{EncryptedShareS: r.Bytes(r.Intn(50)), EncryptedShareT: r.Bytes(r.Intn(50))}
			}
			return m
		})
	modelled("gjkr.SecretSharesAccusationsMessage", func() codec { return &gjkr.SecretSharesAccusationsMessage{} },
		func() proto.Message { return &gjkrpb.SecretSharesAccusations{} }, "S_gjkr_Accusations", sender, privMap, str(3))
	modelled("gjkr.MemberPublicKeySharePointsMessage", func() codec { return &gjkr.MemberPublicKeySharePointsMessage{} },
		func() proto.Message { return &gjkrpb.MemberPublicKeySharePoints{} }, "S_gjkr_MemberPublicKeySharePoints", sender, fs(2, "rep", "parse", pG2), str(3))
	modelled("gjkr.PointsAccusationsMessage", func() codec { return &gjkr.PointsAccusationsMessage{} },
		func() proto.Message { return &gjkrpb.PointsAccusations{} }, "S_gjkr_Accusations", sender, privMap, str(3))
	modelled("gjkr.MisbehavedEphemeralKeysMessage", func() codec { return &gjkr.MisbehavedEphemeralKeysMessage{} },
		func() proto.Message { return &gjkrpb.MisbehavedEphemeralKeys{} }, "S_gjkr_MisbehavedEphemeralKeys", sender, privMap, str(3))

	// --- pkg/beacon/dkg, dkg/result, entry, registry
	genThresholdSigner := func(r *lib.Rng, edge int) *registrypb.ThresholdSigner {
		m := &registrypb.ThresholdSigner{MemberIndex: uint32(1 + r.Intn(255)), GroupPublicKey: genKey(pG2, r),
			GroupPrivateKeyShare: new(big.Int).SetBytes(r.Bytes(32)).String(), GroupPublicKeyShares: map[uint32][]byte{}}
		n := r.Intn(5)
		if edge == 1 {
			n, m.MemberIndex, m.GroupPrivateKeyShare = 0, 0, "0"
		} else if edge == 2 {
			n = 30
		}
		for i := 0; i < n; i++ {
			m.GroupPublicKeyShares[uint32(r.Intn(256))] = genKey(pG2, r)
			m.GroupOperators = append(m.GroupOperators, fmt.Sprintf("0x%x", r.Bytes(20)))
		}
		return m
	}
	signerEqual := func(a, b []byte) (bool, error) {
		ma, mb := &registrypb.ThresholdSigner{}, &registrypb.ThresholdSigner{}
		if err := proto.Unmarshal(a, ma); err != nil {
			return false, err
		}
		if err := proto.Unmarshal(b, mb); err != nil {
			return false, err
		}
		return proto.Equal(ma, mb), nil
	}
	custom("beacon/dkg.ThresholdSigner", func() codec { return &beacondkg.ThresholdSigner{} },
		func() proto.Message { return &registrypb.ThresholdSigner{} },
		func(r *lib.Rng, edge int) proto.Message { return genThresholdSigner(r, edge) })
	hashSig := []fspec{sender, fs(2, "bytes", "len", 32), fs(3, "bytes"), fs(4, "bytes"), str(5)}
	modelled("beacon/dkg/result.DKGResultHashSignatureMessage", func() codec { return &result.DKGResultHashSignatureMessage{} },
		func() proto.Message { return &resultpb.DKGResultHashSignature{} }, "S_hash_signature", hashSig...)
	sps := []fspec{sender, fs(2, "bytes"), str(3)}
	modelled("beacon/entry.SignatureShareMessage", func() codec { return &entry.SignatureShareMessage{} },
		func() proto.Message { return &entrypb.SignatureShare{} }, "S_sender_payload_session", sps...)
	mt := custom("beacon/registry.Membership", func() codec { return &registry.Membership{} },
		func() proto.Message { return &registrypb.Membership{} }, func(r *lib.Rng, edge int) proto.Message {
			ch := sampleStrings[r.Intn(len(sampleStrings))]
			return &registrypb.Membership{Signer: mustMarshal(genThresholdSigner(r, edge)), Channel: ch}
		})
	mt.pbEqual = func(a, b []byte) (bool, error) {
		ma, mb := &registrypb.Membership{}, &registrypb.Membership{}
		if err := proto.Unmarshal(a, ma); err != nil {
			return false, err
		}
		if err := proto.Unmarshal(b, mb); err != nil {
			return false, err
		}
		if ma.Channel != mb.Channel {
			return false, nil
		}
		return signerEqual(ma.Signer, mb.Signer)
	}

	// --- pkg/tecdsa
	custom("tecdsa.PrivateKeyShare", func() codec { return &tecdsa.PrivateKeyShare{} },
		func() proto.Message { return &tecdsapb.PrivateKeyShare{} }, func(r *lib.Rng, edge int) proto.Message {
			m := &tecdsapb.PrivateKeyShare{}
			b := fullShare(r.Intn(5))
			if edge == 1 || edge == 3 {
				b = genKey(pKeyShare, r)
			}
			if err := proto.Unmarshal(b, m); err != nil {
				panic(err)
			}
			return m
		})
	custom("tecdsa.Signature", func() codec { return &tecdsa.Signature{} },
		func() proto.Message { return &tecdsapb.Signature{} }, func(r *lib.Rng, edge int) proto.Message {
			return genSignature(r, edge)
		})

	// --- pkg/tecdsa/dkg
	df := tecdsadkg.VerifC19Factories()
	dk := func(n string) func() codec { f := df[n]; return func() codec { return f() } }
	modelled("tecdsa/dkg.ephemeralPublicKeyMessage", dk("ephemeralPublicKeyMessage"),
		func() proto.Message { return &tecdsadkgpb.EphemeralPublicKeyMessage{} }, "S_tecdsa_EphemeralPublicKey", sender, ephPubMap, str(3))
	modelled("tecdsa/dkg.tssRoundOneMessage", dk("tssRoundOneMessage"),
		func() proto.Message { return &tecdsadkgpb.TSSRoundOneMessage{} }, "S_sender_payload_session", sps...)
	sppS := []fspec{sender, fs(2, "bytes"), fs(3, "map"), str(4)}
	modelled("tecdsa/dkg.tssRoundTwoMessage", dk("tssRoundTwoMessage"),
		func() proto.Message { return &tecdsadkgpb.TSSRoundTwoMessage{} }, "S_sender_payload_peers_session", sppS...)
	modelled("tecdsa/dkg.tssRoundThreeMessage", dk("tssRoundThreeMessage"),
		func() proto.Message { return &tecdsadkgpb.TSSRoundThreeMessage{} }, "S_sender_payload_session", sps...)
	modelled("tecdsa/dkg.tssFinalizationMessage", dk("tssFinalizationMessage"),
		func() proto.Message { return &tecdsadkgpb.TSSFinalizationMessage{} }, "S_tecdsa_dkg_Finalization", sender, str(2))
	modelled("tecdsa/dkg.resultSignatureMessage", dk("resultSignatureMessage"),
		func() proto.Message { return &tecdsadkgpb.ResultSignatureMessage{} }, "S_hash_signature", hashSig...)
	custom("tecdsa/dkg.PreParams", func() codec { return &tecdsadkg.PreParams{} },
		func() proto.Message { return &tecdsadkgpb.PreParams{} }, func(r *lib.Rng, edge int) proto.Message {
			d := fixtures[r.Intn(5)].LocalPreParams
			bb := func(x *big.Int) []byte {
				if edge == 1 {
					return nil
				}
				return x.Bytes()
			}
			ts := time.Unix(int64(r.Intn(2000000000)), int64(r.Intn(1000000000))).UTC()
			if edge == 1 {
				ts = time.Unix(0, 0).UTC()
			}
			return &tecdsadkgpb.PreParams{Data: &tecdsadkgpb.PreParams_LocalPreParams{
				PaillierSK: &tecdsadkgpb.PreParams_PrivateKey{PublicKey: &tecdsadkgpb.PreParams_PublicKey{N: bb(d.PaillierSK.N)},
					LambdaN: bb(d.PaillierSK.LambdaN), PhiN: bb(d.PaillierSK.PhiN)},
				NTilde: bb(d.NTildei), H1I: bb(d.H1i), H2I: bb(d.H2i), Alpha: bb(d.Alpha), Beta: bb(d.Beta), P: bb(d.P), Q: bb(d.Q)},
				CreationTimestamp: timestamppb.New(ts)}
		})

	// --- pkg/tecdsa/signing
	sf := signing.VerifC19Factories()
	sg := func(n string) func() codec { f := sf[n]; return func() codec { return f() } }
	modelled("tecdsa/signing.ephemeralPublicKeyMessage", sg("ephemeralPublicKeyMessage"),
		func() proto.Message { return &signingpb.EphemeralPublicKeyMessage{} }, "S_tecdsa_EphemeralPublicKey", sender, ephPubMap, str(3))
	modelled("tecdsa/signing.tssRoundOneMessage", sg("tssRoundOneMessage"),
		func() proto.Message { return &signingpb.TSSRoundOneMessage{} }, "S_sender_payload_peers_session", sppS...)
	modelled("tecdsa/signing.tssRoundTwoMessage", sg("tssRoundTwoMessage"),
		func() proto.Message { return &signingpb.TSSRoundTwoMessage{} }, "S_sender_peers_session", sender, fs(2, "map"), str(3))
	for _, rd := range []struct {
		n  string
		np func() proto.Message
	}{
		{"Three", func() proto.Message { return &signingpb.TSSRoundThreeMessage{} }},
		{"Four", func() proto.Message { return &signingpb.TSSRoundFourMessage{} }},
		{"Five", func() proto.Message { return &signingpb.TSSRoundFiveMessage{} }},
		{"Six", func() proto.Message { return &signingpb.TSSRoundSixMessage{} }},
		{"Seven", func() proto.Message { return &signingpb.TSSRoundSevenMessage{} }},
		{"Eight", func() proto.Message { return &signingpb.TSSRoundEightMessage{} }},
		{"Nine", func() proto.Message { return &signingpb.TSSRoundNineMessage{} }},
	} {
		modelled("tecdsa/signing.tssRound"+rd.n+"Message", sg("tssRound"+rd.n+"Message"), rd.np, "S_sender_payload_session", sps...)
	}

	// --- pkg/protocol
	inf := inactivity.VerifC19Factories()["claimSignatureMessage"]
	modelled("protocol/inactivity.claimSignatureMessage", func() codec { return inf() },
		func() proto.Message { return &inactivitypb.ClaimSignatureMessage{} }, "S_hash_signature", hashSig...)
	anf := announcer.VerifC19Factories()["announcementMessage"]
	modelled("protocol/announcer.announcementMessage", func() codec { return anf() },
		func() proto.Message { return &announcerpb.AnnouncementMessage{} }, "S_announcement", sender, str(2), str(3))

	// --- pkg/net/security/handshake
	modelled("handshake.Act1Message", func() codec { return &handshake.Act1Message{} },
		func() proto.Message { return &netpb.Act1Message{} }, "S_act1", fs(1, "bytes", "len", 8), str(2))
	modelled("handshake.Act2Message", func() codec { return &handshake.Act2Message{} },
		func() proto.Message { return &netpb.Act2Message{} }, "S_act2", fs(1, "bytes", "len", 8), fs(2, "bytes", "len", 32), str(3))
	modelled("handshake.Act3Message", func() codec { return &handshake.Act3Message{} },
		func() proto.Message { return &netpb.Act3Message{} }, "S_act3", fs(1, "bytes", "len", 32))

	// --- pkg/tbtc
	tf := tbtc.VerifC19Factories()
	tb := func(n string) func() codec { f := tf[n]; return func() codec { return f() } }
	walletSpec := []fspec{fs(1, "bytes", "parse", pWalletPub), fs(2, "repstr")}
	signerSpec := []fspec{fs(1, "msg", walletSpec), fs(2, "u32trunc"), fs(3, "bytes", "parse", pKeyShare)}
	signerGenSmall := specGen(func() proto.Message { return &tbtcpb.Signer{} }, signerSpec)
	ts = append(ts, &typeEntry{name: "tbtc.signer", newCodec: tb("signer"), newPB: func() proto.Message { return &tbtcpb.Signer{} },
		schema: &mschema{"S_tbtc_signer", signerSpec},
		gen: func(r *lib.Rng, edge int) proto.Message {
			m := signerGenSmall(r, edge).(*tbtcpb.Signer)
			if edge == 0 && r.Chance(1, 3) || edge == 4 {
				// a full-size key share from the test fixtures (too large for the Coq term: judged by class)
				m.PrivateKeyShare = fullShare(r.Intn(5))
			}
			return m
		}})
	custom("tbtc.signingDoneMessage", tb("signingDoneMessage"), func() proto.Message { return &tbtcpb.SigningDoneMessage{} },
		func(r *lib.Rng, edge int) proto.Message {
			m := &tbtcpb.SigningDoneMessage{SenderID: uint32(1 + r.Intn(255)), Message: bigBytes(r, edge), AttemptNumber: r.U64(),
				Signature: mustMarshal(genSignature(r, edge)), EndBlock: r.U64()}
			if edge == 1 {
				m.SenderID, m.AttemptNumber, m.EndBlock = 0, 0, 0
			}
			return m
		})
	proposals := []func(r *lib.Rng, edge int) proto.Message{
		nil, // noop
		specGen(func() proto.Message { return &tbtcpb.HeartbeatProposal{} }, []fspec{fs(1, "bytes", "len", 16)}),
		genDepositSweep,
		specGen(func() proto.Message { return &tbtcpb.RedemptionProposal{} }, []fspec{fs(1, "rep"), fs(2, "big")}),
		specGen(func() proto.Message { return &tbtcpb.MovingFundsProposal{} }, []fspec{fs(1, "rep", "len", 20), fs(2, "big")}),
		specGen(func() proto.Message { return &tbtcpb.MovedFundsSweepProposal{} }, []fspec{fs(1, "bytes", "len", 32), fs(2, "u32full"), fs(3, "big")}),
	}
	custom("tbtc.coordinationMessage", tb("coordinationMessage"), func() proto.Message { return &tbtcpb.CoordinationMessage{} },
		func(r *lib.Rng, edge int) proto.Message {
			at := r.Intn(6)
			if edge >= 1 {
				at = edge
			}
			var payload []byte
			if proposals[at] != nil {
				payload = mustMarshal(proposals[at](r, 0))
			}
			m := &tbtcpb.CoordinationMessage{SenderID: uint32(1 + r.Intn(255)), CoordinationBlock: r.U64(),
				WalletPublicKeyHash: r.Bytes(20), Proposal: &tbtcpb.CoordinationProposal{ActionType: uint32(at), Payload: payload}}
			if edge == 1 {
				m.SenderID, m.CoordinationBlock = 0, 0
			}
			return m
		})
	custom("tbtc.NoopProposal", func() codec { return &tbtc.NoopProposal{} }, nil,
		func(r *lib.Rng, edge int) proto.Message { return nil })
	modelled("tbtc.HeartbeatProposal", func() codec { return &tbtc.HeartbeatProposal{} },
		func() proto.Message { return &tbtcpb.HeartbeatProposal{} }, "S_tbtc_Heartbeat", fs(1, "bytes", "len", 16))
	custom("tbtc.DepositSweepProposal", func() codec { return &tbtc.DepositSweepProposal{} },
		func() proto.Message { return &tbtcpb.DepositSweepProposal{} }, genDepositSweep)
	modelled("tbtc.RedemptionProposal", func() codec { return &tbtc.RedemptionProposal{} },
		func() proto.Message { return &tbtcpb.RedemptionProposal{} }, "S_tbtc_Redemption", fs(1, "rep"), fs(2, "big"))
	modelled("tbtc.MovingFundsProposal", func() codec { return &tbtc.MovingFundsProposal{} },
		func() proto.Message { return &tbtcpb.MovingFundsProposal{} }, "S_tbtc_MovingFunds", fs(1, "rep", "len", 20), fs(2, "big"))
	modelled("tbtc.MovedFundsSweepProposal", func() codec { return &tbtc.MovedFundsSweepProposal{} },
		func() proto.Message { return &tbtcpb.MovedFundsSweepProposal{} }, "S_tbtc_MovedFundsSweep",
		fs(1, "bytes", "len", 32), fs(2, "u32full"), fs(3, "big"))

	sort.SliceStable(ts, func(i, j int) bool { return ts[i].name < ts[j].name })
	return ts
}

func genSignature(r *lib.Rng, edge int) *tecdsapb.Signature {
	m := &tecdsapb.Signature{R: bigBytes(r, 0), S: bigBytes(r, 0), RecoveryID: int32(r.Intn(256) - 128)}
	switch edge {
	case 1:
		m.R, m.S, m.RecoveryID = nil, nil, 0
	case 2:
		m.RecoveryID = 127
	case 3:
		m.RecoveryID = -128
	}
	return m
}

func genDepositSweep(r *lib.Rng, edge int) proto.Message {
	m := &tbtcpb.DepositSweepProposal{SweepTxFee: bigBytes(r, edge)}
	n := r.Intn(5)
	if edge == 1 {
		n = 0
	} else if edge == 2 {
		n = 30
	}
	for i := 0; i < n; i++ {
		m.DepositsKeys = append(m.DepositsKeys, &tbtcpb.DepositSweepProposal_DepositKey{FundingTxHash: r.Bytes(32), FundingOutputIndex: uint32(r.Intn(4))})
		// big.NewInt(int64(block)) then Uint64(): blocks below 2^63 round-trip
		m.DepositsRevealBlocks = append(m.DepositsRevealBlocks, r.U64()>>1)
	}
	return m
}

// ---------------------------------------------------------------- corpus: minimised regression cases

func corpus(em *lib.Emitter, byName map[string]*typeEntry) {
	r := lib.NewRng(19)
	st := byName["tbtc.signer"]
	good := st.gen(r, 3).(*tbtcpb.Signer)
	goodBytes := mustMarshal(good)
	// witnesses of the repaired defect: all three crashed the node before the fix: commit
	runCase(em, st, "corrupt", "corpus:signer-empty", []byte{}, nil, "corpus/signer-empty")
	noKey := proto.Clone(good).(*tbtcpb.Signer)
	noKey.Wallet.PublicKey = nil
	runCase(em, st, "corrupt", "corpus:signer-wallet-without-public-key", mustMarshal(noKey), nil, "corpus/signer-wallet-without-key")
	noWallet := proto.Clone(good).(*tbtcpb.Signer)
	noWallet.Wallet = nil
	runCase(em, st, "corrupt", "corpus:signer-without-wallet", mustMarshal(noWallet), nil, "corpus/signer-without-wallet")
	emptyWallet := proto.Clone(good).(*tbtcpb.Signer)
	emptyWallet.Wallet = &tbtcpb.Wallet{}
	runCase(em, st, "corrupt", "corpus:signer-empty-wallet", mustMarshal(emptyWallet), nil, "corpus/signer-empty-wallet")
	runCase(em, st, "roundtrip", "corpus:signer-good", goodBytes, goodBytes, "corpus/signer-good")
	full := proto.Clone(good).(*tbtcpb.Signer)
	full.PrivateKeyShare = fullShare(0)
	runCase(em, st, "roundtrip", "corpus:signer-full-share", mustMarshal(full), mustMarshal(full), "corpus/signer-full-share")
	// the gjkr accusation decoders swallow the key-map error
	at := byName["gjkr.SecretSharesAccusationsMessage"]
	runCase(em, at, "corrupt", "corpus:accusations-key-300", mustMarshal(&gjkrpb.SecretSharesAccusations{SenderID: 7,
		AccusedMembersKeys: map[uint32][]byte{300: genKey(pEphPriv, r)}, SessionID: "s"}), nil, "corpus/accusations-key-300")
	runCase(em, at, "corrupt", "corpus:accusations-empty-key", mustMarshal(&gjkrpb.SecretSharesAccusations{SenderID: 7,
		AccusedMembersKeys: map[uint32][]byte{3: {}}, SessionID: "s"}), nil, "corpus/accusations-empty-key")
	// sub-messages omitted
	cm := byName["tbtc.coordinationMessage"]
	runCase(em, cm, "corrupt", "corpus:coordination-without-proposal", mustMarshal(&tbtcpb.CoordinationMessage{SenderID: 3,
		CoordinationBlock: 900, WalletPublicKeyHash: make([]byte, 20)}), nil, "corpus/coordination-without-proposal")
	runCase(em, byName["tecdsa.PrivateKeyShare"], "corrupt", "corpus:keyshare-empty-data",
		mustMarshal(&tecdsapb.PrivateKeyShare{Data: &tecdsapb.LocalPartySaveData{}}), nil, "corpus/keyshare-empty-data")
	runCase(em, byName["tecdsa.PrivateKeyShare"], "corrupt", "corpus:keyshare-bigxj-empty-point",
		mustMarshal(&tecdsapb.PrivateKeyShare{Data: &tecdsapb.LocalPartySaveData{BigXj: []*tecdsapb.LocalPartySaveData_ECPoint{{}}}}), nil, "corpus/keyshare-bigxj-empty-point")
	runCase(em, byName["tecdsa/dkg.PreParams"], "corrupt", "corpus:preparams-only-timestamp",
		mustMarshal(&tecdsadkgpb.PreParams{CreationTimestamp: timestamppb.New(time.Unix(5, 5))}), nil, "corpus/preparams-only-timestamp")
	runCase(em, byName["tecdsa/dkg.PreParams"], "corrupt", "corpus:preparams-data-without-key",
		mustMarshal(&tecdsadkgpb.PreParams{Data: &tecdsadkgpb.PreParams_LocalPreParams{NTilde: []byte{5}}}), nil, "corpus/preparams-data-without-key")
	runCase(em, byName["gjkr.PeerSharesMessage"], "corrupt", "corpus:peershares-entry-without-value",
		[]byte{0x08, 0x01, 0x12, 0x02, 0x08, 0x05}, nil, "corpus/peershares-entry-without-value")
	// decoded values are independent (seeded C19a: one proposal instance per action type shared by
	// all decoded coordination messages): two messages of each action type, a rejected one between
	for at := 1; at <= 5; at++ {
		var steps []hstepRaw
		for j := 0; j < 2; j++ {
			b := mustMarshal(cm.gen(r, at))
			steps = append(steps, hstepRaw{"roundtrip", fmt.Sprintf("gen:%d", at), b, b})
		}
		bad := proto.Clone(cm.gen(r, at)).(*tbtcpb.CoordinationMessage)
		bad.SenderID = 300
		steps = append(steps[:1], hstepRaw{"corrupt", "corpus:sender-300", mustMarshal(bad), nil}, steps[1])
		runHistory(em, cm, "corpus:coordination-same-action", steps, at%2 == 0, fmt.Sprintf("corpus/history-coordination-action-%d", at))
	}
}
