// Driver for C19: every Unmarshal receiver of the anchored packages is run on (a) a committed
// corpus, (b) encodings of generated well-formed values (round trip), (c) structure-aware
// corruptions of such encodings, (d) random bytes / random valid token streams, (e) histories of
// 2-4 decodes whose decoded values are all read back after the last decode (history.go).  The observable
// is Ok | Err | Panic (panics recovered) plus a validity flag of the accepted value.  For the
// types modelled in Coq (modelled.go) the bytes, the observed key-parser outcomes and the
// decoded value are sent so that Model/C19.v decodes the same bytes; for the others only the
// outcome class is judged.
package main

import (
	"crypto/sha256"
	"encoding/hex"
	"fmt"
	"os"
	"reflect"
	"sort"
	"strings"

	"google.golang.org/protobuf/encoding/protowire"
	"google.golang.org/protobuf/proto"

	"verifharness/lib"
)

type codec interface {
	Marshal() ([]byte, error)
	Unmarshal([]byte) error
}

type typeEntry struct {
	name     string
	newCodec func() codec
	newPB    func() proto.Message                      // the pb message the decoder parses into (nil: none)
	gen      func(r *lib.Rng, edge int) proto.Message  // a well-formed pb-level value (edge: 0 = random, 1.. = edge shapes)
	pbEqual  func(a, b []byte) (bool, error)           // optional override of the canonical comparison
	schema   *mschema                                  // Coq schema when the type is modelled (modelled.go)
}

type input struct {
	Type  string `json:"type"`
	Kind  string `json:"kind"` // roundtrip | corrupt | random
	Label string `json:"label"`
	Bytes string `json:"bytes"` // hex
	Orig  string `json:"orig"`  // hex of the generated pb value (round trip), else ""
	// kind = history: the decodes of the history, in order (history.go)
	Steps      []stepIn `json:"steps,omitempty"`
	Interleave bool     `json:"interleave,omitempty"`
}

var det = proto.MarshalOptions{Deterministic: true}

func mustMarshal(m proto.Message) []byte {
	b, err := det.Marshal(m)
	if err != nil {
		panic(err)
	}
	return b
}

// canonical comparison of two encodings of t's pb message
func (t *typeEntry) equalPB(a, b []byte) (bool, error) {
	if t.pbEqual != nil {
		return t.pbEqual(a, b)
	}
	if t.newPB == nil {
		return string(a) == string(b), nil
	}
	ma, mb := t.newPB(), t.newPB()
	if err := proto.Unmarshal(a, ma); err != nil {
		return false, err
	}
	if err := proto.Unmarshal(b, mb); err != nil {
		return false, err
	}
	return proto.Equal(ma, mb), nil
}

type outcome struct {
	Class     string `json:"class"` // Ok | Err | Panic
	Valid     bool   `json:"valid"`
	Reason    string `json:"reason"`
	Err       string `json:"err"`
	DeepEqual bool   `json:"deepEqual"`
	b1        []byte
}

func safeUnmarshal(c codec, b []byte) (cls string, msg string) {
	defer func() {
		if r := recover(); r != nil {
			cls, msg = "Panic", fmt.Sprint(r)
		}
	}()
	if err := c.Unmarshal(b); err != nil {
		return "Err", err.Error()
	}
	return "Ok", ""
}

func safeMarshal(c codec) (b []byte, cls string, msg string) {
	defer func() {
		if r := recover(); r != nil {
			b, cls, msg = nil, "Panic", fmt.Sprint(r)
		}
	}()
	b, err := c.Marshal()
	if err != nil {
		return nil, "Err", err.Error()
	}
	return b, "Ok", ""
}

func observe(t *typeEntry, kind string, bytes []byte, orig []byte) outcome {
	v0 := t.newCodec()
	cls, msg := safeUnmarshal(v0, append([]byte{}, bytes...))
	o := outcome{Class: cls, Err: msg}
	if cls != "Ok" {
		return o
	}
	b1, c1, m1 := safeMarshal(v0)
	switch c1 {
	case "Panic":
		o.Reason, o.Err = "remarshal-panic", m1
		return o
	case "Err":
		// the accepted value cannot be encoded again, but nothing crashes: tolerated
		o.Valid, o.Reason, o.Err = true, "remarshal-err", m1
		if kind == "roundtrip" {
			o.Valid = false
		}
		return o
	}
	o.b1 = b1
	v1 := t.newCodec()
	c2, m2 := safeUnmarshal(v1, append([]byte{}, b1...))
	if c2 != "Ok" {
		o.Reason, o.Err = "redecode-"+c2, m2
		return o
	}
	b2, c3, m3 := safeMarshal(v1)
	if c3 != "Ok" {
		o.Reason, o.Err = "reremarshal-"+c3, m3
		return o
	}
	eq, err := t.equalPB(b1, b2)
	if err != nil || !eq {
		o.Reason = "not-a-fixpoint"
		if err != nil {
			o.Err = err.Error()
		}
		return o
	}
	o.DeepEqual = reflect.DeepEqual(v0, v1)
	o.Valid = true
	if kind == "roundtrip" {
		eq, err := t.equalPB(orig, b1)
		if err != nil || !eq {
			o.Valid, o.Reason = false, "differs-from-original"
		}
	}
	return o
}

var kindCoq = map[string]string{"roundtrip": "KRoundTrip", "corrupt": "KCorrupt", "random": "KRandom"}

func runCase(em *lib.Emitter, t *typeEntry, kind, label string, bytes []byte, orig []byte, id string) {
	o := observe(t, kind, bytes, orig)
	coq, modelled := renderModelCase(t, kind, bytes, orig, &o)
	if !modelled {
		coq = fmt.Sprintf("(CGen %s O%s %s)", kindCoq[kind], o.Class, lib.Bool(o.Valid))
	}
	nontrivial := false
	if len(bytes) > 0 && t.newPB != nil {
		nontrivial = proto.Unmarshal(bytes, t.newPB()) == nil
	}
	key := t.name + "|" + kind + "|" + hex.EncodeToString(bytes)
	if len(key) > 200 {
		h := sha256.Sum256([]byte(key))
		key = t.name + "|" + kind + "|" + hex.EncodeToString(h[:])
	}
	fam := label
	for i, c := range label {
		if c == ':' {
			fam = label[:i]
			break
		}
	}
	em.Tally(t.name + "/" + kind + "/" + o.Class)
	if modelled {
		em.Tally("modelled-in-coq")
	} else {
		em.Tally("outcome-class-only")
	}
	if o.Class == "Ok" && !o.Valid {
		em.Tally(t.name + "/INVALID/" + o.Reason)
	}
	if o.Reason == "remarshal-err" {
		em.Tally(t.name + "/remarshal-err")
	}
	em.Case(lib.Case{
		ID:         id,
		Coq:        coq,
		Key:        key,
		Nontrivial: nontrivial,
		Sig: map[string]interface{}{"type": t.name, "kind": kind, "class": o.Class, "valid": o.Valid,
			"label": fam, "modelled": modelled},
		In:  input{Type: t.name, Kind: kind, Label: label, Bytes: hex.EncodeToString(bytes), Orig: hex.EncodeToString(orig)},
		Out: o,
	})
}

// ---------------------------------------------------------------- wire tokens (driver side)

type tok struct {
	num protowire.Number
	typ protowire.Type
	v   uint64 // varint / fixed
	b   []byte // bytes payload, or raw bytes of a group
}

func parseToks(b []byte) ([]tok, bool) {
	var out []tok
	for len(b) > 0 {
		num, typ, n := protowire.ConsumeTag(b)
		if n < 0 || num > protowire.MaxValidNumber {
			return nil, false
		}
		b = b[n:]
		t := tok{num: num, typ: typ}
		switch typ {
		case protowire.VarintType:
			v, m := protowire.ConsumeVarint(b)
			if m < 0 {
				return nil, false
			}
			t.v, b = v, b[m:]
		case protowire.Fixed32Type:
			v, m := protowire.ConsumeFixed32(b)
			if m < 0 {
				return nil, false
			}
			t.v, b = uint64(v), b[m:]
		case protowire.Fixed64Type:
			v, m := protowire.ConsumeFixed64(b)
			if m < 0 {
				return nil, false
			}
			t.v, b = v, b[m:]
		case protowire.BytesType:
			v, m := protowire.ConsumeBytes(b)
			if m < 0 {
				return nil, false
			}
			t.b, b = append([]byte{}, v...), b[m:]
		default:
			return nil, false
		}
		out = append(out, t)
	}
	return out, true
}

func appendTok(b []byte, t tok) []byte {
	if t.typ == 7 { // raw bytes, no tag of its own
		return append(b, t.b...)
	}
	b = protowire.AppendTag(b, t.num, t.typ)
	switch t.typ {
	case protowire.VarintType:
		b = protowire.AppendVarint(b, t.v)
	case protowire.Fixed32Type:
		b = protowire.AppendFixed32(b, uint32(t.v))
	case protowire.Fixed64Type:
		b = protowire.AppendFixed64(b, t.v)
	case protowire.BytesType:
		b = protowire.AppendBytes(b, t.b)
	}
	return b
}

func serToks(ts []tok) []byte {
	b := []byte{}
	for _, t := range ts {
		b = appendTok(b, t)
	}
	return b
}

type mutation struct {
	label string
	bytes []byte
}

func cloneToks(ts []tok) []tok { return append([]tok{}, ts...) }

func without(ts []tok, mask uint64) []tok {
	var out []tok
	for i, t := range ts {
		if mask&(1<<uint(i)) == 0 {
			out = append(out, t)
		}
	}
	return out
}

var varintEdge = []uint64{0, 1, 127, 128, 255, 256, 65535, 1 << 31, 1<<32 - 1, 1 << 32, 1<<32 + 5, 1 << 63, 1<<64 - 1}

// mutateToks lists structure-aware corruptions of one token list; depth-limited recursion into
// length-delimited payloads that are themselves token streams (sub-messages, map entries,
// nested encodings).  wrap turns a mutated token list of this level into full top-level bytes.
func mutateToks(ts []tok, wrap func([]tok) []byte, prefix string, depth int, r *lib.Rng, out *[]mutation) {
	add := func(label string, ts2 []tok) { *out = append(*out, mutation{prefix + label, wrap(ts2)}) }
	n := len(ts)
	// omissions
	if n <= 6 {
		for mask := uint64(1); mask < 1<<uint(n); mask++ {
			add(fmt.Sprintf("omit:%b", mask), without(ts, mask))
		}
	} else {
		for i := 0; i < n; i++ {
			add(fmt.Sprintf("omit:1<<%d", i), without(ts, 1<<uint(i%64)))
		}
		for k := 0; k < 12; k++ {
			add(fmt.Sprintf("omit:rnd%d", k), without(ts, r.U64()))
		}
		add("omit:all", nil)
	}
	for i, t := range ts {
		set := func(label string, t2 ...tok) {
			ts2 := append(cloneToks(ts[:i]), t2...)
			ts2 = append(ts2, ts[i+1:]...)
			add(fmt.Sprintf("f%d#%d:%s", t.num, i, label), ts2)
		}
		raw := func(b ...byte) tok { return tok{typ: 7, b: b} }
		switch t.typ {
		case protowire.VarintType:
			for _, v := range varintEdge {
				set(fmt.Sprintf("varint=%d", v), tok{num: t.num, typ: t.typ, v: v})
			}
			set("varint-nonminimal", raw(append(protowire.AppendTag(nil, t.num, 0), byte(t.v&0x7f)|0x80, 0x80, 0x00)...))
			set("varint-overflow", raw(append(protowire.AppendTag(nil, t.num, 0), 0xff, 0xff, 0xff, 0xff, 0xff, 0xff, 0xff, 0xff, 0xff, 0x02)...))
			set("varint-11bytes", raw(append(protowire.AppendTag(nil, t.num, 0), 0x80, 0x80, 0x80, 0x80, 0x80, 0x80, 0x80, 0x80, 0x80, 0x80, 0x01)...))
			set("as-bytes", tok{num: t.num, typ: protowire.BytesType, b: protowire.AppendVarint(nil, t.v)})
			set("as-fixed32", tok{num: t.num, typ: protowire.Fixed32Type, v: t.v})
			set("as-fixed64", tok{num: t.num, typ: protowire.Fixed64Type, v: t.v})
			set("dup-differs", t, tok{num: t.num, typ: t.typ, v: t.v + 1})
			set("dup-256", t, tok{num: t.num, typ: t.typ, v: 256})
		case protowire.BytesType:
			l := len(t.b)
			bt := func(b []byte) tok { return tok{num: t.num, typ: t.typ, b: b} }
			set("empty", bt(nil))
			set("one-byte", bt([]byte{0x01}))
			if l > 0 {
				set("len-1", bt(t.b[:l-1]))
				set("len+1", bt(append(append([]byte{}, t.b...), 0x00)))
				set("random", bt(r.Bytes(l)))
				set("zeros", bt(make([]byte, l)))
				ff := make([]byte, l)
				for j := range ff {
					ff[j] = 0xff
				}
				set("ones", bt(ff))
				fl := append([]byte{}, t.b...)
				fl[r.Intn(l)] ^= 1 << uint(r.Intn(8))
				set("bitflip", bt(fl))
				set("dup-reversed", t, bt(reverse(t.b)))
				set("dup-empty", t, bt(nil))
			}
			if l < 600 {
				set("oversized", bt(r.Bytes(4096)))
			}
			set("bad-utf8", bt([]byte{0xff, 0xfe, 0xc0, 0x80}))
			set("utf8-surrogate", bt([]byte{0xed, 0xa0, 0x80}))
			set("as-varint", tok{num: t.num, typ: protowire.VarintType, v: 7})
			set("as-fixed64", tok{num: t.num, typ: protowire.Fixed64Type, v: 7})
			set("as-group", raw(append(protowire.AppendTag(nil, t.num, protowire.StartGroupType), protowire.AppendTag(nil, t.num, protowire.EndGroupType)...)...))
			set("len-beyond-input", raw(append(protowire.AppendTag(nil, t.num, protowire.BytesType), 0x64, 0x01, 0x02, 0x03)...))
			// nested structure
			if inner, ok := parseToks(t.b); ok && len(inner) > 0 && depth > 0 {
				ii := i
				num := t.num
				mutateToks(inner, func(in2 []tok) []byte {
					ts2 := cloneToks(ts)
					ts2[ii] = tok{num: num, typ: protowire.BytesType, b: serToks(in2)}
					return wrap(ts2)
				}, fmt.Sprintf("%sf%d#%d/", prefix, t.num, i), depth-1, r, out)
				if len(inner) >= 2 {
					h := len(inner) / 2
					set("split-in-two", bt(serToks(inner[:h])), bt(serToks(inner[h:])))
				}
			}
		}
		// move to the end
		if i+1 < n {
			ts2 := append(cloneToks(ts[:i]), ts[i+1:]...)
			ts2 = append(ts2, t)
			add(fmt.Sprintf("f%d#%d:move-last", t.num, i), ts2)
		}
	}
	// unknown fields, bad tags, groups
	extra := func(label string, b ...byte) {
		add("append:"+label, append(cloneToks(ts), tok{typ: 7, b: b}))
		add("prepend:"+label, append([]tok{{typ: 7, b: b}}, ts...))
	}
	tag := func(num protowire.Number, typ protowire.Type) []byte { return protowire.AppendTag(nil, num, typ) }
	cat := func(bs ...[]byte) []byte {
		var o []byte
		for _, b := range bs {
			o = append(o, b...)
		}
		return o
	}
	extra("unknown15-varint", cat(tag(15, 0), []byte{0x2a})...)
	extra("unknown16-bytes", cat(tag(16, 2), []byte{0x02, 0xff, 0xfe})...)
	extra("unknown2047-fixed32", cat(tag(2047, 5), []byte{1, 2, 3, 4})...)
	extra("unknown-max-fixed64", cat(tag(protowire.MaxValidNumber, 1), []byte{1, 2, 3, 4, 5, 6, 7, 8})...)
	extra("field-number-0", 0x00, 0x01)
	extra("field-number-2^29", cat(protowire.AppendVarint(nil, uint64(1<<29)<<3), []byte{0x01})...)
	extra("wiretype-6", cat(tag(9, 6), []byte{0x01})...)
	extra("wiretype-7", cat(tag(9, 7), []byte{0x01})...)
	extra("group-ok", cat(tag(9, 3), tag(1, 0), []byte{0x05}, tag(2, 2), []byte{0x01, 0x61}, tag(9, 4))...)
	extra("group-nested", cat(tag(9, 3), tag(8, 3), tag(8, 4), tag(9, 4))...)
	extra("group-bignum-inside", cat(tag(9, 3), protowire.AppendVarint(nil, uint64(1<<30)<<3), []byte{0x01}, tag(9, 4))...)
	extra("group-unterminated", cat(tag(9, 3), tag(1, 0), []byte{0x05})...)
	extra("group-mismatched-end", cat(tag(9, 3), tag(8, 4))...)
	extra("end-group-alone", tag(9, 4)...)
	extra("truncated-tag", 0x80)
	extra("fixed32-truncated", cat(tag(15, 5), []byte{1, 2})...)
	for _, t := range ts {
		if t.typ == protowire.BytesType || t.typ == protowire.VarintType {
			extra(fmt.Sprintf("f%d-as-group", t.num), cat(tag(t.num, 3), tag(t.num, 4))...)
			extra(fmt.Sprintf("f%d-fixed64", t.num), cat(tag(t.num, 1), []byte{1, 2, 3, 4, 5, 6, 7, 8})...)
		}
	}
}

func reverse(b []byte) []byte {
	o := make([]byte, len(b))
	for i := range b {
		o[len(b)-1-i] = b[i]
	}
	return o
}

func mutations(valid []byte, r *lib.Rng, tier string) []mutation {
	var out []mutation
	ts, ok := parseToks(valid)
	if ok {
		mutateToks(ts, serToks, "", 3, r, &out)
	}
	// truncations
	n := len(valid)
	if tier == "quick" {
		seen := map[int]bool{}
		for _, k := range []int{1, 2, 3, n / 2, n - 2, n - 1} {
			if k > 0 && k < n && !seen[k] {
				seen[k] = true
				out = append(out, mutation{fmt.Sprintf("trunc:%d", k), valid[:k]})
			}
		}
		for j := 0; j < 4 && n > 4; j++ {
			k := 1 + r.Intn(n-1)
			out = append(out, mutation{fmt.Sprintf("trunc:%d", k), valid[:k]})
		}
	} else {
		step := 1
		if n > 400 {
			step = n / 400
		}
		for k := 1; k < n; k += step {
			out = append(out, mutation{fmt.Sprintf("trunc:%d", k), valid[:k]})
		}
	}
	return out
}

// random valid token streams over the small field numbers
func randomToks(r *lib.Rng, depth int) []byte {
	n := r.Intn(6)
	var ts []tok
	for i := 0; i < n; i++ {
		t := tok{num: protowire.Number(1 + r.Intn(6))}
		switch r.Intn(8) {
		case 0, 1, 2:
			t.typ = protowire.VarintType
			t.v = varintEdge[r.Intn(len(varintEdge))]
			if r.Bool() {
				t.v = uint64(r.Intn(300))
			}
		case 3:
			t.typ, t.v = protowire.Fixed32Type, r.U64()
		case 4:
			t.typ, t.v = protowire.Fixed64Type, r.U64()
		default:
			t.typ = protowire.BytesType
			switch r.Intn(4) {
			case 0:
				if depth > 0 {
					t.b = randomToks(r, depth-1)
				}
			case 1:
				t.b = r.Bytes([]int{0, 1, 8, 16, 20, 32, 33, 64, 65, 128}[r.Intn(10)])
			case 2:
				t.b = []byte("séssion-" + fmt.Sprint(r.Intn(100)))
			default:
				t.b = r.Bytes(r.Intn(40))
			}
		}
		ts = append(ts, t)
	}
	return serToks(ts)
}

// ---------------------------------------------------------------- main

func main() {
	o := lib.ParseOpts()
	em := lib.NewEmitter()
	types := buildTypes()
	byName := map[string]*typeEntry{}
	for _, t := range types {
		byName[t.name] = t
	}
	if o.Replay != "" {
		var in input
		if err := lib.LoadReplay(o.Replay, &in); err != nil {
			fmt.Fprintln(os.Stderr, err)
			os.Exit(2)
		}
		t := byName[in.Type]
		if t == nil {
			fmt.Fprintln(os.Stderr, "unknown type", in.Type)
			os.Exit(2)
		}
		if in.Kind == "history" {
			var steps []hstepRaw
			for _, st := range in.Steps {
				b, _ := hex.DecodeString(st.Bytes)
				orig, _ := hex.DecodeString(st.Orig)
				if st.Kind != "roundtrip" {
					orig = nil
				}
				steps = append(steps, hstepRaw{st.Kind, st.Label, b, orig})
			}
			runHistory(em, t, in.Label, steps, in.Interleave, "replay")
			em.Close("replay", nil)
			return
		}
		b, _ := hex.DecodeString(in.Bytes)
		orig, _ := hex.DecodeString(in.Orig)
		runCase(em, t, in.Kind, in.Label, b, orig, "replay")
		em.Close("replay", nil)
		return
	}
	rng := lib.NewRng(o.Seed)
	thorough := o.Tier != "quick"

	// --- (a) corpus: fixed regression cases, independent of the seed
	corpus(em, byName)
	for _, t := range types {
		runCase(em, t, "corrupt", "corpus:empty-input", []byte{}, nil, t.name+"/corpus/empty")
	}

	perTypeCorrupt := o.Count(64, 1500)
	perTypeRandom := o.Count(12, 300)
	nRound := o.Count(6, 60)
	nHist := o.Count(10, 80)
	for _, t := range types {
		r := rng.Fork(t.name)
		// --- (b) round trip
		var valids [][]byte
		for i := 0; i < nRound; i++ {
			edge := 0
			if i < 4 {
				edge = i + 1
			}
			p := t.gen(r.Fork(fmt.Sprintf("gen%d", i)), edge)
			var b []byte
			if p != nil {
				b = mustMarshal(p)
			}
			valids = append(valids, b)
			runCase(em, t, "roundtrip", fmt.Sprintf("gen:%d", edge), b, b, fmt.Sprintf("%s/roundtrip/%d", t.name, i))
		}
		// --- (c) structure-aware corruption of two different well-formed encodings
		var muts []mutation
		for i, b := range valids {
			if i == 0 || i == 4 || (thorough && i%7 == 5) {
				muts = append(muts, mutations(b, r.Fork(fmt.Sprintf("mut%d", i)), o.Tier)...)
			}
		}
		// the omissions and emptied fields always run; the rest is sampled down to the budget
		var must, rest []mutation
		for _, m := range muts {
			if strings.Contains(m.label, "omit:") || hasSuffix(m.label, ":empty") {
				must = append(must, m)
			} else {
				rest = append(rest, m)
			}
		}
		if len(must) > perTypeCorrupt/2 {
			p := r.Fork("must").Perm(len(must))
			keep := make([]mutation, 0, perTypeCorrupt/2)
			for _, j := range p[:perTypeCorrupt/2] {
				keep = append(keep, must[j])
			}
			must = keep
		}
		budget := perTypeCorrupt - len(must)
		if budget < len(rest) {
			p := r.Fork("rest").Perm(len(rest))
			idx := append([]int{}, p[:budget]...)
			sort.Ints(idx)
			keep := make([]mutation, 0, budget)
			for _, j := range idx {
				keep = append(keep, rest[j])
			}
			rest = keep
		}
		seen := map[string]bool{}
		k := 0
		for _, m := range append(must, rest...) {
			h := string(m.bytes)
			if seen[h] {
				continue
			}
			seen[h] = true
			runCase(em, t, "corrupt", m.label, m.bytes, nil, fmt.Sprintf("%s/corrupt/%d", t.name, k))
			k++
		}
		// --- (d) random bytes and random valid token streams
		rr := r.Fork("random")
		for i := 0; i < perTypeRandom; i++ {
			var b []byte
			label := "bytes"
			if i%2 == 0 {
				b = rr.Bytes(rr.Intn(65))
			} else {
				b, label = randomToks(rr, 2), "tokens"
			}
			runCase(em, t, "random", label, b, nil, fmt.Sprintf("%s/random/%d", t.name, i))
		}
		// --- (e) histories: several decodes, every decoded value re-read after the last one
		histories(em, t, r.Fork("history"), nHist, o.Tier)
	}
	em.Close("non-trivial = the input is non-empty and accepted by the protobuf wire parser for the type's message (it reaches the hand-written Unmarshal glue); for a history: at least two of its inputs are",
		map[string]interface{}{"decoder_types": len(types)})
}

func hasSuffix(s, suf string) bool { return len(s) >= len(suf) && s[len(s)-len(suf):] == suf }
