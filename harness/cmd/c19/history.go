package main

import (
	"bytes"
	"crypto/sha256"
	"encoding/hex"
	"fmt"
	"reflect"
	"strings"

	"google.golang.org/protobuf/proto"

	"verifharness/lib"
)

// "Decoded values are independent": histories of 2–4 decodes by the same decoder in one process.
// Every step decodes into a fresh receiver; NOTHING is judged right after a decode.  After the
// last decode the input buffers are overwritten, and only then is every decoded value of the
// history read back (Marshal, twice), so a decoder that shares state between its results
// (a package-level instance, a retained input slice, a shared backing array) or a Marshal that
// changes its receiver shows up as an earlier value that no longer equals its source.  The
// reference of a step is the value it was encoded from (round-trip steps) and, for every
// accepted step, what a fresh decode of the same bytes in isolation gives (run after all the
// late reads).  The model side is Model/C19.v decode_history = map decode (Props: roundtrip_history).

type hstepRaw struct {
	kind  string // roundtrip | corrupt | random
	label string
	bytes []byte
	orig  []byte
}

type stepIn struct {
	Kind  string `json:"kind"`
	Label string `json:"label"`
	Bytes string `json:"bytes"`
	Orig  string `json:"orig"`
}

type histOut struct {
	Steps []outcome `json:"steps"`
}

func cp(b []byte) []byte { return append([]byte{}, b...) }

// observeHistory runs the history against the real decoder and returns, per step, the outcome
// class of the decode and the validity of the value as RE-READ at the end (outcome.b1 = the late
// encoding).
func observeHistory(t *typeEntry, steps []hstepRaw, interleave bool) []outcome {
	n := len(steps)
	vals := make([]codec, n)
	bufs := make([][]byte, n)
	outs := make([]outcome, n)
	bad := make([]string, n) // first reason that invalidates the late value of step i
	badErr := make([]string, n)
	flag := func(i int, reason, err string) {
		if bad[i] == "" {
			bad[i], badErr[i] = reason, err
		}
	}
	early := make([][][]byte, n) // reads taken between the decodes (interleave)
	for i, st := range steps {
		vals[i] = t.newCodec()
		bufs[i] = cp(st.bytes)
		cls, msg := safeUnmarshal(vals[i], bufs[i])
		outs[i] = outcome{Class: cls, Err: msg}
		if !bytes.Equal(bufs[i], st.bytes) {
			flag(i, "input-mutated-by-decoder", "")
		}
		if interleave {
			for j := 0; j <= i; j++ {
				if outs[j].Class != "Ok" {
					continue
				}
				b, c, m := safeMarshal(vals[j])
				if c == "Panic" {
					flag(j, "remarshal-panic", m)
				} else if c == "Ok" {
					early[j] = append(early[j], cp(b))
				}
			}
		}
	}
	// the caller reuses its buffers
	for i := range bufs {
		for k := range bufs[i] {
			bufs[i][k] ^= 0xa5
		}
	}
	// late reads of every decoded value, before anything else is decoded
	late := make([][]byte, n)
	lateCls := make([]string, n)
	lateMsg := make([]string, n)
	for i := range steps {
		if outs[i].Class != "Ok" {
			continue
		}
		b, c, m := safeMarshal(vals[i])
		late[i], lateCls[i], lateMsg[i] = cp(b), c, m
	}
	for i := range steps {
		if outs[i].Class != "Ok" || lateCls[i] != "Ok" {
			continue
		}
		b, c, m := safeMarshal(vals[i])
		if c != "Ok" {
			flag(i, "second-marshal-"+c, m)
		} else if eq, err := t.equalPB(late[i], b); err != nil || !eq {
			flag(i, "marshal-not-repeatable", "")
		}
	}
	// references
	for i, st := range steps {
		o := &outs[i]
		if o.Class != "Ok" {
			continue
		}
		ref := t.newCodec()
		rc, rm := safeUnmarshal(ref, cp(st.bytes))
		if rc != "Ok" {
			flag(i, "isolated-decode-"+rc, rm)
		}
		rb, rbc, _ := safeMarshal(ref)
		switch lateCls[i] {
		case "Panic":
			flag(i, "remarshal-panic", lateMsg[i])
		case "Err":
			// an accepted value that cannot be encoded again: tolerated for corrupted inputs
			// (as in the single-decode stream) provided it is what the isolated decode gives too
			o.Reason, o.Err = "remarshal-err", lateMsg[i]
			if st.kind == "roundtrip" {
				flag(i, "remarshal-err", lateMsg[i])
			} else if rc == "Ok" && rbc != "Err" {
				flag(i, "changed-after-later-decodes", "late read fails to encode, isolated decode encodes")
			}
		case "Ok":
			o.b1 = late[i]
			if rc == "Ok" {
				if rbc != "Ok" {
					flag(i, "changed-after-later-decodes", "isolated decode does not encode: "+rbc)
				} else if eq, err := t.equalPB(late[i], rb); err != nil || !eq {
					flag(i, "changed-after-later-decodes", "")
				}
				o.DeepEqual = reflect.DeepEqual(vals[i], ref)
			}
			for _, e := range early[i] {
				if eq, err := t.equalPB(late[i], e); err != nil || !eq {
					flag(i, "changed-between-reads", "")
				}
			}
			if st.kind == "roundtrip" {
				if eq, err := t.equalPB(st.orig, late[i]); err != nil || !eq {
					flag(i, "differs-from-original", "")
				}
			}
		}
		o.Valid = bad[i] == ""
		if bad[i] != "" {
			o.Reason = bad[i]
			if badErr[i] != "" {
				o.Err = badErr[i]
			}
		}
	}
	return outs
}

func renderHistCase(t *typeEntry, steps []hstepRaw, outs []outcome) (string, bool) {
	if t.schema == nil {
		return "", false
	}
	total := 0
	for _, st := range steps {
		if len(st.bytes) > maxModelledBytes {
			return "", false
		}
		total += len(st.bytes)
	}
	if total > 2*maxModelledBytes {
		return "", false
	}
	var orc []string
	acc := map[string]bool{}
	items := make([]string, len(steps))
	for i, st := range steps {
		o := &outs[i]
		obs := o.Class
		if o.Class == "Ok" {
			if o.b1 == nil || len(o.b1) > maxModelledBytes {
				return "", false
			}
			m := t.newPB()
			if err := proto.Unmarshal(o.b1, m); err != nil {
				return "", false
			}
			v, ok := renderValue(m.ProtoReflect(), t.schema.fields)
			if !ok {
				return "", false
			}
			obs = "(Ok " + v + ")"
		}
		origTerm := "None"
		if st.kind == "roundtrip" {
			m := t.newPB()
			if err := proto.Unmarshal(st.orig, m); err != nil {
				return "", false
			}
			v, ok := renderValue(m.ProtoReflect(), t.schema.fields)
			if !ok {
				return "", false
			}
			origTerm = "(Some " + v + ")"
		}
		in := t.newPB()
		if err := proto.Unmarshal(st.bytes, in); err == nil {
			collectOracle(in.ProtoReflect(), t.schema.fields, acc, &orc)
		}
		items[i] = fmt.Sprintf("HStep %s %s %s %s %s", kindCoq[st.kind], coqBytes(st.bytes), obs, lib.Bool(o.Valid), origTerm)
	}
	term := fmt.Sprintf("(CHist %s %s %s)", t.schema.coq, lib.List(orc), lib.List(items))
	if len(term) > 60000 || strings.Count(term, ";") > 12000 {
		return "", false
	}
	return term, true
}

func runHistory(em *lib.Emitter, t *typeEntry, label string, steps []hstepRaw, interleave bool, id string) {
	outs := observeHistory(t, steps, interleave)
	coq, modelled := renderHistCase(t, steps, outs)
	if !modelled {
		items := make([]string, len(steps))
		for i, st := range steps {
			items[i] = fmt.Sprintf("(%s, O%s, %s)", kindCoq[st.kind], outs[i].Class, lib.Bool(outs[i].Valid))
		}
		coq = "(CHistGen " + lib.List(items) + ")"
	}
	h := sha256.New()
	reach := 0
	classes := make([]string, len(steps))
	kinds := make([]string, len(steps))
	allValid := true
	in := input{Type: t.name, Kind: "history", Label: label, Interleave: interleave}
	for i, st := range steps {
		fmt.Fprintf(h, "%s|%d|", st.kind, len(st.bytes))
		h.Write(st.bytes)
		if len(st.bytes) > 0 && t.newPB != nil && proto.Unmarshal(st.bytes, t.newPB()) == nil {
			reach++
		}
		classes[i], kinds[i] = outs[i].Class, st.kind
		if outs[i].Class == "Panic" || (outs[i].Class == "Ok" && !outs[i].Valid) || (outs[i].Class == "Err" && st.kind == "roundtrip") {
			allValid = false
		}
		if outs[i].Class == "Ok" && !outs[i].Valid {
			em.Tally(t.name + "/history/INVALID/" + outs[i].Reason)
		}
		in.Steps = append(in.Steps, stepIn{st.kind, st.label, hex.EncodeToString(st.bytes), hex.EncodeToString(st.orig)})
	}
	em.Tally(t.name + "/history/" + strings.Join(classes, "-"))
	em.Tally(fmt.Sprintf("history/len%d", len(steps)))
	if modelled {
		em.Tally("history/modelled-in-coq")
	} else {
		em.Tally("history/outcome-class-only")
	}
	em.Case(lib.Case{
		ID:         id,
		Coq:        coq,
		Key:        fmt.Sprintf("%s|history|%v|%x", t.name, interleave, h.Sum(nil)),
		Nontrivial: reach >= 2,
		Sig: map[string]interface{}{"type": t.name, "kind": "history", "class": strings.Join(classes, "-"),
			"valid": allValid, "label": label, "modelled": modelled, "steps": strings.Join(kinds, "-")},
		In:  in,
		Out: histOut{outs},
	})
}

// histories generates the history stream of one decoder type.
func histories(em *lib.Emitter, t *typeEntry, r *lib.Rng, count int, tier string) {
	nv := 0
	valid := func(edge int) hstepRaw {
		nv++
		p := t.gen(r.Fork(fmt.Sprintf("hv%d", nv)), edge)
		var b []byte
		if p != nil {
			b = mustMarshal(p)
		}
		return hstepRaw{"roundtrip", fmt.Sprintf("gen:%d", edge), b, b}
	}
	nm := 0
	corrupt := func(of hstepRaw) hstepRaw {
		nm++
		rr := r.Fork(fmt.Sprintf("hm%d", nm))
		ms := mutations(of.bytes, rr, "quick")
		if len(ms) == 0 {
			return hstepRaw{"corrupt", "bytes", rr.Bytes(1 + rr.Intn(40)), nil}
		}
		m := ms[rr.Intn(len(ms))]
		return hstepRaw{"corrupt", m.label, m.bytes, nil}
	}
	for i := 0; i < count; i++ {
		var steps []hstepRaw
		label := ""
		switch {
		case i < 5:
			// two different values of the same shape (for polymorphic payloads: the same variant)
			e := []int{5, 3, 1, 4, 2}[i]
			steps, label = []hstepRaw{valid(e), valid(e)}, fmt.Sprintf("same-shape:%d", e)
		case i == 5:
			a, b := valid(0), valid(0)
			steps, label = []hstepRaw{a, corrupt(b), b}, "valid-corrupt-valid"
		case i == 6:
			a := valid(3)
			steps, label = []hstepRaw{a, corrupt(a)}, "valid-then-its-corruption"
		case i == 7:
			a := valid(5)
			steps, label = []hstepRaw{corrupt(a), a, a, valid(5)}, "corrupt-first-then-repeat"
		case i == 8:
			e := 1 + r.Intn(5)
			steps, label = []hstepRaw{valid(e), valid(1 + r.Intn(5)), valid(0), valid(e)}, "four-mixed"
		default:
			n := 2 + r.Intn(3)
			e := r.Intn(6)
			for j := 0; j < n; j++ {
				switch {
				case j > 0 && r.Chance(3, 10):
					steps = append(steps, corrupt(steps[r.Intn(j)]))
				case r.Chance(2, 3):
					steps = append(steps, valid(e))
				default:
					steps = append(steps, valid(r.Intn(6)))
				}
			}
			if steps[0].kind != "roundtrip" {
				steps[0] = valid(e)
			}
			label = "random"
		}
		runHistory(em, t, label, steps, i%2 == 1, fmt.Sprintf("%s/history/%d", t.name, i))
	}
}
