// Driver for C40: runs the real result / claim assembly and hash functions of
// pkg/chain/ethereum (through a TbtcChain that holds only chain id and key) and the real
// signer / submitter of pkg/tbtc on generated partitions of a group into misbehaved and
// supporting members, rebuilds the contract-side preimages with its own small ABI encoder,
// hashes them with go-ethereum's Keccak256, recovers every signature under the contract's message
// hash, and prints everything for the Coq model (Model/C40.v), which checks the bytes against
// its transcription of the contracts.
package main

import (
	"encoding/hex"
	"fmt"
	"math/big"
	"os"
	"path/filepath"
	"regexp"
	"strconv"

	ethcrypto "github.com/ethereum/go-ethereum/crypto"

	"verifharness/lib"
)

func run(in *input, em *lib.Emitter, id string) {
	// An invariant of the driver itself that breaks (a genuine signature refused by the client's
	// own check, supporters that disagree on the hash, an unexpected error of the real code) must
	// not take the other cases down with it: it is emitted as a case the judge rejects (BadCase:
	// a CEth whose message is not 32 bytes), with the input for --replay and the panic text.
	defer func() {
		if r := recover(); r != nil {
			em.Tally("driver-invariant-broken")
			em.Case(lib.Case{ID: id, Coq: "(CEth [] [] false)", Key: keyOf(in),
				Sig: map[string]interface{}{"kind": in.Kind, "driver_panic": true},
				In:  in, Out: map[string]interface{}{"driverPanic": fmt.Sprint(r)}})
		}
	}()
	switch in.Kind {
	case "dkg":
		runDkg(in, em, id)
	case "claim":
		runClaim(in, em, id)
	case "abi":
		runAbi(in, em, id)
	case "eth":
		runEth(in, em, id)
	case "consts":
		runConsts(em, id)
	case "hist":
		runHist(in, em, id)
	}
}

// ------------------------------------------------------------------ constants of both sides

func grabInt(src, pattern string) int {
	m := regexp.MustCompile(pattern).FindStringSubmatch(src)
	if m == nil {
		panic("constant not found: " + pattern)
	}
	v, _ := strconv.Atoi(m[1])
	return v
}

type constants struct {
	GoSize, GoQuorum, GoHonest                     int
	SolSize, SolThreshold, SolActive, SolPk, SolSig int
	InactThreshold, InactSig                       int
}

func readConsts() constants {
	repo := os.Getenv("VERIF_REPO")
	if repo == "" {
		repo = "/repo"
	}
	rd := func(p string) string {
		b, err := os.ReadFile(filepath.Join(repo, p))
		if err != nil {
			panic(err)
		}
		return string(b)
	}
	g := rd("pkg/tbtc/tbtc.go")
	v := rd("solidity/ecdsa/contracts/EcdsaDkgValidator.sol")
	i := rd("solidity/ecdsa/contracts/libraries/EcdsaInactivity.sol")
	return constants{
		GoSize:         grabInt(g, `GroupSize:\s*(\d+),`),
		GoQuorum:       grabInt(g, `GroupQuorum:\s*(\d+),`),
		GoHonest:       grabInt(g, `HonestThreshold:\s*(\d+),`),
		SolSize:        grabInt(v, `constant groupSize = (\d+);`),
		SolThreshold:   grabInt(v, `constant groupThreshold = (\d+);`),
		SolActive:      grabInt(v, `constant activeThreshold = (\d+);`),
		SolPk:          grabInt(v, `constant publicKeyByteSize = (\d+);`),
		SolSig:         grabInt(v, `constant signatureByteSize = (\d+);`),
		InactThreshold: grabInt(i, `constant groupThreshold = (\d+);`),
		InactSig:       grabInt(i, `constant signatureByteSize = (\d+);`),
	}
}

func runConsts(em *lib.Emitter, id string) {
	c := readConsts()
	em.Tally("consts")
	em.Case(lib.Case{ID: id,
		Coq: fmt.Sprintf("(CConsts {| go_size := %d; go_quorum := %d; go_honest := %d; sol_size := %d; "+
			"sol_threshold := %d; sol_active := %d; sol_pk_size := %d; sol_sig_size := %d; "+
			"inact_threshold := %d; inact_sig_size := %d |})",
			c.GoSize, c.GoQuorum, c.GoHonest, c.SolSize, c.SolThreshold, c.SolActive, c.SolPk, c.SolSig,
			c.InactThreshold, c.InactSig),
		Key: "consts", Nontrivial: true, Sig: map[string]interface{}{"kind": "consts"},
		In: &input{Kind: "consts"}, Out: c})
}

// ------------------------------------------------------------------ generators

type gen struct {
	r    *lib.Rng
	real constants
	pool *keyPool // keys with short coordinates (keys.go): corpus + this run's grind
	// operator keys: opShortNum out of 4 operators get a short-coordinate key from the pool
	opShortNum int
}

func (g *gen) privHex() string {
	for {
		b := g.r.Bytes(32)
		if _, err := ethcrypto.ToECDSA(b); err == nil {
			return hex.EncodeToString(b)
		}
	}
}

// groupKey is the group / wallet public key of a case: half of the time a key with short
// coordinates (uniform over the shapes in the pool), otherwise a uniformly drawn key.
func (g *gen) groupKey() curveKey {
	if g.r.Chance(1, 2) {
		return g.pool.pick(g.r)
	}
	return keyOfPriv(g.privHex())
}

func (g *gen) pubKey() (string, string) {
	k := g.groupKey()
	return k.X, k.Y
}

// opPriv is an operator's private key: a short-coordinate key of the pool (not yet used in
// this case) opShortNum times out of 4, a uniformly drawn one otherwise.
func (g *gen) opPriv(used map[string]bool) string {
	if g.r.Chance(g.opShortNum, 4) {
		if k, ok := g.pool.pickUnused(g.r, used); ok {
			used[k.Priv] = true
			return k.Priv
		}
	}
	p := g.privHex()
	used[p] = true
	return p
}

func (g *gen) chainID() string {
	switch g.r.Intn(5) {
	case 0:
		return "1"
	case 1:
		return "11155111"
	case 2:
		return new(big.Int).SetBytes(g.r.Bytes(32)).String()
	}
	return fmt.Sprint(g.r.Intn(100000))
}

// operators: nOps keys, each seat gets one of them (several seats per operator when nOps < n)
func (g *gen) seats(n, nOps int) ([]uint32, map[string]string) {
	ids := make([]uint32, 0, nOps)
	used := map[uint32]bool{}
	usedPriv := map[string]bool{}
	keys := map[string]string{}
	for len(ids) < nOps {
		id := uint32(g.r.U64())
		switch g.r.Intn(8) { // mostly small ids (short numerals), some above 2^31
		case 0:
			id |= 0x80000000
		case 1:
		default:
			id = id%2000 + 1
		}
		if id == 0 || used[id] {
			continue
		}
		used[id] = true
		ids = append(ids, id)
		keys[fmt.Sprint(id)] = g.opPriv(usedPriv)
	}
	members := make([]uint32, n)
	for i := range members {
		if i < nOps {
			members[i] = ids[i]
		} else {
			members[i] = ids[g.r.Intn(nOps)]
		}
	}
	p := g.r.Perm(n)
	out := make([]uint32, n)
	for i, j := range p {
		out[i] = members[j]
	}
	return out, keys
}

func shuffled8(r *lib.Rng, v []uint8) []uint8 {
	p := r.Perm(len(v))
	out := make([]uint8, len(v))
	for i, j := range p {
		out[i] = v[j]
	}
	return out
}

// subset picks k distinct elements of v (kept in v's order).
func subset(r *lib.Rng, v []uint8, k int) []uint8 {
	p := r.Perm(len(v))[:k]
	mark := map[int]bool{}
	for _, j := range p {
		mark[j] = true
	}
	var out []uint8
	for i, x := range v {
		if mark[i] {
			out = append(out, x)
		}
	}
	return out
}

// dkgCase builds a consistent input: misb misbehaved, signers a subset of the others.
func (g *gen) dkgCase(n, thr, act, quorum int, misb, signers []uint8, via bool) *input {
	r := g.r
	nOps := n
	if n > 1 && r.Chance(1, 2) {
		nOps = r.Range(1, n)
	}
	members, keys := g.seats(n, nOps)
	isM := map[uint8]bool{}
	for _, m := range misb {
		isM[m] = true
	}
	var oper []uint8
	for i := 1; i <= n; i++ {
		if !isM[uint8(i)] {
			oper = append(oper, uint8(i))
		}
	}
	x, y := g.pubKey()
	in := &input{Kind: "dkg", GroupSize: n, Threshold: thr, Active: act, Quorum: quorum, ViaSubmit: via,
		ChainID: g.chainID(), Start: uint64(r.Intn(1 << 30)), KeyX: x, KeyY: y, Members: members, OpKeys: keys,
		Submitter: uint8(1 + r.Intn(n)), Operating: oper, Misbehav: misb}
	if r.Chance(1, 8) {
		in.Start = r.U64() >> 1
	}
	if !via {
		// AssembleDKGResult sorts what it is given
		in.Operating = shuffled8(r, oper)
		in.Misbehav = shuffled8(r, misb)
	}
	for _, s := range shuffled8(r, signers) {
		in.Signers = append(in.Signers, signer{Index: s})
	}
	return in
}

// scaled contract constants for a group of n: the proportions of 100 / 51 / 90
func scaled(n int) (thr, act int) {
	thr = n/2 + 1
	if thr > n {
		thr = n
	}
	act = (9*n + 9) / 10
	if act < thr {
		act = thr
	}
	return
}

func rangeU8(lo, hi int) []uint8 {
	var v []uint8
	for i := lo; i <= hi; i++ {
		v = append(v, uint8(i))
	}
	return v
}

func (g *gen) randomValidDkg(n int, realConsts bool) *input {
	r := g.r
	thr, act := scaled(n)
	quorum := act
	if realConsts {
		n, thr, act, quorum = g.real.SolSize, g.real.SolThreshold, g.real.SolActive, g.real.GoQuorum
	}
	maxM := n - quorum
	nm := 0
	switch r.Intn(4) {
	case 0:
		nm = 0
	case 1:
		nm = maxM
	default:
		nm = r.Range(0, maxM)
	}
	all := rangeU8(1, n)
	var misb []uint8
	switch {
	case nm > 0 && r.Chance(1, 4): // the first members
		misb = all[:nm]
	case nm > 0 && r.Chance(1, 3): // the last members
		misb = all[n-nm:]
	case nm > 0 && r.Chance(1, 3): // first and last
		misb = append([]uint8{1}, all[n-nm+1:]...)
	default:
		misb = subset(r, all, nm)
	}
	isM := map[uint8]bool{}
	for _, m := range misb {
		isM[m] = true
	}
	var oper []uint8
	for _, i := range all {
		if !isM[i] {
			oper = append(oper, i)
		}
	}
	ns := quorum
	switch r.Intn(3) {
	case 1:
		ns = len(oper)
	case 2:
		ns = r.Range(quorum, len(oper))
	}
	return g.dkgCase(n, thr, act, quorum, misb, subset(r, oper, ns), r.Bool())
}

// malformed / out-of-contract inputs: only the correspondence is judged on most of them
func (g *gen) malformedDkg() *input {
	r := g.r
	n := r.Range(2, 12)
	in := g.randomValidDkg(n, false)
	in.ViaSubmit = false
	switch r.Intn(9) {
	case 0: // a signature of the wrong size
		k := r.Intn(len(in.Signers))
		in.Signers[k].Mut = []string{"short", "long", "empty"}[r.Intn(3)]
	case 1: // a coordinate that does not fit 32 bytes
		big33 := new(big.Int).Lsh(big.NewInt(int64(1+r.Intn(200))), 256)
		if r.Bool() {
			in.KeyX = big33.Text(16)
		} else {
			in.KeyY = big33.Text(16)
		}
	case 2: // an operating member index outside the group
		in.Operating = append(in.Operating, []uint8{0, uint8(n + 1), 255}[r.Intn(3)])
	case 3: // a signature by another operator's key or a corrupted one: assembled but not genuine
		k := r.Intn(len(in.Signers))
		in.Signers[k].Mut = []string{"wrongkey", "flip"}[r.Intn(2)]
	case 4: // below the quorum, through the submitter
		in.ViaSubmit = true
		in.Signers = in.Signers[:r.Intn(in.Quorum)]
	case 5: // a misbehaved member listed twice
		if len(in.Misbehav) > 0 {
			in.Misbehav = append(in.Misbehav, in.Misbehav[0])
		} else {
			in.Misbehav = []uint8{1, 1}
		}
	case 6: // a start block that does not fit int64
		in.Start = 1<<63 + r.U64()>>1
	case 7: // a supporter who is listed as misbehaved
		if len(in.Misbehav) > 0 {
			in.Signers = append(in.Signers, signer{Index: in.Misbehav[r.Intn(len(in.Misbehav))]})
		}
	case 8: // operating members that are not the complement of the misbehaved ones
		if len(in.Operating) > 1 {
			in.Operating = in.Operating[1:]
		}
	}
	return in
}

func (g *gen) claimCase(n, thr, quorum int) *input {
	r := g.r
	nOps := n
	if n > 1 && r.Chance(1, 2) {
		nOps = r.Range(1, n)
	}
	members, keys := g.seats(n, nOps)
	x, y := g.pubKey()
	all := rangeU8(1, n)
	ni := r.Range(1, n)
	if r.Chance(1, 2) {
		ni = r.Range(1, 3)
		if ni > n {
			ni = n
		}
	}
	raw := shuffled8(r, subset(r, all, ni))
	if r.Chance(1, 3) { // duplicates
		raw = append(raw, raw[r.Intn(len(raw))])
		raw = shuffled8(r, raw)
	}
	ns := quorum
	if r.Bool() {
		ns = r.Range(quorum, n)
	}
	in := &input{Kind: "claim", GroupSize: n, Threshold: thr, Quorum: quorum, ChainID: g.chainID(),
		KeyX: x, KeyY: y, Members: members, OpKeys: keys, RawInact: raw, Heartbeat: r.Bool(), NMembers: n,
		Nonce: fmt.Sprint(r.Intn(50))}
	if r.Chance(1, 6) {
		in.Nonce = new(big.Int).SetBytes(r.Bytes(32)).String()
	}
	for _, s := range shuffled8(r, subset(r, all, ns)) {
		in.Signers = append(in.Signers, signer{Index: s})
	}
	if r.Chance(1, 8) {
		in.Signers[r.Intn(len(in.Signers))].Mut = []string{"short", "long", "empty"}[r.Intn(3)]
	}
	return in
}

var wrongVMuts = []string{"vflip", "v01", "v29"}

// supporter-wrong-v stream: a would-be-submitted result where ONE supporter sent the genuine
// R || S of its operator key with another recovery byte.  There is one supporter more than the
// quorum, so the result is submitted whether the receiving member keeps or drops that signature.
func (g *gen) wrongVDkg(n int, mut string, via bool) *input {
	r := g.r
	thr := n/2 + 1
	quorum := n - 2
	if quorum < thr {
		quorum = thr
	}
	nm := r.Range(0, n-quorum-1)
	all := rangeU8(1, n)
	misb := subset(r, all, nm)
	isM := map[uint8]bool{}
	for _, m := range misb {
		isM[m] = true
	}
	var oper []uint8
	for _, i := range all {
		if !isM[i] {
			oper = append(oper, i)
		}
	}
	in := g.dkgCase(n, thr, quorum, quorum, misb, oper, via)
	in.Filter = true
	in.Signers[r.Intn(len(in.Signers))].Mut = mut
	return in
}

func (g *gen) wrongVClaim(n int, mut string) *input {
	thr := n/2 + 1
	in := g.claimCase(n, thr, thr)
	in.Signers = nil
	for _, s := range shuffled8(g.r, rangeU8(1, n)) {
		in.Signers = append(in.Signers, signer{Index: s})
	}
	in.Filter = true
	in.Signers[g.r.Intn(len(in.Signers))].Mut = mut
	return in
}

func (g *gen) abiCase() *input {
	r := g.r
	in := &input{Kind: "abi"}
	k := r.Range(1, 6)
	for i := 0; i < k; i++ {
		var a abiArg
		switch r.Intn(6) {
		case 0:
			a = abiArg{T: "uint256", U: new(big.Int).SetBytes(r.Bytes(r.Range(0, 32))).String()}
		case 1:
			a = abiArg{T: "bool", U: fmt.Sprint(r.Intn(2))}
		case 2:
			a = abiArg{T: "bytes", B: hex.EncodeToString(r.Bytes([]int{0, 1, 31, 32, 33, 64, 65, 100}[r.Intn(8)]))}
		case 3:
			a = abiArg{T: "uint8[]"}
			for j := r.Intn(12); j > 0; j-- {
				a.A = append(a.A, fmt.Sprint(r.Intn(256)))
			}
		case 4:
			a = abiArg{T: "uint32[]"}
			for j := r.Intn(12); j > 0; j-- {
				a.A = append(a.A, fmt.Sprint(uint32(r.U64())))
			}
		default:
			a = abiArg{T: "uint256[]"}
			for j := r.Intn(8); j > 0; j-- {
				a.A = append(a.A, new(big.Int).SetBytes(r.Bytes(r.Range(0, 32))).String())
			}
		}
		in.Abi = append(in.Abi, a)
	}
	return in
}

func main() {
	lib.SilenceLogs()
	o := lib.ParseOpts()
	em := lib.NewEmitter()
	if o.Replay != "" {
		var in input
		if err := lib.LoadReplay(o.Replay, &in); err != nil {
			fmt.Fprintln(os.Stderr, err)
			os.Exit(2)
		}
		run(&in, em, "replay")
		em.Close("replay", nil)
		return
	}
	rng := lib.NewRng(o.Seed)
	real := readConsts()
	// --- keys with short coordinates: the committed corpus keys plus, once per run and from the
	// run's PRNG, ground keys whose X has a leading zero byte, whose Y has one, where both have
	// one, and where X resp. Y has two (when met within the budget).  Every stream that hashes or
	// serialises a key draws its group / wallet key from this pool half of the time and a quarter
	// of its operator keys (see gen.groupKey / gen.opPriv).
	pool := corpusPool()
	pool.grind(rng.Fork("short-coordinate-keys"), o.Count(1<<17, 1<<20))
	mk := func(label string) *gen {
		return &gen{r: rng.Fork(label), real: real, pool: pool, opShortNum: 1}
	}

	// --- the constants of both sides
	runConsts(em, "consts")

	// --- corpus: minimised regression cases (fixed seed)
	{
		g := &gen{r: lib.NewRng(40), real: real, pool: corpusPool(), opShortNum: 1}
		// one misbehaved member only (the contract's range check is skipped for a single index)
		run(g.dkgCase(5, 3, 4, 4, []uint8{5}, []uint8{1, 2, 3, 4}, true), em, "corpus-single-misbehaved-last")
		run(g.dkgCase(5, 3, 4, 4, []uint8{1}, []uint8{2, 3, 4, 5}, false), em, "corpus-single-misbehaved-first")
		// misbehaved members handed over in descending order, signers inserted in descending order
		in := g.dkgCase(6, 4, 4, 4, []uint8{6, 1}, []uint8{5, 4, 3, 2}, false)
		in.Misbehav = []uint8{6, 1}
		in.Operating = []uint8{5, 4, 3, 2}
		in.Signers = []signer{{Index: 5}, {Index: 4}, {Index: 3}, {Index: 2}}
		run(in, em, "corpus-descending")
		// group of one
		run(g.dkgCase(1, 1, 1, 1, nil, []uint8{1}, true), em, "corpus-group-of-one")
		// index 255
		in = g.dkgCase(255, 128, 230, 230, []uint8{255, 1, 128}, rangeU8(2, 254)[:230], false)
		run(in, em, "corpus-255-misbehaved")
		in = g.dkgCase(255, 128, 230, 230, []uint8{7}, append(rangeU8(20, 254), 255), false)
		run(in, em, "corpus-255-signer")
		// group / wallet public keys with short coordinates (keys.go corpusShortKeys: the smallest
		// scalars whose X, Y, both have one leading zero byte, whose X, Y has two): the key is
		// serialised by convertPubKeyToChainFormat for the result and the wallet id and by
		// elliptic.Marshal for the two hashes; the contracts hash the left-padded 64 bytes.  The
		// operators of these cases all have short-coordinate keys too (the other corpus keys).
		g.opShortNum = 4
		for _, k := range g.pool.all {
			in = g.dkgCase(4, 3, 3, 3, []uint8{2}, []uint8{1, 3, 4}, true)
			in.KeyX, in.KeyY = k.X, k.Y
			run(in, em, "corpus-key-"+k.class()+"-dkg-submit")
			in = g.dkgCase(4, 3, 4, 4, nil, []uint8{1, 2, 3, 4}, false)
			in.KeyX, in.KeyY = k.X, k.Y
			run(in, em, "corpus-key-"+k.class()+"-dkg-assemble")
			c := g.claimCase(4, 3, 3)
			c.KeyX, c.KeyY = k.X, k.Y
			run(c, em, "corpus-key-"+k.class()+"-claim")
		}
		g.opShortNum = 1
		c := g.claimCase(5, 3, 3)
		c.RawInact, c.Heartbeat = []uint8{4, 2, 4, 1}, true
		run(c, em, "corpus-claim-duplicates-heartbeat")
		c = g.claimCase(5, 3, 3)
		c.RawInact, c.Heartbeat, c.Nonce = []uint8{3}, false, "0"
		run(c, em, "corpus-claim-nonce-zero")
		// one supporter sends its genuine R || S with another recovery byte (witnesses of the
		// defect fixed in pkg/chain/ethereum/signer.go: the client used to accept it)
		for k, h := range corpusHistories() {
			run(h, em, fmt.Sprintf("corpus-hist-%d", k))
		}
		for _, m := range wrongVMuts {
			run(g.wrongVDkg(5, m, true), em, "corpus-supporter-wrong-v-dkg-"+m)
			run(g.wrongVClaim(4, m), em, "corpus-supporter-wrong-v-claim-"+m)
		}
	}

	// --- exhaustive small scope: groups of 1..5, every misbehaved subset, every non-empty set of
	// supporters among the others (below the quorum too)
	{
		g := mk("small")
		type combo struct {
			n      int
			mm, ss uint
		}
		var all []combo
		for n := 1; n <= 5; n++ {
			for mm := uint(0); mm < 1<<uint(n); mm++ {
				for ss := uint(1); ss < 1<<uint(n); ss++ {
					if ss&mm == 0 {
						all = append(all, combo{n, mm, ss})
					}
				}
			}
		}
		take := o.Count(90, len(all))
		p := g.r.Perm(len(all))
		for k := 0; k < take && k < len(all); k++ {
			c := all[p[k]]
			var misb, sg []uint8
			for i := 0; i < c.n; i++ {
				if c.mm>>uint(i)&1 == 1 {
					misb = append(misb, uint8(i+1))
				}
				if c.ss>>uint(i)&1 == 1 {
					sg = append(sg, uint8(i+1))
				}
			}
			thr, act := scaled(c.n)
			run(g.dkgCase(c.n, thr, act, act, misb, sg, g.r.Bool()), em, fmt.Sprintf("small-%d-%d-%d", c.n, c.mm, c.ss))
		}
	}

	// --- random valid partitions: group sizes 6..99 with the contract constants scaled, the real
	// constants at 100, the uint8 edge at 255
	{
		g := mk("valid")
		nMid := o.Count(110, 500)
		for k := 0; k < nMid; k++ {
			n := g.r.Range(6, 40)
			if g.r.Chance(1, 5) {
				n = g.r.Range(41, 99)
			}
			run(g.randomValidDkg(n, false), em, fmt.Sprintf("valid-%d", k))
		}
		nFull := o.Count(24, 100)
		for k := 0; k < nFull; k++ {
			run(g.randomValidDkg(0, true), em, fmt.Sprintf("full-%d", k))
		}
		nEdge := o.Count(3, 40)
		for k := 0; k < nEdge; k++ {
			run(g.randomValidDkg(255, false), em, fmt.Sprintf("edge255-%d", k))
		}
	}

	// --- every short-coordinate key of the pool (corpus + this run's grind) as group key of a
	// result through the submitter, of a directly assembled result, and as wallet key of a claim;
	// half of the operators have short-coordinate keys as well
	{
		g := mk("short-keys")
		g.opShortNum = 2
		for k, key := range pool.all {
			for _, via := range []bool{true, false} {
				in := g.randomValidDkg(g.r.Range(2, 9), false)
				for in.ViaSubmit != via {
					in = g.randomValidDkg(g.r.Range(2, 9), false)
				}
				in.KeyX, in.KeyY = key.X, key.Y
				run(in, em, fmt.Sprintf("shortkey-%d-%s-dkg-%v", k, key.class(), via))
			}
			sz := g.r.Range(2, 9)
			c := g.claimCase(sz, sz/2+1, sz/2+1)
			c.KeyX, c.KeyY = key.X, key.Y
			run(c, em, fmt.Sprintf("shortkey-%d-%s-claim", k, key.class()))
		}
	}

	// --- malformed stream
	{
		g := mk("malformed")
		for k, n := 0, o.Count(60, 300); k < n; k++ {
			run(g.malformedDkg(), em, fmt.Sprintf("malformed-%d", k))
		}
	}

	// --- inactivity claims and wallet ids
	{
		g := mk("claims")
		for k, n := 0, o.Count(60, 300); k < n; k++ {
			sz := g.r.Range(1, 30)
			thr := sz/2 + 1
			if g.r.Chance(1, 6) {
				sz, thr = real.GoSize, real.InactThreshold
			}
			quorum := thr
			if thr == real.InactThreshold && sz == real.GoSize {
				quorum = real.GoHonest
			}
			run(g.claimCase(sz, thr, quorum), em, fmt.Sprintf("claim-%d", k))
		}
	}

	// --- a supporter with a wrong recovery byte
	{
		g := mk("wrong-v")
		for k, n := 0, o.Count(18, 120); k < n; k++ {
			m := wrongVMuts[k%3]
			if k%2 == 0 {
				run(g.wrongVDkg(g.r.Range(4, 14), m, g.r.Bool()), em, fmt.Sprintf("wrongv-dkg-%d", k))
			} else {
				run(g.wrongVClaim(g.r.Range(3, 12), m), em, fmt.Sprintf("wrongv-claim-%d", k))
			}
		}
	}

	// --- call histories on long-lived chain handles (hist.go)
	{
		g := mk("histories")
		for k, n := 0, o.Count(72, 600); k < n; k++ {
			run(g.histCase(k), em, fmt.Sprintf("hist-%d", k))
		}
	}

	// --- go-ethereum's packer and keep-common's signer against the model's encodings
	{
		g := mk("abi")
		for k, n := 0, o.Count(60, 300); k < n; k++ {
			run(g.abiCase(), em, fmt.Sprintf("abi-%d", k))
		}
		for k, n := 0, o.Count(10, 100); k < n; k++ {
			_, keys := g.seats(2, 2)
			run(&input{Kind: "eth", ChainID: "1", OpKeys: keys, Msg: hex.EncodeToString(g.r.Bytes(32))}, em,
				fmt.Sprintf("eth-%d", k))
		}
		// the operator signer with every short-coordinate key of the pool
		for k, key := range pool.all {
			run(&input{Kind: "eth", ChainID: "1", OpKeys: map[string]string{fmt.Sprint(k + 1): key.Priv},
				Msg: hex.EncodeToString(g.r.Bytes(32))}, em, fmt.Sprintf("eth-shortkey-%d-%s", k, key.class()))
		}
	}

	em.Close("a case is one assembled key-generation result (directly or through the submitter) with the "+
		"hashes its supporters signed, one inactivity claim with its hash and wallet id, one argument list "+
		"packed by go-ethereum, one message signed by the operator signer, one history of 2-6 hash / sign / assemble / "+
		"claim / wallet-id calls on long-lived chain handles, or the constants of both sides; "+
		"distinct by the complete input; a result case is non-trivial when at least one member misbehaved and "+
		"at least two members support the result, a claim when it accuses and is supported by at least two members",
		map[string]interface{}{"constants": real, "shortCoordinateKeys": map[string]interface{}{
			"corpus": len(corpusShortKeys), "grindTries": pool.Tries, "grindFound": pool.Found}})
}
