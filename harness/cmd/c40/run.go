package main

import (
	"bytes"
	"context"
	"crypto/ecdsa"
	"encoding/hex"
	"encoding/json"
	"fmt"
	"math/big"
	"sort"
	"strings"

	"github.com/bnb-chain/tss-lib/crypto"
	"github.com/bnb-chain/tss-lib/ecdsa/keygen"
	ethabi "github.com/ethereum/go-ethereum/accounts/abi"
	ethcrypto "github.com/ethereum/go-ethereum/crypto"

	"github.com/keep-network/keep-core/pkg/chain"
	"github.com/keep-network/keep-core/pkg/chain/ethereum"
	"github.com/keep-network/keep-core/pkg/protocol/group"
	"github.com/keep-network/keep-core/pkg/protocol/inactivity"
	"github.com/keep-network/keep-core/pkg/tbtc"
	"github.com/keep-network/keep-core/pkg/tecdsa"
	"github.com/keep-network/keep-core/pkg/tecdsa/dkg"

	"verifharness/lib"
)

// ------------------------------------------------------------------ inputs (replayable)

// sigMut says how the signature a member contributes deviates from the genuine one.
//
//	""        genuine: the seat's operator signs the client's hash with the real signer
//	"short"   last byte dropped      "long"  one byte appended     "empty"  no bytes
//	"wrongkey" signed by another operator   "flip" one byte of r flipped
//	"vflip" / "v01" / "v29": the genuine R || S with another recovery byte V: 27 <-> 28, V - 27
//	(0 / 1, what go-ethereum's crypto.Sign returns), 29
type signer struct {
	Index uint8  `json:"i"`
	Mut   string `json:"m,omitempty"`
}

// u8s is a []uint8 that is written to JSON as a list of numbers
type u8s []uint8

func (v u8s) MarshalJSON() ([]byte, error) {
	s := make([]string, len(v))
	for i, x := range v {
		s[i] = fmt.Sprint(x)
	}
	return []byte("[" + strings.Join(s, ",") + "]"), nil
}
func (v *u8s) UnmarshalJSON(b []byte) error {
	var t []int
	if err := json.Unmarshal(b, &t); err != nil {
		return err
	}
	*v = nil
	for _, x := range t {
		*v = append(*v, uint8(x))
	}
	return nil
}

type input struct {
	Kind string `json:"kind"` // dkg | claim | consts | abi | eth

	// contract constants used for this case (scaled with the group for small groups) and the
	// client's gates
	GroupSize, Threshold, Active, Quorum int

	ViaSubmit bool   // through pkg/tbtc dkgResultSubmitter.SubmitResult
	ChainID   string // decimal
	Start     uint64
	KeyX      string            // hex; group / wallet public key
	KeyY      string            // hex
	Members   []uint32          // operator id of every seat
	OpKeys    map[string]string // operator id -> private key (hex)
	Submitter uint8
	Operating u8s // as passed to AssembleDKGResult
	Misbehav  u8s // as passed
	Signers   []signer
	// the signatures pass through the receiving member's check before they enter the map, as in
	// tecdsa/dkg verifyDKGResultSignatures / protocol/inactivity: a signature that
	// dkgResultSigner.VerifySignature (inactivityClaimSigner.VerifySignature) refuses is dropped
	Filter bool `json:",omitempty"`

	// claims
	Nonce     string  // decimal
	RawInact  u8s     // as passed to NewClaimPreimage
	Heartbeat bool
	NMembers  int

	// abi
	Abi []abiArg
	// eth
	Msg string // hex, 32 bytes

	// hist: a history of calls on long-lived chain handles (hist.go); handle 0 has ChainID,
	// handle 1 has ChainID2, both hold the key of the only operator in OpKeys
	ChainID2 string    `json:",omitempty"`
	Hist     []hcallIn `json:",omitempty"`
}

type abiArg struct {
	T string   `json:"t"` // uint256 | bool | bytes | uint8[] | uint32[] | uint256[]
	U string   `json:"u,omitempty"`
	B string   `json:"b,omitempty"`
	A []string `json:"a,omitempty"`
}

// ------------------------------------------------------------------ Coq rendering

// bterm renders a byte string: short ones as one numeral, long ones as 32-byte words.
func bterm(b []byte) string {
	if len(b) == 0 {
		return "[]"
	}
	if len(b) <= 80 {
		return fmt.Sprintf("(hb %d 0x%x)", len(b), b)
	}
	var sb strings.Builder
	sb.WriteString("(hbs 32 [")
	n := len(b) / 32
	for i := 0; i < n; i++ {
		if i > 0 {
			sb.WriteString(";")
		}
		w := bytes.TrimLeft(b[32*i:32*i+32], "\x00")
		if len(w) == 0 {
			sb.WriteString("0")
		} else {
			fmt.Fprintf(&sb, "0x%x", w)
		}
	}
	sb.WriteString("]")
	if r := len(b) % 32; r != 0 {
		fmt.Fprintf(&sb, " ++ hb %d 0x%x", r, b[32*n:])
	}
	sb.WriteString(")")
	return sb.String()
}

// sigIDs canonicalises signatures: the model treats them as opaque byte strings of a given
// length, so every distinct byte string becomes a small number (first occurrence) written in
// as many bytes; r / s / v are only looked at by the driver (ozRecover) on the real bytes.
type sigIDs map[string]int

func (m sigIDs) id(b []byte) int {
	if v, ok := m[string(b)]; ok {
		return v
	}
	m[string(b)] = len(m) + 1
	return len(m)
}
func (m sigIDs) one(b []byte) string { return fmt.Sprintf("(hb %d %d)", len(b), m.id(b)) }

// concat renders a concatenation of 65-byte signatures (plus whatever is left over)
func (m sigIDs) concat(b []byte) string {
	var ids []string
	i := 0
	for ; i+65 <= len(b); i += 65 {
		ids = append(ids, fmt.Sprint(m.id(b[i:i+65])))
	}
	t := "(hbs 65 [" + strings.Join(ids, ";") + "]"
	if i < len(b) {
		t += " ++ " + m.one(b[i:])
	}
	return t + ")"
}

func nlist8(v []uint8) string {
	s := make([]string, len(v))
	for i, x := range v {
		s[i] = fmt.Sprint(x)
	}
	return "[" + strings.Join(s, ";") + "]"
}
func nlist32(v []uint32) string {
	s := make([]string, len(v))
	for i, x := range v {
		s[i] = fmt.Sprint(x)
	}
	return "[" + strings.Join(s, ";") + "]"
}
func nlistBig(v []*big.Int) string {
	s := make([]string, len(v))
	for i, x := range v {
		s[i] = x.String()
	}
	return "[" + strings.Join(s, ";") + "]"
}
func optB(b []byte, ok bool) string {
	if !ok {
		return "None"
	}
	return "(Some " + bterm(b) + ")"
}

// ------------------------------------------------------------------ the driver's own ABI encoder

type oarg struct {
	dyn  bool
	head []byte // static: the word
	tail []byte // dynamic: the encoded value
}

func w32(v *big.Int) []byte {
	m := new(big.Int).And(v, new(big.Int).Sub(new(big.Int).Lsh(big.NewInt(1), 256), big.NewInt(1)))
	return m.FillBytes(make([]byte, 32))
}
func oUint(v *big.Int) oarg { return oarg{head: w32(v)} }
func oBool(b bool) oarg {
	if b {
		return oUint(big.NewInt(1))
	}
	return oUint(big.NewInt(0))
}
func oBytes(b []byte) oarg {
	t := append(w32(big.NewInt(int64(len(b)))), b...)
	for len(t)%32 != 0 {
		t = append(t, 0)
	}
	return oarg{dyn: true, tail: t}
}
func oArr(v []*big.Int) oarg {
	t := w32(big.NewInt(int64(len(v))))
	for _, x := range v {
		t = append(t, w32(x)...)
	}
	return oarg{dyn: true, tail: t}
}
func ownEncode(args ...oarg) []byte {
	var heads, tails []byte
	for _, a := range args {
		if a.dyn {
			heads = append(heads, w32(big.NewInt(int64(32*len(args)+len(tails))))...)
			tails = append(tails, a.tail...)
		} else {
			heads = append(heads, a.head...)
		}
	}
	return append(heads, tails...)
}
func bigs8(v []uint8) []*big.Int {
	r := make([]*big.Int, len(v))
	for i, x := range v {
		r[i] = big.NewInt(int64(x))
	}
	return r
}
func bigs32(v []uint32) []*big.Int {
	r := make([]*big.Int, len(v))
	for i, x := range v {
		r[i] = big.NewInt(int64(x))
	}
	return r
}

var ethPrefix = []byte("\x19Ethereum Signed Message:\n32")

var halfN, _ = new(big.Int).SetString("7FFFFFFFFFFFFFFFFFFFFFFFFFFFFFFF5D576E7357A4501DDFE92F46681B20A0", 16)

// ozRecover is OpenZeppelin 4.6 ECDSA.recover for a 65-byte signature; "" = revert.
func ozRecover(hash []byte, sig []byte) (addr string) {
	defer func() {
		if recover() != nil {
			addr = ""
		}
	}()
	if len(sig) != 65 {
		return ""
	}
	s := new(big.Int).SetBytes(sig[32:64])
	if s.Cmp(halfN) > 0 {
		return ""
	}
	v := sig[64]
	if v != 27 && v != 28 {
		return ""
	}
	rs := append(append([]byte{}, sig[:64]...), v-27)
	pub, err := ethcrypto.Ecrecover(hash, rs)
	if err != nil || len(pub) != 65 {
		return ""
	}
	return hex.EncodeToString(ethcrypto.Keccak256(pub[1:])[12:])
}

// ------------------------------------------------------------------ operators

type world struct {
	chainID *big.Int
	keys    map[uint32]*ecdsa.PrivateKey
	chains  map[uint32]*ethereum.TbtcChain
	byAddr  map[string]uint32
	// operators whose public key has a coordinate with a leading zero byte
	shortOps int
}

func newWorld(in *input) (*world, error) {
	w := &world{keys: map[uint32]*ecdsa.PrivateKey{}, chains: map[uint32]*ethereum.TbtcChain{}, byAddr: map[string]uint32{}}
	var ok bool
	w.chainID, ok = new(big.Int).SetString(in.ChainID, 10)
	if !ok {
		return nil, fmt.Errorf("bad chain id")
	}
	for ids, k := range in.OpKeys {
		var id uint32
		fmt.Sscan(ids, &id)
		pk, err := ethcrypto.HexToECDSA(k)
		if err != nil {
			return nil, err
		}
		w.keys[id] = pk
		if zeroBytes(pk.PublicKey.X) > 0 || zeroBytes(pk.PublicKey.Y) > 0 {
			w.shortOps++
		}
		w.chains[id] = ethereum.VerifC40Chain(w.chainID, pk)
		w.byAddr[hex.EncodeToString(ethcrypto.PubkeyToAddress(pk.PublicKey).Bytes())] = id
	}
	return w, nil
}

func hexBig(s string) *big.Int {
	v, _ := new(big.Int).SetString(s, 16)
	if v == nil {
		v = new(big.Int)
	}
	return v
}

func (in *input) pub() *ecdsa.PublicKey {
	return &ecdsa.PublicKey{Curve: tecdsa.Curve, X: hexBig(in.KeyX), Y: hexBig(in.KeyY)}
}

// seatChain is the chain handle of the operator of a seat (nil when the seat does not exist).
func (w *world) seatChain(in *input, seat int) *ethereum.TbtcChain {
	if seat < 1 || seat > len(in.Members) {
		return nil
	}
	return w.chains[in.Members[seat-1]]
}

// receiver is the member that verifies the others' signatures: the submitter when it exists.
func (w *world) receiver(in *input) *ethereum.TbtcChain {
	if c := w.seatChain(in, int(in.Submitter)); c != nil {
		return c
	}
	for _, id := range in.Members {
		if c := w.chains[id]; c != nil {
			return c
		}
	}
	return ethereum.VerifC40Chain(w.chainID, mustKey("01"))
}

// otherOperator picks an operator different from id (for "wrongkey").
func (w *world) otherOperator(id uint32) uint32 {
	ids := make([]uint32, 0, len(w.keys))
	for k := range w.keys {
		ids = append(ids, k)
	}
	sort.Slice(ids, func(i, j int) bool { return ids[i] < ids[j] })
	for _, k := range ids {
		if k != id {
			return k
		}
	}
	return id
}

func mutate(sig []byte, mut string) []byte {
	s := append([]byte{}, sig...)
	switch mut {
	case "short":
		if len(s) > 0 {
			s = s[:len(s)-1]
		}
	case "long":
		s = append(s, 7)
	case "empty":
		s = []byte{}
	case "flip":
		if len(s) > 5 {
			s[5] ^= 0x40
		}
	case "vflip":
		if len(s) == 65 {
			s[64] = 27 + 28 - s[64]
		}
	case "v01":
		if len(s) == 65 {
			s[64] -= 27
		}
	case "v29":
		if len(s) == 65 {
			s[64] = 29
		}
	}
	return s
}

func wrongV(mut string) bool { return mut == "vflip" || mut == "v01" || mut == "v29" }

// wrongVSig is the structural signature of the supporter-wrong-v stream (nil for other cases).
func wrongVSig(in *input, acceptedMut bool, sig map[string]interface{}) map[string]interface{} {
	for _, s := range in.Signers {
		if wrongV(s.Mut) {
			sig["stream"], sig["accepted_by_client"] = "supporter-wrong-v", acceptedMut
			break
		}
	}
	return sig
}

// ------------------------------------------------------------------ DKG results

// submitChain is the real TbtcChain for everything the submitter computes; the four methods
// that would talk to the contracts are answered here.
type submitChain struct {
	*ethereum.TbtcChain
	submitted *tbtc.DKGChainResult
	checked   *tbtc.DKGChainResult
}

func (s *submitChain) GetDKGState() (tbtc.DKGState, error) { return tbtc.AwaitingResult, nil }
func (s *submitChain) IsDKGResultValid(r *tbtc.DKGChainResult) (bool, error) {
	s.checked = r
	return true, nil
}
func (s *submitChain) SubmitDKGResult(r *tbtc.DKGChainResult) error { s.submitted = r; return nil }
func (s *submitChain) BlockCounter() (chain.BlockCounter, error)   { return fakeCounter{}, nil }

type fakeCounter struct{ chain.BlockCounter }

func (fakeCounter) CurrentBlock() (uint64, error) { return 1000, nil }

// contractGroupMembers is a literal port of the loop of EcdsaDkgValidator.validateMembersHash
// (independent of the Coq transcription, with which it is compared); ok=false = revert.
func contractGroupMembers(members []uint32, misb []uint8) (out []uint32, ok bool) {
	defer func() {
		if recover() != nil {
			out, ok = nil, false
		}
	}()
	if len(misb) == 0 {
		return members, true
	}
	if len(members) < len(misb) {
		return nil, false
	}
	gm := make([]uint32, len(members)-len(misb))
	k, j := 0, 0
	for i := 0; i < len(members); i++ {
		if misb[k] == 0 {
			return nil, false // misbehaved[k] - 1 underflows
		}
		if i != int(misb[k])-1 {
			gm[j] = members[i] // panics (= revert) when j is out of bounds
			j++
		} else if k < len(misb)-1 {
			k++
		}
	}
	return gm, true
}

func runDkg(in *input, em *lib.Emitter, id string) {
	w, err := newWorld(in)
	if err != nil {
		panic(err)
	}
	pub := in.pub()
	onCurveOK := pub.X.BitLen() <= 256 && pub.Y.BitLen() <= 256

	// --- every supporter computes the hash to sign and signs it (real code)
	var clientHash []byte
	hashOK := false
	func() {
		defer func() { recover() }()
		var anyChain *ethereum.TbtcChain
		for _, id := range in.Members {
			anyChain = w.chains[id]
			break
		}
		if anyChain == nil {
			anyChain = ethereum.VerifC40Chain(w.chainID, mustKey("01"))
		}
		h, err := anyChain.CalculateDKGResultSignatureHash(pub, append([]uint8{}, in.Misbehav...), in.Start)
		if err == nil {
			clientHash, hashOK = h[:], true
		}
	}()

	// the dkg.Result the members hold (submit path, and to sign through dkgResultSigner)
	var result *dkg.Result
	if onCurveOK {
		g := group.NewGroup(in.GroupSize-in.Threshold, len(in.Members))
		for k, m := range in.Misbehav {
			if k%2 == 0 {
				g.MarkMemberAsInactive(m)
			} else {
				g.MarkMemberAsDisqualified(m)
			}
		}
		result = &dkg.Result{Group: g, PrivateKeyShare: tecdsa.NewPrivateKeyShare(keygen.LocalPartySaveData{
			ECDSAPub: crypto.NewECPointNoCurveCheck(tecdsa.Curve, pub.X, pub.Y)})}
	}

	sigs := map[group.MemberIndex][]byte{}
	// genuine: every signature in the map was accepted by the receiving member's check
	genuine := true
	acceptedMut := false
	var dropped []uint8
	for _, s := range in.Signers {
		seat := int(s.Index)
		var opID uint32
		if seat >= 1 && seat <= len(in.Members) {
			opID = in.Members[seat-1]
		} else {
			genuine = false
			for _, m := range in.Members {
				opID = m
				break
			}
		}
		if s.Mut == "wrongkey" {
			opID = w.otherOperator(opID)
		}
		var sig []byte
		ch := w.chains[opID]
		if ch != nil && result != nil && hashOK && in.ViaSubmit {
			// through dkgResultSigner.SignResult, on the dkg.Result every member holds
			signed, err := tbtc.VerifC40SignDkgResult(ch, in.Start, result)
			if err != nil {
				panic(err)
			}
			if !bytes.Equal(signed.ResultHash[:], clientHash) {
				panic("supporters disagree on the result hash")
			}
			// the receiving members verify before accepting (dkg/protocol.go verifyDKGResultSignatures)
			okv, err := tbtc.VerifC40VerifyDkgResultSignature(ch, in.Start, signed)
			if err != nil || !okv {
				panic(fmt.Sprintf("a genuine signature does not verify: %v", err))
			}
			sig = signed.Signature
		} else if ch != nil && hashOK {
			// the same two calls SignResult makes, on the misbehaved list as given
			h, err := ch.CalculateDKGResultSignatureHash(pub, append([]uint8{}, in.Misbehav...), in.Start)
			if err != nil || !bytes.Equal(h[:], clientHash) {
				panic(fmt.Sprintf("supporters disagree on the result hash: %v", err))
			}
			sig, err = ch.Signing().Sign(h[:])
			if err != nil {
				panic(err)
			}
		} else {
			sig = make([]byte, 65)
			genuine = false
		}
		sig = mutate(sig, s.Mut)
		// the receiving member's check (dkg/protocol.go verifyDKGResultSignatures): the message
		// carries the public key of the seat's operator (the network layer has matched it with the
		// sender) and the signature must verify against it for the preferred result hash
		accepted := false
		if seatCh := w.seatChain(in, seat); seatCh != nil && hashOK {
			var rh dkg.ResultSignatureHash
			copy(rh[:], clientHash)
			func() {
				defer func() { recover() }()
				okv, err := tbtc.VerifC40VerifyDkgResultSignature(w.receiver(in), in.Start,
					&dkg.SignedResult{ResultHash: rh, Signature: append([]byte{}, sig...), PublicKey: seatCh.Signing().PublicKey()})
				accepted = err == nil && okv
			}()
		}
		if s.Mut == "" && ch != nil && hashOK && seat >= 1 && seat <= len(in.Members) && !accepted {
			panic("a genuine signature does not verify")
		}
		if wrongV(s.Mut) {
			acceptedMut = accepted
		}
		if !accepted {
			if in.Filter {
				dropped = append(dropped, s.Index)
				continue
			}
			genuine = false
		}
		sigs[s.Index] = sig
	}

	// --- assembly (real code)
	gsr := &tbtc.GroupSelectionResult{OperatorsIDs: append(chain.OperatorIDs{}, in.Members...)}
	var res *tbtc.DKGChainResult
	outcome := ""
	var errText string
	func() {
		defer func() {
			if r := recover(); r != nil {
				outcome, errText = "Panic", fmt.Sprint(r)
			}
		}()
		sigCopy := map[group.MemberIndex][]byte{}
		for k, v := range sigs {
			sigCopy[k] = v
		}
		var subKey *ecdsa.PrivateKey
		if int(in.Submitter) >= 1 && int(in.Submitter) <= len(in.Members) {
			subKey = w.keys[in.Members[in.Submitter-1]]
		}
		if subKey == nil {
			subKey = mustKey("01")
		}
		real := ethereum.VerifC40Chain(w.chainID, subKey)
		if in.ViaSubmit {
			sc := &submitChain{TbtcChain: real}
			err := tbtc.VerifC40SubmitDkgResult(context.Background(), sc,
				&tbtc.GroupParameters{GroupSize: in.GroupSize, GroupQuorum: in.Quorum, HonestThreshold: in.Threshold},
				gsr, func(context.Context, uint64) error { return nil }, in.Submitter, result, sigCopy)
			if err != nil {
				errText = err.Error()
				switch {
				case strings.Contains(errText, "could not submit result with"):
					outcome = "NotSubmitted"
				case strings.Contains(errText, "could not convert group public key"):
					outcome = "ErrKey"
				case strings.Contains(errText, "invalid signature size"):
					outcome = "ErrSigSize"
				default:
					outcome = "Panic"
				}
				return
			}
			if sc.submitted == nil || sc.submitted != sc.checked {
				outcome, errText = "Panic", "nothing was submitted or the submitted result is not the validated one"
				return
			}
			res = sc.submitted
			outcome = "Ok"
			return
		}
		r, err := real.AssembleDKGResult(in.Submitter, pub, append([]uint8{}, in.Operating...),
			append([]uint8{}, in.Misbehav...), sigCopy, gsr)
		if err != nil {
			errText = err.Error()
			switch {
			case strings.Contains(errText, "could not convert group public key"):
				outcome = "ErrKey"
			case strings.Contains(errText, "invalid signature size"):
				outcome = "ErrSigSize"
			default:
				outcome = "Panic"
			}
			return
		}
		res, outcome = r, "Ok"
	}()

	// --- what the contract would see, and the driver's side of the hashes
	outTerm := outcome
	sid := sigIDs{}
	for _, s := range in.Signers { // ids in the order of the input
		if b, ok := sigs[s.Index]; ok {
			sid.id(b)
		}
	}
	var mhPre, sigPre, ethPre []byte
	mhOK, sigOK := false, false
	var recovered []uint32
	human := map[string]interface{}{"outcome": outcome, "error": errText, "clientHash": hex.EncodeToString(clientHash),
		"everySignatureAcceptedByClient": genuine, "droppedByReceiver": u8s(dropped)}
	if res != nil {
		abi := ethereum.VerifC40ConvertDkgResultToAbiType(res)
		// the conversion must not change anything (indices become uint256)
		signingN := make([]uint8, len(abi.SigningMembersIndices))
		for i, b := range abi.SigningMembersIndices {
			signingN[i] = uint8(b.Uint64())
		}
		outTerm = fmt.Sprintf("(Ok {| r_submitter := %s; r_pubkey := %s; r_misbehaved := %s; r_sigs := %s; "+
			"r_signing := %s; r_members := %s; r_mhash := %s |})",
			abi.SubmitterMemberIndex.String(), bterm(abi.GroupPubKey), nlist8(abi.MisbehavedMembersIndices),
			sid.concat(abi.Signatures), nlistBig(abi.SigningMembersIndices), nlist32(abi.Members), bterm(abi.MembersHash[:]))
		if gm, ok := contractGroupMembers(abi.Members, abi.MisbehavedMembersIndices); ok {
			mhPre = ownEncode(oArr(bigs32(gm)))
			mhOK = bytes.Equal(ethcrypto.Keccak256(mhPre), abi.MembersHash[:])
		}
		sigPre = ownEncode(oUint(w.chainID), oBytes(abi.GroupPubKey), oArr(bigs8(abi.MisbehavedMembersIndices)),
			oUint(new(big.Int).SetUint64(in.Start)))
		sigOK = hashOK && bytes.Equal(ethcrypto.Keccak256(sigPre), clientHash)
		if hashOK {
			ethPre = append(append([]byte{}, ethPrefix...), clientHash...)
			// the contract's message hash is built from ITS preimage
			ethHash := ethcrypto.Keccak256(append(append([]byte{}, ethPrefix...), ethcrypto.Keccak256(sigPre)...))
			for i := 0; i+65 <= len(abi.Signatures); i += 65 {
				recovered = append(recovered, w.byAddr[ozRecover(ethHash, abi.Signatures[i:i+65])])
			}
		}
		human["result"] = map[string]interface{}{"submitter": abi.SubmitterMemberIndex.String(),
			"groupPubKey": hex.EncodeToString(abi.GroupPubKey), "misbehaved": u8s(abi.MisbehavedMembersIndices),
			"signing": u8s(signingN), "signaturesLen": len(abi.Signatures), "membersHash": hex.EncodeToString(abi.MembersHash[:]),
			"recoveredOperatorIDs": recovered}
	}

	operIn, misbIn := in.Operating, in.Misbehav
	if in.ViaSubmit && result != nil {
		// what SubmitResult hands to AssembleDKGResult (dkg_submit.go:143-150)
		operIn, misbIn = result.Group.OperatingMemberIndexes(), result.MisbehavedMembersIndexes()
	}
	sigTerms := make([]string, 0, len(in.Signers))
	for _, s := range in.Signers { // insertion order; a later duplicate index overwrote the earlier one
		if b, ok := sigs[s.Index]; ok {
			sigTerms = append(sigTerms, fmt.Sprintf("(%d, %s)", s.Index, sid.one(b)))
		}
	}
	// the bytes the client is expected to have hashed (only to be able to compare its hash):
	// chain id, 04-less Marshal, misbehaved as given but sorted, int64(start) as a 256-bit word
	var cliPre []byte
	cliOK := false
	// (only for a key that fits: when the client returns a hash for a coordinate of more than 32
	// bytes there is no guess, and the model, which has no preimage either, disagrees)
	if hashOK && onCurveOK {
		sm := append([]uint8{}, in.Misbehav...)
		sort.Slice(sm, func(i, j int) bool { return sm[i] < sm[j] })
		cliPre = ownEncode(oUint(w.chainID), oBytes(append(pub.X.FillBytes(make([]byte, 32)), pub.Y.FillBytes(make([]byte, 32))...)),
			oArr(bigs8(sm)), oUint(big.NewInt(int64(in.Start))))
		cliOK = bytes.Equal(ethcrypto.Keccak256(cliPre), clientHash)
	}
	// ... and into result.MembersHash: the ids of the operating members, sorted by index
	var cmhPre []byte
	cmhOK := false
	if res != nil {
		so := append([]uint8{}, operIn...)
		sort.Slice(so, func(i, j int) bool { return so[i] < so[j] })
		var ids []uint32
		for _, i := range so {
			if int(i) >= 1 && int(i) <= len(in.Members) {
				ids = append(ids, in.Members[i-1])
			}
		}
		cmhPre = ownEncode(oArr(bigs32(ids)))
		cmhOK = bytes.Equal(ethcrypto.Keccak256(cmhPre), res.MembersHash[:])
	}
	coq := fmt.Sprintf("(CDkg {| groupSize := %d; groupThreshold := %d; activeThreshold := %d |} %d %s %s "+
		"{| i_chainid := %s; i_start := %d; i_x := 0x%s; i_y := 0x%s; i_members := %s; i_submitter := %d; "+
		"i_operating := %s; i_misbehaved := %s; i_sigs := [%s] |} "+
		"{| o_out := %s; o_hash := %s; o_cli_pre := %s; o_cli_ok := %s; o_cmh_pre := %s; o_cmh_ok := %s; o_mh_pre := %s; o_mh_ok := %s; o_sig_pre := %s; o_sig_ok := %s; "+
		"o_eth_pre := %s; o_recovered := %s |})",
		in.GroupSize, in.Threshold, in.Active, in.Quorum, lib.Bool(in.ViaSubmit), lib.Bool(genuine),
		w.chainID.String(), in.Start, hexOr0(in.KeyX), hexOr0(in.KeyY), nlist32(in.Members), in.Submitter,
		nlist8(operIn), nlist8(misbIn), strings.Join(sigTerms, ";"),
		outTerm, optB(clientHash, hashOK), bterm(cliPre), lib.Bool(cliOK), bterm(cmhPre), lib.Bool(cmhOK), bterm(mhPre), lib.Bool(mhOK), bterm(sigPre), lib.Bool(sigOK),
		bterm(ethPre), nlist32(recovered))

	path := "asm"
	if in.ViaSubmit {
		path = "submit"
	}
	multi := len(w.keys) < len(in.Members)
	em.Tally("dkg-" + path + "-" + outcome)
	em.Tally(fmt.Sprintf("dkg-size-%s", bucket(len(in.Members))))
	keyClass := coordClass(pub.X, pub.Y)
	em.Tally("dkg-groupkey-" + keyClass)
	if w.shortOps > 0 {
		em.Tally("dkg-with-short-coordinate-operator-keys")
	}
	if multi {
		em.Tally("dkg-multi-seat-operators")
	}
	em.Case(lib.Case{
		ID: id, Coq: coq, Key: keyOf(in),
		Nontrivial: len(in.Misbehav) >= 1 && len(in.Signers) >= 2,
		Sig: wrongVSig(in, acceptedMut, map[string]interface{}{"kind": "dkg", "path": path, "outcome": outcome,
			"genuine": genuine, "misbehaved": len(in.Misbehav) > 0, "key": keyClass}),
		In: in, Out: human,
	})
}

func hexOr0(s string) string {
	if s == "" {
		return "0"
	}
	return s
}

func bucket(n int) string {
	switch {
	case n <= 5:
		return "001-005"
	case n <= 20:
		return "006-020"
	case n <= 99:
		return "021-099"
	case n == 100:
		return "100"
	}
	return "101-255"
}

func mustKey(h string) *ecdsa.PrivateKey {
	k, err := ethcrypto.HexToECDSA(fmt.Sprintf("%064s", h))
	if err != nil {
		panic(err)
	}
	return k
}

// ------------------------------------------------------------------ inactivity claims + wallet id

func runClaim(in *input, em *lib.Emitter, id string) {
	w, err := newWorld(in)
	if err != nil {
		panic(err)
	}
	pub := in.pub()
	nonce, _ := new(big.Int).SetString(in.Nonce, 10)
	var any *ethereum.TbtcChain
	for _, c := range w.chains {
		any = c
		break
	}

	// wallet id (real code) and the contract's preimage bytes.concat(x, y) = the stored key
	var walletID [32]byte
	walletOK := false
	var walletPre []byte
	if pub.X.BitLen() <= 256 && pub.Y.BitLen() <= 256 {
		walletPre = append(pub.X.FillBytes(make([]byte, 32)), pub.Y.FillBytes(make([]byte, 32))...)
	}
	func() {
		defer func() { recover() }()
		idv, err := any.CalculateWalletID(pub)
		if err == nil {
			walletID = idv
			walletOK = walletPre != nil && bytes.Equal(ethcrypto.Keccak256(walletPre), idv[:])
		}
	}()

	preimage := inactivity.NewClaimPreimage(nonce, pub, append([]uint8{}, in.RawInact...), in.Heartbeat)
	var claimHash []byte
	hashOK := false
	func() {
		defer func() { recover() }()
		h, err := any.CalculateInactivityClaimHash(preimage)
		if err == nil {
			claimHash, hashOK = h[:], true
		}
	}()

	sigs := map[group.MemberIndex][]byte{}
	// allAccepted: every signature in the map passed inactivityClaimSigner.VerifySignature
	allAccepted, acceptedMut := true, false
	var dropped []uint8
	for _, s := range in.Signers {
		var opID uint32
		if int(s.Index) >= 1 && int(s.Index) <= len(in.Members) {
			opID = in.Members[s.Index-1]
		}
		if s.Mut == "wrongkey" {
			opID = w.otherOperator(opID)
		}
		sig := make([]byte, 65)
		if ch := w.chains[opID]; ch != nil && hashOK {
			signed, err := tbtc.VerifC40SignInactivityClaim(ch, preimage)
			if err != nil {
				panic(err)
			}
			if !bytes.Equal(signed.ClaimHash[:], claimHash) {
				panic("supporters disagree on the claim hash")
			}
			sig = signed.Signature
		}
		sig = mutate(sig, s.Mut)
		// the receiving member's check (protocol/inactivity member.go verifyInactivityClaimSignatures)
		accepted := false
		if seatCh := w.seatChain(in, int(s.Index)); seatCh != nil && hashOK {
			var chash inactivity.ClaimHash
			copy(chash[:], claimHash)
			func() {
				defer func() { recover() }()
				okv, err := tbtc.VerifC40VerifyInactivityClaimSignature(any,
					&inactivity.SignedClaimHash{ClaimHash: chash, Signature: append([]byte{}, sig...), PublicKey: seatCh.Signing().PublicKey()})
				accepted = err == nil && okv
			}()
			if s.Mut == "" && !accepted {
				panic("a genuine claim signature does not verify")
			}
		}
		if wrongV(s.Mut) {
			acceptedMut = accepted
		}
		if !accepted {
			if in.Filter {
				dropped = append(dropped, s.Index)
				continue
			}
			allAccepted = false
		}
		sigs[s.Index] = sig
	}

	sid := sigIDs{}
	for _, s := range in.Signers {
		if b, ok := sigs[s.Index]; ok {
			sid.id(b)
		}
	}
	var recovered []uint32
	outcome, outTerm, errText := "", "", ""
	var pre []byte
	preOK := false
	human := map[string]interface{}{}
	func() {
		defer func() {
			if r := recover(); r != nil {
				outcome, outTerm, errText = "Panic", "Panic", fmt.Sprint(r)
			}
		}()
		sigCopy := map[group.MemberIndex][]byte{}
		for k, v := range sigs {
			sigCopy[k] = v
		}
		c, err := any.AssembleInactivityClaim(walletID, preimage.InactiveMembersIndexes, sigCopy, preimage.HeartbeatFailed)
		if err != nil {
			errText = err.Error()
			if strings.Contains(errText, "invalid signature size") {
				outcome, outTerm = "ErrSigSize", "ErrSigSize"
			} else {
				outcome, outTerm = "Panic", "Panic"
			}
			return
		}
		abi := ethereum.VerifC40ConvertInactivityClaimToAbiType(c)
		outcome = "Ok"
		outTerm = fmt.Sprintf("(Ok {| k_wallet := %s; k_inactive := %s; k_hbf := %s; k_sigs := %s; k_signing := %s |})",
			bterm(abi.WalletID[:]), nlistBig(abi.InactiveMembersIndices), lib.Bool(abi.HeartbeatFailed),
			sid.concat(abi.Signatures), nlistBig(abi.SigningMembersIndices))
		if walletPre != nil {
			// EcdsaInactivity.verifyClaim: abi.encode(chainid, nonce, concat(X, Y), claim.inactive, claim.heartbeatFailed)
			pre = ownEncode(oUint(w.chainID), oUint(nonce), oBytes(walletPre), oArr(abi.InactiveMembersIndices),
				oBool(abi.HeartbeatFailed))
			preOK = hashOK && bytes.Equal(ethcrypto.Keccak256(pre), claimHash)
			// EcdsaInactivity.verifyClaim I:140-150: every 65-byte slice is recovered under the
			// CONTRACT's message hash
			ethHash := ethcrypto.Keccak256(append(append([]byte{}, ethPrefix...), ethcrypto.Keccak256(pre)...))
			for i := 0; i+65 <= len(abi.Signatures); i += 65 {
				recovered = append(recovered, w.byAddr[ozRecover(ethHash, abi.Signatures[i:i+65])])
			}
		}
		human["claim"] = map[string]interface{}{"inactive": nlistBig(abi.InactiveMembersIndices),
			"heartbeatFailed": abi.HeartbeatFailed, "signing": nlistBig(abi.SigningMembersIndices),
			"signaturesLen": len(abi.Signatures), "recoveredOperatorIDs": recovered}
	}()
	human["outcome"], human["error"], human["claimHash"] = outcome, errText, hex.EncodeToString(claimHash)
	human["walletID"] = hex.EncodeToString(walletID[:])
	human["everySignatureAcceptedByClient"], human["droppedByReceiver"] = allAccepted, u8s(dropped)

	sigTerms := make([]string, 0, len(in.Signers))
	for _, s := range in.Signers {
		if b, ok := sigs[s.Index]; ok {
			sigTerms = append(sigTerms, fmt.Sprintf("(%d, %s)", s.Index, sid.one(b)))
		}
	}
	coq := fmt.Sprintf("(CClaim %d {| c_chainid := %s; c_nonce := %s; c_x := 0x%s; c_y := 0x%s; c_raw := %s; "+
		"c_hbf := %s; c_wallet := %s; c_sigs := [%s]; c_nmembers := %d; c_threshold := %d |} "+
		"{| q_out := %s; q_hash_some := %s; q_pre := %s; q_ok := %s; q_wallet_pre := %s; q_wallet_ok := %s; "+
		"q_accepted := %s; q_members := %s; q_recovered := %s |})",
		in.Threshold, w.chainID.String(), nonce.String(), hexOr0(in.KeyX), hexOr0(in.KeyY), nlist8(in.RawInact),
		lib.Bool(in.Heartbeat), bterm(walletID[:]), strings.Join(sigTerms, ";"), in.NMembers, in.Quorum,
		outTerm, lib.Bool(hashOK), bterm(pre), lib.Bool(preOK), bterm(walletPre), lib.Bool(walletOK),
		lib.Bool(allAccepted), nlist32(in.Members), nlist32(recovered))
	em.Tally("claim-" + outcome)
	keyClass := coordClass(pub.X, pub.Y)
	em.Tally("claim-walletkey-" + keyClass)
	if w.shortOps > 0 {
		em.Tally("claim-with-short-coordinate-operator-keys")
	}
	if in.Heartbeat {
		em.Tally("claim-heartbeat-failed")
	}
	em.Case(lib.Case{
		ID: id, Coq: coq, Key: keyOf(in), Nontrivial: len(in.RawInact) >= 2 && len(in.Signers) >= 2,
		Sig: wrongVSig(in, acceptedMut, map[string]interface{}{"kind": "claim", "outcome": outcome, "heartbeat": in.Heartbeat, "key": keyClass}),
		In:  in, Out: human,
	})
}

// ------------------------------------------------------------------ ABI packer and signer

func runAbi(in *input, em *lib.Emitter, id string) {
	var args ethabi.Arguments
	var vals []interface{}
	var own []oarg
	var terms []string
	for _, a := range in.Abi {
		t, err := ethabi.NewType(a.T, a.T, nil)
		if err != nil {
			panic(err)
		}
		args = append(args, ethabi.Argument{Type: t})
		switch a.T {
		case "uint256":
			v, _ := new(big.Int).SetString(a.U, 10)
			vals, own, terms = append(vals, v), append(own, oUint(v)), append(terms, "AUint "+v.String())
		case "bool":
			vals, own = append(vals, a.U == "1"), append(own, oBool(a.U == "1"))
			terms = append(terms, "AUint "+a.U)
		case "bytes":
			b, _ := hex.DecodeString(a.B)
			vals, own, terms = append(vals, b), append(own, oBytes(b)), append(terms, "ABytes "+bterm(b))
		default:
			bs := make([]*big.Int, len(a.A))
			for i, s := range a.A {
				bs[i], _ = new(big.Int).SetString(s, 10)
			}
			switch a.T {
			case "uint8[]":
				v := make([]uint8, len(bs))
				for i, b := range bs {
					v[i] = uint8(b.Uint64())
				}
				vals = append(vals, v)
			case "uint32[]":
				v := make([]uint32, len(bs))
				for i, b := range bs {
					v[i] = uint32(b.Uint64())
				}
				vals = append(vals, v)
			default:
				vals = append(vals, bs)
			}
			own, terms = append(own, oArr(bs)), append(terms, "AArr "+nlistBig(bs))
		}
	}
	packed, err := args.Pack(vals...)
	if err != nil {
		panic(err)
	}
	mine := ownEncode(own...)
	em.Tally("abi")
	em.Case(lib.Case{ID: id, Coq: fmt.Sprintf("(CAbi [%s] %s %s)", strings.Join(terms, "; "), bterm(packed), bterm(mine)),
		Key: keyOf(in), Nontrivial: len(in.Abi) >= 2, Sig: map[string]interface{}{"kind": "abi"},
		In: in, Out: map[string]interface{}{"packed": hex.EncodeToString(packed)}})
}

func runEth(in *input, em *lib.Emitter, id string) {
	w, err := newWorld(in)
	if err != nil {
		panic(err)
	}
	msg, _ := hex.DecodeString(in.Msg)
	pre := append(append([]byte{}, ethPrefix...), msg...)
	ok := true
	for opID, ch := range w.chains {
		sig, err := ch.Signing().Sign(msg)
		if err != nil {
			panic(err)
		}
		if w.byAddr[ozRecover(ethcrypto.Keccak256(pre), sig)] != opID {
			ok = false
		}
	}
	em.Tally("eth-signer")
	if w.shortOps > 0 {
		em.Tally("eth-signer-short-coordinate-key")
	}
	em.Case(lib.Case{ID: id, Coq: fmt.Sprintf("(CEth %s %s %s)", bterm(msg), bterm(pre), lib.Bool(ok)),
		Key: keyOf(in), Nontrivial: true, Sig: map[string]interface{}{"kind": "eth"},
		In: in, Out: map[string]interface{}{"recovers": ok}})
}

func keyOf(in *input) string {
	return fmt.Sprintf("%+v", *in)
}
