package main

// secp256k1 keys whose public-key coordinates are SHORT: X or Y numerically below 2^248 (2^240),
// i.e. the 32-byte big-endian form starts with one (two) zero bytes and big.Int.Bytes() returns
// fewer than 32 bytes.  About 1 key in 128 has a short X, 1 in 128 a short Y, so uniformly drawn
// keys essentially never exercise the difference between left-padding (what elliptic.Marshal,
// FillBytes, LeftPadTo32Bytes and the contracts' bytes32 words do) and anything else.  The pool
// below makes them a generator dimension of their own: a committed corpus of minimal scalars
// plus keys ground once per run from the run's PRNG.  Every key comes with its private scalar,
// so the same pool serves as group / wallet public key (X, Y) and as operator key (the
// operator's public key is serialised by Signing().PublicKey() and its address is derived from
// the padded coordinates).

import (
	"fmt"
	"math/big"

	ethcrypto "github.com/ethereum/go-ethereum/crypto"

	"verifharness/lib"
)

type curveKey struct {
	Priv   string // private scalar, 64 hex digits
	X, Y   string // public key coordinates, hex without leading zeros
	ZX, ZY int    // leading zero BYTES of the 32-byte big-endian form of X resp. Y
}

// class names the shape of a key: x0y0 = both coordinates of full length.
func (k curveKey) class() string { return fmt.Sprintf("x%dy%d", k.ZX, k.ZY) }

func zeroBytes(v *big.Int) int {
	n := 32 - len(v.Bytes())
	if n < 0 {
		return -1 // does not fit 32 bytes
	}
	return n
}

// coordClass is the class of an arbitrary (X, Y) pair as the driver finds it in an input.
func coordClass(x, y *big.Int) string {
	zx, zy := zeroBytes(x), zeroBytes(y)
	if zx < 0 || zy < 0 {
		return "oversized"
	}
	return fmt.Sprintf("x%dy%d", zx, zy)
}

func mkCurveKey(scalar, x, y *big.Int) curveKey {
	return curveKey{Priv: fmt.Sprintf("%064x", scalar), X: x.Text(16), Y: y.Text(16), ZX: zeroBytes(x), ZY: zeroBytes(y)}
}

func keyOfPriv(privHex string) curveKey {
	k, err := ethcrypto.HexToECDSA(privHex)
	if err != nil {
		panic(err)
	}
	return mkCurveKey(k.D, k.PublicKey.X, k.PublicKey.Y)
}

// The committed corpus: the SMALLEST private scalars k (found by enumerating k = 1, 2, ...)
// whose public key k*G has the stated shape.  The shape is re-checked at start-up.
var corpusShortKeys = []struct {
	scalar int64
	zx, zy int
	what   string
}{
	{0x99, 1, 0, "smallest scalar with X < 2^248 (one leading zero byte) and Y of full length"},
	{0x7a, 0, 1, "smallest scalar with Y < 2^248 (one leading zero byte) and X of full length"},
	{0xda97, 1, 1, "smallest scalar with both X < 2^248 and Y < 2^248"},
	{0xae55, 2, 0, "smallest scalar with X < 2^240 (two leading zero bytes)"},
	{0xa0e8, 0, 2, "smallest scalar with Y < 2^240 (two leading zero bytes)"},
}

func corpusKeys() []curveKey {
	var out []curveKey
	for _, c := range corpusShortKeys {
		k := keyOfPriv(fmt.Sprintf("%064x", c.scalar))
		if k.ZX != c.zx || k.ZY != c.zy {
			panic(fmt.Sprintf("corpus key %#x: expected %d / %d leading zero bytes (%s), found %d / %d",
				c.scalar, c.zx, c.zy, c.what, k.ZX, k.ZY))
		}
		out = append(out, k)
	}
	return out
}

// slots of the grind: how many keys of each shape are kept
var grindSlots = []struct {
	name string
	want int
	fits func(zx, zy int) bool
}{
	// the rare shapes first: a key is put into the first slot it fits
	{"x>=2", 2, func(zx, zy int) bool { return zx >= 2 }},
	{"y>=2", 2, func(zx, zy int) bool { return zy >= 2 }},
	{"x>=1,y>=1", 2, func(zx, zy int) bool { return zx >= 1 && zy >= 1 }},
	{"x=1,y=0", 6, func(zx, zy int) bool { return zx == 1 && zy == 0 }},
	{"x=0,y=1", 6, func(zx, zy int) bool { return zx == 0 && zy == 1 }},
}

type keyPool struct {
	classes [][]curveKey // keys grouped by shape; picks are uniform over shapes, then within
	all     []curveKey
	Tries   int            // grind: public keys looked at
	Found   map[string]int // grind: keys kept per slot
}

func (p *keyPool) add(k curveKey) {
	p.all = append(p.all, k)
	for i, c := range p.classes {
		if c[0].class() == k.class() {
			p.classes[i] = append(c, k)
			return
		}
	}
	p.classes = append(p.classes, []curveKey{k})
}

func corpusPool() *keyPool {
	p := &keyPool{Found: map[string]int{}}
	for _, k := range corpusKeys() {
		p.add(k)
	}
	return p
}

// grind walks k0, k0+1, k0+2, ... from a scalar k0 drawn from the run's PRNG (one point addition
// per key, about 6 microseconds) and keeps the first keys of every wanted shape until all slots
// are full or the budget is used up; shapes not met within the budget (two leading zero bytes:
// 1 key in 32768 per coordinate) are simply absent from this run's pool.
func (p *keyPool) grind(r *lib.Rng, budget int) {
	c := ethcrypto.S256()
	n := c.Params().N
	k := new(big.Int).SetBytes(r.Bytes(32))
	k.Mod(k, new(big.Int).Sub(n, big.NewInt(int64(budget)+2)))
	k.Add(k, big.NewInt(2)) // 2 <= k, k + budget < n: the walk never meets G, -G or infinity
	x, y := c.ScalarBaseMult(k.Bytes())
	gx, gy := c.Params().Gx, c.Params().Gy
	one := big.NewInt(1)
	missing := 0
	for _, s := range grindSlots {
		missing += s.want
	}
	for p.Tries = 0; p.Tries < budget && missing > 0; p.Tries++ {
		zx, zy := zeroBytes(x), zeroBytes(y)
		if zx > 0 || zy > 0 {
			for _, s := range grindSlots {
				if s.fits(zx, zy) {
					if p.Found[s.name] < s.want {
						p.Found[s.name]++
						missing--
						p.add(mkCurveKey(k, x, y))
					}
					break
				}
			}
		}
		x, y = c.Add(x, y, gx, gy)
		k.Add(k, one)
	}
	// the walk is self-checking: the last point must be k*G
	if cx, cy := c.ScalarBaseMult(k.Bytes()); cx.Cmp(x) != 0 || cy.Cmp(y) != 0 {
		panic("grind: the point walk lost track of the scalar")
	}
}

// pick: uniform over the shapes present, then uniform within the shape.
func (p *keyPool) pick(r *lib.Rng) curveKey {
	c := p.classes[r.Intn(len(p.classes))]
	return c[r.Intn(len(c))]
}

// pickUnused: a pool key whose private scalar is not in used (operators of one case must differ).
func (p *keyPool) pickUnused(r *lib.Rng, used map[string]bool) (curveKey, bool) {
	for try := 0; try < 8; try++ {
		if k := p.pick(r); !used[k.Priv] {
			return k, true
		}
	}
	return curveKey{}, false
}
