package main

// Call histories on LONG-LIVED chain handles.
//
// Production builds one TbtcChain per node; every local member of every group (and every later
// key generation, heartbeat, inactivity claim) calls CalculateDKGResultSignatureHash /
// AssembleDKGResult / CalculateInactivityClaimHash / CalculateWalletID on that one handle, and the
// signers of pkg/tbtc are built around it.  The other streams of this driver build a fresh handle
// per case, so a handle that REMEMBERS (a memo keyed by some of the preimage fields only, a reused
// buffer) looks like the pure function of the model.  Here one handle per chain id (two of them)
// lives through a whole history of 2-6 calls whose arguments share all preimage fields but one
// (the misbehaved list with a member added / removed / reordered; the key; the start block; the
// chain id; for claims the nonce, the inactive list, the heartbeat flag, the wallet key); every
// call is judged on its own against the contract preimage for THAT call, the caller's argument
// slices are overwritten after each call, and every result is read again after the last call.

import (
	"bytes"
	"encoding/hex"
	"fmt"
	"math/big"
	"sort"

	"github.com/bnb-chain/tss-lib/crypto"
	"github.com/bnb-chain/tss-lib/ecdsa/keygen"
	ethcrypto "github.com/ethereum/go-ethereum/crypto"

	"github.com/keep-network/keep-core/pkg/chain"
	"github.com/keep-network/keep-core/pkg/chain/ethereum"
	"github.com/keep-network/keep-core/pkg/protocol/group"
	"github.com/keep-network/keep-core/pkg/protocol/inactivity"
	"github.com/keep-network/keep-core/pkg/tbtc"
	"github.com/keep-network/keep-core/pkg/tecdsa"
	"github.com/keep-network/keep-core/pkg/tecdsa/dkg"

	"verifharness/lib"
)

type hcallIn struct {
	Op     string `json:"op"` // hash | sign | assemble | claim | claimsign | wallet
	Handle int    `json:"h"`  // 0: the handle with ChainID, 1: the one with ChainID2
	KeyX   string `json:"x"`
	KeyY   string `json:"y"`
	Start  uint64 `json:"start"`
	List   u8s    `json:"list"` // misbehaved members as passed / raw inactive members
	Nonce  string `json:"nonce"`
	Hbf    bool   `json:"hbf"`
	N      int    `json:"n"` // group size (sign, assemble)
}

var hopCtor = map[string]string{"hash": "HHash", "sign": "HSign", "assemble": "HAssemble",
	"claim": "HClaim", "claimsign": "HClaimSign", "wallet": "HWallet"}

type hkept struct {
	read func() []byte // reads the kept result again
	then []byte        // what it was right after the call
}

func runHist(in *input, em *lib.Emitter, id string) {
	var opKey string
	for _, k := range in.OpKeys {
		opKey = k
	}
	key := mustKey(opKey)
	opAddr := hex.EncodeToString(ethcrypto.PubkeyToAddress(key.PublicKey).Bytes())
	ids := [2]*big.Int{}
	var ok bool
	if ids[0], ok = new(big.Int).SetString(in.ChainID, 10); !ok {
		panic("bad chain id")
	}
	if ids[1], ok = new(big.Int).SetString(in.ChainID2, 10); !ok {
		ids[1] = ids[0]
	}
	// THE long-lived handles: built once, used by every call of the history
	handles := [2]*ethereum.TbtcChain{ethereum.VerifC40Chain(ids[0], key), ethereum.VerifC40Chain(ids[1], key)}

	type obs struct {
		some, ok, recovers bool
		pre                []byte
		hash               []byte
	}
	all := make([]obs, len(in.Hist))
	kept := make([]hkept, len(in.Hist))
	recoversTo := func(pre []byte, sig []byte) bool {
		ethHash := ethcrypto.Keccak256(append(append([]byte{}, ethPrefix...), ethcrypto.Keccak256(pre)...))
		return ozRecover(ethHash, sig) == opAddr
	}
	scramble := func(v []uint8) {
		for i := range v {
			v[i] = 0xEE - uint8(i)
		}
	}
	for k := range in.Hist {
		c := in.Hist[k]
		o := &all[k]
		o.recovers = true
		h := handles[c.Handle&1]
		chainID := ids[c.Handle&1]
		pub := (&input{KeyX: c.KeyX, KeyY: c.KeyY}).pub()
		pk64 := append(pub.X.FillBytes(make([]byte, 32)), pub.Y.FillBytes(make([]byte, 32))...)
		sorted := append([]uint8{}, c.List...)
		sort.Slice(sorted, func(i, j int) bool { return sorted[i] < sorted[j] })
		resultPre := func(pk []byte, misb []uint8) []byte {
			return ownEncode(oUint(chainID), oBytes(pk), oArr(bigs8(misb)), oUint(new(big.Int).SetUint64(c.Start)))
		}
		func() {
			defer func() {
				if r := recover(); r != nil {
					o.some = false
				}
			}()
			switch c.Op {
			case "hash":
				arg := append([]uint8{}, c.List...)
				hv, err := h.CalculateDKGResultSignatureHash(pub, arg, c.Start)
				scramble(arg)
				if err != nil {
					return
				}
				o.some, o.pre = true, resultPre(pk64, sorted)
				o.hash = append([]byte{}, hv[:]...)
				kept[k] = hkept{read: func() []byte { return hv[:] }}
			case "sign":
				g := group.NewGroup(c.N/2, c.N)
				for j, m := range c.List {
					if j%2 == 0 {
						g.MarkMemberAsInactive(m)
					} else {
						g.MarkMemberAsDisqualified(m)
					}
				}
				result := &dkg.Result{Group: g, PrivateKeyShare: tecdsa.NewPrivateKeyShare(keygen.LocalPartySaveData{
					ECDSAPub: crypto.NewECPointNoCurveCheck(tecdsa.Curve, pub.X, pub.Y)})}
				signed, err := tbtc.VerifC40SignDkgResult(h, c.Start, result)
				if err != nil {
					return
				}
				o.some, o.pre = true, resultPre(pk64, sorted)
				o.hash = append([]byte{}, signed.ResultHash[:]...)
				o.recovers = recoversTo(o.pre, signed.Signature)
				kept[k] = hkept{read: func() []byte {
					return append(append([]byte{}, signed.ResultHash[:]...), signed.Signature...)
				}}
			case "assemble":
				arg := append([]uint8{}, c.List...)
				hv, err := h.CalculateDKGResultSignatureHash(pub, arg, c.Start)
				scramble(arg)
				if err != nil {
					return
				}
				var operating []uint8
				sigs := map[group.MemberIndex][]byte{}
				for m := 1; m <= c.N; m++ {
					if bytes.IndexByte(c.List, uint8(m)) >= 0 {
						continue
					}
					operating = append(operating, uint8(m))
					sg, err := h.Signing().Sign(hv[:])
					if err != nil {
						panic(err)
					}
					sigs[uint8(m)] = sg
				}
				members := make(chain.OperatorIDs, c.N)
				for m := range members {
					members[m] = 1 // every seat belongs to this node's operator
				}
				// the result keeps the caller's misbehaved slice (as written), so this one argument
				// is not overwritten afterwards
				misbArg := append([]uint8{}, c.List...)
				res, err := h.AssembleDKGResult(1, pub, operating, misbArg, sigs,
					&tbtc.GroupSelectionResult{OperatorsIDs: members})
				scramble(operating)
				for m := range sigs {
					delete(sigs, m)
				}
				if err != nil {
					return
				}
				abi := ethereum.VerifC40ConvertDkgResultToAbiType(res)
				o.some, o.pre = true, resultPre(abi.GroupPubKey, abi.MisbehavedMembersIndices)
				o.hash = append([]byte{}, hv[:]...)
				for i := 0; i+65 <= len(abi.Signatures); i += 65 {
					o.recovers = o.recovers && recoversTo(o.pre, abi.Signatures[i:i+65])
				}
				o.recovers = o.recovers && len(abi.Signatures) == 65*len(operating)
				kept[k] = hkept{read: func() []byte {
					a := ethereum.VerifC40ConvertDkgResultToAbiType(res)
					b := append(append([]byte{}, a.GroupPubKey...), a.MisbehavedMembersIndices...)
					b = append(b, a.Signatures...)
					return append(b, a.MembersHash[:]...)
				}}
			case "claim", "claimsign":
				nonce, _ := new(big.Int).SetString(c.Nonce, 10)
				nonceWas := new(big.Int).Set(nonce)
				arg := append([]uint8{}, c.List...)
				pre := inactivity.NewClaimPreimage(nonce, pub, arg, c.Hbf)
				var hash, sig []byte
				if c.Op == "claim" {
					hv, err := h.CalculateInactivityClaimHash(pre)
					if err != nil {
						return
					}
					hash = append([]byte{}, hv[:]...)
					kept[k] = hkept{read: func() []byte { return hv[:] }}
				} else {
					signed, err := tbtc.VerifC40SignInactivityClaim(h, pre)
					if err != nil {
						return
					}
					hash, sig = append([]byte{}, signed.ClaimHash[:]...), signed.Signature
					kept[k] = hkept{read: func() []byte {
						return append(append([]byte{}, signed.ClaimHash[:]...), signed.Signature...)
					}}
				}
				// the caller's arguments are the caller's: overwrite all of them
				scramble(arg)
				scramble(pre.InactiveMembersIndexes)
				nonce.SetInt64(-77)
				pre.HeartbeatFailed = !pre.HeartbeatFailed
				var uniq []uint8
				for _, m := range sorted {
					if len(uniq) == 0 || uniq[len(uniq)-1] != m {
						uniq = append(uniq, m)
					}
				}
				o.some = true
				o.pre = ownEncode(oUint(chainID), oUint(nonceWas), oBytes(pk64), oArr(bigs8(uniq)), oBool(c.Hbf))
				o.hash = hash
				if sig != nil {
					o.recovers = recoversTo(o.pre, sig)
				}
			case "wallet":
				wid, err := h.CalculateWalletID(pub)
				if err != nil {
					return
				}
				o.some, o.pre, o.hash = true, pk64, append([]byte{}, wid[:]...)
				kept[k] = hkept{read: func() []byte { return wid[:] }}
			default:
				panic("unknown op " + c.Op)
			}
			o.ok = bytes.Equal(ethcrypto.Keccak256(o.pre), o.hash)
			if kept[k].read != nil {
				kept[k].then = kept[k].read()
			}
		}()
	}

	terms := make([]string, len(in.Hist))
	human := make([]map[string]interface{}, len(in.Hist))
	ops := ""
	staleAt := -1
	for k, c := range in.Hist {
		o := all[k]
		late := true
		if kept[k].read != nil {
			late = bytes.Equal(kept[k].read(), kept[k].then)
		}
		if o.some && (!o.ok || !o.recovers || !late) && staleAt < 0 {
			staleAt = k
		}
		nonce := c.Nonce
		if nonce == "" {
			nonce = "0"
		}
		terms[k] = fmt.Sprintf("({| h_op := %s; h_chainid := %s; h_x := 0x%s; h_y := 0x%s; h_start := %d; h_list := %s; "+
			"h_nonce := %s; h_hbf := %s |}, {| b_some := %s; b_pre := %s; b_ok := %s; b_recovers := %s; b_late := %s |})",
			hopCtor[c.Op], ids[c.Handle&1].String(), hexOr0(c.KeyX), hexOr0(c.KeyY), c.Start, nlist8(c.List),
			nonce, lib.Bool(c.Hbf), lib.Bool(o.some), bterm(o.pre), lib.Bool(o.ok), lib.Bool(o.recovers), lib.Bool(late))
		human[k] = map[string]interface{}{"op": c.Op, "handle": c.Handle & 1, "returned": o.some,
			"hash": hex.EncodeToString(o.hash), "hashIsKeccakOfContractPreimageOfThisCall": o.ok,
			"signaturesRecoverUnderContractHash": o.recovers, "unchangedWhenReadAgain": late,
			"contractHash": hex.EncodeToString(ethcrypto.Keccak256(o.pre))}
		ops += c.Op[:1]
		em.Tally("hist-call-" + c.Op)
	}
	em.Tally(fmt.Sprintf("hist-length-%d", len(in.Hist)))
	em.Case(lib.Case{ID: id, Coq: "(CHist [" + joinSemi(terms) + "])", Key: keyOf(in),
		Nontrivial: len(in.Hist) >= 2,
		Sig: map[string]interface{}{"kind": "hist", "calls": len(in.Hist), "firstBadCall": staleAt},
		In:  in, Out: map[string]interface{}{"calls": human, "firstBadCall": staleAt}})
}

func joinSemi(v []string) string {
	s := ""
	for i, x := range v {
		if i > 0 {
			s += "; "
		}
		s += x
	}
	return s
}

// ------------------------------------------------------------------ generation

// vary returns a copy of base that differs from it in exactly one preimage field (or in none:
// the same question must get the same answer).
func (g *gen) vary(base hcallIn, field string) hcallIn {
	r := g.r
	c := base
	c.List = append(u8s{}, base.List...)
	switch field {
	case "same":
	case "list-add":
		for try := 0; try < 20; try++ {
			m := uint8(r.Range(1, c.N))
			if bytes.IndexByte(c.List, m) < 0 && len(c.List) < c.N-1 {
				c.List = append(c.List, m)
				break
			}
		}
	case "list-remove":
		if len(c.List) > 0 {
			i := r.Intn(len(c.List))
			c.List = append(c.List[:i:i], c.List[i+1:]...)
		}
	case "list-reorder": // the same members in another order: the SAME preimage
		c.List = shuffled8(r, c.List)
	case "list-replace":
		if len(c.List) > 0 {
			for try := 0; try < 20; try++ {
				m := uint8(r.Range(1, c.N))
				if bytes.IndexByte(c.List, m) < 0 {
					c.List[r.Intn(len(c.List))] = m
					break
				}
			}
		}
	case "key":
		c.KeyX, c.KeyY = g.pubKey()
	case "start":
		c.Start = base.Start + uint64(r.Range(1, 3))
		if r.Chance(1, 3) {
			c.Start = uint64(r.Intn(1 << 30))
		}
	case "chain":
		c.Handle = 1 - base.Handle
	case "nonce":
		c.Nonce = fmt.Sprint(r.Intn(50))
		if c.Nonce == base.Nonce {
			c.Nonce = "51"
		}
	case "hbf":
		c.Hbf = !base.Hbf
	}
	return c
}

var resultFields = []string{"list-add", "list-add", "list-remove", "list-remove", "list-replace", "list-reorder",
	"same", "key", "start", "chain"}
var claimFields = []string{"list-add", "list-remove", "list-replace", "list-reorder", "same", "key", "nonce", "nonce",
	"hbf", "hbf", "chain"}

func (g *gen) histCase(k int) *input {
	r := g.r
	n := r.Range(3, 12)
	x, y := g.pubKey()
	in := &input{Kind: "hist", ChainID: g.chainID(), ChainID2: g.chainID(),
		OpKeys: map[string]string{"1": g.opPriv(map[string]bool{})}}
	if in.ChainID2 == in.ChainID {
		in.ChainID2 = in.ChainID + "7"
	}
	base := hcallIn{Handle: r.Intn(2), KeyX: x, KeyY: y, Start: uint64(r.Intn(1 << 40)), N: n,
		List: shuffled8(r, subset(r, rangeU8(1, n), r.Range(0, n/2))), Nonce: fmt.Sprint(r.Intn(50)), Hbf: r.Bool()}
	calls := r.Range(2, 5)
	switch k % 3 {
	case 0, 1: // key-generation results
		opsR := []string{"hash", "hash", "sign", "assemble"}
		for j := 0; j < calls; j++ {
			c := base
			if j > 0 {
				c = g.vary(base, resultFields[r.Intn(len(resultFields))])
			}
			c.Op = opsR[r.Intn(len(opsR))]
			in.Hist = append(in.Hist, c)
			if r.Chance(1, 3) { // drift: the next call differs from this one in one field
				base = c
			}
		}
	default: // inactivity claims and wallet ids
		if len(base.List) == 0 {
			base.List = u8s{uint8(r.Range(1, n))}
		}
		if r.Chance(1, 3) { // duplicates in the raw list
			base.List = append(base.List, base.List[r.Intn(len(base.List))])
		}
		opsC := []string{"claim", "claim", "claimsign", "wallet"}
		for j := 0; j < calls; j++ {
			c := base
			if j > 0 {
				c = g.vary(base, claimFields[r.Intn(len(claimFields))])
			}
			c.Op = opsC[r.Intn(len(opsC))]
			in.Hist = append(in.Hist, c)
			if r.Chance(1, 3) {
				base = c
			}
		}
	}
	return in
}

// corpusHistories: minimised regression histories.
func corpusHistories() []*input {
	key := corpusKeys()[0]
	op := map[string]string{"1": "00000000000000000000000000000000000000000000000000000000000000a7"}
	b := hcallIn{Op: "hash", KeyX: key.X, KeyY: key.Y, Start: 8000, N: 5, Nonce: "3"}
	with := func(c hcallIn, f func(*hcallIn)) hcallIn { f(&c); return c }
	return []*input{
		// no misbehaved members first, then some, then others: same key, same start block
		{Kind: "hist", ChainID: "31337", ChainID2: "1", OpKeys: op, Hist: []hcallIn{
			b,
			with(b, func(c *hcallIn) { c.List = u8s{2} }),
			with(b, func(c *hcallIn) { c.List = u8s{4, 2}; c.Op = "sign" }),
			with(b, func(c *hcallIn) { c.List = u8s{2}; c.Op = "assemble" }),
			b,
		}},
		// same misbehaved list: another start block, another chain, another key
		{Kind: "hist", ChainID: "31337", ChainID2: "1", OpKeys: op, Hist: []hcallIn{
			with(b, func(c *hcallIn) { c.List = u8s{1, 5} }),
			with(b, func(c *hcallIn) { c.List = u8s{1, 5}; c.Start = 8001 }),
			with(b, func(c *hcallIn) { c.List = u8s{1, 5}; c.Handle = 1 }),
			with(b, func(c *hcallIn) { c.List = u8s{5, 1}; c.KeyX, c.KeyY = keyOfPriv(fmt.Sprintf("%064x", 2)).X, keyOfPriv(fmt.Sprintf("%064x", 2)).Y }),
		}},
		// claims: nonce, inactive list, heartbeat flag, wallet key
		{Kind: "hist", ChainID: "31337", ChainID2: "1", OpKeys: op, Hist: []hcallIn{
			with(b, func(c *hcallIn) { c.Op = "claim"; c.List = u8s{3, 1, 3} }),
			with(b, func(c *hcallIn) { c.Op = "claim"; c.List = u8s{3, 1, 3}; c.Nonce = "4" }),
			with(b, func(c *hcallIn) { c.Op = "claimsign"; c.List = u8s{3, 1, 3}; c.Hbf = true }),
			with(b, func(c *hcallIn) { c.Op = "claim"; c.List = u8s{3} }),
			with(b, func(c *hcallIn) { c.Op = "wallet" }),
			with(b, func(c *hcallIn) { c.Op = "wallet"; c.KeyX, c.KeyY = keyOfPriv(fmt.Sprintf("%064x", 2)).X, keyOfPriv(fmt.Sprintf("%064x", 2)).Y }),
		}},
	}
}
