// Driver for C11: runs the real signingRetryLoop.start / dkgRetryLoop.start (through the
// verif-tagged exports in pkg/tbtc) with scripted collaborators — waitForBlockFn,
// getCurrentBlockFn, announcer, done check and attempt functions — and records, per loop
// iteration, every block number and attempt number the loop hands to them.  The Coq model
// (Model/C11.v) replays the same script.
//
// Nothing is decided by wall-clock time: the cancel-on-block watcher goroutines started by the
// loop are met at deterministic rendezvous points (the scripted Announce / Listen calls wait until
// the watcher started just before them has registered).
package main

import (
	"context"
	"crypto/sha256"
	"errors"
	"fmt"
	"math/big"
	"os"
	"strconv"
	"strings"
	"sync"

	golog "github.com/ipfs/go-log/v2"

	"github.com/keep-network/keep-core/pkg/chain"
	"github.com/keep-network/keep-core/pkg/protocol/group"
	"github.com/keep-network/keep-core/pkg/tbtc"
	"github.com/keep-network/keep-core/pkg/tecdsa/dkg"
	"github.com/keep-network/keep-core/pkg/tecdsa/signing"

	"verifharness/lib"
)

type stepIn struct {
	Cancel int     `json:"cancel"` // 0 none; 1 getCurrentBlock, 2 wait, 3 Announce, 4 attempt, 6 waitUntilAllDone
	Cur    *uint64 `json:"cur"`    // nil = getCurrentBlockFn fails
	Wait   bool    `json:"wait"`   // waitForBlockFn(announcement start) succeeds
	AnnErr bool    `json:"ann_err"`
	Ann    []int   `json:"ann"` // ready members returned by Announce
	Att    bool    `json:"att"`
	Sig    bool    `json:"sig"`
	Done   bool    `json:"done"`
}

type input struct {
	Kind   string   `json:"kind"` // "sign" | "dkg"
	Ops    []string `json:"ops"`
	Count  int      `json:"count"`
	Msg    string   `json:"msg"`
	Self   int      `json:"self"`
	Limit  uint     `json:"limit"`
	Start  uint64   `json:"start"`
	Script []stepIn `json:"script"`
}

// ---- observations of one loop iteration
type iterObs struct {
	cur     string // Coq option (option Z)
	wait    string
	watch   []string
	ann     string
	listen  string
	attempt string
	signal  string
	done    string
}

func newIter() *iterObs {
	return &iterObs{cur: "None", wait: "None", ann: "None", listen: "None", attempt: "None", signal: "None", done: "None"}
}

func (it *iterObs) coq() string {
	return fmt.Sprintf("{| i_cur := %s; i_wait := %s; i_watch := %s; i_ann := %s; i_listen := %s; i_attempt := %s; i_signal := %s; i_done := %s |}",
		it.cur, it.wait, lib.List(it.watch), it.ann, it.listen, it.attempt, it.signal, it.done)
}

func members(l []group.MemberIndex) string {
	v := make([]uint64, len(l))
	for i, m := range l {
		v[i] = uint64(m)
	}
	return lib.ListN(v)
}

// ---- the scripted world
type world struct {
	mu   sync.Mutex
	cond *sync.Cond
	in   input
	sign bool

	idx            int // index of the current script step, -1 before the first iteration
	its            []*iterObs
	expectMainWait bool
	watchSeen      int
	watchExpected  int
	exhausted      bool
	lastTimeout    uint64
	cancel         context.CancelFunc
}

func (w *world) cur() *iterObs { return w.its[len(w.its)-1] }

// begin a new iteration; returns the script step or nil when the script is used up
func (w *world) begin() *stepIn {
	w.idx++
	w.its = append(w.its, newIter())
	if w.idx >= len(w.in.Script) {
		w.exhausted = true
		w.cancel()
		return nil
	}
	return &w.in.Script[w.idx]
}

func (w *world) step() *stepIn {
	if w.idx < 0 || w.idx >= len(w.in.Script) {
		return nil
	}
	return &w.in.Script[w.idx]
}

func (w *world) getCurrentBlock() (uint64, error) {
	w.mu.Lock()
	defer w.mu.Unlock()
	s := w.begin()
	w.expectMainWait = true
	if s == nil {
		w.cur().cur = "(Some None)"
		return 0, errors.New("script exhausted")
	}
	if s.Cancel == 1 {
		w.cancel()
	}
	if s.Cur == nil {
		w.cur().cur = "(Some None)"
		return 0, errors.New("scripted current block failure")
	}
	w.cur().cur = "(Some (Some " + lib.ZU(*s.Cur) + "))"
	return *s.Cur, nil
}

func (w *world) waitForBlock(ctx context.Context, block uint64) error {
	w.mu.Lock()
	if w.expectMainWait {
		// the loop's own wait for the announcement start block
		w.expectMainWait = false
		var s *stepIn
		if w.sign {
			s = w.step()
		} else {
			s = w.begin()
		}
		defer w.mu.Unlock()
		if s == nil {
			w.cur().wait = "(Some (" + lib.ZU(block) + ", false))"
			return errors.New("script exhausted")
		}
		if s.Cancel == 2 {
			w.cancel()
		}
		w.cur().wait = fmt.Sprintf("(Some (%s, %s))", lib.ZU(block), lib.Bool(s.Wait))
		if !s.Wait {
			if !w.sign {
				w.expectMainWait = true
			}
			return errors.New("scripted wait failure")
		}
		return nil
	}
	// a cancel-on-block watcher goroutine
	w.cur().watch = append(w.cur().watch, lib.ZU(block))
	w.watchSeen++
	w.cond.Broadcast()
	w.mu.Unlock()
	<-ctx.Done()
	return nil
}

// awaitWatcher blocks until the watcher goroutine started just before the calling collaborator
// has registered (callers hold w.mu)
func (w *world) awaitWatcher() {
	w.watchExpected++
	for w.watchSeen < w.watchExpected {
		w.cond.Wait()
	}
}

func (w *world) Announce(ctx context.Context, memberIndex group.MemberIndex, sessionID string) ([]group.MemberIndex, error) {
	w.mu.Lock()
	defer w.mu.Unlock()
	w.awaitWatcher()
	if !w.sign {
		w.expectMainWait = true
	}
	n := uint64(0)
	if i := strings.LastIndex(sessionID, "-"); i >= 0 && sessionID[:i] == w.in.Msg {
		n, _ = strconv.ParseUint(sessionID[i+1:], 10, 64)
	}
	s := w.step()
	if s == nil {
		w.cur().ann = "(Some (" + lib.N(n) + ", None))"
		return nil, errors.New("script exhausted")
	}
	if s.Cancel == 3 {
		w.cancel()
	}
	if int(memberIndex) != w.in.Self {
		n = 0 // announced under a foreign member index: never matches the model
	}
	if s.AnnErr {
		w.cur().ann = "(Some (" + lib.N(n) + ", None))"
		return nil, errors.New("scripted announcement failure")
	}
	ready := make([]group.MemberIndex, len(s.Ann))
	for i, m := range s.Ann {
		ready[i] = group.MemberIndex(m)
	}
	w.cur().ann = "(Some (" + lib.N(n) + ", Some " + members(ready) + "))"
	return ready, nil
}

func (w *world) Listen(ctx context.Context, message *big.Int, attemptNumber uint64, attemptTimeoutBlock uint64, attemptMembersIndexes []group.MemberIndex) {
	w.mu.Lock()
	defer w.mu.Unlock()
	w.awaitWatcher()
	w.lastTimeout = attemptTimeoutBlock
	w.cur().listen = fmt.Sprintf("(Some (%s, %s, %s))", lib.N(attemptNumber), lib.ZU(attemptTimeoutBlock), members(attemptMembersIndexes))
}

func (w *world) attempt(p *tbtc.VerifC11AttemptParams) bool {
	w.mu.Lock()
	defer w.mu.Unlock()
	s := w.step()
	ok := s != nil && s.Att
	if s != nil && s.Cancel == 4 {
		w.cancel()
	}
	w.lastTimeout = p.TimeoutBlock
	w.cur().attempt = fmt.Sprintf("(Some (%s, %s, %s, %s, %s))", lib.N(uint64(p.Number)), lib.ZU(p.StartBlock),
		lib.ZU(p.TimeoutBlock), members(p.ExcludedMembersIndexes), lib.Bool(ok))
	return ok
}

func (w *world) SignalDone(ctx context.Context, memberIndex group.MemberIndex, message *big.Int, attemptNumber uint64, result *signing.Result, endBlock uint64) error {
	w.mu.Lock()
	defer w.mu.Unlock()
	s := w.step()
	ok := s != nil && s.Sig
	w.cur().signal = "(Some " + lib.Bool(ok) + ")"
	if !ok {
		return errors.New("scripted signalDone failure")
	}
	return nil
}

func (w *world) WaitUntilAllDone(ctx context.Context) (*signing.Result, uint64, error) {
	w.mu.Lock()
	defer w.mu.Unlock()
	s := w.step()
	ok := s != nil && s.Done
	if s != nil && s.Cancel == 6 {
		w.cancel()
	}
	w.cur().done = "(Some " + lib.Bool(ok) + ")"
	if !ok {
		return nil, 0, errors.New("scripted waitUntilAllDone failure")
	}
	return &signing.Result{}, 0, nil
}

func classify(err error) string {
	if errors.Is(err, context.Canceled) {
		return "OCtx"
	}
	s := err.Error()
	switch {
	case strings.Contains(s, "cannot select members"):
		return "OSelect"
	case strings.Contains(s, "reached the limit of attempts"):
		return "OLimit"
	case strings.Contains(s, "failed waiting for announcement start block"):
		return "OWaitErr"
	}
	return "OPanic"
}

func runLoop(in input) (w *world, outcome string, seed int64) {
	ctx, cancel := context.WithCancel(context.Background())
	w = &world{in: in, sign: in.Kind == "sign", idx: -1, cancel: cancel, expectMainWait: in.Kind != "sign"}
	w.cond = sync.NewCond(&w.mu)
	defer cancel()
	ops := make(chain.Addresses, len(in.Ops))
	for i, s := range in.Ops {
		ops[i] = chain.Address(s)
	}
	msg, _ := new(big.Int).SetString(in.Msg, 10)
	params := &tbtc.GroupParameters{GroupSize: len(ops), GroupQuorum: in.Count, HonestThreshold: in.Count}
	defer func() {
		if r := recover(); r != nil {
			outcome = "OPanic"
			// the loop object is lost; read the attempt seed off a freshly constructed one
			zero := &tbtc.GroupParameters{GroupSize: len(ops)}
			if in.Kind == "sign" {
				_, seed, _ = tbtc.VerifC10SigningSelection(msg, 1, ops, zero, 1, nil)
			} else {
				_, seed, _ = tbtc.VerifC10DkgSelection(msg, 1, ops, zero, 1, nil)
			}
		}
	}()
	if w.sign {
		res, sd, err := tbtc.VerifC11SigningLoop(ctx, msg, in.Start, group.MemberIndex(in.Self), ops, params, w, w,
			w.waitForBlock, w.getCurrentBlock,
			func(p *tbtc.VerifC11AttemptParams) (*signing.Result, uint64, error) {
				if !w.attempt(p) {
					return nil, 0, errors.New("scripted attempt failure")
				}
				return &signing.Result{}, 0, nil
			})
		seed = sd
		if err != nil {
			return w, classify(err), seed
		}
		return w, "(ODone " + lib.ZU(res.AttemptTimeoutBlock) + ")", seed
	}
	_, sd, err := tbtc.VerifC11DkgLoop(ctx, msg, in.Start, group.MemberIndex(in.Self), ops, params, w, in.Limit,
		w.waitForBlock,
		func(p *tbtc.VerifC11AttemptParams) (*dkg.Result, error) {
			if !w.attempt(p) {
				return nil, errors.New("scripted attempt failure")
			}
			return &dkg.Result{}, nil
		})
	seed = sd
	if err != nil {
		return w, classify(err), seed
	}
	return w, "(ODone " + lib.ZU(w.lastTimeout) + ")", seed
}

func optList(s stepIn) string {
	if s.AnnErr {
		return "None"
	}
	v := make([]uint64, len(s.Ann))
	for i, m := range s.Ann {
		v[i] = uint64(m)
	}
	return "(Some " + lib.ListN(v) + ")"
}

func run(in input, em *lib.Emitter, id string) {
	rank := lib.Rank(in.Ops)
	ids := make([]uint64, len(in.Ops))
	for i, s := range in.Ops {
		ids[i] = rank[s]
	}
	w, outcome, seed := runLoop(in)
	if w.exhausted {
		outcome = "OExhausted"
	}
	steps := make([]string, len(in.Script))
	for i, s := range in.Script {
		cur := "None"
		if s.Cur != nil {
			cur = "(Some " + lib.ZU(*s.Cur) + ")"
		}
		steps[i] = fmt.Sprintf("{| st_cancel := %s; st_cur := %s; st_wait := %s; st_ann := %s; st_att := %s; st_sig := %s; st_done := %s |}",
			lib.N(uint64(s.Cancel)), cur, lib.Bool(s.Wait), optList(s), lib.Bool(s.Att), lib.Bool(s.Sig), lib.Bool(s.Done))
	}
	its := make([]string, len(w.its))
	nAnn, nAtt, nListen := 0, 0, 0
	for i, it := range w.its {
		its[i] = it.coq()
		if it.ann != "None" {
			nAnn++
		}
		if it.attempt != "None" {
			nAtt++
		}
		if it.listen != "None" {
			nListen++
		}
	}
	kind := "KSign"
	if in.Kind == "dkg" {
		kind = "KDkg"
	}
	coq := fmt.Sprintf("{| c_kind := %s; c_ops := %s; c_count := %s; c_seed := %s; c_self := %s; c_limit := %s; c_start := %s; c_script := %s; c_its := %s; c_out := %s |}",
		kind, lib.ListN(ids), lib.N(uint64(in.Count)), lib.Z(seed), lib.N(uint64(in.Self)), lib.N(uint64(in.Limit)),
		lib.ZU(in.Start), lib.List(steps), lib.List(its), outcome)
	out := strings.SplitN(strings.Trim(outcome, "()"), " ", 2)[0]
	em.Tally(in.Kind + "-outcome-" + out)
	em.Tally(fmt.Sprintf("%s-iterations-%02d", in.Kind, len(w.its)))
	em.Tally(fmt.Sprintf("%s-attempt-calls-%d", in.Kind, nAtt))
	obs := make([]string, len(w.its))
	for i, it := range w.its {
		obs[i] = it.coq()
	}
	em.Case(lib.Case{
		ID:         id,
		Coq:        coq,
		Key:        fmt.Sprintf("%s|%v|%d|%d|%d|%d|%d|%x", in.Kind, ids, in.Count, seed, in.Self, in.Limit, in.Start, sha256.Sum256([]byte(strings.Join(steps, ";")))),
		Nontrivial: len(w.its) >= 3 && nAnn >= 2 && (nAtt >= 1 || nListen >= 1),
		Sig:        map[string]interface{}{"kind": in.Kind, "outcome": out},
		In:         in,
		Out:        map[string]interface{}{"iterations": obs, "outcome": outcome, "attempt_seed": seed},
	})
}

// ------------------------------------------------------------------ generators

func addr(r *lib.Rng) string {
	const hexd = "0123456789abcdefABCDEF"
	b := make([]byte, 40)
	for i := range b {
		b[i] = hexd[r.Intn(len(hexd))]
	}
	return "0x" + string(b)
}

func layout(r *lib.Rng, counts []int) []string {
	var seats []string
	for _, c := range counts {
		a := addr(r)
		for i := 0; i < c; i++ {
			seats = append(seats, a)
		}
	}
	p := r.Perm(len(seats))
	out := make([]string, len(seats))
	for i, j := range p {
		out[i] = seats[j]
	}
	return out
}

func u64(v uint64) *uint64 { return &v }

// steering only (never used to judge): the announcement end block the loop is expected to use
// for attempt n; a change of the Go constants makes the steering less sharp, not the verdicts
func expectedAnnEnd(kind string, start uint64, n int) uint64 {
	if kind == "sign" {
		return start + uint64(n-1)*41 + 6
	}
	return start + uint64(n-1)*216 + 11
}

func subset(r *lib.Rng, n, k int) []int {
	p := r.Perm(n)
	s := make([]int, 0, k)
	for i := 0; i < k && i < n; i++ {
		s = append(s, p[i]+1)
	}
	// the real announcer returns an ascending list
	for i := 1; i < len(s); i++ {
		for j := i; j > 0 && s[j] < s[j-1]; j-- {
			s[j], s[j-1] = s[j-1], s[j]
		}
	}
	return s
}

// step kinds of the small-scope enumerator
const nKinds = 12

func kindStep(r *lib.Rng, kindNo int, kd string, start uint64, attempt int, n, count int) stepIn {
	annEnd := expectedAnnEnd(kd, start, attempt)
	all := subset(r, n, n)
	s := stepIn{Cur: u64(annEnd - 1), Wait: true, Ann: all, Att: true, Sig: true, Done: true}
	switch kindNo {
	case 0: // success
	case 1:
		s.Cur = nil
	case 2:
		s.Cur = u64(annEnd) // announcement phase just passed: skipped
	case 3:
		s.Cur = u64(annEnd + 1000)
	case 4:
		s.Wait = false
	case 5:
		s.AnnErr = true
		s.Ann = nil
	case 6:
		s.Ann = subset(r, n, count-1)
	case 7:
		s.Att = false
	case 8:
		s.Sig = false
	case 9:
		s.Done = false
	case 10:
		s.Ann = subset(r, n, count)
		s.Att = false
	case 11:
		s.Cancel = []int{1, 2, 3, 4, 6}[r.Intn(5)]
		s.Att = r.Bool()
		s.Done = r.Bool()
	}
	return s
}

func terminator(kd string) stepIn {
	if kd == "sign" {
		return stepIn{Cancel: 1}
	}
	return stepIn{Wait: false}
}

func randomCase(r *lib.Rng) input {
	kd := "sign"
	if r.Bool() {
		kd = "dkg"
	}
	nOps := r.Range(2, 6)
	counts := make([]int, nOps)
	for j := range counts {
		counts[j] = r.Range(1, 4)
	}
	if kd == "dkg" { // enough single-seat operators for the retry algorithm to have exclusions
		counts = append(counts, 1, 1, 1, 1)
	}
	g := layout(r, counts)
	if len(g) > 14 {
		g = g[:14]
	}
	n := len(g)
	count := n/2 + 1
	if kd == "dkg" {
		count = n - 2 - n/5
	}
	if r.Chance(1, 8) {
		count = r.Range(1, n)
	}
	var start uint64
	switch r.Intn(4) {
	case 0:
		start = uint64(r.Intn(10))
	case 1:
		start = r.U64() >> 2
	default:
		start = uint64(r.Intn(1 << 30))
	}
	in := input{Kind: kd, Ops: g, Count: count, Msg: new(big.Int).SetBytes(r.Bytes(r.Range(1, 32))).String(),
		Self: r.Range(1, n), Start: start}
	if kd == "dkg" && r.Chance(1, 3) {
		in.Limit = uint(r.Range(1, 6))
	}
	steps := r.Range(1, 9)
	for a := 1; a <= steps; a++ {
		annEnd := expectedAnnEnd(kd, start, a)
		s := stepIn{Wait: !r.Chance(1, 10), Att: r.Chance(1, 4), Sig: !r.Chance(1, 5), Done: r.Chance(1, 3)}
		switch r.Intn(10) {
		case 0:
			s.Cur = nil
		case 1:
			s.Cur = u64(annEnd)
		case 2:
			s.Cur = u64(annEnd + uint64(r.Intn(500)))
		case 3:
			s.Cur = u64(annEnd - 1)
		case 4:
			if annEnd >= 6 {
				s.Cur = u64(annEnd - 6)
			} else {
				s.Cur = u64(0)
			}
		default:
			d := uint64(r.Intn(60))
			if d > annEnd {
				d = annEnd
			}
			s.Cur = u64(annEnd - d)
			if annEnd-d == annEnd && annEnd > 0 {
				s.Cur = u64(annEnd - 1)
			}
		}
		switch r.Intn(10) {
		case 0:
			s.AnnErr = true
		case 1:
			if count > 1 {
				s.Ann = subset(r, n, r.Range(0, count-1))
			} else {
				s.Ann = []int{}
			}
		case 2, 3:
			s.Ann = subset(r, n, n)
		case 4:
			s.Ann = subset(r, n, count)
		default:
			s.Ann = subset(r, n, r.Range(count, n))
		}
		if r.Chance(1, 40) && len(s.Ann) > 0 { // malformed: duplicate / out of the group
			if r.Bool() {
				s.Ann = append(s.Ann, s.Ann[0])
			} else {
				s.Ann[len(s.Ann)-1] = n + 1
			}
		}
		if r.Chance(1, 15) {
			s.Cancel = []int{1, 2, 3, 4, 6}[r.Intn(5)]
		}
		in.Script = append(in.Script, s)
	}
	in.Script = append(in.Script, terminator(kd))
	return in
}

func main() {
	golog.SetAllLoggers(golog.LevelFatal)
	o := lib.ParseOpts()
	em := lib.NewEmitter()
	if o.Replay != "" {
		var in input
		if err := lib.LoadReplay(o.Replay, &in); err != nil {
			fmt.Fprintln(os.Stderr, err)
			os.Exit(2)
		}
		run(in, em, "replay")
		em.Close("replay", nil)
		return
	}
	rng := lib.NewRng(o.Seed)

	// --- corpus: fixed regression histories (run first)
	{
		r := lib.NewRng(11)
		g := layout(r, []int{1, 2, 3, 1})
		all := []int{1, 2, 3, 4, 5, 6, 7}
		ok := func(cur uint64) stepIn {
			return stepIn{Cur: u64(cur), Wait: true, Ann: all, Att: true, Sig: true, Done: true}
		}
		fail := func(cur uint64) stepIn {
			s := ok(cur)
			s.Att = false
			return s
		}
		// three failed attempts, then success; late current blocks skip attempts 2 and 3
		run(input{Kind: "sign", Ops: g, Count: 7, Msg: "1234567", Self: 1, Start: 100,
			Script: []stepIn{fail(100), ok(147), ok(200), fail(185), ok(230), terminator("sign")}}, em, "corpus-sign-skip-late")
		run(input{Kind: "sign", Ops: g, Count: 7, Msg: "42", Self: 3, Start: 0,
			Script: []stepIn{{Cur: nil}, {Cur: u64(0), Wait: false}, {Cur: u64(80), Wait: true, AnnErr: true},
				{Cur: u64(90), Wait: true, Ann: []int{1, 2, 3}}, fail(170), ok(200), terminator("sign")}}, em, "corpus-sign-failure-kinds")
		run(input{Kind: "sign", Ops: g, Count: 4, Msg: "42", Self: 3, Start: 5,
			Script: []stepIn{{Cur: u64(10), Wait: true, Ann: all, Att: true, Sig: true, Done: false, Cancel: 6}, terminator("sign")}}, em, "corpus-sign-cancel-in-done")
		run(input{Kind: "dkg", Ops: g, Count: 6, Msg: "777", Self: 2, Start: 1000,
			Script: []stepIn{fail(0), {Wait: true, AnnErr: true}, {Wait: true, Ann: []int{1, 2, 3}}, fail(0), ok(0), terminator("dkg")}}, em, "corpus-dkg-failures-then-success")
		run(input{Kind: "dkg", Ops: g, Count: 6, Msg: "777", Self: 2, Start: 1000, Limit: 3,
			Script: []stepIn{fail(0), fail(0), fail(0), fail(0), terminator("dkg")}}, em, "corpus-dkg-limit")
		run(input{Kind: "dkg", Ops: g, Count: 6, Msg: "778", Self: 5, Start: 7,
			Script: []stepIn{fail(0), {Wait: true, Ann: all, Cancel: 3}, terminator("dkg")}}, em, "corpus-dkg-cancel-in-announce")
	}

	// --- small scope: every sequence of up to 3 step kinds (12 kinds) on a fixed 5-seat group
	type seq struct {
		kd    string
		kinds []int
	}
	var seqs []seq
	for _, kd := range []string{"sign", "dkg"} {
		for l := 1; l <= 3; l++ {
			total := 1
			for i := 0; i < l; i++ {
				total *= nKinds
			}
			for code := 0; code < total; code++ {
				ks := make([]int, l)
				c := code
				for i := 0; i < l; i++ {
					ks[i] = c % nKinds
					c /= nKinds
				}
				seqs = append(seqs, seq{kd, ks})
			}
		}
	}
	nSmall := o.Count(60, 1500)
	perm := rng.Fork("small").Perm(len(seqs))
	for i := 0; i < nSmall && i < len(seqs); i++ {
		sq := seqs[perm[i]]
		r := rng.Fork(fmt.Sprintf("small%d", i))
		g := layout(r, []int{1, 2, 2})
		count := 5
		if sq.kd == "dkg" {
			g = layout(r, []int{1, 1, 1, 1, 1})
			count = 3
		}
		start := uint64(r.Intn(1000))
		in := input{Kind: sq.kd, Ops: g, Count: count, Msg: fmt.Sprint(r.Intn(1 << 30)), Self: r.Range(1, 5), Start: start}
		for a, kn := range sq.kinds {
			in.Script = append(in.Script, kindStep(r, kn, sq.kd, start, a+1, 5, count))
		}
		in.Script = append(in.Script, terminator(sq.kd))
		run(in, em, fmt.Sprintf("small-%d", i))
	}

	// --- random histories
	nRand := o.Count(60, 1500)
	for i := 0; i < nRand; i++ {
		run(randomCase(rng.Fork(fmt.Sprintf("rand%d", i))), em, fmt.Sprintf("rand-%d", i))
	}
	em.Close("a case is one run of a real retry loop (signing or key generation) by one member, driven by a script of "+
		"per-iteration collaborator answers (current block, wait, announcement, attempt, done checks, context cancellation); "+
		"distinct by (kind, group, count, seed, member, limit, start block, script); non-trivial when the run has >= 3 loop "+
		"iterations, >= 2 announcements and at least one attempt / done-check listening", nil)
}
