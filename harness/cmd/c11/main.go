// Driver for C11: runs the real signingRetryLoop.start / dkgRetryLoop.start (through the
// verif-tagged exports in pkg/tbtc) with scripted collaborators — waitForBlockFn,
// getCurrentBlockFn, announcer, done check and attempt functions — and records, per loop
// iteration, every block number and attempt number the loop hands to them, the current block it
// was told, and the chain's TRUE height at that time.  The Coq model (Model/C11.v) replays the
// same script; the executable property is evaluated against the true height.
//
// The collaborators are total (see "the scripted world"): a loop that calls them more often, less
// often or in another order than the production loop still terminates with an observable.
// Nothing is decided by wall-clock time on the unchanged code: watcher goroutines are awaited by
// counting goroutines (a 5 s fallback exists only for goroutines that never reach waitForBlockFn).
package main

import (
	"context"
	"crypto/sha256"
	"errors"
	"fmt"
	"math/big"
	"os"
	"runtime"
	"strconv"
	"strings"
	"sync"
	"time"

	golog "github.com/ipfs/go-log/v2"

	"github.com/keep-network/keep-core/pkg/chain"
	"github.com/keep-network/keep-core/pkg/protocol/group"
	"github.com/keep-network/keep-core/pkg/tbtc"
	"github.com/keep-network/keep-core/pkg/tecdsa/dkg"
	"github.com/keep-network/keep-core/pkg/tecdsa/signing"

	"verifharness/lib"
)

type stepIn struct {
	Cancel int    `json:"cancel"`  // 0 none; 1 getCurrentBlock, 2 wait, 3 Announce, 4 attempt, 6 waitUntilAllDone
	Height uint64 `json:"height"`  // the chain's TRUE height during this iteration
	CurErr bool   `json:"cur_err"` // getCurrentBlockFn fails (otherwise it answers Height)
	Wait   bool   `json:"wait"`    // waitForBlockFn(announcement start) succeeds
	AnnErr bool   `json:"ann_err"`
	Ann    []int  `json:"ann"` // ready members returned by Announce
	Att    bool   `json:"att"`
	Sig    bool   `json:"sig"`
	Done   bool   `json:"done"`
}

type input struct {
	Kind   string   `json:"kind"` // "sign" | "dkg"
	Ops    []string `json:"ops"`
	Count  int      `json:"count"`
	Msg    string   `json:"msg"`
	Self   int      `json:"self"`
	Limit  uint     `json:"limit"`
	Start  uint64   `json:"start"`
	Script []stepIn `json:"script"`
}

// ---- observations of one loop iteration
type iterObs struct {
	cur     string // Coq option (option Z)
	wait    string
	watch   []string
	ann     string
	listen  string
	attempt string
	signal  string
	done    string
}

func newIter() *iterObs {
	return &iterObs{cur: "None", wait: "None", ann: "None", listen: "None", attempt: "None", signal: "None", done: "None"}
}

func (it *iterObs) coq() string {
	return fmt.Sprintf("{| i_cur := %s; i_wait := %s; i_watch := %s; i_ann := %s; i_listen := %s; i_attempt := %s; i_signal := %s; i_done := %s |}",
		it.cur, it.wait, lib.List(it.watch), it.ann, it.listen, it.attempt, it.signal, it.done)
}

func members(l []group.MemberIndex) string {
	v := make([]uint64, len(l))
	for i, m := range l {
		v[i] = uint64(m)
	}
	return lib.ListN(v)
}

// ---- the scripted world
//
// Every collaborator is TOTAL: whatever the loop calls, in whatever order and however often, the
// call gets a defined answer and is recorded; nothing here waits for a call the loop might not make.
//
//   - The loop's own calls (made on the goroutine that runs start) are told apart from the
//     cancel-on-block watcher goroutines by goroutine identity, not by call order.
//   - The collaborators have a fixed order inside one iteration of either loop (current block 1,
//     wait 2, Announce 3, listen 4, attempt 5, signalDone 6, waitUntilAllDone 7).  A call whose
//     rank is not above the rank of the previous call opens a new iteration = the next script
//     step.  (The real signing loop opens every iteration with getCurrentBlockFn, the real
//     key-generation loop with waitForBlockFn, so there the iterations are the loop's own.)
//   - A loop that outruns its script has its context cancelled and gets errors from every
//     collaborator; a loop that keeps going for runawayIterations more iterations is stopped by a
//     panic raised inside the collaborator it called (observable: OPanic).
//   - Watcher goroutines are awaited by counting goroutines (those started by the loop and not
//     yet arrived in waitForBlock), so a loop that starts no watcher is not waited for.
//   - The chain has a TRUE height during every iteration (stepIn.Height) whether or not the loop
//     asks for it; it is recorded per iteration next to what the loop did.
const (
	stCur = iota + 1
	stWait
	stAnn
	stListen
	stAttempt
	stSignal
	stDone
)

const runawayIterations = 8

type world struct {
	mu   sync.Mutex
	in   input
	sign bool

	mainGID     uint64
	idx         int // index of the current script step, -1 before the first iteration
	stage       int
	its         []*iterObs
	truth       []uint64
	live        int // watcher goroutines parked in waitForBlock
	watchSeen   int
	watchMark   int
	exhausted   bool
	anomalies   []string
	over        stepIn
	lastTimeout uint64
	cancel      context.CancelFunc
}

func goid() uint64 {
	var buf [64]byte
	n := runtime.Stack(buf[:], false)
	f := strings.Fields(string(buf[:n]))
	if len(f) < 2 {
		return 0
	}
	id, _ := strconv.ParseUint(f[1], 10, 64)
	return id
}

// goroutines alive before the first case; stray goroutines (started by a loop, never arriving in
// waitForBlock and never ending): learnt once, then ignored
var baseGoroutines, strayGoroutines int

// settle waits until every goroutine the loop has started so far has arrived in waitForBlock
// (callers do not hold w.mu).  wantNew: the real code has just started a watcher; its arrival
// alone is enough.  The fallback limit is reached only if goroutines are started that never call
// waitForBlock; they are then counted as permanent.
func (w *world) settle(wantNew bool) {
	t0 := time.Now()
	for i := 0; ; i++ {
		w.mu.Lock()
		live, seen, mark := w.live, w.watchSeen, w.watchMark
		w.mu.Unlock()
		pending := runtime.NumGoroutine() - baseGoroutines - strayGoroutines - live
		if pending <= 0 || (wantNew && seen > mark) {
			return
		}
		if i < 200 {
			runtime.Gosched()
		} else {
			time.Sleep(20 * time.Microsecond)
		}
		if i%256 == 255 && time.Since(t0) > 5*time.Second {
			strayGoroutines += pending
			w.mu.Lock()
			w.anomalies = append(w.anomalies, fmt.Sprintf("%d goroutine(s) never reached waitForBlock", pending))
			w.mu.Unlock()
			return
		}
	}
}

// enter records a call of rank st made by the loop itself and returns the script step that
// answers it (callers hold w.mu).
func (w *world) enter(st int) *stepIn {
	w.watchMark = w.watchSeen
	if len(w.its) == 0 || st <= w.stage {
		w.idx++
		w.its = append(w.its, newIter())
		h := w.over.Height
		if w.idx < len(w.in.Script) {
			h = w.in.Script[w.idx].Height
			w.over.Height = h
		} else {
			w.exhausted = true
			w.cancel()
			if w.idx >= len(w.in.Script)+runawayIterations {
				w.truth = append(w.truth, h)
				panic("runaway loop: still iterating long after the end of the script")
			}
		}
		w.truth = append(w.truth, h)
	}
	w.stage = st
	if w.idx < len(w.in.Script) {
		return &w.in.Script[w.idx]
	}
	return &w.over // every answer is a failure
}

func (w *world) cur() *iterObs {
	if len(w.its) == 0 { // a watcher before any call of the loop
		w.its = append(w.its, newIter())
		w.truth = append(w.truth, w.over.Height)
	}
	return w.its[len(w.its)-1]
}

func (w *world) getCurrentBlock() (uint64, error) {
	w.settle(false)
	w.mu.Lock()
	defer w.mu.Unlock()
	s := w.enter(stCur)
	if s.Cancel == 1 {
		w.cancel()
	}
	if s.CurErr {
		w.cur().cur = "(Some None)"
		return 0, errors.New("scripted current block failure")
	}
	w.cur().cur = "(Some (Some " + lib.ZU(s.Height) + "))"
	return s.Height, nil
}

func (w *world) waitForBlock(ctx context.Context, block uint64) error {
	if goid() != w.mainGID {
		// a cancel-on-block watcher goroutine: parked until the loop's context is over
		w.mu.Lock()
		w.cur().watch = append(w.cur().watch, lib.ZU(block))
		w.watchSeen++
		w.live++
		w.mu.Unlock()
		<-ctx.Done()
		w.mu.Lock()
		w.live--
		w.mu.Unlock()
		return nil
	}
	// the loop's own wait for the announcement start block
	w.settle(false)
	w.mu.Lock()
	defer w.mu.Unlock()
	s := w.enter(stWait)
	if s.Cancel == 2 {
		w.cancel()
	}
	w.cur().wait = fmt.Sprintf("(Some (%s, %s))", lib.ZU(block), lib.Bool(s.Wait))
	if !s.Wait {
		return errors.New("scripted wait failure")
	}
	return nil
}

func (w *world) Announce(ctx context.Context, memberIndex group.MemberIndex, sessionID string) ([]group.MemberIndex, error) {
	w.settle(true)
	w.mu.Lock()
	defer w.mu.Unlock()
	s := w.enter(stAnn)
	n := uint64(0)
	if i := strings.LastIndex(sessionID, "-"); i >= 0 && sessionID[:i] == w.in.Msg {
		n, _ = strconv.ParseUint(sessionID[i+1:], 10, 64)
	}
	if s.Cancel == 3 {
		w.cancel()
	}
	if int(memberIndex) != w.in.Self {
		n = 0 // announced under a foreign member index: never matches the model
	}
	if s.AnnErr {
		w.cur().ann = "(Some (" + lib.N(n) + ", None))"
		return nil, errors.New("scripted announcement failure")
	}
	ready := make([]group.MemberIndex, len(s.Ann))
	for i, m := range s.Ann {
		ready[i] = group.MemberIndex(m)
	}
	w.cur().ann = "(Some (" + lib.N(n) + ", Some " + members(ready) + "))"
	return ready, nil
}

func (w *world) Listen(ctx context.Context, message *big.Int, attemptNumber uint64, attemptTimeoutBlock uint64, attemptMembersIndexes []group.MemberIndex) {
	w.settle(true)
	w.mu.Lock()
	defer w.mu.Unlock()
	w.enter(stListen)
	w.lastTimeout = attemptTimeoutBlock
	w.cur().listen = fmt.Sprintf("(Some (%s, %s, %s))", lib.N(attemptNumber), lib.ZU(attemptTimeoutBlock), members(attemptMembersIndexes))
}

func (w *world) attempt(p *tbtc.VerifC11AttemptParams) bool {
	w.settle(false)
	w.mu.Lock()
	defer w.mu.Unlock()
	s := w.enter(stAttempt)
	if s.Cancel == 4 {
		w.cancel()
	}
	w.lastTimeout = p.TimeoutBlock
	w.cur().attempt = fmt.Sprintf("(Some (%s, %s, %s, %s, %s))", lib.N(uint64(p.Number)), lib.ZU(p.StartBlock),
		lib.ZU(p.TimeoutBlock), members(p.ExcludedMembersIndexes), lib.Bool(s.Att))
	return s.Att
}

func (w *world) SignalDone(ctx context.Context, memberIndex group.MemberIndex, message *big.Int, attemptNumber uint64, result *signing.Result, endBlock uint64) error {
	w.settle(false)
	w.mu.Lock()
	defer w.mu.Unlock()
	s := w.enter(stSignal)
	w.cur().signal = "(Some " + lib.Bool(s.Sig) + ")"
	if !s.Sig {
		return errors.New("scripted signalDone failure")
	}
	return nil
}

func (w *world) WaitUntilAllDone(ctx context.Context) (*signing.Result, uint64, error) {
	w.settle(false)
	w.mu.Lock()
	defer w.mu.Unlock()
	s := w.enter(stDone)
	if s.Cancel == 6 {
		w.cancel()
	}
	w.cur().done = "(Some " + lib.Bool(s.Done) + ")"
	if !s.Done {
		return nil, 0, errors.New("scripted waitUntilAllDone failure")
	}
	return &signing.Result{}, 0, nil
}

// drain waits until the watcher goroutines of a finished loop are gone (bounded: goroutines that
// stay are counted as permanent from then on)
func drain() {
	t0 := time.Now()
	for i := 0; runtime.NumGoroutine()-strayGoroutines > baseGoroutines; i++ {
		if i < 200 {
			runtime.Gosched()
		} else {
			time.Sleep(20 * time.Microsecond)
		}
		if i%256 == 255 && time.Since(t0) > 5*time.Second {
			strayGoroutines = runtime.NumGoroutine() - baseGoroutines
			return
		}
	}
}

func classify(err error) string {
	if errors.Is(err, context.Canceled) {
		return "OCtx"
	}
	s := err.Error()
	switch {
	case strings.Contains(s, "cannot select members"):
		return "OSelect"
	case strings.Contains(s, "reached the limit of attempts"):
		return "OLimit"
	case strings.Contains(s, "failed waiting for announcement start block"):
		return "OWaitErr"
	}
	return "OPanic"
}

func runLoop(in input) (w *world, outcome string, seed int64) {
	ctx, cancel := context.WithCancel(context.Background())
	w = &world{in: in, sign: in.Kind == "sign", idx: -1, cancel: cancel, mainGID: goid(),
		over: stepIn{CurErr: true, AnnErr: true}}
	if len(in.Script) > 0 {
		w.over.Height = in.Script[0].Height
	}
	defer func() {
		w.settle(false) // watchers started last have arrived
		cancel()
		drain()
	}()
	ops := make(chain.Addresses, len(in.Ops))
	for i, s := range in.Ops {
		ops[i] = chain.Address(s)
	}
	msg, _ := new(big.Int).SetString(in.Msg, 10)
	params := &tbtc.GroupParameters{GroupSize: len(ops), GroupQuorum: in.Count, HonestThreshold: in.Count}
	defer func() {
		if r := recover(); r != nil {
			outcome = "OPanic"
			// the loop object is lost; read the attempt seed off a freshly constructed one
			zero := &tbtc.GroupParameters{GroupSize: len(ops)}
			if in.Kind == "sign" {
				_, seed, _ = tbtc.VerifC10SigningSelection(msg, 1, ops, zero, 1, nil)
			} else {
				_, seed, _ = tbtc.VerifC10DkgSelection(msg, 1, ops, zero, 1, nil)
			}
		}
	}()
	if w.sign {
		res, sd, err := tbtc.VerifC11SigningLoop(ctx, msg, in.Start, group.MemberIndex(in.Self), ops, params, w, w,
			w.waitForBlock, w.getCurrentBlock,
			func(p *tbtc.VerifC11AttemptParams) (*signing.Result, uint64, error) {
				if !w.attempt(p) {
					return nil, 0, errors.New("scripted attempt failure")
				}
				return &signing.Result{}, 0, nil
			})
		seed = sd
		if err != nil {
			return w, classify(err), seed
		}
		return w, "(ODone " + lib.ZU(res.AttemptTimeoutBlock) + ")", seed
	}
	_, sd, err := tbtc.VerifC11DkgLoop(ctx, msg, in.Start, group.MemberIndex(in.Self), ops, params, w, in.Limit,
		w.waitForBlock,
		func(p *tbtc.VerifC11AttemptParams) (*dkg.Result, error) {
			if !w.attempt(p) {
				return nil, errors.New("scripted attempt failure")
			}
			return &dkg.Result{}, nil
		})
	seed = sd
	if err != nil {
		return w, classify(err), seed
	}
	return w, "(ODone " + lib.ZU(w.lastTimeout) + ")", seed
}

func optList(s stepIn) string {
	if s.AnnErr {
		return "None"
	}
	v := make([]uint64, len(s.Ann))
	for i, m := range s.Ann {
		v[i] = uint64(m)
	}
	return "(Some " + lib.ListN(v) + ")"
}

func run(in input, em *lib.Emitter, id string) {
	rank := lib.Rank(in.Ops)
	ids := make([]uint64, len(in.Ops))
	for i, s := range in.Ops {
		ids[i] = rank[s]
	}
	w, outcome, seed := runLoop(in)
	steps := make([]string, len(in.Script))
	for i, s := range in.Script {
		cur := "None"
		if !s.CurErr {
			cur = "(Some " + lib.ZU(s.Height) + ")"
		}
		steps[i] = fmt.Sprintf("{| st_cancel := %s; st_cur := %s; st_wait := %s; st_ann := %s; st_att := %s; st_sig := %s; st_done := %s |}",
			lib.N(uint64(s.Cancel)), cur, lib.Bool(s.Wait), optList(s), lib.Bool(s.Att), lib.Bool(s.Sig), lib.Bool(s.Done))
	}
	its := make([]string, len(w.its))
	nAnn, nAtt, nListen := 0, 0, 0
	for i, it := range w.its {
		its[i] = it.coq()
		if it.ann != "None" {
			nAnn++
		}
		if it.attempt != "None" {
			nAtt++
		}
		if it.listen != "None" {
			nListen++
		}
	}
	kind := "KSign"
	if in.Kind == "dkg" {
		kind = "KDkg"
	}
	truth := make([]string, len(w.truth))
	for i, h := range w.truth {
		truth[i] = lib.ZU(h)
	}
	coq := fmt.Sprintf("{| c_kind := %s; c_ops := %s; c_count := %s; c_seed := %s; c_self := %s; c_limit := %s; c_start := %s; c_script := %s; c_its := %s; c_truth := %s; c_out := %s |}",
		kind, lib.ListN(ids), lib.N(uint64(in.Count)), lib.Z(seed), lib.N(uint64(in.Self)), lib.N(uint64(in.Limit)),
		lib.ZU(in.Start), lib.List(steps), lib.List(its), lib.List(truth), outcome)
	out := strings.SplitN(strings.Trim(outcome, "()"), " ", 2)[0]
	em.Tally(in.Kind + "-outcome-" + out)
	em.Tally(fmt.Sprintf("%s-iterations-%02d", in.Kind, len(w.its)))
	em.Tally(fmt.Sprintf("%s-attempt-calls-%d", in.Kind, nAtt))
	obs := make([]string, len(w.its))
	for i, it := range w.its {
		obs[i] = fmt.Sprintf("true chain height %d: %s", w.truth[i], it.coq())
	}
	if w.exhausted {
		em.Tally(in.Kind + "-outran-its-script")
	}
	for range w.anomalies {
		em.Tally("anomaly-goroutine-never-reached-waitForBlock")
	}
	em.Case(lib.Case{
		ID:         id,
		Coq:        coq,
		Key:        fmt.Sprintf("%s|%v|%d|%d|%d|%d|%d|%x", in.Kind, ids, in.Count, seed, in.Self, in.Limit, in.Start, sha256.Sum256([]byte(strings.Join(steps, ";")))),
		Nontrivial: len(w.its) >= 3 && nAnn >= 2 && (nAtt >= 1 || nListen >= 1),
		Sig:        map[string]interface{}{"kind": in.Kind, "outcome": out},
		In:         in,
		Out: map[string]interface{}{"iterations": obs, "outcome": outcome, "attempt_seed": seed,
			"outran_script": w.exhausted, "anomalies": w.anomalies},
	})
}

// ------------------------------------------------------------------ generators

func addr(r *lib.Rng) string {
	const hexd = "0123456789abcdefABCDEF"
	b := make([]byte, 40)
	for i := range b {
		b[i] = hexd[r.Intn(len(hexd))]
	}
	return "0x" + string(b)
}

func layout(r *lib.Rng, counts []int) []string {
	var seats []string
	for _, c := range counts {
		a := addr(r)
		for i := 0; i < c; i++ {
			seats = append(seats, a)
		}
	}
	p := r.Perm(len(seats))
	out := make([]string, len(seats))
	for i, j := range p {
		out[i] = seats[j]
	}
	return out
}

// steering only (never used to judge): the announcement end block the loop is expected to use
// for attempt n; a change of the Go constants makes the steering less sharp, not the verdicts
func expectedAnnEnd(kind string, start uint64, n int) uint64 {
	if kind == "sign" {
		return start + uint64(n-1)*41 + 6
	}
	return start + uint64(n-1)*216 + 11
}

func subset(r *lib.Rng, n, k int) []int {
	p := r.Perm(n)
	s := make([]int, 0, k)
	for i := 0; i < k && i < n; i++ {
		s = append(s, p[i]+1)
	}
	// the real announcer returns an ascending list
	for i := 1; i < len(s); i++ {
		for j := i; j > 0 && s[j] < s[j-1]; j-- {
			s[j], s[j-1] = s[j-1], s[j]
		}
	}
	return s
}

// step kinds of the small-scope enumerator
const nKinds = 12

func kindStep(r *lib.Rng, kindNo int, kd string, start uint64, attempt int, n, count int) stepIn {
	annEnd := expectedAnnEnd(kd, start, attempt)
	all := subset(r, n, n)
	s := stepIn{Height: annEnd - 1, Wait: true, Ann: all, Att: true, Sig: true, Done: true}
	switch kindNo {
	case 0: // success
	case 1:
		s.CurErr = true
		if r.Bool() { // the chain is past the announcement while the lookup fails
			s.Height = annEnd + uint64(r.Intn(3))
		}
	case 2:
		s.Height = annEnd // announcement phase just passed: skipped
	case 3:
		s.Height = annEnd + 1000
	case 4:
		s.Wait = false
	case 5:
		s.AnnErr = true
		s.Ann = nil
	case 6:
		s.Ann = subset(r, n, count-1)
	case 7:
		s.Att = false
	case 8:
		s.Sig = false
	case 9:
		s.Done = false
	case 10:
		s.Ann = subset(r, n, count)
		s.Att = false
	case 11:
		s.Cancel = []int{1, 2, 3, 4, 6}[r.Intn(5)]
		s.Att = r.Bool()
		s.Done = r.Bool()
	}
	return s
}

func terminator(kd string) stepIn {
	if kd == "sign" {
		return stepIn{Cancel: 1, CurErr: true, Height: 1 << 62}
	}
	return stepIn{Wait: false, Height: 1 << 62}
}

// steering only: the announcement start block expected for attempt n
func expectedAnnStart(kind string, start uint64, n int) uint64 {
	if kind == "sign" {
		return expectedAnnEnd(kind, start, n) - 5
	}
	return expectedAnnEnd(kind, start, n) - 10
}

// lateCase: a history on ONE loop over a chain whose height only grows.  The member starts late
// (the chain is already past the announcement phase of the first k attempts, k = 1..3), takes
// part in one or more attempts that fail (minority announcement, announcement / attempt /
// done-check errors), and while it is busy the chain moves on: often it is already at or past the
// announcement end block of the next attempt (exactly at it, one past it, several attempts past
// it) when that attempt is evaluated.  Current-block lookups that fail are mixed in anywhere; the
// chain may be past the announcement during such a lookup.  Steps the correct loop skips still
// carry collaborator answers (mostly failing ones): a loop that wrongly enters them gets an
// answer.  For the key-generation loop, which observes no height, being late shows as an
// announcement that fails at once (its context is already cancelled by the end-block watcher).
func lateCase(r *lib.Rng, kd string) input {
	n := r.Range(3, 7)
	counts := make([]int, n)
	for i := range counts {
		counts[i] = 1
	}
	g := layout(r, counts)
	count := n/2 + 1
	if kd == "dkg" {
		count = n - 1
	}
	start := uint64(r.Intn(1 << 20))
	if r.Chance(1, 6) {
		start = r.U64() >> 3
	}
	in := input{Kind: kd, Ops: g, Count: count, Msg: fmt.Sprint(r.Intn(1 << 30)), Self: r.Range(1, n), Start: start}
	k := r.Range(1, 3)
	annEnd := func(a int) uint64 { return expectedAnnEnd(kd, start, a) }
	// late by k attempts
	var h uint64
	switch r.Intn(3) {
	case 0:
		h = annEnd(k)
	case 1:
		h = annEnd(k+1) - 1
	default:
		h = annEnd(k) + uint64(r.Intn(int(annEnd(k+1)-annEnd(k))))
	}
	failures := r.Range(1, 3)
	minority := func() []int { return subset(r, n, r.Range(0, count-1)) }
	failing := func(s *stepIn) {
		s.Wait, s.Att, s.Sig, s.Done = true, true, true, true
		s.Ann = subset(r, n, n)
		switch r.Intn(8) {
		case 0:
			s.AnnErr, s.Ann = true, nil
		case 1:
			s.Att = false
		case 2:
			s.Sig = false
		case 3:
			s.Done = false
		case 4:
			s.Wait = false
		default:
			s.Ann = minority()
		}
	}
	a := 1
	for len(in.Script) < 16 {
		s := stepIn{Height: h}
		late := annEnd(a) <= h
		switch {
		case r.Chance(1, 7):
			// the lookup fails; the answers behind it are never asked for by the correct loop
			s.CurErr = true
			failing(&s)
			if kd == "dkg" {
				s.AnnErr, s.Ann = true, nil
			}
		case late:
			if r.Chance(1, 4) {
				s.Wait, s.Att, s.Sig, s.Done, s.Ann = true, true, true, true, subset(r, n, n)
			} else {
				failing(&s)
			}
			if kd == "dkg" {
				s.AnnErr, s.Ann = true, nil
			}
		case failures > 0:
			failures--
			failing(&s)
			// the chain moves on while the member is busy with the failing attempt
			switch r.Intn(6) {
			case 0:
				h = annEnd(a + 1)
			case 1:
				h = annEnd(a+1) + 1
			case 2:
				h = annEnd(a+1) + uint64(r.Intn(40))
			case 3:
				h = annEnd(a+1+r.Range(1, 2*k+3)) + uint64(r.Intn(30))
			case 4:
				h = annEnd(a+1) - 1
			default:
				if e := expectedAnnStart(kd, start, a+1); e > h {
					h = e
				}
			}
		default:
			s.Wait, s.Att, s.Sig, s.Done, s.Ann = true, true, true, true, subset(r, n, n)
			in.Script = append(in.Script, s)
			in.Script = append(in.Script, terminator(kd))
			return in
		}
		in.Script = append(in.Script, s)
		a++
	}
	in.Script = append(in.Script, terminator(kd))
	return in
}

func randomCase(r *lib.Rng) input {
	kd := "sign"
	if r.Bool() {
		kd = "dkg"
	}
	nOps := r.Range(2, 6)
	counts := make([]int, nOps)
	for j := range counts {
		counts[j] = r.Range(1, 4)
	}
	if kd == "dkg" { // enough single-seat operators for the retry algorithm to have exclusions
		counts = append(counts, 1, 1, 1, 1)
	}
	g := layout(r, counts)
	if len(g) > 14 {
		g = g[:14]
	}
	n := len(g)
	count := n/2 + 1
	if kd == "dkg" {
		count = n - 2 - n/5
	}
	if r.Chance(1, 8) {
		count = r.Range(1, n)
	}
	var start uint64
	switch r.Intn(4) {
	case 0:
		start = uint64(r.Intn(10))
	case 1:
		start = r.U64() >> 2
	default:
		start = uint64(r.Intn(1 << 30))
	}
	in := input{Kind: kd, Ops: g, Count: count, Msg: new(big.Int).SetBytes(r.Bytes(r.Range(1, 32))).String(),
		Self: r.Range(1, n), Start: start}
	if kd == "dkg" && r.Chance(1, 3) {
		in.Limit = uint(r.Range(1, 6))
	}
	steps := r.Range(1, 9)
	for a := 1; a <= steps; a++ {
		annEnd := expectedAnnEnd(kd, start, a)
		s := stepIn{Wait: !r.Chance(1, 10), Att: r.Chance(1, 4), Sig: !r.Chance(1, 5), Done: r.Chance(1, 3)}
		switch r.Intn(10) {
		case 0:
			s.CurErr = true
			s.Height = annEnd - 3 + uint64(r.Intn(6))
		case 1:
			s.Height = annEnd
		case 2:
			s.Height = annEnd + uint64(r.Intn(500))
		case 3:
			s.Height = annEnd - 1
		case 4:
			if annEnd >= 6 {
				s.Height = annEnd - 6
			} else {
				s.Height = 0
			}
		default:
			d := uint64(r.Intn(60))
			if d > annEnd {
				d = annEnd
			}
			s.Height = annEnd - d
			if annEnd-d == annEnd && annEnd > 0 {
				s.Height = annEnd - 1
			}
		}
		switch r.Intn(10) {
		case 0:
			s.AnnErr = true
		case 1:
			if count > 1 {
				s.Ann = subset(r, n, r.Range(0, count-1))
			} else {
				s.Ann = []int{}
			}
		case 2, 3:
			s.Ann = subset(r, n, n)
		case 4:
			s.Ann = subset(r, n, count)
		default:
			s.Ann = subset(r, n, r.Range(count, n))
		}
		if r.Chance(1, 40) && len(s.Ann) > 0 { // malformed: duplicate / out of the group
			if r.Bool() {
				s.Ann = append(s.Ann, s.Ann[0])
			} else {
				s.Ann[len(s.Ann)-1] = n + 1
			}
		}
		if r.Chance(1, 15) {
			s.Cancel = []int{1, 2, 3, 4, 6}[r.Intn(5)]
		}
		in.Script = append(in.Script, s)
	}
	in.Script = append(in.Script, terminator(kd))
	return in
}

func main() {
	golog.SetAllLoggers(golog.LevelFatal)
	o := lib.ParseOpts()
	em := lib.NewEmitter()
	if o.Replay != "" {
		var in input
		if err := lib.LoadReplay(o.Replay, &in); err != nil {
			fmt.Fprintln(os.Stderr, err)
			os.Exit(2)
		}
		baseGoroutines = runtime.NumGoroutine()
		run(in, em, "replay")
		em.Close("replay", nil)
		return
	}
	rng := lib.NewRng(o.Seed)
	baseGoroutines = runtime.NumGoroutine()

	// --- corpus: fixed regression histories (run first)
	{
		r := lib.NewRng(11)
		g := layout(r, []int{1, 2, 3, 1})
		all := []int{1, 2, 3, 4, 5, 6, 7}
		ok := func(cur uint64) stepIn {
			return stepIn{Height: cur, Wait: true, Ann: all, Att: true, Sig: true, Done: true}
		}
		fail := func(cur uint64) stepIn {
			s := ok(cur)
			s.Att = false
			return s
		}
		// three failed attempts, then success; late current blocks skip attempts 2 and 3
		run(input{Kind: "sign", Ops: g, Count: 7, Msg: "1234567", Self: 1, Start: 100,
			Script: []stepIn{fail(100), ok(147), ok(200), fail(185), ok(230), terminator("sign")}}, em, "corpus-sign-skip-late")
		run(input{Kind: "sign", Ops: g, Count: 7, Msg: "42", Self: 3, Start: 0,
			Script: []stepIn{{CurErr: true}, {Height: 0, Wait: false}, {Height: 80, Wait: true, AnnErr: true},
				{Height: 90, Wait: true, Ann: []int{1, 2, 3}}, fail(170), ok(200), terminator("sign")}}, em, "corpus-sign-failure-kinds")
		// late start (attempt 1 over), attempt 2 joined and failed (minority), chain then past
		// attempt 3, attempt 4 succeeds — with and without failing answers behind the skipped steps
		lateAns := stepIn{Height: 210, Wait: true, Ann: []int{3}, Att: true, Sig: true, Done: true}
		lateAns3 := lateAns
		lateAns3.Height = 420 // past the announcement phases of attempts 3..6
		run(input{Kind: "sign", Ops: g, Count: 4, Msg: "100", Self: 1, Start: 200,
			Script: []stepIn{ok(210), {Height: 210, Wait: true, Ann: []int{1}, Att: true, Sig: true, Done: true}, ok(300), ok(300),
				terminator("sign")}}, em, "corpus-sign-late-start-fail-late-observation")
		run(input{Kind: "sign", Ops: g, Count: 4, Msg: "100", Self: 1, Start: 200,
			Script: []stepIn{lateAns, lateAns, lateAns3, lateAns3, lateAns3, lateAns3, ok(420), terminator("sign")}}, em, "corpus-sign-late-start-failing-answers")
		run(input{Kind: "sign", Ops: g, Count: 4, Msg: "101", Self: 2, Start: 200,
			Script: []stepIn{lateAns, {Height: 210, CurErr: true, Wait: true, Ann: []int{3}}, lateAns, fail(290), {Height: 500, CurErr: true, Wait: true, Ann: all, Att: true, Sig: true, Done: true},
				ok(500), ok(500), ok(500), ok(500), ok(500), ok(500), terminator("sign")}}, em, "corpus-sign-late-start-lookup-errors")
		run(input{Kind: "sign", Ops: g, Count: 4, Msg: "42", Self: 3, Start: 5,
			Script: []stepIn{{Height: 10, Wait: true, Ann: all, Att: true, Sig: true, Done: false, Cancel: 6}, terminator("sign")}}, em, "corpus-sign-cancel-in-done")
		run(input{Kind: "dkg", Ops: g, Count: 6, Msg: "777", Self: 2, Start: 1000,
			Script: []stepIn{fail(0), {Wait: true, AnnErr: true}, {Wait: true, Ann: []int{1, 2, 3}}, fail(0), ok(0), terminator("dkg")}}, em, "corpus-dkg-failures-then-success")
		run(input{Kind: "dkg", Ops: g, Count: 6, Msg: "777", Self: 2, Start: 1000, Limit: 3,
			Script: []stepIn{fail(0), fail(0), fail(0), fail(0), terminator("dkg")}}, em, "corpus-dkg-limit")
		run(input{Kind: "dkg", Ops: g, Count: 6, Msg: "778", Self: 5, Start: 7,
			Script: []stepIn{fail(0), {Wait: true, Ann: all, Cancel: 3}, terminator("dkg")}}, em, "corpus-dkg-cancel-in-announce")
	}

	// --- small scope: every sequence of up to 3 step kinds (12 kinds) on a fixed 5-seat group
	type seq struct {
		kd    string
		kinds []int
	}
	var seqs []seq
	for _, kd := range []string{"sign", "dkg"} {
		for l := 1; l <= 3; l++ {
			total := 1
			for i := 0; i < l; i++ {
				total *= nKinds
			}
			for code := 0; code < total; code++ {
				ks := make([]int, l)
				c := code
				for i := 0; i < l; i++ {
					ks[i] = c % nKinds
					c /= nKinds
				}
				seqs = append(seqs, seq{kd, ks})
			}
		}
	}
	nSmall := o.Count(60, 1500)
	perm := rng.Fork("small").Perm(len(seqs))
	for i := 0; i < nSmall && i < len(seqs); i++ {
		sq := seqs[perm[i]]
		r := rng.Fork(fmt.Sprintf("small%d", i))
		g := layout(r, []int{1, 2, 2})
		count := 5
		if sq.kd == "dkg" {
			g = layout(r, []int{1, 1, 1, 1, 1})
			count = 3
		}
		start := uint64(r.Intn(1000))
		in := input{Kind: sq.kd, Ops: g, Count: count, Msg: fmt.Sprint(r.Intn(1 << 30)), Self: r.Range(1, 5), Start: start}
		for a, kn := range sq.kinds {
			in.Script = append(in.Script, kindStep(r, kn, sq.kd, start, a+1, 5, count))
		}
		in.Script = append(in.Script, terminator(sq.kd))
		run(in, em, fmt.Sprintf("small-%d", i))
	}

	// --- late starters on a moving chain
	nLate := o.Count(60, 1500)
	for i := 0; i < nLate; i++ {
		kd := "sign"
		if i%4 == 3 {
			kd = "dkg"
		}
		run(lateCase(rng.Fork(fmt.Sprintf("late%d", i)), kd), em, fmt.Sprintf("late-%d", i))
	}

	// --- random histories
	nRand := o.Count(60, 1500)
	for i := 0; i < nRand; i++ {
		run(randomCase(rng.Fork(fmt.Sprintf("rand%d", i))), em, fmt.Sprintf("rand-%d", i))
	}
	em.Close("a case is one run of a real retry loop (signing or key generation) by one member, driven by a script of "+
		"per-iteration collaborator answers (true chain height / current block, wait, announcement, attempt, done checks, context cancellation): "+
		"a corpus, every sequence of <= 3 step kinds, late starters on a moving chain (k = 1..3 attempts already over, failing participation, "+
		"the chain at or past the next announcement end, failing lookups), random histories; "+
		"distinct by (kind, group, count, seed, member, limit, start block, script); non-trivial when the run has >= 3 loop "+
		"iterations, >= 2 announcements and at least one attempt / done-check listening", nil)
}
