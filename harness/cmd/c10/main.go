// Driver for C10: runs the real performMembersSelection of signingRetryLoop and dkgRetryLoop
// (through the verif-tagged exports in pkg/tbtc) for EVERY member of a group on several orderings
// of the same ready list and prints the cases for the Coq model (Model/C10.v).  Operators become
// N identifiers by rank of their address string; member indexes stay as they are.
// One-attempt cases build a fresh loop object per call; hist.go runs selection HISTORIES on one
// long-lived loop object per member.
package main

import (
	"fmt"
	"math/big"
	"os"
	"sort"
	"strings"

	"github.com/keep-network/keep-core/pkg/chain"
	"github.com/keep-network/keep-core/pkg/protocol/group"
	"github.com/keep-network/keep-core/pkg/tbtc"

	"verifharness/lib"
)

type input struct {
	Kind   string   `json:"kind,omitempty"`   // "sign" | "dkg"
	Ops    []string `json:"ops,omitempty"`    // operator address of every seat, in seat order
	Count  int      `json:"count,omitempty"`  // HonestThreshold (sign) / GroupQuorum (dkg)
	Msg    string   `json:"msg,omitempty"`    // decimal: signed message / DKG seed
	Att    uint     `json:"att,omitempty"`    // attemptCounter
	Readys [][]int  `json:"readys,omitempty"` // orderings of one ready list; the first is the reference
	Hist   *histIn  `json:"hist,omitempty"`   // a selection history (hist.go); the other fields are unused then
}

func mkIn(kind string, ops []string, count int, msg string, att uint, readys [][]int) input {
	return input{Kind: kind, Ops: ops, Count: count, Msg: msg, Att: att, Readys: readys}
}

func classify(err error) string {
	s := err.Error()
	if strings.Contains(s, "asked for too many seats") {
		return "SErrTooMany"
	}
	if strings.Contains(s, "too large to handle") {
		return "SErrRetry"
	}
	return "SPanic"
}

func idx(l []group.MemberIndex) []uint64 {
	v := make([]uint64, len(l))
	for i, m := range l {
		v[i] = uint64(m)
	}
	return v
}

type outcome struct {
	coq  string
	seed int64
}

func selectFor(in input, msg *big.Int, ops chain.Addresses, member int, ready []int) (o outcome) {
	defer func() {
		if r := recover(); r != nil {
			o = outcome{coq: "SPanic"}
		}
	}()
	params := &tbtc.GroupParameters{GroupSize: len(ops), GroupQuorum: in.Count, HonestThreshold: in.Count}
	rd := make([]group.MemberIndex, len(ready))
	for i, m := range ready {
		rd[i] = group.MemberIndex(m)
	}
	var ex []group.MemberIndex
	var seed int64
	var err error
	if in.Kind == "sign" {
		ex, seed, err = tbtc.VerifC10SigningSelection(msg, group.MemberIndex(member), ops, params, in.Att, rd)
	} else {
		ex, seed, err = tbtc.VerifC10DkgSelection(msg, group.MemberIndex(member), ops, params, in.Att, rd)
	}
	if err != nil {
		return outcome{classify(err), seed}
	}
	return outcome{"(SOk " + lib.ListN(idx(ex)) + ")", seed}
}

func qualifiedFor(in input, msg *big.Int, ops chain.Addresses, ready []int, rank map[string]uint64) (q []uint64) {
	defer func() {
		if r := recover(); r != nil {
			q = nil
		}
	}()
	params := &tbtc.GroupParameters{GroupSize: len(ops), GroupQuorum: in.Count, HonestThreshold: in.Count}
	rd := make([]group.MemberIndex, len(ready))
	for i, m := range ready {
		rd[i] = group.MemberIndex(m)
	}
	var set map[chain.Address]bool
	var err error
	if in.Kind == "sign" {
		set, err = tbtc.VerifC10SigningQualified(msg, 1, ops, params, in.Att, rd)
	} else {
		set, err = tbtc.VerifC10DkgQualified(msg, 1, ops, params, in.Att, rd)
	}
	if err != nil {
		return nil
	}
	for a, ok := range set {
		if ok {
			q = append(q, rank[string(a)]) // 0 for an operator that is not in the group
		}
	}
	sort.Slice(q, func(i, j int) bool { return q[i] < q[j] })
	return q
}

func run(in input, em *lib.Emitter, id string) {
	rank := lib.Rank(in.Ops)
	ops := make(chain.Addresses, len(in.Ops))
	ids := make([]uint64, len(in.Ops))
	seatCounts := map[string]int{}
	for i, s := range in.Ops {
		ops[i] = chain.Address(s)
		ids[i] = rank[s]
		seatCounts[s]++
	}
	msg, ok := new(big.Int).SetString(in.Msg, 10)
	if !ok {
		msg = big.NewInt(0)
	}
	var distinct []string
	seen := map[string]bool{}
	seeds := map[int64]bool{}
	var seed int64
	runs := 0
	for _, ready := range in.Readys {
		for m := 1; m <= len(ops); m++ {
			o := selectFor(in, msg, append(chain.Addresses{}, ops...), m, append([]int{}, ready...))
			runs++
			if !seen[o.coq] {
				seen[o.coq] = true
				distinct = append(distinct, o.coq)
			}
			if o.coq != "SPanic" {
				seeds[o.seed] = true
				seed = o.seed
			}
		}
	}
	if len(seeds) > 1 { // members derived different seeds from the same message
		distinct = append(distinct, "SPanic")
	}
	if len(seeds) == 0 { // every call panicked; the seed is not observable, derive it from a clean call
		o := selectFor(input{Kind: in.Kind, Count: 0, Att: 1}, msg, ops, 1, nil)
		seed = o.seed
	}
	qual := qualifiedFor(in, msg, ops, in.Readys[0], rank)

	readys := make([]string, len(in.Readys))
	for i, r := range in.Readys {
		v := make([]uint64, len(r))
		for j, m := range r {
			v[j] = uint64(m)
		}
		readys[i] = lib.ListN(v)
	}
	kind := "KSign"
	if in.Kind == "dkg" {
		kind = "KDkg"
	}
	coq := fmt.Sprintf("(Concrete.COne {| c_kind := %s; c_ops := %s; c_count := %s; c_seed := %s; c_att := %s; c_readys := %s; c_outs := %s; c_qual := %s |})",
		kind, lib.ListN(ids), lib.N(uint64(in.Count)), lib.Z(seed), lib.N(uint64(in.Att)),
		lib.List(readys), lib.List(distinct), lib.ListN(qual))

	cs := map[int]bool{}
	multi := false
	for _, c := range seatCounts {
		cs[c] = true
		if c > 1 {
			multi = true
		}
	}
	uneven := len(cs) >= 2
	// structural features
	r0 := in.Readys[0]
	dup, oob := false, false
	rs := map[int]bool{}
	for _, m := range r0 {
		if rs[m] {
			dup = true
		}
		rs[m] = true
		if m == 0 || int(m) > len(ops) {
			oob = true
		}
	}
	wellformed := !dup && !oob
	firstOut := ""
	if len(distinct) > 0 {
		firstOut = strings.SplitN(strings.Trim(distinct[0], "()"), " ", 2)[0]
	}
	em.Tally(in.Kind + "-out-" + firstOut)
	em.Tally(fmt.Sprintf("%s-seats-%03d", in.Kind, (len(ops)/10)*10))
	if !wellformed {
		em.Tally(in.Kind + "-malformed-ready")
	}
	if multi {
		em.Tally(in.Kind + "-multi-seat")
	}
	if in.Att == 1 {
		em.Tally(in.Kind + "-first-attempt")
	}
	if len(r0) > in.Count {
		em.Tally(in.Kind + "-surplus-ready")
	}
	em.Case(lib.Case{
		ID:         id,
		Coq:        coq,
		Key:        fmt.Sprintf("%s|%v|%d|%d|%d|%v", in.Kind, ids, in.Count, seed, in.Att, r0),
		Nontrivial: wellformed && uneven && len(in.Readys) >= 2 && len(r0) < len(ops),
		Sig: map[string]interface{}{"kind": in.Kind, "multi_seat": multi, "wellformed": wellformed,
			"first_attempt": in.Att == 1, "distinct_outputs": len(distinct)},
		In:  in,
		Out: map[string]interface{}{"distinct_outputs": distinct, "runs": runs, "qualified": qual, "attempt_seed": seed},
	})
}

func addr(r *lib.Rng) string {
	const hexd = "0123456789abcdefABCDEF"
	b := make([]byte, 40)
	for i := range b {
		b[i] = hexd[r.Intn(len(hexd))]
	}
	return "0x" + string(b)
}

// layout builds the seat list from per-operator seat counts, interleaved at random.
func layout(r *lib.Rng, counts []int) []string {
	var seats []string
	for _, c := range counts {
		a := addr(r)
		for i := 0; i < c; i++ {
			seats = append(seats, a)
		}
	}
	p := r.Perm(len(seats))
	out := make([]string, len(seats))
	for i, j := range p {
		out[i] = seats[j]
	}
	return out
}

// orderings returns the ascending list (what the real announcer produces), its reverse and k
// random permutations.
func orderings(r *lib.Rng, set []int, k int) [][]int {
	asc := append([]int{}, set...)
	sort.Slice(asc, func(i, j int) bool { return asc[i] < asc[j] })
	out := [][]int{asc}
	if len(asc) >= 2 {
		rev := make([]int, len(asc))
		for i, m := range asc {
			rev[len(asc)-1-i] = m
		}
		out = append(out, rev)
		for j := 0; j < k; j++ {
			p := r.Perm(len(asc))
			sh := make([]int, len(asc))
			for i, q := range p {
				sh[i] = asc[q]
			}
			out = append(out, sh)
		}
	}
	return out
}

func subset(r *lib.Rng, n, k int) []int {
	p := r.Perm(n)
	s := make([]int, 0, k)
	for i := 0; i < k && i < n; i++ {
		s = append(s, p[i]+1)
	}
	return s
}

func msgOf(r *lib.Rng) string {
	switch r.Intn(6) {
	case 0:
		return fmt.Sprint(r.Intn(5))
	default:
		return new(big.Int).SetBytes(r.Bytes(r.Range(1, 40))).String()
	}
}

func main() {
	o := lib.ParseOpts()
	em := lib.NewEmitter()
	if o.Replay != "" {
		var in input
		if err := lib.LoadReplay(o.Replay, &in); err != nil {
			fmt.Fprintln(os.Stderr, err)
			os.Exit(2)
		}
		if in.Hist != nil {
			runHist(*in.Hist, em, "replay")
		} else {
			run(in, em, "replay")
		}
		em.Close("replay", nil)
		return
	}
	rng := lib.NewRng(o.Seed)

	// --- corpus: fixed regression cases (run first)
	{
		r := lib.NewRng(10)
		a, b, c, d := addr(r), addr(r), addr(r), addr(r)
		g := []string{a, b, b, c, c, c, d, a, c, b}
		all := []int{1, 2, 3, 4, 5, 6, 7, 8, 9, 10}
		run(mkIn("sign", g, 6, "12345", 1, orderings(r, all, 2)), em, "corpus-sign-all-ready-trim")
		run(mkIn("sign", g, 6, "12345", 4, orderings(r, []int{2, 3, 4, 5, 6, 9, 10}, 2)), em, "corpus-sign-subset")
		run(mkIn("sign", g, 6, "777", 2, orderings(r, []int{1, 4, 5, 6, 7, 9}, 2)), em, "corpus-sign-exact")
		run(mkIn("sign", g, 6, "777", 2, orderings(r, []int{1, 4, 5, 6, 7}, 1)), em, "corpus-sign-too-few")
		run(mkIn("dkg", g, 6, "99", 1, orderings(r, []int{1, 2, 4, 5, 6, 7, 9}, 2)), em, "corpus-dkg-first")
		run(mkIn("dkg", g, 6, "99", 2, orderings(r, all, 2)), em, "corpus-dkg-retry1")
		run(mkIn("dkg", g, 6, "99", 9, orderings(r, all, 2)), em, "corpus-dkg-retry8")
		run(mkIn("dkg", g, 6, "99", 400, orderings(r, all, 1)), em, "corpus-dkg-retries-used-up")
		run(mkIn("dkg", g, 6, "99", 3, orderings(r, []int{1, 2, 3, 7, 8}, 1)), em, "corpus-dkg-too-few")
		run(mkIn("sign", g, 6, "5", 1, [][]int{{1, 2, 3, 3, 4, 5, 6}, {3, 1, 2, 4, 3, 5, 6}}), em, "corpus-sign-dup-ready")
		run(mkIn("sign", g, 6, "5", 1, [][]int{{0, 1, 2, 3, 4, 5, 6}}), em, "corpus-sign-index0")
		run(mkIn("dkg", g, 6, "5", 2, [][]int{{1, 2, 3, 4, 5, 6, 11}}), em, "corpus-dkg-index-above")
		// production-size group: 100 seats, threshold 51, quorum 90
		counts := []int{20, 15, 10, 10, 8, 7, 5, 5, 5, 4, 3, 3, 2, 1, 1, 1}
		big100 := layout(r, counts)
		run(mkIn("sign", big100, 51, msgOf(r), 3, orderings(r, subset(r, 100, 80), 1)), em, "corpus-sign-100")
		run(mkIn("dkg", big100, 90, msgOf(r), 5, orderings(r, subset(r, 100, 97), 1)), em, "corpus-dkg-100")
	}

	// --- corpus histories: ONE loop object per member, consecutive attempts, changing ready sets
	{
		ops10 := []string{"address-1", "address-2", "address-8", "address-4", "address-2", "address-6",
			"address-7", "address-8", "address-9", "address-8"}
		all := []int{1, 2, 3, 4, 5, 6, 7, 8, 9, 10}
		// members 1 and 3 announce readiness for attempt 1 only; member 4 goes through both
		// attempts, member 6 was not there for attempt 1
		runHist(histIn{"sign", ops10, 6, "1", []stepIn{{1, all}, {2, []int{2, 4, 5, 6, 7, 8, 9, 10}}},
			[]memberIn{{4, 0}, {6, 1}}}, em, "corpus-hist-sign-two-drop-out-late-member")
		runHist(histIn{"sign", ops10, 6, "12345", []stepIn{{1, all}, {2, []int{1, 2, 4, 6, 7, 9, 10}}, {3, []int{1, 2, 3, 4, 5, 6, 7, 9}},
			{4, []int{3, 5, 6, 7, 8, 10}}}, []memberIn{{7, 0}, {10, 2}, {6, 3}, {2, 1}}}, em, "corpus-hist-sign-drop-and-come-back")
		runHist(histIn{"dkg", ops10, 6, "99", []stepIn{{1, all}, {2, []int{1, 2, 4, 5, 6, 7, 9, 10}}, {3, []int{1, 2, 3, 4, 6, 7, 8, 9, 10}}},
			[]memberIn{{1, 0}, {9, 1}, {5, 2}}}, em, "corpus-hist-dkg-drop-and-come-back")
		runHist(histIn{"dkg", ops10, 8, "7", []stepIn{{3, all}, {4, []int{1, 2, 3, 5, 6, 7, 8, 10}}, {6, []int{1, 2, 3, 5, 6, 7, 8}}},
			[]memberIn{{2, 0}, {3, 1}}}, em, "corpus-hist-dkg-ends-too-few")
	}
	// --- small-scope histories: up to 5 seats, random layout, 2-3 attempts over arbitrary ready
	// subsets, EVERY member has its own loop object and joins at a random attempt
	nSmallHist := o.Count(50, 3000)
	for i := 0; i < nSmallHist; i++ {
		r := rng.Fork(fmt.Sprintf("smallhist%d", i))
		n := r.Range(2, 5)
		names := []string{addr(r), addr(r), addr(r)}
		g := make([]string, n)
		for j := range g {
			g[j] = names[r.Intn(len(names))]
		}
		kind := []string{"sign", "dkg"}[i%2]
		h := histIn{Kind: kind, Ops: g, Count: r.Range(0, n), Msg: msgOf(r)}
		att := uint(1 + r.Intn(3))
		for j, ns := 0, r.Range(2, 3); j < ns; j++ {
			var set []int
			mask := r.Intn(1 << n)
			if j == 0 && r.Chance(1, 2) {
				mask = 1<<n - 1
			}
			for b := 0; b < n; b++ {
				if mask&(1<<b) != 0 {
					set = append(set, b+1)
				}
			}
			h.Steps = append(h.Steps, stepIn{att, set})
			att++
		}
		first := r.Intn(n)
		for m := 0; m < n; m++ {
			skip := r.Intn(len(h.Steps))
			if m == first {
				skip = 0
			}
			h.Members = append(h.Members, memberIn{m + 1, skip})
		}
		runHist(h, em, fmt.Sprintf("smallhist-%d", i))
	}
	// --- random histories on groups with skewed seat distributions
	nHist := o.Count(70, 4000)
	for i := 0; i < nHist; i++ {
		r := rng.Fork(fmt.Sprintf("hist%d", i))
		nOps := r.Range(2, 8)
		counts := make([]int, nOps)
		for j := range counts {
			counts[j] = []int{1, r.Range(1, 3), r.Range(1, 6)}[r.Intn(3)]
		}
		if i%25 == 11 { // production-size group: 100 seats
			counts = []int{20, 15, 10, 10, 8, 7, 5, 5, 5, 4, 3, 3, 2, 1, 1, 1}
		}
		g := layout(r, counts)
		n := len(g)
		kind := "sign"
		count := n/2 + 1
		if i%2 == 1 {
			// key generation retries exclude whole operators: many small operators and a quorum
			// with slack, otherwise nearly every later attempt fails
			kind = "dkg"
			if i%25 != 11 {
				counts = make([]int, r.Range(5, 12))
				for j := range counts {
					counts[j] = r.Range(1, 2)
				}
				g = layout(r, counts)
				n = len(g)
			}
			count = n - n/3
		}
		if r.Chance(1, 8) {
			count = r.Range(1, n)
		}
		runHist(genHist(r, kind, g, count), em, fmt.Sprintf("hist-%d", i))
	}

	// --- exhaustive small scope: up to 5 seats, every operator layout (restricted growth
	// strings), every ready subset, every count 0..n+1, attempts 1..3
	type smallCase struct {
		layout []int
		mask   int
		count  int
		att    uint
		kind   string
	}
	var small []smallCase
	var rec func(cur []int, maxv, n int)
	var layouts [][]int
	rec = func(cur []int, maxv, n int) {
		if len(cur) == n {
			layouts = append(layouts, append([]int{}, cur...))
			return
		}
		for v := 0; v <= maxv+1; v++ {
			mv := maxv
			if v > mv {
				mv = v
			}
			rec(append(cur, v), mv, n)
		}
	}
	for n := 1; n <= 5; n++ {
		rec(nil, -1, n)
	}
	for _, l := range layouts {
		n := len(l)
		for mask := 0; mask < 1<<n; mask++ {
			for count := 0; count <= n+1; count++ {
				for att := uint(1); att <= 3; att++ {
					small = append(small, smallCase{l, mask, count, att, "sign"}, smallCase{l, mask, count, att, "dkg"})
				}
			}
		}
	}
	nSmall := o.Count(300, 12000)
	perm := rng.Fork("small").Perm(len(small))
	for i := 0; i < nSmall && i < len(small); i++ {
		sc := small[perm[i]]
		r := rng.Fork(fmt.Sprintf("small%d", i))
		names := map[int]string{}
		g := make([]string, len(sc.layout))
		for j, v := range sc.layout {
			if names[v] == "" {
				names[v] = addr(r)
			}
			g[j] = names[v]
		}
		var set []int
		for j := 0; j < len(g); j++ {
			if sc.mask&(1<<j) != 0 {
				set = append(set, j+1)
			}
		}
		run(mkIn(sc.kind, g, sc.count, msgOf(r), sc.att, orderings(r, set, 1)), em, fmt.Sprintf("small-%d", i))
	}

	// --- random groups with skewed seat distributions
	nRand := o.Count(400, 10000)
	for i := 0; i < nRand; i++ {
		r := rng.Fork(fmt.Sprintf("rand%d", i))
		nOps := r.Range(1, 8)
		if r.Chance(1, 5) {
			nOps = r.Range(8, 20)
		}
		counts := make([]int, nOps)
		for j := range counts {
			switch r.Intn(4) {
			case 0:
				counts[j] = 1
			case 1:
				counts[j] = r.Range(1, 3)
			case 2:
				counts[j] = r.Range(1, 6)
			default:
				counts[j] = r.Range(1, 12)
			}
		}
		g := layout(r, counts)
		maxSeats := 40
		if r.Chance(1, 12) {
			maxSeats = 100
		}
		if len(g) > maxSeats {
			g = g[:maxSeats]
		}
		n := len(g)
		kind := "sign"
		count := n/2 + 1
		if r.Bool() {
			kind = "dkg"
			count = n - n/10
		}
		if r.Chance(1, 4) {
			count = r.Range(0, n)
		}
		// ready set: mostly at least the count, sometimes fewer
		k := r.Range(count, n)
		if count > n {
			k = n
		}
		if r.Chance(1, 10) && count > 0 {
			k = r.Range(0, count-1)
		}
		if r.Chance(1, 5) {
			k = n
		}
		set := subset(r, n, k)
		att := uint(1 + r.Intn(6))
		switch r.Intn(10) {
		case 0:
			att = 1
		case 1:
			att = uint(1 + r.Intn(60))
		case 2:
			att = uint(1 + r.Intn(3000))
		}
		readys := orderings(r, set, 1)
		// malformed stream: not a set of group members
		if r.Chance(1, 12) && len(set) > 0 {
			bad := append([]int{}, set...)
			switch r.Intn(3) {
			case 0:
				bad = append(bad, bad[r.Intn(len(bad))])
			case 1:
				bad[r.Intn(len(bad))] = 0
			default:
				if n < 255 {
					bad[r.Intn(len(bad))] = n + 1 + r.Intn(255-n)
				}
			}
			p := r.Perm(len(bad))
			sh := make([]int, len(bad))
			for j, q := range p {
				sh[j] = bad[q]
			}
			readys = [][]int{bad, sh}
		}
		run(mkIn(kind, g, count, msgOf(r), att, readys), em, fmt.Sprintf("rand-%d", i))
	}
	em.Close("a case is one (group layout, threshold/quorum, message, attempt, ready list): the selection is run for "+
		"every member index of the group on every ordering of the ready list (ascending, reversed, random) - or a HISTORY: "+
		"2-5 consecutive attempts with changing ready sets, several members of the wallet each on its OWN long-lived "+
		"loop object, some joining at a later attempt; non-trivial history: ready sets of group members, a member drops "+
		"out between two attempts and some member was not there for the first attempt.  One-attempt cases: selection for "+
		"every member index of the group on every ordering of the ready list (ascending, reversed, random); distinct by "+
		"(kind, canonical group, count, attempt seed, attempt, ready list); non-trivial when the ready list is a proper "+
		"subset of the group's members given in >= 2 orderings and operators hold different numbers of seats", nil)
}
