// Driver for C10: runs the real performMembersSelection of signingRetryLoop and dkgRetryLoop
// (through the verif-tagged exports in pkg/tbtc) for EVERY member of a group on several orderings
// of the same ready list and prints the cases for the Coq model (Model/C10.v).  Operators become
// N identifiers by rank of their address string; member indexes stay as they are.
package main

import (
	"fmt"
	"math/big"
	"os"
	"sort"
	"strings"

	"github.com/keep-network/keep-core/pkg/chain"
	"github.com/keep-network/keep-core/pkg/protocol/group"
	"github.com/keep-network/keep-core/pkg/tbtc"

	"verifharness/lib"
)

type input struct {
	Kind   string    `json:"kind"`   // "sign" | "dkg"
	Ops    []string  `json:"ops"`    // operator address of every seat, in seat order
	Count  int       `json:"count"`  // HonestThreshold (sign) / GroupQuorum (dkg)
	Msg    string    `json:"msg"`    // decimal: signed message / DKG seed
	Att    uint      `json:"att"`    // attemptCounter
	Readys [][]int   `json:"readys"` // orderings of one ready list; the first is the reference
}

func classify(err error) string {
	s := err.Error()
	if strings.Contains(s, "asked for too many seats") {
		return "SErrTooMany"
	}
	if strings.Contains(s, "too large to handle") {
		return "SErrRetry"
	}
	return "SPanic"
}

func idx(l []group.MemberIndex) []uint64 {
	v := make([]uint64, len(l))
	for i, m := range l {
		v[i] = uint64(m)
	}
	return v
}

type outcome struct {
	coq  string
	seed int64
}

func selectFor(in input, msg *big.Int, ops chain.Addresses, member int, ready []int) (o outcome) {
	defer func() {
		if r := recover(); r != nil {
			o = outcome{coq: "SPanic"}
		}
	}()
	params := &tbtc.GroupParameters{GroupSize: len(ops), GroupQuorum: in.Count, HonestThreshold: in.Count}
	rd := make([]group.MemberIndex, len(ready))
	for i, m := range ready {
		rd[i] = group.MemberIndex(m)
	}
	var ex []group.MemberIndex
	var seed int64
	var err error
	if in.Kind == "sign" {
		ex, seed, err = tbtc.VerifC10SigningSelection(msg, group.MemberIndex(member), ops, params, in.Att, rd)
	} else {
		ex, seed, err = tbtc.VerifC10DkgSelection(msg, group.MemberIndex(member), ops, params, in.Att, rd)
	}
	if err != nil {
		return outcome{classify(err), seed}
	}
	return outcome{"(SOk " + lib.ListN(idx(ex)) + ")", seed}
}

func qualifiedFor(in input, msg *big.Int, ops chain.Addresses, ready []int, rank map[string]uint64) (q []uint64) {
	defer func() {
		if r := recover(); r != nil {
			q = nil
		}
	}()
	params := &tbtc.GroupParameters{GroupSize: len(ops), GroupQuorum: in.Count, HonestThreshold: in.Count}
	rd := make([]group.MemberIndex, len(ready))
	for i, m := range ready {
		rd[i] = group.MemberIndex(m)
	}
	var set map[chain.Address]bool
	var err error
	if in.Kind == "sign" {
		set, err = tbtc.VerifC10SigningQualified(msg, 1, ops, params, in.Att, rd)
	} else {
		set, err = tbtc.VerifC10DkgQualified(msg, 1, ops, params, in.Att, rd)
	}
	if err != nil {
		return nil
	}
	for a, ok := range set {
		if ok {
			q = append(q, rank[string(a)]) // 0 for an operator that is not in the group
		}
	}
	sort.Slice(q, func(i, j int) bool { return q[i] < q[j] })
	return q
}

func run(in input, em *lib.Emitter, id string) {
	rank := lib.Rank(in.Ops)
	ops := make(chain.Addresses, len(in.Ops))
	ids := make([]uint64, len(in.Ops))
	seatCounts := map[string]int{}
	for i, s := range in.Ops {
		ops[i] = chain.Address(s)
		ids[i] = rank[s]
		seatCounts[s]++
	}
	msg, ok := new(big.Int).SetString(in.Msg, 10)
	if !ok {
		msg = big.NewInt(0)
	}
	var distinct []string
	seen := map[string]bool{}
	seeds := map[int64]bool{}
	var seed int64
	runs := 0
	for _, ready := range in.Readys {
		for m := 1; m <= len(ops); m++ {
			o := selectFor(in, msg, append(chain.Addresses{}, ops...), m, append([]int{}, ready...))
			runs++
			if !seen[o.coq] {
				seen[o.coq] = true
				distinct = append(distinct, o.coq)
			}
			if o.coq != "SPanic" {
				seeds[o.seed] = true
				seed = o.seed
			}
		}
	}
	if len(seeds) > 1 { // members derived different seeds from the same message
		distinct = append(distinct, "SPanic")
	}
	if len(seeds) == 0 { // every call panicked; the seed is not observable, derive it from a clean call
		o := selectFor(input{Kind: in.Kind, Count: 0, Att: 1}, msg, ops, 1, nil)
		seed = o.seed
	}
	qual := qualifiedFor(in, msg, ops, in.Readys[0], rank)

	readys := make([]string, len(in.Readys))
	for i, r := range in.Readys {
		v := make([]uint64, len(r))
		for j, m := range r {
			v[j] = uint64(m)
		}
		readys[i] = lib.ListN(v)
	}
	kind := "KSign"
	if in.Kind == "dkg" {
		kind = "KDkg"
	}
	coq := fmt.Sprintf("{| c_kind := %s; c_ops := %s; c_count := %s; c_seed := %s; c_att := %s; c_readys := %s; c_outs := %s; c_qual := %s |}",
		kind, lib.ListN(ids), lib.N(uint64(in.Count)), lib.Z(seed), lib.N(uint64(in.Att)),
		lib.List(readys), lib.List(distinct), lib.ListN(qual))

	cs := map[int]bool{}
	multi := false
	for _, c := range seatCounts {
		cs[c] = true
		if c > 1 {
			multi = true
		}
	}
	uneven := len(cs) >= 2
	// structural features
	r0 := in.Readys[0]
	dup, oob := false, false
	rs := map[int]bool{}
	for _, m := range r0 {
		if rs[m] {
			dup = true
		}
		rs[m] = true
		if m == 0 || int(m) > len(ops) {
			oob = true
		}
	}
	wellformed := !dup && !oob
	firstOut := ""
	if len(distinct) > 0 {
		firstOut = strings.SplitN(strings.Trim(distinct[0], "()"), " ", 2)[0]
	}
	em.Tally(in.Kind + "-out-" + firstOut)
	em.Tally(fmt.Sprintf("%s-seats-%03d", in.Kind, (len(ops)/10)*10))
	if !wellformed {
		em.Tally(in.Kind + "-malformed-ready")
	}
	if multi {
		em.Tally(in.Kind + "-multi-seat")
	}
	if in.Att == 1 {
		em.Tally(in.Kind + "-first-attempt")
	}
	if len(r0) > in.Count {
		em.Tally(in.Kind + "-surplus-ready")
	}
	em.Case(lib.Case{
		ID:         id,
		Coq:        coq,
		Key:        fmt.Sprintf("%s|%v|%d|%d|%d|%v", in.Kind, ids, in.Count, seed, in.Att, r0),
		Nontrivial: wellformed && uneven && len(in.Readys) >= 2 && len(r0) < len(ops),
		Sig: map[string]interface{}{"kind": in.Kind, "multi_seat": multi, "wellformed": wellformed,
			"first_attempt": in.Att == 1, "distinct_outputs": len(distinct)},
		In:  in,
		Out: map[string]interface{}{"distinct_outputs": distinct, "runs": runs, "qualified": qual, "attempt_seed": seed},
	})
}

func addr(r *lib.Rng) string {
	const hexd = "0123456789abcdefABCDEF"
	b := make([]byte, 40)
	for i := range b {
		b[i] = hexd[r.Intn(len(hexd))]
	}
	return "0x" + string(b)
}

// layout builds the seat list from per-operator seat counts, interleaved at random.
func layout(r *lib.Rng, counts []int) []string {
	var seats []string
	for _, c := range counts {
		a := addr(r)
		for i := 0; i < c; i++ {
			seats = append(seats, a)
		}
	}
	p := r.Perm(len(seats))
	out := make([]string, len(seats))
	for i, j := range p {
		out[i] = seats[j]
	}
	return out
}

// orderings returns the ascending list (what the real announcer produces), its reverse and k
// random permutations.
func orderings(r *lib.Rng, set []int, k int) [][]int {
	asc := append([]int{}, set...)
	sort.Slice(asc, func(i, j int) bool { return asc[i] < asc[j] })
	out := [][]int{asc}
	if len(asc) >= 2 {
		rev := make([]int, len(asc))
		for i, m := range asc {
			rev[len(asc)-1-i] = m
		}
		out = append(out, rev)
		for j := 0; j < k; j++ {
			p := r.Perm(len(asc))
			sh := make([]int, len(asc))
			for i, q := range p {
				sh[i] = asc[q]
			}
			out = append(out, sh)
		}
	}
	return out
}

func subset(r *lib.Rng, n, k int) []int {
	p := r.Perm(n)
	s := make([]int, 0, k)
	for i := 0; i < k && i < n; i++ {
		s = append(s, p[i]+1)
	}
	return s
}

func msgOf(r *lib.Rng) string {
	switch r.Intn(6) {
	case 0:
		return fmt.Sprint(r.Intn(5))
	default:
		return new(big.Int).SetBytes(r.Bytes(r.Range(1, 40))).String()
	}
}

func main() {
	o := lib.ParseOpts()
	em := lib.NewEmitter()
	if o.Replay != "" {
		var in input
		if err := lib.LoadReplay(o.Replay, &in); err != nil {
			fmt.Fprintln(os.Stderr, err)
			os.Exit(2)
		}
		run(in, em, "replay")
		em.Close("replay", nil)
		return
	}
	rng := lib.NewRng(o.Seed)

	// --- corpus: fixed regression cases (run first)
	{
		r := lib.NewRng(10)
		a, b, c, d := addr(r), addr(r), addr(r), addr(r)
		g := []string{a, b, b, c, c, c, d, a, c, b}
		all := []int{1, 2, 3, 4, 5, 6, 7, 8, 9, 10}
		run(input{"sign", g, 6, "12345", 1, orderings(r, all, 2)}, em, "corpus-sign-all-ready-trim")
		run(input{"sign", g, 6, "12345", 4, orderings(r, []int{2, 3, 4, 5, 6, 9, 10}, 2)}, em, "corpus-sign-subset")
		run(input{"sign", g, 6, "777", 2, orderings(r, []int{1, 4, 5, 6, 7, 9}, 2)}, em, "corpus-sign-exact")
		run(input{"sign", g, 6, "777", 2, orderings(r, []int{1, 4, 5, 6, 7}, 1)}, em, "corpus-sign-too-few")
		run(input{"dkg", g, 6, "99", 1, orderings(r, []int{1, 2, 4, 5, 6, 7, 9}, 2)}, em, "corpus-dkg-first")
		run(input{"dkg", g, 6, "99", 2, orderings(r, all, 2)}, em, "corpus-dkg-retry1")
		run(input{"dkg", g, 6, "99", 9, orderings(r, all, 2)}, em, "corpus-dkg-retry8")
		run(input{"dkg", g, 6, "99", 400, orderings(r, all, 1)}, em, "corpus-dkg-retries-used-up")
		run(input{"dkg", g, 6, "99", 3, orderings(r, []int{1, 2, 3, 7, 8}, 1)}, em, "corpus-dkg-too-few")
		run(input{"sign", g, 6, "5", 1, [][]int{{1, 2, 3, 3, 4, 5, 6}, {3, 1, 2, 4, 3, 5, 6}}}, em, "corpus-sign-dup-ready")
		run(input{"sign", g, 6, "5", 1, [][]int{{0, 1, 2, 3, 4, 5, 6}}}, em, "corpus-sign-index0")
		run(input{"dkg", g, 6, "5", 2, [][]int{{1, 2, 3, 4, 5, 6, 11}}}, em, "corpus-dkg-index-above")
		// production-size group: 100 seats, threshold 51, quorum 90
		counts := []int{20, 15, 10, 10, 8, 7, 5, 5, 5, 4, 3, 3, 2, 1, 1, 1}
		big100 := layout(r, counts)
		run(input{"sign", big100, 51, msgOf(r), 3, orderings(r, subset(r, 100, 80), 1)}, em, "corpus-sign-100")
		run(input{"dkg", big100, 90, msgOf(r), 5, orderings(r, subset(r, 100, 97), 1)}, em, "corpus-dkg-100")
	}

	// --- exhaustive small scope: up to 5 seats, every operator layout (restricted growth
	// strings), every ready subset, every count 0..n+1, attempts 1..3
	type smallCase struct {
		layout []int
		mask   int
		count  int
		att    uint
		kind   string
	}
	var small []smallCase
	var rec func(cur []int, maxv, n int)
	var layouts [][]int
	rec = func(cur []int, maxv, n int) {
		if len(cur) == n {
			layouts = append(layouts, append([]int{}, cur...))
			return
		}
		for v := 0; v <= maxv+1; v++ {
			mv := maxv
			if v > mv {
				mv = v
			}
			rec(append(cur, v), mv, n)
		}
	}
	for n := 1; n <= 5; n++ {
		rec(nil, -1, n)
	}
	for _, l := range layouts {
		n := len(l)
		for mask := 0; mask < 1<<n; mask++ {
			for count := 0; count <= n+1; count++ {
				for att := uint(1); att <= 3; att++ {
					small = append(small, smallCase{l, mask, count, att, "sign"}, smallCase{l, mask, count, att, "dkg"})
				}
			}
		}
	}
	nSmall := o.Count(300, 12000)
	perm := rng.Fork("small").Perm(len(small))
	for i := 0; i < nSmall && i < len(small); i++ {
		sc := small[perm[i]]
		r := rng.Fork(fmt.Sprintf("small%d", i))
		names := map[int]string{}
		g := make([]string, len(sc.layout))
		for j, v := range sc.layout {
			if names[v] == "" {
				names[v] = addr(r)
			}
			g[j] = names[v]
		}
		var set []int
		for j := 0; j < len(g); j++ {
			if sc.mask&(1<<j) != 0 {
				set = append(set, j+1)
			}
		}
		run(input{sc.kind, g, sc.count, msgOf(r), sc.att, orderings(r, set, 1)}, em, fmt.Sprintf("small-%d", i))
	}

	// --- random groups with skewed seat distributions
	nRand := o.Count(400, 10000)
	for i := 0; i < nRand; i++ {
		r := rng.Fork(fmt.Sprintf("rand%d", i))
		nOps := r.Range(1, 8)
		if r.Chance(1, 5) {
			nOps = r.Range(8, 20)
		}
		counts := make([]int, nOps)
		for j := range counts {
			switch r.Intn(4) {
			case 0:
				counts[j] = 1
			case 1:
				counts[j] = r.Range(1, 3)
			case 2:
				counts[j] = r.Range(1, 6)
			default:
				counts[j] = r.Range(1, 12)
			}
		}
		g := layout(r, counts)
		maxSeats := 40
		if r.Chance(1, 12) {
			maxSeats = 100
		}
		if len(g) > maxSeats {
			g = g[:maxSeats]
		}
		n := len(g)
		kind := "sign"
		count := n/2 + 1
		if r.Bool() {
			kind = "dkg"
			count = n - n/10
		}
		if r.Chance(1, 4) {
			count = r.Range(0, n)
		}
		// ready set: mostly at least the count, sometimes fewer
		k := r.Range(count, n)
		if count > n {
			k = n
		}
		if r.Chance(1, 10) && count > 0 {
			k = r.Range(0, count-1)
		}
		if r.Chance(1, 5) {
			k = n
		}
		set := subset(r, n, k)
		att := uint(1 + r.Intn(6))
		switch r.Intn(10) {
		case 0:
			att = 1
		case 1:
			att = uint(1 + r.Intn(60))
		case 2:
			att = uint(1 + r.Intn(3000))
		}
		readys := orderings(r, set, 1)
		// malformed stream: not a set of group members
		if r.Chance(1, 12) && len(set) > 0 {
			bad := append([]int{}, set...)
			switch r.Intn(3) {
			case 0:
				bad = append(bad, bad[r.Intn(len(bad))])
			case 1:
				bad[r.Intn(len(bad))] = 0
			default:
				if n < 255 {
					bad[r.Intn(len(bad))] = n + 1 + r.Intn(255-n)
				}
			}
			p := r.Perm(len(bad))
			sh := make([]int, len(bad))
			for j, q := range p {
				sh[j] = bad[q]
			}
			readys = [][]int{bad, sh}
		}
		run(input{kind, g, count, msgOf(r), att, readys}, em, fmt.Sprintf("rand-%d", i))
	}
	em.Close("a case is one (group layout, threshold/quorum, message, attempt, ready list): the selection is run for "+
		"every member index of the group on every ordering of the ready list (ascending, reversed, random); distinct by "+
		"(kind, canonical group, count, attempt seed, attempt, ready list); non-trivial when the ready list is a proper "+
		"subset of the group's members given in >= 2 orderings and operators hold different numbers of seats", nil)
}
