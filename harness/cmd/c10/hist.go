// Selection HISTORIES: every member of the case owns ONE long-lived retry-loop object (built with
// the production constructor through pkg/tbtc/verif_export_c10.go) and goes through the same
// consecutive attempts with changing ready sets; a member with Skip = k was not there for the
// first k attempts (its object is created at step k).  Observable per attempt per member: the
// excluded list (or the error class).  The Coq side (Model/C10.v hcase) demands that at every
// attempt all members present derived the same lists and that these satisfy the property for the
// ready set of THAT attempt, and compares them with the model's pure selection mapped over the
// history.
package main

import (
	"fmt"
	"math/big"
	"sort"
	"strings"

	"github.com/keep-network/keep-core/pkg/chain"
	"github.com/keep-network/keep-core/pkg/protocol/group"
	"github.com/keep-network/keep-core/pkg/tbtc"

	"verifharness/lib"
)

type stepIn struct {
	Att   uint  `json:"att"`
	Ready []int `json:"ready"` // as announced; member m receives it rotated by m positions
}

type memberIn struct {
	Index int `json:"index"`
	Skip  int `json:"skip"` // number of leading steps this member was not there for
}

type histIn struct {
	Kind    string     `json:"kind"`
	Ops     []string   `json:"ops"`
	Count   int        `json:"count"`
	Msg     string     `json:"msg"`
	Steps   []stepIn   `json:"steps"`
	Members []memberIn `json:"members"`
}

// loopHandle is what both long-lived export handles offer.
type loopHandle interface {
	Seed() int64
	Select(attempt uint, ready []group.MemberIndex) ([]group.MemberIndex, error)
	Qualified(attempt uint, ready []group.MemberIndex) (map[chain.Address]bool, error)
}

func newLoop(kind string, msg *big.Int, member int, ops chain.Addresses, count int) (h loopHandle) {
	defer func() {
		if r := recover(); r != nil {
			h = nil
		}
	}()
	params := &tbtc.GroupParameters{GroupSize: len(ops), GroupQuorum: count, HonestThreshold: count}
	if kind == "sign" {
		return tbtc.VerifC10NewSigningLoop(msg, group.MemberIndex(member), ops, params)
	}
	return tbtc.VerifC10NewDkgLoop(msg, group.MemberIndex(member), ops, params)
}

func rotated(ready []int, by int) []group.MemberIndex {
	out := make([]group.MemberIndex, len(ready))
	for i := range ready {
		out[i] = group.MemberIndex(ready[(i+by)%len(ready)])
	}
	return out
}

func selectOn(l loopHandle, att uint, ready []group.MemberIndex) (s string) {
	defer func() {
		if r := recover(); r != nil {
			s = "SPanic"
		}
	}()
	ex, err := l.Select(att, ready)
	if err != nil {
		return classify(err)
	}
	return "(SOk " + lib.ListN(idx(ex)) + ")"
}

func qualifiedOn(l loopHandle, att uint, ready []group.MemberIndex, rank map[string]uint64) (q []uint64) {
	defer func() {
		if r := recover(); r != nil {
			q = nil
		}
	}()
	set, err := l.Qualified(att, ready)
	if err != nil {
		return nil
	}
	for a, ok := range set {
		if ok {
			q = append(q, rank[string(a)])
		}
	}
	sort.Slice(q, func(i, j int) bool { return q[i] < q[j] })
	return q
}

func runHist(in histIn, em *lib.Emitter, id string) {
	rank := lib.Rank(in.Ops)
	ops := make(chain.Addresses, len(in.Ops))
	ids := make([]uint64, len(in.Ops))
	seatCounts := map[string]int{}
	for i, s := range in.Ops {
		ops[i] = chain.Address(s)
		ids[i] = rank[s]
		seatCounts[s]++
	}
	msg, ok := new(big.Int).SetString(in.Msg, 10)
	if !ok {
		msg = big.NewInt(0)
	}
	loops := make([]loopHandle, len(in.Members))
	outs := make([][]string, len(in.Members))
	quals := make([][]uint64, len(in.Steps))
	var seed int64
	seedKnown := false
	for j, st := range in.Steps { // attempt after attempt; within an attempt member after member
		for k, m := range in.Members {
			if m.Skip > j {
				continue
			}
			if loops[k] == nil { // this member's object is created now and lives on
				loops[k] = newLoop(in.Kind, msg, m.Index, append(chain.Addresses{}, ops...), in.Count)
				if loops[k] == nil {
					outs[k] = append(outs[k], "SPanic")
					continue
				}
				if !seedKnown {
					seed, seedKnown = loops[k].Seed(), true
				}
			}
			if loops[k].Seed() != seed { // members derived different seeds from the same message
				outs[k] = append(outs[k], "SPanic")
				continue
			}
			by := 0
			if len(st.Ready) > 0 {
				by = m.Index % len(st.Ready)
			}
			outs[k] = append(outs[k], selectOn(loops[k], st.Att, rotated(st.Ready, by)))
			if quals[j] == nil && m.Skip == 0 {
				quals[j] = qualifiedOn(loops[k], st.Att, rotated(st.Ready, 0), rank)
			}
		}
	}

	kind := "KSign"
	if in.Kind == "dkg" {
		kind = "KDkg"
	}
	steps := make([]string, len(in.Steps))
	wellformed, drop, back := true, false, false
	var prev map[int]bool
	everReady := map[int]bool{}
	for j, st := range in.Steps {
		v := make([]uint64, len(st.Ready))
		cur := map[int]bool{}
		for i, m := range st.Ready {
			v[i] = uint64(m)
			if cur[m] || m == 0 || m > len(ops) {
				wellformed = false
			}
			cur[m] = true
		}
		for m := range prev {
			if !cur[m] {
				drop = true
			}
		}
		for m := range cur {
			if prev != nil && !prev[m] && everReady[m] {
				back = true
			}
			everReady[m] = true
		}
		prev = cur
		steps[j] = fmt.Sprintf("{| hs_att := %s; hs_ready := %s; hs_qual := %s |}",
			lib.N(uint64(st.Att)), lib.ListN(v), lib.ListN(quals[j]))
	}
	members := make([]string, len(in.Members))
	late := false
	for k, m := range in.Members {
		if m.Skip > 0 {
			late = true
		}
		members[k] = fmt.Sprintf("{| hm_index := %s; hm_skip := %d%%nat; hm_outs := %s |}",
			lib.N(uint64(m.Index)), m.Skip, lib.List(outs[k]))
	}
	coq := fmt.Sprintf("(Concrete.CHist {| h_kind := %s; h_ops := %s; h_count := %s; h_seed := %s; h_steps := %s; h_members := %s |})",
		kind, lib.ListN(ids), lib.N(uint64(in.Count)), lib.Z(seed), lib.List(steps), lib.List(members))

	multi := false
	for _, c := range seatCounts {
		if c > 1 {
			multi = true
		}
	}
	em.Tally(fmt.Sprintf("hist-%s-steps-%d", in.Kind, len(in.Steps)))
	em.Tally(fmt.Sprintf("hist-%s-members-%d", in.Kind, len(in.Members)))
	if drop {
		em.Tally("hist-" + in.Kind + "-member-drops-out")
	}
	if back {
		em.Tally("hist-" + in.Kind + "-member-comes-back")
	}
	if late {
		em.Tally("hist-" + in.Kind + "-late-member")
	}
	if !wellformed {
		em.Tally("hist-" + in.Kind + "-malformed-ready")
	}
	first := ""
	if len(outs) > 0 && len(outs[0]) > 0 {
		first = strings.SplitN(strings.Trim(outs[0][len(outs[0])-1], "()"), " ", 2)[0]
	}
	em.Tally("hist-" + in.Kind + "-last-out-" + first)
	em.Case(lib.Case{
		ID:         id,
		Coq:        coq,
		Key:        fmt.Sprintf("hist|%s|%v|%d|%d|%v|%v", in.Kind, ids, in.Count, seed, in.Steps, in.Members),
		Nontrivial: wellformed && drop && late && len(in.Steps) >= 2,
		Sig: map[string]interface{}{"kind": "hist-" + in.Kind, "multi_seat": multi, "wellformed": wellformed,
			"member_drops_out": drop, "late_member": late},
		In:  input{Hist: &in},
		Out: map[string]interface{}{"per_member_outputs": outs, "qualified_per_step": quals, "attempt_seed": seed},
	})
}

// genHist: 2-5 consecutive attempts; the ready set changes from attempt to attempt (members
// drop out, some come back); 2-5 members, at least one there from the start, the others joining
// at random steps.
func genHist(r *lib.Rng, kind string, g []string, count int) histIn {
	n := len(g)
	nSteps := r.Range(2, 5)
	att := uint(1)
	switch r.Intn(5) {
	case 0:
		att = uint(1 + r.Intn(5))
	case 1:
		att = uint(1 + r.Intn(40))
		if kind == "dkg" {
			att = uint(1 + r.Intn(8))
		}
	}
	ready := map[int]bool{}
	for m := 1; m <= n; m++ {
		if !r.Chance(1, 8) {
			ready[m] = true
		}
	}
	var steps []stepIn
	for j := 0; j < nSteps; j++ {
		if j > 0 {
			// some ready members drop out, some absent ones come (back)
			nd := r.Range(1, 1+n/5)
			if kind == "dkg" {
				nd = r.Range(1, 1+n/10)
			}
			for d := 0; d < nd; d++ {
				delete(ready, 1+r.Intn(n))
			}
			for m := 1; m <= n; m++ {
				if !ready[m] && r.Chance(1, 3) {
					ready[m] = true
				}
			}
			// keep the selection possible most of the time
			for len(ready) < count && len(ready) < n && !r.Chance(1, 10) {
				ready[1+r.Intn(n)] = true
			}
		}
		var l []int
		for m := range ready {
			l = append(l, m)
		}
		sort.Ints(l)
		if r.Chance(1, 3) { // not the announcer's ascending order
			p := r.Perm(len(l))
			sh := make([]int, len(l))
			for i, q := range p {
				sh[i] = l[q]
			}
			l = sh
		}
		steps = append(steps, stepIn{Att: att, Ready: l})
		att++
		if r.Chance(1, 12) { // an attempt none of these members selected for
			att += uint(1 + r.Intn(3))
		}
	}
	if r.Chance(1, 15) && len(steps[len(steps)-1].Ready) > 0 { // malformed: not a set of group members
		l := append([]int{}, steps[len(steps)-1].Ready...)
		switch r.Intn(3) {
		case 0:
			l = append(l, l[r.Intn(len(l))])
		case 1:
			l[r.Intn(len(l))] = 0
		default:
			if n < 255 {
				l[r.Intn(len(l))] = n + 1 + r.Intn(255-n)
			}
		}
		steps[len(steps)-1].Ready = l
	}
	nm := r.Range(2, 5)
	if nm > n {
		nm = n
	}
	p := r.Perm(n)
	members := []memberIn{{Index: p[0] + 1, Skip: 0}}
	for k := 1; k < nm; k++ {
		skip := r.Intn(nSteps)
		if k == 1 {
			skip = r.Range(1, nSteps-1) // always one member that was not there for attempt one
		}
		members = append(members, memberIn{Index: p[k] + 1, Skip: skip})
	}
	return histIn{Kind: kind, Ops: g, Count: count, Msg: msgOf(r), Steps: steps, Members: members}
}
