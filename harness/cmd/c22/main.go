// Driver for C22: runs the real getSeed / getLeader / getActionsChecklist of
// pkg/tbtc/coordination.go (through the verif-tagged exports) for several members' views of
// the same wallet -- operator lists with the same set of operators in different orders and
// with different repetitions -- and prints the cases for the Coq model (Model/C22.v).
// Operators become N identifiers by rank of their address string (the code sorts them).
package main

import (
	"crypto/ecdsa"
	"crypto/sha256"
	"encoding/binary"
	"fmt"
	"math"
	"math/big"
	"math/rand"
	"os"
	"strings"

	"github.com/keep-network/keep-core/pkg/bitcoin"
	"github.com/keep-network/keep-core/pkg/chain"
	"github.com/keep-network/keep-core/pkg/tbtc"
	"github.com/keep-network/keep-core/pkg/tecdsa"

	"verifharness/lib"
)

type input struct {
	Views  [][]string `json:"views"`  // each member's signingGroupOperators
	Wallet string     `json:"wallet"` // decimal scalar; the wallet public key is scalar*G
	Block  uint64     `json:"block"`  // coordination block
	Salt   uint64     `json:"salt"`   // the fake chain's block hash of n is sha256(salt || n)
	// history case (when non-nil): Hist[i] = the coordination blocks of the rounds member i
	// (view i) goes through, oldest first, on ONE executor instance; Block is unused
	Hist [][]uint64 `json:"hist,omitempty"`
}

// fakeChain implements only what getSeed needs; every other method of tbtc.Chain is the nil
// embedded interface (a call would panic and be reported).
type fakeChain struct {
	tbtc.Chain
	salt  uint64
	asked []uint64
}

func blockHash(salt, n uint64) [32]byte {
	var b [16]byte
	binary.BigEndian.PutUint64(b[:8], salt)
	binary.BigEndian.PutUint64(b[8:], n)
	return sha256.Sum256(b[:])
}

func (f *fakeChain) GetBlockHashByNumber(n uint64) ([32]byte, error) {
	f.asked = append(f.asked, n)
	return blockHash(f.salt, n), nil
}

func walletKey(scalar string) *ecdsa.PublicKey {
	k, ok := new(big.Int).SetString(scalar, 10)
	if !ok || k.Sign() <= 0 {
		k = big.NewInt(1)
	}
	x, y := tecdsa.Curve.ScalarBaseMult(k.Bytes())
	return &ecdsa.PublicKey{Curve: tecdsa.Curve, X: x, Y: y}
}

// float64 in [0,1] -> (num, log) with f = num / 2^log exactly
func dyadic(f float64) (*big.Int, int) {
	if f == 0 {
		return big.NewInt(0), 0
	}
	frac, exp := math.Frexp(f) // f = frac * 2^exp, frac in [0.5,1)
	mant := new(big.Int)
	new(big.Float).SetMantExp(big.NewFloat(frac), 53).Int(mant) // frac * 2^53, an integer
	e := exp - 53                                               // f = mant * 2^e
	if e >= 0 {
		return mant.Lsh(mant, uint(e)), 0
	}
	lg := -e
	for lg > 0 && mant.Bit(0) == 0 {
		mant.Rsh(mant, 1)
		lg--
	}
	return mant, lg
}

type viewObs struct {
	Asked     []uint64 `json:"asked"`
	Seed      string   `json:"seed"`
	Leader    string   `json:"leader"`
	Checklist []int    `json:"checklist"`
}

func runView(in input, pk *ecdsa.PublicKey, ops []chain.Address, idx uint64) (obs viewObs, seed [32]byte) {
	fc := &fakeChain{salt: in.Salt}
	func() {
		defer func() {
			if r := recover(); r != nil {
				obs.Seed = fmt.Sprintf("panic: %v", r)
			}
		}()
		s, err := tbtc.VerifC22GetSeed(fc, pk, ops, in.Block)
		if err != nil {
			obs.Seed = "error: " + err.Error()
			return
		}
		seed = s
		obs.Seed = fmt.Sprintf("%x", s[:])
	}()
	obs.Asked = fc.asked
	func() {
		defer func() {
			if r := recover(); r != nil {
				obs.Leader = "PANIC"
			}
		}()
		obs.Leader = string(tbtc.VerifC22GetLeader(pk, append([]chain.Address{}, ops...), seed))
	}()
	func() {
		defer func() {
			if r := recover(); r != nil {
				obs.Checklist = []int{255}
			}
		}()
		for _, a := range tbtc.VerifC22GetActionsChecklist(pk, ops, idx, seed) {
			obs.Checklist = append(obs.Checklist, int(a))
		}
	}()
	return obs, seed
}

func run(in input, em *lib.Emitter, id string) {
	if in.Hist != nil {
		runHist(in, em, id)
		return
	}
	var all []string
	for _, v := range in.Views {
		all = append(all, v...)
	}
	rank := lib.Rank(all)
	pk := walletKey(in.Wallet)
	pkh := bitcoin.PublicKeyHash(pk)
	idx := tbtc.VerifC22WindowIndex(in.Block)

	var obsAll []viewObs
	var views []string
	var askedFirst uint64
	haveAsked := false
	for _, v := range in.Views {
		ops := make([]chain.Address, len(v))
		ids := make([]uint64, len(v))
		for i, s := range v {
			ops[i] = chain.Address(s)
			ids[i] = rank[s]
		}
		obs, seed := runView(in, pk, ops, idx)
		obsAll = append(obsAll, obs)
		asked := int64(-1) // the model never expects a negative block
		if len(obs.Asked) == 1 {
			asked = 0
			if !haveAsked {
				askedFirst, haveAsked = obs.Asked[0], true
			}
		}
		askedZ := lib.Z(asked)
		if len(obs.Asked) == 1 {
			askedZ = lib.ZU(obs.Asked[0])
		}
		seedBytes := seed[:]
		if strings.HasPrefix(obs.Seed, "panic") || strings.HasPrefix(obs.Seed, "error") {
			seedBytes = nil
		}
		leader := "LPanic"
		if obs.Leader != "PANIC" {
			leader = "(Leader " + lib.N(rank[obs.Leader]) + ")" // 0 when not an operator
		}
		cl := make([]int64, len(obs.Checklist))
		for i, a := range obs.Checklist {
			cl[i] = int64(a)
		}
		views = append(views, fmt.Sprintf(
			"{| v_ops := %s; v_asked := %s; v_seed := %s; v_leader := %s; v_checklist := %s |}",
			lib.ListN(ids), askedZ, lib.Bytes(seedBytes), leader, lib.ListZ(cl)))
	}

	// the oracle values: SHA-256 of (wallet public key hash ++ hash of the block the code asked
	// for) and the first Float64 of Go's generator seeded with the first 8 bytes of that seed
	var seedExp [32]byte
	if haveAsked {
		bh := blockHash(in.Salt, askedFirst)
		seedExp = sha256.Sum256(append(append([]byte{}, pkh[:]...), bh[:]...))
	}
	f := rand.New(rand.NewSource(int64(binary.BigEndian.Uint64(seedExp[:8])))).Float64()
	draw := new(big.Int)
	new(big.Float).SetMantExp(big.NewFloat(f), 63).Int(draw)
	pNum, pLog := dyadic(tbtc.VerifC22HeartbeatProbability)

	coq := fmt.Sprintf("(CView {| c_block := %s; c_index := %s; c_seed_exp := %s; c_draw := %s; "+
		"c_p_num := %s; c_p_log := %s; c_views := %s |})",
		lib.ZU(in.Block), lib.ZU(idx), lib.Bytes(seedExp[:]), lib.ZBig(draw),
		lib.ZBig(pNum), lib.Z(int64(pLog)), lib.List(views))

	nOps := len(rank)
	differ := false
	for _, v := range in.Views[1:] {
		if strings.Join(v, ",") != strings.Join(in.Views[0], ",") {
			differ = true
		}
	}
	hb := f < tbtc.VerifC22HeartbeatProbability
	em.Tally(fmt.Sprintf("operators-%03d", nOps))
	em.Tally(fmt.Sprintf("views-%d", len(in.Views)))
	em.Tally(fmt.Sprintf("index-mod4-%d", idx%4))
	if idx == 0 {
		em.Tally("index-zero")
	}
	if hb {
		em.Tally("heartbeat-drawn")
	}
	keyViews := make([]string, len(in.Views))
	for i, v := range in.Views {
		ids := make([]uint64, len(v))
		for j, s := range v {
			ids[j] = rank[s]
		}
		keyViews[i] = fmt.Sprint(ids)
	}
	em.Case(lib.Case{
		ID:         id,
		Coq:        coq,
		Key:        fmt.Sprintf("%v|%x|%d", keyViews, seedExp[:8], in.Block),
		Nontrivial: nOps >= 2 && len(in.Views) >= 2 && differ,
		Sig: map[string]interface{}{"fn": "coordination-view", "operators": nOps,
			"index_zero": idx == 0, "every_fourth": idx != 0 && idx%4 == 0, "heartbeat": hb},
		In:  in,
		Out: obsAll,
	})
}

// ---- call histories on ONE executor instance per member ----

type callObs struct {
	Block     uint64   `json:"block"`
	Asked     []uint64 `json:"asked"`
	Seed      string   `json:"seed"`
	Leader    string   `json:"leader"`
	Checklist []int    `json:"checklist"`
}

type memberObs struct {
	Calls    []callObs `json:"calls"`
	OpsAfter []string  `json:"ops_after"` // the caller's operator slice after the last call
	Mutated  bool      `json:"ops_mutated"`
}

// runHist builds, for every member (view), ONE executor with the production constructor --
// production keeps one executor per wallet and reuses it for every window -- and runs that
// member's history of rounds (getSeed, getLeader, getActionsChecklist) on it.  The seed the
// property is keyed on (wallet, safe block hash) is recomputed here from the inputs alone.
func runHist(in input, em *lib.Emitter, id string) {
	var all []string
	for _, v := range in.Views {
		all = append(all, v...)
	}
	rank := lib.Rank(all)
	pk := walletKey(in.Wallet)
	pkh := bitcoin.PublicKeyHash(pk)
	pNum, pLog := dyadic(tbtc.VerifC22HeartbeatProbability)

	var obsAll []memberObs
	var members []string
	keyViews := make([]string, len(in.Views))
	maxRounds := 0
	repeatWithin, freshVsLong, mutated := false, false, false
	firstAt := map[uint64]bool{} // blocks that are some member's first round
	laterAt := map[uint64]bool{} // blocks that are some member's later round
	for i, v := range in.Views {
		ops := make([]chain.Address, len(v))
		ids := make([]uint64, len(v))
		for j, s := range v {
			ops[j] = chain.Address(s)
			ids[j] = rank[s]
		}
		keyViews[i] = fmt.Sprint(ids)
		var hist []uint64
		if i < len(in.Hist) {
			hist = in.Hist[i]
		}
		fc := &fakeChain{salt: in.Salt}
		var ex *tbtc.VerifC22Executor
		func() {
			defer func() { _ = recover() }() // a nil executor makes every round panic below
			ex = tbtc.VerifC22NewExecutor(fc, pk, ops)
		}()
		var mo memberObs
		var calls []string
		seenBlock := map[uint64]bool{}
		for pos, b := range hist {
			co := callObs{Block: b}
			idx := tbtc.VerifC22WindowIndex(b)
			var seed [32]byte
			n0 := len(fc.asked)
			func() {
				defer func() {
					if r := recover(); r != nil {
						co.Seed = fmt.Sprintf("panic: %v", r)
					}
				}()
				s, err := ex.GetSeed(b)
				if err != nil {
					co.Seed = "error: " + err.Error()
					return
				}
				seed = s
				co.Seed = fmt.Sprintf("%x", s[:])
			}()
			co.Asked = append([]uint64{}, fc.asked[n0:]...)
			func() {
				defer func() {
					if r := recover(); r != nil {
						co.Leader = "PANIC"
					}
				}()
				co.Leader = string(ex.GetLeader(seed))
			}()
			func() {
				defer func() {
					if r := recover(); r != nil {
						co.Checklist = []int{255}
					}
				}()
				for _, a := range ex.GetActionsChecklist(idx, seed) {
					co.Checklist = append(co.Checklist, int(a))
				}
			}()
			mo.Calls = append(mo.Calls, co)

			// oracle values, from the inputs alone
			bh := blockHash(in.Salt, b-tbtc.VerifC22SafeBlockShift)
			seedExp := sha256.Sum256(append(append([]byte{}, pkh[:]...), bh[:]...))
			f := rand.New(rand.NewSource(int64(binary.BigEndian.Uint64(seedExp[:8])))).Float64()
			draw := new(big.Int)
			new(big.Float).SetMantExp(big.NewFloat(f), 63).Int(draw)

			askedZ := lib.Z(-1) // the model never expects a negative block
			if len(co.Asked) == 1 {
				askedZ = lib.ZU(co.Asked[0])
			}
			seedBytes := seed[:]
			if strings.HasPrefix(co.Seed, "panic") || strings.HasPrefix(co.Seed, "error") {
				seedBytes = nil
			}
			leader := "LPanic"
			if co.Leader != "PANIC" {
				leader = "(Leader " + lib.N(rank[co.Leader]) + ")" // 0 when not an operator
			}
			cl := make([]int64, len(co.Checklist))
			for k, a := range co.Checklist {
				cl[k] = int64(a)
			}
			calls = append(calls, fmt.Sprintf(
				"{| k_block := %s; k_index := %s; k_seed_exp := %s; k_draw := %s; k_asked := %s; "+
					"k_seed := %s; k_leader := %s; k_checklist := %s |}",
				lib.ZU(b), lib.ZU(idx), lib.Bytes(seedExp[:]), lib.ZBig(draw), askedZ,
				lib.Bytes(seedBytes), leader, lib.ListZ(cl)))

			if seenBlock[b] {
				repeatWithin = true
			}
			seenBlock[b] = true
			if pos == 0 {
				firstAt[b] = true
			} else {
				laterAt[b] = true
			}
		}
		// the slice handed to the executor, as the caller sees it now
		after := make([]uint64, len(ops))
		for j, a := range ops {
			mo.OpsAfter = append(mo.OpsAfter, string(a))
			after[j] = rank[string(a)]
			if string(a) != v[j] {
				mo.Mutated = true
				mutated = true
			}
		}
		obsAll = append(obsAll, mo)
		members = append(members, fmt.Sprintf("{| m_ops := %s; m_ops_after := %s; m_calls := %s |}",
			lib.ListN(ids), lib.ListN(after), lib.List(calls)))
		if len(hist) > maxRounds {
			maxRounds = len(hist)
		}
	}
	for b := range firstAt {
		if laterAt[b] {
			freshVsLong = true
		}
	}

	coq := fmt.Sprintf("(CHist {| h_p_num := %s; h_p_log := %s; h_members := %s |})",
		lib.ZBig(pNum), lib.Z(int64(pLog)), lib.List(members))

	nOps := len(rank)
	em.Tally(fmt.Sprintf("hist-operators-%03d", nOps))
	em.Tally(fmt.Sprintf("hist-members-%d", len(in.Views)))
	em.Tally(fmt.Sprintf("hist-longest-%d", maxRounds))
	if repeatWithin {
		em.Tally("hist-same-window-twice-on-one-executor")
	}
	if freshVsLong {
		em.Tally("hist-window-first-for-one-member-later-for-another")
	}
	if mutated {
		em.Tally("hist-operator-slice-mutated")
	}
	em.Case(lib.Case{
		ID:         id,
		Coq:        coq,
		Key:        fmt.Sprintf("hist|%v|%v|%s|%d", keyViews, in.Hist, in.Wallet, in.Salt),
		Nontrivial: nOps >= 2 && maxRounds >= 2,
		Sig: map[string]interface{}{"fn": "coordination-history", "operators": nOps,
			"members": len(in.Views), "same_window_twice": repeatWithin, "ops_mutated": mutated},
		In:  in,
		Out: obsAll,
	})
}

// histBlock draws a coordination block for a history: mostly valid windows.
func histBlock(r *lib.Rng) uint64 {
	switch r.Intn(10) {
	case 0:
		return 900*uint64(r.Range(1, 1<<20)) + uint64(r.Range(1, 899)) // index 0
	case 1:
		return 900 * 4 * uint64(r.Range(1, 1<<30))
	case 2:
		return (r.U64() / 900) * 900
	default:
		return 900 * uint64(r.Range(1, 40000))
	}
}

// histories draws one history per member over a pool of 2-4 windows: member 0 is the
// long-running one (2-6 rounds, windows drawn with replacement, so the same window comes up
// again); the last member is often a freshly started one that sees only the last window of
// member 0; the others share member 0's history, a suffix of it, or have their own.
func histories(r *lib.Rng, members int) [][]uint64 {
	pool := make([]uint64, r.Range(2, 4))
	for i := range pool {
		pool[i] = histBlock(r)
	}
	draw := func(n int) []uint64 {
		h := make([]uint64, n)
		for i := range h {
			h[i] = pool[r.Intn(len(pool))]
		}
		return h
	}
	out := make([][]uint64, members)
	out[0] = draw(r.Range(2, 6))
	if r.Chance(1, 3) {
		// ask for the first window again at the end
		out[0][len(out[0])-1] = out[0][0]
	}
	for m := 1; m < members; m++ {
		switch {
		case m == members-1 && r.Chance(1, 2):
			out[m] = []uint64{out[0][len(out[0])-1]}
		case r.Chance(1, 3):
			out[m] = append([]uint64{}, out[0]...)
		case r.Chance(1, 3):
			k := r.Intn(len(out[0]))
			out[m] = append([]uint64{}, out[0][k:]...)
		default:
			out[m] = draw(r.Range(1, 5))
		}
	}
	return out
}

func addr(r *lib.Rng) string {
	const hexd = "0123456789abcdefABCDEF"
	b := make([]byte, 40)
	for i := range b {
		b[i] = hexd[r.Intn(len(hexd))]
	}
	return "0x" + string(b)
}

// views builds k operator lists over the same operator set: the first holds the seats as the
// chain would report them, the others are permutations with other seat multiplicities.
func views(r *lib.Rng, ops []string, k int, maxSeats int) [][]string {
	out := make([][]string, 0, k)
	for v := 0; v < k; v++ {
		var seats []string
		for _, o := range ops {
			seats = append(seats, o) // every operator at least once: same set in every view
		}
		extra := 0
		switch r.Intn(4) {
		case 0:
		case 1:
			extra = r.Intn(len(ops) + 1)
		default:
			extra = r.Intn(maxSeats + 1)
		}
		for i := 0; i < extra && len(seats) < maxSeats; i++ {
			seats = append(seats, ops[r.Intn(len(ops))])
		}
		if v > 0 && r.Chance(1, 8) {
			// the same list as the first view, only reordered
			seats = append([]string{}, out[0]...)
		}
		p := r.Perm(len(seats))
		sh := make([]string, len(seats))
		for i, j := range p {
			sh[i] = seats[j]
		}
		if v > 0 && r.Chance(1, 10) {
			// sorted ascending / descending views
			for i := 0; i < len(sh); i++ {
				for j := i + 1; j < len(sh); j++ {
					if sh[j] < sh[i] {
						sh[i], sh[j] = sh[j], sh[i]
					}
				}
			}
		}
		out = append(out, sh)
	}
	return out
}

func randBlock(r *lib.Rng) uint64 {
	switch r.Intn(12) {
	case 0:
		return uint64(r.Intn(4000)) // mostly not a window start: index 0
	case 1:
		return 900*uint64(r.Range(1, 1<<20)) + uint64(r.Range(1, 899))
	case 2:
		return 900 * 4 * uint64(r.Range(1, 1<<30))
	case 3:
		return (r.U64() / 900) * 900
	default:
		return 900 * uint64(r.Range(1, 40000))
	}
}

func main() {
	o := lib.ParseOpts()
	em := lib.NewEmitter()
	if o.Replay != "" {
		var in input
		if err := lib.LoadReplay(o.Replay, &in); err != nil {
			fmt.Fprintln(os.Stderr, err)
			os.Exit(2)
		}
		run(in, em, "replay")
		em.Close("replay", nil)
		return
	}
	rng := lib.NewRng(o.Seed)

	// --- corpus
	{
		r := lib.NewRng(22)
		a, b, c := addr(r), addr(r), addr(r)
		test := []string{a, b, c, c, b, a, a, b, c, c} // the layout of the repository's own tests
		run(input{Views: [][]string{test, {c, b, a}, {c, c, c, a, b}}, Wallet: "7", Block: 900, Salt: 1}, em, "corpus-test-layout")
		run(input{Views: [][]string{test, {a, b, c}}, Wallet: "7", Block: 3600, Salt: 1}, em, "corpus-fourth-window")
		run(input{Views: [][]string{test, {b, c, a, a}}, Wallet: "11", Block: 901, Salt: 1}, em, "corpus-index-zero")
		run(input{Views: [][]string{{a}, {a, a, a}}, Wallet: "11", Block: 1800, Salt: 2}, em, "corpus-single-operator")
		run(input{Views: [][]string{{}}, Wallet: "11", Block: 1800, Salt: 2}, em, "corpus-no-operators")
		run(input{Views: [][]string{{a, b}, {b, a}}, Wallet: "5", Block: 0, Salt: 3}, em, "corpus-block-zero")
		// seeds whose draw selects the heartbeat: found by scanning the salt
		found := 0
		for salt := uint64(100); found < 3 && salt < 400; salt++ {
			pk := walletKey("13")
			pkh := bitcoin.PublicKeyHash(pk)
			bh := blockHash(salt, 2700-32)
			s := sha256.Sum256(append(append([]byte{}, pkh[:]...), bh[:]...))
			f := rand.New(rand.NewSource(int64(binary.BigEndian.Uint64(s[:8])))).Float64()
			if f < 0.0625 {
				run(input{Views: [][]string{{a, b, c}, {c, a, b, b}}, Wallet: "13", Block: 2700, Salt: salt}, em, fmt.Sprintf("corpus-heartbeat-%d", found))
				found++
			}
		}
	}

	// --- corpus, histories: the layout of seeded change C22a (ten seats, seven operators; its
	// sixteen windows are too long for one case: six rounds, then a fresh member), the same
	// window asked again and again, a single operator, no operators, rounds with index 0
	{
		r := lib.NewRng(2222)
		o7 := make([]string, 7)
		for i := range o7 {
			o7[i] = addr(r)
		}
		seats := []string{o7[0], o7[1], o7[2], o7[3], o7[4], o7[5], o7[3], o7[6], o7[3], o7[1]}
		rev := make([]string, len(seats))
		for i := range seats {
			rev[len(seats)-1-i] = seats[i]
		}
		run(input{Views: [][]string{seats, rev, o7}, Wallet: "7", Salt: 5,
			Hist: [][]uint64{{900, 1800, 2700, 3600, 4500, 900}, {4500}, {3600, 900}}}, em, "corpus-hist-long-vs-fresh")
		run(input{Views: [][]string{seats, seats}, Wallet: "9", Salt: 6,
			Hist: [][]uint64{{7200, 7200, 7200}, {7200}}}, em, "corpus-hist-asked-again")
		run(input{Views: [][]string{{o7[0]}, {o7[0], o7[0]}}, Wallet: "9", Salt: 7,
			Hist: [][]uint64{{900, 1800, 900}, {1800}}}, em, "corpus-hist-single-operator")
		run(input{Views: [][]string{{}}, Wallet: "9", Salt: 8,
			Hist: [][]uint64{{900, 1800}}}, em, "corpus-hist-no-operators")
		run(input{Views: [][]string{{o7[0], o7[1], o7[2]}, {o7[2], o7[0], o7[1], o7[1]}}, Wallet: "9", Salt: 9,
			Hist: [][]uint64{{901, 900, 31, 900}, {900, 0}}}, em, "corpus-hist-index-zero-rounds")
	}

	// --- small scope, histories: 2..4 operators, two windows, EVERY history of 1..3 rounds over
	// them on member 0; member 1 is freshly started for the last of these rounds, member 2 went
	// through the same windows in reverse order
	nSmallH := o.Count(2, 8)
	for i := 0; i < nSmallH; i++ {
		r := rng.Fork(fmt.Sprintf("smallhist%d", i))
		n := 2 + i%3
		ops := make([]string, n)
		for j := range ops {
			ops[j] = addr(r)
		}
		w := [2]uint64{900 * uint64(r.Range(1, 5000)), 900 * uint64(r.Range(5001, 10000))}
		wallet, salt := fmt.Sprint(r.Range(1, 1<<30)), r.U64()
		for l := 1; l <= 3; l++ {
			for bits := 0; bits < 1<<l; bits++ {
				h := make([]uint64, l)
				hr := make([]uint64, l)
				for k := 0; k < l; k++ {
					h[k] = w[(bits>>k)&1]
					hr[l-1-k] = h[k]
				}
				run(input{Views: views(r, ops, 3, 8), Wallet: wallet, Salt: salt,
					Hist: [][]uint64{h, {h[l-1]}, hr}}, em, fmt.Sprintf("smallhist-%d-%d-%d", i, l, bits))
			}
		}
	}

	// --- random histories
	nHist := o.Count(90, 1200)
	for i := 0; i < nHist; i++ {
		r := rng.Fork(fmt.Sprintf("hist%d", i))
		n := r.Range(2, 12)
		switch r.Intn(10) {
		case 0:
			n = r.Range(12, 40)
		case 1:
			n = 1
		}
		ops := make([]string, n)
		for j := range ops {
			ops[j] = addr(r)
		}
		k := r.Range(2, 4)
		run(input{Views: views(r, ops, k, 50), Wallet: fmt.Sprint(r.Range(1, 1<<40)), Salt: r.U64(),
			Hist: histories(r, k)}, em, fmt.Sprintf("hist-%d", i))
	}

	// --- small scope: 1..4 operators, every window index residue, several views
	nSmall := o.Count(80, 600)
	for i := 0; i < nSmall; i++ {
		r := rng.Fork(fmt.Sprintf("small%d", i))
		n := 1 + i%4
		ops := make([]string, n)
		for j := range ops {
			ops[j] = addr(r)
		}
		block := 900 * uint64(1+(i/4)%8)
		run(input{Views: views(r, ops, r.Range(2, 4), 8), Wallet: fmt.Sprint(r.Range(1, 1<<30)), Block: block, Salt: r.U64()}, em,
			fmt.Sprintf("small-%d", i))
	}

	// --- random wallets
	nRand := o.Count(500, 6000)
	for i := 0; i < nRand; i++ {
		r := rng.Fork(fmt.Sprintf("rand%d", i))
		n := r.Range(2, 12)
		switch r.Intn(8) {
		case 0:
			n = r.Range(12, 40)
		case 1:
			n = r.Range(40, 100)
		}
		ops := make([]string, n)
		for j := range ops {
			ops[j] = addr(r)
		}
		if r.Chance(1, 10) && n >= 2 {
			// addresses sharing a long prefix, differing in case only at the end
			base := addr(r)
			for j := range ops {
				ops[j] = base[:38] + fmt.Sprintf("%c%c", "aAbBcCdDeEfF0123456789"[j%22], "0123456789abcdefABCDEF"[(j/22)%22])
			}
			seen := map[string]bool{}
			var u []string
			for _, s := range ops {
				if !seen[s] {
					seen[s] = true
					u = append(u, s)
				}
			}
			ops = u
		}
		k := r.Range(2, 4)
		if len(ops) > 40 {
			k = 2
		}
		run(input{Views: views(r, ops, k, 100), Wallet: fmt.Sprint(r.Range(1, 1<<40)), Block: randBlock(r), Salt: r.U64()}, em,
			fmt.Sprintf("rand-%d", i))
	}
	em.Close("a case is either one (wallet key, coordination block, chain) evaluated through getSeed, getLeader and "+
		"getActionsChecklist by 1-4 members whose operator lists have the same set of operators; distinct by "+
		"(canonical views, seed, block); non-trivial when there are >= 2 operators and >= 2 views that differ "+
		"in order or repetition; or a history case: 1-4 members of one wallet, each with ONE executor instance "+
		"(production constructor) going through its own history of 1-6 rounds (getSeed, getLeader, "+
		"getActionsChecklist per coordination block), windows repeated within and across members; distinct by "+
		"(canonical views, histories, wallet, chain); non-trivial when there are >= 2 operators and some member "+
		"has >= 2 rounds", nil)
}
