// Driver for C22: runs the real getSeed / getLeader / getActionsChecklist of
// pkg/tbtc/coordination.go (through the verif-tagged exports) for several members' views of
// the same wallet -- operator lists with the same set of operators in different orders and
// with different repetitions -- and prints the cases for the Coq model (Model/C22.v).
// Operators become N identifiers by rank of their address string (the code sorts them).
package main

import (
	"crypto/ecdsa"
	"crypto/sha256"
	"encoding/binary"
	"fmt"
	"math"
	"math/big"
	"math/rand"
	"os"
	"strings"

	"github.com/keep-network/keep-core/pkg/bitcoin"
	"github.com/keep-network/keep-core/pkg/chain"
	"github.com/keep-network/keep-core/pkg/tbtc"
	"github.com/keep-network/keep-core/pkg/tecdsa"

	"verifharness/lib"
)

type input struct {
	Views  [][]string `json:"views"`  // each member's signingGroupOperators
	Wallet string     `json:"wallet"` // decimal scalar; the wallet public key is scalar*G
	Block  uint64     `json:"block"`  // coordination block
	Salt   uint64     `json:"salt"`   // the fake chain's block hash of n is sha256(salt || n)
}

// fakeChain implements only what getSeed needs; every other method of tbtc.Chain is the nil
// embedded interface (a call would panic and be reported).
type fakeChain struct {
	tbtc.Chain
	salt  uint64
	asked []uint64
}

func blockHash(salt, n uint64) [32]byte {
	var b [16]byte
	binary.BigEndian.PutUint64(b[:8], salt)
	binary.BigEndian.PutUint64(b[8:], n)
	return sha256.Sum256(b[:])
}

func (f *fakeChain) GetBlockHashByNumber(n uint64) ([32]byte, error) {
	f.asked = append(f.asked, n)
	return blockHash(f.salt, n), nil
}

func walletKey(scalar string) *ecdsa.PublicKey {
	k, ok := new(big.Int).SetString(scalar, 10)
	if !ok || k.Sign() <= 0 {
		k = big.NewInt(1)
	}
	x, y := tecdsa.Curve.ScalarBaseMult(k.Bytes())
	return &ecdsa.PublicKey{Curve: tecdsa.Curve, X: x, Y: y}
}

// float64 in [0,1] -> (num, log) with f = num / 2^log exactly
func dyadic(f float64) (*big.Int, int) {
	if f == 0 {
		return big.NewInt(0), 0
	}
	frac, exp := math.Frexp(f) // f = frac * 2^exp, frac in [0.5,1)
	mant := new(big.Int)
	new(big.Float).SetMantExp(big.NewFloat(frac), 53).Int(mant) // frac * 2^53, an integer
	e := exp - 53                                               // f = mant * 2^e
	if e >= 0 {
		return mant.Lsh(mant, uint(e)), 0
	}
	lg := -e
	for lg > 0 && mant.Bit(0) == 0 {
		mant.Rsh(mant, 1)
		lg--
	}
	return mant, lg
}

type viewObs struct {
	Asked     []uint64 `json:"asked"`
	Seed      string   `json:"seed"`
	Leader    string   `json:"leader"`
	Checklist []int    `json:"checklist"`
}

func runView(in input, pk *ecdsa.PublicKey, ops []chain.Address, idx uint64) (obs viewObs, seed [32]byte) {
	fc := &fakeChain{salt: in.Salt}
	func() {
		defer func() {
			if r := recover(); r != nil {
				obs.Seed = fmt.Sprintf("panic: %v", r)
			}
		}()
		s, err := tbtc.VerifC22GetSeed(fc, pk, ops, in.Block)
		if err != nil {
			obs.Seed = "error: " + err.Error()
			return
		}
		seed = s
		obs.Seed = fmt.Sprintf("%x", s[:])
	}()
	obs.Asked = fc.asked
	func() {
		defer func() {
			if r := recover(); r != nil {
				obs.Leader = "PANIC"
			}
		}()
		obs.Leader = string(tbtc.VerifC22GetLeader(pk, append([]chain.Address{}, ops...), seed))
	}()
	func() {
		defer func() {
			if r := recover(); r != nil {
				obs.Checklist = []int{255}
			}
		}()
		for _, a := range tbtc.VerifC22GetActionsChecklist(pk, ops, idx, seed) {
			obs.Checklist = append(obs.Checklist, int(a))
		}
	}()
	return obs, seed
}

func run(in input, em *lib.Emitter, id string) {
	var all []string
	for _, v := range in.Views {
		all = append(all, v...)
	}
	rank := lib.Rank(all)
	pk := walletKey(in.Wallet)
	pkh := bitcoin.PublicKeyHash(pk)
	idx := tbtc.VerifC22WindowIndex(in.Block)

	var obsAll []viewObs
	var views []string
	var askedFirst uint64
	haveAsked := false
	for _, v := range in.Views {
		ops := make([]chain.Address, len(v))
		ids := make([]uint64, len(v))
		for i, s := range v {
			ops[i] = chain.Address(s)
			ids[i] = rank[s]
		}
		obs, seed := runView(in, pk, ops, idx)
		obsAll = append(obsAll, obs)
		asked := int64(-1) // the model never expects a negative block
		if len(obs.Asked) == 1 {
			asked = 0
			if !haveAsked {
				askedFirst, haveAsked = obs.Asked[0], true
			}
		}
		askedZ := lib.Z(asked)
		if len(obs.Asked) == 1 {
			askedZ = lib.ZU(obs.Asked[0])
		}
		seedBytes := seed[:]
		if strings.HasPrefix(obs.Seed, "panic") || strings.HasPrefix(obs.Seed, "error") {
			seedBytes = nil
		}
		leader := "LPanic"
		if obs.Leader != "PANIC" {
			leader = "(Leader " + lib.N(rank[obs.Leader]) + ")" // 0 when not an operator
		}
		cl := make([]int64, len(obs.Checklist))
		for i, a := range obs.Checklist {
			cl[i] = int64(a)
		}
		views = append(views, fmt.Sprintf(
			"{| v_ops := %s; v_asked := %s; v_seed := %s; v_leader := %s; v_checklist := %s |}",
			lib.ListN(ids), askedZ, lib.Bytes(seedBytes), leader, lib.ListZ(cl)))
	}

	// the oracle values: SHA-256 of (wallet public key hash ++ hash of the block the code asked
	// for) and the first Float64 of Go's generator seeded with the first 8 bytes of that seed
	var seedExp [32]byte
	if haveAsked {
		bh := blockHash(in.Salt, askedFirst)
		seedExp = sha256.Sum256(append(append([]byte{}, pkh[:]...), bh[:]...))
	}
	f := rand.New(rand.NewSource(int64(binary.BigEndian.Uint64(seedExp[:8])))).Float64()
	draw := new(big.Int)
	new(big.Float).SetMantExp(big.NewFloat(f), 63).Int(draw)
	pNum, pLog := dyadic(tbtc.VerifC22HeartbeatProbability)

	coq := fmt.Sprintf("{| c_block := %s; c_index := %s; c_seed_exp := %s; c_draw := %s; "+
		"c_p_num := %s; c_p_log := %s; c_views := %s |}",
		lib.ZU(in.Block), lib.ZU(idx), lib.Bytes(seedExp[:]), lib.ZBig(draw),
		lib.ZBig(pNum), lib.Z(int64(pLog)), lib.List(views))

	nOps := len(rank)
	differ := false
	for _, v := range in.Views[1:] {
		if strings.Join(v, ",") != strings.Join(in.Views[0], ",") {
			differ = true
		}
	}
	hb := f < tbtc.VerifC22HeartbeatProbability
	em.Tally(fmt.Sprintf("operators-%03d", nOps))
	em.Tally(fmt.Sprintf("views-%d", len(in.Views)))
	em.Tally(fmt.Sprintf("index-mod4-%d", idx%4))
	if idx == 0 {
		em.Tally("index-zero")
	}
	if hb {
		em.Tally("heartbeat-drawn")
	}
	keyViews := make([]string, len(in.Views))
	for i, v := range in.Views {
		ids := make([]uint64, len(v))
		for j, s := range v {
			ids[j] = rank[s]
		}
		keyViews[i] = fmt.Sprint(ids)
	}
	em.Case(lib.Case{
		ID:         id,
		Coq:        coq,
		Key:        fmt.Sprintf("%v|%x|%d", keyViews, seedExp[:8], in.Block),
		Nontrivial: nOps >= 2 && len(in.Views) >= 2 && differ,
		Sig: map[string]interface{}{"fn": "coordination-view", "operators": nOps,
			"index_zero": idx == 0, "every_fourth": idx != 0 && idx%4 == 0, "heartbeat": hb},
		In:  in,
		Out: obsAll,
	})
}

func addr(r *lib.Rng) string {
	const hexd = "0123456789abcdefABCDEF"
	b := make([]byte, 40)
	for i := range b {
		b[i] = hexd[r.Intn(len(hexd))]
	}
	return "0x" + string(b)
}

// views builds k operator lists over the same operator set: the first holds the seats as the
// chain would report them, the others are permutations with other seat multiplicities.
func views(r *lib.Rng, ops []string, k int, maxSeats int) [][]string {
	out := make([][]string, 0, k)
	for v := 0; v < k; v++ {
		var seats []string
		for _, o := range ops {
			seats = append(seats, o) // every operator at least once: same set in every view
		}
		extra := 0
		switch r.Intn(4) {
		case 0:
		case 1:
			extra = r.Intn(len(ops) + 1)
		default:
			extra = r.Intn(maxSeats + 1)
		}
		for i := 0; i < extra && len(seats) < maxSeats; i++ {
			seats = append(seats, ops[r.Intn(len(ops))])
		}
		if v > 0 && r.Chance(1, 8) {
			// the same list as the first view, only reordered
			seats = append([]string{}, out[0]...)
		}
		p := r.Perm(len(seats))
		sh := make([]string, len(seats))
		for i, j := range p {
			sh[i] = seats[j]
		}
		if v > 0 && r.Chance(1, 10) {
			// sorted ascending / descending views
			for i := 0; i < len(sh); i++ {
				for j := i + 1; j < len(sh); j++ {
					if sh[j] < sh[i] {
						sh[i], sh[j] = sh[j], sh[i]
					}
				}
			}
		}
		out = append(out, sh)
	}
	return out
}

func randBlock(r *lib.Rng) uint64 {
	switch r.Intn(12) {
	case 0:
		return uint64(r.Intn(4000)) // mostly not a window start: index 0
	case 1:
		return 900*uint64(r.Range(1, 1<<20)) + uint64(r.Range(1, 899))
	case 2:
		return 900 * 4 * uint64(r.Range(1, 1<<30))
	case 3:
		return (r.U64() / 900) * 900
	default:
		return 900 * uint64(r.Range(1, 40000))
	}
}

func main() {
	o := lib.ParseOpts()
	em := lib.NewEmitter()
	if o.Replay != "" {
		var in input
		if err := lib.LoadReplay(o.Replay, &in); err != nil {
			fmt.Fprintln(os.Stderr, err)
			os.Exit(2)
		}
		run(in, em, "replay")
		em.Close("replay", nil)
		return
	}
	rng := lib.NewRng(o.Seed)

	// --- corpus
	{
		r := lib.NewRng(22)
		a, b, c := addr(r), addr(r), addr(r)
		test := []string{a, b, c, c, b, a, a, b, c, c} // the layout of the repository's own tests
		run(input{[][]string{test, {c, b, a}, {c, c, c, a, b}}, "7", 900, 1}, em, "corpus-test-layout")
		run(input{[][]string{test, {a, b, c}}, "7", 3600, 1}, em, "corpus-fourth-window")
		run(input{[][]string{test, {b, c, a, a}}, "11", 901, 1}, em, "corpus-index-zero")
		run(input{[][]string{{a}, {a, a, a}}, "11", 1800, 2}, em, "corpus-single-operator")
		run(input{[][]string{{}}, "11", 1800, 2}, em, "corpus-no-operators")
		run(input{[][]string{{a, b}, {b, a}}, "5", 0, 3}, em, "corpus-block-zero")
		// seeds whose draw selects the heartbeat: found by scanning the salt
		found := 0
		for salt := uint64(100); found < 3 && salt < 400; salt++ {
			pk := walletKey("13")
			pkh := bitcoin.PublicKeyHash(pk)
			bh := blockHash(salt, 2700-32)
			s := sha256.Sum256(append(append([]byte{}, pkh[:]...), bh[:]...))
			f := rand.New(rand.NewSource(int64(binary.BigEndian.Uint64(s[:8])))).Float64()
			if f < 0.0625 {
				run(input{[][]string{{a, b, c}, {c, a, b, b}}, "13", 2700, salt}, em, fmt.Sprintf("corpus-heartbeat-%d", found))
				found++
			}
		}
	}

	// --- small scope: 1..4 operators, every window index residue, several views
	nSmall := o.Count(80, 600)
	for i := 0; i < nSmall; i++ {
		r := rng.Fork(fmt.Sprintf("small%d", i))
		n := 1 + i%4
		ops := make([]string, n)
		for j := range ops {
			ops[j] = addr(r)
		}
		block := 900 * uint64(1+(i/4)%8)
		run(input{views(r, ops, r.Range(2, 4), 8), fmt.Sprint(r.Range(1, 1<<30)), block, r.U64()}, em,
			fmt.Sprintf("small-%d", i))
	}

	// --- random wallets
	nRand := o.Count(500, 6000)
	for i := 0; i < nRand; i++ {
		r := rng.Fork(fmt.Sprintf("rand%d", i))
		n := r.Range(2, 12)
		switch r.Intn(8) {
		case 0:
			n = r.Range(12, 40)
		case 1:
			n = r.Range(40, 100)
		}
		ops := make([]string, n)
		for j := range ops {
			ops[j] = addr(r)
		}
		if r.Chance(1, 10) && n >= 2 {
			// addresses sharing a long prefix, differing in case only at the end
			base := addr(r)
			for j := range ops {
				ops[j] = base[:38] + fmt.Sprintf("%c%c", "aAbBcCdDeEfF0123456789"[j%22], "0123456789abcdefABCDEF"[(j/22)%22])
			}
			seen := map[string]bool{}
			var u []string
			for _, s := range ops {
				if !seen[s] {
					seen[s] = true
					u = append(u, s)
				}
			}
			ops = u
		}
		k := r.Range(2, 4)
		if len(ops) > 40 {
			k = 2
		}
		run(input{views(r, ops, k, 100), fmt.Sprint(r.Range(1, 1<<40)), randBlock(r), r.U64()}, em,
			fmt.Sprintf("rand-%d", i))
	}
	em.Close("a case is one (wallet key, coordination block, chain) evaluated through getSeed, getLeader and "+
		"getActionsChecklist by 1-4 members whose operator lists have the same set of operators; distinct by "+
		"(canonical views, seed, block); non-trivial when there are >= 2 operators and >= 2 views that differ "+
		"in order or repetition", nil)
}
