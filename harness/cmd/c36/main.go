// Driver for C36: runs the real heartbeatAction.execute (pkg/tbtc/heartbeat.go) with stub
// chain / signing / inactivity-claim collaborators over histories of heartbeat outcomes for
// several wallets that share ONE heartbeatFailureCounter, and prints the cases for the Coq
// model (Model/C36.v).  A wallet is identified in the model by its FULL public key (the integer
// 04‖X‖Y); how similar the keys of the wallets of one history are is a generator dimension
// (keys.go).  Members are their MemberIndex.
package main

import (
	"context"
	"crypto/ecdsa"
	"errors"
	"fmt"
	"math/big"
	"os"
	"sort"
	"strings"
	"sync"

	"github.com/keep-network/keep-core/pkg/chain"
	"github.com/keep-network/keep-core/pkg/protocol/group"
	"github.com/keep-network/keep-core/pkg/tbtc"
	"github.com/keep-network/keep-core/pkg/tecdsa"

	"verifharness/lib"
)

type event struct {
	Wallet     int     `json:"w"`     // 1-based
	Stake      string  `json:"stake"` // err | unreg | eligerr | zero | pos
	Valid      bool    `json:"valid"`
	Expiry     uint64  `json:"expiry"`
	SignErr    bool    `json:"signErr"`
	Active     int     `json:"active"`
	Inactive   []uint8 `json:"inactive"`
	ClaimFails bool    `json:"claimFails"`
}

type input struct {
	Concurrent bool `json:"concurrent"` // one goroutine per wallet instead of one global order
	// private scalars (hex) of wallet slots 1..len(Keys); a slot beyond the table has scalar 1000+slot
	Keys   []string `json:"keys,omitempty"`
	Family string   `json:"family,omitempty"` // the key family the table was drawn from (informational)
	Events []event  `json:"events"`
}

type observed struct {
	Signed     bool    `json:"signed"`
	Claimed    bool    `json:"claimed"`
	Members    []uint8 `json:"members,omitempty"`
	Flag       bool    `json:"flag,omitempty"`
	SessionOK  bool    `json:"sessionIsSignedMessage,omitempty"`
	Err        string  `json:"err"`
	ErrText    string  `json:"errText,omitempty"`
	Count      uint    `json:"count"`
	WaitBlocks []int64 `json:"ctxBlocks,omitempty"`
}

// ---- stub chain: only the three methods execute() uses are implemented
type fakeChain struct {
	tbtc.Chain
	stake string
	valid bool
}

func (f *fakeChain) OperatorToStakingProvider() (chain.Address, bool, error) {
	switch f.stake {
	case "err":
		return "", false, errors.New("stub: no staking provider")
	case "unreg":
		return "", false, nil
	}
	return chain.Address("0xprovider"), true, nil
}

func (f *fakeChain) EligibleStake(chain.Address) (*big.Int, error) {
	switch f.stake {
	case "eligerr":
		return nil, errors.New("stub: eligible stake unavailable")
	case "zero":
		return big.NewInt(0), nil
	}
	return big.NewInt(40000), nil
}

func (f *fakeChain) ValidateHeartbeatProposal([20]byte, *tbtc.HeartbeatProposal) error {
	if f.valid {
		return nil
	}
	return errors.New("stub: proposal rejected")
}

// the key of every wallet slot used by the events
func resolveKeys(in input) (map[int]*keyPoint, error) {
	out := map[int]*keyPoint{}
	for _, ev := range in.Events {
		if _, ok := out[ev.Wallet]; ok {
			continue
		}
		d := big.NewInt(int64(1000 + ev.Wallet))
		if ev.Wallet >= 1 && ev.Wallet <= len(in.Keys) {
			var err error
			if d, err = scalarFromHex(in.Keys[ev.Wallet-1]); err != nil {
				return nil, err
			}
		}
		out[ev.Wallet] = pointOf(d)
	}
	return out, nil
}

func classify(err error) string {
	if err == nil {
		return "ENone"
	}
	s := err.Error()
	switch {
	case strings.Contains(s, "failed to check if the operator is unstaking"):
		return "EStake"
	case strings.Contains(s, "heartbeat proposal is invalid"):
		return "EInvalid"
	case strings.Contains(s, "invalid proposal expiry block"):
		return "EExpiry"
	case strings.Contains(s, "heartbeat signing process errored out"):
		return "ESign"
	case strings.Contains(s, "undetermined set of inactive members"):
		return "ENoInactive"
	case strings.Contains(s, "error while notifying about operator inactivity"):
		return "EClaim"
	}
	return "EPanic"
}

// one real execute() call
func execOne(counter *tbtc.VerifC36Counter, key *keyPoint, ev event, seq int) (obs observed) {
	var pub *ecdsa.PublicKey = key.pub()
	release := make(chan struct{})
	var mu sync.Mutex
	defer func() {
		close(release)
		if r := recover(); r != nil {
			obs.Err, obs.ErrText = "EPanic", fmt.Sprintf("panic: %v", r)
		}
		c, err := counter.Get(pub)
		if err != nil {
			obs.Err, obs.ErrText = "EPanic", "counter.get: "+err.Error()
		}
		obs.Count = c
	}()
	var signedMessage *big.Int
	sign := func(ctx context.Context, message *big.Int, startBlock uint64) (
		*tecdsa.Signature, *tbtc.VerifC36ActivityReport, uint64, error) {
		obs.Signed = true
		signedMessage = message
		if ev.SignErr {
			return nil, nil, 0, errors.New("stub: signing failed")
		}
		active := make([]group.MemberIndex, ev.Active)
		for i := range active {
			active[i] = group.MemberIndex(i + 1)
		}
		inactive := make([]group.MemberIndex, len(ev.Inactive))
		for i, m := range ev.Inactive {
			inactive[i] = group.MemberIndex(m)
		}
		sig := &tecdsa.Signature{R: big.NewInt(int64(7 + seq)), S: big.NewInt(11), RecoveryID: 1}
		return sig, &tbtc.VerifC36ActivityReport{Active: active, Inactive: inactive}, startBlock + 10, nil
	}
	claim := func(ctx context.Context, members []group.MemberIndex, failed bool, session *big.Int) error {
		obs.Claimed = true
		obs.Members = make([]uint8, len(members))
		for i, m := range members {
			obs.Members[i] = uint8(m)
		}
		obs.Flag = failed
		obs.SessionOK = signedMessage != nil && session != nil && signedMessage.Cmp(session) == 0
		if ev.ClaimFails {
			return errors.New("stub: claim failed")
		}
		return nil
	}
	wait := func(ctx context.Context, block uint64) error {
		mu.Lock()
		obs.WaitBlocks = append(obs.WaitBlocks, int64(block))
		mu.Unlock()
		select {
		case <-ctx.Done():
			return nil
		case <-release:
			return nil
		}
	}
	var msg [16]byte
	msg[0], msg[1], msg[15] = byte(seq), byte(seq>>8), byte(ev.Wallet)
	err := tbtc.VerifC36HeartbeatExecute(
		&fakeChain{stake: ev.Stake, valid: ev.Valid}, pub, sign,
		&tbtc.HeartbeatProposal{Message: msg}, counter, claim, 100, ev.Expiry, wait)
	obs.Err = classify(err)
	if err != nil {
		obs.ErrText = err.Error()
	}
	mu.Lock()
	obs.WaitBlocks = append([]int64{}, obs.WaitBlocks...)
	mu.Unlock()
	return obs
}

func coqInput(ev event) string {
	stake := map[string]string{"err": "StErr", "unreg": "StUnreg", "eligerr": "StEligErr", "zero": "StZero", "pos": "StPos"}[ev.Stake]
	sign := "SgErr"
	if !ev.SignErr {
		ms := make([]uint64, len(ev.Inactive))
		for i, m := range ev.Inactive {
			ms[i] = uint64(m)
		}
		sign = fmt.Sprintf("(SgOk %s %s)", lib.Z(int64(ev.Active)), lib.ListN(ms))
	}
	return fmt.Sprintf("{| i_wallet := %s; i_stake := %s; i_valid := %s; i_expiry := %s; i_sign := %s; i_claim_fails := %s |}",
		fmt.Sprintf("k%d", ev.Wallet), stake, lib.Bool(ev.Valid), lib.ZU(ev.Expiry), sign, lib.Bool(ev.ClaimFails))
}

func coqOutput(o observed) string {
	claim := "None"
	if o.Claimed {
		ms := make([]uint64, len(o.Members))
		for i, m := range o.Members {
			ms[i] = uint64(m)
		}
		claim = lib.Some(lib.Pair(lib.ListN(ms), lib.Bool(o.Flag)))
	}
	return fmt.Sprintf("{| o_signed := %s; o_claim := %s; o_err := %s; o_count := %s |}",
		lib.Bool(o.Signed), claim, o.Err, lib.ZU(uint64(o.Count)))
}

func run(in input, em *lib.Emitter, id string) {
	counter := tbtc.VerifC36NewCounter()
	events := in.Events
	keys, err := resolveKeys(in)
	if err != nil {
		fmt.Fprintln(os.Stderr, err)
		os.Exit(2)
	}
	outs := make([]observed, len(events))
	ident := func(slot int) string { return keys[slot].fullKey().Text(16) }
	if in.Concurrent {
		// one goroutine per wallet (= per distinct FULL key: two slots holding the same key are one
		// wallet, whose heartbeats do not overlap), all sharing the counter; the case lists the
		// events wallet by wallet (any order keeping each wallet's own order is equivalent:
		// Props wallets_independent)
		byWallet := map[string][]int{}
		var order []string
		for i, ev := range events {
			w := ident(ev.Wallet)
			if _, ok := byWallet[w]; !ok {
				order = append(order, w)
			}
			byWallet[w] = append(byWallet[w], i)
		}
		var wg sync.WaitGroup
		start := make(chan struct{})
		for _, w := range order {
			wg.Add(1)
			go func(idx []int) {
				defer wg.Done()
				<-start
				for _, i := range idx {
					outs[i] = execOne(counter, keys[events[i].Wallet], events[i], i)
				}
			}(byWallet[w])
		}
		close(start)
		wg.Wait()
		var ne []event
		var no []observed
		for _, w := range order {
			for _, i := range byWallet[w] {
				ne = append(ne, events[i])
				no = append(no, outs[i])
			}
		}
		events, outs = ne, no
	} else {
		for i, ev := range events {
			outs[i] = execOne(counter, keys[ev.Wallet], ev, i)
		}
	}
	ins := make([]string, len(events))
	os_ := make([]string, len(events))
	wallets := map[string]bool{}
	claims, low, succ := 0, 0, 0
	for i := range events {
		ins[i] = coqInput(events[i])
		os_[i] = coqOutput(outs[i])
		wallets[ident(events[i].Wallet)] = true
		if outs[i].Claimed {
			claims++
		}
		reach := events[i].Stake == "pos" && events[i].Valid && events[i].Expiry >= 300 && !events[i].SignErr
		if reach && events[i].Active < 70 {
			low++
		}
		if reach && events[i].Active >= 70 {
			succ++
		}
		em.Tally("out-" + outs[i].Err)
	}
	em.Tally(fmt.Sprintf("wallets-%d", len(wallets)))
	if in.Concurrent {
		em.Tally("mode-concurrent")
	} else {
		em.Tally("mode-sequential")
	}
	if claims > 0 {
		em.Tally("history-with-claim")
	}
	em.Tally(fmt.Sprintf("len-%02d", (len(events)+4)/5*5))
	// the wallets' identities: k<slot> := the integer 04‖X‖Y; how the keys of the history resemble
	// each other (closest relation over all pairs of different keys)
	slots := make([]int, 0, len(keys))
	for slot := range keys {
		slots = append(slots, slot)
	}
	sort.Ints(slots)
	lets := ""
	outKeys := map[string]string{}
	rank := map[string]int{"same-x": 0, "same-y": 1, "x-prefix-3": 2, "x-prefix-2": 3, "y-suffix-3": 4,
		"y-suffix-2": 5, "x-prefix-1": 6, "y-suffix-1": 7, "unrelated": 8}
	closest := "single-wallet"
	pairs := map[string]bool{}
	for a, slot := range slots {
		// (hexadecimal: Coq reads a 520-bit hexadecimal literal three times faster than a decimal one)
		lets += fmt.Sprintf("let k%d := 0x%s%%N in ", slot, ident(slot))
		outKeys[fmt.Sprintf("k%d", slot)] = "0" + ident(slot)
		for _, other := range slots[:a] {
			rel := relationOf(keys[slot], keys[other])
			pairs[rel] = true
			if rel == "same-key" {
				continue
			}
			if r, ok := rank[closest]; !ok || rank[rel] < r {
				closest = rel
			}
		}
	}
	for rel := range pairs {
		em.Tally("keys-pair-" + rel)
	}
	em.Tally("keys-closest-" + closest)
	if in.Family != "" {
		em.Tally("keys-family-" + in.Family)
	}
	coq := fmt.Sprintf("(%s{| c_inputs := %s; c_observed := %s |})", lets, lib.List(ins), lib.List(os_))
	em.Case(lib.Case{
		ID:         id,
		Coq:        coq,
		Key:        lets + strings.Join(ins, ";"),
		Nontrivial: low >= 3 && (succ >= 1 || len(wallets) >= 2),
		Sig:        map[string]interface{}{"concurrent": in.Concurrent, "claims": claims > 0, "keys": closest},
		In:         in,
		Out:        map[string]interface{}{"wallets": outKeys, "steps": outs},
	})
}

// ---- generators
func members(r *lib.Rng, n int) []uint8 {
	p := r.Perm(100)
	out := make([]uint8, n)
	for i := range out {
		out[i] = uint8(p[i] + 1)
	}
	return out
}

func lowEvent(r *lib.Rng, w int) event {
	active := []int{0, 1, 35, 50, 68, 69, 69}[r.Intn(7)]
	var inact []uint8
	switch r.Intn(8) {
	case 0:
		inact = nil // "should not happen": undetermined inactive set
	case 1:
		inact = members(r, r.Range(1, 3))
	default:
		inact = members(r, 100-active)
		if len(inact) > 12 {
			inact = inact[:r.Range(1, 12)]
		}
	}
	return event{Wallet: w, Stake: "pos", Valid: true, Expiry: uint64(r.Range(300, 2000)), Active: active,
		Inactive: inact, ClaimFails: r.Chance(1, 6)}
}

func successEvent(r *lib.Rng, w int) event {
	active := []int{70, 70, 71, 85, 100}[r.Intn(5)]
	return event{Wallet: w, Stake: "pos", Valid: true, Expiry: uint64(r.Range(300, 2000)), Active: active,
		Inactive: members(r, r.Intn(4))}
}

func otherEvent(r *lib.Rng, w int) event {
	e := lowEvent(r, w) // what WOULD happen if signing were reached: a failure
	switch r.Intn(7) {
	case 0:
		e.Stake = "err"
	case 1:
		e.Stake = "unreg"
	case 2:
		e.Stake = "eligerr"
	case 3:
		e.Stake = "zero"
	case 4:
		e.Valid = false
	case 5:
		e.Expiry = uint64([]int{0, 1, 299, 150}[r.Intn(4)])
	default:
		e.SignErr = true
	}
	return e
}

func randomHistory(r *lib.Rng, wallets, n int, pLow, pSucc int) []event {
	evs := make([]event, n)
	for i := range evs {
		w := 1 + r.Intn(wallets)
		x := r.Intn(100)
		switch {
		case x < pLow:
			evs[i] = lowEvent(r, w)
		case x < pLow+pSucc:
			evs[i] = successEvent(r, w)
		default:
			evs[i] = otherEvent(r, w)
		}
	}
	return evs
}

func main() {
	o := lib.ParseOpts()
	em := lib.NewEmitter()
	if o.Replay != "" {
		var in input
		if err := lib.LoadReplay(o.Replay, &in); err != nil {
			fmt.Fprintln(os.Stderr, err)
			os.Exit(2)
		}
		run(in, em, "replay")
		em.Close("replay", nil)
		return
	}
	rng := lib.NewRng(o.Seed)
	if err := selfCheckKeys(); err != nil {
		fmt.Fprintln(os.Stderr, err)
		os.Exit(2)
	}
	pool := newKeyPool(rng.Fork("keypool"), o.Count(1500, 12000))

	low := func(w int, inact ...uint8) event {
		return event{Wallet: w, Stake: "pos", Valid: true, Expiry: 1000, Active: 69, Inactive: inact}
	}
	ok := func(w int) event {
		return event{Wallet: w, Stake: "pos", Valid: true, Expiry: 1000, Active: 70, Inactive: []uint8{9}}
	}
	with := func(e event, f func(*event)) event { f(&e); return e }
	// --- corpus
	run(input{Events: []event{low(1, 5), low(1, 5), low(1, 5, 6), low(1, 7)}}, em, "corpus-third-and-fourth-failure-claim")
	run(input{Events: []event{low(1, 5), low(1, 5), ok(1), low(1, 5), low(1, 5), low(1, 5)}}, em, "corpus-success-resets")
	run(input{Events: []event{low(1, 5), low(2, 5), low(1, 5), low(2, 5), low(3, 1), low(1, 4), low(2, 8)}}, em, "corpus-wallets-interleaved")
	run(input{Events: []event{low(1, 5), low(1, 5), low(1), low(1, 3)}}, em, "corpus-empty-inactive-set")
	run(input{Events: []event{low(1, 5), with(low(1, 5), func(e *event) { e.SignErr = true }), low(1, 5),
		with(low(1, 5), func(e *event) { e.Stake = "zero" }), with(low(1, 5), func(e *event) { e.Valid = false }),
		with(low(1, 5), func(e *event) { e.Expiry = 299 }), low(1, 5)}}, em, "corpus-non-failures-do-not-count-or-reset")
	run(input{Events: []event{low(1, 5), low(1, 5), with(low(1, 5), func(e *event) { e.ClaimFails = true }), low(1, 2)}}, em, "corpus-claim-error")
	run(input{Concurrent: true, Events: []event{low(1, 5), low(2, 5), low(1, 5), low(2, 5), low(1, 4), low(2, 8), ok(1), low(2, 1)}}, em, "corpus-concurrent-wallets")
	// wallets whose keys resemble each other (fixed scalars; P = d*G):
	//   A low, B low, A low            => nobody is accused (A's run is two, B's is one)
	//   A low, A low, B success, A low => A is accused on its third (B's success is not A's)
	//   B low, B low, A low, A low, A success, B low => B is accused (A's success is not B's)
	cd, _ := new(big.Int).SetString("c36b0000000000000000000000000000000000000000000000000000000001d7", 16)
	xp := pool.related(rng.Fork("corpus-xprefix"), &pool.xprefix, sameXPrefix)
	ys := pool.related(rng.Fork("corpus-ysuffix"), &pool.ysuffix, sameYSuffix)
	pairsOf := []struct {
		name string
		keys []string
	}{
		{"neg", []string{scalarHex(cd), scalarHex(negS(cd))}},
		{"samey", []string{scalarHex(cd), scalarHex(mulL(cd))}},
		{"samey2", []string{scalarHex(mulL(mulL(cd))), scalarHex(cd)}},
		{"xprefix", []string{scalarHex(pool.pts[xp[0]].d), scalarHex(pool.pts[xp[1]].d)}},
		{"ysuffix", []string{scalarHex(pool.pts[ys[0]].d), scalarHex(pool.pts[ys[1]].d)}},
	}
	for _, pk := range pairsOf {
		for _, conc := range []bool{false, true} {
			mode := "seq"
			if conc {
				mode = "conc"
			}
			if !conc {
				run(input{Keys: pk.keys, Family: pk.name, Events: []event{low(1, 5), low(2, 6), low(1, 5)}},
					em, "corpus-keys-"+pk.name+"-no-claim-from-the-other-wallets-run")
			}
			run(input{Concurrent: conc, Keys: pk.keys, Family: pk.name, Events: []event{low(1, 5), low(1, 5), ok(2), low(1, 5)}},
				em, "corpus-keys-"+pk.name+"-"+mode+"-success-of-the-other-wallet-does-not-reset")
			run(input{Concurrent: conc, Keys: pk.keys, Family: pk.name, Events: []event{low(2, 6), low(2, 6), low(1, 5), low(1, 5), ok(1), low(2, 6)}},
				em, "corpus-keys-"+pk.name+"-"+mode+"-claim-for-the-wallet-that-failed-thrice")
		}
	}
	// the same key in two slots (two different *ecdsa.PublicKey objects) is ONE wallet
	run(input{Keys: []string{scalarHex(cd), scalarHex(cd)}, Family: "dup", Events: []event{low(1, 5), low(2, 5), low(1, 5), ok(2), low(1, 5)}},
		em, "corpus-keys-dup-one-wallet")

	// --- exhaustive small scope: ONE wallet, alphabet of 6 outcomes, every history of length <= L;
	//     TWO wallets, alphabet {low, success} x wallet, every history of length <= L2
	alpha := []func(w int) event{
		func(w int) event { return low(w, 5, 2) },
		func(w int) event { return low(w) },
		ok,
		func(w int) event { return with(low(w, 5), func(e *event) { e.SignErr = true }) },
		func(w int) event { return with(low(w, 5), func(e *event) { e.Stake = "zero" }) },
		func(w int) event { return with(low(w, 5), func(e *event) { e.Valid = false }) },
	}
	L := 4
	if o.Tier != "quick" {
		L = 6
	}
	var enum func(prefix []event, depth int)
	count := 0
	enum = func(prefix []event, depth int) {
		if len(prefix) == depth {
			count++
			run(input{Events: append([]event{}, prefix...)}, em, fmt.Sprintf("enum1-%d-%d", depth, count))
			return
		}
		for _, a := range alpha {
			enum(append(prefix, a(1)), depth)
		}
	}
	for d := 3; d <= L; d++ {
		enum(nil, d)
	}
	alpha2 := []func() event{
		func() event { return low(1, 5) }, func() event { return low(2, 6) },
		func() event { return ok(1) }, func() event { return ok(2) },
	}
	L2 := 5
	if o.Tier != "quick" {
		L2 = 7
	}
	// every two-wallet history runs on a pair of RELATED keys; the family is drawn per history
	pairKinds := []string{"neg", "neg", "samey", "xprefix", "ysuffix", "orbit", "plain"}
	var enum2 func(prefix []event)
	enum2 = func(prefix []event) {
		if len(prefix) == L2 {
			count++
			r := rng.Fork(fmt.Sprintf("enum2-%d", count))
			kind := pairKinds[r.Intn(len(pairKinds))]
			run(input{Keys: keyFamily(r, pool, kind, 2), Family: kind, Events: append([]event{}, prefix...)},
				em, fmt.Sprintf("enum2-%d", count))
			return
		}
		for _, a := range alpha2 {
			enum2(append(prefix, a()))
		}
	}
	enum2(nil)

	// --- random histories over 1..5 wallets whose keys come from one family
	n := o.Count(400, 6000)
	for i := 0; i < n; i++ {
		r := rng.Fork(fmt.Sprintf("rand%d", i))
		wallets := r.Range(1, 5)
		length := r.Range(3, 40)
		pLow := []int{40, 60, 75, 90}[r.Intn(4)]
		pSucc := []int{5, 10, 20}[r.Intn(3)]
		if pLow+pSucc > 100 {
			pSucc = 100 - pLow
		}
		kind := keyKinds[r.Intn(len(keyKinds))]
		conc := r.Chance(1, 3)
		run(input{Concurrent: conc, Keys: keyFamily(r, pool, kind, wallets), Family: kind,
			Events: randomHistory(r, wallets, length, pLow, pSucc)}, em, fmt.Sprintf("rand-%d", i))
	}
	em.Close("a case is one history of heartbeat executions over wallets sharing one failure counter, each event "+
		"run through the real heartbeatAction.execute; wallets are identified by their full public key and their keys "+
		"come from a family of related keys (P/-P, same Y, shared X-prefix / Y-suffix bytes, same key twice, unrelated); "+
		"distinct by the keys and the full list of event inputs; non-trivial when "+
		"the history has >= 3 low-activity heartbeats and (a success or >= 2 wallets)", nil)
}
