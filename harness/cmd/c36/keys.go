// Wallet keys for C36 histories.  The failure counter is a map keyed by the hex form of the
// wallet's FULL uncompressed public key (04‖X‖Y, what heartbeatAction.execute derives with
// marshalPublicKey + hex.EncodeToString), so how SIMILAR the keys of the wallets sharing one
// counter are is a generator dimension of its own: a counter that keys on less than the whole
// key (a truncated prefix, one coordinate, a suffix) conflates exactly such wallets and nobody
// else.  Families of related keys generated here (all are valid curve points — elliptic.Marshal
// panics on anything else, so arbitrary key bytes cannot reach the counter, and execute() never
// produces the compressed form):
//
//	neg      P and −P           same X, Y' = p − Y        (scalars d, n − d)
//	samey    P, λP, λ²P         same Y, X' = βX, β²X      (secp256k1 endomorphism, scalars d·λ)
//	orbit    ±P, ±λP, ±λ²P      every pair shares X or Y or neither
//	xprefix  keys whose X start with the same 1..3 bytes   (birthday search in a pool)
//	ysuffix  keys whose Y end with the same 1..3 bytes     (same pool)
//	mixed    P, −P, Q, −Q, λP   with Q sharing X-prefix bytes with P
//	dup      the SAME key in two wallet slots (two distinct *ecdsa.PublicKey objects): one wallet
//	plain    unrelated random keys
package main

import (
	"crypto/ecdsa"
	"encoding/hex"
	"fmt"
	"math/big"
	"sort"

	"github.com/keep-network/keep-core/pkg/tecdsa"

	"verifharness/lib"
)

var curveN = tecdsa.Curve.Params().N

// λ of the secp256k1 endomorphism: λ·(x, y) = (β·x, y); checked by selfCheckKeys.
var lambda, _ = new(big.Int).SetString("5363ad4cc05c30e0a5261c028812645a122e22ea20816678df02967c1b23bd72", 16)

type keyPoint struct {
	d    *big.Int
	x, y *big.Int
	xb   [32]byte
	yb   [32]byte
}

func pointOf(d *big.Int) *keyPoint {
	x, y := tecdsa.Curve.ScalarBaseMult(d.Bytes())
	k := &keyPoint{d: d, x: x, y: y}
	x.FillBytes(k.xb[:])
	y.FillBytes(k.yb[:])
	return k
}

// fullKey is the wallet's identity in the Coq model: the integer value of 04‖X‖Y, computed here
// from the coordinates (not through the repository's marshalPublicKey).
func (k *keyPoint) fullKey() *big.Int {
	b := make([]byte, 0, 65)
	b = append(b, 4)
	b = append(b, k.xb[:]...)
	b = append(b, k.yb[:]...)
	return new(big.Int).SetBytes(b)
}

// a FRESH *ecdsa.PublicKey object with fresh big.Ints on every call (wallets are compared by key
// value, never by pointer)
func (k *keyPoint) pub() *ecdsa.PublicKey {
	return &ecdsa.PublicKey{Curve: tecdsa.Curve, X: new(big.Int).Set(k.x), Y: new(big.Int).Set(k.y)}
}

func scalarHex(d *big.Int) string { return hex.EncodeToString(d.Bytes()) }

func scalarFromHex(s string) (*big.Int, error) {
	d, ok := new(big.Int).SetString(s, 16)
	if !ok || d.Sign() <= 0 || d.Cmp(curveN) >= 0 {
		return nil, fmt.Errorf("bad wallet scalar %q", s)
	}
	return d, nil
}

func randScalar(r *lib.Rng) *big.Int {
	for {
		d := new(big.Int).SetBytes(r.Bytes(32))
		d.Mod(d, curveN)
		if d.Sign() > 0 {
			return d
		}
	}
}

func negS(d *big.Int) *big.Int { return new(big.Int).Sub(curveN, d) }
func mulL(d *big.Int) *big.Int { return new(big.Int).Mod(new(big.Int).Mul(d, lambda), curveN) }

// selfCheckKeys makes sure the relations the families are named after really hold.
func selfCheckKeys() error {
	d := big.NewInt(1234567)
	p, n, l := pointOf(d), pointOf(negS(d)), pointOf(mulL(d))
	if p.x.Cmp(n.x) != 0 || p.y.Cmp(n.y) == 0 {
		return fmt.Errorf("key self-check: -P does not share X with P")
	}
	if p.y.Cmp(l.y) != 0 || p.x.Cmp(l.x) == 0 {
		return fmt.Errorf("key self-check: lambda*P does not share Y with P")
	}
	return nil
}

// ---- pool for the birthday search of shared prefixes / suffixes
type keyPool struct {
	pts     []*keyPoint
	xprefix [4][][]int // [L] = groups (>= 2 members) sharing the first L bytes of X, L = 1..3
	ysuffix [4][][]int // [L] = groups sharing the last L bytes of Y
}

func groupsBy(pts []*keyPoint, key func(*keyPoint) string) [][]int {
	m := map[string][]int{}
	for i, p := range pts {
		k := key(p)
		m[k] = append(m[k], i)
	}
	keys := make([]string, 0, len(m))
	for k, g := range m {
		if len(g) >= 2 {
			keys = append(keys, k)
		}
	}
	sort.Strings(keys)
	out := make([][]int, len(keys))
	for i, k := range keys {
		out[i] = m[k]
	}
	return out
}

func newKeyPool(r *lib.Rng, size int) *keyPool {
	kp := &keyPool{pts: make([]*keyPoint, size)}
	for i := range kp.pts {
		kp.pts[i] = pointOf(randScalar(r))
	}
	for l := 1; l <= 3; l++ {
		l := l
		kp.xprefix[l] = groupsBy(kp.pts, func(p *keyPoint) string { return string(p.xb[:l]) })
		kp.ysuffix[l] = groupsBy(kp.pts, func(p *keyPoint) string { return string(p.yb[32-l:]) })
	}
	return kp
}

// related picks, longest shared run first, a group of pool keys sharing X-prefix (or Y-suffix)
// bytes, and returns its members followed by the members of the enclosing shorter-run groups.
func (kp *keyPool) related(r *lib.Rng, groups *[4][][]int, same func(a, b *keyPoint, l int) bool) []int {
	var out []int
	seen := map[int]bool{}
	add := func(g []int) {
		for _, i := range g {
			if !seen[i] {
				seen[i] = true
				out = append(out, i)
			}
		}
	}
	for l := 3; l >= 1; l-- {
		gs := groups[l]
		if len(gs) == 0 {
			continue
		}
		if len(out) == 0 {
			add(gs[r.Intn(len(gs))])
			continue
		}
		for _, g := range gs {
			if same(kp.pts[g[0]], kp.pts[out[0]], l) {
				add(g)
			}
		}
	}
	return out
}

func sameXPrefix(a, b *keyPoint, l int) bool { return string(a.xb[:l]) == string(b.xb[:l]) }
func sameYSuffix(a, b *keyPoint, l int) bool { return string(a.yb[32-l:]) == string(b.yb[32-l:]) }

var keyKinds = []string{"neg", "samey", "orbit", "xprefix", "ysuffix", "mixed", "dup", "plain"}

// keyFamily returns the private scalars (hex) of wallets 1..w for the given family, in a
// shuffled slot order; slots the family cannot fill get unrelated random keys.
func keyFamily(r *lib.Rng, kp *keyPool, kind string, w int) []string {
	var ds []*big.Int
	d := randScalar(r)
	switch kind {
	case "neg":
		ds = []*big.Int{d, negS(d)}
	case "dup":
		ds = []*big.Int{d, new(big.Int).Set(d), negS(d)}
	case "samey":
		ds = []*big.Int{d, mulL(d), mulL(mulL(d))}
	case "orbit":
		l1, l2 := mulL(d), mulL(mulL(d))
		ds = []*big.Int{d, negS(d), l1, negS(l1), l2, negS(l2)}
		p := r.Perm(len(ds))
		sh := make([]*big.Int, len(ds))
		for i, j := range p {
			sh[i] = ds[j]
		}
		ds = sh
	case "xprefix":
		for _, i := range kp.related(r, &kp.xprefix, sameXPrefix) {
			ds = append(ds, kp.pts[i].d)
		}
	case "ysuffix":
		for _, i := range kp.related(r, &kp.ysuffix, sameYSuffix) {
			ds = append(ds, kp.pts[i].d)
		}
	case "mixed":
		rel := kp.related(r, &kp.xprefix, sameXPrefix)
		if len(rel) >= 2 {
			p, q := kp.pts[rel[0]].d, kp.pts[rel[1]].d
			ds = []*big.Int{p, negS(p), q, negS(q), mulL(p)}
		} else {
			ds = []*big.Int{d, negS(d), mulL(d)}
		}
	}
	if len(ds) > w {
		ds = ds[:w]
	}
	for len(ds) < w {
		ds = append(ds, randScalar(r))
	}
	p := r.Perm(w)
	out := make([]string, w)
	for i, j := range p {
		out[j] = scalarHex(ds[i])
	}
	return out
}

// relationOf names how two different keys resemble each other (for the distribution tallies).
func relationOf(a, b *keyPoint) string {
	switch {
	case a.x.Cmp(b.x) == 0 && a.y.Cmp(b.y) == 0:
		return "same-key"
	case a.x.Cmp(b.x) == 0:
		return "same-x"
	case a.y.Cmp(b.y) == 0:
		return "same-y"
	}
	for l := 3; l >= 1; l-- {
		if sameXPrefix(a, b, l) {
			return fmt.Sprintf("x-prefix-%d", l)
		}
	}
	for l := 3; l >= 1; l-- {
		if sameYSuffix(a, b, l) {
			return fmt.Sprintf("y-suffix-%d", l)
		}
	}
	return "unrelated"
}
