// "The validator has no memory": histories of validations on ONE shared MembershipValidator and
// histories of messages delivered to ONE receiving state (or to the states of all the seats of a
// multi-seat operator, which share one validator, as in every protocol step of keep-core).
//
// Modes
//
//	fresh      every call gets a freshly allocated sender key slice                (deterministic)
//	reused     ONE byte buffer, overwritten in place with the next sender's key    (deterministic)
//	mutated    fresh slice per call, overwritten by the caller after the call      (deterministic)
//	concurrent k goroutines, each validating its own fixed (key, index) pair many times on the
//	           shared validator / each feeding the same message stream to the state of one local seat.
//	           Schedule dependent: nothing is decided from timing; a run in which no interleaving
//	           manifests is simply Agree.  It validates the assumption that one call is one atomic
//	           step of the object, probabilistically.
//
// Every single answer must be the pure function valid_membership of the model.
package main

import (
	"fmt"
	"sync"

	"github.com/keep-network/keep-core/pkg/beacon/gjkr"
	"github.com/keep-network/keep-core/pkg/chain"
	"github.com/keep-network/keep-core/pkg/protocol/group"

	"verifharness/cmd/c12/fk"
	"verifharness/lib"
)

type vcallIn struct {
	Idx         int  `json:"idx"`
	Key         int  `json:"key"`
	SameSession bool `json:"same_session,omitempty"` // message histories only
}

type histInput struct {
	Kind  string    `json:"kind"` // validator | state
	Mode  string    `json:"mode"` // fresh | reused | mutated | concurrent
	Ops   []int     `json:"ops"`
	Calls []vcallIn `json:"calls"` // sequential: in call order; concurrent validator: one per goroutine
	Iters int       `json:"iters"` // concurrent validator: calls per goroutine
	// message histories
	Step      string `json:"step,omitempty"`
	Seats     []int  `json:"seats,omitempty"` // receivers; more than one only in concurrent mode (all seats of one operator)
	Threshold int    `json:"threshold,omitempty"`
	IA        []int  `json:"ia,omitempty"`
	DQ        []int  `json:"dq,omitempty"`
}

func opAddrs(ops []int) []chain.Address {
	addrs := make([]chain.Address, len(ops))
	for i, o := range ops {
		addrs[i] = fk.Addr(o)
	}
	return addrs
}

// keyFeeder hands out the sender key slice of call i according to the mode and performs the
// caller-side overwrite after the call.
type keyFeeder struct {
	mode  string
	calls []vcallIn
	buf   []byte
}

func (f *keyFeeder) key(i int) []byte {
	k := fk.KeyBytes(f.calls[i].Key)
	if f.mode == "reused" {
		if f.buf == nil {
			f.buf = make([]byte, len(k))
		}
		copy(f.buf, k)
		return f.buf
	}
	return k
}

func (f *keyFeeder) after(i int, k []byte) {
	if f.mode != "mutated" {
		return
	}
	// the caller recycles the slice: it now holds the key of the next sender (zeroes at the end)
	if i+1 < len(f.calls) {
		copy(k, fk.KeyBytes(f.calls[i+1].Key))
	} else {
		for j := range k {
			k[j] = 0
		}
	}
}

// execValidator runs the history on one validator: acc[i] / rej[i] = number of true / false answers
// of entry i.
func execValidator(h histInput) (acc, rej []int, detail string) {
	acc, rej = make([]int, len(h.Calls)), make([]int, len(h.Calls))
	validator := group.NewMembershipValidator(fk.Logger, opAddrs(h.Ops), &fk.Signer{Self: h.Ops[0]})
	if h.Mode != "concurrent" {
		defer func() {
			if r := recover(); r != nil {
				detail = fmt.Sprintf("panic: %v", r)
				for i := range acc {
					acc[i], rej[i] = 0, 0
				}
			}
		}()
		f := &keyFeeder{mode: h.Mode, calls: h.Calls}
		for i, c := range h.Calls {
			k := f.key(i)
			if validator.IsValidMembership(group.MemberIndex(c.Idx), k) {
				acc[i]++
			} else {
				rej[i]++
			}
			f.after(i, k)
		}
		return
	}
	var wg sync.WaitGroup
	var mu sync.Mutex
	start := make(chan struct{})
	for g, c := range h.Calls {
		wg.Add(1)
		go func(g int, c vcallIn) {
			defer wg.Done()
			a, r := 0, 0
			defer func() {
				if p := recover(); p != nil {
					mu.Lock()
					detail = fmt.Sprintf("panic in goroutine %d: %v", g, p)
					mu.Unlock()
					a, r = 0, 0
				}
				acc[g], rej[g] = a, r
			}()
			key := fk.KeyBytes(c.Key) // the goroutine's own slice, never written again
			idx := group.MemberIndex(c.Idx)
			<-start
			for i := 0; i < h.Iters; i++ {
				if validator.IsValidMembership(idx, key) {
					a++
				} else {
					r++
				}
			}
		}(g, c)
	}
	close(start)
	wg.Wait()
	return
}

// execState delivers the message history to the state of every seat in h.Seats (one shared
// validator): out[s][i] = what seat s did with message i.
func execState(h histInput) (out [][]string, detail string) {
	st := siteOf(h.Step)
	n := len(h.Ops)
	out = make([][]string, len(h.Seats))
	if st == nil || st.Pkg != "gjkr" {
		return out, "message histories are driven through the gjkr states only"
	}
	validator := group.NewMembershipValidator(fk.Logger, opAddrs(h.Ops), &fk.Signer{Self: h.Ops[h.Seats[0]-1]})
	probes := make([]*gjkr.VerifC12Probe, len(h.Seats))
	in := input{IA: h.IA, DQ: h.DQ}
	for s, seat := range h.Seats {
		p, err := gjkr.VerifC12NewProbe(st.Idx, fk.Logger, group.MemberIndex(seat), n, h.Threshold, validator, sessionStr(sessSame))
		if err != nil {
			return out, err.Error()
		}
		markGroup(p.Group, in)
		probes[s] = p
	}
	payload := func(c vcallIn) interface{} {
		sess := sessSame
		if !c.SameSession {
			sess = sessOther
		}
		return gjkr.VerifC12NewMessage(st.Idx, group.MemberIndex(c.Idx), sessionStr(sess))
	}
	deliver := func(s int, m *fk.Msg) string {
		p := probes[s]
		before := p.VerifC12Stored(st.Idx)
		if err := p.State.Receive(m); err != nil {
			return "Malformed"
		}
		if p.VerifC12Stored(st.Idx) == before+1 {
			return "Stored"
		}
		return "Ignored"
	}
	if h.Mode != "concurrent" {
		defer func() {
			if r := recover(); r != nil {
				detail = fmt.Sprintf("panic: %v", r)
				out[0] = nil
			}
		}()
		f := &keyFeeder{mode: h.Mode, calls: h.Calls}
		for i, c := range h.Calls {
			k := f.key(i)
			out[0] = append(out[0], deliver(0, &fk.Msg{Key: k, P: payload(c)}))
			f.after(i, k)
		}
		return
	}
	// the network layer hands the same message object to the handler of every local member
	msgs := make([]*fk.Msg, len(h.Calls))
	for i, c := range h.Calls {
		msgs[i] = &fk.Msg{Key: fk.KeyBytes(c.Key), P: payload(c)}
	}
	var wg sync.WaitGroup
	var mu sync.Mutex
	start := make(chan struct{})
	for s := range h.Seats {
		wg.Add(1)
		go func(s int) {
			defer wg.Done()
			var o []string
			defer func() {
				if p := recover(); p != nil {
					mu.Lock()
					detail = fmt.Sprintf("panic at seat %d: %v", h.Seats[s], p)
					mu.Unlock()
					o = nil
				}
				out[s] = o
			}()
			<-start
			for _, m := range msgs {
				o = append(o, deliver(s, m))
			}
		}(s)
	}
	close(start)
	wg.Wait()
	return
}

func addrTable(ops []int, calls []vcallIn) (string, map[int]int) {
	signer := &fk.Signer{Self: ops[0]}
	ids := append(append([]int{}, ops...), fk.Outsider)
	seen := map[int]int{}
	var items []string
	for _, c := range calls {
		if _, ok := seen[c.Key]; ok {
			continue
		}
		a := fk.AddrID(signer.PublicKeyBytesToAddress(fk.KeyBytes(c.Key)), append(ids, c.Key))
		if a == 0 {
			a = 9999
		}
		seen[c.Key] = a
		items = append(items, lib.Pair(lib.N(uint64(c.Key)), lib.N(uint64(a))))
	}
	return lib.List(items), seen
}

func holds(ops []int, idx, addr int) bool {
	return idx >= 1 && idx <= len(ops) && ops[idx-1] == addr
}

func runHist(h histInput, em *lib.Emitter, id string) {
	bad := func(why string) {
		em.Case(lib.Case{ID: id, Coq: "(CSites 1%N 0%N)", Key: "bad-input-" + id, In: input{Hist: &h}, Out: why})
	}
	if len(h.Ops) == 0 || len(h.Calls) == 0 {
		bad("empty history")
		return
	}
	tab, addrOf := addrTable(h.Ops, h.Calls)
	distinctKeys := len(addrOf)
	refusals, foreignAccepted := 0, 0
	for _, c := range h.Calls {
		if !holds(h.Ops, c.Idx, addrOf[c.Key]) {
			refusals++
		}
	}
	em.Tally("hist-" + h.Kind + "-" + h.Mode)

	if h.Kind == "validator" {
		acc, rej, detail := execValidator(h)
		var items []string
		for i, c := range h.Calls {
			items = append(items, fmt.Sprintf("{| v_idx := %s; v_key := %s; v_acc := %s; v_rej := %s |}",
				lib.N(uint64(c.Idx)), lib.N(uint64(c.Key)), lib.N(uint64(acc[i])), lib.N(uint64(rej[i]))))
			if acc[i] > 0 && !holds(h.Ops, c.Idx, addrOf[c.Key]) {
				foreignAccepted++
			}
		}
		coq := fmt.Sprintf("(CHist {| h_conc := %s; h_ops := %s; h_tab := %s; h_calls := %s |})",
			lib.Bool(h.Mode == "concurrent"), nl(h.Ops), tab, lib.List(items))
		em.Case(lib.Case{
			ID: id, Coq: coq, Key: fmt.Sprintf("%+v", h),
			Nontrivial: refusals > 0 && distinctKeys > 1,
			Sig: map[string]interface{}{"step": "validator-history", "kind": h.Mode, "calls": len(h.Calls),
				"foreign_index_accepted": foreignAccepted > 0},
			In:  input{Hist: &h},
			Out: map[string]interface{}{"accepted": acc, "rejected": rej, "detail": detail},
		})
		return
	}

	// message histories
	st := siteOf(h.Step)
	if st == nil || len(h.Seats) == 0 {
		bad("bad message history")
		return
	}
	for _, s := range h.Seats {
		if s < 1 || s > len(h.Ops) {
			bad("bad seat")
			return
		}
	}
	out, detail := execState(h)
	for s, seat := range h.Seats {
		var items []string
		accepted := 0
		for i, c := range h.Calls {
			sess := sessSame
			if !c.SameSession {
				sess = sessOther
			}
			o := "Malformed"
			if i < len(out[s]) {
				o = out[s][i]
			}
			if o == "Stored" && !holds(h.Ops, c.Idx, addrOf[c.Key]) {
				accepted++
			}
			items = append(items, fmt.Sprintf("({| m_idx := %s; m_key := %s; m_pay := (PPlain %s) |}, %s)",
				lib.N(uint64(c.Idx)), lib.N(uint64(c.Key)), lib.N(uint64(sess)), o))
		}
		coq := fmt.Sprintf("(CRun {| r_step := %s; r_ctx := {| x_self := %s; x_ops := %s; "+
			"x_grp := {| g_size := %s; g_ia := %s; g_dq := %s |}; x_session := %s; x_protocol := 0%%N; "+
			"x_leader := 0%%N; x_allowed := []; x_timeout := 0%%N; x_done := []; x_attempt := [] |}; "+
			"r_tab := %s; r_msgs := %s |})",
			h.Step, nl([]int{seat}), nl(h.Ops), lib.N(uint64(len(h.Ops))), nl(h.IA), nl(h.DQ),
			lib.N(uint64(sessSame)), tab, lib.List(items))
		cid := id
		if len(h.Seats) > 1 {
			cid = fmt.Sprintf("%s-seat%d", id, seat)
		}
		em.Case(lib.Case{
			ID: cid, Coq: coq, Key: fmt.Sprintf("%+v seat %d", h, seat),
			Nontrivial: refusals > 0 && distinctKeys > 1,
			Sig: map[string]interface{}{"step": h.Step, "kind": "state-history-" + h.Mode, "calls": len(h.Calls),
				"foreign_index_accepted": accepted > 0},
			In:  input{Hist: &h},
			Out: map[string]interface{}{"seat": seat, "outcomes": out[s], "detail": detail},
		})
	}
}

// ---------------------------------------------------------------- generation

var seqModes = []string{"fresh", "reused", "mutated"}

// randomCalls: a history biased towards what a validator with a memory would get wrong: the same
// index claimed by consecutive different keys, the same key claiming consecutive different indexes,
// the owner right before / after a spoofer.
func randomCalls(r *lib.Rng, ops []int, length int) []vcallIn {
	n := len(ops)
	keys := append(distinct(ops), fk.Outsider)
	pickIdx := func() int {
		switch r.Intn(8) {
		case 0:
			return []int{0, 255, n + 1}[r.Intn(3)]
		}
		return r.Range(1, n)
	}
	var calls []vcallIn
	for len(calls) < length {
		c := vcallIn{Idx: pickIdx(), Key: keys[r.Intn(len(keys))], SameSession: !r.Chance(1, 8)}
		if len(calls) > 0 {
			prev := calls[len(calls)-1]
			switch r.Intn(6) {
			case 0, 1: // same claimed index, another key
				c.Idx = prev.Idx
			case 2: // same key, another index
				c.Key = prev.Key
			case 3: // the owner of the index claimed before
				c.Idx = prev.Idx
				if prev.Idx >= 1 && prev.Idx <= n {
					c.Key = ops[prev.Idx-1]
				}
			}
		} else if r.Chance(2, 3) && c.Idx >= 1 && c.Idx <= n {
			c.Key = ops[c.Idx-1] // start with a genuine message
		}
		calls = append(calls, c)
	}
	return calls
}

func randomOps(r *lib.Rng) []int {
	n := r.Range(2, 8)
	if r.Chance(1, 10) {
		n = r.Range(9, 40)
	}
	nOps := r.Range(2, n)
	ops := make([]int, n)
	for j := range ops {
		ops[j] = 1 + r.Intn(nOps)
	}
	if len(distinct(ops)) < 2 {
		ops[n-1] = ops[0] + 1
	}
	return ops
}

func histories(o lib.Opts, rng *lib.Rng, em *lib.Emitter) {
	// --- corpus: the two shapes a validator with a memory gets wrong
	{
		ops := []int{1, 2, 3}
		for _, mode := range seqModes {
			runHist(histInput{Kind: "validator", Mode: mode, Ops: ops,
				Calls: []vcallIn{{Idx: 1, Key: 1}, {Idx: 1, Key: 2}}}, em, "corpus-hist-owner-then-spoofer-"+mode)
			runHist(histInput{Kind: "validator", Mode: mode, Ops: ops,
				Calls: []vcallIn{{Idx: 1, Key: 2}, {Idx: 1, Key: 1}, {Idx: 2, Key: 2}, {Idx: 2, Key: 1}}}, em,
				"corpus-hist-spoofer-then-owner-"+mode)
		}
	}

	// --- exhaustive small scope: every history of two validations over a 4-seat group with a
	// two-seat operator, claimed index in {0,1,2,3,5}, key in {three operators, outsider}; every mode
	{
		cfgs := [][]int{{1, 2, 2, 3}, {2, 1, 3, 1}, {1, 1, 2, 3}}
		ops := cfgs[int(o.Seed)%len(cfgs)]
		keys := append(distinct(ops), fk.Outsider)
		idxs := []int{0, 1, 2, 3, 5}
		if o.Tier != "quick" {
			idxs = []int{0, 1, 2, 3, 4, 5, 255}
		}
		var alphabet []vcallIn
		for _, i := range idxs {
			for _, k := range keys {
				alphabet = append(alphabet, vcallIn{Idx: i, Key: k})
			}
		}
		for _, mode := range seqModes {
			for a, c1 := range alphabet {
				for b, c2 := range alphabet {
					if o.Tier == "quick" && mode == "fresh" && (a+b)%2 == 1 {
						continue // fresh slices: half of the pairs in the quick tier
					}
					runHist(histInput{Kind: "validator", Mode: mode, Ops: ops, Calls: []vcallIn{c1, c2}}, em,
						fmt.Sprintf("exh-hist-%s-%d-%d", mode, a, b))
				}
			}
		}
	}

	// --- random sequential histories of 3..6 validations
	nSeq := o.Count(360, 6000)
	for i := 0; i < nSeq; i++ {
		r := rng.Fork(fmt.Sprintf("hist%d", i))
		ops := randomOps(r)
		runHist(histInput{Kind: "validator", Mode: seqModes[i%3], Ops: ops,
			Calls: randomCalls(r, ops, r.Range(3, 6))}, em, fmt.Sprintf("hist-%d", i))
	}

	// --- concurrent: k goroutines, each its own fixed (key, index), one shared validator
	nConc := o.Count(32, 200)
	iters := o.Count(100000, 300000)
	for i := 0; i < nConc; i++ {
		r := rng.Fork(fmt.Sprintf("conc%d", i))
		ops := randomOps(r)
		n := len(ops)
		k := r.Range(2, 8)
		var calls []vcallIn
		for g := 0; g < k; g++ {
			seat := r.Range(1, n)
			c := vcallIn{Idx: seat, Key: ops[seat-1]} // a genuine sender
			switch {
			case g%2 == 1: // somebody else claiming the seat of the goroutine before
				c.Idx = calls[g-1].Idx
				owner := 0
				if c.Idx >= 1 && c.Idx <= n {
					owner = ops[c.Idx-1]
				}
				var others []int
				for _, k := range append(distinct(ops), fk.Outsider) {
					if k != owner {
						others = append(others, k)
					}
				}
				c.Key = others[r.Intn(len(others))]
			case r.Chance(1, 6):
				c.Idx = []int{0, 255, n + 1}[r.Intn(3)]
			}
			calls = append(calls, c)
		}
		runHist(histInput{Kind: "validator", Mode: "concurrent", Ops: ops, Calls: calls, Iters: iters}, em,
			fmt.Sprintf("conc-%d", i))
	}

	// --- message histories on one receiving state (gjkr states)
	gjkrSteps := []string{"GjkrEphemeralKey", "GjkrPeerShares", "GjkrCommitments", "GjkrSharesAccusations",
		"GjkrSharePoints", "GjkrPointsAccusations", "GjkrKeyReveal"}
	nState := o.Count(150, 3000)
	for i := 0; i < nState; i++ {
		r := rng.Fork(fmt.Sprintf("state%d", i))
		ops := randomOps(r)
		n := len(ops)
		h := histInput{Kind: "state", Mode: seqModes[i%3], Ops: ops, Step: gjkrSteps[r.Intn(len(gjkrSteps))],
			Seats: []int{r.Range(1, n)}, Threshold: (n - 1) / 2, Calls: randomCalls(r, ops, r.Range(2, 6))}
		if r.Chance(1, 4) {
			h.IA = []int{r.Range(1, n)}
		}
		runHist(h, em, fmt.Sprintf("state-%d", i))
	}
	// --- the states of all the seats of one operator fed the same message stream concurrently
	nStateConc := o.Count(12, 100)
	for i := 0; i < nStateConc; i++ {
		r := rng.Fork(fmt.Sprintf("stateconc%d", i))
		n := r.Range(4, 8)
		local := 1
		ops := make([]int, n)
		for j := range ops {
			ops[j] = 2 + r.Intn(3)
		}
		nLocal := r.Range(2, 4)
		for _, p := range r.Perm(n)[:nLocal] {
			ops[p] = local
		}
		var seats []int
		for j, op := range ops {
			if op == local {
				seats = append(seats, j+1)
			}
		}
		cycle := randomCalls(r, ops, r.Range(2, 5))
		var calls []vcallIn
		for len(calls) < 120 {
			calls = append(calls, cycle...)
		}
		runHist(histInput{Kind: "state", Mode: "concurrent", Ops: ops, Step: gjkrSteps[r.Intn(len(gjkrSteps))],
			Seats: seats, Threshold: (n - 1) / 2, Calls: calls}, em, fmt.Sprintf("stateconc-%d", i))
	}
}
