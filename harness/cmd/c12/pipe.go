// Admission AFTER the production result pipeline (case constructor CPipe): the group object the
// result / claim signing state asks IsOperating is not a freshly marked one but the very object
// that went through result preparation, the way production shares it:
//
//	beacon      NewGroup, MarkMemberAs{Inactive,Disqualified} in the given order, then
//	            convertGjkrResult (what Publish runs), OperatingMemberIndexes (dkg.go),
//	            SigningMember.SignDKGResult, then resultSigningState.Receive on that group;
//	tdkg        the same with Result.MisbehavedMembersIndexes and the tecdsa resultSigningState;
//	inactivity  the claim signing member's own group, the getters, claimSigningState.Receive.
//
// The three exported views of the group (inactive, disqualified, operating) are recorded after the
// marks, after every step that is supposed to only READ the group and after every message.
package main

import (
	"fmt"

	beaconchain "github.com/keep-network/keep-core/pkg/beacon/chain"
	"github.com/keep-network/keep-core/pkg/beacon/dkg/result"
	"github.com/keep-network/keep-core/pkg/beacon/gjkr"
	"github.com/keep-network/keep-core/pkg/chain"
	"github.com/keep-network/keep-core/pkg/protocol/group"
	"github.com/keep-network/keep-core/pkg/protocol/inactivity"
	tdkg "github.com/keep-network/keep-core/pkg/tecdsa/dkg"

	"verifharness/cmd/c12/fk"
	"verifharness/lib"
)

type markIn struct {
	DQ  bool `json:"dq"`
	Idx int  `json:"idx"`
}

type pipeInput struct {
	Pkg       string    `json:"pkg"` // beacon | tdkg | inactivity
	Ops       []int     `json:"ops"`
	Self      int       `json:"self"`
	Threshold int       `json:"threshold"`
	Marks     []markIn  `json:"marks"`
	Steps     []string  `json:"steps"` // convert | operating | sign
	Senders   []vcallIn `json:"senders"`
}

var pipeStep = map[string]string{"beacon": "BeaconResultSigning", "tdkg": "TdkgResultSigning", "inactivity": "InactivityClaimSigning"}

type snapObs struct {
	IA []int `json:"ia"`
	DQ []int `json:"dq"`
	Op []int `json:"operating"`
}

func ints(l []group.MemberIndex) []int {
	r := make([]int, len(l))
	for i, v := range l {
		r[i] = int(v)
	}
	return r
}

func snapOf(g *group.Group) snapObs {
	return snapObs{IA: ints(g.InactiveMemberIndexes()), DQ: ints(g.DisqualifiedMemberIndexes()), Op: ints(g.OperatingMemberIndexes())}
}
func (s snapObs) coq() string {
	return fmt.Sprintf("{| s_ia := %s; s_dq := %s; s_op := %s |}", nl(s.IA), nl(s.DQ), nl(s.Op))
}
func sameInts(a, b []int) bool {
	if len(a) != len(b) {
		return false
	}
	for i := range a {
		if a[i] != b[i] {
			return false
		}
	}
	return true
}
func (s snapObs) same(o snapObs) bool {
	return sameInts(s.IA, o.IA) && sameInts(s.DQ, o.DQ) && sameInts(s.Op, o.Op)
}

// beaconFakeChain: of the beacon chain only the result hash and the signer are used by SignDKGResult
type beaconFakeChain struct {
	beaconchain.Interface
	signer *fk.Signer
}

func (c *beaconFakeChain) Signing() chain.Signing { return c.signer }
func (c *beaconFakeChain) CalculateDKGResultHash(r *beaconchain.DKGResult) (beaconchain.DKGResultHash, error) {
	h := 1
	for _, b := range r.Misbehaved {
		h = (h*31 + int(b)) % 1000
	}
	return beaconchain.DKGResultHash(fk.Hash32(h)), nil
}

type pipeStepObs struct {
	Step string  `json:"step"`
	Out  []int   `json:"out"`
	Snap snapObs `json:"group_after"`
}
type pipeMsgObs struct {
	Outcome string  `json:"outcome"`
	Snap    snapObs `json:"group_after"`
}

func execPipe(p pipeInput) (first snapObs, steps []pipeStepObs, msgs []pipeMsgObs, detail string) {
	defer func() {
		if r := recover(); r != nil {
			detail = fmt.Sprintf("panic: %v", r)
		}
	}()
	n := len(p.Ops)
	self := group.MemberIndex(p.Self)
	signer := &fk.Signer{Self: p.Ops[p.Self-1]}
	validator := group.NewMembershipValidator(fk.Logger, opAddrs(p.Ops), signer)
	session := sessionStr(sessSame)

	// ONE group object for marking, result preparation and admission
	var g *group.Group
	var iprobe *inactivity.VerifC12Probe
	if p.Pkg == "inactivity" {
		iprobe = inactivity.VerifC12NewClaimSigningProbe(fk.Logger, self, n, p.Threshold, validator, session, nil, nil, nil)
		g = iprobe.Group
	} else {
		g = group.NewGroup(p.Threshold, n)
	}
	for _, m := range p.Marks {
		if m.DQ {
			g.MarkMemberAsDisqualified(group.MemberIndex(m.Idx))
		} else {
			g.MarkMemberAsInactive(group.MemberIndex(m.Idx))
		}
	}
	first = snapOf(g)

	var bres *beaconchain.DKGResult
	tres := &tdkg.Result{Group: g}
	for _, s := range p.Steps {
		var out []int
		switch {
		case s == "operating":
			out = ints(g.OperatingMemberIndexes())
		case s == "convert" && p.Pkg == "beacon":
			bres = result.VerifC12ConvertGjkrResult(&gjkr.Result{Group: g})
			for _, b := range bres.Misbehaved {
				out = append(out, int(b))
			}
		case s == "convert" && p.Pkg == "tdkg":
			out = ints(tres.MisbehavedMembersIndexes())
		case s == "sign" && p.Pkg == "beacon":
			if bres == nil {
				bres = result.VerifC12ConvertGjkrResult(&gjkr.Result{Group: g})
			}
			member := result.NewSigningMember(fk.Logger, self, g, validator, session)
			if _, err := member.SignDKGResult(bres, &beaconFakeChain{signer: signer}); err != nil {
				detail = err.Error()
			}
		default:
			panic("step " + s + " is not part of the " + p.Pkg + " pipeline")
		}
		steps = append(steps, pipeStepObs{Step: s, Out: out, Snap: snapOf(g)})
	}

	// admission on the same object
	var deliver func(c vcallIn) string
	payloadSession := func(c vcallIn) string {
		if c.SameSession {
			return session
		}
		return sessionStr(sessOther)
	}
	switch p.Pkg {
	case "beacon":
		if bres == nil {
			bres = &beaconchain.DKGResult{}
		}
		st := result.VerifC12NewSigningState(fk.Logger, self, g, validator, session, nil, nil, bres, 0)
		deliver = func(c vcallIn) string {
			before := result.VerifC12Stored(st)
			key := fk.KeyBytes(c.Key)
			payload := result.VerifC12NewSignatureMessage(group.MemberIndex(c.Idx), fk.Hash32(1), fk.Sig(c.Key, 1, true), key, payloadSession(c))
			if err := st.Receive(&fk.Msg{Key: key, P: payload}); err != nil {
				return "Malformed"
			}
			if result.VerifC12Stored(st) == before+1 {
				return "Stored"
			}
			return "Ignored"
		}
	case "tdkg":
		probe := tdkg.VerifC12NewResultSigningProbe(fk.Logger, self, g, validator, session, nil, nil, tres)
		deliver = func(c vcallIn) string {
			key := fk.KeyBytes(c.Key)
			payload := tdkg.VerifC12NewResultSignatureMessage(group.MemberIndex(c.Idx), tdkg.ResultSignatureHash(fk.Hash32(1)),
				fk.Sig(c.Key, 1, true), key, payloadSession(c))
			typ := tdkg.VerifC12MessageType(payload)
			before := len(probe.Base.GetAllReceivedMessages(typ))
			if err := probe.State.Receive(&fk.Msg{Key: key, P: payload}); err != nil {
				return "Malformed"
			}
			if len(probe.Base.GetAllReceivedMessages(typ)) == before+1 {
				return "Stored"
			}
			return "Ignored"
		}
	case "inactivity":
		deliver = func(c vcallIn) string {
			key := fk.KeyBytes(c.Key)
			payload := inactivity.VerifC12NewClaimSignatureMessage(group.MemberIndex(c.Idx), inactivity.ClaimHash(fk.Hash32(1)),
				fk.Sig(c.Key, 1, true), key, payloadSession(c))
			typ := inactivity.VerifC12MessageType()
			before := len(iprobe.Base.GetAllReceivedMessages(typ))
			if err := iprobe.State.Receive(&fk.Msg{Key: key, P: payload}); err != nil {
				return "Malformed"
			}
			if len(iprobe.Base.GetAllReceivedMessages(typ)) == before+1 {
				return "Stored"
			}
			return "Ignored"
		}
	}
	for _, c := range p.Senders {
		o := deliver(c)
		msgs = append(msgs, pipeMsgObs{Outcome: o, Snap: snapOf(g)})
	}
	return
}

func runPipe(p pipeInput, em *lib.Emitter, id string) {
	step, ok := pipeStep[p.Pkg]
	if !ok || len(p.Ops) == 0 || p.Self < 1 || p.Self > len(p.Ops) || len(p.Senders) == 0 {
		em.Case(lib.Case{ID: id, Coq: "(CSites 1%N 0%N)", Key: "bad-input-" + id, In: input{Pipe: &p}, Out: "bad pipeline input"})
		return
	}
	first, steps, msgs, detail := execPipe(p)
	tab, _ := addrTable(p.Ops, p.Senders)

	// which members the marks excluded (a mark of a non-operating member does nothing)
	excluded := map[int]bool{}
	hasIA, hasDQ := false, false
	for _, m := range p.Marks {
		if m.Idx >= 1 && m.Idx <= len(p.Ops) && !excluded[m.Idx] {
			excluded[m.Idx] = true
			if m.DQ {
				hasDQ = true
			} else {
				hasIA = true
			}
		}
	}
	var marks, pipe, items []string
	for _, m := range p.Marks {
		marks = append(marks, lib.Pair(lib.Bool(m.DQ), lib.N(uint64(m.Idx))))
	}
	changed := false
	for _, s := range steps {
		ctor := map[string]string{"convert": "PConvert", "operating": "POperating", "sign": "PSign"}[s.Step]
		pipe = append(pipe, fmt.Sprintf("(%s, %s, %s)", ctor, nl(s.Out), s.Snap.coq()))
		changed = changed || !s.Snap.same(first)
	}
	excludedAccepted, excludedSent := false, false
	for i, c := range p.Senders {
		o := pipeMsgObs{Outcome: "Malformed", Snap: first}
		if i < len(msgs) {
			o = msgs[i]
		}
		sess := sessSame
		if !c.SameSession {
			sess = sessOther
		}
		if excluded[c.Idx] {
			excludedSent = true
			if o.Outcome == "Stored" {
				excludedAccepted = true
			}
		}
		changed = changed || !o.Snap.same(first)
		items = append(items, fmt.Sprintf("({| m_idx := %s; m_key := %s; m_pay := (PKeyed %s %s) |}, %s, %s)",
			lib.N(uint64(c.Idx)), lib.N(uint64(c.Key)), lib.N(uint64(sess)), lib.N(uint64(c.Key)), o.Outcome, o.Snap.coq()))
	}
	coq := fmt.Sprintf("(CPipe {| q_step := %s; q_self := %s; q_ops := %s; q_session := %s; q_marks := %s; q_first := %s; "+
		"q_pipe := %s; q_tab := %s; q_msgs := %s |})",
		step, lib.N(uint64(p.Self)), nl(p.Ops), lib.N(uint64(sessSame)), lib.List(marks), first.coq(),
		lib.List(pipe), tab, lib.List(items))
	em.Tally("pipe-" + p.Pkg)
	em.Case(lib.Case{
		ID: id, Coq: coq, Key: fmt.Sprintf("%+v", p),
		Nontrivial: hasIA && hasDQ && excludedSent && len(p.Steps) > 0,
		Sig:        map[string]interface{}{"step": step, "kind": "pipeline", "excluded_accepted": excludedAccepted, "group_changed": changed},
		In:         input{Pipe: &p},
		Out:        map[string]interface{}{"group_after_marks": first, "read_only_steps": steps, "messages": msgs, "detail": detail},
	})
}

// ---------------------------------------------------------------- generation

func ownSenders(ops []int, self int) []vcallIn {
	var s []vcallIn
	for i, o := range ops {
		if i+1 != self {
			s = append(s, vcallIn{Idx: i + 1, Key: o, SameSession: true})
		}
	}
	return s
}

func seqOps(n int) []int {
	ops := make([]int, n)
	for i := range ops {
		ops[i] = i + 1
	}
	return ops
}

var pipeStepSets = map[string][][]string{
	"beacon":     {{"convert"}, {"operating", "convert", "sign"}, {"convert", "convert"}, {"sign"}},
	"tdkg":       {{"convert"}, {"operating", "convert"}, {"convert", "convert"}},
	"inactivity": {{"operating"}, {"operating", "operating"}},
}

func pipelines(o lib.Opts, r *lib.Rng, em *lib.Emitter) {
	k := 0
	emitP := func(tag string, p pipeInput) {
		k++
		runPipe(p, em, fmt.Sprintf("pipe-%s-%d", tag, k))
	}
	// corpus: a disqualified index below an inactive one (and the other three relative orders)
	for _, pkg := range []string{"beacon", "tdkg"} {
		emitP("corpus", pipeInput{Pkg: pkg, Ops: seqOps(6), Self: 1, Threshold: 2,
			Marks: []markIn{{true, 2}, {false, 5}}, Steps: []string{"convert"}, Senders: ownSenders(seqOps(6), 1)})
		emitP("corpus", pipeInput{Pkg: pkg, Ops: seqOps(6), Self: 1, Threshold: 2,
			Marks: []markIn{{false, 5}, {true, 2}}, Steps: []string{"convert"}, Senders: ownSenders(seqOps(6), 1)})
		emitP("corpus", pipeInput{Pkg: pkg, Ops: seqOps(6), Self: 1, Threshold: 2,
			Marks: []markIn{{false, 2}, {true, 5}}, Steps: []string{"convert"}, Senders: ownSenders(seqOps(6), 1)})
		emitP("corpus", pipeInput{Pkg: pkg, Ops: seqOps(7), Self: 4, Threshold: 3,
			Marks: []markIn{{false, 6}, {true, 3}, {false, 2}, {true, 7}, {true, 1}}, Steps: []string{"operating", "convert"},
			Senders: ownSenders(seqOps(7), 4)})
	}
	// small scope: all ordered pairs of marks on five seats (receiver at seat 1), every member then
	// sends under its own key and index
	n := 0
	for a := 2; a <= 5; a++ {
		for b := 2; b <= 5; b++ {
			if a == b {
				continue
			}
			for kinds := 0; kinds < 4; kinds++ {
				n++
				for pi, pkg := range []string{"beacon", "tdkg"} {
					if o.Tier == "quick" && pi == 1 && (n+int(o.Seed))%2 != 0 {
						continue
					}
					sets := pipeStepSets[pkg]
					emitP("pair", pipeInput{Pkg: pkg, Ops: seqOps(5), Self: 1, Threshold: 2,
						Marks: []markIn{{kinds&1 == 1, a}, {kinds&2 == 2, b}}, Steps: sets[n%len(sets)],
						Senders: ownSenders(seqOps(5), 1)})
				}
			}
		}
	}
	// random: several inactive and disqualified members appended in any order (so the internal
	// slices have spare capacity), repeated and out-of-group marks, operators with several seats
	count := o.Count(150, 3000)
	for i := 0; i < count; i++ {
		pkg := []string{"beacon", "beacon", "tdkg", "inactivity"}[r.Intn(4)]
		ops := randomOps(r)
		if len(ops) < 3 {
			ops = append(ops, 1+r.Intn(3), 4)
		}
		nn := len(ops)
		self := 1 + r.Intn(nn)
		p := pipeInput{Pkg: pkg, Ops: ops, Self: self, Threshold: r.Intn(nn)}
		for m := 0; m < r.Range(2, 7); m++ {
			idx := 1 + r.Intn(nn)
			if r.Chance(1, 12) {
				idx = []int{0, nn + 1, 255}[r.Intn(3)]
			}
			p.Marks = append(p.Marks, markIn{DQ: r.Bool(), Idx: idx})
		}
		sets := pipeStepSets[pkg]
		p.Steps = append([]string{}, sets[r.Intn(len(sets))]...)
		if r.Chance(1, 3) {
			p.Steps = append(p.Steps, sets[r.Intn(len(sets))]...)
		}
		// every marked member under its own key and index, then some others
		seen := map[int]bool{self: true}
		for _, m := range p.Marks {
			if m.Idx >= 1 && m.Idx <= nn && !seen[m.Idx] {
				seen[m.Idx] = true
				p.Senders = append(p.Senders, vcallIn{Idx: m.Idx, Key: ops[m.Idx-1], SameSession: true})
			}
		}
		for e := 0; e < r.Range(1, 4); e++ {
			idx := 1 + r.Intn(nn)
			c := vcallIn{Idx: idx, Key: ops[idx-1], SameSession: !r.Chance(1, 8)}
			switch r.Intn(8) {
			case 0:
				c.Key = fk.Outsider
			case 1:
				c.Key = ops[r.Intn(nn)]
			}
			p.Senders = append(p.Senders, c)
		}
		emitP("rnd", p)
	}
}
