// Driver for C12: delivers one protocol message to every step of keep-core that admits messages
// by member index (all call sites of shouldAcceptMessage / IsValidMembership), for every
// combination of claimed index, sender key, session and operating status, and reports whether
// the real state stored / acted on it.  The Coq model (Model/C12.v) judges every case.
//
// The table of call sites is checked against the source tree on every run: a call site the
// table does not know (or a table entry that disappeared) is emitted as a CSites case, which the
// model judges Mismatch, so a newly added protocol step cannot escape unnoticed.
package main

import (
	"context"
	"crypto/ecdsa"
	"fmt"
	"go/ast"
	"go/parser"
	"go/token"
	"math/big"
	"os"
	"path/filepath"
	"sort"
	"strings"
	"time"

	"google.golang.org/protobuf/proto"

	"github.com/keep-network/keep-core/pkg/beacon/dkg/result"
	"github.com/keep-network/keep-core/pkg/beacon/gjkr"
	"github.com/keep-network/keep-core/pkg/bitcoin"
	"github.com/keep-network/keep-core/pkg/chain"
	"github.com/keep-network/keep-core/pkg/net"
	"github.com/keep-network/keep-core/pkg/protocol/announcer"
	announcerpb "github.com/keep-network/keep-core/pkg/protocol/announcer/gen/pb"
	"github.com/keep-network/keep-core/pkg/protocol/group"
	"github.com/keep-network/keep-core/pkg/protocol/inactivity"
	"github.com/keep-network/keep-core/pkg/protocol/state"
	"github.com/keep-network/keep-core/pkg/tbtc"
	"github.com/keep-network/keep-core/pkg/tecdsa"
	tdkg "github.com/keep-network/keep-core/pkg/tecdsa/dkg"
	tsig "github.com/keep-network/keep-core/pkg/tecdsa/signing"

	"verifharness/cmd/c12/fk"
	"verifharness/lib"
)

// ---------------------------------------------------------------- the table of call sites

type site struct {
	Key  string // file:Receiver.Func#ordinal of the call
	Step string // constructor of Model.C12.step ("" for the IsValidMembership call inside a shouldAcceptMessage definition)
	Kind string // plain | keyed | announce | follower | done | def
	Pkg  string // gjkr | beacon | tdkg | tsig | inactivity | announcer | tbtc
	Idx  int    // site number inside the package's hook
}

var sites = []site{
	{"pkg/beacon/gjkr/states.go:ephemeralKeyPairGenerationState.Receive#0", "GjkrEphemeralKey", "plain", "gjkr", 0},
	{"pkg/beacon/gjkr/states.go:commitmentState.Receive#0", "GjkrPeerShares", "plain", "gjkr", 1},
	{"pkg/beacon/gjkr/states.go:commitmentState.Receive#1", "GjkrCommitments", "plain", "gjkr", 2},
	{"pkg/beacon/gjkr/states.go:commitmentsVerificationState.Receive#0", "GjkrSharesAccusations", "plain", "gjkr", 3},
	{"pkg/beacon/gjkr/states.go:pointsShareState.Receive#0", "GjkrSharePoints", "plain", "gjkr", 4},
	{"pkg/beacon/gjkr/states.go:pointsValidationState.Receive#0", "GjkrPointsAccusations", "plain", "gjkr", 5},
	{"pkg/beacon/gjkr/states.go:keyRevealState.Receive#0", "GjkrKeyReveal", "plain", "gjkr", 6},
	{"pkg/beacon/dkg/result/states.go:resultSigningState.Receive#0", "BeaconResultSigning", "keyed", "beacon", 0},
	{"pkg/tecdsa/dkg/states.go:ephemeralKeyPairGenerationState.Receive#0", "TdkgEphemeralKey", "plain", "tdkg", 0},
	{"pkg/tecdsa/dkg/states.go:symmetricKeyGenerationState.Receive#0", "TdkgSymmetricKey", "plain", "tdkg", 1},
	{"pkg/tecdsa/dkg/states.go:tssRoundOneState.Receive#0", "TdkgRoundOne", "plain", "tdkg", 2},
	{"pkg/tecdsa/dkg/states.go:tssRoundTwoState.Receive#0", "TdkgRoundTwo", "plain", "tdkg", 3},
	{"pkg/tecdsa/dkg/states.go:tssRoundThreeState.Receive#0", "TdkgRoundThree", "plain", "tdkg", 4},
	{"pkg/tecdsa/dkg/states.go:finalizationState.Receive#0", "TdkgFinalization", "plain", "tdkg", 5},
	{"pkg/tecdsa/dkg/states.go:resultSigningState.Receive#0", "TdkgResultSigning", "keyed", "tdkg", 6},
	{"pkg/tecdsa/signing/states.go:ephemeralKeyPairGenerationState.Receive#0", "TsigEphemeralKey", "plain", "tsig", 0},
	{"pkg/tecdsa/signing/states.go:symmetricKeyGenerationState.Receive#0", "TsigSymmetricKey", "plain", "tsig", 1},
	{"pkg/tecdsa/signing/states.go:tssRoundOneState.Receive#0", "TsigRoundOne", "plain", "tsig", 2},
	{"pkg/tecdsa/signing/states.go:tssRoundTwoState.Receive#0", "TsigRoundTwo", "plain", "tsig", 3},
	{"pkg/tecdsa/signing/states.go:tssRoundThreeState.Receive#0", "TsigRoundThree", "plain", "tsig", 4},
	{"pkg/tecdsa/signing/states.go:tssRoundFourState.Receive#0", "TsigRoundFour", "plain", "tsig", 5},
	{"pkg/tecdsa/signing/states.go:tssRoundFiveState.Receive#0", "TsigRoundFive", "plain", "tsig", 6},
	{"pkg/tecdsa/signing/states.go:tssRoundSixState.Receive#0", "TsigRoundSix", "plain", "tsig", 7},
	{"pkg/tecdsa/signing/states.go:tssRoundSevenState.Receive#0", "TsigRoundSeven", "plain", "tsig", 8},
	{"pkg/tecdsa/signing/states.go:tssRoundEightState.Receive#0", "TsigRoundEight", "plain", "tsig", 9},
	{"pkg/tecdsa/signing/states.go:tssRoundNineState.Receive#0", "TsigRoundNine", "plain", "tsig", 10},
	{"pkg/protocol/inactivity/states.go:claimSigningState.Receive#0", "InactivityClaimSigning", "keyed", "inactivity", 0},
	{"pkg/protocol/announcer/announcer.go:Announcer.Announce#0", "AnnouncerAnnounce", "announce", "announcer", 0},
	{"pkg/tbtc/coordination.go:coordinationExecutor.executeFollowerRoutine#0", "CoordinationFollower", "follower", "tbtc", 0},
	{"pkg/tbtc/signing_done.go:signingDoneCheck.isValidDoneMessage#0", "SigningDoneCheck", "done", "tbtc", 1},
	// the IsValidMembership call inside each of the six shouldAcceptMessage definitions
	{"pkg/beacon/gjkr/message_filter.go:memberCore.shouldAcceptMessage#0", "", "def", "", 0},
	{"pkg/beacon/dkg/result/signing.go:SigningMember.shouldAcceptMessage#0", "", "def", "", 0},
	{"pkg/tecdsa/dkg/member.go:member.shouldAcceptMessage#0", "", "def", "", 0},
	{"pkg/tecdsa/dkg/member.go:signingMember.shouldAcceptMessage#0", "", "def", "", 0},
	{"pkg/tecdsa/signing/member.go:member.shouldAcceptMessage#0", "", "def", "", 0},
	{"pkg/protocol/inactivity/member.go:signingMember.shouldAcceptMessage#0", "", "def", "", 0},
}

func recvName(fd *ast.FuncDecl) string {
	if fd.Recv == nil || len(fd.Recv.List) == 0 {
		return ""
	}
	t := fd.Recv.List[0].Type
	for {
		switch x := t.(type) {
		case *ast.StarExpr:
			t = x.X
			continue
		case *ast.IndexExpr:
			t = x.X
			continue
		case *ast.Ident:
			return x.Name
		}
		return "?"
	}
}

// scanCallSites lists every call of a method named shouldAcceptMessage or IsValidMembership in
// the non-test Go sources of the tree (verification hook files excluded).
func scanCallSites(repo string) ([]string, error) {
	var found []string
	fset := token.NewFileSet()
	err := filepath.Walk(repo, func(path string, info os.FileInfo, err error) error {
		if err != nil {
			return nil
		}
		base := info.Name()
		if info.IsDir() {
			if path != repo && (strings.HasPrefix(base, ".") || base == "node_modules" || base == "solidity" ||
				base == "solidity-v1" || base == "docs" || base == "infrastructure") {
				return filepath.SkipDir
			}
			return nil
		}
		if !strings.HasSuffix(base, ".go") || strings.HasSuffix(base, "_test.go") || strings.HasPrefix(base, "verif_export") {
			return nil
		}
		src, rerr := os.ReadFile(path)
		if rerr != nil {
			return rerr
		}
		if !strings.Contains(string(src), "shouldAcceptMessage") && !strings.Contains(string(src), "IsValidMembership") {
			return nil
		}
		f, perr := parser.ParseFile(fset, path, src, 0)
		if perr != nil {
			return perr
		}
		rel, _ := filepath.Rel(repo, path)
		for _, d := range f.Decls {
			fd, ok := d.(*ast.FuncDecl)
			if !ok || fd.Body == nil {
				continue
			}
			n := 0
			ast.Inspect(fd.Body, func(x ast.Node) bool {
				ce, ok := x.(*ast.CallExpr)
				if !ok {
					return true
				}
				name := ""
				switch fn := ce.Fun.(type) {
				case *ast.SelectorExpr:
					name = fn.Sel.Name
				case *ast.Ident:
					name = fn.Name
				}
				if name == "shouldAcceptMessage" || name == "IsValidMembership" {
					owner := fd.Name.Name
					if r := recvName(fd); r != "" {
						owner = r + "." + owner
					}
					found = append(found, fmt.Sprintf("%s:%s#%d", filepath.ToSlash(rel), owner, n))
					n++
				}
				return true
			})
		}
		return nil
	})
	sort.Strings(found)
	return found, err
}

// ---------------------------------------------------------------- one case

type input struct {
	Step        string `json:"step"`
	Ops         []int  `json:"ops"`       // operator id of every seat
	Self        int    `json:"self"`      // member index of the receiver
	Threshold   int    `json:"threshold"` // dishonest threshold (not read by admission)
	IA          []int  `json:"ia"`
	DQ          []int  `json:"dq"`
	Idx         int    `json:"idx"` // claimed member index 0..255
	Key         int    `json:"key"` // operator id whose network key sends the message (fk.Outsider: nobody's)
	SameSession bool   `json:"same_session"`
	KeyUsedOK   bool   `json:"key_used_ok"` // keyed steps: the key named in the payload is the network key
	ProtoOK     bool   `json:"proto_ok"`    // announcer: protocol id; follower: wallet; done: signed message
	Leader      int    `json:"leader"`      // follower: operator id of the leader
	Allowed     bool   `json:"allowed"`     // follower: proposed action allowed
	EndBlockOK  bool   `json:"end_block_ok"`
	HasSig      bool   `json:"has_sig"`
	AlreadyDone bool   `json:"already_done"`
	MsgKind     int    `json:"msg_kind"` // tecdsa: which protocol message type carries the claim
	// a history on one shared validator / receiving state (hist.go) instead of one message
	Hist *histInput `json:"hist,omitempty"`
	// admission after the production result pipeline on one group object (pipe.go)
	Pipe *pipeInput `json:"pipe,omitempty"`
}

const (
	sessSame  = 7
	sessOther = 8
	protoSame = 5
	protoOth  = 6
)

func siteOf(step string) *site {
	for i := range sites {
		if sites[i].Step == step {
			return &sites[i]
		}
	}
	return nil
}

func sessionStr(v int) string { return fmt.Sprintf("session-%d", v) }

func markGroup(g *group.Group, in input) {
	for _, i := range in.IA {
		g.MarkMemberAsInactive(group.MemberIndex(i))
	}
	for _, i := range in.DQ {
		g.MarkMemberAsDisqualified(group.MemberIndex(i))
	}
}

func seatsOf(ops []int, op int) []group.MemberIndex {
	var r []group.MemberIndex
	for i, o := range ops {
		if o == op {
			r = append(r, group.MemberIndex(i+1))
		}
	}
	return r
}

// quiesce waits until cond holds; the receivers under test process messages in FIFO order in one
// goroutine, so the condition "the marker sent last has been processed" is reached, not timed.
func quiesce(cond func() bool) {
	deadline := time.Now().Add(20 * time.Second)
	for !cond() {
		if time.Now().After(deadline) {
			panic("harness: receiver goroutine never processed the marker message")
		}
		time.Sleep(20 * time.Microsecond)
	}
}

// exec runs the real code on the case and returns the outcome constructor and, for the done
// check, whether the earlier message of the same member had been stored.
func exec(in input) (outcome string, doneBefore bool, detail string) {
	defer func() {
		if r := recover(); r != nil {
			outcome, detail = "Malformed", fmt.Sprintf("panic: %v", r)
		}
	}()
	st := siteOf(in.Step)
	if st == nil {
		return "Malformed", false, "unknown step"
	}
	n := len(in.Ops)
	addrs := make([]chain.Address, n)
	for i, o := range in.Ops {
		addrs[i] = fk.Addr(o)
	}
	selfOp := in.Ops[in.Self-1]
	signer := &fk.Signer{Self: selfOp}
	validator := group.NewMembershipValidator(fk.Logger, addrs, signer)
	self := group.MemberIndex(in.Self)
	idx := group.MemberIndex(in.Idx)
	key := fk.KeyBytes(in.Key)
	msgSession := sessSame
	if !in.SameSession {
		msgSession = sessOther
	}
	stored := func(b bool) string {
		if b {
			return "Stored"
		}
		return "Ignored"
	}

	switch st.Pkg {
	case "gjkr":
		p, err := gjkr.VerifC12NewProbe(st.Idx, fk.Logger, self, n, in.Threshold, validator, sessionStr(sessSame))
		if err != nil {
			return "Malformed", false, err.Error()
		}
		markGroup(p.Group, in)
		before := p.VerifC12Stored(st.Idx)
		payload := gjkr.VerifC12NewMessage(st.Idx, idx, sessionStr(msgSession))
		if err := p.State.Receive(&fk.Msg{Key: key, P: payload}); err != nil {
			return "Malformed", false, err.Error()
		}
		return stored(p.VerifC12Stored(st.Idx) == before+1), false, ""

	case "beacon":
		g := group.NewGroup(in.Threshold, n)
		markGroup(g, in)
		s := result.VerifC12NewSigningState(fk.Logger, self, g, validator, sessionStr(sessSame), nil, nil, nil, 0)
		used := key
		if !in.KeyUsedOK {
			used = fk.KeyBytes(in.Key + 1)
		}
		payload := result.VerifC12NewSignatureMessage(idx, fk.Hash32(1), fk.Sig(in.Key, 1, true), used, sessionStr(msgSession))
		if err := s.Receive(&fk.Msg{Key: key, P: payload}); err != nil {
			return "Malformed", false, err.Error()
		}
		return stored(result.VerifC12Stored(s) == 1), false, ""

	case "tdkg":
		var base *state.BaseAsyncState
		var s state.AsyncState
		var payload interface{}
		if st.Kind == "keyed" {
			g := group.NewGroup(in.Threshold, n)
			markGroup(g, in)
			p := tdkg.VerifC12NewResultSigningProbe(fk.Logger, self, g, validator, sessionStr(sessSame), nil, nil, nil)
			used := key
			if !in.KeyUsedOK {
				used = fk.KeyBytes(in.Key + 1)
			}
			payload = tdkg.VerifC12NewResultSignatureMessage(idx, tdkg.ResultSignatureHash(fk.Hash32(1)),
				fk.Sig(in.Key, 1, true), used, sessionStr(msgSession))
			base, s = p.Base, p.State
		} else {
			p, err := tdkg.VerifC12NewProbe(st.Idx, fk.Logger, self, n, in.Threshold, validator, sessionStr(sessSame))
			if err != nil {
				return "Malformed", false, err.Error()
			}
			markGroup(p.Group, in)
			payload = tdkg.VerifC12NewMessage(in.MsgKind%tdkg.VerifC12MessageKinds, idx, sessionStr(msgSession))
			base, s = p.Base, p.State
		}
		typ := tdkg.VerifC12MessageType(payload)
		if err := s.Receive(&fk.Msg{Key: key, P: payload}); err != nil {
			return "Malformed", false, err.Error()
		}
		return stored(len(base.GetAllReceivedMessages(typ)) == 1), false, ""

	case "tsig":
		p, err := tsig.VerifC12NewProbe(st.Idx, fk.Logger, self, n, in.Threshold, validator, sessionStr(sessSame))
		if err != nil {
			return "Malformed", false, err.Error()
		}
		markGroup(p.Group, in)
		payload := tsig.VerifC12NewMessage(in.MsgKind%tsig.VerifC12MessageKinds, idx, sessionStr(msgSession))
		typ := tsig.VerifC12MessageType(payload)
		if err := p.State.Receive(&fk.Msg{Key: key, P: payload}); err != nil {
			return "Malformed", false, err.Error()
		}
		return stored(len(p.Base.GetAllReceivedMessages(typ)) == 1), false, ""

	case "inactivity":
		p := inactivity.VerifC12NewClaimSigningProbe(fk.Logger, self, n, in.Threshold, validator, sessionStr(sessSame), nil, nil, nil)
		markGroup(p.Group, in)
		used := key
		if !in.KeyUsedOK {
			used = fk.KeyBytes(in.Key + 1)
		}
		payload := inactivity.VerifC12NewClaimSignatureMessage(idx, inactivity.ClaimHash(fk.Hash32(1)),
			fk.Sig(in.Key, 1, true), used, sessionStr(msgSession))
		if err := p.State.Receive(&fk.Msg{Key: key, P: payload}); err != nil {
			return "Malformed", false, err.Error()
		}
		return stored(len(p.Base.GetAllReceivedMessages(inactivity.VerifC12MessageType())) == 1), false, ""

	case "announcer":
		ch := fk.NewChan()
		announcer.RegisterUnmarshaller(ch)
		var factory func() net.TaggedUnmarshaler
		for _, f := range ch.Unmarshalers {
			factory = f
		}
		protocol := fmt.Sprintf("protocol-%d", protoSame)
		msgProtocol := protocol
		if !in.ProtoOK {
			msgProtocol = fmt.Sprintf("protocol-%d", protoOth)
		}
		raw, err := proto.Marshal(&announcerpb.AnnouncementMessage{
			SenderID: uint32(in.Idx), ProtocolID: msgProtocol, SessionID: sessionStr(msgSession)})
		if err != nil {
			return "Malformed", false, err.Error()
		}
		payload := factory()
		if err := payload.Unmarshal(raw); err != nil {
			return "Malformed", false, err.Error()
		}
		ctx, cancel := context.WithCancel(context.Background())
		defer cancel()
		// the announcer sends its own announcement after registering the handler: deliver the
		// message then, followed by a sentinel whose payload read ends the listening period
		ch.OnSend = func(net.TaggedMarshaler) {
			h := ch.Handlers[len(ch.Handlers)-1]
			h(&fk.Msg{Key: key, P: payload})
			h(&fk.Msg{Key: key, P: fk.Sentinel{}, OnPayload: cancel})
		}
		a := announcer.New(protocol, ch, validator)
		ready, err := a.Announce(ctx, self, sessionStr(sessSame))
		if err != nil {
			return "Malformed", false, err.Error()
		}
		in2 := false
		for _, r := range ready {
			if r == idx && idx != self {
				in2 = true
			}
		}
		return stored(in2), false, fmt.Sprintf("ready=%v", ready)

	case "tbtc":
		x, y := tecdsa.Curve.ScalarBaseMult(big.NewInt(12345).Bytes())
		walletKey := &ecdsa.PublicKey{Curve: tecdsa.Curve, X: x, Y: y}
		if st.Kind == "follower" {
			ch := fk.NewChan()
			ctx, cancel := context.WithCancel(context.Background())
			defer cancel()
			wallet := bitcoin.PublicKeyHash(walletKey)
			if !in.ProtoOK {
				wallet[3] ^= 0x55
			}
			block := uint64(900 + msgSession)
			var proposal tbtc.CoordinationProposal = &tbtc.HeartbeatProposal{}
			allowed := []tbtc.WalletActionType{tbtc.ActionNoop, tbtc.ActionHeartbeat}
			if !in.Allowed {
				allowed = []tbtc.WalletActionType{tbtc.ActionNoop, tbtc.ActionRedemption}
			}
			payload := tbtc.VerifC12NewCoordinationMessage(idx, block, wallet, proposal)
			// the routine only listens: deliver as soon as the handler is registered, then a
			// sentinel whose payload read ends the coordination window
			ch.OnRecv = func(h func(m net.Message)) {
				h(&fk.Msg{Key: key, P: payload})
				h(&fk.Msg{Key: key, P: fk.Sentinel{}, OnPayload: cancel})
			}
			got, faults, _ := tbtc.VerifC12FollowerRoutine(ctx, &fakeChain{signer: signer}, walletKey, addrs,
				seatsOf(in.Ops, selfOp), fk.Addr(selfOp), ch, validator, fk.Addr(in.Leader), uint64(900+sessSame), allowed)
			detail = fmt.Sprintf("proposal=%v faults=%v", got != nil, faults)
			if got != nil {
				if got != proposal {
					return "Malformed", false, "a different proposal came back"
				}
				return "Proposal", false, detail
			}
			out := "Ignored"
			for _, f := range faults {
				switch f.Type {
				case tbtc.FaultLeaderImpersonation:
					if f.Culprit != fk.Addr(in.Key) {
						return "Malformed", false, "impersonation fault blames somebody else: " + detail
					}
					out = "FaultImpersonation"
				case tbtc.FaultLeaderMistake:
					out = "FaultMistake"
				}
			}
			return out, false, detail
		}
		// signing done check
		ch := fk.NewChan()
		ctx, cancel := context.WithCancel(context.Background())
		defer cancel()
		dc := tbtc.VerifC12NewDoneCheck(n, ch, validator)
		message := big.NewInt(int64(1000 + protoSame))
		attempt := uint64(sessSame)
		timeoutBlock := uint64(500)
		// the members included in the attempt: every seat except those listed in IA / DQ
		var members []group.MemberIndex
		for _, seat := range attemptSeats(in) {
			members = append(members, group.MemberIndex(seat))
		}
		dc.Listen(ctx, message, attempt, timeoutBlock, members)
		h := ch.Handlers[len(ch.Handlers)-1]
		sig := &tecdsa.Signature{R: big.NewInt(1), S: big.NewInt(2), RecoveryID: 0}
		validDone := func(seat int) *fk.Msg {
			return &fk.Msg{Key: fk.KeyBytes(in.Ops[seat-1]),
				P: tbtc.VerifC12NewDoneMessage(group.MemberIndex(seat), message, attempt, sig, 10)}
		}
		// two marker seats of the attempt, different from the claimed index
		var markers []int
		att := attemptSeats(in)
		for k := len(att) - 1; k >= 0 && len(markers) < 2; k-- {
			if att[k] != in.Idx {
				markers = append(markers, att[k])
			}
		}
		if len(markers) < 2 {
			return "Malformed", false, "group too small for the done-check markers"
		}
		if in.AlreadyDone && in.Idx >= 1 && in.Idx <= n && containsInt(att, in.Idx) {
			prior := validDone(in.Idx)
			h(prior)
			h(validDone(markers[0]))
			quiesce(func() bool { return dc.Stored(group.MemberIndex(markers[0])) != nil })
			doneBefore = dc.Stored(idx) == prior.P
		}
		msgMessage := message
		if !in.ProtoOK {
			msgMessage = big.NewInt(int64(1000 + protoOth))
		}
		endBlock := timeoutBlock
		if !in.EndBlockOK {
			endBlock = timeoutBlock + 1
		}
		var msgSig *tecdsa.Signature
		if in.HasSig {
			msgSig = sig
		}
		test := &fk.Msg{Key: key, P: tbtc.VerifC12NewDoneMessage(idx, msgMessage, uint64(msgSession), msgSig, endBlock)}
		h(test)
		h(validDone(markers[1]))
		quiesce(func() bool { return dc.Stored(group.MemberIndex(markers[1])) != nil })
		return stored(dc.Stored(idx) == test.P), doneBefore, ""
	}
	return "Malformed", false, "unknown package"
}

func containsInt(l []int, v int) bool {
	for _, x := range l {
		if x == v {
			return true
		}
	}
	return false
}

// attemptSeats: the seats included in the signing attempt of a done-check case.
func attemptSeats(in input) []int {
	var r []int
	for seat := 1; seat <= len(in.Ops); seat++ {
		if !containsInt(in.IA, seat) && !containsInt(in.DQ, seat) {
			r = append(r, seat)
		}
	}
	return r
}

// fakeChain is a tbtc.Chain of which only Signing is ever called by the follower routine.
type fakeChain struct {
	tbtc.Chain
	signer *fk.Signer
}

func (c *fakeChain) Signing() chain.Signing { return c.signer }

// ---------------------------------------------------------------- Coq rendering

func nl(v []int) string {
	u := make([]uint64, len(v))
	for i, x := range v {
		u[i] = uint64(x)
	}
	return lib.ListN(u)
}

func run(in input, em *lib.Emitter, id string) {
	st := siteOf(in.Step)
	if st == nil || in.Self < 1 || in.Self > len(in.Ops) {
		em.Case(lib.Case{ID: id, Coq: "(CSites 1%N 0%N)", Key: "bad-input-" + id, In: in, Out: "bad input"})
		return
	}
	obs, doneBefore, detail := exec(in)
	if obs == "Malformed" && detail == "group too small for the done-check markers" {
		// a limitation of this driver (it needs two other attempt seats to observe the done-check), not an
		// observation about the implementation: the case is not emitted, only counted
		em.Tally("skipped-done-check-needs-two-marker-seats")
		return
	}
	n := len(in.Ops)
	selfOp := in.Ops[in.Self-1]
	// address of the sender's key as the code's own oracle sees it
	ids := append(append([]int{}, in.Ops...), fk.Outsider, in.Key, in.Key+1)
	addr := fk.AddrID((&fk.Signer{Self: selfOp}).PublicKeyBytesToAddress(fk.KeyBytes(in.Key)), ids)
	if addr == 0 {
		addr = 9999
	}
	selfList := []int{in.Self}
	if st.Kind == "follower" {
		selfList = nil
		for _, s := range seatsOf(in.Ops, selfOp) {
			selfList = append(selfList, int(s))
		}
	}
	msgSession := sessSame
	if !in.SameSession {
		msgSession = sessOther
	}
	msgProto := protoSame
	if !in.ProtoOK {
		msgProto = protoOth
	}
	xSession, xProtocol, xLeader, xTimeout := sessSame, 0, 0, 0
	xAllowed, xDone, xAttempt := []int{}, []int{}, []int{}
	var pay string
	switch st.Kind {
	case "plain":
		pay = fmt.Sprintf("(PPlain %s)", lib.N(uint64(msgSession)))
	case "keyed":
		used := in.Key
		if !in.KeyUsedOK {
			used = in.Key + 1
		}
		pay = fmt.Sprintf("(PKeyed %s %s)", lib.N(uint64(msgSession)), lib.N(uint64(used)))
	case "announce":
		xProtocol = protoSame
		pay = fmt.Sprintf("(PAnnounce %s %s)", lib.N(uint64(msgProto)), lib.N(uint64(msgSession)))
	case "follower":
		xProtocol = protoSame
		xLeader = in.Leader
		xAllowed = []int{1}
		action := 1
		if !in.Allowed {
			action = 2
		}
		pay = fmt.Sprintf("(PCoord %s %s %s)", lib.N(uint64(msgSession)), lib.N(uint64(msgProto)), lib.N(uint64(action)))
	case "done":
		xProtocol = protoSame
		xTimeout = 500
		end := 500
		if !in.EndBlockOK {
			end = 501
		}
		if doneBefore {
			xDone = []int{in.Idx}
		}
		xAttempt = attemptSeats(in)
		pay = fmt.Sprintf("(PDone %s %s %s %s)", lib.N(uint64(msgProto)), lib.N(uint64(msgSession)), lib.N(uint64(end)), lib.Bool(in.HasSig))
	}
	coq := fmt.Sprintf("(CMsg {| c_step := %s; c_ctx := {| x_self := %s; x_ops := %s; "+
		"x_grp := {| g_size := %s; g_ia := %s; g_dq := %s |}; x_session := %s; x_protocol := %s; "+
		"x_leader := %s; x_allowed := %s; x_timeout := %s; x_done := %s; x_attempt := %s |}; "+
		"c_msg := {| m_idx := %s; m_key := %s; m_pay := %s |}; c_addr := %s; c_obs := %s |})",
		in.Step, nl(selfList), nl(in.Ops), lib.N(uint64(n)), nl(in.IA), nl(in.DQ),
		lib.N(uint64(xSession)), lib.N(uint64(xProtocol)), lib.N(uint64(xLeader)), nl(xAllowed),
		lib.N(uint64(xTimeout)), nl(xDone), nl(xAttempt), lib.N(uint64(in.Idx)), lib.N(uint64(in.Key)), pay,
		lib.N(uint64(addr)), obs)

	holds := in.Idx >= 1 && in.Idx <= n && in.Ops[in.Idx-1] == in.Key
	class := "foreign"
	switch {
	case in.Idx == 0:
		class = "zero"
	case in.Idx > n:
		class = "above"
	case in.Idx == in.Self:
		class = "self"
	case holds:
		class = "own-seat"
	}
	excluded := false
	for _, i := range append(append([]int{}, in.IA...), in.DQ...) {
		if i == in.Idx {
			excluded = true
		}
	}
	em.Tally("step-" + in.Step)
	em.Tally("obs-" + obs)
	em.Tally("idx-" + class)
	em.Case(lib.Case{
		ID:  id,
		Coq: coq,
		Key: fmt.Sprintf("%+v", in),
		// adversarial: the message must be refused for at least one reason
		Nontrivial: !holds || in.Idx == in.Self || !in.SameSession || excluded || !in.KeyUsedOK || !in.ProtoOK,
		Sig: map[string]interface{}{"step": in.Step, "kind": st.Kind, "obs": obs, "idx_class": class,
			"holds_index": holds, "same_session": in.SameSession, "excluded": excluded},
		In:  in,
		Out: map[string]interface{}{"outcome": obs, "detail": detail, "done_before": doneBefore},
	})
}

// ---------------------------------------------------------------- generation

func base(step string, ops []int, self int) input {
	return input{Step: step, Ops: ops, Self: self, Threshold: (len(ops) - 1) / 2, Idx: 1, Key: ops[0],
		SameSession: true, KeyUsedOK: true, ProtoOK: true, Leader: ops[0], Allowed: true, EndBlockOK: true, HasSig: true}
}

func distinct(ops []int) []int {
	seen := map[int]bool{}
	var r []int
	for _, o := range ops {
		if !seen[o] {
			seen[o] = true
			r = append(r, o)
		}
	}
	return r
}

func main() {
	o := lib.ParseOpts()
	em := lib.NewEmitter()
	if o.Replay != "" {
		var in input
		if err := lib.LoadReplay(o.Replay, &in); err != nil {
			fmt.Fprintln(os.Stderr, err)
			os.Exit(2)
		}
		if in.Pipe != nil {
			runPipe(*in.Pipe, em, "replay")
		} else if in.Hist != nil {
			runHist(*in.Hist, em, "replay")
		} else {
			run(in, em, "replay")
		}
		em.Close("replay", nil)
		return
	}
	rng := lib.NewRng(o.Seed)

	// --- the table against the source tree
	repo := os.Getenv("VERIF_REPO")
	if repo == "" {
		repo = "/repo"
	}
	found, err := scanCallSites(repo)
	if err != nil {
		fmt.Fprintln(os.Stderr, "scan of call sites failed:", err)
		os.Exit(3)
	}
	known := map[string]bool{}
	for _, s := range sites {
		known[s.Key] = true
	}
	seen := map[string]bool{}
	var unknown, missing []string
	for _, f := range found {
		seen[f] = true
		if !known[f] {
			unknown = append(unknown, f)
		}
	}
	for _, s := range sites {
		if !seen[s.Key] {
			missing = append(missing, s.Key)
		}
	}
	em.Case(lib.Case{ID: "call-sites", Coq: fmt.Sprintf("(CSites %s %s)", lib.N(uint64(len(unknown))), lib.N(uint64(len(missing)))),
		Key: "call-sites", Nontrivial: false,
		Sig: map[string]interface{}{"step": "call-sites"},
		In:  map[string]interface{}{"table": len(sites)},
		Out: map[string]interface{}{"found": len(found), "unknown_call_sites": unknown, "missing_call_sites": missing}})

	var steps []string
	for _, s := range sites {
		if s.Step != "" {
			steps = append(steps, s.Step)
		}
	}

	// --- corpus
	{
		ops := []int{1, 2, 2, 3, 4}
		for _, step := range steps {
			c := base(step, ops, 1)
			c.Idx, c.Key = 0, 2 // index 0 wraps to position 255
			run(c, em, "corpus-index0-"+step)
			c.Idx, c.Key = 255, 2
			run(c, em, "corpus-index255-"+step)
			c.Idx, c.Key = 3, 2 // second seat of a two-seat operator
			run(c, em, "corpus-second-seat-"+step)
			c.Idx, c.Key = 4, 2 // somebody else's seat
			run(c, em, "corpus-spoof-"+step)
		}
		// 255 seats: index 0 must not be accepted from the holder of seat 255
		big255 := make([]int, 255)
		for i := range big255 {
			big255[i] = i/3 + 1
		}
		for _, step := range []string{"GjkrEphemeralKey", "AnnouncerAnnounce", "SigningDoneCheck", "TdkgResultSigning"} {
			c := base(step, big255, 1)
			c.Idx, c.Key = 0, big255[254]
			run(c, em, "corpus-255seats-index0-"+step)
			c.Idx = 255
			run(c, em, "corpus-255seats-index255-"+step)
		}
		// the leader's second seat is treated as an impersonator of the first one
		c := base("CoordinationFollower", []int{1, 2, 2, 3, 4}, 1)
		c.Leader, c.Idx, c.Key = 2, 3, 2
		run(c, em, "corpus-follower-leader-second-seat")
	}

	// --- exhaustive small scope: 5 seats, every step, claimed index in {0..n+2, 255},
	// sender key in operators + outsider, session in {same, other}, operating in {yes, no}
	configs := [][]int{{1, 2, 2, 3, 4}, {3, 1, 3, 2, 3}, {1, 2, 3, 4, 5}}
	nCfg := o.Count(1, len(configs))
	for ci := 0; ci < nCfg; ci++ {
		ops := configs[ci]
		if o.Tier == "quick" {
			ops = configs[int(o.Seed)%len(configs)]
		}
		n := len(ops)
		keys := append(distinct(ops), fk.Outsider)
		r := rng.Fork(fmt.Sprintf("exh%d", ci))
		for _, step := range steps {
			st := siteOf(step)
			self := r.Range(1, n)
			for _, idx := range []int{0, 1, 2, 3, 4, 5, 6, 7, 255} {
				for _, key := range keys {
					for _, same := range []bool{true, false} {
						for _, operating := range []bool{true, false} {
							c := base(step, ops, self)
							c.Idx, c.Key, c.SameSession = idx, key, same
							if !operating {
								if r.Bool() {
									c.IA = []int{idx}
								} else {
									c.DQ = []int{idx}
								}
								if idx == 0 || idx > n {
									// not a member: cannot be marked; exclude another member instead
									c.IA, c.DQ = []int{r.Range(1, n)}, nil
								}
							}
							c.MsgKind = r.Intn(16)
							c.Leader = ops[r.Intn(n)]
							// secondary dimensions: mostly neutral, sometimes adverse
							switch st.Kind {
							case "keyed":
								c.KeyUsedOK = !r.Chance(1, 5)
							case "announce":
								c.ProtoOK = !r.Chance(1, 5)
							case "follower":
								c.ProtoOK = !r.Chance(1, 6)
								c.Allowed = !r.Chance(1, 3)
							case "done":
								c.ProtoOK = !r.Chance(1, 8)
								c.EndBlockOK = !r.Chance(1, 8)
								c.HasSig = !r.Chance(1, 8)
								c.AlreadyDone = r.Chance(1, 4)
							}
							run(c, em, fmt.Sprintf("exh%d-%s-i%d-k%d-%v-%v", ci, step, idx, key, same, operating))
						}
					}
				}
			}
		}
	}

	// --- random groups of other sizes, several seats per operator, several exclusions
	nRand := o.Count(300, 6000)
	for i := 0; i < nRand; i++ {
		r := rng.Fork(fmt.Sprintf("rand%d", i))
		n := r.Range(3, 12)
		switch r.Intn(8) {
		case 0:
			n = r.Range(13, 100)
		case 1:
			n = []int{64, 100, 254, 255}[r.Intn(4)]
		}
		nOps := r.Range(1, n)
		if nOps > 20 {
			nOps = r.Range(3, 20)
		}
		ops := make([]int, n)
		for j := range ops {
			ops[j] = 1 + r.Intn(nOps)
		}
		step := steps[r.Intn(len(steps))]
		c := base(step, ops, r.Range(1, n))
		switch r.Intn(6) {
		case 0:
			c.Idx = []int{0, 255, n + 1, n + 2, c.Self}[r.Intn(5)]
		case 1:
			c.Idx = r.Intn(256)
		default:
			c.Idx = r.Range(1, n)
		}
		if c.Idx > 255 {
			c.Idx = 255
		}
		switch r.Intn(4) {
		case 0:
			c.Key = fk.Outsider
		case 1:
			c.Key = ops[r.Intn(n)]
		default: // the holder of the claimed seat (mostly valid traffic)
			if c.Idx >= 1 && c.Idx <= n {
				c.Key = ops[c.Idx-1]
			} else {
				c.Key = ops[r.Intn(n)]
			}
		}
		c.SameSession = !r.Chance(1, 5)
		for k := r.Intn(3); k > 0; k-- {
			v := r.Range(1, n)
			if r.Chance(1, 2) && c.Idx >= 1 && c.Idx <= n {
				v = c.Idx
			}
			if r.Bool() {
				c.IA = append(c.IA, v)
			} else {
				c.DQ = append(c.DQ, v)
			}
		}
		c.IA, c.DQ = dedupExcl(c.IA, c.DQ)
		c.KeyUsedOK = !r.Chance(1, 6)
		c.ProtoOK = !r.Chance(1, 8)
		c.Leader = ops[r.Intn(n)]
		c.Allowed = !r.Chance(1, 4)
		c.EndBlockOK = !r.Chance(1, 10)
		c.HasSig = !r.Chance(1, 10)
		c.AlreadyDone = r.Chance(1, 5)
		c.MsgKind = r.Intn(16)
		run(c, em, fmt.Sprintf("rand-%d", i))
	}

	// --- the validator has no memory: histories on one shared validator / receiving state
	histories(o, rng.Fork("histories"), em)
	pipelines(o, rng.Fork("pipelines"), em)

	em.Close("a case is one message delivered to one protocol step (one of the 30 call sites of "+
		"shouldAcceptMessage / IsValidMembership) in a freshly built receiver, or one history of validations / "+
		"messages on ONE shared MembershipValidator / receiving state (fresh key slices, one reused key buffer, "+
		"key slice overwritten after the call, concurrent goroutines); distinct by the whole input; "+
		"non-trivial (adversarial) when the message has to be refused for at least one reason: the claimed index is "+
		"not a seat of the sender's operator, it is the receiver's own, another session/protocol, an excluded "+
		"member, or a foreign key inside the payload (histories: at least one call has to be refused and at least two "+
		"different keys occur)",
		map[string]interface{}{"call_sites_in_table": len(sites), "call_sites_found": len(found)})
}

// a member is marked at most once (Mark* ignores members that are no longer operating): keep the
// first marking so that the lists given to the model are the lists the group ends up with
func dedupExcl(ia, dq []int) ([]int, []int) {
	seen := map[int]bool{}
	var a, d []int
	for _, v := range ia {
		if !seen[v] {
			seen[v] = true
			a = append(a, v)
		}
	}
	for _, v := range dq {
		if !seen[v] {
			seen[v] = true
			d = append(d, v)
		}
	}
	return a, d
}
