// Package fk holds the fakes shared by the C12 and C13 drivers: a table-driven chain.Signing
// (key -> address oracle, tagged-bit signatures), a net.Message and a net.BroadcastChannel that
// hands the registered handler to the driver.
package fk

import (
	"context"
	"encoding/binary"
	"fmt"

	logging "github.com/ipfs/go-log/v2"

	"github.com/keep-network/keep-core/pkg/chain"
	"github.com/keep-network/keep-core/pkg/net"
	"github.com/keep-network/keep-core/pkg/operator"
)

var Logger = logging.Logger("verif-c12")

func init() { logging.SetAllLoggers(logging.LevelFatal) }

// Outsider is the identifier of the key (and address) that belongs to no operator of the group.
const Outsider = 1000

// KeyBytes is the network public key of operator id (one key per operator): 65 bytes.
func KeyBytes(id int) []byte {
	b := make([]byte, 65)
	b[0] = 4
	x := uint64(id)*0x9E3779B97F4A7C15 + 0x1234567
	for i := 1; i+8 <= 65; i += 8 {
		x ^= x >> 29
		x *= 0xBF58476D1CE4E5B9
		binary.BigEndian.PutUint64(b[i:], x)
	}
	binary.BigEndian.PutUint32(b[61:], uint32(id))
	return b
}

// KeyID inverts KeyBytes (0 when the bytes are not a key made by KeyBytes).
func KeyID(b []byte) int {
	if len(b) != 65 {
		return 0
	}
	id := int(binary.BigEndian.Uint32(b[61:]))
	if string(KeyBytes(id)) != string(b) {
		return 0
	}
	return id
}

// Addr is the chain address of operator id.
func Addr(id int) chain.Address {
	return chain.Address(fmt.Sprintf("0x%040x", uint64(id)*7919+13))
}

// AddrID inverts Addr over the given candidate ids (0 when unknown).
func AddrID(a chain.Address, ids []int) int {
	for _, id := range ids {
		if Addr(id) == a {
			return id
		}
	}
	return 0
}

// ---------------------------------------------------------------- chain.Signing

// Signer is the key -> address oracle and a stub signature scheme in which a signature is the
// triple (key id, hash id, valid bit): Sig(k, h, ok) = 8 bytes k | 8 bytes h | 1 byte ok.
type Signer struct {
	Self int // operator id of the local operator
}

func (s *Signer) Address() chain.Address { return Addr(s.Self) }
func (s *Signer) PublicKey() []byte      { return KeyBytes(s.Self) }
func (s *Signer) Sign(message []byte) ([]byte, error) {
	return Sig(s.Self, HashID(message), true), nil
}
func (s *Signer) Verify(message []byte, signature []byte) (bool, error) {
	return s.VerifyWithPublicKey(message, signature, s.PublicKey())
}
func (s *Signer) VerifyWithPublicKey(message []byte, signature []byte, publicKey []byte) (bool, error) {
	k, h, ok, wf := SigParts(signature)
	if !wf {
		return false, fmt.Errorf("malformed signature")
	}
	return ok && k == KeyID(publicKey) && h == HashID(message), nil
}
func (s *Signer) PublicKeyToAddress(publicKey *operator.PublicKey) (chain.Address, error) {
	return "", fmt.Errorf("not used")
}
func (s *Signer) PublicKeyBytesToAddress(publicKey []byte) chain.Address {
	id := KeyID(publicKey)
	if id == 0 {
		return chain.Address("0xunknown")
	}
	return Addr(id)
}

// Hash32 is the 32-byte hash with identifier h (< 4096).
func Hash32(h int) [32]byte {
	var out [32]byte
	for i := range out {
		out[i] = byte(37*h + i)
	}
	binary.BigEndian.PutUint32(out[28:], uint32(h))
	return out
}

// HashID inverts Hash32 (4095 when unknown).
func HashID(b []byte) int {
	if len(b) != 32 {
		return 4095
	}
	h := int(binary.BigEndian.Uint32(b[28:]))
	x := Hash32(h)
	if string(x[:]) != string(b) {
		return 4095
	}
	return h
}

func Sig(key, hash int, ok bool) []byte {
	b := make([]byte, 17)
	binary.BigEndian.PutUint64(b, uint64(key))
	binary.BigEndian.PutUint64(b[8:], uint64(hash))
	if ok {
		b[16] = 1
	}
	return b
}

func SigParts(b []byte) (key, hash int, ok bool, wellFormed bool) {
	if len(b) != 17 || b[16] > 1 {
		return 0, 0, false, false
	}
	return int(binary.BigEndian.Uint64(b)), int(binary.BigEndian.Uint64(b[8:])), b[16] == 1, true
}

// SigN is the Coq-side identifier of a signature: 2*(4096*key + hash) + valid bit
// (Model/C13.v stub_verify); 0 for bytes that are not a stub signature.
func SigN(b []byte) uint64 {
	k, h, ok, wf := SigParts(b)
	if !wf {
		return 0
	}
	v := uint64(2 * (4096*k + h))
	if ok {
		v++
	}
	return v
}

// ---------------------------------------------------------------- net.Message

type tid string

func (t tid) String() string { return string(t) }

type Msg struct {
	Key       []byte
	P         interface{}
	OnPayload func() // called every time the receiver reads the payload
}

func (m *Msg) TransportSenderID() net.TransportIdentifier {
	return tid(fmt.Sprintf("%x", m.Key[len(m.Key)-4:]))
}
func (m *Msg) SenderPublicKey() []byte { return m.Key }
func (m *Msg) Payload() interface{} {
	if m.OnPayload != nil {
		m.OnPayload()
	}
	return m.P
}
func (m *Msg) Type() string {
	if t, ok := m.P.(interface{ Type() string }); ok {
		return t.Type()
	}
	return "verif/none"
}
func (m *Msg) Seqno() uint64 { return 0 }

// Sentinel is a payload no receiver understands.
type Sentinel struct{}

func (Sentinel) Type() string { return "verif/sentinel" }

// ---------------------------------------------------------------- net.BroadcastChannel

type Chan struct {
	Handlers     []func(m net.Message)
	Unmarshalers map[string]func() net.TaggedUnmarshaler
	OnRecv       func(handler func(m net.Message)) // called inside Recv, after the handler is registered
	OnSend       func(message net.TaggedMarshaler) // called inside Send
	SentMessages []net.TaggedMarshaler
}

func NewChan() *Chan { return &Chan{Unmarshalers: map[string]func() net.TaggedUnmarshaler{}} }

func (c *Chan) Name() string { return "verif" }
func (c *Chan) Send(ctx context.Context, message net.TaggedMarshaler, _ ...net.RetransmissionStrategy) error {
	c.SentMessages = append(c.SentMessages, message)
	if c.OnSend != nil {
		c.OnSend(message)
	}
	return nil
}
func (c *Chan) Recv(ctx context.Context, handler func(m net.Message)) {
	c.Handlers = append(c.Handlers, handler)
	if c.OnRecv != nil {
		c.OnRecv(handler)
	}
}
func (c *Chan) SetUnmarshaler(unmarshaler func() net.TaggedUnmarshaler) {
	c.Unmarshalers[unmarshaler().Type()] = unmarshaler
}
func (c *Chan) SetFilter(filter net.BroadcastChannelFilter) error { return nil }
