// Near-collision families for C37: histories in which a base event A is followed by events B that
// differ from A in exactly ONE position of ONE field (one hex digit of the seed, of the result hash
// or of the wallet ID; one decimal digit or one bit of the block number; a length change of the
// seed or of the block), and then by A and the B's again. The Coq judge decides from the
// STRUCTURED events (Model/C37.v ev_eqb) which deliveries are first deliveries (must be handled)
// and which are repetitions (must be ignored); nothing is decided here.
package main

import (
	"encoding/hex"
	"fmt"
	"math/big"
	"strconv"
	"strings"

	"verifharness/lib"
)

const hexDigits = "0123456789abcdef"

// fields renders the event's fields as the digit strings the property talks about:
// hexadecimal seed (with sign), 64 hex digits of hash / wallet ID, decimal block.
func (d delivery) fields() [3]string {
	var f [3]string
	switch d.Kind {
	case "started", "beacon":
		f[0] = d.seed().Text(16)
	case "closed":
		h := d.hash()
		f[1] = hex.EncodeToString(h[:])
	default:
		h := d.hash()
		f[0], f[1], f[2] = d.seed().Text(16), hex.EncodeToString(h[:]), strconv.FormatUint(d.Block, 10)
	}
	return f
}

// near: two DIFFERENT events of one kind that differ in one field only, and there either in a
// single digit or by one digit added / removed at either end.
func near(a, b delivery) bool {
	if a.Kind != b.Kind {
		return false
	}
	fa, fb := a.fields(), b.fields()
	diff := -1
	for i := range fa {
		if fa[i] != fb[i] {
			if diff >= 0 {
				return false
			}
			diff = i
		}
	}
	if diff < 0 {
		return false
	}
	x, y := fa[diff], fb[diff]
	if len(x) == len(y) {
		n := 0
		for i := range x {
			if x[i] != y[i] {
				n++
			}
		}
		return n == 1
	}
	if len(x) > len(y) {
		x, y = y, x
	}
	return len(y) == len(x)+1 && (strings.HasPrefix(y, x) || strings.HasSuffix(y, x))
}

// otherDigit returns a digit of the alphabet different from c. mode 0: random; 1: the neighbour
// obtained by flipping the lowest bit of the digit's value; 2: the successor (cyclic).
func otherDigit(r *lib.Rng, alphabet string, c byte, mode int) byte {
	i := strings.IndexByte(alphabet, c)
	n := len(alphabet)
	switch mode {
	case 1:
		j := i ^ 1
		if j >= n {
			j = i - 1
		}
		return alphabet[j]
	case 2:
		return alphabet[(i+1)%n]
	}
	return alphabet[(i+1+r.Intn(n-1))%n]
}

func setDigit(s string, i int, c byte) string { return s[:i] + string(c) + s[i+1:] }

// seedOfHex: decimal rendering of a (possibly negative, possibly zero-padded) hexadecimal string.
func seedOfHex(h string) (string, bool) {
	z, ok := new(big.Int).SetString(h, 16)
	if !ok {
		return "", false
	}
	return z.String(), true
}

// hashVariants: one event per hex digit of the hash / wallet ID (first to last).
func hashVariants(r *lib.Rng, a delivery, mode int) []delivery {
	h := a.fields()[1]
	var out []delivery
	for i := 0; i < len(h); i++ {
		b := a
		b.Hash = setDigit(h, i, otherDigit(r, hexDigits, h[i], mode))
		out = append(out, b)
	}
	// transpositions: neighbouring digits / neighbouring bytes swapped, the hash reversed
	for _, i := range []int{0, 31, 62} {
		if h[i] != h[i+1] {
			b := a
			b.Hash = h[:i] + string(h[i+1]) + string(h[i]) + h[i+2:]
			out = append(out, b)
		}
	}
	for _, i := range []int{0, 30, 60} {
		if h[i:i+2] != h[i+2:i+4] {
			b := a
			b.Hash = h[:i] + h[i+2:i+4] + h[i:i+2] + h[i+4:]
			out = append(out, b)
		}
	}
	return out
}

// seedVariants: one event per hex digit of the seed, then the length changes (a digit added or
// removed at either end, a leading zero — which is the SAME seed —, the sign).
func seedVariants(r *lib.Rng, a delivery, mode int) []delivery {
	s := a.fields()[0]
	neg := strings.HasPrefix(s, "-")
	s = strings.TrimPrefix(s, "-")
	sign := ""
	if neg {
		sign = "-"
	}
	var hs []string
	for i := 0; i < len(s); i++ {
		hs = append(hs, sign+setDigit(s, i, otherDigit(r, hexDigits, s[i], mode)))
	}
	d := string(hexDigits[r.Intn(16)])
	hs = append(hs,
		sign+"0"+s,          // 0xab vs 0x0ab: the same number, the same event
		sign+s+"0",          // 0xab0
		sign+s+d,            // one more digit at the end
		sign+"1"+s,          // one more digit in front
		sign+d+s,            //
		sign+s+s[len(s)-1:], // last digit doubled
		sign+s[:1]+s,        // first digit doubled
	)
	if len(s) > 1 {
		hs = append(hs, sign+s[1:], sign+s[:len(s)-1])
	}
	if neg {
		hs = append(hs, s)
	} else {
		hs = append(hs, "-"+s)
	}
	var out []delivery
	for _, h := range hs {
		if dec, ok := seedOfHex(h); ok {
			b := a
			b.Seed = dec
			out = append(out, b)
		}
	}
	return out
}

// blockDigitVariants: one event per decimal digit of the block, then the length changes.
func blockDigitVariants(r *lib.Rng, a delivery, mode int) []delivery {
	s := strconv.FormatUint(a.Block, 10)
	var ts []string
	for i := 0; i < len(s); i++ {
		ts = append(ts, setDigit(s, i, otherDigit(r, "0123456789", s[i], mode)))
	}
	d := string("0123456789"[r.Intn(10)])
	ts = append(ts, s+"0", s+d, "1"+s, s+s[len(s)-1:], s[:1]+s)
	if len(s) > 1 {
		ts = append(ts, s[1:], s[:len(s)-1])
	}
	var out []delivery
	for _, t := range ts {
		if v, err := strconv.ParseUint(t, 10, 64); err == nil {
			b := a
			b.Block = v
			out = append(out, b)
		}
	}
	// neighbours, and the values that int(block) renders with a minus sign
	for _, v := range []uint64{a.Block + 1, a.Block - 1, -a.Block, ^a.Block} {
		b := a
		b.Block = v
		out = append(out, b)
	}
	return out
}

// blockBitVariants: one event per bit of the 64-bit block number.
func blockBitVariants(a delivery) []delivery {
	var out []delivery
	for k := 0; k < 64; k++ {
		b := a
		b.Block = a.Block ^ (1 << uint(k))
		out = append(out, b)
	}
	return out
}

// nearHistories cuts the variants into chunks and builds one history per chunk:
//
//	A, B1 … Bn, A, B1 … Bn      sequentially (style 0), or
//	{A, B1 … B7} concurrently, {B8 …}, then everything again concurrently (style 1), or
//	B1 … Bn, A, Bn … B1, A      (style 2: the variants first).
func nearHistories(r *lib.Rng, a delivery, vs []delivery, chunk int) [][]batch {
	var out [][]batch
	one := func(ds ...delivery) batch { return batch{Deliveries: ds} }
	for lo := 0; lo < len(vs); lo += chunk {
		hi := lo + chunk
		if hi > len(vs) {
			hi = len(vs)
		}
		c := vs[lo:hi]
		var bs []batch
		switch r.Intn(3) {
		case 0:
			bs = append(bs, one(a))
			for _, b := range c {
				bs = append(bs, one(b))
			}
			bs = append(bs, one(a))
			for _, b := range c {
				bs = append(bs, one(b))
			}
		case 1:
			all := append([]delivery{a}, c...)
			for i := 0; i < len(all); i += 8 {
				j := i + 8
				if j > len(all) {
					j = len(all)
				}
				bs = append(bs, one(all[i:j]...))
			}
			for i := 0; i < len(all); i += 8 {
				j := i + 8
				if j > len(all) {
					j = len(all)
				}
				bs = append(bs, one(all[i:j]...))
			}
		default:
			for _, b := range c {
				bs = append(bs, one(b))
			}
			bs = append(bs, one(a))
			for i := len(c) - 1; i >= 0; i-- {
				bs = append(bs, one(c[i]))
			}
			bs = append(bs, one(a))
		}
		out = append(out, bs)
	}
	return out
}

// nearBase: a base event for the sweeps. shape 0: full-size random fields; 1: short seed, small
// block; 2: extreme values (zero / all-ones fields).
func nearBase(r *lib.Rng, kind string, shape int) delivery {
	d := delivery{Kind: kind}
	var seed, hash string
	var block uint64
	switch shape {
	case 0:
		seed = new(big.Int).SetBytes(r.Bytes(32)).String()
		hash = hex.EncodeToString(r.Bytes(32))
		block = uint64(10000000 + r.Intn(20000000))
	case 1:
		seed = seedFromHex(hexOf(r, 1, "123456789abcdef") + hexOf(r, r.Range(0, 5), hexDigits))
		if r.Chance(1, 4) {
			seed = "-" + seed
		}
		hash = hexOf(r, 64, "01f")
		block = uint64(r.Intn(1000))
	default:
		seed = []string{"0", "1", seedFromHex(strings.Repeat("f", 64)), seedFromHex("1" + strings.Repeat("0", 63))}[r.Intn(4)]
		hash = strings.Repeat([]string{"0", "f", "a"}[r.Intn(3)], 64)
		block = []uint64{0, 1, 9, 10, 1<<63 - 1, 1 << 63, 1<<64 - 1, 9999999999}[r.Intn(8)]
	}
	switch kind {
	case "started", "beacon":
		d.Seed = seed
	case "closed":
		d.Hash = hash
	default:
		d.Seed, d.Hash, d.Block = seed, hash, block
	}
	return d
}

// nearFamilies runs the sweeps of every field of every kind of event from one base per kind
// (sweeps=false: only the seed and block-digit families, which are short for short fields).
func nearFamilies(rng *lib.Rng, em *lib.Emitter, label string, shape, chunk int, sweeps bool) {
	emit := func(r *lib.Rng, name string, a delivery, vs []delivery) {
		for i, bs := range nearHistories(r, a, vs, chunk) {
			run(input{0, bs}, em, fmt.Sprintf("near-%s-%s-%d", label, name, i))
		}
	}
	for _, kind := range []string{"result", "started", "closed", "beacon"} {
		r := rng.Fork("near-" + label + "-" + kind)
		a := nearBase(r, kind, shape)
		mode := r.Intn(3)
		if kind != "closed" {
			emit(r, kind+"-seed", a, seedVariants(r, a, mode))
		}
		if (kind == "closed" || kind == "result") && sweeps {
			emit(r, kind+"-hash", a, hashVariants(r, a, mode))
		}
		if kind == "result" {
			emit(r, kind+"-blockdigit", a, blockDigitVariants(r, a, mode))
			if sweeps {
				emit(r, kind+"-blockbit", a, blockBitVariants(a))
			}
		}
	}
}
