// Driver for C37: runs the real tbtc and beacon event deduplicators on histories of event
// deliveries — sequential ones and batches of concurrent deliveries whose overlap is forced at the
// verifhook yield point inside the notify functions — and prints the histories for the Coq model
// (Model/C37.v).
package main

import (
	"encoding/hex"
	"fmt"
	"math/big"
	"os"
	"sort"
	"strings"
	"sync"
	"time"

	"github.com/keep-network/keep-core/pkg/beacon/event"
	"github.com/keep-network/keep-core/pkg/tbtc"

	"verifharness/lib"
)

// One event delivery. Kind: "started" | "result" | "closed" | "beacon".
type delivery struct {
	Kind  string `json:"kind"`
	Seed  string `json:"seed,omitempty"` // decimal big integer
	Hash  string `json:"hash,omitempty"` // 64 hex digits (result hash / wallet ID)
	Block uint64 `json:"block,omitempty"`
}

type batch struct {
	Deliveries  []delivery `json:"deliveries"`
	SleepBefore bool       `json:"sleep_before,omitempty"` // sleep longer than the period first
}

type input struct {
	PeriodMs int     `json:"period_ms"` // 0: newDeduplicator() with the production periods
	Batches  []batch `json:"batches"`
}

func (d delivery) id() string {
	return fmt.Sprintf("%s/%s/%s/%d", d.Kind, d.Seed, d.Hash, d.Block)
}

func (d delivery) seed() *big.Int {
	z, ok := new(big.Int).SetString(d.Seed, 10)
	if !ok {
		return big.NewInt(0)
	}
	return z
}

func (d delivery) hash() (h [32]byte) {
	b, _ := hex.DecodeString(d.Hash)
	copy(h[:], b)
	return
}

// oldKey is the cache key the code used before the fix (no separators); used only to mark
// cases that contain a pair of distinct events colliding under it.
func (d delivery) oldKey() string {
	switch d.Kind {
	case "result":
		h := d.hash()
		return "r" + d.seed().Text(16) + hex.EncodeToString(h[:]) + fmt.Sprint(int(d.Block))
	case "closed":
		return "c" + d.Hash
	case "beacon":
		return "b" + d.seed().Text(16)
	}
	return "s" + d.seed().Text(16)
}

func hx(h [32]byte) string { return "(H \"" + hex.EncodeToString(h[:]) + "\"%string)" }

func (d delivery) coqEv() string {
	h := d.hash()
	switch d.Kind {
	case "started":
		return "(DkgStarted " + lib.ZBig(d.seed()) + ")"
	case "beacon":
		return "(BeaconDkgStarted " + lib.ZBig(d.seed()) + ")"
	case "closed":
		return "(WalletClosed " + hx(h) + ")"
	}
	return "(DkgResult " + lib.ZBig(d.seed()) + " " + hx(h) + " " + lib.N(d.Block) + ")"
}

type dedups struct {
	t *tbtc.VerifC37Deduplicator
	b *event.Deduplicator
}

func (dd *dedups) call(d delivery) (res string) {
	defer func() {
		if r := recover(); r != nil {
			res = "panic"
		}
	}()
	var ok bool
	switch d.Kind {
	case "started":
		ok = dd.t.NotifyDKGStarted(d.seed())
	case "beacon":
		ok = dd.b.NotifyDKGStarted(d.seed())
	case "closed":
		ok = dd.t.NotifyWalletClosed(d.hash())
	default:
		ok = dd.t.NotifyDKGResultSubmitted(d.seed(), d.hash(), d.Block)
	}
	if ok {
		return "true"
	}
	return "false"
}

// hookMu serialises the use of the (global) yield-point handler.
var hookMu sync.Mutex

// runBatch delivers all events of the batch from their own goroutines. Every goroutine is held
// at the yield point inside the notify function (after Sweep, before the cache decision) until
// all of them have arrived there (or returned without passing it), so that all deliveries of
// the batch overlap. No wall-clock timeouts are involved.
func runBatch(dd *dedups, ds []delivery) []string {
	res := make([]string, len(ds))
	if len(ds) == 1 {
		res[0] = dd.call(ds[0])
		return res
	}
	hookMu.Lock()
	defer hookMu.Unlock()
	var mu sync.Mutex
	n := len(ds)
	accounted := 0 // goroutines parked at the yield point + calls returned before the gate opened
	open := false
	gate := make(chan struct{})
	account := func() {
		mu.Lock()
		accounted++
		if accounted >= n && !open {
			open = true
			close(gate)
		}
		mu.Unlock()
	}
	tbtc.VerifC37SetHook(func(string) {
		account()
		<-gate
	})
	var wg sync.WaitGroup
	for i := range ds {
		wg.Add(1)
		go func(i int) {
			defer wg.Done()
			res[i] = dd.call(ds[i])
			// a call that returned without passing the yield point must not block the others
			// (a parked goroutine cannot get here before the gate is open)
			account()
		}(i)
	}
	wg.Wait()
	tbtc.VerifC37SetHook(nil)
	return res
}

const sleepMargin = 200 * time.Millisecond

func run(in input, em *lib.Emitter, id string) {
	dd := &dedups{b: event.NewDeduplicator(nil)}
	spans := []int64{
		int64(tbtc.DKGSeedCachePeriod), int64(tbtc.DKGResultHashCachePeriod),
		int64(tbtc.WalletClosedCachePeriod), int64(event.DKGSeedCachePeriod),
	}
	period := time.Duration(in.PeriodMs) * time.Millisecond
	if in.PeriodMs > 0 {
		dd.t = tbtc.VerifC37NewDeduplicatorWithPeriods(period, period, period)
		spans[0], spans[1], spans[2] = int64(period), int64(period), int64(period)
	} else {
		dd.t = tbtc.VerifC37NewDeduplicator()
	}
	logical := int64(0)
	start := time.Now()
	var batches []string
	var outs [][]string
	concurrentDup, collision, nearCollision, panicked := false, false, false, false
	var all []delivery
	kinds := map[string]bool{}
	oldKeys := map[string]string{}
	nDeliveries := 0
	for _, b := range in.Batches {
		if b.SleepBefore && in.PeriodMs > 0 {
			time.Sleep(period + sleepMargin)
			logical += int64(period) + 1
		}
		res := runBatch(dd, b.Deliveries)
		outs = append(outs, res)
		seen := map[string]bool{}
		var items []string
		for i, d := range b.Deliveries {
			nDeliveries++
			kinds[d.Kind] = true
			if seen[d.id()] {
				concurrentDup = true
			}
			seen[d.id()] = true
			if prev, ok := oldKeys[d.oldKey()]; ok && prev != d.id() {
				collision = true
			}
			oldKeys[d.oldKey()] = d.id()
			all = append(all, d)
			key := "None"
			if d.Kind == "result" {
				key = fmt.Sprintf("(Some \"%s\"%%string)",
					tbtc.VerifC37DKGResultSubmittedCacheKey(d.seed(), d.hash(), d.Block))
			}
			if res[i] == "panic" {
				panicked = true
			}
			items = append(items, fmt.Sprintf("{| d_ev := %s; d_ts := %s; d_ta := %s; d_key := %s; d_res := %s |}",
				d.coqEv(), lib.Z(logical), lib.Z(logical), key, lib.Bool(res[i] == "true")))
		}
		batches = append(batches, lib.List(items))
	}
	elapsed := time.Since(start)
	if in.PeriodMs > 0 {
		// Deliveries that the case places inside one caching period must really have been:
		// the whole run minus the deliberate sleeps has to fit in one period. Otherwise the
		// schedule is inconclusive (never a verdict from wall-clock time).
		sleeps := 0
		for _, b := range in.Batches {
			if b.SleepBefore {
				sleeps++
			}
		}
		if elapsed-time.Duration(sleeps)*(period+sleepMargin) > period/2 {
			em.Tally("inconclusive-timing-skipped")
			return
		}
	}
	if panicked {
		em.Tally("panic")
	}
	// near-collision: two different events of one kind that differ in a single digit of a single
	// field (or by one digit added / removed at an end of it)
	{
		seenID := map[string]bool{}
		var uniq []delivery
		for _, d := range all {
			if !seenID[d.id()] {
				seenID[d.id()] = true
				uniq = append(uniq, d)
			}
		}
	outer:
		for i := range uniq {
			for j := i + 1; j < len(uniq); j++ {
				if near(uniq[i], uniq[j]) {
					nearCollision = true
					break outer
				}
			}
		}
	}
	var ks []string
	for k := range kinds {
		ks = append(ks, k)
	}
	sort.Strings(ks)
	sp := make([]string, len(spans))
	for i, s := range spans {
		sp[i] = lib.Z(s)
	}
	if nDeliveries <= 30 {
		em.Tally(fmt.Sprintf("deliveries-%02d", (nDeliveries+4)/5*5))
	} else {
		em.Tally("deliveries-31+")
	}
	if concurrentDup {
		em.Tally("concurrent-duplicate")
	}
	if collision {
		em.Tally("old-key-collision")
	}
	if nearCollision {
		em.Tally("near-collision")
	}
	em.Case(lib.Case{
		ID:         id,
		Coq:        fmt.Sprintf("{| c_spans := %s; c_panic := %s; c_hist := %s |}", lib.List(sp), lib.Bool(panicked), lib.List(batches)),
		Key:        fmt.Sprintf("%d|%v", in.PeriodMs, in.Batches),
		Nontrivial: concurrentDup || collision || nearCollision,
		Sig: map[string]interface{}{"kinds": strings.Join(ks, ","), "concurrent_duplicate": concurrentDup,
			"old_key_collision": collision, "near_collision": nearCollision, "expiry": in.PeriodMs > 0},
		In:  in,
		Out: outs,
	})
}

// ---------------------------------------------------------------- generators

func hexOf(r *lib.Rng, n int, alphabet string) string {
	b := make([]byte, n)
	for i := range b {
		b[i] = alphabet[r.Intn(len(alphabet))]
	}
	return string(b)
}

func seedFromHex(h string) string {
	z, _ := new(big.Int).SetString(h, 16)
	return z.String()
}

// splitFamily returns the DKG-result events obtained by cutting one digit string
// seedhex ‖ hash(64) ‖ blockdec at different positions: all of them collided before the fix.
func splitFamily(s string, maxSeedLen int) []delivery {
	var out []delivery
	for a := 1; a <= maxSeedLen && a+64 < len(s); a++ {
		seed, hash, block := s[:a], s[a:a+64], s[a+64:]
		if (len(seed) > 1 && seed[0] == '0') || (len(block) > 1 && block[0] == '0') || len(block) > 18 {
			continue
		}
		var bl uint64
		if _, err := fmt.Sscanf(block, "%d", &bl); err != nil {
			continue
		}
		out = append(out, delivery{Kind: "result", Seed: seedFromHex(seed), Hash: hash, Block: bl})
	}
	return out
}

func randomEvent(r *lib.Rng) delivery {
	kind := []string{"started", "result", "closed", "beacon"}[r.Intn(4)]
	var seed string
	switch r.Intn(6) {
	case 0:
		seed = fmt.Sprint(r.Intn(3)) // 0,1,2
	case 1:
		seed = seedFromHex(hexOf(r, r.Range(1, 4), "01ab"))
	case 2:
		seed = "-" + seedFromHex(hexOf(r, r.Range(1, 3), "1ab"))
	default:
		seed = new(big.Int).SetBytes(r.Bytes(32)).String()
	}
	var hash string
	switch r.Intn(3) {
	case 0:
		hash = strings.Repeat([]string{"0", "1", "c", "f"}[r.Intn(4)], 64)
	case 1:
		hash = hexOf(r, 64, "017")
	default:
		hash = hex.EncodeToString(r.Bytes(32))
	}
	var block uint64
	switch r.Intn(5) {
	case 0:
		block = uint64(r.Intn(3))
	case 1:
		block = r.U64() // may exceed 2^63: int(block) is negative
	case 2:
		block = ^uint64(0) - uint64(r.Intn(2))
	default:
		block = uint64(r.Intn(20000000))
	}
	d := delivery{Kind: kind}
	switch kind {
	case "started", "beacon":
		d.Seed = seed
	case "closed":
		d.Hash = hash
	default:
		d.Seed, d.Hash, d.Block = seed, hash, block
	}
	return d
}

func main() {
	o := lib.ParseOpts()
	em := lib.NewEmitter()
	if o.Replay != "" {
		var in input
		if err := lib.LoadReplay(o.Replay, &in); err != nil {
			fmt.Fprintln(os.Stderr, err)
			os.Exit(2)
		}
		run(in, em, "replay")
		em.Close("replay", nil)
		return
	}
	rng := lib.NewRng(o.Seed)
	one := func(ds ...delivery) batch { return batch{Deliveries: ds} }

	// --- corpus: the old witnesses of the two repaired defects and regression cases
	x := strings.Repeat("c", 63)
	colA := delivery{Kind: "result", Seed: seedFromHex("ab"), Hash: "1" + x, Block: 71234}
	colB := delivery{Kind: "result", Seed: seedFromHex("ab1"), Hash: x + "7", Block: 1234}
	started := delivery{Kind: "started", Seed: "100"}
	beacon := delivery{Kind: "beacon", Seed: "100"}
	closed := delivery{Kind: "closed", Hash: "07" + strings.Repeat("00", 31)}
	result := delivery{Kind: "result", Seed: "100", Hash: "01" + strings.Repeat("00", 31), Block: 5}
	run(input{0, []batch{one(started, started)}}, em, "corpus-race-started")
	run(input{0, []batch{one(result, result)}}, em, "corpus-race-result")
	run(input{0, []batch{one(closed, closed)}}, em, "corpus-race-closed")
	run(input{0, []batch{one(beacon, beacon)}}, em, "corpus-race-beacon")
	run(input{0, []batch{one(colA), one(colB)}}, em, "corpus-collision-sequential")
	run(input{0, []batch{one(colB), one(colA), one(colA), one(colB)}}, em, "corpus-collision-reversed")
	run(input{0, []batch{one(colA, colB, colA, colB)}}, em, "corpus-collision-concurrent")
	run(input{0, []batch{one(started), one(beacon), one(started, beacon, started, beacon)}}, em, "corpus-two-dedups-same-seed")
	run(input{0, []batch{one(started, started, started, started, started, started, started, started)}}, em, "corpus-race-8")
	negBlock := delivery{Kind: "result", Seed: "0", Hash: strings.Repeat("0", 64), Block: 1<<64 - 1}
	zero := delivery{Kind: "result", Seed: "0", Hash: strings.Repeat("0", 64), Block: 0}
	run(input{0, []batch{one(negBlock), one(zero), one(negBlock, zero)}}, em, "corpus-block-wrap")
	{
		// expiry, with a short real period (each case sleeps 0.8 s)
		p := 600
		run(input{p, []batch{one(started), one(started), {[]delivery{started}, true}, one(started)}}, em, "corpus-expiry-started")
		run(input{p, []batch{one(result), one(colA), {[]delivery{result}, true}, one(result), one(colA)}}, em, "corpus-expiry-result")
		run(input{p, []batch{one(closed), {[]delivery{closed}, true}, one(closed)}}, em, "corpus-expiry-closed")
	}

	{
		// near-collisions: two events that differ in one digit at an end of one field (the last
		// hex digit of the result hash next to the separator, the first one, the last seed digit,
		// the first / last block digit, the last digit of a wallet ID); 0xab / 0x0ab / 0xab0
		nz := "9f3a5c0e7d1b2a4968f7e6d5c4b3a291807f6e5d4c3b2a1908f7e6d5c4b3a2f"
		h := "0718293a4b5c6d7e8fa0b1c2d3e4f5061728394a5b6c7d8e9fb0c1d2e3f405a"
		res := func(seedHex, hash string, block uint64) delivery {
			return delivery{Kind: "result", Seed: seedFromHex(seedHex), Hash: hash, Block: block}
		}
		a := res(nz+"1", h+"3", 19876543)
		run(input{0, []batch{one(a), one(res(nz+"1", h+"4", 19876543)), one(a), one(res(nz+"1", h+"4", 19876543))}}, em, "corpus-near-hash-last-digit")
		run(input{0, []batch{one(a), one(res(nz+"1", "1"+h[1:]+"3", 19876543)), one(res(nz+"2", h+"3", 19876543)),
			one(res("8"+nz[1:]+"1", h+"3", 19876543)), one(res(nz+"1", h+"3", 19876544)), one(res(nz+"1", h+"3", 29876543)), one(a)}}, em, "corpus-near-field-ends")
		run(input{0, []batch{one(a, res(nz+"1", h+"4", 19876543), res(nz+"1", h+"5", 19876543), a, res(nz+"1", h+"4", 19876543))}}, em, "corpus-near-hash-last-digit-concurrent")
		ab, ab0, a_, b_ := res("ab", h+"3", 7), res("ab0", h+"3", 7), res("a", h+"3", 7), res("b", h+"3", 7)
		run(input{0, []batch{one(ab), one(res("0ab", h+"3", 7)), one(ab0), one(a_), one(b_), one(res("-ab", h+"3", 7)), one(ab), one(ab0)}}, em, "corpus-near-seed-length")
		sab, sab0 := delivery{Kind: "started", Seed: seedFromHex("ab")}, delivery{Kind: "started", Seed: seedFromHex("ab0")}
		bab, bab0 := delivery{Kind: "beacon", Seed: seedFromHex("ab")}, delivery{Kind: "beacon", Seed: seedFromHex("ab0")}
		run(input{0, []batch{one(sab), one(sab0), one(bab), one(bab0), one(delivery{Kind: "started", Seed: seedFromHex("0ab")}),
			one(delivery{Kind: "beacon", Seed: seedFromHex("aa")}), one(delivery{Kind: "started", Seed: seedFromHex("bb")}), one(sab, sab0, bab, bab0)}}, em, "corpus-near-started-seed-length")
		w := delivery{Kind: "closed", Hash: h + "3"}
		run(input{0, []batch{one(w), one(delivery{Kind: "closed", Hash: h + "2"}), one(delivery{Kind: "closed", Hash: "1" + h[1:] + "3"}), one(w)}}, em, "corpus-near-wallet-id")
	}

	// --- near-collision sweeps: every hex digit of the seed, of the result hash and of the
	// wallet ID, every decimal digit and every bit of the block, the length changes of seed and
	// block — for one random full-size base event per kind (exhaustive over the positions) and
	// one base with short or extreme fields
	nearFamilies(rng, em, "full", 0, 20, true)
	nearFamilies(rng, em, "small", 1+int(o.Seed%2), 20, o.Tier != "quick")
	for i := 0; i < o.Count(0, 6); i++ {
		nearFamilies(rng, em, fmt.Sprintf("t%d", i), i%3, 20, true)
	}

	// --- small-scope exhaustive: every way of cutting one digit string into seed|hash|block
	nFam := o.Count(12, 120)
	for i := 0; i < nFam; i++ {
		r := rng.Fork(fmt.Sprintf("fam%d", i))
		s := hexOf(r, 1, "123456789") + hexOf(r, 64+r.Range(4, 12), "0123456789")
		fam := splitFamily(s, 6)
		if len(fam) < 2 {
			continue
		}
		var bs []batch
		if r.Bool() {
			for _, d := range fam {
				bs = append(bs, one(d))
			}
			bs = append(bs, one(fam[r.Intn(len(fam))]))
		} else {
			bs = append(bs, one(append(append([]delivery{}, fam...), fam...)...))
		}
		run(input{0, bs}, em, fmt.Sprintf("family-%d", i))
	}

	// --- random histories over a small pool of events: sequential and concurrent batches
	nRand := o.Count(120, 1500)
	for i := 0; i < nRand; i++ {
		r := rng.Fork(fmt.Sprintf("rand%d", i))
		pool := make([]delivery, r.Range(1, 6))
		for j := range pool {
			pool[j] = randomEvent(r)
		}
		if r.Chance(1, 3) {
			// near-duplicates: the same fields under another kind, a neighbouring block
			d := pool[0]
			d.Kind = []string{"started", "result", "closed", "beacon"}[r.Intn(4)]
			if d.Seed == "" {
				d.Seed = "7"
			}
			if d.Hash == "" {
				d.Hash = strings.Repeat("0", 64)
			}
			switch d.Kind {
			case "started", "beacon":
				d.Hash, d.Block = "", 0
			case "closed":
				d.Seed, d.Block = "", 0
			}
			pool = append(pool, d)
		}
		nb := r.Range(1, 5)
		var bs []batch
		total := 0
		for b := 0; b < nb && total < 24; b++ {
			size := 1
			if r.Chance(2, 3) {
				size = r.Range(2, 8)
			}
			var ds []delivery
			for k := 0; k < size; k++ {
				ds = append(ds, pool[r.Intn(len(pool))])
			}
			total += size
			bs = append(bs, batch{Deliveries: ds})
		}
		run(input{0, bs}, em, fmt.Sprintf("rand-%d", i))
	}
	em.Close("a case is one history of event deliveries (batches of concurrent deliveries, overlap forced at the "+
		"yield point inside the notify functions) against fresh tbtc and beacon deduplicators; distinct by the "+
		"whole history; non-trivial when a batch delivers the same event concurrently at least twice, or the history "+
		"contains two distinct events whose pre-fix cache keys coincide, or it contains two distinct events of one kind "+
		"that differ in a single digit of a single field (near-collision)", nil)
}
