// Driver for C08 (tECDSA signing: any honest quorum of the final group signs validly).
//
// Cases for the Coq model (Model/C08.v):
//   - fsg:    the real tbtc finalSigningGroup (through pkg/tbtc/verif_export_c08.go) on generated
//     selections and operating sets (valid ones for every exclusion set, and malformed ones),
//   - conv:   the real signing identityConverter and tecdsa.NewSignature on generated inputs,
//   - sprobe: the real signing member / state Receive / receivedMessages / CanTransition (through
//     pkg/tecdsa/signing/verif_export_c08.go) on generated message streams,
//   - sign:   real signing.Execute runs over pkg/net/local by honest-threshold subsets of (a) the
//     3-of-5 fixture wallet and (b) wallets freshly produced by real dkg.Execute runs with
//     excluded members and registered through finalSigningGroup like registerSigner does;
//     ecdsa.Verify under the wallet key and the low-S test are evaluated here and judged
//     in Coq; thorough tier only: (c) a "derived" 3-of-5 wallet whose shares are the fixture
//     polynomial evaluated at OTHER party keys (seed + member of a larger group with exclusions,
//     e.g. 8..12), so that real signing runs over party keys of mixed digit counts.
//
// The MAGNITUDE of the party keys is a generator dimension of fsg / conv / sprobe: seeds just
// below 10, 100, 1000, 10^4, 2^32, 2^63, 2^64, 10^19, 10^20, 2^128, 2^256 so that seed + member
// crosses the boundary inside one wallet, and key lists of mixed lengths; in each of these streams
// the REAL converter (TssPartyIDToMemberIndex) is applied to every party key of the wallet and
// judged by the executable property (maps to the index holding that key, never 0 / another).
package main

import (
	"crypto/elliptic"
	"errors"
	"fmt"
	"math/big"
	"os"
	"sort"
	"sync"
	"time"

	tsscommon "github.com/bnb-chain/tss-lib/common"
	tsscrypto "github.com/bnb-chain/tss-lib/crypto"
	"github.com/bnb-chain/tss-lib/ecdsa/keygen"

	"github.com/keep-network/keep-core/pkg/chain"
	"github.com/keep-network/keep-core/pkg/protocol/group"
	"github.com/keep-network/keep-core/pkg/tbtc"
	"github.com/keep-network/keep-core/pkg/tecdsa"
	"github.com/keep-network/keep-core/pkg/tecdsa/dkg"
	"github.com/keep-network/keep-core/pkg/tecdsa/signing"

	"verifharness/cmd/c07/run"
	"verifharness/lib"
)

type fsgIn struct {
	Selected  []string `json:"selected"`
	Operating run.Idx  `json:"operating"`
	Size      int      `json:"size"`
	Quorum    int      `json:"quorum"`
	Honest    int      `json:"honest"`
	Seed      string   `json:"seed"`
}

type sigIn struct {
	R   []byte `json:"r"`
	S   []byte `json:"s"`
	Rec []byte `json:"rec"`
}

type convIn struct {
	Keys []string `json:"keys"`
	Idx  run.Idx  `json:"idx"`
	Key  []string `json:"key"`
	Sigs []sigIn  `json:"sigs"`
}

type msgIn struct {
	State   int    `json:"state"`
	Kind    int    `json:"kind"`
	Sender  uint8  `json:"sender"`
	Op      int    `json:"op"`
	Session string `json:"session"`
}

type sprobeIn struct {
	Size    int      `json:"size"`
	T       int      `json:"t"`
	Self    uint8    `json:"self"`
	Keys    []string `json:"keys"`
	DQ      run.Idx  `json:"dq"`
	SeatOp  []int    `json:"seat_op"`
	Session string   `json:"session"`
	Msgs    []msgIn  `json:"msgs"`
}

type signIn struct {
	Wallet      string    `json:"wallet"` // "fixture" | "dkg" | "derived"
	Seed        string    `json:"seed"`   // dkg and derived wallets
	Size        int       `json:"size,omitempty"` // derived wallets: seats of the key-generation group
	DkgExcluded run.Idx   `json:"dkg_excluded"`
	SeatOp      []int     `json:"seat_op"`
	Quorum      int       `json:"quorum"`
	Subsets     []run.Idx `json:"subsets"` // final indexes that sign, one signing run each
	Messages    []string  `json:"messages"`
	Chaos       run.Chaos `json:"chaos"`
	ChaosSeed   uint64    `json:"chaos_seed"`
	BudgetS     int       `json:"budget_s"`
}

type input struct {
	Fsg    *fsgIn    `json:"fsg,omitempty"`
	Conv   *convIn   `json:"conv,omitempty"`
	SProbe *sprobeIn `json:"sprobe,omitempty"`
	Sign   *signIn   `json:"sign,omitempty"`
}

func idxList(l []group.MemberIndex) string {
	v := make([]uint64, len(l))
	for i, x := range l {
		v[i] = uint64(x)
	}
	return lib.ListN(v)
}

func bigOf(s string) *big.Int {
	b, ok := new(big.Int).SetString(s, 10)
	if !ok {
		panic("bad integer " + s)
	}
	return b
}

func zlist(l []*big.Int) string {
	s := make([]string, len(l))
	for i, k := range l {
		s[i] = lib.ZBig(k)
	}
	return lib.List(s)
}

func minInt(a, b int) int {
	if a < b {
		return a
	}
	return b
}

// count picks the case count of a stream; the search tier (run automatically after a
// model/implementation disagreement) is capped so that one round stays within minutes.
func count(o lib.Opts, quick, thorough, search int) int {
	if o.N > 0 {
		return o.N
	}
	switch o.Tier {
	case "thorough":
		return thorough
	case "search":
		return search
	}
	return quick
}

// key magnitudes: powers of ten (digit count of the decimal form) and of two (word sizes)
var bounds = func() []*big.Int {
	var out []*big.Int
	for _, e := range []int64{1, 2, 3, 4, 19, 20} {
		out = append(out, new(big.Int).Exp(big.NewInt(10), big.NewInt(e), nil))
	}
	for _, e := range []uint{32, 63, 64, 128, 256} {
		out = append(out, new(big.Int).Lsh(big.NewInt(1), e))
	}
	return out
}()

// boundarySeed returns a seed at most span below a magnitude boundary (never negative), so that
// seed + member crosses the boundary for members within 1..span.
func boundarySeed(r *lib.Rng, span int) string {
	b := bounds[r.Intn(len(bounds))]
	if r.Chance(1, 2) {
		b = bounds[r.Intn(4)] // 10, 100, 1000, 10^4: the digit-count boundaries of real groups
	}
	s := new(big.Int).Sub(b, big.NewInt(int64(r.Range(1, span))))
	if s.Sign() < 0 {
		s.SetInt64(0)
	}
	return s.String()
}

// realKeyToIndex calls the real TssPartyIDToMemberIndex; 999 stands for a panic.
func realKeyToIndex(keys []*big.Int, k *big.Int) (out uint64) {
	defer func() {
		if r := recover(); r != nil {
			out = 999
		}
	}()
	return uint64(signing.VerifKeyToMemberIndex(keys, k))
}

// ---------------------------------------------------------------- finalSigningGroup

// callFsg runs the real function and renders its result as a Coq fsg_res (operators by rank).
func callFsg(selected []string, operating []group.MemberIndex, size, quorum, honest int) (coq string, human interface{},
	ops []chain.Address, idx map[group.MemberIndex]group.MemberIndex) {
	coq, human, ops, idx, _, _ = callFsgParts(selected, operating, size, quorum, honest)
	return
}

func callFsgParts(selected []string, operating []group.MemberIndex, size, quorum, honest int) (coq string, human interface{},
	ops []chain.Address, idx map[group.MemberIndex]group.MemberIndex, opsCoq, idxCoq string) {
	rank := lib.Rank(selected)
	sel := make([]chain.Address, len(selected))
	for i, s := range selected {
		sel[i] = chain.Address(s)
	}
	var err error
	panicked := ""
	func() {
		defer func() {
			if r := recover(); r != nil {
				panicked = fmt.Sprint(r)
			}
		}()
		ops, idx, err = tbtc.VerifFinalSigningGroup(sel, append([]group.MemberIndex{}, operating...),
			&tbtc.GroupParameters{GroupSize: size, GroupQuorum: quorum, HonestThreshold: honest})
	}()
	if panicked != "" {
		return "FPanic", "panic: " + panicked, nil, nil, "[]", "[]"
	}
	if err != nil {
		return "FErr", "error: " + err.Error(), nil, nil, "[]", "[]"
	}
	opIDs := make([]uint64, len(ops))
	for i, o := range ops {
		opIDs[i] = rank[string(o)] // 0 when not among the selected
	}
	keys := make([]int, 0, len(idx))
	for k := range idx {
		keys = append(keys, int(k))
	}
	sort.Ints(keys)
	pairs := make([]string, len(keys))
	hm := map[string]int{}
	for i, k := range keys {
		pairs[i] = lib.Pair(lib.N(uint64(k)), lib.N(uint64(idx[group.MemberIndex(k)])))
		hm[fmt.Sprint(k)] = int(idx[group.MemberIndex(k)])
	}
	return fmt.Sprintf("(FOk %s %s)", lib.ListN(opIDs), lib.List(pairs)),
		map[string]interface{}{"operators": ops, "indexes": hm}, ops, idx, lib.ListN(opIDs), lib.List(pairs)
}

func rankList(selected []string) string {
	rank := lib.Rank(selected)
	v := make([]uint64, len(selected))
	for i, s := range selected {
		v[i] = rank[s]
	}
	return lib.ListN(v)
}

func runFsg(in *fsgIn, em *lib.Emitter, id string) {
	out, human, _, _ := callFsg(in.Selected, in.Operating, in.Size, in.Quorum, in.Honest)
	// the keys the wallet's shares hold (Ks): seed + m over the operating members, ascending; the real
	// signing converter over them is asked for the member index of every member's party key
	seed := bigOf(in.Seed)
	ks := make([]*big.Int, len(in.Operating))
	for i, m := range in.Operating {
		ks[i] = new(big.Int).Add(seed, big.NewInt(int64(m)))
	}
	sort.SliceStable(ks, func(i, j int) bool { return ks[i].Cmp(ks[j]) < 0 })
	conv := make([]uint64, len(in.Operating))
	for i, m := range in.Operating {
		conv[i] = realKeyToIndex(ks, new(big.Int).Add(seed, big.NewInt(int64(m))))
	}
	human = map[string]interface{}{"final_signing_group": human, "ks": fmt.Sprint(ks), "key_to_index": conv}
	coq := fmt.Sprintf("(CFsg {| f_selected := %s; f_operating := %s; f_size := %s; f_quorum := %s; f_seed := %s; f_out := %s; f_conv := %s |})",
		rankList(in.Selected), idxList(in.Operating), lib.Z(int64(in.Size)), lib.Z(int64(in.Quorum)), lib.ZBig(seed), out, lib.ListN(conv))
	digits := map[int]bool{}
	for _, k := range ks {
		digits[len(k.String())] = true
	}
	if len(digits) > 1 {
		em.Tally("fsg-keys-of-mixed-digit-count")
	}
	shifted := false
	sorted := run.SortedIdx(in.Operating)
	for i, m := range sorted {
		if int(m) != i+1 {
			shifted = true
		}
	}
	kind := "ok"
	if out == "FErr" {
		kind = "err"
	} else if out == "FPanic" {
		kind = "panic"
	}
	em.Tally("fsg-" + kind)
	em.Tally(fmt.Sprintf("fsg-size-%03d", (in.Size+9)/10*10))
	em.Case(lib.Case{ID: id, Coq: coq,
		Key:        fmt.Sprintf("fsg|%v|%v|%d|%d|%s", in.Selected, in.Operating, in.Size, in.Quorum, in.Seed),
		Nontrivial: kind == "ok" && shifted,
		Sig:        map[string]interface{}{"kind": "fsg", "out": kind},
		In:         input{Fsg: in}, Out: human})
}

func addr(r *lib.Rng) string {
	const hexd = "0123456789abcdef"
	b := make([]byte, 40)
	for i := range b {
		b[i] = hexd[r.Intn(len(hexd))]
	}
	return "0x" + string(b)
}

func genSeed(r *lib.Rng) string {
	if r.Chance(1, 3) {
		return boundarySeed(r, 12)
	}
	switch r.Intn(6) {
	case 0:
		return "0"
	case 1:
		return fmt.Sprint(r.Intn(300))
	case 2:
		return new(big.Int).SetBytes(r.Bytes(8)).String()
	}
	return new(big.Int).SetBytes(r.Bytes(32)).String()
}

func genFsg(r *lib.Rng) *fsgIn {
	size := r.Range(1, 12)
	switch r.Intn(12) {
	case 0:
		size = r.Range(13, 60)
	case 1:
		size = []int{100, 254, 255}[r.Intn(3)]
	}
	nOps := r.Range(1, minInt(size, 10))
	pool := make([]string, nOps)
	for i := range pool {
		pool[i] = addr(r)
	}
	in := &fsgIn{Size: size, Seed: genSeed(r)}
	if r.Chance(1, 3) {
		in.Seed = boundarySeed(r, size) // seed + m crosses a magnitude boundary within 1..size
	}
	for i := 0; i < size; i++ {
		in.Selected = append(in.Selected, pool[r.Intn(nOps)])
	}
	// operating members through the real group type: every exclusion pattern
	g := group.NewGroup(0, size)
	nEx := 0
	switch r.Intn(4) {
	case 0:
	case 1:
		nEx = r.Range(0, minInt(3, size-1))
	default:
		nEx = r.Range(0, size-1)
	}
	for _, p := range r.Perm(size)[:nEx] {
		if r.Bool() {
			g.MarkMemberAsDisqualified(group.MemberIndex(p + 1))
		} else {
			g.MarkMemberAsInactive(group.MemberIndex(p + 1))
		}
	}
	in.Operating = g.OperatingMemberIndexes()
	if r.Chance(1, 4) { // the function sorts: any order of the same set
		p := r.Perm(len(in.Operating))
		sh := make(run.Idx, len(p))
		for i, j := range p {
			sh[i] = in.Operating[j]
		}
		in.Operating = sh
	}
	in.Quorum = r.Range(minInt(1, len(in.Operating)), len(in.Operating))
	in.Honest = r.Range(minInt(1, in.Quorum), in.Quorum)
	if r.Chance(1, 6) { // malformed inputs
		switch r.Intn(6) {
		case 0:
			in.Selected = in.Selected[:len(in.Selected)-1]
		case 1:
			in.Quorum = len(in.Operating) + 1
		case 2:
			in.Operating = append(in.Operating, 0)
		case 3:
			in.Operating = append(in.Operating, group.MemberIndex(size+1))
		case 4:
			if len(in.Operating) > 0 {
				in.Operating = append(in.Operating, in.Operating[r.Intn(len(in.Operating))])
			}
		case 5:
			in.Selected = append(in.Selected, addr(r))
		}
	}
	return in
}

// ---------------------------------------------------------------- converter + NewSignature

func runConv(in *convIn, em *lib.Emitter, id string) {
	keys := make([]*big.Int, len(in.Keys))
	for i, k := range in.Keys {
		keys[i] = bigOf(k)
	}
	idxOut := make([]string, len(in.Idx))
	humanIdx := make([]string, len(in.Idx))
	for i, m := range in.Idx {
		func() {
			defer func() {
				if r := recover(); r != nil {
					idxOut[i], humanIdx[i] = "None", "panic"
				}
			}()
			k := signing.VerifMemberIndexToKey(keys, m)
			idxOut[i], humanIdx[i] = lib.Some(lib.ZBig(k)), k.String()
		}()
	}
	keyOut := make([]uint64, len(in.Key))
	keyIn := make([]string, len(in.Key))
	for i, k := range in.Key {
		keyOut[i] = realKeyToIndex(keys, bigOf(k))
		keyIn[i] = lib.ZBig(bigOf(k))
	}
	digits := map[int]bool{}
	for _, k := range in.Keys {
		digits[len(k)] = true
	}
	if len(digits) > 1 {
		em.Tally("conv-keys-of-mixed-digit-count")
	}
	sigIn := make([]string, len(in.Sigs))
	sigOut := make([]string, len(in.Sigs))
	humanSig := make([]string, len(in.Sigs))
	for i, s := range in.Sigs {
		sigIn[i] = fmt.Sprintf("(%s, %s, %s)", lib.Bytes(s.R), lib.Bytes(s.S), lib.Bytes(s.Rec))
		func() {
			defer func() {
				if r := recover(); r != nil {
					sigOut[i], humanSig[i] = "SPanic", "panic"
				}
			}()
			sg := tecdsa.NewSignature(&tsscommon.SignatureData{R: s.R, S: s.S, SignatureRecovery: s.Rec})
			sigOut[i] = fmt.Sprintf("(SOk %s %s %s)", lib.ZBig(sg.R), lib.ZBig(sg.S), lib.Z(int64(sg.RecoveryID)))
			humanSig[i] = sg.String()
		}()
	}
	coq := fmt.Sprintf("(CConv {| v_keys := %s; v_idx := %s; v_idx_out := %s; v_key := %s; v_key_out := %s; v_sig := %s; v_sig_out := %s |})",
		zlist(keys), idxList(in.Idx), lib.List(idxOut), lib.List(keyIn), lib.ListN(keyOut), lib.List(sigIn), lib.List(sigOut))
	em.Tally("conv")
	em.Case(lib.Case{ID: id, Coq: coq, Key: fmt.Sprintf("conv|%v|%v|%v|%v", in.Keys, in.Idx, in.Key, in.Sigs),
		Nontrivial: len(in.Keys) >= 2 && len(in.Idx) > 0,
		Sig:        map[string]interface{}{"kind": "conv"},
		In:         input{Conv: in}, Out: map[string]interface{}{"idx": humanIdx, "key": keyOut, "sig": humanSig}})
}

func genConv(r *lib.Rng) *convIn {
	n := r.Range(0, 8)
	if r.Chance(1, 10) {
		n = r.Range(9, 40)
	}
	in := &convIn{}
	seed := bigOf(genSeed(r))
	if r.Chance(1, 3) {
		seed = bigOf(boundarySeed(r, 2*n+1)) // the list crosses a magnitude boundary
	}
	cur := new(big.Int).Set(seed)
	if n > 1 && r.Chance(1, 5) {
		// an ascending list of keys of unrelated magnitudes (1..80 bits)
		var ks []*big.Int
		for i := 0; i < n; i++ {
			k := new(big.Int).SetBytes(r.Bytes(10))
			k.Rsh(k, uint(r.Intn(80)))
			ks = append(ks, k)
		}
		sort.Slice(ks, func(i, j int) bool { return ks[i].Cmp(ks[j]) < 0 })
		seed = ks[0]
		for _, k := range ks {
			in.Keys = append(in.Keys, k.String())
		}
	} else {
		for i := 0; i < n; i++ {
			cur = new(big.Int).Add(cur, big.NewInt(int64(r.Range(1, 3))))
			in.Keys = append(in.Keys, cur.String())
		}
	}
	if n > 1 && r.Chance(1, 8) {
		in.Keys[r.Intn(n)] = in.Keys[r.Intn(n)] // possibly a duplicate key
	}
	for i := r.Range(0, 6); i > 0; i-- {
		switch r.Intn(6) {
		case 0:
			in.Idx = append(in.Idx, 0)
		case 1:
			in.Idx = append(in.Idx, uint8(n+1))
		case 2:
			in.Idx = append(in.Idx, uint8(r.Intn(256)))
		default:
			if n > 0 {
				in.Idx = append(in.Idx, uint8(1+r.Intn(n)))
			}
		}
	}
	if n > 0 && r.Chance(1, 2) {
		in.Key = append(in.Key, in.Keys...) // every party key of the wallet
	}
	for i := r.Range(0, 6); i > 0; i-- {
		if n > 0 && r.Chance(2, 3) {
			in.Key = append(in.Key, in.Keys[r.Intn(n)])
		} else {
			in.Key = append(in.Key, new(big.Int).Add(seed, big.NewInt(int64(r.Intn(30)))).String())
		}
	}
	for i := r.Range(0, 3); i > 0; i-- {
		s := sigIn{R: r.Bytes(r.Range(0, 33)), S: r.Bytes(r.Range(0, 33)), Rec: r.Bytes(r.Range(0, 2))}
		if r.Chance(1, 3) && len(s.R) > 0 {
			s.R[0] = 0
		}
		in.Sigs = append(in.Sigs, s)
	}
	return in
}

// ---------------------------------------------------------------- signing admission probe

var opPool []*run.Operator

func pool(n int) []*run.Operator {
	for len(opPool) < n {
		opPool = append(opPool, run.NewOperator())
	}
	return opPool
}

func runSProbe(in *sprobeIn, em *lib.Emitter, id string) {
	maxOp := 0
	for _, o := range in.SeatOp {
		if o > maxOp {
			maxOp = o
		}
	}
	for _, m := range in.Msgs {
		if m.Op > maxOp {
			maxOp = m.Op
		}
	}
	ops := pool(maxOp + 1)
	g := run.NewGroup(ops, in.SeatOp)
	sess := map[string]uint64{in.Session: 1}
	sid := func(s string) uint64 {
		if v, ok := sess[s]; ok {
			return v
		}
		sess[s] = uint64(len(sess) + 1)
		return sess[s]
	}
	keys := make([]*big.Int, len(in.Keys))
	for i, k := range in.Keys {
		keys[i] = bigOf(k)
	}
	share := tecdsa.NewPrivateKeyShare(keygen.LocalPartySaveData{Ks: keys})
	type obs struct {
		Operating run.Idx
		KeysPanic string
		Own       *big.Int
		Keys      []*big.Int
		History   []run.Idx
		Received  []run.Idx
		Can       []bool
		KeyToIdx  []uint64 // real TssPartyIDToMemberIndex of every party key the member built
	}
	var o obs
	p := signing.VerifNewProbe(run.Logger, in.Self, share, in.Size, in.T, in.DQ, g.Validator, in.Session)
	for i, m := range in.Msgs {
		fm := &run.FakeMessage{Pub: ops[m.Op].PubRaw, P: signing.VerifNewMessage(m.Kind, m.Sender, m.Session), Seq: uint64(i)}
		if err := p.Receive(m.State, fm); err != nil {
			panic(err)
		}
	}
	o.Operating = p.Operating()
	func() {
		defer func() {
			if r := recover(); r != nil {
				o.KeysPanic = fmt.Sprint(r)
			}
		}()
		o.Own, o.Keys = p.PartyKeys()
	}()
	o.KeyToIdx = []uint64{}
	if o.KeysPanic == "" {
		for _, k := range o.Keys {
			o.KeyToIdx = append(o.KeyToIdx, realKeyToIndex(keys, k))
		}
	}
	for k := 0; k < signing.VerifMessageKinds; k++ {
		o.History = append(o.History, p.History(k))
		o.Received = append(o.Received, p.Received(k))
	}
	for s := 0; s < signing.VerifStateKinds; s++ {
		o.Can = append(o.Can, p.CanTransition(s))
	}
	msgs := make([]string, len(in.Msgs))
	for i, m := range in.Msgs {
		msgs[i] = fmt.Sprintf("(%s, {| m_kind := %s; m_sender := %s; m_op := %s; m_session := %s; m_body := %s |})",
			lib.N(uint64(m.State)), lib.N(uint64(m.Kind)), lib.N(uint64(m.Sender)), lib.N(uint64(m.Op+1)),
			lib.N(sid(m.Session)), lib.N(uint64(i)))
	}
	stored := 0
	for _, h := range o.History {
		stored += len(h)
	}
	seatOps := make([]uint64, len(in.SeatOp))
	for i, s := range in.SeatOp {
		seatOps[i] = uint64(s + 1)
	}
	lists := func(ls []run.Idx) string {
		s := make([]string, len(ls))
		for i, l := range ls {
			s[i] = idxList(l)
		}
		return lib.List(s)
	}
	own, pkeys := "None", "None"
	if o.KeysPanic == "" {
		pkeys = lib.Some(zlist(o.Keys))
		if o.Own != nil {
			own = lib.Some(lib.ZBig(o.Own))
		}
	}
	can := make([]string, len(o.Can))
	for i, b := range o.Can {
		can[i] = lib.Bool(b)
	}
	coq := fmt.Sprintf("(CSProbe {| sp_size := %s; sp_t := %s; sp_self := %s; sp_keys := %s; sp_dq := %s; sp_ops := %s; "+
		"sp_session := 1%%N; sp_msgs := %s; so_operating := %s; so_own := %s; so_keys := %s; so_history := %s; "+
		"so_received := %s; so_can := %s; so_index := %s |})",
		lib.N(uint64(in.Size)), lib.Z(int64(in.T)), lib.N(uint64(in.Self)), zlist(keys), idxList(in.DQ), lib.ListN(seatOps),
		lib.List(msgs), idxList(o.Operating), own, pkeys, lists(o.History), lists(o.Received), lib.List(can), lib.ListN(o.KeyToIdx))
	em.Tally("sprobe")
	em.Case(lib.Case{ID: id, Coq: coq,
		Key:        fmt.Sprintf("sprobe|%d|%d|%v|%v|%v|%v", in.Size, in.Self, in.Keys, in.DQ, in.SeatOp, in.Msgs),
		Nontrivial: stored > 0 && stored < len(in.Msgs),
		Sig:        map[string]interface{}{"kind": "sprobe"},
		In:         input{SProbe: in}, Out: o})
}

func genIdx(r *lib.Rng, size int) uint8 {
	switch r.Intn(12) {
	case 0:
		return 0
	case 1:
		return uint8(size + 1)
	case 2:
		return 255
	case 3:
		return uint8(r.Intn(256))
	}
	if size == 0 {
		return 1
	}
	return uint8(1 + r.Intn(size))
}

func genSProbe(r *lib.Rng) *sprobeIn {
	size := r.Range(1, 9)
	if r.Chance(1, 10) {
		size = r.Range(10, 30)
	}
	in := &sprobeIn{Size: size, T: r.Range(0, size), Session: "s1"}
	nKeys := size
	if r.Chance(1, 8) {
		nKeys = r.Range(0, size+2)
	}
	cur := bigOf(genSeed(r))
	if r.Chance(1, 3) {
		cur = bigOf(boundarySeed(r, 2*nKeys+1))
	}
	for i := 0; i < nKeys; i++ {
		cur = new(big.Int).Add(cur, big.NewInt(int64(r.Range(1, 3))))
		in.Keys = append(in.Keys, cur.String())
	}
	nOps := r.Range(1, minInt(size+1, 8))
	for i := 0; i < size; i++ {
		in.SeatOp = append(in.SeatOp, r.Intn(nOps))
	}
	in.Self = uint8(1 + r.Intn(size))
	for i := r.Range(0, minInt(size, 4)); i > 0; i-- {
		e := genIdx(r, size)
		if e == in.Self && r.Chance(4, 5) {
			continue
		}
		in.DQ = append(in.DQ, e)
	}
	sessions := []string{"s1", "s1", "s1", "s1", "s1", "s2", "S1", "", "s10"}
	for i := r.Range(0, 30); i > 0; i-- {
		m := msgIn{State: r.Intn(12), Kind: r.Intn(10), Session: sessions[r.Intn(len(sessions))]}
		if r.Chance(1, 2) {
			m.Kind = r.Intn(2)
		}
		m.Sender = genIdx(r, size)
		switch {
		case m.Sender >= 1 && int(m.Sender) <= size && r.Chance(5, 6):
			m.Op = in.SeatOp[m.Sender-1]
		case r.Chance(1, 2):
			m.Op = r.Intn(nOps)
		default:
			m.Op = nOps + r.Intn(2)
		}
		in.Msgs = append(in.Msgs, m)
		if r.Chance(1, 5) {
			d := m
			d.State = r.Intn(12)
			in.Msgs = append(in.Msgs, d)
		}
	}
	return in
}

// ---------------------------------------------------------------- real signing runs

type emitMu struct {
	sync.Mutex
	em *lib.Emitter
}

var (
	fixturesOnce sync.Once
	fixtures     []keygen.LocalPartySaveData
	executors    []*dkg.Executor
	fixturesErr  error
)

func loadFixtures() error {
	fixturesOnce.Do(func() {
		fixtures, fixturesErr = run.LoadFixtures()
		if fixturesErr != nil {
			return
		}
		for i := range fixtures {
			e, err := run.NewExecutor(&fixtures[i].LocalPreParams, 64)
			if err != nil {
				fixturesErr = err
				return
			}
			executors = append(executors, e)
		}
	})
	return fixturesErr
}

const groupSize, honestThreshold = 5, 3

// derivedShares builds the key shares of a 3-of-5 wallet whose members used the given party keys
// at key generation: the degree-2 share polynomial of the fixture wallet (party keys 201..205) is
// interpolated from three fixture shares and evaluated at the new keys, so the wallet public key
// is unchanged; the auxiliary material (Paillier keys, NTilde, H1, H2) is reused by position.
func derivedShares(partyKeys []*big.Int) ([]keygen.LocalPartySaveData, error) {
	if len(partyKeys) != len(fixtures) {
		return nil, errors.New("derived wallets have exactly as many members as there are fixtures")
	}
	q := tecdsa.Curve.Params().N
	evaluate := func(x *big.Int) *big.Int {
		result := big.NewInt(0)
		for i := 0; i < 3; i++ {
			term := new(big.Int).Set(fixtures[i].Xi)
			for j := 0; j < 3; j++ {
				if i == j {
					continue
				}
				num := new(big.Int).Sub(x, fixtures[j].ShareID)
				den := new(big.Int).Sub(fixtures[i].ShareID, fixtures[j].ShareID)
				den.Mod(den, q)
				term.Mul(term, num)
				term.Mul(term, new(big.Int).ModInverse(den, q))
				term.Mod(term, q)
			}
			result.Add(result, term)
			result.Mod(result, q)
		}
		return result
	}
	for i := 3; i < len(fixtures); i++ {
		if evaluate(fixtures[i].ShareID).Cmp(fixtures[i].Xi) != 0 {
			return nil, fmt.Errorf("fixture share %d is not on the polynomial", i)
		}
	}
	ks := make([]*big.Int, len(partyKeys))
	bigXs := make([]*tsscrypto.ECPoint, len(partyKeys))
	xs := make([]*big.Int, len(partyKeys))
	for i, k := range partyKeys {
		ks[i] = new(big.Int).Set(k)
		xs[i] = evaluate(k)
		bigXs[i] = tsscrypto.ScalarBaseMult(tecdsa.Curve, xs[i])
	}
	shares := make([]keygen.LocalPartySaveData, len(partyKeys))
	for i := range partyKeys {
		sh := fixtures[i]
		sh.Xi, sh.ShareID, sh.Ks, sh.BigXj = xs[i], ks[i], ks, bigXs
		shares[i] = sh
	}
	return shares, nil
}

func runSign(in *signIn, em *emitMu, id string) {
	if err := loadFixtures(); err != nil {
		fmt.Fprintln(os.Stderr, "fixtures:", err)
		os.Exit(2)
	}
	nOps := 0
	for _, o := range in.SeatOp {
		if o+1 > nOps {
			nOps = o + 1
		}
	}
	ops := make([]*run.Operator, nOps)
	for i := range ops {
		ops[i] = run.NewOperator()
	}
	g := run.NewGroup(ops, in.SeatOp)
	rng := lib.NewRng(in.ChaosSeed)
	budget := time.Duration(in.BudgetS) * time.Second

	// --- the wallet: key shares by key-generation member index
	type dkgMember struct {
		share     *tecdsa.PrivateKeyShare
		operating []group.MemberIndex
	}
	members := map[group.MemberIndex]*dkgMember{}
	var seed *big.Int
	dkgNote := ""
	size := groupSize // seats of the key-generation group
	if in.Wallet == "derived" {
		size = in.Size
		seed = bigOf(in.Seed)
		ex := map[uint8]bool{}
		for _, e := range in.DkgExcluded {
			ex[e] = true
		}
		var operating []group.MemberIndex
		var keys []*big.Int
		for m := 1; m <= size; m++ {
			if !ex[uint8(m)] {
				operating = append(operating, group.MemberIndex(m))
				keys = append(keys, new(big.Int).Add(seed, big.NewInt(int64(m))))
			}
		}
		ds, err := derivedShares(keys)
		if err != nil {
			fmt.Fprintln(os.Stderr, "derived wallet:", err)
			os.Exit(2)
		}
		for i, m := range operating {
			members[m] = &dkgMember{tecdsa.NewPrivateKeyShare(ds[i]), operating}
		}
	} else if in.Wallet == "fixture" {
		seed = big.NewInt(200)
		for i := range fixtures {
			members[group.MemberIndex(i+1)] = &dkgMember{tecdsa.NewPrivateKeyShare(fixtures[i]), []group.MemberIndex{1, 2, 3, 4, 5}}
		}
	} else {
		seed = bigOf(in.Seed)
		s := &run.Session{ID: "dkg-" + id, Seed: seed, Excluded: in.DkgExcluded, Chaos: run.Chaos{MaxDelayMs: 30, DupPct: 5}}
		ex := map[uint8]bool{}
		for _, e := range in.DkgExcluded {
			ex[e] = true
		}
		for m := 1; m <= groupSize; m++ {
			if !ex[uint8(m)] {
				s.Runners = append(s.Runners, uint8(m))
			}
		}
		outs, _, err := run.RunDKG(g, groupSize-honestThreshold, []*run.Session{s}, executors, rng.Fork("dkg"), budget)
		if err != nil {
			fmt.Fprintln(os.Stderr, "dkg:", err)
			os.Exit(2)
		}
		for _, o := range outs[0] {
			if o.Status != "done" {
				dkgNote += fmt.Sprintf("dkg member %d: %s %s; ", o.Member, o.Status, o.Err)
				continue
			}
			// what registerSigner reads from the result: result.Group.OperatingMemberIndexes()
			members[o.Member] = &dkgMember{o.Share, o.Operating}
		}
	}
	em.Lock()
	defer em.Unlock()
	if dkgNote != "" {
		// the wallet could not be produced (C07 judges key generation); nothing to sign with
		em.em.Tally("sign-wallet-inconclusive")
		fmt.Fprintln(os.Stderr, "C08: wallet not produced:", dkgNote)
		return
	}
	// --- registerSigner: finalSigningGroup per member, shares stored under the final index
	selected := make([]string, len(g.Addresses))
	for i, a := range g.Addresses {
		selected[i] = string(a)
	}
	var dkgOperating []group.MemberIndex
	for m := range members {
		dkgOperating = append(dkgOperating, m)
	}
	dkgOperating = run.SortedIdx(dkgOperating)
	var fsgCoq, finalOpsCoq, finalCoq string
	var fsgHuman interface{}
	finalOf := map[group.MemberIndex]group.MemberIndex{}
	var finalOps []chain.Address
	for _, m := range dkgOperating {
		c, h, fo, idx, oc, ic := callFsgParts(selected, members[m].operating, size, in.Quorum, honestThreshold)
		if fsgCoq == "" {
			fsgCoq, fsgHuman, finalOps, finalOpsCoq, finalCoq = c, h, fo, oc, ic
		}
		if fi, ok := idx[m]; ok {
			finalOf[m] = fi
		}
	}
	k := len(dkgOperating)
	shares := make([]*tecdsa.PrivateKeyShare, k)
	shareIDs := []string{}
	usable := len(finalOps) == k
	for _, m := range dkgOperating {
		fi, ok := finalOf[m]
		if !ok || int(fi) < 1 || int(fi) > k {
			usable = false
			continue
		}
		shares[fi-1] = members[m].share
		shareIDs = append(shareIDs, lib.Pair(lib.N(uint64(fi)), lib.ZBig(members[m].share.Data().ShareID)))
	}
	ks := members[dkgOperating[0]].share.Data().Ks
	for _, m := range dkgOperating {
		o := members[m].share.Data().Ks
		if len(o) != len(ks) {
			ks = nil
			break
		}
		for i := range o {
			if o[i].Cmp(ks[i]) != 0 {
				ks = nil
				break
			}
		}
		if ks == nil {
			break
		}
	}
	pub := members[dkgOperating[0]].share.PublicKey()
	pubBytes := elliptic.Marshal(pub.Curve, pub.X, pub.Y)

	// --- the final signing group on the network
	var fgroup *run.Group
	if usable {
		rankOp := map[chain.Address]int{}
		for i, o := range ops {
			rankOp[o.Address] = i
		}
		seat := make([]int, k)
		for i, a := range finalOps {
			seat[i] = rankOp[a]
		}
		fgroup = run.NewGroup(ops, seat)
	}
	emit := func(si int, signers run.Idx, obs []string, human interface{}, nDone int, traffic interface{}) {
		coq := fmt.Sprintf("(CSign {| w_seed := %s; w_selected := %s; w_size := %s; w_quorum := %s; w_final_ops := %s; "+
			"w_dkg_operating := %s; w_final := %s; w_ks := %s; w_share_ids := %s; w_honest := %s; w_signers := %s; w_obs := %s |})",
			lib.ZBig(seed), rankList(selected), lib.Z(int64(size)), lib.Z(int64(in.Quorum)), finalOpsCoq, idxList(dkgOperating),
			finalCoq, zlist(ks), lib.List(shareIDs), lib.N(honestThreshold), idxList(signers), lib.List(obs))
		one := *in
		em.em.Tally(fmt.Sprintf("sign-%s-excluded-at-dkg-%d", in.Wallet, size-k))
		em.em.Case(lib.Case{ID: fmt.Sprintf("%s-%d", id, si), Coq: coq,
			Key:        fmt.Sprintf("sign|%s|%v|%v|%s", in.Wallet, in.DkgExcluded, signers, in.Messages[si%len(in.Messages)]),
			Nontrivial: nDone >= honestThreshold,
			Sig: map[string]interface{}{"kind": "sign", "wallet": in.Wallet, "dkg_excluded": len(in.DkgExcluded),
				"signers": len(signers)},
			In: input{Sign: &one},
			Out: map[string]interface{}{"final_signing_group": fsgHuman, "signers": signers, "members": human, "traffic": traffic,
				"wallet_public_key": fmt.Sprintf("%x", pubBytes)}})
	}
	if !usable {
		emit(0, nil, nil, "finalSigningGroup output unusable", 0, nil)
		return
	}
	// all subsets sign concurrently, each on its own channel
	type res struct {
		outs    []*run.MemberOut
		traffic *run.Traffic
	}
	results := make([]res, len(in.Subsets))
	var wg sync.WaitGroup
	for si, sub := range in.Subsets {
		wg.Add(1)
		go func(si int, sub run.Idx) {
			defer wg.Done()
			inSub := map[uint8]bool{}
			for _, m := range sub {
				inSub[m] = true
			}
			s := &run.Session{ID: fmt.Sprintf("sign-%s-%d", id, si), Message: bigOf(in.Messages[si%len(in.Messages)]),
				Runners: sub, Chaos: in.Chaos}
			for m := 1; m <= k; m++ {
				if !inSub[uint8(m)] {
					s.Excluded = append(s.Excluded, uint8(m))
				}
			}
			outs, tr, err := run.RunSigning(fgroup, k-honestThreshold, []*run.Session{s}, shares, rng.Fork(fmt.Sprint("sign", si)), budget)
			if err != nil {
				fmt.Fprintln(os.Stderr, "signing:", err)
				os.Exit(2)
			}
			results[si] = res{outs[0], tr[0]}
		}(si, sub)
	}
	em.Unlock()
	wg.Wait()
	em.Lock()
	for si, sub := range in.Subsets {
		msg := bigOf(in.Messages[si%len(in.Messages)])
		sigID := map[string]uint64{}
		var obs []string
		type hs struct {
			Member  uint8
			Status  string
			Err     string
			Sig     string
			Valid   bool
			LowS    bool
			Seconds float64
		}
		var human []hs
		nDone := 0
		for _, o := range results[si].outs {
			status := map[string]string{"done": "Done", "error": "Failed", "inconclusive": "Inconclusive", "panic": "Panicked"}[o.Status]
			em.em.Tally("sign-member-" + o.Status)
			h := hs{Member: o.Member, Status: o.Status, Err: o.Err, Seconds: o.Seconds}
			id := uint64(0)
			valid, low := false, false
			if o.Status == "done" {
				nDone++
				key := o.Signature.String()
				if _, ok := sigID[key]; !ok {
					sigID[key] = uint64(len(sigID) + 1)
				}
				id = sigID[key]
				valid, low = run.VerifySignature(pubBytes, msg, o.Signature)
				h.Sig, h.Valid, h.LowS = key, valid, low
			}
			human = append(human, h)
			obs = append(obs, fmt.Sprintf("{| sg_member := %s; sg_status := %s; sg_sig := %s; sg_valid := %s; sg_low_s := %s |}",
				lib.N(uint64(o.Member)), status, lib.N(id), lib.Bool(valid), lib.Bool(low)))
		}
		emit(si, sub, obs, human, nDone, results[si].traffic)
	}
}

func subsets(k, size int) []run.Idx {
	var out []run.Idx
	for mask := 0; mask < 1<<k; mask++ {
		var s run.Idx
		for i := 0; i < k; i++ {
			if mask>>i&1 == 1 {
				s = append(s, uint8(i+1))
			}
		}
		if len(s) == size {
			out = append(out, s)
		}
	}
	return out
}

func genMessage(r *lib.Rng) string {
	b := r.Bytes(32)
	if r.Chance(1, 4) {
		b[0], b[1] = 0, 0 // leading zero bytes
	}
	return new(big.Int).SetBytes(b).String()
}

func genSigns(o lib.Opts, rng *lib.Rng) []*signIn {
	r := rng.Fork("signs")
	chaos := func() run.Chaos { return run.Chaos{MaxDelayMs: r.Range(20, 250), DupPct: r.Range(5, 40)} }
	seatOps := func() []int {
		if r.Chance(1, 3) {
			return []int{0, 1, 0, 2, 3}
		}
		return []int{0, 1, 2, 3, 4}
	}
	pick := func(all []run.Idx, n int) []run.Idx {
		p := r.Perm(len(all))
		var out []run.Idx
		for i := 0; i < n && i < len(p); i++ {
			out = append(out, all[p[i]])
		}
		return out
	}
	msgs := func(n int) []string {
		var m []string
		for i := 0; i < n; i++ {
			m = append(m, genMessage(r))
		}
		return m
	}
	var out []*signIn
	if o.Tier == "quick" || o.Tier == "search" {
		x := uint8(r.Range(1, 5))
		out = append(out, &signIn{Wallet: "dkg", Seed: genSeed(r), DkgExcluded: run.Idx{x}, SeatOp: seatOps(), Quorum: 3,
			Subsets: pick(subsets(4, 3), 2), Messages: msgs(2), Chaos: chaos(), ChaosSeed: r.U64(), BudgetS: 900})
		out = append(out, &signIn{Wallet: "fixture", SeatOp: seatOps(), Quorum: 4,
			Subsets: pick(subsets(5, 3), 2), Messages: msgs(2), Chaos: chaos(), ChaosSeed: r.U64(), BudgetS: 900})
		return out
	}
	// thorough: the fixture wallet with all 10 subsets; one DKG wallet per number of exclusions 1 and 2
	// (every subset of the final group), and a third with a different excluded member
	out = append(out, &signIn{Wallet: "fixture", SeatOp: seatOps(), Quorum: 4,
		Subsets: subsets(5, 3), Messages: msgs(3), Chaos: chaos(), ChaosSeed: r.U64(), BudgetS: 1800})
	p := r.Perm(5)
	out = append(out, &signIn{Wallet: "dkg", Seed: genSeed(r), DkgExcluded: run.Idx{uint8(p[0] + 1)}, SeatOp: seatOps(), Quorum: 3,
		Subsets: subsets(4, 3), Messages: msgs(2), Chaos: chaos(), ChaosSeed: r.U64(), BudgetS: 1800})
	out = append(out, &signIn{Wallet: "dkg", Seed: genSeed(r), DkgExcluded: run.Idx{uint8(p[1] + 1), uint8(p[2] + 1)}, SeatOp: seatOps(), Quorum: 3,
		Subsets: subsets(3, 3), Messages: msgs(1), Chaos: chaos(), ChaosSeed: r.U64(), BudgetS: 1800})
	out = append(out, &signIn{Wallet: "dkg", Seed: genSeed(r), DkgExcluded: run.Idx{uint8(p[3] + 1)}, SeatOp: seatOps(), Quorum: 4,
		Subsets: pick(subsets(4, 3), 2), Messages: msgs(2), Chaos: chaos(), ChaosSeed: r.U64(), BudgetS: 1800})
	// a derived wallet: 12 seats, 7 members excluded at key generation, party keys of mixed digit
	// counts; seed 0 with members 8..12 (keys 8, 9, 10, 11, 12) or a seed just below another boundary
	{
		ex, seed := run.Idx{1, 2, 3, 4, 5, 6, 7}, "0"
		if r.Chance(1, 2) {
			perm := r.Perm(12)
			ex = nil
			for _, x := range perm[:7] {
				ex = append(ex, uint8(x+1))
			}
			seed = boundarySeed(r, 12)
		}
		seat := make([]int, 12)
		for i := range seat {
			seat[i] = i % 7
		}
		out = append(out, &signIn{Wallet: "derived", Seed: seed, Size: 12, DkgExcluded: ex, SeatOp: seat, Quorum: 5,
			Subsets: pick(subsets(5, 3), 2), Messages: msgs(2), Chaos: chaos(), ChaosSeed: r.U64(), BudgetS: 1800})
	}
	return out
}

// ---------------------------------------------------------------- main

func main() {
	o := lib.ParseOpts()
	em := lib.NewEmitter()
	mu := &emitMu{em: em}
	rule := "fsg: one finalSigningGroup call, non-trivial when it succeeds and at least one index is shifted; conv: converter and " +
		"NewSignature probes over one key list, non-trivial with >= 2 keys; sprobe: one signing member and a delivery stream, " +
		"non-trivial when some deliveries were stored and some rejected; sign: one real signing.Execute run of one subset of a " +
		"wallet's final signing group, non-trivial when at least the honest threshold of signers finished"
	if o.Replay != "" {
		var in input
		if err := lib.LoadReplay(o.Replay, &in); err != nil {
			fmt.Fprintln(os.Stderr, err)
			os.Exit(2)
		}
		switch {
		case in.Fsg != nil:
			runFsg(in.Fsg, em, "replay")
		case in.Conv != nil:
			runConv(in.Conv, em, "replay")
		case in.SProbe != nil:
			runSProbe(in.SProbe, em, "replay")
		case in.Sign != nil:
			runSign(in.Sign, mu, "replay")
		}
		em.Close("replay", nil)
		return
	}
	rng := lib.NewRng(o.Seed)
	t0 := time.Now()
	var wg sync.WaitGroup
	par := make(chan struct{}, 3)
	for i, s := range genSigns(o, rng) {
		wg.Add(1)
		go func(i int, s *signIn) {
			defer wg.Done()
			par <- struct{}{}
			defer func() { <-par }()
			runSign(s, mu, fmt.Sprintf("sign-%d", i))
		}(i, s)
	}
	locked := func(f func()) {
		mu.Lock()
		defer mu.Unlock()
		f()
	}
	// --- corpus
	locked(func() {
		a, b, c, d, e := "0xaa", "0xbb", "0xcc", "0xdd", "0xee"
		runFsg(&fsgIn{Selected: []string{a, b, c, d, e}, Operating: run.Idx{5, 1, 3}, Size: 5, Quorum: 3, Honest: 3, Seed: "200"}, em, "corpus-doc-example")
		runFsg(&fsgIn{Selected: []string{a, b, a, d, e}, Operating: run.Idx{1, 2, 4, 5}, Size: 5, Quorum: 4, Honest: 3, Seed: "0"}, em, "corpus-one-excluded")
		runFsg(&fsgIn{Selected: []string{a, b, c}, Operating: run.Idx{1, 0}, Size: 3, Quorum: 2, Honest: 2, Seed: "1"}, em, "corpus-zero-index")
		runFsg(&fsgIn{Selected: []string{a, b, c}, Operating: run.Idx{2, 2, 3}, Size: 3, Quorum: 2, Honest: 2, Seed: "1"}, em, "corpus-duplicate")
		runFsg(&fsgIn{Selected: []string{a, b, c}, Operating: run.Idx{1}, Size: 3, Quorum: 2, Honest: 2, Seed: "1"}, em, "corpus-below-quorum")
		runConv(&convIn{Keys: []string{"201", "203", "204", "205"}, Idx: run.Idx{0, 1, 2, 4, 5}, Key: []string{"201", "202", "205", "0"},
			Sigs: []sigIn{{R: []byte{0, 1, 2}, S: []byte{255}, Rec: []byte{1}}, {R: nil, S: nil, Rec: nil}, {R: []byte{1}, S: []byte{2}, Rec: []byte{200, 7}}}}, em, "corpus-conv")
		// party keys of mixed magnitude: 12 seats, members 1..7 excluded at key generation, seed 0
		sel12 := []string{"0x01", "0x02", "0x03", "0x04", "0x05", "0x06", "0x07", "0x08", "0x09", "0x0a", "0x0b", "0x0c"}
		runFsg(&fsgIn{Selected: sel12, Operating: run.Idx{8, 9, 10, 11, 12}, Size: 12, Quorum: 5, Honest: 3, Seed: "0"}, em, "corpus-keys-8-to-12")
		runFsg(&fsgIn{Selected: sel12, Operating: run.Idx{1, 2, 3, 4, 5, 6, 7, 8, 9, 10, 11, 12}, Size: 12, Quorum: 7, Honest: 7, Seed: "0"}, em, "corpus-group-of-twelve")
		runFsg(&fsgIn{Selected: sel12[:5], Operating: run.Idx{1, 2, 4, 5}, Size: 5, Quorum: 3, Honest: 3, Seed: "18446744073709551613"}, em, "corpus-keys-across-2-64")
		runConv(&convIn{Keys: []string{"8", "9", "10", "11", "12"}, Idx: run.Idx{1, 2, 3, 4, 5}, Key: []string{"8", "9", "10", "11", "12", "7", "13", "1", "80"}}, em, "corpus-conv-keys-8-to-12")
		runConv(&convIn{Keys: []string{"98", "99", "100", "101"}, Idx: run.Idx{1, 2, 3, 4}, Key: []string{"98", "99", "100", "101"}}, em, "corpus-conv-keys-98-to-101")
		runConv(&convIn{Keys: []string{"9223372036854775806", "9223372036854775807", "9223372036854775808", "18446744073709551615", "18446744073709551616"},
			Idx: run.Idx{1, 2, 3, 4, 5}, Key: []string{"9223372036854775806", "9223372036854775807", "9223372036854775808", "18446744073709551615", "18446744073709551616", "0"}}, em, "corpus-conv-keys-across-words")
		runSProbe(&sprobeIn{Size: 5, T: 2, Self: 2, Keys: []string{"8", "9", "10", "11", "12"}, DQ: run.Idx{4}, SeatOp: []int{0, 1, 2, 3, 4}, Session: "s1",
			Msgs: []msgIn{{State: 0, Kind: 0, Sender: 1, Op: 0, Session: "s1"}, {State: 2, Kind: 1, Sender: 3, Op: 2, Session: "s1"}, {State: 2, Kind: 1, Sender: 4, Op: 3, Session: "s1"}}}, em, "corpus-sprobe-keys-8-to-12")
	})
	// --- exhaustive small scope: every exclusion set of groups of 1..6 members (quorum = operating count
	// or smaller), distinct operators
	small := 0
	for size := 1; size <= 6; size++ {
		for mask := 0; mask < 1<<size; mask++ {
			if o.Tier != "thorough" && (mask+size)%2 != int(o.Seed%2) {
				continue
			}
			in := &fsgIn{Size: size, Seed: fmt.Sprint(100 * size)}
			if (mask/2)%3 != 0 {
				// two cases of three: a seed such that seed + m crosses a magnitude boundary inside 1..size
				b := bounds[(mask/6+size+int(o.Seed))%len(bounds)]
				in.Seed = new(big.Int).Sub(b, big.NewInt(int64(1+(mask/2+size)%size))).String()
			}
			for i := 0; i < size; i++ {
				in.Selected = append(in.Selected, fmt.Sprintf("0x%02x", (i*7)%size+1))
				if mask>>i&1 == 0 {
					in.Operating = append(in.Operating, uint8(i+1))
				}
			}
			if len(in.Operating) == 0 {
				continue
			}
			in.Quorum = (len(in.Operating) + 1) / 2
			in.Honest = in.Quorum
			locked(func() { runFsg(in, em, fmt.Sprintf("small-%d-%d", size, mask)) })
			small++
		}
	}
	// every group size 10..16 with seed 0 (a real group with more than nine members): every way of excluding
	// at most two members
	for size := 10; size <= 16; size++ {
		for a := 0; a <= size; a++ {
			for b := a; b <= size; b++ {
				if o.Tier != "thorough" && (a+b+size)%4 != int(o.Seed%4) {
					continue
				}
				in := &fsgIn{Size: size, Seed: "0"}
				for i := 1; i <= size; i++ {
					in.Selected = append(in.Selected, fmt.Sprintf("0x%02x", (i*5)%size+1))
					if i != a && i != b {
						in.Operating = append(in.Operating, uint8(i))
					}
				}
				in.Quorum = size - 2
				in.Honest = in.Quorum
				locked(func() { runFsg(in, em, fmt.Sprintf("tens-%d-%d-%d", size, a, b)) })
			}
		}
	}
	n := count(o, 1200, 6000, 1100)
	for i := 0; i < n; i++ {
		locked(func() { runFsg(genFsg(rng.Fork(fmt.Sprintf("fsg%d", i))), em, fmt.Sprintf("fsg-%d", i)) })
	}
	n = count(o, 400, 2000, 500)
	for i := 0; i < n; i++ {
		locked(func() { runConv(genConv(rng.Fork(fmt.Sprintf("conv%d", i))), em, fmt.Sprintf("conv-%d", i)) })
	}
	n = count(o, 500, 3000, 600)
	for i := 0; i < n; i++ {
		locked(func() { runSProbe(genSProbe(rng.Fork(fmt.Sprintf("sprobe%d", i))), em, fmt.Sprintf("sprobe-%d", i)) })
	}
	wg.Wait()
	em.Close(rule, map[string]interface{}{"runs_wall_s": time.Since(t0).Seconds(),
		"note": "signers whose Execute did not return within the budget are reported Inconclusive and never judged a violation"})
}
