// Driver for C41: pkg/crypto/ephemeral key pairs, ECDH symmetric keys, encryption round trips,
// tampering and IsKeyMatching, on real secp256k1 keys.  The Coq side (Model/C41.v) recomputes the
// public keys, the shared x-coordinate and IsKeyMatching with its own secp256k1 arithmetic.
package main

import (
	"bytes"
	"crypto/sha256"
	"encoding/hex"
	"fmt"
	"math/big"
	"os"

	"github.com/btcsuite/btcd/btcec"
	"github.com/keep-network/keep-common/pkg/encryption"
	"github.com/keep-network/keep-core/pkg/crypto/ephemeral"

	"verifharness/lib"
)

type input struct {
	A, B       string   `json:"-"`
	AHex       string   `json:"a"` // 32-byte private scalars, hex
	BHex       string   `json:"b"`
	Plaintexts []string `json:"plaintexts"` // hex
	Reveal     []string `json:"reveal"`     // hex private scalars tried against both public keys
	TamperSeed uint64   `json:"tamper_seed"`
}

func mustHex(s string) []byte {
	b, err := hex.DecodeString(s)
	if err != nil {
		panic(err)
	}
	return b
}

func zOf(b []byte) string { return lib.ZBig(new(big.Int).SetBytes(b)) }

func run(in input, em *lib.Emitter, id string) {
	defer func() {
		if r := recover(); r != nil {
			em.Case(lib.Case{ID: id, Coq: "(panic_case)", Key: id, In: in, Out: fmt.Sprint("panic: ", r)})
		}
	}()
	aBytes, bBytes := mustHex(in.AHex), mustHex(in.BHex)
	privA := ephemeral.UnmarshalPrivateKey(aBytes)
	privB := ephemeral.UnmarshalPrivateKey(bBytes)
	// public keys as the package derives and (un)marshals them
	pubA, errA := ephemeral.UnmarshalPublicKey((*ephemeral.PublicKey)(&(*btcec.PrivateKey)(privA).PublicKey).Marshal())
	pubB, errB := ephemeral.UnmarshalPublicKey((*ephemeral.PublicKey)(&(*btcec.PrivateKey)(privB).PublicKey).Marshal())
	if errA != nil || errB != nil {
		em.Case(lib.Case{ID: id, Coq: "(panic_case)", Key: id, In: in, Out: "public key does not round-trip through Marshal/Unmarshal"})
		return
	}
	keyAB := privA.Ecdh(pubB)
	keyBA := privB.Ecdh(pubA)

	// the x-coordinate behind the key, recomputed independently with btcec and validated by
	// decrypting with a box built from sha256(x)
	x, _ := btcec.S256().ScalarMult(pubB.X, pubB.Y, (*btcec.PrivateKey)(privA).D.Bytes())
	indep := encryption.NewBox(sha256.Sum256(x.Bytes()))

	sameKey, roundtrip := true, true
	tamperedTried, tamperedAccepted, wrongTried, wrongAccepted := 0, 0, 0, 0
	other, _ := ephemeral.GenerateKeyPair()
	wrongKey := privA.Ecdh(other.PublicKey)
	r := lib.NewRng(in.TamperSeed)
	for _, ph := range in.Plaintexts {
		m := mustHex(ph)
		c, err := keyAB.Encrypt(m)
		if err != nil {
			roundtrip = false
			continue
		}
		if d, err := keyAB.Decrypt(c); err != nil || !bytes.Equal(d, m) {
			roundtrip = false
		}
		if d, err := keyBA.Decrypt(c); err != nil || !bytes.Equal(d, m) {
			sameKey = false
		}
		if d, err := indep.Decrypt(c); err != nil || !bytes.Equal(d, m) {
			sameKey = false // the key is not sha256 of the shared x-coordinate
		}
		c2, _ := keyBA.Encrypt(m)
		if d, err := keyAB.Decrypt(c2); err != nil || !bytes.Equal(d, m) {
			sameKey = false
		}
		// different key
		wrongTried++
		if _, err := wrongKey.Decrypt(c); err == nil {
			wrongAccepted++
		}
		// single-byte modifications: every position for short ciphertexts, sampled for long ones;
		// plus truncations and extensions
		positions := []int{}
		if len(c) <= 96 {
			for i := range c {
				positions = append(positions, i)
			}
		} else {
			for k := 0; k < 64; k++ {
				positions = append(positions, r.Intn(len(c)))
			}
			positions = append(positions, 0, 23, 24, 39, 40, len(c)-1)
		}
		for _, pos := range positions {
			t := append([]byte{}, c...)
			t[pos] ^= byte(1 << uint(r.Intn(8)))
			tamperedTried++
			if _, err := keyBA.Decrypt(t); err == nil {
				tamperedAccepted++
			}
		}
		for _, t := range [][]byte{c[:len(c)-1], c[:24], c[:10], {}, append(append([]byte{}, c...), 0)} {
			tamperedTried++
			if _, err := keyBA.Decrypt(t); err == nil {
				tamperedAccepted++
			}
		}
	}

	var matching []string
	var matchOut []interface{}
	try := func(useA bool, privBytes []byte) {
		pk := pubB
		if useA {
			pk = pubA
		}
		got := pk.IsKeyMatching(ephemeral.UnmarshalPrivateKey(privBytes))
		matching = append(matching, fmt.Sprintf("(%s, %s, %s)", lib.Bool(useA), zOf(privBytes), lib.Bool(got)))
		matchOut = append(matchOut, map[string]interface{}{"pubA": useA, "priv": hex.EncodeToString(privBytes), "match": got})
	}
	try(true, aBytes)
	try(false, bBytes)
	try(true, bBytes)
	for _, rv := range in.Reveal {
		try(true, mustHex(rv))
		try(false, mustHex(rv))
	}
	coq := fmt.Sprintf("{| c_a := %s; c_b := %s; c_pubA := (%s, %s); c_pubB := (%s, %s); c_shared_x := %s; c_same_key := %s; c_roundtrip := %s; c_tampered_accepted := %s; c_tampered_tried := %s; c_wrongkey_accepted := %s; c_wrongkey_tried := %s; c_matching := %s |}",
		zOf(aBytes), zOf(bBytes), lib.ZBig(pubA.X), lib.ZBig(pubA.Y), lib.ZBig(pubB.X), lib.ZBig(pubB.Y), lib.ZBig(x),
		lib.Bool(sameKey), lib.Bool(roundtrip), lib.N(uint64(tamperedAccepted)), lib.N(uint64(tamperedTried)),
		lib.N(uint64(wrongAccepted)), lib.N(uint64(wrongTried)), lib.List(matching))
	em.Tally(fmt.Sprintf("plaintexts-%d", len(in.Plaintexts)))
	em.Case(lib.Case{ID: id, Coq: coq, Key: in.AHex + in.BHex, Nontrivial: in.AHex != in.BHex && len(in.Plaintexts) > 0,
		Sig: map[string]interface{}{"tampered_accepted": tamperedAccepted > 0, "wrongkey_accepted": wrongAccepted > 0},
		In:  in,
		Out: map[string]interface{}{"same_key": sameKey, "roundtrip": roundtrip, "tampered": []int{tamperedAccepted, tamperedTried}, "wrongkey": []int{wrongAccepted, wrongTried}, "matching": matchOut}})
}

func scalar(r *lib.Rng) string {
	n := btcec.S256().N
	edge := []*big.Int{big.NewInt(1), big.NewInt(2), new(big.Int).Sub(n, big.NewInt(1)), new(big.Int).Sub(n, big.NewInt(2)),
		new(big.Int).Lsh(big.NewInt(1), 255), new(big.Int).Rsh(n, 1)}
	var v *big.Int
	switch r.Intn(6) {
	case 0:
		v = edge[r.Intn(len(edge))]
	case 1:
		v = big.NewInt(int64(1 + r.Intn(1000)))
	default:
		v = new(big.Int).SetBytes(r.Bytes(32))
		v.Mod(v, new(big.Int).Sub(n, big.NewInt(1)))
		v.Add(v, big.NewInt(1))
	}
	return fmt.Sprintf("%064x", v)
}

func main() {
	o := lib.ParseOpts()
	em := lib.NewEmitter()
	if o.Replay != "" {
		var in input
		if err := lib.LoadReplay(o.Replay, &in); err != nil {
			fmt.Fprintln(os.Stderr, err)
			os.Exit(2)
		}
		run(in, em, "replay")
		em.Close("replay", nil)
		return
	}
	rng := lib.NewRng(o.Seed)
	n := btcec.S256().N
	hexOf := func(v *big.Int) string { return fmt.Sprintf("%064x", v) }
	// corpus: smallest keys, revealed keys that are congruent modulo the group order, zero, n
	run(input{AHex: hexOf(big.NewInt(1)), BHex: hexOf(big.NewInt(2)), Plaintexts: []string{"", "00", "6b656570"},
		Reveal: []string{hexOf(new(big.Int).Add(n, big.NewInt(1))), hexOf(big.NewInt(0)), hexOf(n), hexOf(big.NewInt(3)), hexOf(new(big.Int).Sub(n, big.NewInt(1))), hexOf(new(big.Int).Sub(n, big.NewInt(2)))}, TamperSeed: 1}, em, "corpus-small")
	run(input{AHex: hexOf(new(big.Int).Sub(n, big.NewInt(1))), BHex: hexOf(new(big.Int).Sub(n, big.NewInt(1))), Plaintexts: []string{"ff"},
		Reveal: []string{hexOf(big.NewInt(1))}, TamperSeed: 2}, em, "corpus-same-key-both-sides")
	cnt := o.Count(40, 400)
	for i := 0; i < cnt; i++ {
		r := rng.Fork(fmt.Sprintf("k%d", i))
		in := input{AHex: scalar(r), BHex: scalar(r), TamperSeed: r.U64()}
		np := r.Range(1, 4)
		for k := 0; k < np; k++ {
			var l int
			switch r.Intn(5) {
			case 0:
				l = 0
			case 1:
				l = r.Range(1, 3)
			case 2:
				l = r.Range(4, 64)
			case 3:
				l = r.Range(65, 4096)
			default:
				l = 1 << 20 // 1 MiB
				if o.Tier == "quick" && k > 0 {
					l = 32
				}
			}
			in.Plaintexts = append(in.Plaintexts, hex.EncodeToString(r.Bytes(l)))
		}
		for k := r.Intn(3); k > 0; k-- {
			in.Reveal = append(in.Reveal, scalar(r))
		}
		if r.Chance(1, 3) { // a revealed key congruent to a's modulo the group order
			a, _ := new(big.Int).SetString(in.AHex, 16)
			s := new(big.Int).Add(a, n)
			if s.BitLen() <= 256 {
				in.Reveal = append(in.Reveal, hexOf(s))
			}
		}
		if r.Chance(1, 2) { // the negated key: same x-coordinate, other y
			a, _ := new(big.Int).SetString(in.AHex, 16)
			in.Reveal = append(in.Reveal, hexOf(new(big.Int).Mod(new(big.Int).Sub(n, a), n)))
		}
		run(in, em, "")
	}
	em.Close("a case is one pair of ephemeral key pairs with 1-4 plaintexts (empty .. 1 MiB), every single-byte modification of short ciphertexts "+
		"(64 sampled positions + header/tag boundaries for long ones), truncations/extensions, a foreign key, and revealed private scalars tried against both public keys; "+
		"distinct by the two private scalars; non-trivial when the two scalars differ and at least one plaintext was used", nil)
}
