// Driver for C34: runs tbtc.DetermineWalletMainUtxo and tbtc.EnsureWalletSyncedBetweenChains
// on generated wallet worlds (fake bitcoin.Chain + fake BridgeChain) and prints the cases for the
// Coq model (Model/C34.v).  Transaction hashes and main-UTXO hashes become N identifiers by
// first occurrence (zero hash = 0); scripts stay bytes.
package main

import (
	"crypto/sha256"
	"encoding/binary"
	"encoding/hex"
	"fmt"
	"os"
	"strings"

	"github.com/keep-network/keep-core/pkg/bitcoin"
	"github.com/keep-network/keep-core/pkg/tbtc"

	"verifharness/lib"
)

// ---------------------------------------------------------------- world (replayable input)

type wOutpoint struct {
	Hash string `json:"hash"`
	Idx  uint32 `json:"idx"`
}
type wOut struct {
	Script string `json:"script"`
	Value  int64  `json:"value"`
}
type wTx struct {
	Inputs   []wOutpoint `json:"inputs"`
	Outputs  []wOut      `json:"outputs"`
	Locktime uint32      `json:"locktime"`
}
type wUtxo struct {
	Hash  string `json:"hash"`
	Idx   uint32 `json:"idx"`
	Value int64  `json:"value"`
}
type wLook struct {
	Hash  string `json:"hash"`
	Idx   uint32 `json:"idx"`
	State string `json:"state"` // "found" | "err"
}
type world struct {
	PKH        string   `json:"pkh"`
	WalletErr  bool     `json:"walletErr"`
	Registered string   `json:"registered"` // 32-byte hex, "" = zero hash
	WeakHash   bool     `json:"weakHash"`   // the bridge hash ignores the transaction hash (collisions)
	History    []string `json:"history"`
	HistoryErr bool     `json:"historyErr"`
	Txs        []wTx    `json:"txs"`
	Missing    []string `json:"missing"` // GetTransaction fails for these hashes
	Conf       []wUtxo  `json:"conf"`
	ConfErr    bool     `json:"confErr"`
	Mem        []wUtxo  `json:"mem"`
	MemErr     bool     `json:"memErr"`
	Deposits   []wLook  `json:"deposits"`
	Requests   []wLook  `json:"requests"`
	MainMode   string   `json:"mainMode"` // "det": hand the result of Determine to the sync check | "given"
	Main       *wUtxo   `json:"main"`
	Malformed  string   `json:"malformed"`
	// per-call faults: element k of a list = the k-th call of that kind (per function run) fails
	FaultsDet  wFaults `json:"faultsDet"`
	FaultsSync wFaults `json:"faultsSync"`
}

// wFaults scripts the outcome of every chain call by kind and position; calls beyond a list succeed.
type wFaults struct {
	Wallet  []bool `json:"wallet,omitempty"`  // BridgeChain.GetWallet
	History []bool `json:"history,omitempty"` // bitcoin.Chain.GetTxHashesForPublicKeyHash
	Conf    []bool `json:"conf,omitempty"`    // GetUtxosForPublicKeyHash
	Mem     []bool `json:"mem,omitempty"`     // GetMempoolUtxosForPublicKeyHash
	Tx      []bool `json:"tx,omitempty"`      // GetTransaction
	Dep     []bool `json:"dep,omitempty"`     // BridgeChain.GetDepositRequest
	Req     []bool `json:"req,omitempty"`     // BridgeChain.GetMovedFundsSweepRequest
}

func (f wFaults) any() bool {
	for _, l := range [][]bool{f.Wallet, f.History, f.Conf, f.Mem, f.Tx, f.Dep, f.Req} {
		for _, b := range l {
			if b {
				return true
			}
		}
	}
	return false
}

// wCalls counts the chain calls one function run made, by kind.
type wCalls struct {
	Wallet, History, Conf, Mem, Tx, Dep, Req int
}

// faultCtl is shared by the two fake chains: it counts calls and fails the scripted ones.
type faultCtl struct {
	script wFaults
	n      wCalls
}

func (c *faultCtl) reset(script wFaults) { c.script, c.n = script, wCalls{} }
func hitAt(l []bool, n *int) bool {
	k := *n
	*n = k + 1
	return k < len(l) && l[k]
}

// consulted: did one of the calls that were made fail?
func consulted(f wFaults, n wCalls) bool {
	chk := func(l []bool, n int) bool {
		for k := 0; k < n && k < len(l); k++ {
			if l[k] {
				return true
			}
		}
		return false
	}
	return chk(f.Wallet, n.Wallet) || chk(f.History, n.History) || chk(f.Conf, n.Conf) || chk(f.Mem, n.Mem) ||
		chk(f.Tx, n.Tx) || chk(f.Dep, n.Dep) || chk(f.Req, n.Req)
}

func coqBools(l []bool) string {
	s := make([]string, len(l))
	for i, b := range l {
		s[i] = lib.Bool(b)
	}
	return lib.List(s)
}
func coqScript(f wFaults) string {
	return fmt.Sprintf("{| f_wallet := %s; f_hist := %s; f_conf := %s; f_mem := %s; f_tx := %s; f_dep := %s; f_req := %s |}",
		coqBools(f.Wallet), coqBools(f.History), coqBools(f.Conf), coqBools(f.Mem), coqBools(f.Tx), coqBools(f.Dep), coqBools(f.Req))
}
func coqCalls(n wCalls) string {
	return fmt.Sprintf("(Calls %s %s %s %s %s %s %s)", lib.Nat(n.Wallet), lib.Nat(n.History), lib.Nat(n.Conf), lib.Nat(n.Mem),
		lib.Nat(n.Tx), lib.Nat(n.Dep), lib.Nat(n.Req))
}

func unhex(s string) []byte {
	b, err := hex.DecodeString(s)
	if err != nil {
		panic(err)
	}
	return b
}
func hash32(s string) (h bitcoin.Hash) {
	copy(h[:], unhex(s))
	return
}

func (t wTx) build() *bitcoin.Transaction {
	tx := &bitcoin.Transaction{Version: 1, Locktime: t.Locktime}
	for _, in := range t.Inputs {
		tx.Inputs = append(tx.Inputs, &bitcoin.TransactionInput{
			Outpoint: &bitcoin.TransactionOutpoint{TransactionHash: hash32(in.Hash), OutputIndex: in.Idx},
			Sequence: 0xffffffff,
		})
	}
	for _, o := range t.Outputs {
		tx.Outputs = append(tx.Outputs, &bitcoin.TransactionOutput{Value: o.Value, PublicKeyScript: unhex(o.Script)})
	}
	return tx
}

func bridgeHash(weak bool, u *bitcoin.UnspentTransactionOutput) [32]byte {
	var buf []byte
	if weak {
		buf = append(buf, []byte("weak")...)
	} else {
		buf = append(buf, []byte("utxo")...)
		buf = append(buf, u.Outpoint.TransactionHash[:]...)
	}
	var b [12]byte
	binary.LittleEndian.PutUint32(b[0:4], u.Outpoint.OutputIndex)
	binary.LittleEndian.PutUint64(b[4:12], uint64(u.Value))
	buf = append(buf, b[:]...)
	h := sha256.Sum256(buf)
	h[0] |= 1 // never the zero hash
	return h
}

// ---------------------------------------------------------------- fakes

var errFake = fmt.Errorf("fake chain failure")

type fakeBtc struct {
	bitcoin.Chain // unimplemented methods panic (nil interface)
	w             *world
	txs           map[bitcoin.Hash]*bitcoin.Transaction
	ctl           *faultCtl
}

func toUtxos(l []wUtxo) []*bitcoin.UnspentTransactionOutput {
	out := make([]*bitcoin.UnspentTransactionOutput, len(l))
	for i, u := range l {
		out[i] = &bitcoin.UnspentTransactionOutput{
			Outpoint: &bitcoin.TransactionOutpoint{TransactionHash: hash32(u.Hash), OutputIndex: u.Idx},
			Value:    u.Value,
		}
	}
	return out
}
func (f *fakeBtc) GetTransaction(h bitcoin.Hash) (*bitcoin.Transaction, error) {
	if hitAt(f.ctl.script.Tx, &f.ctl.n.Tx) {
		return nil, errFake
	}
	t, ok := f.txs[h]
	if !ok {
		return nil, errFake
	}
	return t, nil
}
func (f *fakeBtc) GetTxHashesForPublicKeyHash(pkh [20]byte) ([]bitcoin.Hash, error) {
	if hitAt(f.ctl.script.History, &f.ctl.n.History) {
		return nil, errFake
	}
	if f.w.HistoryErr || hex.EncodeToString(pkh[:]) != f.w.PKH {
		return nil, errFake
	}
	out := make([]bitcoin.Hash, len(f.w.History))
	for i, h := range f.w.History {
		out[i] = hash32(h)
	}
	return out, nil
}
func (f *fakeBtc) GetUtxosForPublicKeyHash(pkh [20]byte) ([]*bitcoin.UnspentTransactionOutput, error) {
	if hitAt(f.ctl.script.Conf, &f.ctl.n.Conf) {
		return nil, errFake
	}
	if f.w.ConfErr || hex.EncodeToString(pkh[:]) != f.w.PKH {
		return nil, errFake
	}
	return toUtxos(f.w.Conf), nil
}
func (f *fakeBtc) GetMempoolUtxosForPublicKeyHash(pkh [20]byte) ([]*bitcoin.UnspentTransactionOutput, error) {
	if hitAt(f.ctl.script.Mem, &f.ctl.n.Mem) {
		return nil, errFake
	}
	if f.w.MemErr || hex.EncodeToString(pkh[:]) != f.w.PKH {
		return nil, errFake
	}
	return toUtxos(f.w.Mem), nil
}

type fakeBridge struct {
	tbtc.BridgeChain
	w   *world
	ctl *faultCtl
}

func (f *fakeBridge) GetWallet(pkh [20]byte) (*tbtc.WalletChainData, error) {
	if hitAt(f.ctl.script.Wallet, &f.ctl.n.Wallet) {
		return nil, errFake
	}
	if f.w.WalletErr || hex.EncodeToString(pkh[:]) != f.w.PKH {
		return nil, errFake
	}
	d := &tbtc.WalletChainData{State: tbtc.StateLive}
	if f.w.Registered != "" {
		copy(d.MainUtxoHash[:], unhex(f.w.Registered))
	}
	return d, nil
}
func (f *fakeBridge) ComputeMainUtxoHash(u *bitcoin.UnspentTransactionOutput) [32]byte {
	return bridgeHash(f.w.WeakHash, u)
}
func find(l []wLook, h bitcoin.Hash, idx uint32) string {
	hs := hex.EncodeToString(h[:])
	for _, e := range l {
		if e.Hash == hs && e.Idx == idx {
			return e.State
		}
	}
	return ""
}
func (f *fakeBridge) GetDepositRequest(h bitcoin.Hash, idx uint32) (*tbtc.DepositChainRequest, bool, error) {
	if hitAt(f.ctl.script.Dep, &f.ctl.n.Dep) {
		return nil, false, errFake
	}
	switch find(f.w.Deposits, h, idx) {
	case "found":
		return &tbtc.DepositChainRequest{Amount: 1}, true, nil
	case "err":
		return nil, false, errFake
	}
	return nil, false, nil
}
func (f *fakeBridge) GetMovedFundsSweepRequest(h bitcoin.Hash, idx uint32) (*tbtc.MovedFundsSweepRequest, bool, error) {
	if hitAt(f.ctl.script.Req, &f.ctl.n.Req) {
		return nil, false, errFake
	}
	switch find(f.w.Requests, h, idx) {
	case "found":
		return &tbtc.MovedFundsSweepRequest{Value: 1}, true, nil
	case "err":
		return nil, false, errFake
	}
	return nil, false, nil
}

// ---------------------------------------------------------------- canonicalisation

type idmap struct {
	m map[string]uint64
}

func (im *idmap) id(h string) uint64 {
	if v, ok := im.m[h]; ok {
		return v
	}
	v := uint64(len(im.m) + 1)
	im.m[h] = v
	return v
}

func coqUtxo(txid uint64, idx uint32, val int64) string {
	return fmt.Sprintf("{| u_tx := %s; u_idx := %s; u_val := %s |}", lib.N(txid), lib.N(uint64(idx)), lib.Z(val))
}
func coqOpt(s string, ok bool) string {
	if !ok {
		return "None"
	}
	return lib.Some(s)
}

func classifyDet(u *bitcoin.UnspentTransactionOutput, err error) string {
	if err == nil {
		if u == nil {
			return "DNone"
		}
		return "DUtxo"
	}
	m := err.Error()
	switch {
	case strings.Contains(m, "main UTXO not found"):
		return "DNotFound"
	case strings.Contains(m, "cannot get on-chain data for wallet"),
		strings.Contains(m, "cannot get transactions history"),
		strings.Contains(m, "cannot get transaction with hash"):
		return "DChainErr"
	}
	if strings.Contains(m, "fake chain failure") {
		return "DChainErr"
	}
	return "DPanic" // unclassified error: treated like a crash
}
func classifySync(err error) string {
	if err == nil {
		return "SOk"
	}
	m := err.Error()
	switch {
	case strings.Contains(m, "there are no UTXOs controlled"):
		return "SErrNoUtxos"
	case strings.Contains(m, "is actually spent on Bitcoin"):
		return "SErrSpent"
	case strings.Contains(m, "(deposit sweep)"):
		return "SErrDepositSweep"
	case strings.Contains(m, "(moved funds sweep)"):
		return "SErrMovedSweep"
	case strings.Contains(m, "cannot get confirmed UTXOs"), strings.Contains(m, "cannot get mempool UTXOs"),
		strings.Contains(m, "cannot get transaction with hash"), strings.Contains(m, "cannot get deposit request"),
		strings.Contains(m, "cannot get moved funds sweep request"):
		return "SChainErr"
	}
	if strings.Contains(m, "fake chain failure") { // an error of ours handed back, whatever the wrapping text
		return "SChainErr"
	}
	return "SPanic"
}

// lastCalls: the calls the two functions made in the most recent run (the fault generator fails
// each of them in turn)
var lastCalls [2]wCalls

func run(w world, em *lib.Emitter, id string) {
	var pkh [20]byte
	copy(pkh[:], unhex(w.PKH))
	ctl := &faultCtl{}
	btc := &fakeBtc{w: &w, txs: map[bitcoin.Hash]*bitcoin.Transaction{}, ctl: ctl}
	missing := map[string]bool{}
	for _, m := range w.Missing {
		missing[m] = true
	}
	built := make([]*bitcoin.Transaction, len(w.Txs))
	for i, t := range w.Txs {
		built[i] = t.build()
		h := built[i].Hash()
		if !missing[hex.EncodeToString(h[:])] {
			btc.txs[h] = built[i]
		}
	}
	bridge := &fakeBridge{w: &w, ctl: ctl}

	// ---- the implementation
	var detU *bitcoin.UnspentTransactionOutput
	var detErr error
	detKind := "DPanic"
	func() {
		defer func() {
			if r := recover(); r != nil {
				detKind, detErr = "DPanic", fmt.Errorf("panic: %v", r)
			}
		}()
		ctl.reset(w.FaultsDet)
		detU, detErr = tbtc.DetermineWalletMainUtxo(pkh, bridge, btc)
		detKind = classifyDet(detU, detErr)
	}()
	nDet := ctl.n
	var mainArg *bitcoin.UnspentTransactionOutput
	if w.MainMode == "det" {
		if detKind == "DUtxo" {
			mainArg = detU
		}
	} else if w.Main != nil {
		mainArg = toUtxos([]wUtxo{*w.Main})[0]
	}
	var syncErr error
	syncKind := "SPanic"
	func() {
		defer func() {
			if r := recover(); r != nil {
				syncKind, syncErr = "SPanic", fmt.Errorf("panic: %v", r)
			}
		}()
		ctl.reset(w.FaultsSync)
		syncErr = tbtc.EnsureWalletSyncedBetweenChains(pkh, mainArg, bridge, btc)
		syncKind = classifySync(syncErr)
	}()
	nSync := ctl.n
	lastCalls = [2]wCalls{nDet, nSync}

	// ---- canonicalise
	ids := &idmap{m: map[string]uint64{}}
	hids := map[[32]byte]uint64{}
	hid := func(h [32]byte) uint64 {
		if h == [32]byte{} {
			return 0
		}
		if v, ok := hids[h]; ok {
			return v
		}
		v := uint64(len(hids) + 1)
		hids[h] = v
		return v
	}
	var hist []string
	for _, h := range w.History {
		hist = append(hist, lib.N(ids.id(h)))
	}
	var txTerms, hashTerms []string
	for _, t := range built {
		h := t.Hash()
		hs := hex.EncodeToString(h[:])
		tid := ids.id(hs)
		if missing[hs] {
			continue
		}
		in0 := "None"
		if len(t.Inputs) > 0 {
			o := t.Inputs[0].Outpoint
			in0 = lib.Some(lib.Pair(lib.N(ids.id(hex.EncodeToString(o.TransactionHash[:]))), lib.N(uint64(o.OutputIndex))))
		}
		var outs []string
		for i, o := range t.Outputs {
			outs = append(outs, fmt.Sprintf("{| o_script := %s; o_value := %s |}", lib.Bytes(o.PublicKeyScript), lib.Z(o.Value)))
			u := &bitcoin.UnspentTransactionOutput{
				Outpoint: &bitcoin.TransactionOutpoint{TransactionHash: h, OutputIndex: uint32(i)}, Value: o.Value}
			hashTerms = append(hashTerms, lib.Pair(coqUtxo(tid, uint32(i), o.Value), lib.N(hid(bridgeHash(w.WeakHash, u)))))
		}
		txTerms = append(txTerms, lib.Pair(lib.N(tid),
			fmt.Sprintf("{| t_id := %s; t_in0 := %s; t_outs := %s |}", lib.N(tid), in0, lib.List(outs))))
	}
	utxoList := func(l []wUtxo) string {
		var s []string
		for _, u := range l {
			s = append(s, coqUtxo(ids.id(u.Hash), u.Idx, u.Value))
		}
		return lib.List(s)
	}
	lookList := func(l []wLook) string {
		var s []string
		for _, e := range l {
			st := "LFound"
			if e.State == "err" {
				st = "LErr"
			}
			s = append(s, lib.Pair(lib.Pair(lib.N(ids.id(e.Hash)), lib.N(uint64(e.Idx))), st))
		}
		return lib.List(s)
	}
	var reg [32]byte
	if w.Registered != "" {
		copy(reg[:], unhex(w.Registered))
	}
	mainTerm := "None"
	if mainArg != nil {
		mainTerm = lib.Some(coqUtxo(ids.id(hex.EncodeToString(mainArg.Outpoint.TransactionHash[:])),
			mainArg.Outpoint.OutputIndex, mainArg.Value))
	}
	detTerm := detKind
	var detObs interface{} = detKind
	if detKind == "DUtxo" {
		hs := hex.EncodeToString(detU.Outpoint.TransactionHash[:])
		detTerm = "(DUtxo " + coqUtxo(ids.id(hs), detU.Outpoint.OutputIndex, detU.Value) + ")"
		detObs = map[string]interface{}{"tx": hs, "idx": detU.Outpoint.OutputIndex, "value": detU.Value}
	} else if detErr != nil {
		detObs = detKind + ": " + detErr.Error()
	}
	var syncObs interface{} = syncKind
	if syncErr != nil {
		syncObs = syncKind + ": " + syncErr.Error()
	}
	coq := fmt.Sprintf("{| c_pkh := %s; c_wallet := %s; c_hashes := %s; c_txs := %s; c_hash := %s; "+
		"c_conf := %s; c_mem := %s; c_dep := %s; c_req := %s; c_main := %s; c_det := %s; c_sync := %s; "+
		"c_fdet := %s; c_fsync := %s; c_ndet := %s; c_nsync := %s |}",
		lib.Bytes(pkh[:]), coqOpt(lib.N(hid(reg)), !w.WalletErr), coqOpt(lib.List(hist), !w.HistoryErr),
		lib.List(txTerms), lib.List(hashTerms),
		coqOpt(utxoList(w.Conf), !w.ConfErr), coqOpt(utxoList(w.Mem), !w.MemErr),
		lookList(w.Deposits), lookList(w.Requests), mainTerm, detTerm, syncKind,
		coqScript(w.FaultsDet), coqScript(w.FaultsSync), coqCalls(nDet), coqCalls(nSync))

	branch := "fresh"
	if mainArg != nil {
		branch = "main"
	}
	walletTxs := 0
	p2pkh, _ := bitcoin.PayToPublicKeyHash(pkh)
	p2wpkh, _ := bitcoin.PayToWitnessPublicKeyHash(pkh)
	for _, t := range built {
		for _, o := range t.Outputs {
			if string(o.PublicKeyScript) == string(p2pkh) || string(o.PublicKeyScript) == string(p2wpkh) {
				walletTxs++
				break
			}
		}
	}
	idx0 := 0
	for _, u := range append(append([]wUtxo{}, w.Conf...), w.Mem...) {
		if u.Idx == 0 {
			idx0++
		}
	}
	em.Tally("det-" + detKind)
	em.Tally("sync-" + branch + "-" + syncKind)
	scripted := w.FaultsDet.any() || w.FaultsSync.any()
	hitDet, hitSync := consulted(w.FaultsDet, nDet), consulted(w.FaultsSync, nSync)
	if scripted {
		em.Tally(fmt.Sprintf("faults-det-consulted-%v", hitDet))
		em.Tally(fmt.Sprintf("faults-sync-%s-consulted-%v", branch, hitSync))
		if hitSync {
			em.Tally("faults-sync-consulted-" + syncKind)
		}
	}
	em.Tally(fmt.Sprintf("wallet-txs-%d", walletTxs))
	if w.Malformed != "" {
		em.Tally("malformed-" + w.Malformed)
	}
	sum := sha256.Sum256([]byte(coq))
	em.Case(lib.Case{
		ID:         id,
		Coq:        coq,
		Key:        hex.EncodeToString(sum[:12]),
		Nontrivial: walletTxs >= 2 && (w.Registered != "" || idx0 >= 1),
		Sig: map[string]interface{}{"det": detKind, "sync": syncKind, "branch": branch,
			"malformed": w.Malformed != "", "weakHash": w.WeakHash, "faults": scripted,
			"failedConsultedCall": hitDet || hitSync},
		In: w,
		Out: map[string]interface{}{"determine": detObs, "sync": syncObs, "callsDetermine": nDet, "callsSync": nSync,
			"failedConsultedCallDetermine": hitDet, "failedConsultedCallSync": hitSync},
	})
}

// ---------------------------------------------------------------- generation

type genOut struct {
	tx     int
	idx    int
	wallet bool
	spent  bool
}

func genWorld(r *lib.Rng, malformed bool) world {
	var pkh, other [20]byte
	copy(pkh[:], r.Bytes(20))
	copy(other[:], r.Bytes(20))
	wP2PKH, _ := bitcoin.PayToPublicKeyHash(pkh)
	wP2WPKH, _ := bitcoin.PayToWitnessPublicKeyHash(pkh)
	oP2PKH, _ := bitcoin.PayToPublicKeyHash(other)
	oP2WPKH, _ := bitcoin.PayToWitnessPublicKeyHash(other)
	p2sh := append(append([]byte{0xa9, 0x14}, pkh[:]...), 0x87)
	nearP2PKH := append([]byte{}, wP2PKH...)
	nearP2PKH[len(nearP2PKH)-1] ^= 1
	nearW := append([]byte{}, wP2WPKH...)
	nearW[5] ^= 0x80
	foreign := [][]byte{oP2PKH, oP2WPKH, p2sh, wP2WPKH[:21], append(append([]byte{}, wP2WPKH...), 0), {},
		nearP2PKH, nearW, append([]byte{0x00, 0x20}, r.Bytes(32)...), wP2PKH[1:]}
	walletScript := func() []byte {
		if r.Chance(1, 3) {
			return wP2PKH
		}
		return wP2WPKH
	}
	foreignScript := func() []byte { return foreign[r.Intn(len(foreign))] }
	value := func() int64 {
		if r.Chance(2, 3) {
			return []int64{1000, 2000, 5000}[r.Intn(3)]
		}
		if r.Chance(1, 10) {
			return 0
		}
		return int64(r.Range(546, 100000000))
	}
	rndOutpoint := func() wOutpoint { return wOutpoint{hex.EncodeToString(r.Bytes(32)), uint32(r.Intn(3))} }

	w := world{PKH: hex.EncodeToString(pkh[:]), WeakHash: r.Chance(1, 5), MainMode: "det"}
	n := r.Range(0, 6)
	if r.Chance(1, 8) {
		n = r.Range(6, 9)
	}
	var outs []*genOut // wallet and foreign outputs of every tx
	hashes := make([]string, 0, n)
	mempool := make([]bool, n)
	var prevMain *wOutpoint
	var prevMainOut *genOut
	for i := 0; i < n; i++ {
		t := wTx{Locktime: uint32(i + 16*r.Intn(100000))}
		kind := r.Intn(5)
		switch kind {
		case 0, 1: // deposit sweep / moved funds sweep: single output to the wallet
			src := rndOutpoint()
			if kind == 0 {
				w.Deposits = append(w.Deposits, wLook{src.Hash, src.Idx, "found"})
			} else {
				w.Requests = append(w.Requests, wLook{src.Hash, src.Idx, "found"})
			}
			if prevMain != nil && r.Chance(1, 2) {
				t.Inputs = append(t.Inputs, *prevMain) // main UTXO first, like real sweeps
				prevMainOut.spent = true
			}
			t.Inputs = append(t.Inputs, src)
			for k := r.Intn(3); k > 0; k-- {
				d := rndOutpoint()
				w.Deposits = append(w.Deposits, wLook{d.Hash, d.Idx, "found"})
				t.Inputs = append(t.Inputs, d)
			}
			t.Outputs = []wOut{{hex.EncodeToString(walletScript()), value()}}
		case 2: // redemption-like: pays others, change to the wallet
			if prevMain != nil {
				t.Inputs = append(t.Inputs, *prevMain)
				prevMainOut.spent = true
			} else {
				t.Inputs = append(t.Inputs, rndOutpoint())
			}
			for k := r.Range(1, 3); k > 0; k-- {
				t.Outputs = append(t.Outputs, wOut{hex.EncodeToString(foreignScript()), value()})
			}
			change := wOut{hex.EncodeToString(walletScript()), value()}
			if r.Chance(1, 4) {
				t.Outputs = append([]wOut{change}, t.Outputs...)
			} else {
				t.Outputs = append(t.Outputs, change)
			}
		case 3: // spam: somebody pays the wallet, first input is not registered anywhere
			t.Inputs = append(t.Inputs, rndOutpoint())
			if r.Chance(1, 3) { // a later input does point to a deposit
				d := rndOutpoint()
				w.Deposits = append(w.Deposits, wLook{d.Hash, d.Idx, "found"})
				t.Inputs = append(t.Inputs, d)
			}
			k := r.Range(1, 4)
			pos := r.Intn(k)
			for j := 0; j < k; j++ {
				if j == pos || r.Chance(1, 4) {
					t.Outputs = append(t.Outputs, wOut{hex.EncodeToString(walletScript()), value()})
				} else {
					t.Outputs = append(t.Outputs, wOut{hex.EncodeToString(foreignScript()), value()})
				}
			}
		default: // no wallet output at all
			t.Inputs = append(t.Inputs, rndOutpoint())
			for k := r.Range(1, 3); k > 0; k-- {
				t.Outputs = append(t.Outputs, wOut{hex.EncodeToString(foreignScript()), value()})
			}
		}
		mempool[i] = (i == n-1 && r.Chance(1, 3)) || r.Chance(1, 8)
		h := t.build().Hash()
		hs := hex.EncodeToString(h[:])
		hashes = append(hashes, hs)
		w.Txs = append(w.Txs, t)
		for j, o := range t.Outputs {
			isW := o.Script == hex.EncodeToString(wP2PKH) || o.Script == hex.EncodeToString(wP2WPKH)
			g := &genOut{tx: i, idx: j, wallet: isW}
			outs = append(outs, g)
			if isW && kind <= 2 && !mempool[i] {
				prevMain = &wOutpoint{hs, uint32(j)}
				prevMainOut = g
			}
		}
	}
	var walletOuts []*genOut
	for _, g := range outs {
		if g.wallet {
			if !g.spent && r.Chance(1, 5) {
				g.spent = true
			}
			walletOuts = append(walletOuts, g)
			if !g.spent {
				u := wUtxo{hashes[g.tx], uint32(g.idx), w.Txs[g.tx].Outputs[g.idx].Value}
				if mempool[g.tx] {
					w.Mem = append(w.Mem, u)
				} else {
					w.Conf = append(w.Conf, u)
				}
			}
		}
	}
	// transaction history: confirmed first, then mempool; sometimes out of order / duplicated
	for i := 0; i < n; i++ {
		if !mempool[i] {
			w.History = append(w.History, hashes[i])
		}
	}
	for i := 0; i < n; i++ {
		if mempool[i] && r.Chance(2, 3) {
			w.History = append(w.History, hashes[i])
		}
	}
	if len(w.History) > 1 && r.Chance(1, 6) {
		p := r.Perm(len(w.History))
		h2 := make([]string, len(p))
		for i, j := range p {
			h2[i] = w.History[j]
		}
		w.History = h2
	}
	if len(w.History) > 0 && r.Chance(1, 10) {
		w.History = append(w.History, w.History[r.Intn(len(w.History))])
	}
	// registered main UTXO hash
	hashOf := func(g *genOut, dv int64, didx uint32) string {
		u := &bitcoin.UnspentTransactionOutput{
			Outpoint: &bitcoin.TransactionOutpoint{TransactionHash: hash32(hashes[g.tx]), OutputIndex: uint32(g.idx) + didx},
			Value:    w.Txs[g.tx].Outputs[g.idx].Value + dv}
		h := bridgeHash(w.WeakHash, u)
		return hex.EncodeToString(h[:])
	}
	mode := r.Intn(20)
	switch {
	case mode < 4 || len(outs) == 0: // nothing registered
	case mode < 14 && len(walletOuts) > 0:
		k := len(walletOuts) - 1
		if r.Chance(1, 2) {
			k = r.Intn(len(walletOuts))
		}
		w.Registered = hashOf(walletOuts[k], 0, 0)
	case mode < 15 && len(walletOuts) > 0:
		w.Registered = hashOf(walletOuts[r.Intn(len(walletOuts))], 1, 0)
	case mode < 16 && len(walletOuts) > 0:
		w.Registered = hashOf(walletOuts[r.Intn(len(walletOuts))], 0, 1)
	case mode < 18:
		w.Registered = hashOf(outs[r.Intn(len(outs))], 0, 0) // possibly a foreign output
	default:
		w.Registered = hex.EncodeToString(append([]byte{1}, r.Bytes(31)...))
	}
	// the main UTXO handed to the sync check
	if r.Chance(1, 4) {
		w.MainMode = "given"
		all := append(append([]wUtxo{}, w.Conf...), w.Mem...)
		if len(all) > 0 && r.Chance(5, 6) {
			u := all[r.Intn(len(all))]
			switch r.Intn(5) {
			case 0:
				u.Value++
			case 1:
				u.Idx++
			case 2:
				u.Hash = hashes[r.Intn(len(hashes))]
			case 3:
				u.Hash = hex.EncodeToString(r.Bytes(32))
			}
			w.Main = &u
		} else if r.Chance(1, 2) {
			w.Main = &wUtxo{hex.EncodeToString(r.Bytes(32)), 0, value()}
		}
	}
	if malformed {
		all := append(append([]wUtxo{}, w.Conf...), w.Mem...)
		switch r.Intn(8) {
		case 0:
			w.WalletErr, w.Malformed = true, "wallet-err"
		case 1:
			w.HistoryErr, w.Malformed = true, "history-err"
		case 2:
			w.ConfErr, w.Malformed = true, "conf-err"
		case 3:
			w.MemErr, w.Malformed = true, "mem-err"
		case 4:
			if len(w.History) > 0 {
				w.Missing, w.Malformed = []string{w.History[r.Intn(len(w.History))]}, "missing-history-tx"
			}
		case 5:
			if len(all) > 0 {
				w.Missing, w.Malformed = []string{all[r.Intn(len(all))].Hash}, "missing-utxo-tx"
			}
		default:
			// a lookup of some transaction's first input fails
			if n > 0 {
				t := w.Txs[r.Intn(n)]
				e := wLook{t.Inputs[0].Hash, t.Inputs[0].Idx, "err"}
				if r.Bool() {
					w.Deposits = append([]wLook{e}, w.Deposits...)
					w.Malformed = "deposit-lookup-err"
				} else {
					w.Requests = append([]wLook{e}, w.Requests...)
					w.Malformed = "request-lookup-err"
				}
			}
		}
	}
	return w
}

func main() {
	o := lib.ParseOpts()
	em := lib.NewEmitter()
	if o.Replay != "" {
		var w world
		if err := lib.LoadReplay(o.Replay, &w); err != nil {
			fmt.Fprintln(os.Stderr, err)
			os.Exit(2)
		}
		run(w, em, "replay")
		em.Close("replay", nil)
		return
	}
	rng := lib.NewRng(o.Seed)

	// --- corpus: hand-made regression worlds
	for i, w := range corpus() {
		run(w, em, fmt.Sprintf("corpus-%02d", i))
	}
	// --- per-call faults: a base world runs without faults (its case is emitted too), then EVERY
	// chain call it made is failed in turn (one single-fault script per call), then a fault just
	// beyond the last call of a kind (not consulted: nothing may change) and a random multi-fault
	// script. Half of the base worlds are fresh wallets (nothing registered), where the sync check
	// has to classify outputs through GetTransaction / GetDepositRequest / GetMovedFundsSweepRequest.
	budget := o.Count(380, 6000)
	for i, made := 0, 0; made < budget; i++ {
		r := rng.Fork(fmt.Sprintf("f%d", i))
		base := genWorld(r, false)
		if i%2 == 0 {
			base.Registered, base.MainMode, base.Main = "", "det", nil
		}
		run(base, em, fmt.Sprintf("fault-%d-base", i))
		made++
		calls := lastCalls
		single := func(n, k int) []bool {
			l := make([]bool, k+1)
			l[k] = true
			return l
		}
		emit := func(w world, label string) {
			run(w, em, fmt.Sprintf("fault-%d-%s", i, label))
			made++
		}
		type kind struct {
			name string
			n    int
			set  func(f *wFaults, l []bool)
		}
		detKinds := []kind{
			{"wallet", calls[0].Wallet, func(f *wFaults, l []bool) { f.Wallet = l }},
			{"history", calls[0].History, func(f *wFaults, l []bool) { f.History = l }},
			{"tx", calls[0].Tx, func(f *wFaults, l []bool) { f.Tx = l }},
		}
		syncKinds := []kind{
			{"conf", calls[1].Conf, func(f *wFaults, l []bool) { f.Conf = l }},
			{"mem", calls[1].Mem, func(f *wFaults, l []bool) { f.Mem = l }},
			{"tx", calls[1].Tx, func(f *wFaults, l []bool) { f.Tx = l }},
			{"dep", calls[1].Dep, func(f *wFaults, l []bool) { f.Dep = l }},
			{"req", calls[1].Req, func(f *wFaults, l []bool) { f.Req = l }},
		}
		for _, k := range syncKinds {
			for j := 0; j < k.n; j++ {
				w := base
				k.set(&w.FaultsSync, single(k.n, j))
				emit(w, fmt.Sprintf("sync-%s-%d", k.name, j))
			}
		}
		for _, k := range detKinds {
			for j := 0; j < k.n; j++ {
				if k.name == "tx" && j > 0 && j < k.n-1 && !r.Chance(1, 3) {
					continue // history transactions in the middle: a sample
				}
				w := base
				k.set(&w.FaultsDet, single(k.n, j))
				emit(w, fmt.Sprintf("det-%s-%d", k.name, j))
			}
		}
		{ // not consulted: one position beyond the calls made
			w := base
			k := syncKinds[r.Intn(len(syncKinds))]
			k.set(&w.FaultsSync, single(k.n+1, k.n))
			k2 := detKinds[r.Intn(len(detKinds))]
			k2.set(&w.FaultsDet, single(k2.n+1, k2.n))
			emit(w, "beyond")
		}
		{ // random script over both functions
			w := base
			rl := func(n int) []bool {
				l := make([]bool, r.Range(0, n+1))
				for j := range l {
					l[j] = r.Chance(1, 4)
				}
				return l
			}
			w.FaultsSync = wFaults{Conf: rl(1), Mem: rl(1), Tx: rl(calls[1].Tx), Dep: rl(calls[1].Dep), Req: rl(calls[1].Req)}
			if r.Bool() {
				w.FaultsDet = wFaults{Wallet: rl(1), History: rl(1), Tx: rl(calls[0].Tx)}
			}
			emit(w, "script")
		}
	}

	// --- structured random worlds (1 in 8 with an injected chain failure)
	n := o.Count(560, 12000)
	for i := 0; i < n; i++ {
		r := rng.Fork(fmt.Sprintf("w%d", i))
		run(genWorld(r, i%8 == 7), em, fmt.Sprintf("rand-%d", i))
	}
	em.Close("a case is one wallet world (transaction history, UTXO sets, registered main-UTXO hash, bridge "+
		"lookups, and a script saying which chain call of which kind fails at which position) on which DetermineWalletMainUtxo and then EnsureWalletSyncedBetweenChains are run; distinct by the "+
		"canonical case term; non-trivial when >= 2 transactions pay the wallet and either a main UTXO is registered "+
		"or the UTXO sets contain an output-0 UTXO", nil)
}

// corpus builds a few fixed worlds covering each outcome.
func corpus() []world {
	r := lib.NewRng(34)
	var pkh [20]byte
	copy(pkh[:], r.Bytes(20))
	wS, _ := bitcoin.PayToWitnessPublicKeyHash(pkh)
	lS, _ := bitcoin.PayToPublicKeyHash(pkh)
	hx := func(b []byte) string { return hex.EncodeToString(b) }
	dep := wOutpoint{hx(r.Bytes(32)), 1}
	mov := wOutpoint{hx(r.Bytes(32)), 0}
	spamIn := wOutpoint{hx(r.Bytes(32)), 0}
	sweep := wTx{Inputs: []wOutpoint{dep}, Outputs: []wOut{{hx(wS), 5000}}, Locktime: 1}
	moved := wTx{Inputs: []wOutpoint{mov}, Outputs: []wOut{{hx(lS), 7000}}, Locktime: 2}
	spam := wTx{Inputs: []wOutpoint{spamIn, dep}, Outputs: []wOut{{hx(wS), 5000}, {hx(lS), 5000}}, Locktime: 3}
	th := func(t wTx) string { h := t.build().Hash(); return hx(h[:]) }
	regOf := func(t wTx, idx uint32, weak bool) string {
		u := &bitcoin.UnspentTransactionOutput{Outpoint: &bitcoin.TransactionOutpoint{TransactionHash: hash32(th(t)), OutputIndex: idx},
			Value: t.Outputs[idx].Value}
		h := bridgeHash(weak, u)
		return hx(h[:])
	}
	base := world{PKH: hx(pkh[:]), MainMode: "det", Deposits: []wLook{{dep.Hash, dep.Idx, "found"}},
		Requests: []wLook{{mov.Hash, mov.Idx, "found"}}}
	var ws []world
	// fresh wallet, only spam UTXOs: synced
	w := base
	w.Txs, w.History = []wTx{spam}, []string{th(spam)}
	w.Conf = []wUtxo{{th(spam), 0, 5000}, {th(spam), 1, 5000}}
	ws = append(ws, w)
	// fresh wallet whose first sweep is in the mempool: not synced
	w = base
	w.Txs, w.History = []wTx{spam, sweep}, []string{th(spam)}
	w.Conf, w.Mem = []wUtxo{{th(spam), 1, 5000}}, []wUtxo{{th(sweep), 0, 5000}}
	ws = append(ws, w)
	// fresh wallet, moved funds sweep confirmed: not synced
	w = base
	w.Txs, w.History = []wTx{moved}, []string{th(moved)}
	w.Conf = []wUtxo{{th(moved), 0, 7000}}
	ws = append(ws, w)
	// registered main UTXO in the older transaction, unspent
	w = base
	w.Txs, w.History = []wTx{sweep, spam}, []string{th(sweep), th(spam)}
	w.Registered = regOf(sweep, 0, false)
	w.Conf = []wUtxo{{th(sweep), 0, 5000}, {th(spam), 0, 5000}}
	ws = append(ws, w)
	// same, but spent
	w.Conf = []wUtxo{{th(spam), 0, 5000}}
	ws = append(ws, w)
	// same, nothing unspent at all
	w.Conf = nil
	ws = append(ws, w)
	// colliding hashes: the newest matching output wins
	w = base
	w.WeakHash = true
	w.Txs, w.History = []wTx{sweep, spam}, []string{th(sweep), th(spam)}
	w.Registered = regOf(sweep, 0, true)
	w.Conf = []wUtxo{{th(sweep), 0, 5000}, {th(spam), 0, 5000}}
	ws = append(ws, w)
	// registered hash matches nothing
	w = base
	w.Txs, w.History = []wTx{sweep}, []string{th(sweep)}
	w.Registered = hx(append([]byte{9}, r.Bytes(31)...))
	ws = append(ws, w)
	// main UTXO differing only in value from an unspent output
	w = base
	w.Txs, w.History = []wTx{sweep}, []string{th(sweep)}
	w.Conf = []wUtxo{{th(sweep), 0, 5000}}
	w.MainMode, w.Main = "given", &wUtxo{th(sweep), 0, 5001}
	ws = append(ws, w)
	// ---- per-call faults
	// fresh wallet whose own deposit sweep is unspent; the deposit lookup of its first input
	// FAILS (the moved-funds lookup would answer "not found"): the check must not pass
	fresh := base
	fresh.Txs, fresh.History = []wTx{spam, sweep}, []string{th(spam), th(sweep)}
	fresh.Conf = []wUtxo{{th(spam), 1, 5000}, {th(sweep), 0, 5000}}
	w = fresh
	w.FaultsSync = wFaults{Dep: []bool{true}}
	ws = append(ws, w)
	// same wallet, the failure hits the transaction fetch / the moved-funds lookup of a spam output
	w = fresh
	w.Conf = []wUtxo{{th(spam), 0, 5000}, {th(sweep), 0, 5000}}
	w.FaultsSync = wFaults{Tx: []bool{false, true}}
	ws = append(ws, w)
	w.FaultsSync = wFaults{Req: []bool{true}}
	ws = append(ws, w)
	w.FaultsSync = wFaults{Dep: []bool{true}} // spam output's deposit lookup fails: cannot be classified
	ws = append(ws, w)
	// only spam: a failed deposit lookup still forbids a pass; a failure scripted for a call that is
	// never made changes nothing
	w = fresh
	w.Txs, w.History = []wTx{spam}, []string{th(spam)}
	w.Conf = []wUtxo{{th(spam), 0, 5000}, {th(spam), 1, 5000}}
	w.FaultsSync = wFaults{Dep: []bool{true}}
	ws = append(ws, w)
	w.FaultsSync = wFaults{Dep: []bool{false, true}, Req: []bool{false, true}, Tx: []bool{false, true}}
	ws = append(ws, w)
	w.FaultsSync = wFaults{Mem: []bool{true}}
	ws = append(ws, w)
	// with a main UTXO the mempool / lookups are not consulted: their failures are irrelevant
	w = base
	w.Txs, w.History = []wTx{sweep, spam}, []string{th(sweep), th(spam)}
	w.Registered = regOf(sweep, 0, false)
	w.Conf = []wUtxo{{th(sweep), 0, 5000}, {th(spam), 0, 5000}}
	w.FaultsSync = wFaults{Mem: []bool{true}, Tx: []bool{true}, Dep: []bool{true}, Req: []bool{true}}
	ws = append(ws, w)
	w.FaultsSync = wFaults{Conf: []bool{true}}
	ws = append(ws, w)
	// Determine: the newest transaction cannot be fetched / the wallet data cannot be read
	w.FaultsSync = wFaults{}
	w.FaultsDet = wFaults{Tx: []bool{true}}
	ws = append(ws, w)
	w.FaultsDet = wFaults{Tx: []bool{false, false, true}, History: []bool{false, true}} // never consulted
	ws = append(ws, w)
	w.FaultsDet = wFaults{Wallet: []bool{true}}
	ws = append(ws, w)
	return ws
}
